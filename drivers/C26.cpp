// C26 implementation driver: property layering of occa::device on the real library.
// One case per stdin line, one "R ..." line per case (same syntax as extract/C26/driver.ml).
//
//   token  :=  <layer>:<path>=<value>
//   layer  :=  U (user props given to occa::device)  |  S (occa::settings())  |  A (additional props
//              given to kernelProperties/memoryProperties/streamProperties)
//   path   :=  key{/key}      (may be empty for layer A: the whole of A is <value>)
//   value  :=  n<int> | s<text> | o (empty object)
//
// Trees are built by this file's own `setPath` (a leaf on the way is replaced by an object) into a
// private tree type and converted to occa::json node by node, so that none of occa's path
// operations takes part in building the inputs.  U and S always are objects; A is the none-typed
// json() unless an A token is present.
//
// Observation:  mode=<device.mode()>;P<dump props>;K<dump kernelProperties()>;M<..>;T<..>;
//               k<dump kernelProperties(A)>;m<dump memoryProperties(A)>;t<dump streamProperties(A)>
// with `ERR` for an occa::exception (whole line when device construction throws).
#include <iostream>
#include <map>
#include <memory>
#include <sstream>
#include <string>
#include <vector>

#include <occa.hpp>
#include <occa/internal/utils/env.hpp>

struct Node {
  enum Kind { NUM, STR, OBJ } kind = OBJ;
  long long num = 0;
  std::string str;
  std::map<std::string, Node> kids;
};

static std::vector<std::string> splitKeys(const std::string &p) {
  std::vector<std::string> ks;
  if (p.empty()) return ks;
  size_t i = 0;
  while (true) {
    size_t j = p.find('/', i);
    if (j == std::string::npos) { ks.push_back(p.substr(i)); break; }
    ks.push_back(p.substr(i, j - i));
    i = j + 1;
  }
  return ks;
}

static Node parseValue(const std::string &v) {
  Node n;
  if (v.empty() || v[0] == 'o') { n.kind = Node::OBJ; }
  else if (v[0] == 'n') { n.kind = Node::NUM; n.num = std::stoll(v.substr(1)); }
  else { n.kind = Node::STR; n.str = v.substr(1); }
  return n;
}

static void setPath(Node &root, const std::vector<std::string> &ks, const Node &v) {
  Node *cur = &root;
  for (const std::string &k : ks) {
    if (cur->kind != Node::OBJ) { cur->kind = Node::OBJ; cur->kids.clear(); }
    cur = &cur->kids[k];     // a fresh Node is an empty object
  }
  *cur = v;
}

static occa::json toJson(const Node &n) {
  switch (n.kind) {
  case Node::NUM: return occa::json((long) n.num);
  case Node::STR: return occa::json(n.str);
  default: {
    occa::json j(occa::json::object_);
    for (auto &kv : n.kids) j.object()[kv.first] = toJson(kv.second);
    return j;
  }}
}

static void dump(std::ostream &o, const occa::json &j) {
  switch (j.type) {
  case occa::json::none_: o << "~"; break;
  case occa::json::number_:
    if (j.number().isBool() || j.number().isFloat()) o << "?" << j.dump(0);
    else o << "n" << (long long) j.number().to<int64_t>();
    break;
  case occa::json::string_:
    o << "s";
    for (char c : j.string()) { if (c == '\n') o << "\\n"; else if (c == ' ') o << "\\_"; else o << c; }
    break;
  case occa::json::object_: {
    o << "{";
    bool first = true;
    for (auto &kv : j.object()) {       // std::map: ascending byte order
      if (!first) o << ",";
      first = false;
      o << kv.first << ":";
      dump(o, kv.second);
    }
    o << "}";
    break;
  }
  default: o << "?" << j.dump(0);
  }
}

template <class F>
static void guarded(std::ostream &o, F f) {
  std::ostringstream tmp;
  try { f(tmp); o << tmp.str(); }
  catch (occa::exception &) { o << "ERR"; }
  catch (std::exception &e) { o << "EXC"; }
}

int main() {
  std::string line;
  while (std::getline(std::cin, line)) {
    std::istringstream ss(line);
    std::string tok;
    Node U, S, A;
    bool hasA = false, bad = false;
    while (ss >> tok) {
      if (tok.size() < 3 || tok[1] != ':') { bad = true; continue; }
      size_t e = tok.find('=');
      if (e == std::string::npos) { bad = true; continue; }
      std::vector<std::string> ks = splitKeys(tok.substr(2, e - 2));
      Node v = parseValue(tok.substr(e + 1));
      switch (tok[0]) {
      case 'U': if (ks.empty()) bad = true; else setPath(U, ks, v); break;
      case 'S': if (ks.empty()) bad = true; else setPath(S, ks, v); break;
      case 'A': hasA = true; setPath(A, ks, v); break;
      default: bad = true;
      }
    }
    std::ostringstream out;
    if (bad) { std::cout << "R BADCASE" << std::endl; continue; }

    // global settings for this case (thread_local json; an empty one would be re-filled from the
    // environment-derived base settings, hence the sentinel at a key the layering code never reads)
    occa::json &st = occa::settings();
    st = toJson(S);
    st.object()["c26_sentinel"] = occa::json(1);

    const occa::json u = toJson(U);
    const occa::json a = hasA ? toJson(A) : occa::json();
    guarded(out, [&](std::ostream &o) {
      occa::device dev(u);
      o << "mode=" << dev.mode();
      o << ";P"; dump(o, dev.properties());
      o << ";K"; dump(o, dev.kernelProperties());
      o << ";M"; dump(o, dev.memoryProperties());
      o << ";T"; dump(o, dev.streamProperties());
      o << ";k"; guarded(o, [&](std::ostream &q) { dump(q, dev.kernelProperties(a)); });
      o << ";m"; guarded(o, [&](std::ostream &q) { dump(q, dev.memoryProperties(a)); });
      o << ";t"; guarded(o, [&](std::ostream &q) { dump(q, dev.streamProperties(a)); });
    });
    std::cout << "R " << out.str() << std::endl;
  }
  return 0;
}
