// C24 implementation driver: the same cases on the real occa::json (see extract/C24/driver.ml
// for the case syntax).  One "R ..." line per case.
#include <cmath>
#include <csetjmp>
#include <csignal>
#include <sys/mman.h>
#include <unistd.h>
#include <cstdint>
#include <cstring>
#include <iostream>
#include <sstream>
#include <string>
#include <vector>
#include <occa/types/json.hpp>
#include <occa/utils/exception.hpp>

using occa::json;
namespace pt = occa::primitiveType;

struct Bad {};

static int hexv(char c) {
  if (c >= '0' && c <= '9') return c - '0';
  if (c >= 'a' && c <= 'f') return c - 'a' + 10;
  if (c >= 'A' && c <= 'F') return c - 'A' + 10;
  throw Bad();
}
static std::string unhex(const std::string &h) {
  if (h.size() % 2) throw Bad();
  std::string s;
  for (size_t i = 0; i + 1 < h.size(); i += 2) s.push_back((char) (16 * hexv(h[i]) + hexv(h[i + 1])));
  return s;
}
static std::string hex(const std::string &s) {
  static const char *d = "0123456789abcdef";
  std::string o;
  for (unsigned char c : s) { o.push_back(d[c >> 4]); o.push_back(d[c & 15]); }
  return o;
}
static bool startsWith(const std::string &s, const char *p) { return s.compare(0, strlen(p), p) == 0; }

static unsigned long long parseU(const std::string &s) {
  if (s.empty()) throw Bad();
  unsigned long long v = 0;
  for (char c : s) { if (c < '0' || c > '9') throw Bad(); v = v * 10 + (unsigned) (c - '0'); }
  return v;
}
static long long parseS(const std::string &s) {
  if (!s.empty() && s[0] == '-') return (long long) (0ULL - parseU(s.substr(1)));
  return (long long) parseU(s);
}

// a number node: fresh, or (with @src) parsed from text first and then assigned the scalar
template <class T>
static json mkNum(T value, bool hasSrc, const std::string &src) {
  if (!hasSrc) return json(value);
  json n;
  try { n = json::parse(src); } catch (occa::exception &e) { throw Bad(); }
  n = value;
  return n;
}

static json build(const std::vector<std::string> &t, size_t &i) {
  if (i >= t.size()) throw Bad();
  const std::string tok = t[i++];
  if (tok == "N") return json();
  if (tok == "Z") { json j; j.asNull(); return j; }
  if (tok == "B0") return json(false);
  if (tok == "B1") return json(true);
  if (tok == "[") {
    json j; j.asArray();
    while (true) {
      if (i >= t.size()) throw Bad();
      if (t[i] == "]") { ++i; return j; }
      j.array().push_back(build(t, i));
    }
  }
  if (tok == "{") {
    json j; j.asObject();
    while (true) {
      if (i >= t.size()) throw Bad();
      if (t[i] == "}") { ++i; return j; }
      if (!startsWith(t[i], "K:")) throw Bad();
      std::string key = unhex(t[i].substr(2));
      ++i;
      json v = build(t, i);
      j.object()[key] = v;
    }
  }
  if (startsWith(tok, "S:")) return json(unhex(tok.substr(2)));
  std::string body = tok, src;
  bool hasSrc = false;
  size_t at = tok.find('@');
  if (at != std::string::npos) { body = tok.substr(0, at); src = unhex(tok.substr(at + 1)); hasSrc = true; }
  if (startsWith(body, "F32:")) {
    std::string b = body.substr(4);
    if (b.size() != 8) throw Bad();
    uint32_t bits = 0; for (char c : b) bits = (bits << 4) | (uint32_t) hexv(c);
    float f; memcpy(&f, &bits, 4);
    return mkNum(f, hasSrc, src);
  }
  if (startsWith(body, "F64:")) {
    std::string b = body.substr(4);
    if (b.size() != 16) throw Bad();
    uint64_t bits = 0; for (char c : b) bits = (bits << 4) | (uint64_t) hexv(c);
    double f; memcpy(&f, &bits, 8);
    return mkNum(f, hasSrc, src);
  }
  if (body.size() > 1 && body[0] == 'I') {
    size_t c = body.find(':');
    if (c == std::string::npos) throw Bad();
    std::string k = body.substr(1, c - 1), v = body.substr(c + 1);
    if (k == "i8")  return mkNum((int8_t) parseS(v), hasSrc, src);
    if (k == "u8")  return mkNum((uint8_t) parseU(v), hasSrc, src);
    if (k == "i16") return mkNum((int16_t) parseS(v), hasSrc, src);
    if (k == "u16") return mkNum((uint16_t) parseU(v), hasSrc, src);
    if (k == "i32") return mkNum((int32_t) parseS(v), hasSrc, src);
    if (k == "u32") return mkNum((uint32_t) parseU(v), hasSrc, src);
    if (k == "i64") return mkNum((int64_t) parseS(v), hasSrc, src);
    if (k == "u64") return mkNum((uint64_t) parseU(v), hasSrc, src);
    throw Bad();
  }
  throw Bad();
}

static void enc(std::ostream &o, const json &j) {
  switch (j.type) {
  case json::none_: o << "N"; break;
  case json::null_: o << "Z"; break;
  case json::number_: {
    const occa::primitive &p = j.value_.number;
    const std::string src = "@" + hex(p.source);
    switch (p.type) {
    case pt::bool_:   o << "B" << (p.value.bool_ ? 1 : 0) << src; break;
    case pt::int8_:   o << "Ii8:" << (long long) p.value.int8_ << src; break;
    case pt::uint8_:  o << "Iu8:" << (unsigned long long) p.value.uint8_ << src; break;
    case pt::int16_:  o << "Ii16:" << (long long) p.value.int16_ << src; break;
    case pt::uint16_: o << "Iu16:" << (unsigned long long) p.value.uint16_ << src; break;
    case pt::int32_:  o << "Ii32:" << (long long) p.value.int32_ << src; break;
    case pt::uint32_: o << "Iu32:" << (unsigned long long) p.value.uint32_ << src; break;
    case pt::int64_:  o << "Ii64:" << (long long) p.value.int64_ << src; break;
    case pt::uint64_: o << "Iu64:" << (unsigned long long) p.value.uint64_ << src; break;
    case pt::float_: {
      uint32_t b; memcpy(&b, &p.value.float_, 4);
      char buf[32]; snprintf(buf, sizeof buf, "F32:%08x", b); o << buf << src; break;
    }
    case pt::double_: {
      uint64_t b; memcpy(&b, &p.value.double_, 8);
      char buf[40]; snprintf(buf, sizeof buf, "F64:%016llx", (unsigned long long) b); o << buf << src; break;
    }
    default: o << "PN" << src;
    }
    break;
  }
  case json::string_: o << "S:" << hex(j.value_.string); break;
  case json::array_: {
    o << "[";
    bool first = true;
    for (const json &x : j.value_.array) { if (!first) o << ","; first = false; enc(o, x); }
    o << "]";
    break;
  }
  case json::object_: {
    o << "{";
    bool first = true;
    for (auto &kv : j.value_.object) {
      if (!first) o << ",";
      first = false;
      o << "K:" << hex(kv.first) << "=";
      enc(o, kv.second);
    }
    o << "}";
    break;
  }
  default: o << "?";
  }
}

// the oracle's domain: every node initialised, numbers defined and finite
static bool inDomain(const json &j) {
  switch (j.type) {
  case json::none_: return false;
  case json::number_: {
    const occa::primitive &p = j.value_.number;
    if (p.type == pt::float_) return std::isfinite(p.value.float_);
    if (p.type == pt::double_) return std::isfinite(p.value.double_);
    return p.type != pt::none;
  }
  case json::array_: for (const json &x : j.value_.array) if (!inDomain(x)) return false; return true;
  case json::object_: for (auto &kv : j.value_.object) if (!inDomain(kv.second)) return false; return true;
  default: return true;
  }
}

static bool isInt(int t) { return t & (pt::isInteger); }
static bool intValue(const occa::primitive &p, bool &neg, unsigned long long &mag) {
  long long s = 0; unsigned long long u = 0; bool isS = true;
  switch (p.type) {
  case pt::int8_: s = p.value.int8_; break;
  case pt::int16_: s = p.value.int16_; break;
  case pt::int32_: s = p.value.int32_; break;
  case pt::int64_: s = p.value.int64_; break;
  case pt::uint8_: u = p.value.uint8_; isS = false; break;
  case pt::uint16_: u = p.value.uint16_; isS = false; break;
  case pt::uint32_: u = p.value.uint32_; isS = false; break;
  case pt::uint64_: u = p.value.uint64_; isS = false; break;
  default: return false;
  }
  if (isS) { neg = s < 0; mag = neg ? (0ULL - (unsigned long long) s) : (unsigned long long) s; }
  else { neg = false; mag = u; }
  return true;
}

// the mathematical equality of the specification (Spec.json_same)
static bool same(const json &a, const json &b) {
  if (a.type != b.type) return false;
  switch (a.type) {
  case json::null_: return true;
  case json::number_: {
    const occa::primitive &p = a.value_.number, &q = b.value_.number;
    if (p.type == pt::bool_ || q.type == pt::bool_)
      return p.type == q.type && p.value.bool_ == q.value.bool_;
    if (isInt(p.type) && isInt(q.type)) {
      bool n1, n2; unsigned long long m1, m2;
      intValue(p, n1, m1); intValue(q, n2, m2);
      return n1 == n2 && m1 == m2;
    }
    if (p.type == pt::float_ && q.type == pt::float_) return !memcmp(&p.value.float_, &q.value.float_, 4);
    if (p.type == pt::double_ && q.type == pt::double_) return !memcmp(&p.value.double_, &q.value.double_, 8);
    return false;
  }
  case json::string_: return a.value_.string == b.value_.string;
  case json::array_: {
    if (a.value_.array.size() != b.value_.array.size()) return false;
    for (size_t i = 0; i < a.value_.array.size(); ++i) if (!same(a.value_.array[i], b.value_.array[i])) return false;
    return true;
  }
  case json::object_: {
    if (a.value_.object.size() != b.value_.object.size()) return false;
    auto x = a.value_.object.begin(); auto y = b.value_.object.begin();
    for (; x != a.value_.object.end(); ++x, ++y) {
      if (x->first != y->first || !same(x->second, y->second)) return false;
    }
    return true;
  }
  default: return false;
  }
}

// every object rebuilt by inserting its entries in reverse order
static json rebuild(const json &j) {
  if (j.type == json::array_) {
    json r; r.asArray();
    for (const json &x : j.value_.array) r.array().push_back(rebuild(x));
    return r;
  }
  if (j.type == json::object_) {
    json r; r.asObject();
    for (auto it = j.value_.object.rbegin(); it != j.value_.object.rend(); ++it) r.object()[it->first] = rebuild(it->second);
    return r;
  }
  return j;
}

#ifdef C24_HASH_DRIVER
#include <occa/utils/hash.hpp>
static std::string doTree(const std::vector<std::string> &t) {
  if (t.size() < 2) throw Bad();
  size_t i = 2;
  json v = build(t, i);
  if (i != t.size()) throw Bad();
  json v2 = rebuild(v);
  std::ostringstream o;
  o << "R deth=" << ((v2.hash() == v.hash()) ? 1 : 0) << " hd0=" << ((v.hash() == occa::hash(v.dump(0))) ? 1 : 0);
  return o.str();
}
#else
static std::string doTree(const std::vector<std::string> &t) {
  if (t.size() < 2) throw Bad();
  int indent;
  try { size_t pos; indent = std::stoi(t[1], &pos); if (pos != t[1].size()) throw Bad(); } catch (std::exception &) { throw Bad(); }
  size_t i = 2;
  json v = build(t, i);
  if (i != t.size()) throw Bad();
  const std::string d = v.dump(indent);
  const bool dom = inDomain(v);
  json v2 = rebuild(v);
  const bool det = (v2.dump(indent) == d);
  std::string eq, sm;
  std::ostringstream tree;
  try {
    json k = json::parse(d);
    if (dom) {
      try { eq = (k == v) ? "1" : "0"; } catch (occa::exception &e) { eq = "X"; }
      sm = same(k, v) ? "1" : "0";
    } else {
      // outside the oracle's domain (none nodes, non-finite floats) only the texts and trees are compared
      eq = "-"; sm = "-";
    }
    enc(tree, k);
  } catch (occa::exception &e) {
    eq = "E"; sm = "-"; tree.str("ERR");
  }
  std::ostringstream o;
  o << "R dom=" << (dom ? 1 : 0) << " eq=" << eq << " same=" << sm << " det=" << (det ? 1 : 0)
    << " dump=" << hex(d) << " tree=" << tree.str();
  return o.str();
}

#endif

// The text is placed so that its terminating NUL is the last byte before an inaccessible page: a read
// past the terminator (model: Oob) faults at once, and the handler turns it into the observation
// "R OOB" instead of a sanitizer report that would end the process.
static sigjmp_buf oobJump;
static void onSegv(int) { siglongjmp(oobJump, 1); }

static std::string doParse(const std::vector<std::string> &t) {
  if (t.size() > 2) throw Bad();
  const std::string text = t.size() == 2 ? unhex(t[1]) : std::string();
  const size_t page = (size_t) sysconf(_SC_PAGESIZE);
  const size_t pages = (text.size() + 1 + page - 1) / page;
  char *area = (char*) mmap(NULL, (pages + 1) * page, PROT_READ | PROT_WRITE, MAP_PRIVATE | MAP_ANONYMOUS, -1, 0);
  if (area == (char*) MAP_FAILED) throw Bad();
  mprotect(area + pages * page, page, PROT_NONE);
  char *buf = area + pages * page - (text.size() + 1);
  memcpy(buf, text.data(), text.size());
  buf[text.size()] = '\0';
  struct sigaction sa, old;
  memset(&sa, 0, sizeof sa);
  sa.sa_handler = onSegv;
  sigemptyset(&sa.sa_mask);
  sigaction(SIGSEGV, &sa, &old);
  std::ostringstream o;
  if (sigsetjmp(oobJump, 1) == 0) {
    try {
      const char *c = buf;
      json j = json::parse(c);
      o << "R tree=";
      enc(o, j);
      o << " off=" << (long) (c - buf);
    } catch (occa::exception &e) {
      o.str("");
      o << "R ERR";
    }
  } else {
    o.str("");
    o << "R OOB";
  }
  sigaction(SIGSEGV, &old, NULL);
  munmap(area, (pages + 1) * page);
  return o.str();
}

int main() {
  std::string line;
  while (std::getline(std::cin, line)) {
    std::istringstream ss(line);
    std::vector<std::string> t;
    std::string tok;
    while (ss >> tok) t.push_back(tok);
    std::string out;
    try {
      if (!t.empty() && t[0] == "T") out = doTree(t);
      else if (!t.empty() && t[0] == "P") out = doParse(t);
      else throw Bad();
    } catch (Bad &) {
      out = "R BAD";
    }
    std::cout << out << std::endl;
  }
  return 0;
}
