// C10: definitions of the OKL vector types for the host compiler.  Serial-mode translation leaves
// `float2 *x` etc. in the kernel source without declaring them; the kernels built by drivers/C10.cpp
// get this header through -include (compiler_flags).  Only the host compiler sees it: the OKL parser
// keeps treating the names as its builtin primitives.
#ifndef VERIF_C10_VEC_HPP
#define VERIF_C10_VEC_HPP
#include <cstddef>
struct uchar2 { unsigned char x, y; };
struct uchar3 { unsigned char x, y, z; };
struct uchar4 { unsigned char x, y, z, w; };
struct char2 { char x, y; };
struct char3 { char x, y, z; };
struct char4 { char x, y, z, w; };
struct ushort2 { unsigned short x, y; };
struct ushort3 { unsigned short x, y, z; };
struct ushort4 { unsigned short x, y, z, w; };
struct short2 { short x, y; };
struct short3 { short x, y, z; };
struct short4 { short x, y, z, w; };
struct uint2 { unsigned int x, y; };
struct uint3 { unsigned int x, y, z; };
struct uint4 { unsigned int x, y, z, w; };
struct int2 { int x, y; };
struct int3 { int x, y, z; };
struct int4 { int x, y, z, w; };
struct ulong2 { unsigned long x, y; };
struct ulong3 { unsigned long x, y, z; };
struct ulong4 { unsigned long x, y, z, w; };
struct long2 { long x, y; };
struct long3 { long x, y, z; };
struct long4 { long x, y, z, w; };
struct float2 { float x, y; };
struct float3 { float x, y, z; };
struct float4 { float x, y, z, w; };
struct double2 { double x, y; };
struct double3 { double x, y, z; };
struct double4 { double x, y, z, w; };
#endif
