// C15 implementation driver: the real tokenizer, expressionParser and printers.
// One case per stdin line, one "R ..." line per case (same syntax as extract/C15/driver.ml):
//   E <hex> ...   expression source: tokenize, expressionParser::parse, dump the tree, print it with
//                 exprNode::toString(), parse the printed text again, dump:  R E <tree>|<printed hex>|<tree2>
// tree dump: I<hex> identifier, P<hex> primitive (source text), S<hex> string, C<hex> char,
//   L<symhex>.<b1>.<b2>(e) left unary, R<symhex>.<b1>.<b2>(e) right unary, B<symhex>.<b1>.<b2>(l,r) binary,
//   G(e) parentheses, F(f;a;b...) call, X(a,i) subscript, T(c,a,b) ternary, N empty, Z<type>(<printed hex>) others,
//   ERR when the parser reports an error (returns NULL).
#include <cstdlib>
#include <cstring>
#include <iostream>
#include <sstream>
#include <string>
#include <vector>

#include <occa/internal/lang/expr.hpp>
#include <occa/internal/lang/tokenizer.hpp>
#include <occa/internal/lang/token.hpp>

using namespace occa::lang;

static std::string unhex(const std::string &h) {
  std::string s;
  for (size_t i = 0; i + 1 < h.size(); i += 2) {
    s.push_back((char) std::stoi(h.substr(i, 2), nullptr, 16));
  }
  return s;
}

static std::string hex(const std::string &s) {
  static const char *d = "0123456789abcdef";
  std::string h;
  for (unsigned char c : s) {
    h.push_back(d[c >> 4]);
    h.push_back(d[c & 15]);
  }
  return h;
}

static std::string opTag(const operator_t &op) {
  std::ostringstream o;
  o << hex(op.str) << "." << op.opType.b1 << "." << op.opType.b2;
  return o.str();
}

static void dump(std::ostream &o, const exprNode *e) {
  if (!e) { o << "NULL"; return; }
  const occa::udim_t ty = e->type();
  if (ty & exprNodeType::empty)            { o << "N"; }
  else if (ty & exprNodeType::identifier)  { o << "I" << hex(((const identifierNode*) e)->value); }
  else if (ty & exprNodeType::primitive)   { o << "P" << hex(((const primitiveNode*) e)->value.toString()); }
  else if (ty & exprNodeType::string)      { o << "S" << hex(((const stringNode*) e)->value); }
  else if (ty & exprNodeType::char_)       { o << "C" << hex(((const charNode*) e)->value); }
  else if (ty & exprNodeType::ternary) {
    const ternaryOpNode *t = (const ternaryOpNode*) e;
    o << "T("; dump(o, t->checkValue); o << ","; dump(o, t->trueValue); o << ","; dump(o, t->falseValue); o << ")";
  }
  else if (ty & exprNodeType::leftUnary) {
    const leftUnaryOpNode *n = (const leftUnaryOpNode*) e;
    o << "L" << opTag(n->op) << "("; dump(o, n->value); o << ")";
  }
  else if (ty & exprNodeType::rightUnary) {
    const rightUnaryOpNode *n = (const rightUnaryOpNode*) e;
    o << "R" << opTag(n->op) << "("; dump(o, n->value); o << ")";
  }
  else if (ty & exprNodeType::binary) {
    const binaryOpNode *n = (const binaryOpNode*) e;
    o << "B" << opTag(n->op) << "("; dump(o, n->leftValue); o << ","; dump(o, n->rightValue); o << ")";
  }
  else if (ty & exprNodeType::parentheses) {
    o << "G("; dump(o, ((const parenthesesNode*) e)->value); o << ")";
  }
  else if (ty & exprNodeType::call) {
    const callNode *n = (const callNode*) e;
    o << "F("; dump(o, n->value);
    for (size_t i = 0; i < n->args.size(); ++i) { o << ";"; dump(o, n->args[i]); }
    o << ")";
  }
  else if (ty & exprNodeType::subscript) {
    const subscriptNode *n = (const subscriptNode*) e;
    o << "X("; dump(o, n->value); o << ","; dump(o, n->index); o << ")";
  }
  else {
    o << "Z" << ty << "(" << hex(e->toString()) << ")";
  }
}

static exprNode* parseSource(const std::string &src) {
  tokenVector tokens = tokenizer_t::tokenize(src);
  // statements hand the expression parser their tokens without newlines
  tokenVector kept;
  for (token_t *t : tokens) {
    if (t->type() & (tokenType::newline | tokenType::comment)) { delete t; } else { kept.push_back(t); }
  }
  return expressionParser::parse(kept);
}

int main() {
  std::string line;
  while (std::getline(std::cin, line)) {
    std::istringstream ss(line);
    std::string kind, tok, h;
    ss >> kind;
    while (ss >> tok) h += tok;
    std::ostringstream out;
    if (kind == "E") {
      const std::string src = unhex(h);
      exprNode *e = parseSource(std::string(src.c_str()));
      out << "E ";
      if (!e) {
        out << "ERR";
      } else {
        dump(out, e);
        const std::string printed = e->toString();
        out << "|" << hex(printed) << "|";
        exprNode *e2 = parseSource(printed);
        if (!e2) { out << "ERR"; } else { dump(out, e2); delete e2; }
        delete e;
      }
    } else {
      out << "BADCASE";
    }
    std::cout << "R " << out.str() << std::endl;
  }
  return 0;
}
