// C15 implementation driver: the real tokenizer, expressionParser and printers.
// One case per stdin line, one "R ..." line per case (same syntax as extract/C15/driver.ml):
//   E <hex> ...   expression source: tokenize, expressionParser::parse, dump the tree, print it with
//   F <hex> ...   exprNode::toString(), parse the printed text again, dump; then the C12 token observation of
//                 the source and of the printed text:  R E <tree>|<printed hex>|<tree2>|<tokens>|<tokens2>
//                 (E and F differ only in what the specification side requires)
// tree dump: I<hex> identifier, P<hex> primitive (source text), S<hex> string, C<hex> char,
//   L<symhex>.<b1>.<b2>(e) left unary, R<symhex>.<b1>.<b2>(e) right unary, B<symhex>.<b1>.<b2>(l,r) binary,
//   G(e) parentheses, F(f;a;b...) call, X(a,i) subscript, T(c,a,b) ternary, N empty, Z<type>(<printed hex>) others,
//   ERR when the parser reports an error (returns NULL).
//   P <hex> ...   a program: parser_t::parseSource, statement dump, toString(), parse that, dump, toString():
//                 R P <statements>|<printed hex>|<statements2>|<printed2 hex>
#include <cstdlib>
#include <cstring>
#include <iostream>
#include <sstream>
#include <string>
#include <vector>

#include <occa/internal/lang/expr.hpp>
#include <occa/internal/lang/parser.hpp>
#include <occa/internal/lang/statement.hpp>
#include <occa/internal/lang/tokenizer.hpp>
#include <occa/internal/lang/token.hpp>

using namespace occa::lang;

static std::string unhex(const std::string &h) {
  std::string s;
  for (size_t i = 0; i + 1 < h.size(); i += 2) {
    s.push_back((char) std::stoi(h.substr(i, 2), nullptr, 16));
  }
  return s;
}

static std::string hex(const std::string &s) {
  static const char *d = "0123456789abcdef";
  std::string h;
  for (unsigned char c : s) {
    h.push_back(d[c >> 4]);
    h.push_back(d[c & 15]);
  }
  return h;
}

static std::string opTag(const operator_t &op) {
  std::ostringstream o;
  o << hex(op.str) << "." << op.opType.b1 << "." << op.opType.b2;
  return o.str();
}

static void dump(std::ostream &o, const exprNode *e) {
  if (!e) { o << "NULL"; return; }
  const occa::udim_t ty = e->type();
  if (ty & exprNodeType::empty)            { o << "N"; }
  else if (ty & exprNodeType::identifier)  { o << "I" << hex(((const identifierNode*) e)->value); }
  else if (ty & exprNodeType::primitive)   { o << "P" << hex(((const primitiveNode*) e)->value.toString()); }
  else if (ty & exprNodeType::string)      { o << "S" << hex(((const stringNode*) e)->value); }
  else if (ty & exprNodeType::char_)       { o << "C" << hex(((const charNode*) e)->value); }
  else if (ty & exprNodeType::ternary) {
    const ternaryOpNode *t = (const ternaryOpNode*) e;
    o << "T("; dump(o, t->checkValue); o << ","; dump(o, t->trueValue); o << ","; dump(o, t->falseValue); o << ")";
  }
  else if (ty & exprNodeType::leftUnary) {
    const leftUnaryOpNode *n = (const leftUnaryOpNode*) e;
    o << "L" << opTag(n->op) << "("; dump(o, n->value); o << ")";
  }
  else if (ty & exprNodeType::rightUnary) {
    const rightUnaryOpNode *n = (const rightUnaryOpNode*) e;
    o << "R" << opTag(n->op) << "("; dump(o, n->value); o << ")";
  }
  else if (ty & exprNodeType::binary) {
    const binaryOpNode *n = (const binaryOpNode*) e;
    o << "B" << opTag(n->op) << "("; dump(o, n->leftValue); o << ","; dump(o, n->rightValue); o << ")";
  }
  else if (ty & exprNodeType::parentheses) {
    o << "G("; dump(o, ((const parenthesesNode*) e)->value); o << ")";
  }
  else if (ty & exprNodeType::call) {
    const callNode *n = (const callNode*) e;
    o << "F("; dump(o, n->value);
    for (size_t i = 0; i < n->args.size(); ++i) { o << ";"; dump(o, n->args[i]); }
    o << ")";
  }
  else if (ty & exprNodeType::subscript) {
    const subscriptNode *n = (const subscriptNode*) e;
    o << "X("; dump(o, n->value); o << ","; dump(o, n->index); o << ")";
  }
  else {
    o << "Z" << ty << "(" << hex(e->toString()) << ")";
  }
}

// C12's token observation (kind, value, encoding, suffix), without newlines and comments
static std::string showToken(token_t *t) {
  const int ty = t->type();
  std::ostringstream o;
  if (ty == tokenType::identifier)      { o << "I" << hex(t->to<identifierToken>().value); }
  else if (ty == tokenType::primitive)  { o << "P" << hex(t->to<primitiveToken>().strValue); }
  else if (ty == tokenType::op)         { o << "O" << hex(t->to<operatorToken>().op->str); }
  else if (ty == tokenType::char_) {
    charToken &c = t->to<charToken>();
    o << "C" << c.encoding << "." << hex(c.value) << "." << hex(c.udf);
  }
  else if (ty == tokenType::string) {
    stringToken &s = t->to<stringToken>();
    o << "S" << s.encoding << "." << hex(s.value) << "." << hex(s.udf);
  }
  else if (ty == tokenType::unknown)    { o << "U" << hex(std::string(1, t->origin.position.start[0])); }
  else { o << "X" << ty; }
  return o.str();
}

static std::string tokenDump(const std::string &src) {
  tokenVector tokens = tokenizer_t::tokenize(src);
  std::string s;
  for (token_t *t : tokens) {
    if (!(t->type() & (tokenType::newline | tokenType::comment))) {
      if (s.size()) s += ",";
      s += showToken(t);
    }
  }
  freeTokenVector(tokens);
  return s;
}

static exprNode* parseSource(const std::string &src) {
  tokenVector tokens = tokenizer_t::tokenize(src);
  // statements hand the expression parser their tokens without newlines
  tokenVector kept;
  for (token_t *t : tokens) {
    if (t->type() & (tokenType::newline | tokenType::comment)) { delete t; } else { kept.push_back(t); }
  }
  return expressionParser::parse(kept);
}

// statement tree: <type>{children} for block statements, <type>:<printed hex> for the others
static void dumpStatement(std::ostream &o, statement_t &s) {
  o << s.type();
  if (s.is<blockStatement>()) {
    blockStatement &b = s.to<blockStatement>();
    o << "{";
    for (int i = 0; i < b.children.length(); ++i) {
      if (i) o << ",";
      dumpStatement(o, *b.children[i]);
    }
    o << "}";
  } else {
    o << ":" << hex(s.toString());
  }
}

// P: parse a program with parser_t, print it, parse the printed program, print again
static std::string programCase(const std::string &src) {
  std::ostringstream out;
  parser_t p1;
  p1.parseSource(src);
  if (!p1.success) return "ERR";
  const std::string printed = p1.toString();
  dumpStatement(out, p1.root);
  out << "|" << hex(printed) << "|";
  parser_t p2;
  p2.parseSource(printed);
  if (!p2.success) { out << "ERR|"; return out.str(); }
  dumpStatement(out, p2.root);
  out << "|" << hex(p2.toString());
  return out.str();
}

int main() {
  std::string line;
  while (std::getline(std::cin, line)) {
    std::istringstream ss(line);
    std::string kind, tok, h;
    ss >> kind;
    while (ss >> tok) h += tok;
    std::ostringstream out;
    if (kind == "E" || kind == "F" || kind == "G") {
      const std::string raw = unhex(h);
      const std::string src(raw.c_str());     // C string: cut at the first NUL; stays alive while e is used
      exprNode *e = parseSource(src);
      out << kind << " ";
      if (!e) {
        out << "ERR";
      } else if (e->type() & exprNodeType::pair) {
        out << "PAIR";                        // an unclosed bracket: pairNode::print only reports an error
        delete e;
      } else {
        dump(out, e);
        const std::string printed = e->toString();
        out << "|" << hex(printed) << "|";
        exprNode *e2 = parseSource(printed);
        if (!e2) { out << "ERR"; } else { dump(out, e2); delete e2; }
        out << "|" << tokenDump(src) << "|" << tokenDump(printed);
        delete e;
      }
    } else if (kind == "P") {
      const std::string raw = unhex(h);
      out << "P " << programCase(std::string(raw.c_str()));
    } else {
      out << "BADCASE";
    }
    std::cout << "R " << out.str() << std::endl;
  }
  return 0;
}
