// C02 implementation driver: the same histories on the real occa::memory / occa::device
// (Serial and OpenMP devices).  One history per stdin line, one "R ..." line per history; the case
// syntax and the observations are described in extract/C02/driver.ml.
//
// Host arrays are filled with pat(seed, i) = (seed + 31 i) mod 256.  Destination arrays of copyTo are
// pre-filled with 0xEE and are byte_size()+64 long: the driver prints the first `count * dtype` bytes and
// flags any change behind them.  A sanitizer report / signal ends the process; the framework records
// it as CRASH for that history.
#include <cstdint>
#include <cstdlib>
#include <cstring>
#include <iostream>
#include <sstream>
#include <string>
#include <vector>
#include <occa.hpp>

static const int NSLOTS = 6;

static occa::dtype_t *vec3 = nullptr, *rgb = nullptr;
static occa::device *devs[2] = {nullptr, nullptr};   // never destroyed (reachable at exit)

static const occa::dtype_t& dtypeOf(long long bytes) {
  switch (bytes) {
    case 1: return occa::dtype::byte;
    case 2: return occa::dtype::short_;
    case 3: return *rgb;
    case 4: return occa::dtype::float_;
    case 8: return occa::dtype::double_;
    case 12: return *vec3;
    default: return occa::dtype::byte;
  }
}

static unsigned char pat(long long seed, uint64_t i) {
  long long v = (seed + 31LL * (long long) i) % 256;
  if (v < 0) v += 256;
  return (unsigned char) v;
}

static std::vector<std::string> split(const std::string &s, char c) {
  std::vector<std::string> out;
  std::string cur;
  for (char ch : s) {
    if (ch == c) { out.push_back(cur); cur.clear(); } else cur.push_back(ch);
  }
  out.push_back(cur);
  return out;
}

static long long num(const std::string &s) {
  // INT64_MIN..INT64_MAX
  return (long long) strtoll(s.c_str(), nullptr, 10);
}

static void hex(std::ostream &o, const unsigned char *p, uint64_t n) {
  static const char *d = "0123456789abcdef";
  for (uint64_t i = 0; i < n; ++i) { o << d[p[i] >> 4] << d[p[i] & 15]; }
}

struct HostArr { unsigned char *p; uint64_t n; };

int main() {
  vec3 = new occa::dtype_t("vec3");
  vec3->addField("x", occa::dtype::float_).addField("y", occa::dtype::float_).addField("z", occa::dtype::float_);
  vec3->registerType();
  rgb = new occa::dtype_t("rgb");
  rgb->addField("r", occa::dtype::char_).addField("g", occa::dtype::char_).addField("b", occa::dtype::char_);
  rgb->registerType();

  devs[0] = new occa::device({{"mode", "Serial"}});

  std::string line;
  while (std::getline(std::cin, line)) {
    std::istringstream ss(line);
    std::string tok;
    std::ostringstream out;
    bool first = true;
    occa::device *dev = devs[0];
    {
      occa::memory h[NSLOTS];
      std::vector<HostArr> wraps;      // host arrays aliased by a wrapped memory (registered on success)
      std::vector<unsigned char*> owned;
      while (ss >> tok) {
        if (tok[0] == 'M') {
          if (tok == "M1") {
            if (!devs[1]) devs[1] = new occa::device({{"mode", "OpenMP"}});
            dev = devs[1];
          } else {
            dev = devs[0];
          }
          continue;
        }
        std::vector<std::string> f = split(tok, ':');
        const char k = f[0][0];
        std::string ob = "OK";
        try {
          if (k == 'm') {
            int d = (int) num(f[1]);
            h[d] = dev->malloc(num(f[2]), dtypeOf(num(f[3])));
          } else if (k == 'h' || k == 'w') {
            int d = (int) num(f[1]);
            long long n = num(f[2]), dt = num(f[3]), seed = num(f[4]);
            const bool uhp = (k == 'h') && f[5] == "1";
            __int128 want = (__int128) n * dt;
            uint64_t len = (want > 0 && want < (1 << 24)) ? (uint64_t) want : 0;
            // exact size, so that an access beyond the wrapped range is visible to ASan
            unsigned char *p = (unsigned char*) ::malloc(len ? len : 1);
            owned.push_back(p);
            for (uint64_t i = 0; i < len; ++i) p[i] = pat(seed, i);
            occa::memory r;
            if (k == 'w') {
              r = dev->wrapMemory((const void*) p, n, dtypeOf(dt));
            } else if (uhp) {
              r = dev->malloc(n, dtypeOf(dt), (const void*) p, {{"use_host_pointer", true}});
            } else {
              r = dev->malloc(n, dtypeOf(dt), (const void*) p);
            }
            h[d] = r;
            if ((k == 'w' || uhp) && r.isInitialized()) wraps.push_back(HostArr{p, len});
          } else if (k == 'g') {
            int d = (int) num(f[1]);
            h[d] = dev->malloc(num(f[2]), dtypeOf(num(f[3])), h[num(f[4])]);
          } else if (k == 's') {
            int d = (int) num(f[1]), s = (int) num(f[2]);
            long long off = num(f[3]), cnt = num(f[4]);
            if (cnt == -1 && d == s) { h[d] += off; }
            else if (cnt == -1 && (off & 1)) { h[d] = h[s] + off; }
            else if (cnt == -1) { h[d] = h[s].slice(off); }
            else { h[d] = h[s].slice(off, cnt); }
          } else if (k == 'c') {
            h[num(f[1])] = h[num(f[2])].cast(dtypeOf(num(f[3])));
          } else if (k == 'k') {
            h[num(f[1])] = h[num(f[2])].clone();
          } else if (k == 'F' || k == 'T') {
            occa::memory &m = h[num(f[1])];
            long long cnt = num(f[2]), off = num(f[3]);
            const uint64_t cap = (uint64_t) m.byte_size() + 64;
            std::vector<unsigned char> buf(cap);
            if (k == 'F') {
              long long seed = num(f[4]);
              for (uint64_t i = 0; i < cap; ++i) buf[i] = pat(seed, i);
              if (cnt == -1 && off == 0) m.copyFrom((const void*) buf.data());
              else m.copyFrom((const void*) buf.data(), cnt, off);
            } else {
              memset(buf.data(), 0xEE, cap);
              if (cnt == -1 && off == 0) m.copyTo((void*) buf.data());
              else m.copyTo((void*) buf.data(), cnt, off);
              // bytes the call was asked for, computed as the library's unsigned product
              uint64_t n = (uint64_t) m.dtype().bytes() * (cnt == -1 ? (uint64_t) m.length() : (uint64_t) cnt);
              std::ostringstream b;
              b << "B";
              if (n > cap) { b << "!" << n; n = 0; }
              hex(b, buf.data(), n);
              for (uint64_t i = n; i < cap; ++i) if (buf[i] != 0xEE) { b << "+DIRTY"; break; }
              ob = b.str();
            }
          } else if (k == 'f') {
            occa::memory &a = h[num(f[1])], &b = h[num(f[2])];
            long long cnt = num(f[3]), doff = num(f[4]), soff = num(f[5]);
            if (cnt == -1 && doff == 0 && soff == 0) a.copyFrom(b);
            else a.copyFrom(b, cnt, doff, soff);
          } else if (k == 't') {
            occa::memory &a = h[num(f[1])], &b = h[num(f[2])];
            long long cnt = num(f[3]), doff = num(f[4]), soff = num(f[5]);
            if (cnt == -1 && doff == 0 && soff == 0) a.copyTo(b);
            else a.copyTo(b, cnt, doff, soff);
          } else if (k == 'a') {
            h[num(f[1])] = h[num(f[2])];
          } else if (k == 'r') {
            h[num(f[1])] = occa::memory();
          } else if (k == 'z') {
            occa::memory &m = h[num(f[1])];
            std::ostringstream b;
            b << "N" << m.length() << "," << m.byte_size() << "," << (m.isInitialized() ? m.dtype().bytes() : 0);
            ob = b.str();
          } else if (k == 'H') {
            size_t i = (size_t) num(f[1]);
            std::ostringstream b;
            if (i < wraps.size()) { b << "B"; hex(b, wraps[i].p, wraps[i].n); } else { b << "N"; }
            ob = b.str();
          } else {
            ob = "BADTOKEN";
          }
        } catch (occa::exception &e) {
          ob = "ERR";
        }
        if (!first) out << ";";
        first = false;
        out << ob;
      }
      // handles die before the host arrays they may wrap
      for (int i = 0; i < NSLOTS; ++i) h[i] = occa::memory();
      for (unsigned char *p : owned) ::free(p);
    }
    std::cout << "R " << out.str() << std::endl;
  }
  return 0;
}
