// C20 emulation of the documented launch model of the GPU back ends, for compiling the *unchanged* output of
// `occa translate -m {CUDA,HIP,OpenCL,Metal,dpcpp}` (kernel source and launcher source) with g++ and running it
// on the host.  Part of the trusted base of the C20 tie.
//
// Select the dialect with exactly one of  -DC20_CUDA  -DC20_HIP  -DC20_OPENCL  -DC20_METAL  -DC20_DPCPP
// and pass this file with -include.  The headers the translations #include (<hip/hip_runtime.h>, <metal_stdlib>,
// <metal_compute>, <CL/sycl.hpp>, <occa/core/kernel.hpp>) are empty stubs written by tools/C20_run.py.
//
// Launch model emulated (CUDA programming guide ch. 2/5, OpenCL 1.2 ch. 3.2, Metal shading language ch. 5,
// SYCL 2020 ch. 3.7/4.9): a grid of blocks (work-groups, threadgroups); every block has the same number of threads
// (work-items); all threads of a block run the kernel function from the start; a barrier returns in a thread only
// after every thread of its block has called it; shared (__shared__, __local, threadgroup, group-local) memory
// is one object per block; everything else declared in the kernel is per thread.  Blocks are run one after the other,
// the threads of a block round-robin: a thread runs until its next barrier (or its end), then the next thread.
// Each GPU thread is a host thread that runs only while it holds the token, so the execution is sequential and
// deterministic, atomics are plain operations, and AddressSanitizer sees ordinary stacks.
// A thread that ends while others wait at a barrier, or barriers reached a different number of times, abort
// the run ("barrier divergence").
#pragma once
#include <stdio.h>
#include <stdlib.h>
#include <string.h>
#include <unistd.h>
#include <pthread.h>
#include <semaphore.h>
// (only C headers: the check compiles hundreds of these programs)

namespace c20 {
  struct uint3_t { unsigned x, y, z; };
  static uint3_t g_block = {0, 0, 0}, g_thread = {0, 0, 0}, g_bdim = {1, 1, 1}, g_gdim = {1, 1, 1};   // one translation unit per program
  enum { MAX_LOCAL = 64 };
  static int g_local_seq = 0;                     // DPC++: index of the next group-local allocation of the running thread
  static void *g_local_allocs[MAX_LOCAL];         // DPC++: group-local allocations of the running block
  static int g_local_count = 0;

  enum { RUNNING = 0, AT_BARRIER = 1, DONE = 2 };
  struct Worker {
    pthread_t th;
    sem_t go;
    int status;
    uint3_t tid;
    int local_seq;
  };
  static sem_t g_back;
  static Worker *g_cur = 0;
  static void (*g_body)(void*) = 0;
  static void *g_body_ctx = 0;

  static void* worker_main(void *p) {
    Worker *w = (Worker*) p;
    sem_wait(&w->go);
    g_body(g_body_ctx);
    w->status = DONE;
    sem_post(&g_back);
    return 0;
  }

  // called by the kernel code
  static inline void barrier() {
    Worker *w = g_cur;
    w->status = AT_BARRIER;
    w->local_seq = g_local_seq;
    sem_post(&g_back);
    sem_wait(&w->go);
  }

  static void fail(const char *what) {
    fprintf(stderr, "C20-EMUL-ERROR: %s\n", what);
    fflush(stderr);
    _exit(70);
  }

  // run body(ctx) once per thread of every block
  static void run_grid(uint3_t grid, uint3_t block, void (*body)(void*), void *ctx) {
    const size_t nthreads = (size_t) block.x * block.y * block.z;
    if (nthreads == 0 || (size_t) grid.x * grid.y * grid.z == 0) return;
    if (nthreads > 8192) fail("block too large for the emulation");
    g_bdim = block; g_gdim = grid; g_body = body; g_body_ctx = ctx;
    sem_init(&g_back, 0, 0);
    pthread_attr_t attr;
    pthread_attr_init(&attr);
    pthread_attr_setstacksize(&attr, 1 << 20);
    Worker *ws = (Worker*) malloc(sizeof(Worker) * nthreads);
    for (unsigned bz = 0; bz < grid.z; ++bz) for (unsigned by = 0; by < grid.y; ++by) for (unsigned bx = 0; bx < grid.x; ++bx) {
      g_block.x = bx; g_block.y = by; g_block.z = bz;
      size_t t = 0;
      for (unsigned tz = 0; tz < block.z; ++tz) for (unsigned ty = 0; ty < block.y; ++ty) for (unsigned tx = 0; tx < block.x; ++tx) {
        Worker &w = ws[t++];
        w.status = RUNNING; w.tid.x = tx; w.tid.y = ty; w.tid.z = tz; w.local_seq = 0;
        sem_init(&w.go, 0, 0);
        if (pthread_create(&w.th, &attr, worker_main, &w) != 0) fail("pthread_create");
      }
      size_t done = 0;
      while (done < nthreads) {
        size_t at_barrier = 0;
        for (size_t i = 0; i < nthreads; ++i) {
          Worker &w = ws[i];
          if (w.status == DONE) continue;
          w.status = RUNNING;
          g_cur = &w; g_thread = w.tid; g_local_seq = w.local_seq;
          sem_post(&w.go);
          sem_wait(&g_back);
          if (w.status == DONE) ++done; else ++at_barrier;
        }
        if (done != 0 && done != nthreads && at_barrier != 0) fail("barrier divergence: some threads of a block ended while others wait at a barrier");
      }
      for (size_t i = 0; i < nthreads; ++i) { pthread_join(ws[i].th, 0); sem_destroy(&ws[i].go); }
      for (int i = 0; i < g_local_count; ++i) free(g_local_allocs[i]);
      g_local_count = 0;
    }
    free(ws);
    pthread_attr_destroy(&attr);
    sem_destroy(&g_back);
  }
}

// ------------------------------------------------------------------------------------------------ the launcher's occa::
namespace occa {
  struct modeMemory_t { void *ptr; };
  struct dim {
    int dims;
    unsigned x, y, z;
    dim() : dims(0), x(1), y(1), z(1) {}
    unsigned& operator[](int i) { return i == 0 ? x : (i == 1 ? y : z); }
  };
  struct modeKernel_t {
    // the generated glue: calls the device kernel with the unpacked arguments
    void (*call)(void **args);
    bool per_thread;     // true: `call` is the body of one GPU thread; false (DPC++): `call` submits the whole range
    dim outer, inner;
  };
  class kernel {
    modeKernel_t *k;
   public:
    kernel(modeKernel_t *k_) : k(k_) {}
    void setRunDims(dim outer, dim inner) { k->outer = outer; k->inner = inner; }
    template <class... A> void operator()(A... a);
  };
}

namespace c20 {
  // scalar arguments: the address of the by-value copy; memory arguments: the device pointer
  template <class T> static inline void* arg_ptr(T &x) { return (void*) &x; }
  static inline void* arg_ptr(occa::modeMemory_t *&m) { return m ? m->ptr : 0; }
  static occa::modeKernel_t *g_kernel = 0;      // the kernel being launched (DPC++ glue reads its dims)
  struct CallCtx { void (*call)(void**); void **argv; };
  static void call_tramp(void *p) { CallCtx *c = (CallCtx*) p; c->call(c->argv); }
}

template <class... A> void occa::kernel::operator()(A... a) {
  void *args[] = { c20::arg_ptr(a)..., 0 };
  c20::g_kernel = k;
  if (k->per_thread) {
    c20::uint3_t g = {k->outer.x, k->outer.y, k->outer.z}, b = {k->inner.x, k->inner.y, k->inner.z};
    c20::CallCtx ctx = { k->call, args };
    c20::run_grid(g, b, c20::call_tramp, &ctx);
  } else {
    k->call(args);
  }
}

// ------------------------------------------------------------------------------------------------ dialects
#if defined(C20_CUDA) || defined(C20_HIP)
#define __global__
#define __device__
#define __constant__ const
#define __shared__ static
#define __launch_bounds__(n)
#define __restrict__ __restrict
#define threadIdx c20::g_thread
#define blockIdx c20::g_block
#define blockDim c20::g_bdim
#define gridDim c20::g_gdim
static inline void __syncthreads() { c20::barrier(); }
static inline void __syncwarp() { c20::barrier(); }
// overload sets as in CUDA's device headers (a bool or short value converts to the pointee type)
#define C20_ATOMICS(T) \
  static inline T atomicAdd(T *p, T v) { T o = *p; *p = o + v; return o; } \
  static inline T atomicSub(T *p, T v) { T o = *p; *p = o - v; return o; }
#define C20_ATOMICS_BITS(T) \
  static inline T atomicAnd(T *p, T v) { T o = *p; *p = o & v; return o; } \
  static inline T atomicOr(T *p, T v) { T o = *p; *p = o | v; return o; } \
  static inline T atomicXor(T *p, T v) { T o = *p; *p = o ^ v; return o; }
// the real signatures (CUDA C++ programming guide B.14.1.6/7): a limit argument, unsigned int only
static inline unsigned int atomicInc(unsigned int *p, unsigned int lim) { unsigned int o = *p; *p = (o >= lim) ? 0 : o + 1; return o; }
static inline unsigned int atomicDec(unsigned int *p, unsigned int lim) { unsigned int o = *p; *p = (o == 0 || o > lim) ? lim : o - 1; return o; }
C20_ATOMICS(int) C20_ATOMICS(unsigned int) C20_ATOMICS(unsigned long long) C20_ATOMICS(float) C20_ATOMICS(double)
C20_ATOMICS_BITS(int) C20_ATOMICS_BITS(unsigned int) C20_ATOMICS_BITS(unsigned long long)
#endif

#if defined(C20_OPENCL)
#define __kernel extern "C"
#define __global
#define __constant const
#define __local static
#define restrict __restrict
#define CLK_LOCAL_MEM_FENCE 1
#define CLK_GLOBAL_MEM_FENCE 2
static inline void barrier(int) { c20::barrier(); }
static inline unsigned c20_pick(const c20::uint3_t &u, int d) { return d == 0 ? u.x : (d == 1 ? u.y : u.z); }
static inline unsigned get_group_id(int d) { return c20_pick(c20::g_block, d); }
static inline unsigned get_local_id(int d) { return c20_pick(c20::g_thread, d); }
static inline unsigned get_local_size(int d) { return c20_pick(c20::g_bdim, d); }
static inline unsigned get_num_groups(int d) { return c20_pick(c20::g_gdim, d); }
static inline unsigned get_global_id(int d) { return get_group_id(d) * get_local_size(d) + get_local_id(d); }
#endif

#if defined(C20_METAL)
namespace metal { }
typedef c20::uint3_t uint3;
#define kernel extern "C"
#define device
#define constant const
#define threadgroup static
namespace mem_flags { enum { mem_threadgroup = 1, mem_device = 2 }; }
static inline void threadgroup_barrier(int) { c20::barrier(); }
#endif

#if defined(C20_DPCPP)
#define SYCL_EXTERNAL
namespace sycl {
  enum class memory_order { relaxed, acq_rel, seq_cst };
  enum class memory_scope { work_item, sub_group, work_group, device, system };
  namespace access {
    enum class address_space { global_space, local_space, private_space };
    enum class fence_space { local_space, global_space, global_and_local };
  }
  template <int D> struct range {
    size_t v[D];
    range(size_t a, size_t b, size_t c) { v[0] = a; v[1] = b; v[2] = c; }
    size_t operator[](int i) const { return v[i]; }
  };
  template <int D> struct nd_range {
    range<D> global, local;
    nd_range(range<D> g, range<D> l) : global(g), local(l) {}
  };
  template <int D> struct group { };
  template <int D> struct nd_item {
    static size_t pick(const c20::uint3_t &u, int d) { return d == 2 ? u.x : (d == 1 ? u.y : u.z); }   // dimension 2 is x
    size_t get_group(int d) const { return pick(c20::g_block, d); }
    size_t get_local_id(int d) const { return pick(c20::g_thread, d); }
    size_t get_local_range(int d) const { return pick(c20::g_bdim, d); }
    size_t get_group_range(int d) const { return pick(c20::g_gdim, d); }
    size_t get_global_id(int d) const { return get_group(d) * get_local_range(d) + get_local_id(d); }
    group<D> get_group() const { return group<D>(); }
    void barrier(access::fence_space = access::fence_space::global_and_local) const { c20::barrier(); }
  };
  struct handler {
    template <class F> static void tramp(void *p) { (*(F*) p)(nd_item<3>()); }
    template <class F> void parallel_for(nd_range<3> r, F f) {
      c20::uint3_t b = {(unsigned) r.local[2], (unsigned) r.local[1], (unsigned) r.local[0]};
      if (b.x == 0 || b.y == 0 || b.z == 0) return;
      c20::uint3_t g = {(unsigned) (r.global[2] / b.x), (unsigned) (r.global[1] / b.y), (unsigned) (r.global[0] / b.z)};
      c20::run_grid(g, b, tramp<F>, (void*) &f);
    }
  };
  struct queue {
    template <class F> void submit(F f) { handler h; f(h); }
  };
  template <class T, memory_order O, memory_scope S, access::address_space A> struct atomic_ref {
    T &r;
    explicit atomic_ref(T &x) : r(x) {}
    T operator+=(T v) const { r += v; return r; }
    T operator-=(T v) const { r -= v; return r; }
    T operator++() const { return ++r; }
    T operator++(int) const { return r++; }
    T operator--() const { return --r; }
    T operator--(int) const { return r--; }
  };
  namespace ext { namespace oneapi {
    // one allocation per call site and block: the n-th call of every thread of a block returns the block's n-th object
    template <class T, class G> T* group_local_memory_for_overwrite(G) {
      const int n = c20::g_local_seq++;
      if (n >= c20::MAX_LOCAL) c20::fail("too many group-local allocations for the emulation");
      if (n == c20::g_local_count) c20::g_local_allocs[c20::g_local_count++] = malloc(sizeof(T));
      if (n >= c20::g_local_count) c20::fail("group-local allocation order differs between threads");
      return (T*) c20::g_local_allocs[n];
    }
  } }
}
// withLauncher's occa::kernel for DPC++: the real mode (src/occa/internal/modes/dpcpp/kernel.cpp) passes a queue and
//   nd_range{ {outer*inner reversed}, {inner reversed} }
namespace c20 {
  static inline sycl::nd_range<3> dpcpp_range() {
    occa::dim o = g_kernel->outer, i = g_kernel->inner;
    return sycl::nd_range<3>(sycl::range<3>((size_t) o.z * i.z, (size_t) o.y * i.y, (size_t) o.x * i.x),
                             sycl::range<3>(i.z, i.y, i.x));
  }
}
#endif
