// C13 implementation driver: one translation unit per stdin line (source lines joined by the two
// characters backslash-n), run through the real tokenizer_t -> preprocessor_t pipeline exactly as
// tests/src/internal/lang/preprocessor.cpp does.  One result line per case:
//   R <line> | <line> | ... #E<n>     the emitted token stream, tokens separated by one space, output lines
//                                      separated by " | " (empty lines dropped); n = preprocessor_t::errors
//                                      (errors that the expression parser only prints are not counted by the library)
//   R EXC                              an occa::exception escaped the pipeline
//   R UB                               the library's own arithmetic hit undefined behaviour (UBSan check or SIGFPE)
//   R CRASH <how>                      any other abnormal end
// Crash isolation as in drivers/C14.cpp: cases run in a forked child; the arithmetic UBSan checks of the
// library longjmp back into the driver.
#include <cstdio>
#include <cstring>
#include <iostream>
#include <sstream>
#include <string>
#include <vector>
#include <algorithm>
#include <setjmp.h>
#include <signal.h>
#include <sys/wait.h>
#include <unistd.h>

#include <occa/internal/utils/env.hpp>
#include <occa/internal/lang/tokenizer.hpp>
#include <occa/internal/lang/processingStages.hpp>
#include <occa/internal/lang/preprocessor.hpp>
#include <occa/utils/exception.hpp>

using namespace occa;
using namespace occa::lang;

static sigjmp_buf ubJump;
static volatile bool ubArmed = false;
static void libraryUB() {
  if (ubArmed) siglongjmp(ubJump, 1);
  _exit(98);
}
extern "C" {
  void __ubsan_handle_add_overflow_abort(void *, void *, void *) { libraryUB(); }
  void __ubsan_handle_sub_overflow_abort(void *, void *, void *) { libraryUB(); }
  void __ubsan_handle_mul_overflow_abort(void *, void *, void *) { libraryUB(); }
  void __ubsan_handle_negate_overflow_abort(void *, void *) { libraryUB(); }
  void __ubsan_handle_divrem_overflow_abort(void *, void *, void *) { libraryUB(); }
  void __ubsan_handle_shift_out_of_bounds_abort(void *, void *, void *) { libraryUB(); }
}

static std::string unescape(const std::string &s) {
  std::string r;
  for (size_t i = 0; i < s.size(); ++i) {
    if (s[i] == '\\' && i + 1 < s.size() && s[i + 1] == 'n') {
      r += '\n';
      ++i;
    } else {
      r += s[i];
    }
  }
  r += '\n';
  return r;
}

// One pipeline reused for all cases of a child (as the library's own test does); rebuilt after an
// abandoned (longjmp'ed) run, whose objects are leaked.
struct pipeline {
  tokenizer_t tokenizer;
  preprocessor_t preprocessor;
  occa::lang::stream<token_t*> tokenStream;
  pipeline() : tokenStream(tokenizer.map(preprocessor)) {}
};
static pipeline *pipe_ = NULL;
static std::string currentSource;

static std::string runOne(const std::string &line) {
  if (!pipe_) pipe_ = new pipeline();
  currentSource = unescape(line);
  std::ostringstream out;
  if (sigsetjmp(ubJump, 0) != 0) {
    ubArmed = false;
    pipe_ = NULL;     // leaked on purpose: its state is unknown
    return "UB";
  }
  try {
    pipeline &p = *pipe_;
    p.tokenizer.set(currentSource.c_str());
    preprocessor_t *used = (preprocessor_t*) p.tokenStream.getInput("preprocessor_t");
    if (!used) return "EXC";
    used->clear();
    ubArmed = true;
    bool lineStart = true;
    bool anyLine = false;
    while (!p.tokenStream.isEmpty()) {
      token_t *token = NULL;
      p.tokenStream >> token;
      if (!token) break;
      if (token->type() & tokenType::newline) {
        lineStart = true;
      } else {
        if (lineStart) {
          if (anyLine) out << " | ";
          anyLine = true;
          lineStart = false;
        } else {
          out << " ";
        }
        out << token->str();
      }
      delete token;
    }
    ubArmed = false;
    out << " #E" << used->errors;
  } catch (occa::exception &e) {
    ubArmed = false;
    pipe_ = NULL;
    return "EXC";
  } catch (std::exception &e) {
    ubArmed = false;
    pipe_ = NULL;
    return "EXC";
  }
  return out.str();
}

int main() {
  std::vector<std::string> lines;
  std::string line;
  while (std::getline(std::cin, line)) lines.push_back(line);
  runOne("1");

  size_t k = 0;
  while (k < lines.size()) {
    int fd[2];
    if (pipe(fd) != 0) return 3;
    fflush(stdout);
    pid_t pid = fork();
    if (pid < 0) return 3;
    if (pid == 0) {
      close(fd[0]);
      FILE *out = fdopen(fd[1], "w");
      for (size_t i = k; i < lines.size(); ++i) {
        std::string res = runOne(lines[i]);
        fprintf(out, "R %s\n", res.c_str());
        fflush(out);
      }
      _exit(0);
    }
    close(fd[1]);
    FILE *in = fdopen(fd[0], "r");
    char *buf = NULL;
    size_t cap = 0;
    ssize_t len;
    while ((len = getline(&buf, &cap, in)) > 0) {
      if (buf[len - 1] == '\n') buf[len - 1] = 0;
      std::cout << buf << std::endl;
      ++k;
    }
    free(buf);
    fclose(in);
    int st = 0;
    waitpid(pid, &st, 0);
    if (k < lines.size()) {
      if (WIFEXITED(st) && WEXITSTATUS(st) == 0) return 4;
      if ((WIFEXITED(st) && WEXITSTATUS(st) == 98) || (WIFSIGNALED(st) && WTERMSIG(st) == SIGFPE)) {
        std::cout << "R UB" << std::endl;
      } else if (WIFEXITED(st)) {
        std::cout << "R CRASH exit " << WEXITSTATUS(st) << std::endl;
      } else {
        std::cout << "R CRASH signal " << (WIFSIGNALED(st) ? WTERMSIG(st) : -1) << std::endl;
      }
      ++k;
    }
  }
  return 0;
}
