// C04 uses the same implementation driver as C03: the observation already carries
// reserved()/size()/numReservations()/alignment() and every live range after every operation.
#include "C03.cpp"
