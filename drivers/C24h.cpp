// C24 hash driver (built against the un-sanitised "plain" library, because occa::hash itself has a
// signed overflow that belongs to C27 and stops every UBSan run): for each tree case prints
//   R deth=<1 if the value rebuilt with reversed insertion order has the same hash>
//     hd0=<1 if json::hash() == occa::hash(dump(0)), i.e. the hash is the hash of the compact dump>
#define C24_HASH_DRIVER 1
#include "C24.cpp"
