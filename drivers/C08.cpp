// C08/C09 driver: build one kernel (from a string or from a file) on a Serial or OpenMP device using
// the cache directory given by OCCA_CACHE_DIR, run it, print what it computed.
//   C08 <mode> string|file <N>     prints  "R OK <v0>,<v1>,..."  or "R ERR <what>"
// The kernel adds N to every entry; expected output is i + N.
#include <iostream>
#include <fstream>
#include <string>
#include <cstdlib>
#include <unistd.h>
#include <sys/wait.h>
#include <time.h>
#include <occa.hpp>

static std::string kernelSource(int n) {
  return std::string(
    "@kernel void addN(const int entries, const int *a, int *b) {\n"
    "  for (int i = 0; i < entries; ++i; @tile(4, @outer, @inner)) {\n"
    "    b[i] = a[i] + ") + std::to_string(n) + ";\n  }\n}\n";
}

int main(int argc, char **argv) {
  if (argc < 4) { std::cerr << "usage\n"; return 2; }
  const std::string mode = argv[1], how = argv[2];
  const int n = std::atoi(argv[3]);
  // C09: all builders of a round wait for one wall-clock instant (C08_START_AT, seconds since the epoch),
  // so that they reach the cold cache directory together; then an optional per-process delay in microseconds
  if (const char *at = std::getenv("C08_START_AT")) {
    const double t = std::atof(at);
    for (;;) {
      struct timespec ts;
      clock_gettime(CLOCK_REALTIME, &ts);
      if (ts.tv_sec + 1e-9 * ts.tv_nsec >= t) break;
    }
  }
  if (argc > 4) { usleep((useconds_t) std::atoi(argv[4])); }
  if (how == "fork") {
    // C09: builders that are fork()ed children of a process which has already used the cache (it built another
    // kernel first): they inherit the parent's library state, in particular whatever generator names the staged
    // temp files.  argv[4] = number of children.  Every child prints its own R line.
    const int nproc = (argc > 4) ? std::atoi(argv[4]) : 4;
    try {
      occa::device dev0({{"mode", mode}});
      occa::kernel k0 = dev0.buildKernelFromString(kernelSource(n + 1), "addN");
    } catch (occa::exception &e) {
      std::cout << "R ERR parent " << std::string(e.what()).substr(0, 200) << std::endl;
      return 1;
    }
    std::cout.flush();
    for (int c = 0; c < nproc; ++c) {
      pid_t pid = fork();
      if (pid == 0) {
        char *args[] = {argv[0], argv[1], (char*) "string", argv[3], NULL};
        // continue as an ordinary string builder in the forked child (no exec: the state is inherited)
        argc = 4; argv = args;
        goto child;
      }
    }
    while (wait(NULL) > 0) {}
    return 0;
  }
  child:
  const std::string how2 = (how == "fork") ? "string" : how;
  try {
    occa::device dev({{"mode", mode}});
    occa::kernel k;
    if (how2 == "string") {
      k = dev.buildKernelFromString(kernelSource(n), "addN");
    } else {
      const char *f = std::getenv("C08_KERNEL_FILE");
      if (!f) { std::cout << "R ERR no C08_KERNEL_FILE" << std::endl; return 1; }
      k = dev.buildKernel(f, "addN");
    }
    const int entries = 6;
    int a[entries], b[entries];
    for (int i = 0; i < entries; ++i) { a[i] = i; b[i] = -1; }
    occa::memory oa = dev.malloc<int>(entries, a), ob = dev.malloc<int>(entries);
    k(entries, oa, ob);
    ob.copyTo(b);
    std::cout << "R OK ";
    for (int i = 0; i < entries; ++i) { std::cout << (i ? "," : "") << b[i]; }
    std::cout << std::endl;
  } catch (occa::exception &e) {
    std::string w = e.what();
    for (auto &c : w) if (c == '\n') c = ' ';
    std::cout << "R ERR " << w.substr(0, 300) << std::endl;
    return 1;
  }
  return 0;
}
