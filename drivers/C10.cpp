// C10 implementation driver: builds generated OKL kernels on a Serial device and runs them with
// generated argument lists; prints, per case, whether each kernel.run(args) threw (E) or ran (O).
//   C10-plain fresh   : the kernels are compiled in this process
//   C10-plain cached  : the same lines again in a new process with the same OCCA_CACHE_DIR; every kernel
//                       must come from the cache (the wrapper sets OCCA_CXX to a compiler that fails)
// Case line:  K<id>/<tv>/<defs>/<params> <call> <call> ...      (see extract/C10/driver.ml)
#include <bits/stdc++.h>
#include <occa.hpp>
#include <occa/dtype/utils.hpp>

struct Bad {};

static std::vector<std::string> split(const std::string &s, char c) {
  std::vector<std::string> out;
  std::string cur;
  for (char ch : s) {
    if (ch == c) { out.push_back(cur); cur.clear(); }
    else cur.push_back(ch);
  }
  out.push_back(cur);
  return out;
}

static int toInt(const std::string &s) {
  if (s.empty()) throw Bad();
  size_t pos = 0;
  int v = 0;
  try { v = std::stoi(s, &pos); } catch (...) { throw Bad(); }
  if (pos != s.size()) throw Bad();
  return v;
}

// type:  p:<pname>:<lq>:<unsigned>   |   t:<k>
static std::string typeText(const std::string &t) {
  std::vector<std::string> p = split(t, ':');
  if (p[0] == "p" && p.size() == 4) {
    const int lq = toInt(p[2]);
    std::string s = (toInt(p[3]) ? "unsigned " : "");
    if (lq == 1) return s + "long";
    if (lq == 2) return s + "long long";
    return s + p[1];
  }
  if (p[0] == "t" && p.size() == 2) return "T" + std::to_string(toInt(p[1]));
  throw Bad();
}

// arrays: "" | "2x3" | "_" (unsized)
static std::string arrayText(const std::string &a) {
  if (a.empty()) return "";
  std::string s;
  for (const std::string &d : split(a, 'x')) {
    if (d == "_") s += "[]";
    else s += "[" + std::to_string(toInt(d)) + "]";
  }
  return s;
}

static std::string declText(const std::string &type, int ptrs, const std::string &arrays, const std::string &name) {
  return typeText(type) + " " + std::string(ptrs, '*') + name + arrayText(arrays);
}

struct Kernel {
  std::string name, source;
  bool typeValidation;
};

static Kernel parseKernel(const std::string &spec) {
  std::vector<std::string> sec = split(spec, '/');
  if (sec.size() != 4 || sec[0].size() < 2 || sec[0][0] != 'K') throw Bad();
  Kernel k;
  k.name = "k" + std::to_string(toInt(sec[0].substr(1)));
  k.typeValidation = (toInt(sec[1]) != 0);
  std::ostringstream src;
  if (!sec[2].empty()) {
    int idx = 0;
    for (const std::string &def : split(sec[2], ';')) {
      ++idx;
      const std::string tname = "T" + std::to_string(idx);
      if (def.rfind("T=", 0) == 0) {
        std::vector<std::string> p = split(def.substr(2), '.');
        if (p.size() != 3) throw Bad();
        src << "typedef " << declText(p[0], toInt(p[1]), p[2], tname) << ";\n";
      } else if (def.rfind("S=", 0) == 0) {
        src << "typedef struct {";
        for (const std::string &f : split(def.substr(2), ',')) {
          std::vector<std::string> q = split(f, '~');
          if (q.size() != 3) throw Bad();
          src << " " << declText(q[1], 0, q[2], q[0]) << ";";
        }
        src << " } " << tname << ";\n";
      } else throw Bad();
    }
  }
  src << "@kernel void " << k.name << "(";
  if (!sec[3].empty()) {
    int idx = 0;
    for (const std::string &par : split(sec[3], ';')) {
      std::vector<std::string> p = split(par, '.');
      if (p.size() != 4) throw Bad();
      if (idx) src << ", ";
      if (p[0] == "c") src << "const ";
      else if (p[0] != "n") throw Bad();
      src << declText(p[1], toInt(p[2]), p[3], "a" + std::to_string(idx));
      ++idx;
    }
  }
  src << ") {\n  for (int o = 0; o < 1; ++o; @outer) {\n    for (int i = 0; i < 1; ++i; @inner) {\n    }\n  }\n}\n";
  k.source = src.str();
  return k;
}

// memory dtypes: a builtin name, S:<b1>+<b2>+... (registered anonymous struct), T:<b>:<n> (registered tuple)
struct Mems {
  occa::device dev;
  std::map<std::string, occa::dtype_t*> dtypes;
  std::map<std::string, occa::memory> mems;
  ~Mems() {
    mems.clear();
    for (auto &kv : dtypes) delete kv.second;
  }
  const occa::dtype_t& builtin(const std::string &b) {
    const occa::dtype_t &g = occa::dtype_t::getBuiltin(b);
    if (&g == &occa::dtype::none) throw Bad();
    return g;
  }
  occa::memory& get(const std::string &spec) {
    auto it = mems.find(spec);
    if (it != mems.end()) return it->second;
    const occa::dtype_t *d = NULL;
    if (spec.rfind("S:", 0) == 0) {
      occa::dtype_t *s = new occa::dtype_t("");
      dtypes[spec] = s;
      int i = 0;
      for (const std::string &b : split(spec.substr(2), '+')) {
        s->addField("f" + std::to_string(i++), builtin(b));
      }
      s->registerType();
      d = s;
    } else if (spec.rfind("T:", 0) == 0) {
      std::vector<std::string> p = split(spec, ':');
      if (p.size() != 3) throw Bad();
      occa::dtype_t *t = new occa::dtype_t(occa::dtype_t::tuple(builtin(p[1]), toInt(p[2])));
      dtypes[spec] = t;
      t->registerType();
      d = t;
    } else {
      d = &builtin(spec);
    }
    // 64 bytes whatever the dtype says (bytes() of a struct / tuple is C11's subject)
    occa::memory m = dev.malloc(64);
    m.setDtype(*d);
    mems[spec] = m;
    return mems[spec];
  }
};

int main(int argc, char **argv) {
  const std::string mode = (argc > 1) ? argv[1] : "fresh";
  const char *hdr = getenv("C10_VEC_HEADER");
  const std::string flags = std::string("-O0 -include ") + (hdr ? hdr : "/verif/drivers/C10_vec.hpp");
  Mems M;
  M.dev = occa::device(std::string("{mode: 'Serial'}"));
  static int hostValue = 7;
  std::string line;
  while (std::getline(std::cin, line)) {
    std::istringstream ss(line);
    std::string spec, tok;
    ss >> spec;
    std::string out;
    try {
      Kernel k = parseKernel(spec);
      occa::json props;
      props["compiler_flags"] = flags;
      if (!k.typeValidation) props["type_validation"] = false;
      occa::kernel kern;
      try {
        kern = M.dev.buildKernelFromString(k.source, k.name, props);
      } catch (occa::exception &e) {
        std::cout << "R BUILDERR" << std::endl;
        continue;
      }
      while (ss >> tok) {
        std::vector<occa::kernelArg> args;
        if (tok != "-") {
          for (const std::string &a : split(tok, ',')) {
            if (a.rfind("m:", 0) == 0) args.push_back(occa::kernelArg(M.get(a.substr(2))));
            else if (a == "z") args.push_back(occa::kernelArg(occa::memory()));
            else if (a == "q") args.push_back(occa::kernelArg((void*) NULL));
            else if (a == "i") args.push_back(occa::kernelArg((int) 3));
            else if (a == "l") args.push_back(occa::kernelArg((long) 3));
            else if (a == "f") args.push_back(occa::kernelArg((float) 1.5f));
            else if (a == "d") args.push_back(occa::kernelArg((double) 2.5));
            else if (a == "b") args.push_back(occa::kernelArg((bool) true));
            else if (a == "c") args.push_back(occa::kernelArg((char) 'x'));
            else if (a == "r") args.push_back(occa::kernelArg((void*) &hostValue));
            else throw Bad();
          }
        }
        char verdict = 'O';
        try {
          kern.clearArgs();
          for (occa::kernelArg &a : args) kern.pushArg(a);
          kern.run();
        } catch (occa::exception &e) {
          verdict = 'E';
        }
        out.push_back(verdict);
      }
      kern.free();
    } catch (Bad &) {
      std::cout << "R BADCASE" << std::endl;
      continue;
    }
    std::cout << "R " << (mode == "fresh" ? "F:" : "C:") << out << std::endl;
  }
  return 0;
}
