// C05 implementation driver: allocation histories on a real Serial occa::device.
// One history per stdin line, one "R ..." line per history (syntax: see extract/C05/driver.ml).
//
//   m<id>:<bytes>:<h>  device.malloc<void>(bytes, src, props); h = 0 no source, 1 source copied,
//                      2 {use_host_pointer}, 3 {use_host_pointer, own_host_pointer}
//   c<id>:<from>       from.clone()         W<id>:<bytes>  device.wrapMemory(ptr, bytes)
//   x<id>              drop the handle of a memory
//   P<id>              device.createMemoryPool()          X<id>  drop the handle of a pool
//   p<pid>:<tok>       pool operation: r<id>:<n>  s<id>:<parent>:<off>:<cnt>  f<id>  z:<bytes>  k  a:<n>
//
// After every operation:  <token> <ok|ERR|NUL> memoryAllocated maxMemoryAllocated mig [pid:size:reserved ...]
// Objects are only ever released by dropping their handles (never device.free()).
#include <algorithm>
#include <cstdint>
#include <cstdlib>
#include <cstring>
#include <iostream>
#include <map>
#include <sstream>
#include <string>
#include <vector>
#include <occa.hpp>
#include <occa/internal/core/device.hpp>
#include <occa/internal/core/memory.hpp>
#include <occa/internal/core/memoryPool.hpp>

static std::vector<long> fields(const std::string &s) {
  std::vector<long> r;
  std::string cur;
  for (size_t i = 0; i <= s.size(); ++i) {
    if (i == s.size() || s[i] == ':') { r.push_back(cur.empty() ? 0 : std::stol(cur)); cur.clear(); }
    else cur.push_back(s[i]);
  }
  return r;
}

int main() {
  std::string line;
  while (std::getline(std::cin, line)) {
    std::ostringstream out;
    std::vector<void*> hostBufs;      // host memory the driver owns; freed after every handle is gone
    {
      occa::device device({{"mode", "Serial"}});
      std::map<long, occa::memory> mems;          // plain memories
      std::map<long, occa::memoryPool> pools;
      std::map<long, occa::memory> res;           // pool reservations (ids are global)
      std::map<long, long> resPool;               // reservation id -> pool id
      std::istringstream ss(line);
      std::string tok;
      bool first = true;
      while (ss >> tok) {
        const char k = tok[0];
        std::string tag = "ok";
        int mig = 0;
        try {
          if (k == 'm') {
            std::vector<long> f = fields(tok.substr(1));
            const long id = f[0], n = f[1], h = f[2];
            if (mems.count(id) || pools.count(id)) tag = "NUL";
            else {
              void *src = nullptr;
              if (h >= 1) {
                src = ::malloc(n > 0 ? n : 1);
                if (n > 0) memset(src, 0x5a, n);
              }
              occa::json props;
              if (h >= 2) props["use_host_pointer"] = true;
              if (h >= 3) props["own_host_pointer"] = true;
              bool owned_by_occa = false;
              try {
                occa::memory m = device.malloc<void>(n, src, props);
                if (!m.isInitialized()) tag = "NUL";
                else { mems[id] = m; owned_by_occa = (h >= 3); }
              } catch (occa::exception &e) {
                if (src) hostBufs.push_back(src);
                throw;
              }
              if (src && !owned_by_occa) hostBufs.push_back(src);
            }
          } else if (k == 'c') {
            std::vector<long> f = fields(tok.substr(1));
            auto it = mems.find(f[1]);
            if (it == mems.end() || mems.count(f[0]) || pools.count(f[0])) tag = "NUL";
            else {
              occa::memory m = it->second.clone();
              if (!m.isInitialized()) tag = "NUL"; else mems[f[0]] = m;
            }
          } else if (k == 'W') {
            std::vector<long> f = fields(tok.substr(1));
            if (mems.count(f[0]) || pools.count(f[0])) tag = "NUL";
            else {
              void *p = ::malloc(f[1] > 0 ? f[1] : 1);
              hostBufs.push_back(p);
              occa::memory m = device.wrapMemory<void>(p, f[1]);
              if (!m.isInitialized()) tag = "NUL"; else mems[f[0]] = m;
            }
          } else if (k == 'x') {
            if (mems.erase(std::stol(tok.substr(1))) == 0) tag = "NUL";
          } else if (k == 'P') {
            const long id = std::stol(tok.substr(1));
            if (mems.count(id) || pools.count(id)) tag = "NUL";
            else pools[id] = device.createMemoryPool();
          } else if (k == 'X') {
            const long id = std::stol(tok.substr(1));
            auto it = pools.find(id);
            if (it == pools.end()) tag = "NUL";
            else {
              // the reservations die with the pool: their handles are nulled by ~modeMemoryPool_t
              pools.erase(it);
              for (auto r = resPool.begin(); r != resPool.end();) {
                if (r->second == id) { res.erase(r->first); r = resPool.erase(r); } else ++r;
              }
            }
          } else if (k == 'p') {
            const size_t c = tok.find(':');
            const long pid = std::stol(tok.substr(1, c - 1));
            const std::string pt = tok.substr(c + 1);
            auto pit = pools.find(pid);
            if (pit == pools.end()) tag = "NUL";
            else {
              occa::memoryPool &pool = pit->second;
              occa::modeMemoryPool_t *mp = pool.getModeMemoryPool();
              const char *bufBefore = (mp && mp->buffer) ? mp->buffer->ptr : nullptr;
              const bool hadRes = mp && mp->reservations.size() != 0;
              try {
                const char pk = pt[0];
                if (pk == 'r') {
                  std::vector<long> f = fields(pt.substr(1));
                  occa::memory m;
                  if (!res.count(f[0])) m = pool.reserve(f[1], occa::dtype::byte);
                  if (!m.isInitialized()) tag = "NUL"; else { res[f[0]] = m; resPool[f[0]] = pid; }
                } else if (pk == 's') {
                  std::vector<long> f = fields(pt.substr(1));
                  auto it = res.find(f[1]);
                  if (it == res.end() || resPool[f[1]] != pid || res.count(f[0])) tag = "NUL";
                  else {
                    occa::memory m = it->second.slice(f[2], f[3]);
                    if (!m.isInitialized()) tag = "NUL"; else { res[f[0]] = m; resPool[f[0]] = pid; }
                  }
                } else if (pk == 'f') {
                  const long id = std::stol(pt.substr(1));
                  auto it = res.find(id);
                  if (it == res.end() || resPool[id] != pid) tag = "NUL";
                  else { res.erase(it); resPool.erase(id); }
                } else if (pk == 'z') {
                  pool.resize(std::stol(pt.substr(2)));
                } else if (pk == 'k') {
                  pool.shrinkToFit();
                } else if (pk == 'a') {
                  pool.setAlignment(std::stol(pt.substr(2)));
                } else tag = "BAD";
              } catch (occa::exception &e) {
                tag = "ERR";
              }
              mp = pool.getModeMemoryPool();
              const char *bufAfter = (mp && mp->buffer) ? mp->buffer->ptr : nullptr;
              mig = (hadRes && bufBefore != bufAfter) ? 1 : 0;
            }
          } else tag = "BAD";
        } catch (occa::exception &e) {
          tag = "ERR";
        }
        if (!first) out << " ; ";
        first = false;
        out << tok << " " << tag << " " << device.memoryAllocated() << " " << device.maxMemoryAllocated()
            << " " << mig << " [";
        bool f1 = true;
        for (auto &kv : pools) {
          if (!f1) out << " ";
          f1 = false;
          out << kv.first << ":" << kv.second.size() << ":" << kv.second.reserved();
        }
        out << "]";
      }
      // handles go out of scope here: reservations, memories, pools, then the device
      res.clear();
      mems.clear();
      pools.clear();
    }
    for (void *p : hostBufs) ::free(p);
    std::cout << "R " << out.str() << std::endl;
  }
  return 0;
}
