// C07 driver: ONE build of a kernel file in this (fresh) process, using the cache directory given by
// OCCA_CACHE_DIR; runs the kernel and reports what it computed and whether the compiler ran.
//   C07 <S|O> <kernel.okl> <include-dir> [okl-disabled|passthrough <host-include-dir>]
//       okl-disabled: okl/enabled = false (plain C++ kernel, includes resolved by the host compiler)
//       passthrough : okl/strict_headers = false, headers that OCCA does not find are left to the host compiler
//   prints  "R C:<out0>,<out1>"   the kernel was compiled now
//           "R L:<out0>,<out1>"   a cached binary was loaded
//           "R F"                 the build failed (occa::exception), e.g. an included file is missing
// out0 = the number in the kernel source, out1 = bit mask of the X<n> macros defined by the files it includes.
#include <iostream>
#include <string>
#include <cstdlib>
#include <occa.hpp>
#include <occa/internal/io/output.hpp>

static std::string captured;
static void capture(const char *s) { captured += s; }

int main(int argc, char **argv) {
  if (argc < 4) { std::cerr << "usage: C07 <S|O> <kernel.okl> <include-dir> [okl-disabled|passthrough <dir>]\n"; return 2; }
  const std::string mode = (argv[1][0] == 'O') ? "OpenMP" : "Serial";
  try {
    occa::device dev({{"mode", mode}});
    occa::json props;
    props["verbose"] = true;
    occa::json paths(occa::json::array_);
    paths += occa::json(std::string(argv[3]));
    props["okl/include_paths"] = paths;
    if (argc > 5) {
      if (std::string(argv[4]) == "okl-disabled") {
        props["okl/enabled"] = false;
      } else {
        props["okl/strict_headers"] = false;
      }
      props["compiler_flags"] = std::string("-O1 -I") + argv[5];
    }
    occa::io::stdout.setOverride(capture);
    occa::kernel k = dev.buildKernel(argv[2], "k", props);
    occa::io::stdout.setOverride(NULL);
    int out[2] = {-1, -1};
    occa::memory o = dev.malloc<int>(2, out);
    k(o);
    o.copyTo(out);
    const bool compiled = captured.find("Compiling [") != std::string::npos;
    const bool loaded = captured.find("Loading cached [") != std::string::npos;
    std::cout << "R " << (compiled ? "C" : (loaded ? "L" : "?")) << ":" << out[0] << "," << out[1] << std::endl;
  } catch (occa::exception &e) {
    occa::io::stdout.setOverride(NULL);
    std::cout << "R F" << std::endl;
    return 0;
  }
  return 0;
}
