// C14 implementation driver: one constant expression (C text) per stdin line, evaluated by the real
// library exactly as tests/src/internal/lang/expr.cpp does it (tokenizer_t::tokenize +
// expressionParser::parse + exprNode::canEvaluate/evaluate).  One "R <kind> <value>" line per case:
//   kind  b i8 u8 i16 u16 i32 u32 i64 u64 f32 f64 ; value decimal (integers) or IEEE bit pattern in hex (floats)
//   R ERR     the library refused (parse error, occa::exception "Cannot apply operator ...", non-evaluable)
//   R UB      the library's own C++ hit undefined behaviour: UBSan stopped the evaluation (exit code 98)
//             or the kernel did (SIGFPE)
//   R CRASH <how>   any other abnormal end of the evaluation (ASan report = exit 97, other signals)
// Cases are evaluated in a forked child so that one crash costs a fork, not a restart of the
// instrumented process; the child tokenizes its whole batch in one tokenizer run (lines are separated by
// the tokenizer's own newline tokens) and falls back to one tokenizer per line if the split does not
// come out as one token group per line.
#include <cstdio>
#include <cstring>
#include <iostream>
#include <sstream>
#include <string>
#include <vector>
#include <algorithm>
#include <signal.h>
#include <sys/wait.h>
#include <unistd.h>

#include <occa/internal/utils/env.hpp>
#include <occa/internal/lang/expr.hpp>
#include <occa/internal/lang/tokenizer.hpp>
#include <occa/types/primitive.hpp>
#include <occa/utils/exception.hpp>

using namespace occa;
using namespace occa::lang;

// The library is built with -fsanitize=undefined -fno-sanitize-recover: its arithmetic checks call the
// __ubsan_handle_*_abort entry points.  The executable's definitions below take precedence over
// libubsan's, so that undefined behaviour in the folder's arithmetic is observed at the exact point
// where UBSan detects it, by a longjmp back into evalTokens (no report, no process death, no fork; the
// abandoned evaluation leaks, which is irrelevant in the short-lived child).  Every other UBSan/ASan
// report still ends the child process and is classified by its exit status in main().
#include <setjmp.h>
static sigjmp_buf ubJump;
static volatile bool ubArmed = false;
static void libraryUB() {
  if (ubArmed) siglongjmp(ubJump, 1);
  _exit(98);
}
extern "C" {
  void __ubsan_handle_add_overflow_abort(void *, void *, void *) { libraryUB(); }
  void __ubsan_handle_sub_overflow_abort(void *, void *, void *) { libraryUB(); }
  void __ubsan_handle_mul_overflow_abort(void *, void *, void *) { libraryUB(); }
  void __ubsan_handle_negate_overflow_abort(void *, void *) { libraryUB(); }
  void __ubsan_handle_divrem_overflow_abort(void *, void *, void *) { libraryUB(); }
  void __ubsan_handle_shift_out_of_bounds_abort(void *, void *, void *) { libraryUB(); }
}

static std::string show(const primitive &p) {
  std::ostringstream o;
  switch (p.type) {
    case primitiveType::bool_   : o << "b "   << (p.value.bool_ ? 1 : 0); break;
    case primitiveType::int8_   : o << "i8 "  << (long long) p.value.int8_; break;
    case primitiveType::uint8_  : o << "u8 "  << (unsigned long long) p.value.uint8_; break;
    case primitiveType::int16_  : o << "i16 " << (long long) p.value.int16_; break;
    case primitiveType::uint16_ : o << "u16 " << (unsigned long long) p.value.uint16_; break;
    case primitiveType::int32_  : o << "i32 " << (long long) p.value.int32_; break;
    case primitiveType::uint32_ : o << "u32 " << (unsigned long long) p.value.uint32_; break;
    case primitiveType::int64_  : o << "i64 " << (long long) p.value.int64_; break;
    case primitiveType::uint64_ : o << "u64 " << (unsigned long long) p.value.uint64_; break;
    case primitiveType::float_  : {
      uint32_t b; float f = p.value.float_; memcpy(&b, &f, 4);
      char buf[32]; snprintf(buf, sizeof buf, "f32 %08x", b); o << buf; break;
    }
    case primitiveType::double_ : {
      uint64_t b; double d = p.value.double_; memcpy(&b, &d, 8);
      char buf[40]; snprintf(buf, sizeof buf, "f64 %016llx", (unsigned long long) b); o << buf; break;
    }
    default: o << "ERR";
  }
  return o.str();
}

// parse + evaluate one token group (takes ownership of the tokens, as expressionParser does)
static std::string evalTokens(tokenVector &tokens) {
  std::string res = "ERR";
  exprNode *expr = NULL;
  try {
    expr = expressionParser::parse(tokens);
    if (expr && expr->canEvaluate()) {
      if (sigsetjmp(ubJump, 0) == 0) {
        ubArmed = true;
        primitive v = expr->evaluate();
        ubArmed = false;
        res = show(v);
      } else {
        ubArmed = false;
        return "UB";    // the expression tree and the temporaries of the abandoned evaluation are leaked
      }
    }
  } catch (occa::exception &e) {
    ubArmed = false;
    res = "ERR";
  } catch (std::exception &e) {
    res = "ERR";
  }
  delete expr;
  return res;
}

static std::string evalLine(const std::string &line) {
  try {
    tokenVector tokens = tokenizer_t::tokenize(line);
    return evalTokens(tokens);
  } catch (occa::exception &e) {
    return "ERR";
  } catch (std::exception &e) {
    return "ERR";
  }
}

// evaluate lines[from .. to) and print one result line each
static void runChunk(const std::vector<std::string> &lines, size_t from, size_t to, FILE *out) {
  const size_t n = to - from;
  std::vector<tokenVector> groups;
  bool batched = false;
  std::string all;   // the tokens point into this buffer (used when the parser prints an error)
  try {
    for (size_t i = from; i < to; ++i) {
      all += lines[i];
      all += '\n';
    }
    tokenVector tokens = tokenizer_t::tokenize(all);
    groups.push_back(tokenVector());
    for (size_t i = 0; i < tokens.size(); ++i) {
      if (tokens[i]->type() & tokenType::newline) {
        delete tokens[i];
        groups.push_back(tokenVector());
      } else {
        groups.back().push_back(tokens[i]);
      }
    }
    // n lines, each ended by '\n': n + 1 groups, the last one empty
    batched = (groups.size() == n + 1) && groups.back().empty();
    if (!batched) {
      for (size_t g = 0; g < groups.size(); ++g) freeTokenVector(groups[g]);
    }
  } catch (...) {
    batched = false;
  }
  for (size_t i = 0; i < n; ++i) {
    std::string res;
    if (batched && !groups[i].empty()) {
      res = evalTokens(groups[i]);
    } else {
      res = evalLine(lines[from + i]);
    }
    fprintf(out, "R %s\n", res.c_str());
    fflush(out);
  }
}

static void childRun(const std::vector<std::string> &lines, size_t from, FILE *out) {
  const size_t chunk = 48;   // a crash costs re-tokenizing at most this many lines
  for (size_t k = from; k < lines.size(); k += chunk) {
    runChunk(lines, k, std::min(k + chunk, lines.size()), out);
  }
}

int main() {
  std::vector<std::string> lines;
  std::string line;
  while (std::getline(std::cin, line)) lines.push_back(line);
  // initialise the library's static state once, in the parent
  evalLine("1");

  size_t k = 0;
  while (k < lines.size()) {
    int fd[2];
    if (pipe(fd) != 0) return 3;
    fflush(stdout);
    pid_t pid = fork();
    if (pid < 0) return 3;
    if (pid == 0) {
      close(fd[0]);
      FILE *out = fdopen(fd[1], "w");
      childRun(lines, k, out);
      fflush(out);
      _exit(0);
    }
    close(fd[1]);
    FILE *in = fdopen(fd[0], "r");
    char *buf = NULL;
    size_t cap = 0;
    ssize_t len;
    while ((len = getline(&buf, &cap, in)) > 0) {
      if (buf[len - 1] == '\n') buf[len - 1] = 0;
      std::cout << buf << std::endl;
      ++k;
    }
    free(buf);
    fclose(in);
    int st = 0;
    waitpid(pid, &st, 0);
    if (k < lines.size()) {
      if (WIFEXITED(st) && WEXITSTATUS(st) == 0) return 4;   // child stopped early without dying
      if ((WIFEXITED(st) && WEXITSTATUS(st) == 98) || (WIFSIGNALED(st) && WTERMSIG(st) == SIGFPE)) {
        std::cout << "R UB" << std::endl;
      } else if (WIFEXITED(st)) {
        std::cout << "R CRASH exit " << WEXITSTATUS(st) << std::endl;
      } else {
        std::cout << "R CRASH signal " << (WIFSIGNALED(st) ? WTERMSIG(st) : -1) << std::endl;
      }
      ++k;
    }
  }
  return 0;
}
