// C14 implementation driver: one constant expression (C text) per stdin line, evaluated by the real
// library exactly as tests/src/internal/lang/expr.cpp does it (tokenizer_t::tokenize +
// expressionParser::parse + exprNode::evaluate).  One "R <kind> <value>" line per case:
//   kind  b i8 u8 i16 u16 i32 u32 i64 u64 f32 f64 ; value decimal (integers) or IEEE bit pattern in hex (floats)
//   R ERR     the library refused (parse error, occa::exception "Cannot apply operator ...", non-evaluable)
// Undefined behaviour inside the library (signed overflow, division by zero, bad shift) kills the
// ASan/UBSan-instrumented process; the framework records that case as "R CRASH ..." and resumes.
#include <cstdio>
#include <cstring>
#include <iostream>
#include <sstream>
#include <string>

#include <occa/internal/utils/env.hpp>
#include <occa/internal/lang/expr.hpp>
#include <occa/internal/lang/tokenizer.hpp>
#include <occa/types/primitive.hpp>
#include <occa/utils/exception.hpp>

using namespace occa;
using namespace occa::lang;

static std::string show(const primitive &p) {
  std::ostringstream o;
  switch (p.type) {
    case primitiveType::bool_   : o << "b "   << (p.value.bool_ ? 1 : 0); break;
    case primitiveType::int8_   : o << "i8 "  << (long long) p.value.int8_; break;
    case primitiveType::uint8_  : o << "u8 "  << (unsigned long long) p.value.uint8_; break;
    case primitiveType::int16_  : o << "i16 " << (long long) p.value.int16_; break;
    case primitiveType::uint16_ : o << "u16 " << (unsigned long long) p.value.uint16_; break;
    case primitiveType::int32_  : o << "i32 " << (long long) p.value.int32_; break;
    case primitiveType::uint32_ : o << "u32 " << (unsigned long long) p.value.uint32_; break;
    case primitiveType::int64_  : o << "i64 " << (long long) p.value.int64_; break;
    case primitiveType::uint64_ : o << "u64 " << (unsigned long long) p.value.uint64_; break;
    case primitiveType::float_  : {
      uint32_t b; float f = p.value.float_; memcpy(&b, &f, 4);
      char buf[32]; snprintf(buf, sizeof buf, "f32 %08x", b); o << buf; break;
    }
    case primitiveType::double_ : {
      uint64_t b; double d = p.value.double_; memcpy(&b, &d, 8);
      char buf[40]; snprintf(buf, sizeof buf, "f64 %016llx", (unsigned long long) b); o << buf; break;
    }
    default: o << "ERR";
  }
  return o.str();
}

int main() {
  std::string line;
  while (std::getline(std::cin, line)) {
    std::string res = "ERR";
    exprNode *expr = NULL;
    try {
      tokenVector tokens = tokenizer_t::tokenize(line);
      expr = expressionParser::parse(tokens);
      if (expr && expr->canEvaluate()) {
        primitive v = expr->evaluate();
        res = show(v);
      }
    } catch (occa::exception &e) {
      res = "ERR";
    } catch (std::exception &e) {
      res = "ERR";
    }
    delete expr;
    std::cout << "R " << res << std::endl;
  }
  return 0;
}
