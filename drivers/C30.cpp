// C30 — concurrent handle use on one device in the ENABLE_SHARABLE_DEVICE build (TSan flavour).
//
// One case per stdin line, one `R ...` line per case.  Every case runs in a forked child, so a
// double free or a sanitizer abort in one case cannot disturb the next one.
//
//   X<n> t<i>:<op> ... s<i> ...     deterministic replay (needs hook hooks/C30-1.patch):
//        the n worker threads are parked at schedule points (the hook's yield points inside the
//        library and the point between two operations); every `s<i>` lets thread i run to its
//        next schedule point; after the listed schedule the unfinished threads are released
//        round-robin.  Observation: summary + the counters after every schedule entry.
//   Z<n>.<iters>.<seed> t<i>:<op> ...   free-running stress under the race detector: the threads
//        run their programs concurrently, then (barrier) every thread deletes all its handle
//        variables concurrently; repeated <iters> times.  Observation: `clean` or what is off.
//   P<n>.<iters>.<seed>   thread 0 resizes a memory pool with a live reservation <iters> times while
//        threads 1..n-1 malloc/free on the same device.  Observation: `clean` or what is off.
//   M1 c<k>     k times { multiRing.addNewRef(e); multiRing.removeRef(e) } on one thread.
//   ?           capabilities: `R caps hook=<0|1> sharable=<0|1>`
//
//   ops:  M<dst>:<bytes>   dst = device.malloc(bytes)          C<src>:<dst>  dst = copy of src
//         S<src>:<t'>:<dst>  thread t' receives a copy of src  L<src>:<dst>  dst = src.slice(0)
//         D<v>  delete v          (an operation on an unbound source / bound destination is skipped)
#include <atomic>
#include <cstdio>
#include <cstdlib>
#include <cstring>
#include <iostream>
#include <map>
#include <mutex>
#include <random>
#include <set>
#include <sstream>
#include <string>
#include <thread>
#include <vector>
#include <dlfcn.h>
#include <cxxabi.h>
#include <pthread.h>
#include <semaphore.h>
#include <signal.h>
#include <sys/wait.h>
#include <unistd.h>

#define private public
#define protected public
#include <occa.hpp>
#include <occa/internal/core/device.hpp>
#include <occa/internal/core/memory.hpp>
#include <occa/internal/core/buffer.hpp>
#include <occa/internal/utils/gc.hpp>
#ifdef LIBOCCA_OCCA_VERIF
#include <occa/internal/verif.hpp>
#endif
#undef private
#undef protected

#ifndef OCCA_THREAD_SHARABLE_ENABLED
#define OCCA_THREAD_SHARABLE_ENABLED 0
#endif

// ---------------------------------------------------------------- race detector reports
// The callback runs inside the race detector (possibly in the middle of a free): no allocation,
// no locks; it stores the report kind and the program counters, which are named afterwards.
static std::atomic<int> g_reports(0);
static const int MAXREC = 32, MAXPC = 24;
struct Rec { char desc[48]; void *pcs[MAXPC]; };
static Rec g_rec[MAXREC];
static std::atomic<int> g_rec_done[MAXREC];

extern "C" int __tsan_get_report_data(void *report, const char **description, int *count,
                                      int *stack_count, int *mop_count, int *loc_count,
                                      int *mutex_count, int *thread_count, int *unique_tid_count,
                                      void **sleep_trace, unsigned long trace_size) __attribute__((weak));
extern "C" int __tsan_get_report_mop(void *report, unsigned long idx, int *tid, void **addr, int *size,
                                     int *write, int *atomic, void **trace,
                                     unsigned long trace_size) __attribute__((weak));
extern "C" int __tsan_get_report_stack(void *report, unsigned long idx, void **trace,
                                       unsigned long trace_size) __attribute__((weak));

extern "C" void __tsan_on_report(void *report) {
  int idx = g_reports.fetch_add(1);
  if (idx >= MAXREC) return;
  Rec &r = g_rec[idx];
  const char *desc = "report";
  int count = 0, sc = 0, mc = 0, lc = 0, mxc = 0, tc = 0, uc = 0;
  void *sleep_trace[2] = {0, 0};
  if (__tsan_get_report_data) {
    __tsan_get_report_data(report, &desc, &count, &sc, &mc, &lc, &mxc, &tc, &uc, sleep_trace, 2);
    if (mc > 0 && __tsan_get_report_mop) {
      int tid, size, write, atomic; void *addr;
      __tsan_get_report_mop(report, 0, &tid, &addr, &size, &write, &atomic, r.pcs, MAXPC);
    } else if (sc > 0 && __tsan_get_report_stack) {
      __tsan_get_report_stack(report, 0, r.pcs, MAXPC);
    }
  }
  size_t i = 0;
  for (; desc && desc[i] && i + 1 < sizeof(r.desc); ++i) r.desc[i] = desc[i];
  r.desc[i] = 0;
  g_rec_done[idx] = 1;
}

// The process is dying inside the sanitizer runtime (deadly signal, failed check): say so on the
// result pipe, with the kinds of the reports made so far.  No allocation here.
extern "C" void __sanitizer_set_death_callback(void (*callback)(void)) __attribute__((weak));
static int g_out_fd = -1;
static void on_death() {
  if (g_out_fd < 0) return;
  static char buf[1024];
  int n = g_reports.load();
  int len = snprintf(buf, sizeof buf, "R CRASH died-in-sanitizer-runtime tsan=%d kinds=", n);
  for (int i = 0; i < n && i < MAXREC && len < (int) sizeof(buf) - 64; ++i) {
    if (!g_rec_done[i]) continue;
    bool dup = false;
    for (int k = 0; k < i; ++k) if (g_rec_done[k] && strcmp(g_rec[k].desc, g_rec[i].desc) == 0) dup = true;
    if (dup) continue;
    len += snprintf(buf + len, sizeof(buf) - len, "%s,", g_rec[i].desc);
  }
  len += snprintf(buf + len, sizeof(buf) - len, "\n");
  ssize_t w = write(g_out_fd, buf, (size_t) len);
  (void) w;
  g_out_fd = -1;
}

static std::string frame_name(void *pc) {
  Dl_info info;
  if (!pc || !dladdr(pc, &info) || !info.dli_sname) return "";
  int st = 0;
  char *dem = abi::__cxa_demangle(info.dli_sname, NULL, NULL, &st);
  std::string s = (st == 0 && dem) ? dem : info.dli_sname;
  free(dem);
  size_t p = s.find('(');
  if (p != std::string::npos) s = s.substr(0, p);
  for (char &c : s) if (c == ' ') c = '_';
  return s;
}

static std::set<std::string> kinds_set() {
  std::set<std::string> res;
  int n = g_reports.load();
  for (int i = 0; i < n && i < MAXREC; ++i) {
    if (!g_rec_done[i]) continue;
    std::string where;
    for (int k = 0; k < MAXPC && g_rec[i].pcs[k]; ++k) {
      std::string f = frame_name(g_rec[i].pcs[k]);
      if (f.find("occa::") != std::string::npos) { where = f; break; }
    }
    res.insert(std::string(g_rec[i].desc) + (where.empty() ? "" : ("@" + where)));
  }
  return res;
}

static std::string kinds_str() {
  std::string s;
  for (const std::string &k : kinds_set()) { if (!s.empty()) s += ","; s += k; }
  return s.empty() ? "-" : s;
}

// ---------------------------------------------------------------- case data
static const int MAXT = 16, NV = 8;
struct Op { char k; int a, b, c; long size; };
static int g_n = 0;
static std::vector<Op> g_prog[MAXT];
static std::vector<int> g_sched;
static occa::memory *g_vars[MAXT][NV];
static bool g_reserved[MAXT][NV];
static std::mutex g_vars_mu;          // the channel through which a handle is handed to another thread
static occa::device g_dev;
static bool g_replay = false;
static unsigned g_seed = 1;
static thread_local int t_me = -1;
static thread_local std::minstd_rand *t_rng = NULL;

static long base_lm, base_dm, base_lb, base_db;

struct Counts { long cm, dm, cb, db; long long bytes; };

static Counts counts() {
  Counts c;
#ifdef LIBOCCA_OCCA_VERIF
  long lm = occa::verif::liveCount(occa::verif::clsMemory), dm = occa::verif::destroyedCount(occa::verif::clsMemory);
  long lb = occa::verif::liveCount(occa::verif::clsBuffer), db = occa::verif::destroyedCount(occa::verif::clsBuffer);
  c.dm = dm - base_dm; c.db = db - base_db;
  c.cm = (lm - base_lm) + c.dm; c.cb = (lb - base_lb) + c.db;
#else
  c.cm = c.dm = c.cb = c.db = -1;
#endif
  c.bytes = (long long) g_dev.memoryAllocated();
  return c;
}

static bool parse_ops(const std::vector<std::string> &toks) {
  for (const std::string &tk : toks) {
    if (tk.size() >= 2 && tk[0] == 's' && isdigit(tk[1])) { g_sched.push_back(atoi(tk.c_str() + 1)); continue; }
    if (tk[0] == 'r') { g_seed = (unsigned) strtoul(tk.c_str() + 1, NULL, 10); continue; }
    if (tk[0] != 't') continue;
    size_t colon = tk.find(':');
    if (colon == std::string::npos || colon + 1 >= tk.size()) continue;
    int t = atoi(tk.c_str() + 1);
    if (t < 0 || t >= g_n) continue;
    Op o; o.k = tk[colon + 1]; o.a = o.b = o.c = 0; o.size = 0;
    std::vector<long> nums;
    std::stringstream ss(tk.substr(colon + 2));
    std::string part;
    while (std::getline(ss, part, ':')) nums.push_back(atol(part.c_str()));
    auto var = [](long v) { return (int) (((v % NV) + NV) % NV); };
    switch (o.k) {
    case 'M': if (nums.size() < 2) continue; o.a = var(nums[0]); o.size = nums[1]; break;
    case 'C': case 'L': if (nums.size() < 2) continue; o.a = var(nums[0]); o.b = var(nums[1]); break;
    case 'S': if (nums.size() < 3) continue; o.a = var(nums[0]); o.b = (int) nums[1]; o.c = var(nums[2]);
              if (o.b < 0 || o.b >= g_n) continue; break;
    case 'D': if (nums.size() < 1) continue; o.a = var(nums[0]); break;
    default: continue;
    }
    g_prog[t].push_back(o);
  }
  return true;
}

// ---------------------------------------------------------------- operations on the real library
static occa::memory *get_var(int t, int v) {
  std::lock_guard<std::mutex> g(g_vars_mu);
  return g_vars[t][v];
}
static bool reserve_slot(int t, int v) {
  std::lock_guard<std::mutex> g(g_vars_mu);
  if (g_vars[t][v] || g_reserved[t][v]) return false;
  g_reserved[t][v] = true;
  return true;
}
static void bind_slot(int t, int v, occa::memory *p) {
  std::lock_guard<std::mutex> g(g_vars_mu);
  g_vars[t][v] = p;
  g_reserved[t][v] = false;
}

static void exec_op(int t, const Op &o) {
  switch (o.k) {
  case 'M':
    if (o.size > 0 && reserve_slot(t, o.a))
      bind_slot(t, o.a, new occa::memory(g_dev.malloc(o.size, occa::dtype::byte)));
    break;
  case 'C': {
    occa::memory *src = get_var(t, o.a);
    if (src && reserve_slot(t, o.b)) bind_slot(t, o.b, new occa::memory(*src));
    break;
  }
  case 'S': {
    occa::memory *src = get_var(t, o.a);
    if (src && reserve_slot(o.b, o.c)) bind_slot(o.b, o.c, new occa::memory(*src));
    break;
  }
  case 'L': {
    occa::memory *src = get_var(t, o.a);
    if (src && reserve_slot(t, o.b)) bind_slot(t, o.b, new occa::memory(src->slice(0)));
    break;
  }
  case 'D': {
    occa::memory *p;
    {
      std::lock_guard<std::mutex> g(g_vars_mu);
      p = g_vars[t][o.a];
      g_vars[t][o.a] = NULL;
    }
    delete p;
    break;
  }
  }
}

// ---------------------------------------------------------------- deterministic replay
static sem_t g_go[MAXT], g_back;
static std::atomic<int> g_finished[MAXT];

static void park() {
  sem_post(&g_back);
  sem_wait(&g_go[t_me]);
}

static void on_yield(int point) {
  if (t_me < 0 || point < 1 || point > 4) return;
  if (g_replay) { park(); return; }
  // stress: widen the windows a little, from the case's seed
  if (t_rng && ((*t_rng)() % 3) == 0) std::this_thread::yield();
}

static void replay_worker(int t) {
  t_me = t;
  sem_wait(&g_go[t]);
  const std::vector<Op> &p = g_prog[t];
  for (size_t i = 0; i < p.size(); ++i) {
    exec_op(t, p[i]);
    if (i + 1 < p.size()) park();
  }
  g_finished[t] = 1;
  sem_post(&g_back);
}

static std::string tuple(const Counts &c) {
  char buf[160];
  snprintf(buf, sizeof buf, "%ld,%ld,%ld,%ld,%lld", c.cm, c.dm, c.cb, c.db, c.bytes);
  return buf;
}

static std::string run_replay() {
#ifndef OCCA_VERIF_HAS_YIELD
  return "R NOHOOK";
#else
  g_replay = true;
  occa::verif::setYield(on_yield);
  sem_init(&g_back, 0, 0);
  std::vector<std::thread> th;
  for (int t = 0; t < g_n; ++t) {
    sem_init(&g_go[t], 0, 0);
    g_finished[t] = g_prog[t].empty() ? 1 : 0;
  }
  for (int t = 0; t < g_n; ++t) if (!g_finished[t]) th.emplace_back(replay_worker, t);
  std::string trace;
  auto entry = [&](int t) {
    if (t >= 0 && t < g_n && !g_finished[t]) {
      sem_post(&g_go[t]);
      sem_wait(&g_back);
    }
    if (!trace.empty()) trace += ";";
    trace += tuple(counts());
  };
  for (int t : g_sched) entry(t);
  for (;;) {
    bool any = false;
    for (int t = 0; t < g_n; ++t) if (!g_finished[t]) { any = true; entry(t); }
    if (!any) break;
  }
  for (std::thread &x : th) x.join();
  Counts c = counts();
  char buf[256];
  snprintf(buf, sizeof buf, "R m=%ld/%ld b=%ld/%ld bytes=%lld bad=%d", c.cm, c.dm, c.cb, c.db, c.bytes, g_reports.load());
  std::string r = buf;
  if (g_reports.load()) r += " kinds=" + kinds_str();
  return r + " | " + trace;
#endif
}

// ---------------------------------------------------------------- stress
static pthread_barrier_t g_bar;

static void stress_worker(int t, int iters) {
  t_me = t;
  std::minstd_rand rng(g_seed * 7919u + (unsigned) t * 104729u + 1u);
  t_rng = &rng;
  for (int it = 0; it < iters; ++it) {
    pthread_barrier_wait(&g_bar);
    for (const Op &o : g_prog[t]) exec_op(t, o);
    pthread_barrier_wait(&g_bar);
    // everybody lets go of everything at the same time
    for (int v = 0; v < NV; ++v) { Op d; d.k = 'D'; d.a = v; d.b = d.c = 0; d.size = 0; exec_op(t, d); }
    pthread_barrier_wait(&g_bar);
  }
  t_rng = NULL;
}

static std::string run_stress(int iters) {
#ifdef OCCA_VERIF_HAS_YIELD
  occa::verif::setYield(on_yield);
#endif
  pthread_barrier_init(&g_bar, NULL, g_n);
  std::vector<std::thread> th;
  for (int t = 0; t < g_n; ++t) th.emplace_back(stress_worker, t, iters);
  for (std::thread &x : th) x.join();
  Counts c = counts();
  bool clean = (g_reports.load() == 0) && c.bytes == 0;
#ifdef LIBOCCA_OCCA_VERIF
  clean = clean && c.cm == c.dm && c.cb == c.db;
#endif
  if (clean) return "R clean";
  char buf[256];
  snprintf(buf, sizeof buf, "R DIRTY m=%ld/%ld b=%ld/%ld bytes=%lld tsan=%d kinds=", c.cm, c.dm, c.cb, c.db, c.bytes, g_reports.load());
  return std::string(buf) + kinds_str();
}

// ---------------------------------------------------------------- memory pool + plain allocations
// P<n>.<iters>.<seed>: thread 0 creates a pool, keeps one reservation alive and resizes the pool
// <iters> times (every resize allocates a new buffer, migrates, frees the old one); threads 1..n-1
// malloc/free on the same device until it is done.  Pools are outside the Coq model: the oracle is
// memoryAllocated() == 0, balanced counters and no race report.
static std::atomic<int> g_stop(0);

static void pool_worker(int iters) {
  t_me = 0;
  pthread_barrier_wait(&g_bar);
  {
    occa::memoryPool pool = g_dev.createMemoryPool();
    occa::memory hold = pool.reserve<char>(64);
    for (int it = 0; it < iters; ++it) pool.resize((it & 1) ? 1024 : 4096);
    hold.free();
    pool.free();
  }
  g_stop = 1;
}

static void alloc_worker(int t) {
  t_me = t;
  std::minstd_rand rng(g_seed * 7919u + (unsigned) t * 104729u + 1u);
  t_rng = &rng;
  pthread_barrier_wait(&g_bar);
  int k = 0;
  while (!g_stop.load() || k < 8) {
    occa::memory m = g_dev.malloc(32 + 8 * (k % 4), occa::dtype::byte);
    m.free();
    ++k;
  }
  t_rng = NULL;
}

static std::string run_pool(int iters) {
#ifdef OCCA_VERIF_HAS_YIELD
  occa::verif::setYield(on_yield);
#endif
  if (g_n < 2) g_n = 2;
  pthread_barrier_init(&g_bar, NULL, g_n);
  std::vector<std::thread> th;
  th.emplace_back(pool_worker, iters);
  for (int t = 1; t < g_n; ++t) th.emplace_back(alloc_worker, t);
  for (std::thread &x : th) x.join();
  Counts c = counts();
  bool clean = (g_reports.load() == 0) && c.bytes == 0;
#ifdef LIBOCCA_OCCA_VERIF
  clean = clean && c.cm == c.dm && c.cb == c.db;
#endif
  if (clean) return "R clean";
  char buf[256];
  snprintf(buf, sizeof buf, "R DIRTY m=%ld/%ld b=%ld/%ld bytes=%lld tsan=%d kinds=", c.cm, c.dm, c.cb, c.db, c.bytes, g_reports.load());
  return std::string(buf) + kinds_str();
}

// ---------------------------------------------------------------- multiRing_t
static std::string run_multi(int calls) {
#if OCCA_THREAD_SHARABLE_ENABLED
  occa::gc::multiRing_t<occa::gc::ringEntry_t> mr;
  std::vector<occa::gc::ringEntry_t> e(calls > 0 ? calls : 1);
  for (int i = 0; i < calls; ++i) {
    mr.addNewRef(&e[i]);
    mr.removeRef(&e[i]);
  }
  bool bad = false;
  for (const std::string &k : kinds_set()) if (k.find("mutex") != std::string::npos) bad = true;
  std::string r = std::string("R bad=") + (bad ? "1" : "0");
  if (g_reports.load()) r += " kinds=" + kinds_str();
  return r;
#else
  (void) calls;
  return "R NOTSHARABLE";
#endif
}

// ---------------------------------------------------------------- one case (in the child)
static std::string run_case(const std::string &line) {
  std::vector<std::string> toks;
  { std::stringstream ss(line); std::string t; while (ss >> t) toks.push_back(t); }
  if (toks.empty()) return "R EMPTY";
  const std::string &head = toks[0];
  if (head == "?") {
    char buf[96];
#ifdef OCCA_VERIF_HAS_YIELD
    int hook = 1;
#else
    int hook = 0;
#endif
    snprintf(buf, sizeof buf, "R caps hook=%d sharable=%d", hook, (int) OCCA_THREAD_SHARABLE_ENABLED);
    return buf;
  }
  char kind = head[0];
  int n = atoi(head.c_str() + 1);
  int head_iters = 0;
  {
    // Z<n>.<iters>.<seed>: kept together in the first token so that shrinking a failing case
    // does not shrink the number of attempts
    size_t d1 = head.find('.');
    if (d1 != std::string::npos) {
      head_iters = atoi(head.c_str() + d1 + 1);
      size_t d2 = head.find('.', d1 + 1);
      if (d2 != std::string::npos) g_seed = (unsigned) strtoul(head.c_str() + d2 + 1, NULL, 10);
    }
  }
  if (kind == 'M') {
    int calls = 1;
    for (const std::string &t : toks) if (t[0] == 'c') calls = atoi(t.c_str() + 1);
    return run_multi(calls);
  }
  if (n < 1) n = 1;
  if (n > MAXT) n = MAXT;
  g_n = n;
  std::vector<std::string> rest(toks.begin() + 1, toks.end());
  parse_ops(rest);
  g_dev = occa::device({{"mode", "Serial"}});
#ifdef LIBOCCA_OCCA_VERIF
  base_lm = occa::verif::liveCount(occa::verif::clsMemory); base_dm = occa::verif::destroyedCount(occa::verif::clsMemory);
  base_lb = occa::verif::liveCount(occa::verif::clsBuffer); base_db = occa::verif::destroyedCount(occa::verif::clsBuffer);
#endif
  if (kind == 'X') return run_replay();
  if (kind == 'P') return run_pool(head_iters > 0 ? head_iters : 100);
  if (kind == 'Z') {
    int iters = head_iters;
    for (const std::string &t : rest) if (t[0] == 'i') iters = atoi(t.c_str() + 1);
    if (iters < 1) iters = 1;
    return run_stress(iters);
  }
  return "R BADCASE";
}

int main() {
  std::string line;
  signal(SIGPIPE, SIG_IGN);
  while (std::getline(std::cin, line)) {
    int fd[2];
    if (pipe(fd) != 0) { std::cout << "R CRASH pipe" << std::endl; continue; }
    fflush(stdout);
    std::cout.flush();
    pid_t pid = fork();
    if (pid == 0) {
      close(fd[0]);
      alarm(120);
      g_out_fd = fd[1];
      if (__sanitizer_set_death_callback) __sanitizer_set_death_callback(on_death);
      std::string r;
      try {
        r = run_case(line);
      } catch (std::exception &ex) {
        r = std::string("R EXC ") + ex.what();
        for (char &c : r) if (c == '\n') c = ' ';
      } catch (...) {
        r = "R EXC unknown";
      }
      r += "\n";
      g_out_fd = -1;
      ssize_t w = write(fd[1], r.c_str(), r.size());
      (void) w;
      close(fd[1]);
      _exit(0);
    }
    close(fd[1]);
    std::string out;
    char buf[4096];
    ssize_t k;
    while ((k = read(fd[0], buf, sizeof buf)) > 0) out.append(buf, (size_t) k);
    close(fd[0]);
    int status = 0;
    waitpid(pid, &status, 0);
    if (out.empty() || out.compare(0, 2, "R ") != 0) {
      char b2[96];
      if (WIFSIGNALED(status)) snprintf(b2, sizeof b2, "R CRASH signal %d", WTERMSIG(status));
      else snprintf(b2, sizeof b2, "R CRASH exit %d", WEXITSTATUS(status));
      out = std::string(b2) + "\n";
    }
    std::cout << out;
    std::cout.flush();
  }
  return 0;
}
