// C20/C21 implementation driver: JIT-builds generated OKL kernels through the real library on a Serial or
// OpenMP device and runs them on arrays filled by the fixed formula; prints the arrays afterwards.
// The driver executable is linked with -fsanitize=address (the library itself is the `plain` flavour) so that the
// kernels, compiled with -fsanitize=address through the kernel property compiler_flags, report out-of-bounds
// accesses of the translated code.
//
// stdin, one run per line:   <mode> <file.okl> <kernel name> <nargs> <arg>... <narrays> <size>...
// stdout per line:           R V g0=1,2;g1=...     |  R BUILDERR  |  R ERR <what>
#include <bits/stdc++.h>
#include <occa.hpp>

static int initValue(int a, int i) { return ((i * 7 + a * 13 + 5) % 23) - 9; }

int main(int argc, char **argv) {
  const char *kf = getenv("C20_KFLAGS");
  const std::string flags = kf ? kf : "-O0 -g1 -fwrapv -fsanitize=address -fno-omit-frame-pointer";
  std::map<std::string, occa::device> devices;
  std::string line;
  while (std::getline(std::cin, line)) {
    std::istringstream ss(line);
    std::string mode, path, kname;
    int nargs = 0, narr = 0;
    ss >> mode >> path >> kname >> nargs;
    std::vector<int> args(nargs);
    for (int i = 0; i < nargs; ++i) ss >> args[i];
    ss >> narr;
    std::vector<int> sizes(narr);
    for (int i = 0; i < narr; ++i) ss >> sizes[i];
    if (!ss || narr <= 0) { std::cout << "R ERR bad-line" << std::endl; continue; }
    try {
      if (!devices.count(mode)) devices[mode] = occa::device("{mode: '" + mode + "'}");
      occa::device &dev = devices[mode];
      occa::json props;
      props["compiler_flags"] = flags;
      occa::kernel kern;
      try {
        kern = dev.buildKernel(path, kname, props);
      } catch (occa::exception &e) {
        std::cout << "R BUILDERR" << std::endl;
        continue;
      }
      std::vector<occa::memory> mems;
      std::vector<std::vector<int> > host(narr);
      for (int a = 0; a < narr; ++a) {
        host[a].resize(sizes[a]);
        for (int i = 0; i < sizes[a]; ++i) host[a][i] = initValue(a, i);
        mems.push_back(dev.malloc<int>(sizes[a], host[a].data()));
      }
      kern.clearArgs();
      for (int i = 0; i < nargs; ++i) kern.pushArg(occa::kernelArg(args[i]));
      for (int a = 0; a < narr; ++a) kern.pushArg(occa::kernelArg(mems[a]));
      kern.run();
      dev.finish();
      std::ostringstream out;
      out << "R V ";
      for (int a = 0; a < narr; ++a) {
        mems[a].copyTo(host[a].data());
        if (a) out << ";";
        out << "g" << a << "=";
        for (int i = 0; i < sizes[a]; ++i) { if (i) out << ","; out << host[a][i]; }
      }
      std::cout << out.str() << std::endl;
      for (auto &m : mems) m.free();
      kern.free();
    } catch (occa::exception &e) {
      std::string w = e.what();
      for (char &c : w) if (c == '\n') c = ' ';
      std::cout << "R ERR " << w.substr(0, 200) << std::endl;
    }
  }
  return 0;
}
