// C01 implementation driver: the same handle histories on real occa::device / memory /
// memoryPool / kernel / stream / streamTag objects of a Serial device.
// One history per stdin line, one "R ..." line per history (syntax: extract/C01/driver.ml).
// Handle variables are heap-allocated wrappers, so that ASan sees every use of a dropped one.
#include <cstdio>
#include <cstdlib>
#include <fstream>
#include <iostream>
#include <map>
#include <sstream>
#include <string>
#include <vector>
#include <algorithm>
#include <array>
#include <cmath>
#include <cstdint>
#include <cstring>
#include <functional>
#include <initializer_list>
#include <iomanip>
#include <list>
#include <memory>
#include <queue>
#include <set>
#include <stack>
#include <type_traits>
#include <typeinfo>
#include <unordered_map>
#include <unistd.h>
#if defined(__has_include)
#  if __has_include(<sanitizer/asan_interface.h>)
#    include <sanitizer/asan_interface.h>
#    define C01_HAVE_ASAN_IFACE 1
#  endif
#endif

#define private public
#define protected public
#include <occa.hpp>
#include <occa/internal/core/device.hpp>
#include <occa/internal/core/buffer.hpp>
#include <occa/internal/core/memory.hpp>
#include <occa/internal/core/memoryPool.hpp>
#include <occa/internal/core/kernel.hpp>
#include <occa/internal/core/stream.hpp>
#include <occa/internal/core/streamTag.hpp>
#if defined(__has_include)
#  if __has_include(<occa/internal/verif.hpp>) && defined(LIBOCCA_OCCA_VERIF)
#    include <occa/internal/verif.hpp>
#    define C01_HAVE_HOOK 1
#  endif
#endif
#undef private
#undef protected

using occa::gc::ringEntry_t;

static bool poisoned(const void *p) {
#if defined(C01_HAVE_ASAN_IFACE) && (defined(__SANITIZE_ADDRESS__))
  return __asan_address_is_poisoned(p) != 0;
#else
  (void) p;
  return false;
#endif
}

static const char *VAR_NAMES[] = {"D0","D1","M0","M1","M2","M3","M4","P0","P1","P2","K0","K1","S0","S1","S2","T0","T1"};
static const int NVARS = 17;

enum Kind { KDev, KBuf, KPool, KMem, KKer, KStr, KTag };
static const char KIND_LETTER[] = "DBPMKST";

struct Obj {
  Kind kind;
  void *ptr;              // the modeX_t object
  ringEntry_t *entry;     // its ringEntry_t base (NULL for devices)
};

struct Case {
  void *vars[NVARS];
  std::vector<Obj> objs;
  std::vector<int> kept;  // indices of objects dontUseRefs() was called on
  long base[7];

  Case() { for (int i = 0; i < NVARS; ++i) vars[i] = NULL; }
};

static int varIndex(const std::string &n) {
  for (int i = 0; i < NVARS; ++i) if (n == VAR_NAMES[i]) return i;
  std::cerr << "bad variable " << n << std::endl;
  exit(3);
}
static Kind varKind(int v) {
  switch (VAR_NAMES[v][0]) {
    case 'D': return KDev; case 'M': return KMem; case 'P': return KPool;
    case 'K': return KKer; case 'S': return KStr; default: return KTag;
  }
}

#define DEV(c, v)  ((occa::device*)     (c).vars[v])
#define MEM(c, v)  ((occa::memory*)     (c).vars[v])
#define POOL(c, v) ((occa::memoryPool*) (c).vars[v])
#define KER(c, v)  ((occa::kernel*)     (c).vars[v])
#define STR(c, v)  ((occa::stream*)     (c).vars[v])
#define TAG(c, v)  ((occa::streamTag*)  (c).vars[v])

static void *targetOf(Case &c, int v) {
  switch (varKind(v)) {
    case KDev:  return DEV(c, v)->modeDevice;
    case KMem:  return MEM(c, v)->modeMemory;
    case KPool: return POOL(c, v)->modeMemoryPool;
    case KKer:  return KER(c, v)->modeKernel;
    case KStr:  return STR(c, v)->modeStream;
    default:    return TAG(c, v)->modeStreamTag;
  }
}

static int findObj(Case &c, const void *p) {
  for (size_t i = 0; i < c.objs.size(); ++i) if (c.objs[i].ptr == p) return (int) i;
  return -1;
}
static int findEntry(Case &c, const ringEntry_t *e) {
  for (size_t i = 0; i < c.objs.size(); ++i) if (c.objs[i].entry == e) return (int) i;
  return -1;
}
static bool objAlive(const Obj &o) { return !poisoned(o.ptr); }

static void reg(Case &c, Kind k, void *p, ringEntry_t *e) {
  if (p == NULL || findObj(c, p) >= 0) return;
  Obj o; o.kind = k; o.ptr = p; o.entry = e;
  c.objs.push_back(o);
}
static void regBuffer(Case &c, occa::modeBuffer_t *b) { reg(c, KBuf, b, static_cast<ringEntry_t*>(b)); }
static void regMemory(Case &c, occa::modeMemory_t *m) { reg(c, KMem, m, static_cast<ringEntry_t*>(m)); }

static std::string handleName(Case &c, const ringEntry_t *e) {
  for (int v = 0; v < NVARS; ++v) {
    if (!c.vars[v]) continue;
    const ringEntry_t *ve;
    switch (varKind(v)) {
      case KDev:  ve = static_cast<ringEntry_t*>(DEV(c, v)); break;
      case KMem:  ve = static_cast<ringEntry_t*>(MEM(c, v)); break;
      case KPool: ve = static_cast<ringEntry_t*>(POOL(c, v)); break;
      case KKer:  ve = static_cast<ringEntry_t*>(KER(c, v)); break;
      case KStr:  ve = static_cast<ringEntry_t*>(STR(c, v)); break;
      default:    ve = static_cast<ringEntry_t*>(TAG(c, v)); break;
    }
    if (ve == e) return VAR_NAMES[v];
  }
  for (size_t i = 0; i < c.objs.size(); ++i) {
    if (c.objs[i].kind == KDev && objAlive(c.objs[i])) {
      occa::modeDevice_t *d = (occa::modeDevice_t*) c.objs[i].ptr;
      if (static_cast<ringEntry_t*>(&d->currentStream) == e) {
        std::ostringstream s; s << "c" << i; return s.str();
      }
    }
  }
  return "?";
}

// walk a ring from its head through rightRingEntry without touching freed memory
template <class F>
static std::string ringDump(ringEntry_t *head, F name) {
  std::ostringstream o;
  o << "(";
  ringEntry_t *p = head;
  int n = 0;
  while (p) {
    if (n) o << ",";
    if (poisoned(p)) { o << "!"; break; }
    o << name(p);
    p = p->rightRingEntry;
    if (p == head || ++n > 64) break;
  }
  o << ")";
  return o.str();
}

static std::string observe(Case &c, bool hook) {
  std::ostringstream o;
  o << "I";
  for (int v = 0; v < NVARS; ++v) {
    if (!c.vars[v]) o << ".";
    else o << (targetOf(c, v) ? "1" : "0");
  }
  o << " O";
  for (size_t i = 0; i < c.objs.size(); ++i)
    if (c.objs[i].kind != KBuf) o << (objAlive(c.objs[i]) ? "1" : "0");
  if (hook) {
    o << " C";
#ifdef C01_HAVE_HOOK
    for (int i = 0; i < 7; ++i) o << (i ? "," : "") << (occa::verif::liveCount(i) - c.base[i]);
#else
    o << "NOHOOK";
#endif
  }
  o << " B";
  bool first = true;
  for (size_t i = 0; i < c.objs.size(); ++i) {
    if (c.objs[i].kind != KDev) continue;
    if (!first) o << ",";
    first = false;
    if (objAlive(c.objs[i])) o << ((occa::modeDevice_t*) c.objs[i].ptr)->bytesAllocated;
    else o << "-";
  }
  o << " R";
  auto hname = [&](ringEntry_t *e) { return handleName(c, e); };
  auto oname = [&](ringEntry_t *e) {
    int i = findEntry(c, e);
    std::ostringstream s;
    if (i < 0) s << "?"; else s << i;
    return s.str();
  };
  first = true;
  for (size_t i = 0; i < c.objs.size(); ++i) {
    Obj &x = c.objs[i];
    if (!objAlive(x)) continue;
    if (!first) o << "/";
    first = false;
    o << i << KIND_LETTER[x.kind];
    switch (x.kind) {
      case KDev: {
        occa::modeDevice_t *d = (occa::modeDevice_t*) x.ptr;
        o << ringDump(d->deviceRing.head, hname)
          << "k" << ringDump(d->kernelRing.head, oname)
          << "b" << ringDump(d->memoryRing.head, oname)
          << "s" << ringDump(d->streamRing.head, oname)
          << "t" << ringDump(d->streamTagRing.head, oname);
        break;
      }
      case KBuf:
        o << "m" << ringDump(((occa::modeBuffer_t*) x.ptr)->modeMemoryRing.head, oname);
        break;
      case KPool: {
        occa::modeMemoryPool_t *p = (occa::modeMemoryPool_t*) x.ptr;
        o << ringDump(p->memoryPoolRing.head, hname) << "m" << ringDump(p->modeMemoryRing.head, oname);
        break;
      }
      case KMem:  o << ringDump(((occa::modeMemory_t*) x.ptr)->memoryRing.head, hname); break;
      case KKer:  o << ringDump(((occa::modeKernel_t*) x.ptr)->kernelRing.head, hname); break;
      case KStr:  o << ringDump(((occa::modeStream_t*) x.ptr)->streamRing.head, hname); break;
      case KTag:  o << ringDump(((occa::modeStreamTag_t*) x.ptr)->streamTagRing.head, hname); break;
    }
  }
  return o.str();
}

static std::string kernelFile;

// `var = <prvalue>`: construction of the heap wrapper from the prvalue (elided copy) when the
// variable is empty, operator= from the temporary otherwise
#define STORE(T, c, v, expr)                         \
  do {                                               \
    if (!(c).vars[v]) (c).vars[v] = new T(expr);     \
    else *((T*) (c).vars[v]) = (expr);               \
  } while (0)

static void dropVar(Case &c, int v) {
  if (!c.vars[v]) return;
  switch (varKind(v)) {
    case KDev:  delete DEV(c, v); break;
    case KMem:  delete MEM(c, v); break;
    case KPool: delete POOL(c, v); break;
    case KKer:  delete KER(c, v); break;
    case KStr:  delete STR(c, v); break;
    default:    delete TAG(c, v); break;
  }
  c.vars[v] = NULL;
}

// returns 'd' (done), 'k' (skipped: not applicable) or 'e' (the library raised an error)
static char doOp(Case &c, const std::vector<std::string> &t) {
  const std::string &op = t[0];
  try {
    if (op == "nd") {
      int v = varIndex(t[1]);
      if (varKind(v) != KDev) return 'k';
      STORE(occa::device, c, v, occa::device({{"mode", "Serial"}}));
      occa::modeDevice_t *d = DEV(c, v)->modeDevice;
      reg(c, KDev, d, NULL);
      occa::modeStream_t *s = d->currentStream.modeStream;
      reg(c, KStr, s, static_cast<ringEntry_t*>(s));
      return 'd';
    }
    if (op == "nm" || op == "np" || op == "nk" || op == "ns" || op == "nt" || op == "gs") {
      int v = varIndex(t[1]), dv = varIndex(t[2]);
      Kind want = (op == "nm") ? KMem : (op == "np") ? KPool : (op == "nk") ? KKer
                  : (op == "nt") ? KTag : KStr;
      if (varKind(v) != want || varKind(dv) != KDev) return 'k';
      if (!c.vars[dv]) return 'k';
      occa::device &dev = *DEV(c, dv);
      if (op == "nm") {
        const long bytes = atol(t[3].c_str());
        STORE(occa::memory, c, v, dev.malloc(bytes, occa::dtype::byte));
        occa::modeMemory_t *m = MEM(c, v)->modeMemory;
        regBuffer(c, m->modeBuffer);
        regMemory(c, m);
      } else if (op == "np") {
        STORE(occa::memoryPool, c, v, dev.createMemoryPool());
        occa::modeMemoryPool_t *p = POOL(c, v)->modeMemoryPool;
        reg(c, KPool, p, static_cast<ringEntry_t*>(p));
      } else if (op == "nk") {
        STORE(occa::kernel, c, v, dev.buildKernelFromBinary(kernelFile, "c01k"));
        occa::modeKernel_t *k = KER(c, v)->modeKernel;
        reg(c, KKer, k, static_cast<ringEntry_t*>(k));
      } else if (op == "ns") {
        STORE(occa::stream, c, v, dev.createStream());
        occa::modeStream_t *s = STR(c, v)->modeStream;
        reg(c, KStr, s, static_cast<ringEntry_t*>(s));
      } else if (op == "nt") {
        STORE(occa::streamTag, c, v, dev.tagStream());
        occa::modeStreamTag_t *s = TAG(c, v)->modeStreamTag;
        reg(c, KTag, s, static_cast<ringEntry_t*>(s));
      } else {
        STORE(occa::stream, c, v, dev.getStream());
      }
      return 'd';
    }
    if (op == "nr") {
      int v = varIndex(t[1]), pv = varIndex(t[2]);
      if (varKind(v) != KMem || varKind(pv) != KPool) return 'k';
      if (!c.vars[pv]) return 'k';
      occa::memoryPool &pool = *POOL(c, pv);
      occa::modeMemoryPool_t *p = pool.modeMemoryPool;
      STORE(occa::memory, c, v, pool.reserve(128, occa::dtype::byte));
      regBuffer(c, p->buffer);
      regMemory(c, MEM(c, v)->modeMemory);
      return 'd';
    }
    if (op == "sl") {
      int v = varIndex(t[1]), mv = varIndex(t[2]);
      if (varKind(v) != KMem || varKind(mv) != KMem) return 'k';
      if (!c.vars[mv]) return 'k';
      occa::memory &src = *MEM(c, mv);
      if (src.modeMemory && src.modeMemory->modeBuffer
          && dynamic_cast<occa::modeMemoryPool_t*>(src.modeMemory->modeBuffer)) return 'k';
      STORE(occa::memory, c, v, src.slice(0));
      if (MEM(c, v)->modeMemory) regMemory(c, MEM(c, v)->modeMemory);
      return 'd';
    }
    if (op == "cp" || op == "as" || op == "sw") {
      int v = varIndex(t[1]), w = varIndex(t[2]);
      if (varKind(v) != varKind(w)) return 'k';
      if (op == "sw" && varKind(v) != KMem && varKind(v) != KPool) return 'k';
      if (op == "cp") {
        if (c.vars[v] || !c.vars[w]) return 'k';
        switch (varKind(v)) {
          case KDev:  c.vars[v] = new occa::device(*DEV(c, w)); break;
          case KMem:  c.vars[v] = new occa::memory(*MEM(c, w)); break;
          case KPool: c.vars[v] = new occa::memoryPool(*POOL(c, w)); break;
          case KKer:  c.vars[v] = new occa::kernel(*KER(c, w)); break;
          case KStr:  c.vars[v] = new occa::stream(*STR(c, w)); break;
          default:    c.vars[v] = new occa::streamTag(*TAG(c, w)); break;
        }
        return 'd';
      }
      if (!c.vars[v] || !c.vars[w]) return 'k';
      if (op == "as") {
        switch (varKind(v)) {
          case KDev:  *DEV(c, v) = *DEV(c, w); break;
          case KMem:  *MEM(c, v) = *MEM(c, w); break;
          case KPool: *POOL(c, v) = *POOL(c, w); break;
          case KKer:  *KER(c, v) = *KER(c, w); break;
          case KStr:  *STR(c, v) = *STR(c, w); break;
          default:    *TAG(c, v) = *TAG(c, w); break;
        }
      } else {
        if (varKind(v) == KMem) MEM(c, v)->swap(*MEM(c, w));
        else POOL(c, v)->swap(*POOL(c, w));
      }
      return 'd';
    }
    if (op == "fr" || op == "dr" || op == "du") {
      int v = varIndex(t[1]);
      if (!c.vars[v]) return 'k';
      if (op == "dr") { dropVar(c, v); return 'd'; }
      if (op == "du") {
        void *tgt = targetOf(c, v);
        if (tgt) { int i = findObj(c, tgt); if (i >= 0) c.kept.push_back(i); }
      }
      const bool fr = (op == "fr");
      switch (varKind(v)) {
        case KDev:  if (fr) DEV(c, v)->free();  else DEV(c, v)->dontUseRefs(); break;
        case KMem:  if (fr) MEM(c, v)->free();  else MEM(c, v)->dontUseRefs(); break;
        case KPool: if (fr) POOL(c, v)->free(); else POOL(c, v)->dontUseRefs(); break;
        case KKer:  if (fr) KER(c, v)->free();  else KER(c, v)->dontUseRefs(); break;
        case KStr:  if (fr) STR(c, v)->free();  else STR(c, v)->dontUseRefs(); break;
        default:    if (fr) TAG(c, v)->free();  else TAG(c, v)->dontUseRefs(); break;
      }
      return 'd';
    }
    if (op == "end") {
      for (int v = 0; v < NVARS; ++v) dropVar(c, v);
      // what dontUseRefs() kept alive is freed through a fresh wrapper, oldest first
      for (size_t j = 0; j < c.kept.size(); ++j) {
        Obj &x = c.objs[c.kept[j]];
        if (!objAlive(x)) continue;
        switch (x.kind) {
          case KDev:  { occa::device k((occa::modeDevice_t*) x.ptr); k.free(); break; }
          case KMem:  { occa::memory k((occa::modeMemory_t*) x.ptr); k.free(); break; }
          case KPool: { occa::memoryPool k((occa::modeMemoryPool_t*) x.ptr); k.free(); break; }
          case KKer:  { occa::kernel k((occa::modeKernel_t*) x.ptr); k.free(); break; }
          case KStr:  { occa::stream k((occa::modeStream_t*) x.ptr); k.free(); break; }
          case KTag:  { occa::streamTag k((occa::modeStreamTag_t*) x.ptr); k.free(); break; }
          default: break;
        }
      }
      return 'd';
    }
  } catch (occa::exception &e) {
    return 'e';
  }
  std::cerr << "bad token " << op << std::endl;
  exit(3);
}

int main() {
  // Kernels come from one trivial pre-built shared object loaded with buildKernelFromBinary
  // (same modeKernel_t life cycle as a JIT-built kernel, without the JIT).
  const char *cache = getenv("OCCA_CACHE_DIR");
  kernelFile = std::string(cache ? cache : "/tmp") + "/c01_kernel.so";
  {
    std::ifstream probe(kernelFile.c_str());
    if (!probe.good()) {
      const std::string tag = std::to_string((long) getpid());
      const std::string src = kernelFile + "." + tag + ".cpp";
      const std::string tmp = kernelFile + "." + tag + ".tmp";
      std::ofstream f(src.c_str());
      f << "extern \"C\" void c01k(const int &n, int *a) { for (int i = 0; i < n; ++i) a[i] = i; }\n";
      f.close();
      const std::string cmd = "g++ -shared -fPIC -O1 -o " + tmp + " " + src;
      if (system(cmd.c_str()) != 0) { std::cerr << "cannot build " << kernelFile << std::endl; return 3; }
      rename(tmp.c_str(), kernelFile.c_str());
      remove(src.c_str());
    }
  }
  std::string line;
  while (std::getline(std::cin, line)) {
    std::istringstream ss(line);
    std::string tok;
    Case c;
    bool hook = true, sawEnd = false;
#ifdef C01_HAVE_HOOK
    for (int i = 0; i < 7; ++i) c.base[i] = occa::verif::liveCount(i);
#endif
    std::ostringstream out;
    bool first = true;
    std::vector<std::vector<std::string> > ops;
    while (ss >> tok) {
      if (tok == "H0") { hook = false; continue; }
      if (tok == "H1") { hook = true; continue; }
      if (tok.size() == 4 && tok[0] == 'V') continue;
      std::vector<std::string> parts;
      std::istringstream ts(tok);
      std::string part;
      while (std::getline(ts, part, ':')) parts.push_back(part);
      ops.push_back(parts);
    }
    for (size_t i = 0; i < ops.size(); ++i) {
      char st = doOp(c, ops[i]);
      if (!first) out << ";";
      first = false;
      out << st << " " << observe(c, hook);
      if (ops[i][0] == "end") sawEnd = true;
    }
    if (!sawEnd) {
      // leave nothing behind for the next history (not part of the observation)
      std::vector<std::string> e(1, "end");
      doOp(c, e);
    }
    std::cout << "R " << out.str() << std::endl;
  }
  return 0;
}
