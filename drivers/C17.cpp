// C17/C18/C19 implementation driver: the OKL translators of the library built from /repo, as a
// persistent process (what `occa translate -m <mode> [-l]` does, without the CLI front end).
//   input  line:  <mode> <0|1|2> <hex of the OKL source>     0: kernel source, 1: launcher source,
//                                                            2: both from one parse (launcher back ends)
//   output line:  R <hex of the translated source> [<hex of the launcher source>]      or      R ERR
//   input  line:  noop <outer x> <outer y> <outer z> <inner x> <inner y> <inner z>   (unsigned 64-bit)
//   output line:  R 1  when occa::kernel::run hands a launch with these dimensions to the backend,
//                 R 0  when it returns early (modeKernel_t::isNoop)
// mode in {serial, openmp, cuda, hip, opencl, metal, dpcpp}.  Parser diagnostics go to stderr.
#include <iostream>
#include <sstream>
#include <string>
#include <vector>
#include <occa/internal/lang/modes/serial.hpp>
#include <occa/internal/lang/modes/openmp.hpp>
#include <occa/internal/lang/modes/cuda.hpp>
#include <occa/internal/lang/modes/hip.hpp>
#include <occa/internal/lang/modes/opencl.hpp>
#include <occa/internal/lang/modes/metal.hpp>
#include <occa/internal/lang/modes/dpcpp.hpp>
#include <occa.hpp>
#include <occa/internal/core/kernel.hpp>
#include <occa/internal/core/device.hpp>

// a backend kernel that only records that it was run
struct probeKernel : public occa::modeKernel_t {
  mutable int ran;
  occa::lang::kernelMetadata_t md;
  probeKernel(occa::modeDevice_t *d) :
    occa::modeKernel_t(d, "probe", "", occa::json()), ran(0) {}
  ~probeKernel() {}
  int maxDims() const { return 3; }
  occa::dim maxOuterDims() const { return occa::dim(-1, -1, -1); }
  occa::dim maxInnerDims() const { return occa::dim(-1, -1, -1); }
  const occa::lang::kernelMetadata_t& getMetadata() const { return md; }
  void run() const { ++ran; }
};

static std::string unhex(const std::string &h) {
  std::string s;
  for (size_t i = 0; i + 1 < h.size(); i += 2) {
    s.push_back((char) std::stoi(h.substr(i, 2), nullptr, 16));
  }
  return s;
}

static std::string hex(const std::string &s) {
  static const char *d = "0123456789abcdef";
  std::string h;
  for (unsigned char c : s) {
    h.push_back(d[c >> 4]);
    h.push_back(d[c & 15]);
  }
  return h;
}

int main() {
  std::string line;
  while (std::getline(std::cin, line)) {
    std::istringstream ss(line);
    std::string mode, hexsrc;
    int launcher = 0;
    ss >> mode;
    if (mode == "noop") {
      static occa::device dev({{"mode", "Serial"}});
      unsigned long long v[6] = {1, 1, 1, 1, 1, 1};
      for (int i = 0; i < 6; ++i) ss >> v[i];
      // what the generated launcher does: occa::dim outer, inner; outer[k] = ...; setRunDims; run
      occa::dim outer, inner;
      outer.dims = 3;
      inner.dims = 3;
      for (int i = 0; i < 3; ++i) {
        outer[i] = (occa::udim_t) v[i];
        inner[i] = (occa::udim_t) v[3 + i];
      }
      probeKernel *pk = new probeKernel(dev.getModeDevice());
      occa::kernel k(pk);
      k.setRunDims(outer, inner);
      k.run();
      std::cout << "R " << (pk->ran ? 1 : 0) << std::endl;
      k.free();
      continue;
    }
    ss >> launcher >> hexsrc;
    const std::string src = unhex(hexsrc);
    occa::json props;
    props["mode"] = mode;
    occa::lang::parser_t *parser = NULL;
    bool withLauncher = true;
    if (mode == "serial") {
      parser = new occa::lang::okl::serialParser(props);
      withLauncher = false;
    } else if (mode == "openmp") {
      parser = new occa::lang::okl::openmpParser(props);
      withLauncher = false;
    } else if (mode == "cuda") {
      parser = new occa::lang::okl::cudaParser(props);
    } else if (mode == "hip") {
      parser = new occa::lang::okl::hipParser(props);
    } else if (mode == "opencl") {
      parser = new occa::lang::okl::openclParser(props);
    } else if (mode == "metal") {
      parser = new occa::lang::okl::metalParser(props);
    } else if (mode == "dpcpp") {
      parser = new occa::lang::okl::dpcppParser(props);
    }
    if (!parser) {
      std::cout << "R ERR" << std::endl;
      continue;
    }
    std::string out, out2;
    bool ok = false;
    try {
      parser->parseSource(src);
      ok = parser->succeeded();
      if (ok) {
        if (launcher == 1 && withLauncher) {
          out = ((occa::lang::okl::withLauncher*) parser)->launcherParser.toString();
        } else {
          out = parser->toString();
        }
        if (launcher == 2 && withLauncher) {
          out2 = ((occa::lang::okl::withLauncher*) parser)->launcherParser.toString();
        }
      }
    } catch (...) {
      ok = false;
    }
    delete parser;
    if (ok && launcher == 2) {
      std::cout << "R " << hex(out) << " " << hex(out2) << std::endl;
    } else if (ok) {
      std::cout << "R " << hex(out) << std::endl;
    } else {
      std::cout << "R ERR" << std::endl;
    }
  }
  return 0;
}
