// C03/C04 implementation driver: histories of pool operations on a real Serial occa::memoryPool.
// One history per stdin line, one "R ..." line per history (syntax: see extract/C03/driver.ml).
//
//   r<id>:<bytes>                 id = pool.reserve<void>(bytes), then fill with the id's byte pattern
//   s<id>:<parent>:<off>:<cnt>    id = parent.slice(off, cnt)
//   f<id>                         drop the (only) handle of id
//   w<id>:<off>:<cnt>:<seed>      write a seed pattern through id at [off, off+cnt)
//   z:<bytes>                     pool.resize(bytes)
//   k                             pool.shrinkToFit()
//   a:<alignment>                 pool.setAlignment(alignment)
//
// After every operation the whole observable state is printed:
//   <token> <ok|ERR|NUL> <reserved> <size> <numReservations> <alignment> <memoryAllocated> <maxMemoryAllocated> <mig>
//      [ id/family@offset+size#fnv32(contents) ... ]        (in the order of the pool's reservation set)
#include <algorithm>
#include <cstdint>
#include <iostream>
#include <map>
#include <sstream>
#include <string>
#include <vector>
#include <occa.hpp>
#include <occa/internal/core/device.hpp>
#include <occa/internal/core/memory.hpp>
#include <occa/internal/core/memoryPool.hpp>

static uint32_t fnv(const std::vector<unsigned char> &v, size_t n) {
  uint32_t h = 2166136261u;
  for (size_t i = 0; i < n; ++i) { h ^= v[i]; h *= 16777619u; }
  return h;
}

static std::vector<long> fields(const std::string &s) {
  std::vector<long> r;
  std::string cur;
  for (size_t i = 0; i <= s.size(); ++i) {
    if (i == s.size() || s[i] == ':') { r.push_back(cur.empty() ? 0 : std::stol(cur)); cur.clear(); }
    else cur.push_back(s[i]);
  }
  return r;
}

struct ent { long id, fam, off, size; uint32_t h; };

int main() {
  std::string line;
  while (std::getline(std::cin, line)) {
    std::ostringstream out;
    {
      occa::device device({{"mode", "Serial"}});
      occa::memoryPool pool = device.createMemoryPool();
      std::map<long, occa::memory> mems;
      std::map<long, long> fam;
      std::istringstream ss(line);
      std::string tok;
      bool first = true;
      while (ss >> tok) {
        const char k = tok[0];
        std::string tag = "ok";
        occa::modeMemoryPool_t *mp = pool.getModeMemoryPool();
        const char *bufBefore = (mp && mp->buffer) ? mp->buffer->ptr : nullptr;
        const bool hadRes = mp && mp->reservations.size() != 0;
        try {
          if (k == 'r') {
            std::vector<long> f = fields(tok.substr(1));
            occa::memory m;
            if (!mems.count(f[0])) m = pool.reserve(f[1], occa::dtype::byte);
            if (!m.isInitialized()) tag = "NUL";
            else {
              mems[f[0]] = m; fam[f[0]] = f[0];
              std::vector<unsigned char> pat(f[1] + 1);
              for (long j = 0; j < f[1]; ++j) pat[j] = (unsigned char) ((f[0] * 41 + j * 7 + 3) & 255);
              m.copyFrom(pat.data(), f[1], 0);
            }
          } else if (k == 's') {
            std::vector<long> f = fields(tok.substr(1));
            auto it = mems.find(f[1]);
            if (it == mems.end() || mems.count(f[0])) tag = "NUL";
            else {
              occa::memory m = it->second.slice(f[2], f[3]);
              if (!m.isInitialized()) tag = "NUL";
              else { mems[f[0]] = m; fam[f[0]] = fam[f[1]]; }
            }
          } else if (k == 'f') {
            long id = std::stol(tok.substr(1));
            if (mems.erase(id) == 0) tag = "NUL";
          } else if (k == 'w') {
            std::vector<long> f = fields(tok.substr(1));
            auto it = mems.find(f[0]);
            if (it == mems.end()) tag = "NUL";
            else {
              std::vector<unsigned char> pat((f[2] > 0 ? f[2] : 0) + 1);
              for (long j = 0; j < f[2]; ++j) pat[j] = (unsigned char) ((f[3] * 53 + j * 13 + 5) & 255);
              it->second.copyFrom(pat.data(), f[2], f[1]);
            }
          } else if (k == 'z') {
            pool.resize(std::stol(tok.substr(2)));
          } else if (k == 'k') {
            pool.shrinkToFit();
          } else if (k == 'a') {
            pool.setAlignment(std::stol(tok.substr(2)));
          } else {
            tag = "BAD";
          }
        } catch (occa::exception &e) {
          tag = "ERR";
        }
        mp = pool.getModeMemoryPool();
        const char *bufAfter = (mp && mp->buffer) ? mp->buffer->ptr : nullptr;
        const int mig = (hadRes && bufBefore != bufAfter) ? 1 : 0;
        if (!first) out << " ; ";
        first = false;
        out << tok << " " << tag << " " << pool.reserved() << " " << pool.size() << " " << pool.numReservations() << " "
            << pool.alignment() << " " << device.memoryAllocated() << " " << device.maxMemoryAllocated()
            << " " << mig << " [";
        std::map<occa::modeMemory_t*, long> ids;
        for (auto &kv : mems) ids[kv.second.getModeMemory()] = kv.first;
        std::vector<ent> es;
        for (occa::modeMemory_t *m : mp->reservations) {
          ent e;
          auto it = ids.find(m);
          e.id = (it == ids.end()) ? -1 : it->second;
          e.fam = (e.id < 0) ? -1 : fam[e.id];
          e.off = (long) m->offset; e.size = (long) m->size;
          std::vector<unsigned char> got(e.size + 1);
          if (e.id >= 0 && e.size > 0) mems[e.id].copyTo(got.data(), e.size, 0);
          e.h = fnv(got, (size_t) e.size);
          es.push_back(e);
        }
        // reservations with identical (offset,size) are ordered by address in the set: canonicalise by id
        for (size_t i = 0; i < es.size();) {
          size_t j = i;
          while (j < es.size() && es[j].off == es[i].off && es[j].size == es[i].size) ++j;
          std::sort(es.begin() + i, es.begin() + j, [](const ent &a, const ent &b) { return a.id < b.id; });
          i = j;
        }
        for (size_t i = 0; i < es.size(); ++i) {
          if (i) out << " ";
          char hb[16]; snprintf(hb, sizeof hb, "%08x", es[i].h);
          out << es[i].id << "/" << es[i].fam << "@" << es[i].off << "+" << es[i].size << "#" << hb;
        }
        out << "]";
      }
    }
    std::cout << "R " << out.str() << std::endl;
  }
  return 0;
}
