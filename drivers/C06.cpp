// C06 driver: kernel cache keys of pairs of build configurations, from the real library.
//
//   C06 keys            stdin: one case per line, stdout: "R <key1> <key2>"      (the full 256-bit keys)
//   C06 pairs           stdin: one case per line, stdout: "R EQ" | "R NE"
//   C06 build <mode> <source-file-or-'-'> <kernel-name> [tokens...]   builds with the properties of the
//                       A-tokens, runs the kernel on one int, prints "R OK <value> <key>" | "R ERR <what>"
//
// case  = <m1> <m2> token*        m = S (Serial) | O (OpenMP)
// token = A<path>=<json>  both configurations | 1<path>=<json> first | 2<path>=<json> second
//         dA<path>=<json> / d1.. / d2..         the same property given at DEVICE level: occa::device({mode, kernel: {path: v}})
//         gA<path>=<json> / g1.. / g2..         ... and in the global occa::settings() ("kernel/<path>"), set before the
//                                               device is created and removed afterwards
//         x1=<text> / x2=<text> / xA=<text>     kernel source text (default "k0")
//         <json>/<text> are percent-encoded (%20 space, %25 %, %0A newline)
// The key is obtained without compiling, from device::setupKernelInfo (private: opened below), with an
// empty per-run OCCA_CACHE_DIR so that applyDependencyHash is the identity.
#include <iostream>
#include <fstream>
#include <sstream>
#include <string>
#include <vector>
#include <map>
#include <cstdlib>
#define private public
#include <occa.hpp>
#undef private
#include <occa/internal/core/device.hpp>

static std::string decode(const std::string &s) {
  std::string out;
  for (size_t i = 0; i < s.size(); ++i) {
    if (s[i] == '%' && i + 2 < s.size()) {
      out += (char) std::strtol(s.substr(i + 1, 2).c_str(), NULL, 16);
      i += 2;
    } else {
      out += s[i];
    }
  }
  return out;
}

static std::vector<std::string> split(const std::string &line) {
  std::vector<std::string> toks;
  std::istringstream ss(line);
  std::string t;
  while (ss >> t) toks.push_back(t);
  return toks;
}

static occa::device& deviceFor(char m) {
  static std::map<char, occa::device> devs;
  if (!devs.count(m)) {
    devs[m] = occa::device({{"mode", m == 'O' ? "OpenMP" : "Serial"}});
  }
  return devs[m];
}

typedef std::vector<std::pair<std::string, std::string> > levelProps;   // path, json text

struct config {
  occa::json props;
  levelProps device, settings;
  std::string source;
  config() : props(occa::json::object_), source("k0") {}
};

static void applyLevel(levelProps &l, const std::string &body) {
  size_t e = body.find('=');
  if (e == std::string::npos) return;
  l.push_back(std::make_pair(body.substr(0, e), decode(body.substr(e + 1))));
}

static void apply(config &c, const std::string &body) {
  // body = <path>=<json>
  size_t e = body.find('=');
  if (e == std::string::npos) return;
  const std::string path = body.substr(0, e);
  c.props[path] = occa::json::parse(decode(body.substr(e + 1)));
}

static bool parseCase(const std::vector<std::string> &toks, config &c1, config &c2, size_t first) {
  for (size_t i = first; i < toks.size(); ++i) {
    const std::string &t = toks[i];
    if (t.size() < 3) continue;
    if (t[0] == 'x' && t[2] == '=') {
      const std::string v = decode(t.substr(3));
      if (t[1] == '1' || t[1] == 'A') c1.source = v;
      if (t[1] == '2' || t[1] == 'A') c2.source = v;
      continue;
    }
    if (t[0] == 'd' || t[0] == 'g') {
      const std::string lbody = t.substr(2);
      if (t[1] == '1' || t[1] == 'A') applyLevel(t[0] == 'd' ? c1.device : c1.settings, lbody);
      if (t[1] == '2' || t[1] == 'A') applyLevel(t[0] == 'd' ? c2.device : c2.settings, lbody);
      continue;
    }
    const std::string body = t.substr(1);
    if (t[0] == 'A' || t[0] == '1') apply(c1, body);
    if (t[0] == 'A' || t[0] == '2') apply(c2, body);
  }
  return true;
}

// a device whose kernel properties come (also) from occa::settings() and from the device properties
static occa::device deviceWithLevels(char m, const config &c) {
  for (const auto &pv : c.settings) {
    occa::settings()["kernel/" + pv.first] = occa::json::parse(pv.second);
  }
  occa::json dprops(occa::json::object_);
  dprops["mode"] = (m == 'O' ? "OpenMP" : "Serial");
  for (const auto &pv : c.device) {
    dprops["kernel/" + pv.first] = occa::json::parse(pv.second);
  }
  occa::device dev(dprops);
  if (c.settings.size()) {
    occa::settings().remove("kernel");
  }
  return dev;
}

static occa::hash_t keyOf(char m, const config &c) {
  occa::json kernelProps;
  occa::hash_t key;
  if (c.device.size() || c.settings.size()) {
    occa::device dev = deviceWithLevels(m, c);
    dev.setupKernelInfo(c.props, occa::hash(c.source), kernelProps, key);
  } else {
    deviceFor(m).setupKernelInfo(c.props, occa::hash(c.source), kernelProps, key);
  }
  return key;
}

int main(int argc, char **argv) {
  if (argc < 2) { std::cerr << "usage: C06 keys|pairs|build ...\n"; return 2; }
  const std::string what = argv[1];
  if (what == "build") {
    if (argc < 5) { std::cerr << "usage: C06 build <mode> <file|-> <kernel> tokens\n"; return 2; }
    try {
      config c, unused;
      std::vector<std::string> toks;
      for (int i = 5; i < argc; ++i) toks.push_back(argv[i]);
      parseCase(toks, c, unused, 0);
      occa::device dev = deviceWithLevels(argv[2][0], c);
      occa::kernel k;
      if (std::string(argv[3]) == "-") {
        k = dev.buildKernelFromString(c.source, argv[4], c.props);
      } else {
        k = dev.buildKernel(argv[3], argv[4], c.props);
      }
      int out[1] = {-1};
      occa::memory o = dev.malloc<int>(1, out);
      k(o);
      o.copyTo(out);
      std::cout << "R OK " << out[0] << " " << k.hash().getFullString() << std::endl;
    } catch (occa::exception &e) {
      std::string w = e.what();
      for (auto &ch : w) if (ch == '\n') ch = ' ';
      std::cout << "R ERR " << w.substr(0, 400) << std::endl;
      return 1;
    }
    return 0;
  }
  const bool printKeys = (what == "keys");
  std::string line;
  while (std::getline(std::cin, line)) {
    try {
      std::vector<std::string> toks = split(line);
      if (toks.size() < 2) { std::cout << "R BAD" << std::endl; continue; }
      config c1, c2;
      parseCase(toks, c1, c2, 2);
      occa::hash_t k1 = keyOf(toks[0][0], c1), k2 = keyOf(toks[1][0], c2);
      if (printKeys) {
        std::cout << "R " << k1.getFullString() << " " << k2.getFullString() << std::endl;
      } else {
        std::cout << "R " << (k1 == k2 ? "EQ" : "NE") << std::endl;
      }
    } catch (occa::exception &e) {
      std::cout << "R ERR" << std::endl;
    }
  }
  return 0;
}
