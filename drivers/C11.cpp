// C11 implementation driver: the same construction scripts as extract/C11/driver.ml, run on the
// real occa::dtype_t / argMetadata_t / kernelMetadata_t.  One case per stdin line, one "R ..." line
// per case.  Private members (enum_/struct_/tuple_/union_, name_, bytes_) are read, never written.
#include <bits/stdc++.h>
#define private public
#include <occa.hpp>
#include <occa/dtype/utils.hpp>
#include <occa/internal/lang/kernelMetadata.hpp>
#undef private

using occa::dtype_t;
using occa::json;

struct Bad {};

static std::vector<std::string> split(const std::string &s, char c) {
  std::vector<std::string> out;
  std::string cur;
  for (char ch : s) {
    if (ch == c) { out.push_back(cur); cur.clear(); }
    else cur.push_back(ch);
  }
  out.push_back(cur);
  return out;
}

static int toInt(const std::string &s) {
  if (s.empty()) throw Bad();
  size_t pos = 0;
  int v = 0;
  try { v = std::stoi(s, &pos); } catch (...) { throw Bad(); }
  if (pos != s.size()) throw Bad();
  return v;
}

static bool toBool(const std::string &s) {
  if (s == "1") return true;
  if (s == "0") return false;
  throw Bad();
}

static std::string view(const dtype_t &d0) {
  const dtype_t &d = d0.self();
  std::ostringstream o;
  auto fields = [&](const occa::strVector &names, auto *holder) {
    for (size_t i = 0; i < names.size(); ++i) {
      if (i) o << ",";
      o << names[i] << ":" << view((*holder)[(int) i]);
    }
  };
  if (d.enum_) {
    o << "E(" << d.name_ << ";" << d.bytes_ << ";";
    const occa::strVector &names = d.enum_->enumeratorNames;
    for (size_t i = 0; i < names.size(); ++i) { if (i) o << ","; o << names[i]; }
    o << ")";
  } else if (d.struct_) {
    o << "S(" << d.name_ << ";" << d.bytes_ << ";";
    fields(d.struct_->fieldNames, d.struct_);
    o << ")";
  } else if (d.tuple_) {
    o << "T(" << d.name_ << ";" << d.bytes_ << ";" << d.tuple_->size << ";" << view(d.tuple_->dtype) << ")";
  } else if (d.union_) {
    o << "U(" << d.name_ << ";" << d.bytes_ << ";";
    fields(d.union_->fieldNames, d.union_);
    o << ")";
  } else {
    const bool builtin = (&d != &occa::dtype::none) && (&d == &dtype_t::getBuiltin(d.name_));
    o << (builtin ? "B(" : "C(") << d.name_ << ";" << d.bytes_ << ")";
  }
  // name()/bytes() must agree with what was read directly
  if (d0.name() != d.name_ || d0.bytes() != d.bytes_) o << "!accessor";
  return o.str();
}

static const dtype_t* global(const std::string &bn) {
  if (bn == "memory") return &occa::dtype::memory;
  if (bn == "none") return &occa::dtype::none;
  const dtype_t &g = dtype_t::getBuiltin(bn);
  if (&g == &occa::dtype::none) throw Bad();
  return &g;
}

struct Env {
  std::vector<std::pair<std::string, const dtype_t*>> vars;
  std::vector<dtype_t*> owned;
  ~Env() { for (dtype_t *p : owned) delete p; }
  const dtype_t* lookup(const std::string &n) const {
    for (auto &v : vars) if (v.first == n) return v.second;
    throw Bad();
  }
  bool has(const std::string &n) const {
    for (auto &v : vars) if (v.first == n) return true;
    return false;
  }
  dtype_t* own(dtype_t *p) { owned.push_back(p); return p; }
};

static void addFields(Env &env, dtype_t &obj, const std::string &fs) {
  if (fs.empty()) return;
  for (const std::string &f : split(fs, ',')) {
    std::vector<std::string> a = split(f, '=');
    if (a.size() != 2) throw Bad();
    std::vector<std::string> b = split(a[1], '*');
    if (b.size() > 2) throw Bad();
    const int n = (b.size() == 2) ? toInt(b[1]) : 1;
    obj.addField(a[0], *env.lookup(b[0]), n);
  }
}

// walk PATH (keys and array indices separated by '/') and delete / replace the sub-tree
static void edit(json &root, const std::string &path, bool del, const json &value) {
  std::vector<std::string> comps = split(path, '/');
  json *cur = &root;
  for (size_t i = 0; i < comps.size(); ++i) {
    const std::string &c = comps[i];
    const bool last = (i + 1 == comps.size());
    const bool isIdx = !c.empty() && std::all_of(c.begin(), c.end(), ::isdigit);
    if (isIdx) {
      if (!cur->isArray()) throw Bad();
      occa::jsonArray &arr = cur->array();
      const size_t idx = (size_t) toInt(c);
      if (idx >= arr.size()) throw Bad();
      if (last) {
        if (del) arr.erase(arr.begin() + idx); else arr[idx] = value;
        return;
      }
      cur = &arr[idx];
    } else {
      if (!cur->isObject()) throw Bad();
      occa::jsonObject &obj = cur->object();
      if (last) {
        if (del) obj.erase(c); else obj[c] = value;
        return;
      }
      auto it = obj.find(c);
      if (it == obj.end()) throw Bad();
      cur = &(it->second);
    }
  }
}

static char castChar(const dtype_t &a, const dtype_t &b) {
  return a.canBeCastedTo(b) ? '1' : '0';
}

static std::string kmetaStr(const occa::lang::kernelMetadata_t &k) {
  std::ostringstream o;
  o << k.name << "[";
  for (size_t i = 0; i < k.arguments.size(); ++i) {
    const occa::lang::argMetadata_t &a = k.arguments[i];
    if (i) o << ";";
    o << a.name << "," << (a.isConst ? 1 : 0) << "," << (a.isPtr ? 1 : 0) << "," << view(a.dtype);
  }
  o << "]";
  return o.str();
}

static std::string runCase(const std::string &line) {
  Env env;
  std::vector<std::string> extra;
  std::istringstream ss(line);
  std::string tok;
  while (ss >> tok) {
    if (tok.rfind("m:", 0) == 0) {
      // an edit that does not apply to this JSON tree (missing path, undefined variable) is reported as NA
      try {
        std::vector<std::string> p = split(tok, ':');
        if (p.size() != 3) throw Bad();
        json j = occa::dtype::toJson(*env.lookup(p[1]));
        std::vector<std::string> e = split(p[2], '@');
        if (e.size() == 2 && e[0] == "del") {
          edit(j, e[1], true, json());
        } else if (e.size() == 4 && e[0] == "set") {
          json v;
          if (e[2] == "i") v = json((int32_t) toInt(e[3]));
          else if (e[2] == "s") v = json(e[3]);
          else if (e[2] == "b") v = json(toBool(e[3]));
          else throw Bad();
          edit(j, e[1], false, v);
        } else throw Bad();
        std::string r;
        try {
          dtype_t d = dtype_t::fromJson(j);
          r = view(d);
        } catch (occa::exception &) { r = "ERR"; }
        extra.push_back("E=" + r);
      } catch (Bad &) {
        extra.push_back("E=NA");
      }
    } else if (tok.rfind("K:", 0) == 0) {
      std::vector<std::string> p = split(tok, ':');
      if (p.size() != 3) throw Bad();
      occa::lang::kernelMetadata_t k;
      k.name = p[1];
      if (!p[2].empty()) {
        for (const std::string &a : split(p[2], ',')) {
          std::vector<std::string> q = split(a, '.');
          if (q.size() != 4) throw Bad();
          k += occa::lang::argMetadata_t(toBool(q[1]), toBool(q[2]), *env.lookup(q[3]), q[0]);
        }
      }
      json j = k.toJson();
      std::string r;
      try {
        occa::lang::kernelMetadata_t k2 = occa::lang::kernelMetadata_t::fromJson(j);
        r = kmetaStr(k2);
      } catch (occa::exception &) { r = "ERR"; }
      extra.push_back("K O=" + kmetaStr(k) + " J=" + j.dump(0) + " R=" + r);
    } else {
      size_t eq = tok.find('=');
      if (eq == std::string::npos) throw Bad();
      const std::string name = tok.substr(0, eq);
      if (name.size() < 2 || name[0] != 'x') throw Bad();
      toInt(name.substr(1));
      if (env.has(name)) throw Bad();
      std::vector<std::string> p = split(tok.substr(eq + 1), ':');
      const dtype_t *d = NULL;
      const std::string &k = p[0];
      if (k == "b" && p.size() == 2) {
        d = global(p[1]);
      } else if (k == "g" && p.size() == 2) {
        d = env.own(new dtype_t(*global(p[1])));
      } else if (k == "c" && p.size() == 4) {
        d = env.own(new dtype_t(p[1], toInt(p[2]), toBool(p[3])));
      } else if (k == "t" && p.size() == 4) {
        const dtype_t *src = env.lookup(p[1]);
        const int n = toInt(p[2]);
        const bool reg = toBool(p[3]);
        dtype_t *t = env.own(new dtype_t(dtype_t::tuple(*src, n)));
        if (reg) t->registerType();
        d = t;
      } else if (k == "n" && p.size() == 4) {
        const dtype_t *src = env.lookup(p[2]);
        d = env.own(new dtype_t(p[1], *src, toBool(p[3])));
      } else if (k == "y" && p.size() == 2) {
        d = env.own(new dtype_t(*env.lookup(p[1])));
      } else if (k == "s" && p.size() == 5) {
        const int bytes = toInt(p[2]);
        const bool reg = toBool(p[3]);
        dtype_t *s = env.own(new dtype_t(p[1], bytes));
        addFields(env, *s, p[4]);
        if (reg) s->registerType();
        d = s;
      } else if (k == "u" && p.size() == 4) {
        const bool reg = toBool(p[2]);
        dtype_t *u = env.own(new dtype_t(
          dtype_t::fromJson(std::string("{type:'union',name:'" + p[1] + "',fields:[]}"))));
        addFields(env, *u, p[3]);
        if (reg) u->registerType();
        d = u;
      } else if (k == "e" && p.size() == 5) {
        const int bytes = toInt(p[2]);
        const bool reg = toBool(p[3]);
        dtype_t *e = env.own(new dtype_t(p[1], bytes));
        if (!p[4].empty()) {
          for (const std::string &en : split(p[4], ',')) e->addEnumerator(en);
        }
        if (reg) e->registerType();
        d = e;
      } else {
        throw Bad();
      }
      env.vars.push_back(std::make_pair(name, d));
    }
  }

  std::vector<std::string> sections;
  std::vector<dtype_t*> rts;
  bool allOk = true;
  for (auto &v : env.vars) {
    const dtype_t &d = *v.second;
    json j = occa::dtype::toJson(d);
    const std::string text = j.dump(0);
    std::string r, r2;
    dtype_t *rt = NULL;
    try {
      rt = new dtype_t(dtype_t::fromJson(j));
      env.own(rt);
      r = view(*rt);
    } catch (occa::exception &) { r = "ERR"; allOk = false; }
    rts.push_back(rt);
    // the same through the text form
    try {
      dtype_t viaText = dtype_t::fromJson(text);
      r2 = view(viaText);
    } catch (occa::exception &) { r2 = "ERR"; }
    sections.push_back(v.first + " O=" + view(d) + " J=" + text + " R=" + r + " T=" + (r == r2 ? "1" : "0"));
  }
  if (!env.vars.empty()) {
    const size_t n = env.vars.size();
    std::string M = "M=", N = "N=", X = "X=";
    for (size_t i = 0; i < n; ++i) {
      if (i) { M += "/"; N += "/"; X += "/"; }
      for (size_t j = 0; j < n; ++j) {
        M += castChar(*env.vars[i].second, *env.vars[j].second);
        if (allOk) {
          N += castChar(*rts[i], *rts[j]);
          X += castChar(*env.vars[i].second, *rts[j]);
        }
      }
    }
    sections.push_back(M);
    sections.push_back(allOk ? N : "N=ERR");
    sections.push_back(allOk ? X : "X=ERR");
  }
  for (auto &e : extra) sections.push_back(e);
  std::string out;
  for (size_t i = 0; i < sections.size(); ++i) {
    if (i) out += " | ";
    out += sections[i];
  }
  return out;
}

int main() {
  std::string line;
  while (std::getline(std::cin, line)) {
    std::string r;
    try {
      r = runCase(line);
    } catch (Bad &) {
      r = "BADCASE";
    } catch (occa::exception &) {
      r = "BADCASE";
    }
    std::cout << "R " << r << std::endl;
  }
  return 0;
}
