// C23 implementation driver: the public functional API (occa::array, occa::range, occa::forLoop) on a
// Serial or OpenMP device.  One case per stdin line (syntax: extract/C23/driver.ml), one line
// "R <observation per operation>" per case.  An occa::exception is the observation "E".
// The lambdas below are the menu of coq/C23/Menu.v (eval_pred, eval_map, red_fn, helpers).
#include <occa.hpp>

#include <algorithm>
#include <cstdlib>
#include <iostream>
#include <map>
#include <sstream>
#include <string>
#include <vector>

using occa::reductionType;
using int2 = occa::int2;
using int3 = occa::int3;

typedef std::vector<std::string> strs;

static strs split(const std::string &s, char sep) {
  strs out;
  std::string cur;
  for (char ch : s) {
    if (ch == sep) { out.push_back(cur); cur.clear(); } else { cur += ch; }
  }
  out.push_back(cur);
  return out;
}

static strs words(const std::string &s) {
  strs out;
  std::istringstream in(s);
  std::string w;
  while (in >> w) out.push_back(w);
  return out;
}

static long num(const std::string &s) { return std::strtol(s.c_str(), NULL, 10); }

static std::vector<long> csv(const std::string &s, char sep = ',') {
  std::vector<long> out;
  if (s == "-" || s == "~" || s.empty()) return out;
  for (const std::string &p : split(s, sep)) out.push_back(num(p));
  return out;
}

static void pairOf(const std::string &s, long &a, long &b) {
  strs p = split(s, '_');
  if (p.size() != 2) throw std::string("pair");
  a = num(p[0]);
  b = num(p[1]);
}

template <class V>
static std::string showVec(const std::vector<V> &v) {
  if (v.empty()) return "-";
  std::ostringstream o;
  for (size_t i = 0; i < v.size(); ++i) {
    if (i) o << ',';
    o << (long) v[i];
  }
  return o.str();
}

template <class T>
static std::string showArr(const occa::array<T> &a) {
  const int n = (int) a.length();
  std::vector<T> h(n);
  if (n) a.copyTo(h.data());
  return showVec(h);
}

template <class T>
static occa::array<T> makeArr(occa::device dev, const std::vector<long> &xs, bool zeroSlice = false) {
  if (xs.empty()) {
    if (zeroSlice) {
      occa::array<T> base(dev, 1);
      return base.slice(1);
    }
    return occa::array<T>(dev, 0);
  }
  std::vector<T> h(xs.begin(), xs.end());
  occa::array<T> a(dev, (occa::dim_t) h.size());
  a.copyFrom(h.data());
  return a;
}

static occa::device &deviceFor(const std::string &mode) {
  static std::map<std::string, occa::device> devs;
  auto it = devs.find(mode);
  if (it == devs.end()) {
    occa::json props;
    props["mode"] = (mode == "O" ? "OpenMP" : "Serial");
    it = devs.insert(std::make_pair(mode, occa::device(props))).first;
  }
  return it->second;
}

//---[ predicates ]-------------------------------------------------------------
// kind: 0 every, 1 some, 2 findIndex
template <class T>
static long predOp(const occa::array<T> &a, int kind, const std::string &p) {
  const std::string tag = p.substr(0, 2);
  const int c = (int) num(p.substr(2));
  const int k = c;
  occa::scope sc({{"c", c}});
  occa::scope sk({{"k", k}});
#define C23_PRED(SCOPE, ...)                                                  \
  (kind == 0 ? (long) a.every(OCCA_FUNCTION(SCOPE, __VA_ARGS__))              \
   : kind == 1 ? (long) a.some(OCCA_FUNCTION(SCOPE, __VA_ARGS__))             \
   : (long) a.findIndex(OCCA_FUNCTION(SCOPE, __VA_ARGS__)))
  if (tag == "ve") return C23_PRED(sc, [=](const T &v) -> bool { return v == c; });
  if (tag == "vl") return C23_PRED(sc, [=](const T &v) -> bool { return v < c; });
  if (tag == "ie") return C23_PRED(sk, [=](const T &v, const int i) -> bool { return i == k; });
  if (tag == "pe") return C23_PRED(sc, [=](const T &v, const int i, const T *vals) -> bool { return vals[i] == c; });
  if (tag == "m3") return C23_PRED(sc, [=](const T &v, const int i) -> bool { return ((v + i) % 3) == c; });
#undef C23_PRED
  throw std::string("pred " + p);
}

static long rangePredOp(const occa::range &r, int kind, const std::string &p) {
  const std::string tag = p.substr(0, 2);
  const int c = (int) num(p.substr(2));
  occa::scope sc({{"c", c}});
#define C23_RPRED(...)                                                        \
  (kind == 0 ? (long) r.every(OCCA_FUNCTION(sc, __VA_ARGS__))                 \
   : kind == 1 ? (long) r.some(OCCA_FUNCTION(sc, __VA_ARGS__))                \
   : (long) r.findIndex(OCCA_FUNCTION(sc, __VA_ARGS__)))
  if (tag == "ve") return C23_RPRED([=](const int v) -> bool { return v == c; });
  if (tag == "vl") return C23_RPRED([=](const int v) -> bool { return v < c; });
  if (tag == "m3") return C23_RPRED([=](const int v) -> bool { return (v % 3) == c; });
#undef C23_RPRED
  throw std::string("rpred " + p);
}

//---[ map functions ]----------------------------------------------------------
template <class T>
static occa::array<int> mapOp(const occa::array<T> &a, const std::string &g, occa::array<int> *out) {
  if (g == "nx") {
    const int size = (int) a.length();
    occa::scope sc({{"size", size}});
    auto fn = OCCA_FUNCTION(sc, [=](const T &v, const int i, const T *vals) -> int {
      return vals[(i + 1) % size] - v;
    });
    return out ? a.template mapTo<int>(*out, fn) : a.template map<int>(fn);
  }
  long la, lb;
  pairOf(g.substr(1), la, lb);
  const int ca = (int) la;
  const int cb = (int) lb;
  occa::scope sc({{"ca", ca}, {"cb", cb}});
  if (g[0] == 'l') {
    auto fn = OCCA_FUNCTION(sc, [=](const T &v) -> int { return ca * v + cb; });
    return out ? a.template mapTo<int>(*out, fn) : a.template map<int>(fn);
  }
  if (g[0] == 'x') {
    auto fn = OCCA_FUNCTION(sc, [=](const T &v, const int i) -> int { return ca * v + cb * i; });
    return out ? a.template mapTo<int>(*out, fn) : a.template map<int>(fn);
  }
  throw std::string("mapf " + g);
}

//---[ reductions ]-------------------------------------------------------------
#define C23_F_SUM(acc, w)  acc + w
#define C23_F_MUL(acc, w)  acc * (1 - 2 * (w & 1))
#define C23_F_BOR(acc, w)  acc | (w & 255)
#define C23_F_BAND(acc, w) acc & (w | 85)
#define C23_F_BXOR(acc, w) acc ^ w
#define C23_F_LOR(acc, w)  acc || (w == c)
#define C23_F_LAND(acc, w) acc && (w < c)
#define C23_F_MIN(acc, w)  acc < w ? acc : w
#define C23_F_MAX(acc, w)  acc > w ? acc : w

#define C23_RED(T2, RT, FN)                                                                        \
  do {                                                                                             \
    if (useInit) {                                                                                 \
      return (long) a.template reduce<T2>(RT, (T2) init, OCCA_FUNCTION(sc,                         \
        [=](const T2 &acc, const T &v) -> T2 { return FN(acc, v); }));                             \
    }                                                                                              \
    if (arity == 2) {                                                                              \
      return (long) a.template reduce<T2>(RT, OCCA_FUNCTION(sc,                                    \
        [=](const T2 &acc, const T &v) -> T2 { return FN(acc, v); }));                             \
    }                                                                                              \
    if (arity == 3) {                                                                              \
      return (long) a.template reduce<T2>(RT, OCCA_FUNCTION(sc,                                    \
        [=](const T2 &acc, const T &v, const int i) -> T2 { return FN(acc, (v + i)); }));          \
    }                                                                                              \
    return (long) a.template reduce<T2>(RT, OCCA_FUNCTION(sc,                                      \
      [=](const T2 &acc, const T &v, const int i, const T *vals) -> T2 { return FN(acc, vals[i]); })); \
  } while (0)

template <class T>
static long reduceOp(const occa::array<T> &a, const std::string &kind, int arity, int c,
                     bool useInit, long init) {
  occa::scope sc({{"c", c}});
  if (kind == "sum")  C23_RED(long, reductionType::sum, C23_F_SUM);
  if (kind == "mul")  C23_RED(long, reductionType::multiply, C23_F_MUL);
  if (kind == "bor")  C23_RED(int, reductionType::bitOr, C23_F_BOR);
  if (kind == "band") C23_RED(int, reductionType::bitAnd, C23_F_BAND);
  if (kind == "bxor") C23_RED(int, reductionType::bitXor, C23_F_BXOR);
  if (kind == "lor")  C23_RED(bool, reductionType::boolOr, C23_F_LOR);
  if (kind == "land") C23_RED(bool, reductionType::boolAnd, C23_F_LAND);
  if (kind == "min")  C23_RED(int, reductionType::min, C23_F_MIN);
  if (kind == "max")  C23_RED(int, reductionType::max, C23_F_MAX);
  throw std::string("kind " + kind);
}

#define C23_RRED(T2, RT, FN)                                                                       \
  do {                                                                                             \
    if (useInit) {                                                                                 \
      return (long) r.reduce<T2>(RT, (T2) init, OCCA_FUNCTION(sc,                                  \
        [=](const T2 &acc, const int v) -> T2 { return FN(acc, v); }));                            \
    }                                                                                              \
    return (long) r.reduce<T2>(RT, OCCA_FUNCTION(sc,                                               \
      [=](const T2 &acc, const int v) -> T2 { return FN(acc, v); }));                              \
  } while (0)

static long rangeReduceOp(const occa::range &r, const std::string &kind, int c, bool useInit, long init) {
  occa::scope sc({{"c", c}});
  if (kind == "sum")  C23_RRED(long, reductionType::sum, C23_F_SUM);
  if (kind == "mul")  C23_RRED(long, reductionType::multiply, C23_F_MUL);
  if (kind == "bor")  C23_RRED(int, reductionType::bitOr, C23_F_BOR);
  if (kind == "band") C23_RRED(int, reductionType::bitAnd, C23_F_BAND);
  if (kind == "bxor") C23_RRED(int, reductionType::bitXor, C23_F_BXOR);
  if (kind == "lor")  C23_RRED(bool, reductionType::boolOr, C23_F_LOR);
  if (kind == "land") C23_RRED(bool, reductionType::boolAnd, C23_F_LAND);
  if (kind == "min")  C23_RRED(int, reductionType::min, C23_F_MIN);
  if (kind == "max")  C23_RRED(int, reductionType::max, C23_F_MAX);
  throw std::string("kind " + kind);
}

//---[ arrays ]-----------------------------------------------------------------
template <class T>
static std::string arrayOp(occa::device dev, occa::array<T> &a, const std::string &tok, long ts, long ti) {
  const strs f = split(tok, ':');
  const std::string &op = f[0];
  long x = 0, y = 0;
  if (op == "ev") return std::to_string(predOp(a, 0, f.at(1)));
  if (op == "so") return std::to_string(predOp(a, 1, f.at(1)));
  if (op == "fi") return std::to_string(predOp(a, 2, f.at(1)));
  if (op == "fc") {
    const int n = (int) a.length();
    std::vector<long> zeros(std::max(n, 1), 0);
    occa::array<int> counts = makeArr<int>(dev, zeros);
    occa::scope sc({{"counts", counts}});
    a.forEach(OCCA_FUNCTION(sc, [=](const T &v, const int i) -> void {
      counts[i] += 1;
    }));
    std::vector<int> h(std::max(n, 1));
    counts.copyTo(h.data());
    h.resize(n);
    return showVec(h);
  }
  if (op == "mp") return showArr(mapOp(a, f.at(1), NULL));
  if (op == "mt") {
    std::vector<long> marks((size_t) num(f.at(2)), -99);
    occa::array<int> out = makeArr<int>(dev, marks);
    occa::array<int> ret = mapOp(a, f.at(1), &out);
    const std::string viaOut = showArr(out);
    const std::string viaRet = showArr(ret);
    return viaOut == viaRet ? viaOut : viaOut + "!=" + viaRet;
  }
  if (op == "rd") return std::to_string(reduceOp(a, f.at(1), (int) num(f.at(2)), (int) num(f.at(3)), false, 0));
  if (op == "ri") return std::to_string(reduceOp(a, f.at(1), 2, (int) num(f.at(2)), true, num(f.at(3))));
  if (op == "mx") return std::to_string((long) a.max());
  if (op == "mn") return std::to_string((long) a.min());
  if (op == "io") return std::to_string((long) a.indexOf((T) num(f.at(1))));
  if (op == "li") return std::to_string((long) a.lastIndexOf((T) num(f.at(1))));
  if (op == "in") return std::to_string((long) a.includes((T) num(f.at(1))));
  if (op == "dp") {
    occa::array<T> other = makeArr<T>(dev, csv(f.at(1)));
    return std::to_string((long) a.dotProduct(other));
  }
  if (op == "cl") { pairOf(f.at(1), x, y); return showArr(a.clamp((T) x, (T) y)); }
  if (op == "cn") return showArr(a.clampMin((T) num(f.at(1))));
  if (op == "cx") return showArr(a.clampMax((T) num(f.at(1))));
  if (op == "rv") return showArr(a.reverse());
  if (op == "sl") { pairOf(f.at(1), x, y); return showArr(a.shiftLeft((int) x, (T) y)); }
  if (op == "sr") { pairOf(f.at(1), x, y); return showArr(a.shiftRight((int) x, (T) y)); }
  if (op == "ca") return showArr(a.template cast<long>());
  if (op == "fl") {
    occa::array<T> ret = a.fill((T) num(f.at(1)));
    const std::string viaThis = showArr(a);
    const std::string viaRet = showArr(ret);
    return viaThis == viaRet ? viaThis : viaThis + "!=" + viaRet;
  }
  if (op == "sc") {
    pairOf(f.at(1), x, y);
    occa::array<T> s = a.slice(x, y);
    a = s;
    if (ts || ti) a.setTileSize((int) ts, (int) ti);
    return showArr(a);
  }
  if (op == "cc") { pairOf(f.at(1), x, y); return showArr(a.concat(a.slice(x, y))); }
  if (op == "len") return std::to_string((long) a.length());
  throw std::string("aop " + tok);
}

template <class T>
static std::string arrayCase(const strs &t) {
  occa::device dev = deviceFor(t.at(1));
  const long ts = num(t.at(3)), ti = num(t.at(4));
  occa::array<T> a = makeArr<T>(dev, csv(t.at(5)), t.at(5) == "~");
  if (ts || ti) a.setTileSize((int) ts, (int) ti);
  std::string out;
  for (size_t k = 6; k < t.size(); ++k) {
    std::string r;
    try {
      r = arrayOp<T>(dev, a, t[k], ts, ti);
    } catch (occa::exception &e) {
      r = "E";
    }
    out += " " + r;
  }
  return out.empty() ? " -" : out;
}

//---[ ranges ]-----------------------------------------------------------------
static occa::range makeRange(occa::device dev, const std::string &ctor) {
  const strs f = split(ctor, ':');
  if (f[0] == "1") return occa::range(dev, num(f.at(1)));
  if (f[0] == "2") return occa::range(dev, num(f.at(1)), num(f.at(2)));
  if (f[0] == "3") return occa::range(dev, num(f.at(1)), num(f.at(2)), num(f.at(3)));
  throw std::string("range " + ctor);
}

static std::string rangeOp(occa::device dev, const occa::range &r, const std::string &tok) {
  const strs f = split(tok, ':');
  const std::string &op = f[0];
  if (op == "ev") return std::to_string(rangePredOp(r, 0, f.at(1)));
  if (op == "so") return std::to_string(rangePredOp(r, 1, f.at(1)));
  if (op == "fi") return std::to_string(rangePredOp(r, 2, f.at(1)));
  if (op == "fc") {
    // the values the body ran for, with multiplicity, ascending
    const long a0 = std::min(r.start, r.end), a1 = std::max(r.start, r.end);
    const long st = r.step < 0 ? -r.step : r.step;
    const int lo = (int) (a0 - st - 1);
    const int w = (int) ((a1 + st + 1) - lo + 1);
    std::vector<long> zeros(w + 2, 0);
    occa::array<int> counts = makeArr<int>(dev, zeros);
    occa::scope sc({{"counts", counts}, {"lo", lo}, {"w", w}});
    r.forEach(OCCA_FUNCTION(sc, [=](const int v) -> void {
      int k = v - lo + 1;
      if (k < 0) k = 0;
      if (k > w + 1) k = w + 1;
      counts[k] += 1;
    }));
    std::vector<int> h(w + 2);
    counts.copyTo(h.data());
    std::vector<long> vals;
    for (int k = 0; k < w + 2; ++k) {
      for (int m = 0; m < h[k]; ++m) vals.push_back((long) lo + k - 1);
    }
    return showVec(vals);
  }
  if (op == "mp") {
    long la, lb;
    pairOf(f.at(1), la, lb);
    const int ca = (int) la;
    const int cb = (int) lb;
    occa::scope sc({{"ca", ca}, {"cb", cb}});
    return showArr(r.map<int>(OCCA_FUNCTION(sc, [=](const int v) -> int { return ca * v + cb; })));
  }
  if (op == "ta") return showArr(r.toArray());
  if (op == "rd") return std::to_string(rangeReduceOp(r, f.at(1), (int) num(f.at(2)), false, 0));
  if (op == "ri") return std::to_string(rangeReduceOp(r, f.at(1), (int) num(f.at(2)), true, num(f.at(3))));
  if (op == "len") return std::to_string((long) r.length());
  throw std::string("rop " + tok);
}

static std::string rangeCase(const strs &t) {
  occa::device dev = deviceFor(t.at(1));
  occa::range r = makeRange(dev, t.at(2));
  const long ts = num(t.at(3)), ti = num(t.at(4));
  if (ts || ti) r.setTileSize((int) ts, (int) ti);
  std::string out;
  for (size_t k = 6; k < t.size(); ++k) {
    std::string s;
    try {
      s = rangeOp(dev, r, t[k]);
    } catch (occa::exception &e) {
      s = "E";
    }
    out += " " + s;
  }
  return out.empty() ? " -" : out;
}

//---[ forLoop ]----------------------------------------------------------------
struct iterSpec {
  occa::iteration it;
  long lo, hi;     // every value the loop may legitimately produce lies in [lo, hi]
  bool tiled;
};

static iterSpec makeIter(occa::device dev, const std::string &s) {
  const strs f = split(s, ':');
  iterSpec sp;
  long tile = 0;
  if (f[0] == "r") {
    const long a = num(f.at(1)), e = num(f.at(2)), st = num(f.at(3));
    tile = num(f.at(4));
    sp.it = occa::iteration(occa::range(dev, a, e, st));
    const long ast = st < 0 ? -st : (st == 0 ? 1 : st);
    sp.lo = std::min(a, e) - ast;
    sp.hi = std::max(a, e) + ast;
  } else if (f[0] == "n") {
    const long n = num(f.at(1));
    tile = num(f.at(2));
    sp.it = occa::iteration((int) n);
    sp.lo = std::min(0L, n) - 1;
    sp.hi = std::max(0L, n) + 1;
  } else if (f[0] == "a") {
    std::vector<long> v = csv(f.at(1), ';');
    tile = num(f.at(2));
    sp.it = occa::iteration(makeArr<int>(dev, v));
    sp.lo = v.empty() ? 0 : *std::min_element(v.begin(), v.end());
    sp.hi = v.empty() ? 0 : *std::max_element(v.begin(), v.end());
  } else {
    throw std::string("iter " + s);
  }
  sp.tiled = tile != 0;
  if (tile) sp.it = occa::tileIteration(sp.it, (int) tile);
  return sp;
}

// one dimension of the visit table: slot 0 and slot w + 1 collect values outside [lo, lo + w)
#define C23_DIM(K, VAL, D) int K = (VAL) - lo##D + 1; if (K < 0) K = 0; if (K > w##D + 1) K = w##D + 1;
#define C23_O1 C23_DIM(k0, o, 0)
#define C23_O2 C23_DIM(k0, o.x, 0) C23_DIM(k1, o.y, 1)
#define C23_O3 C23_DIM(k0, o.x, 0) C23_DIM(k1, o.y, 1) C23_DIM(k2, o.z, 2)
#define C23_I1 C23_DIM(k3, n, 3)
#define C23_I2 C23_DIM(k3, n.x, 3) C23_DIM(k4, n.y, 4)
#define C23_I3 C23_DIM(k3, n.x, 3) C23_DIM(k4, n.y, 4) C23_DIM(k5, n.z, 5)
#define C23_SO1 k0 * s0
#define C23_SO2 k0 * s0 + k1 * s1
#define C23_SO3 k0 * s0 + k1 * s1 + k2 * s2
#define C23_SI1 + k3 * s3
#define C23_SI2 + k3 * s3 + k4 * s4
#define C23_SI3 + k3 * s3 + k4 * s4 + k5 * s5

// outer loops only; DUMMY adds the @inner loop OKL asks for when no iteration is tiled
#define C23_RUN_OUTER(LOOP, OT, ODIMS, OSUM)                                               \
  do {                                                                                     \
    if (dummy) {                                                                           \
      (LOOP).run(OCCA_FUNCTION(sc, [=](const OT o) -> void {                               \
        OKL("@inner");                                                                     \
        for (int dummyIndex = 0; dummyIndex < 1; ++dummyIndex) {                           \
          ODIMS                                                                            \
          OKL("@atomic"); cnt[OSUM] += 1;                                                  \
        }                                                                                  \
      }));                                                                                 \
    } else {                                                                               \
      (LOOP).run(OCCA_FUNCTION(sc, [=](const OT o) -> void {                               \
        ODIMS                                                                              \
        OKL("@atomic"); cnt[OSUM] += 1;                                                    \
      }));                                                                                 \
    }                                                                                      \
  } while (0)

#define C23_RUN_INNER(LOOP, OT, ODIMS, OSUM, IT, IDIMS, ISUM)                              \
  (LOOP).run(OCCA_FUNCTION(sc, [=](const OT o, const IT n) -> void {                       \
    ODIMS                                                                                  \
    IDIMS                                                                                  \
    OKL("@atomic"); cnt[OSUM ISUM] += 1;                                                   \
  }))

#define C23_RUN_ALL(OUTERLOOP, OT, ODIMS, OSUM)                                            \
  do {                                                                                     \
    auto outerLoop = OUTERLOOP;                                                            \
    if (in.size() == 0) {                                                                  \
      C23_RUN_OUTER(outerLoop, OT, ODIMS, OSUM);                                           \
    } else if (in.size() == 1) {                                                           \
      auto loop = outerLoop.inner(in[0].it);                                               \
      C23_RUN_INNER(loop, OT, ODIMS, OSUM, int, C23_I1, C23_SI1);                          \
    } else if (in.size() == 2) {                                                           \
      auto loop = outerLoop.inner(in[0].it, in[1].it);                                     \
      C23_RUN_INNER(loop, OT, ODIMS, OSUM, int2, C23_I2, C23_SI2);                         \
    } else {                                                                               \
      auto loop = outerLoop.inner(in[0].it, in[1].it, in[2].it);                           \
      C23_RUN_INNER(loop, OT, ODIMS, OSUM, int3, C23_I3, C23_SI3);                         \
    }                                                                                      \
  } while (0)

static std::string forLoopCase(const strs &t) {
  occa::device dev = deviceFor(t.at(1));
  const strs halves = split(t.at(6), '/');
  if (halves.size() != 2) throw std::string("iters");
  std::vector<iterSpec> out, in;
  for (const std::string &s : split(halves[0], ',')) if (!s.empty()) out.push_back(makeIter(dev, s));
  for (const std::string &s : split(halves[1], ',')) if (!s.empty()) in.push_back(makeIter(dev, s));
  if (out.empty() || out.size() > 3 || in.size() > 3) throw std::string("arity");

  // visit table: dimension d has w[d] + 2 slots (outer dims 0..2, inner dims 3..5)
  int lo[6] = {0, 0, 0, 0, 0, 0}, w[6] = {0, 0, 0, 0, 0, 0}, s[6] = {0, 0, 0, 0, 0, 0};
  std::vector<int> dims;
  for (size_t k = 0; k < out.size(); ++k) dims.push_back((int) k);
  for (size_t k = 0; k < in.size(); ++k) dims.push_back(3 + (int) k);
  long total = 1;
  for (int k = (int) dims.size() - 1; k >= 0; --k) {
    const int d = dims[k];
    const iterSpec &sp = d < 3 ? out[d] : in[d - 3];
    lo[d] = (int) sp.lo;
    w[d] = (int) (sp.hi - sp.lo + 1);
    s[d] = (int) total;
    total *= (w[d] + 2);
  }
  if (total > 40000000) throw std::string("table too large");
  std::vector<long> zeros((size_t) total, 0);
  occa::array<int> cnt = makeArr<int>(dev, zeros);

  const int lo0 = lo[0], lo1 = lo[1], lo2 = lo[2], lo3 = lo[3], lo4 = lo[4], lo5 = lo[5];
  const int w0 = w[0], w1 = w[1], w2 = w[2], w3 = w[3], w4 = w[4], w5 = w[5];
  const int s0 = s[0], s1 = s[1], s2 = s[2], s3 = s[3], s4 = s[4], s5 = s[5];
  occa::scope sc({
    {"cnt", cnt},
    {"lo0", lo0}, {"lo1", lo1}, {"lo2", lo2}, {"lo3", lo3}, {"lo4", lo4}, {"lo5", lo5},
    {"w0", w0}, {"w1", w1}, {"w2", w2}, {"w3", w3}, {"w4", w4}, {"w5", w5},
    {"s0", s0}, {"s1", s1}, {"s2", s2}, {"s3", s3}, {"s4", s4}, {"s5", s5}
  });

  bool anyTiled = false;
  for (const iterSpec &sp : out) anyTiled = anyTiled || sp.tiled;
  const bool dummy = in.empty() && !anyTiled;

  try {
    if (out.size() == 1) {
      C23_RUN_ALL(occa::forLoop(dev).outer(out[0].it), int, C23_O1, C23_SO1);
    } else if (out.size() == 2) {
      C23_RUN_ALL(occa::forLoop(dev).outer(out[0].it, out[1].it), int2, C23_O2, C23_SO2);
    } else {
      C23_RUN_ALL(occa::forLoop(dev).outer(out[0].it, out[1].it, out[2].it), int3, C23_O3, C23_SO3);
    }
  } catch (occa::exception &e) {
    return " E";
  }

  std::vector<int> h((size_t) total);
  cnt.copyTo(h.data());
  // slots in ascending order are tuples in lexicographic order
  std::string res;
  for (long slot = 0; slot < total; ++slot) {
    if (!h[slot]) continue;
    std::string tup;
    long rest = slot;
    for (size_t k = 0; k < dims.size(); ++k) {
      const int d = dims[k];
      const long kd = rest / s[d];
      rest = rest % s[d];
      if (k) tup += ".";
      tup += std::to_string(kd - 1 + lo[d]);
    }
    res += " " + tup + "*" + std::to_string(h[slot]);
  }
  return res.empty() ? " -" : res;
}

int main() {
  std::string line;
  while (std::getline(std::cin, line)) {
    const strs t = words(line);
    if (t.empty()) continue;
    std::string out;
    try {
      if (t.size() < 6) throw std::string("short");
      if (t[0] == "A") out = (t.at(2) == "l" ? arrayCase<long>(t) : arrayCase<int>(t));
      else if (t[0] == "R") out = rangeCase(t);
      else if (t[0] == "F") out = forLoopCase(t);
      else throw std::string("kind");
    } catch (std::string &m) {
      out = " BADCASE " + m;
    } catch (std::out_of_range &) {
      out = " BADCASE";
    } catch (occa::exception &e) {
      out = " E";
    }
    std::cout << "R" << out << std::endl;
  }
  return 0;
}
