// C20/C21 translation driver: what `occa translate -m MODE [-l] file.okl` does (src/occa/internal/bin/occa.cpp
// runTranslate: construct the mode's parser with {mode: <mode>}, parseFile, toString / launcherParser.toString),
// for many files in one process.
// stdin:  <mode> <file.okl> <kernel output file> <launcher output file or ->     stdout:  R OK | R TRERR
#include <bits/stdc++.h>
#include <occa.hpp>
#include <occa/internal/utils/string.hpp>
#include <occa/internal/lang/modes/serial.hpp>
#include <occa/internal/lang/modes/openmp.hpp>
#include <occa/internal/lang/modes/cuda.hpp>
#include <occa/internal/lang/modes/hip.hpp>
#include <occa/internal/lang/modes/opencl.hpp>
#include <occa/internal/lang/modes/metal.hpp>
#include <occa/internal/lang/modes/dpcpp.hpp>

int main() {
  std::string line;
  while (std::getline(std::cin, line)) {
    std::istringstream ss(line);
    std::string modeIn, path, outK, outL;
    ss >> modeIn >> path >> outK >> outL;
    const std::string mode = occa::lowercase(modeIn);
    occa::json kernelProps;
    kernelProps["mode"] = mode;
    occa::lang::parser_t *parser = NULL;
    bool withLauncher = true;
    if (mode == "serial") { parser = new occa::lang::okl::serialParser(kernelProps); withLauncher = false; }
    else if (mode == "openmp") { parser = new occa::lang::okl::openmpParser(kernelProps); withLauncher = false; }
    else if (mode == "cuda") parser = new occa::lang::okl::cudaParser(kernelProps);
    else if (mode == "hip") parser = new occa::lang::okl::hipParser(kernelProps);
    else if (mode == "opencl") parser = new occa::lang::okl::openclParser(kernelProps);
    else if (mode == "metal") parser = new occa::lang::okl::metalParser(kernelProps);
    else if (mode == "dpcpp") parser = new occa::lang::okl::dpcppParser(kernelProps);
    if (!parser) { std::cout << "R TRERR unknown-mode" << std::endl; continue; }
    bool ok = false;
    try {
      parser->parseFile(path);
      ok = parser->succeeded();
      if (ok) {
        std::ofstream(outK) << parser->toString();
        if (withLauncher && outL != "-") {
          std::ofstream(outL) << ((occa::lang::okl::withLauncher*) parser)->launcherParser.toString();
        }
      }
    } catch (occa::exception &e) {
      ok = false;
    }
    delete parser;
    std::cout << (ok ? "R OK" : "R TRERR") << std::endl;
  }
  return 0;
}
