// C22 implementation driver: the seven OKL translators of the library built from /repo, run
// in-process on the same kernel source (what `occa translate -m <mode>` does, without the CLI).
//   input  line:  the OKL source of one translation unit, on one line
//   output line:  R <g><s><o><c><h><l><m><d>  one character per parser: first the generic parser_t with the
//                 OKL attributes registered and no OKL validation (is the text a well-formed program at
//                 all: the generated cases always are), then the translators in the order
//                 Serial OpenMP CUDA HIP OpenCL Metal dpcpp:
//                   1  parser.succeeded()            (kernel accepted)
//                   0  parser ran and reports failure (kernel rejected with an error)
//                   x  an occa::exception / std::exception escaped the parser
//   A crash (signal, sanitizer report) kills the process; the framework records it per case.
// Parser diagnostics go to stderr.
#include <iostream>
#include <sstream>
#include <string>
#include <vector>
#include <occa/internal/lang/modes/serial.hpp>
#include <occa/internal/lang/modes/openmp.hpp>
#include <occa/internal/lang/modes/cuda.hpp>
#include <occa/internal/lang/modes/hip.hpp>
#include <occa/internal/lang/modes/opencl.hpp>
#include <occa/internal/lang/modes/metal.hpp>
#include <occa/internal/lang/modes/dpcpp.hpp>
#include <occa/internal/lang/modes/okl.hpp>
#include <occa/internal/lang/parser.hpp>
#include <occa.hpp>

static occa::lang::parser_t* makeParser(int m) {
  static const char *names[7] = {"serial", "openmp", "cuda", "hip", "opencl", "metal", "dpcpp"};
  occa::json props;
  props["mode"] = names[m];
  switch (m) {
    case 0: return new occa::lang::okl::serialParser(props);
    case 1: return new occa::lang::okl::openmpParser(props);
    case 2: return new occa::lang::okl::cudaParser(props);
    case 3: return new occa::lang::okl::hipParser(props);
    case 4: return new occa::lang::okl::openclParser(props);
    case 5: return new occa::lang::okl::metalParser(props);
    default: return new occa::lang::okl::dpcppParser(props);
  }
}

int main(int argc, char **argv) {
  // optional: a subset of modes, e.g. "0123456" (default all)
  std::string modes = (argc > 1) ? argv[1] : "0123456";
  std::string line;
  while (std::getline(std::cin, line)) {
    std::string flags;
    {
      char f = '0';
      try {
        occa::lang::parser_t generic;
        occa::lang::okl::addOklAttributes(generic);
        generic.parseSource(line);
        f = generic.succeeded() ? '1' : '0';
      } catch (...) {
        f = 'x';
      }
      flags.push_back(f);
    }
    for (int m = 0; m < 7; ++m) {
      if (modes.find((char) ('0' + m)) == std::string::npos) {
        flags.push_back('-');
        continue;
      }
      occa::lang::parser_t *parser = makeParser(m);
      char f = '0';
      try {
        parser->parseSource(line);
        f = parser->succeeded() ? '1' : '0';
      } catch (...) {
        f = 'x';
      }
      delete parser;
      flags.push_back(f);
    }
    std::cout << "R " << flags << std::endl;
  }
  return 0;
}
