// C28 implementation driver: the same histories on the real occa::trie<int>.
// One history per stdin line, one "R ..." line per history (see extract/C28/driver.ml).
#include <iostream>
#include <sstream>
#include <string>
#include <vector>
#include <occa/internal/utils/trie.hpp>

static std::string unhex(const std::string &h) {
  std::string s;
  for (size_t i = 0; i + 1 < h.size(); i += 2) {
    s.push_back((char) std::stoi(h.substr(i, 2), nullptr, 16));
  }
  return s;
}

static void dumpNode(std::ostream &o, const occa::trieNode &n) {
  o << n.valueIndex << "{";
  bool first = true;
  for (auto &kv : n.leaves) {
    if (!first) o << ",";
    first = false;
    o << (int) kv.first << ":";
    dumpNode(o, kv.second);
  }
  o << "}";
}

int main() {
  std::string line;
  while (std::getline(std::cin, line)) {
    std::istringstream ss(line);
    std::string tok;
    occa::trie<int> t;
    t.defaultValue = -7;
    std::ostringstream out;
    bool first = true;
    auto sep = [&]() { if (!first) out << ";"; first = false; };
    while (ss >> tok) {
      const char k = tok[0];
      const std::string body = tok.size() > 2 ? tok.substr(2) : "";
      if (k == 'A') { t.autoFreeze = (tok == "A1"); }
      else if (k == 'a') {
        size_t e = body.find('=');
        std::string key = unhex(body.substr(0, e));
        t.add(key, std::stoi(body.substr(e + 1)));
      }
      else if (k == 'r') { t.remove(unhex(body)); }
      else if (k == 'f') { t.freeze(); }
      else if (k == 'd') { t.defrost(); }
      else if (k == 'c') { t.clear(); }
      else if (k == 'L') {
        std::string q = unhex(body);
        occa::trie<int>::result_t r = t.getLongest(q);
        sep(); out << "L(" << (r.success() ? 1 : 0) << "," << r.length << "," << r.value() << ")";
      }
      else if (k == 'G') {
        std::string q = unhex(body);
        occa::trie<int>::result_t r = t.get(q);
        sep(); out << "G(" << (r.success() ? 1 : 0) << "," << r.value() << ")";
      }
      else if (k == 'H') {
        std::string q = unhex(body);
        sep(); out << "H" << (t.has(q.c_str()) ? 1 : 0);
      }
      else if (k == 'l' || k == 'g') {
        // explicit (pointer, length) query: the buffer is longer than the length passed
        size_t c2 = body.rfind(':');
        std::string buf = unhex(body.substr(0, c2));
        const int len = std::stoi(body.substr(c2 + 1));
        if (k == 'l') {
          occa::trie<int>::result_t r = t.getLongest(buf.c_str(), len);
          sep(); out << "L(" << (r.success() ? 1 : 0) << "," << r.length << "," << r.value() << ")";
        } else {
          occa::trie<int>::result_t r = t.get(buf.c_str(), len);
          sep(); out << "G(" << (r.success() ? 1 : 0) << "," << r.value() << ")";
        }
      }
      else if (k == 'S') { sep(); out << "S" << t.size(); }
      else if (k == 'D') {
        sep();
        if (!t.isFrozen) { out << "D(U "; }
        else {
          out << "D(F " << t.nodeCount << " " << t.baseNodeCount << " ";
          for (int i = 0; i <= t.nodeCount; ++i) {
            if (i) out << ";";
            out << (int) t.chars[i] << "," << t.offsets[i] << "," << t.leafCount[i] << "," << t.valueIndices[i];
          }
          out << " ";
        }
        dumpNode(out, t.root);
        out << " [";
        for (size_t i = 0; i < t.values.size(); ++i) { if (i) out << ","; out << t.values[i]; }
        out << "])";
      }
    }
    std::cout << "R " << out.str() << std::endl;
  }
  return 0;
}
