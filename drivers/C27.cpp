// C27 implementation driver: the same cases on the real occa::hash_t / occa::hash.
// One case per stdin line, one "R ..." line per case (token syntax: see extract/C27/driver.ml).
#include <cstdio>
#include <cstdlib>
#include <cstring>
#include <iostream>
#include <sstream>
#include <string>
#include <vector>
#include <occa/utils/hash.hpp>

static std::string unhex(const std::string &h) {
  std::string s;
  for (size_t i = 0; i + 1 < h.size(); i += 2) {
    s.push_back((char) std::stoi(h.substr(i, 2), nullptr, 16));
  }
  return s;
}

// payload after '=' (literal text) or ':' (hex-encoded bytes) at position pos
static std::string payload(const std::string &tok, size_t pos) {
  const std::string body = tok.substr(pos + 1);
  return (tok[pos] == '=') ? body : unhex(body);
}

static std::string esc(const std::string &s) {
  std::string out;
  char buf[8];
  for (size_t i = 0; i < s.size(); ++i) {
    const int c = (unsigned char) s[i];
    if (c >= 33 && c <= 126 && c != '(' && c != ')' && c != ';' && c != '\\' && c != ',') {
      out.push_back((char) c);
    } else {
      snprintf(buf, sizeof(buf), "\\x%02x", c);
      out += buf;
    }
  }
  return out;
}

static std::string words(const int *h) {
  std::ostringstream o;
  for (int i = 0; i < 8; ++i) { if (i) o << ","; o << h[i]; }
  return o.str();
}

int main() {
  // a second process may be started with C27_SALT set: heap layout, buffer alignment and the
  // addresses handed to hash() then differ from the first process
  const char *saltEnv = getenv("C27_SALT");
  const size_t salt = saltEnv ? (size_t) atoi(saltEnv) : 0;
  std::vector<char*> junk;
  for (size_t i = 0; i < salt; ++i) junk.push_back(new char[37 * (i + 1)]);

  std::string line;
  while (std::getline(std::cin, line)) {
    std::istringstream ss(line);
    std::string tok;
    occa::hash_t r[4];               // fresh default-constructed variables for every case
    std::ostringstream out;
    bool first = true;
    auto sep = [&]() { if (!first) out << " "; first = false; };
    while (ss >> tok) {
      const char k = tok[0];
      if (k == 'Q') continue;
      const int i = (tok.size() > 1) ? (tok[1] - '0') : 0;
      const int j = (tok.size() > 2) ? (tok[2] - '0') : 0;
      if (k == 'I') {
        int w[8] = {0, 0, 0, 0, 0, 0, 0, 0};
        std::istringstream ws(tok.substr(3));
        std::string part;
        int n = 0;
        while (n < 8 && std::getline(ws, part, ',')) w[n++] = (int) std::stol(part);
        r[i] = occa::hash_t(w);
      }
      else if (k == 'F') { r[i] = occa::hash_t::fromString(payload(tok, 2)); }
      else if (k == 'A') { r[i] = r[j]; }
      else if (k == 'X') { r[i] ^= r[j]; }
      else if (k == 'C') { r[i].clear(); }
      else if (k == 'S') { sep(); out << "S(" << esc(r[i].getString()) << ")"; }
      else if (k == 'L') { sep(); out << "L(" << esc(r[i].getFullString()) << ")"; }
      else if (k == 'T') {
        occa::hash_t d = occa::hash_t::fromString(r[i].getFullString());
        sep(); out << "T(" << words(d.h) << ";" << ((d == r[i]) ? 1 : 0) << ")";
      }
      else if (k == 'E') {
        sep(); out << "E(" << ((r[i] == r[j]) ? 1 : 0) << ((r[i] != r[j]) ? 1 : 0) << ((r[i] < r[j]) ? 1 : 0) << ")";
      }
      else if (k == 'N') { sep(); out << "N(" << r[i].getInt() << ")"; }
      else if (k == 'H') {
        const std::string bytes = payload(tok, 1);
        const size_t n = bytes.size();
        std::vector<char> a(bytes.begin(), bytes.end());
        occa::hash_t x = occa::hash((const void*) a.data(), (occa::udim_t) n);
        // the same bytes at another address and alignment, and through the std::string overload
        std::vector<char> b(n + 3 + salt, (char) 0x5a);
        if (n) memcpy(b.data() + 3 + salt, bytes.data(), n);
        occa::hash_t y = occa::hash((const void*) (b.data() + 3 + salt), (occa::udim_t) n);
        occa::hash_t z = occa::hash(bytes);
        const bool det = (x == y) && (x == z) && (x.getFullString() == y.getFullString())
                         && (x.getFullString() == z.getFullString());
        const std::string full = x.getFullString();
        const std::string shrt = x.getString();
        sep(); out << "H(" << esc(full) << ";" << esc(shrt) << ";" << words(x.h) << ";d" << (det ? 1 : 0) << ")";
      }
      else if (k == 'P') {
        occa::hash_t x = occa::hash_t::fromString(payload(tok, 1));
        sep(); out << "P(" << words(x.h) << ")";
      }
    }
    std::cout << "R " << out.str() << std::endl;
  }
  for (char *p : junk) delete [] p;
  return 0;
}
