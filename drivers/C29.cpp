// C29 implementation driver: the cases of extract/C29/driver.ml on the real library.
// Everything goes through the public C API (<occa.h>), except the four conversion probes
// P/Q/T/K, which call occa::c::primitive / newOccaType(primitive...) / kernelArg from
// occa/internal/c/types.hpp (no public entry point reaches them one at a time).
// One case per stdin line, one "R obs;obs;..." line per case, flushed per line.
#define OCCA_DISABLE_VARIADIC_MACROS
#include <cstdint>
#include <cstdio>
#include <cstdlib>
#include <cstring>
#include <deque>
#include <iostream>
#include <sstream>
#include <string>
#include <vector>
#include <map>

#include <occa.h>
#include <occa/c/experimental.h>
#include <occa/internal/c/types.hpp>

// ---------------------------------------------------------------- helpers
static std::vector<std::string> split(const std::string &s, char sep) {
  std::vector<std::string> out;
  std::string cur;
  for (char c : s) {
    if (c == sep) { out.push_back(cur); cur.clear(); }
    else cur.push_back(c);
  }
  out.push_back(cur);
  return out;
}

static std::string unhex(const std::string &h) {
  std::string s;
  for (size_t i = 0; i + 1 < h.size(); i += 2) {
    s.push_back((char) std::stoi(h.substr(i, 2), nullptr, 16));
  }
  return s;
}

static std::string hex(const void *p, size_t n) {
  static const char *d = "0123456789abcdef";
  std::string s;
  const unsigned char *c = (const unsigned char*) p;
  for (size_t i = 0; i < n; ++i) { s.push_back(d[c[i] >> 4]); s.push_back(d[c[i] & 15]); }
  return s;
}

static std::string hex32(uint32_t v) { char b[16]; snprintf(b, sizeof(b), "%08x", v); return b; }
static std::string hex64(uint64_t v) { char b[32]; snprintf(b, sizeof(b), "%016llx", (unsigned long long) v); return b; }

// user buffers (occaString / occaStruct keep the caller's pointer): alive for the whole case
static std::deque<std::string> arena;
static int dummyTarget = 0;

struct Lit {
  occaType v;
  const char *buf;   // user buffer behind a string / struct literal
};

static bool parseLit(const std::string &s, Lit &out) {
  out.buf = NULL;
  if (s == "null")  { out.v = occaNull; return true; }
  if (s == "undef") { out.v = occaUndefined; return true; }
  if (s == "dflt")  { out.v = occaDefault; return true; }
  if (s == "p0")    { out.v = occaPtr(NULL); return true; }
  if (s == "p1")    { out.v = occaPtr(&dummyTarget); return true; }
  size_t c = s.find(':');
  if (c == std::string::npos) return false;
  const std::string h = s.substr(0, c), b = s.substr(c + 1);
  if (h == "s")  { arena.push_back(unhex(b)); out.buf = arena.back().c_str(); out.v = occaString(out.buf); return true; }
  if (h == "st") { arena.push_back(unhex(b)); out.buf = arena.back().data(); out.v = occaStruct(out.buf, arena.back().size()); return true; }
  if (h == "f32") { uint32_t u = (uint32_t) strtoul(b.c_str(), NULL, 16); float f; memcpy(&f, &u, 4); out.v = occaFloat(f); return true; }
  if (h == "f64") { uint64_t u = strtoull(b.c_str(), NULL, 16); double d; memcpy(&d, &u, 8); out.v = occaDouble(d); return true; }
  if (h == "b")   { out.v = occaBool(b != "0"); return true; }
  if (h == "u64") { out.v = occaUInt64((uint64_t) strtoull(b.c_str(), NULL, 10)); return true; }
  const long long x = strtoll(b.c_str(), NULL, 10);
  if (h == "i8")  { out.v = occaInt8((int8_t) x); return true; }
  if (h == "u8")  { out.v = occaUInt8((uint8_t) x); return true; }
  if (h == "i16") { out.v = occaInt16((int16_t) x); return true; }
  if (h == "u16") { out.v = occaUInt16((uint16_t) x); return true; }
  if (h == "i32") { out.v = occaInt32((int32_t) x); return true; }
  if (h == "u32") { out.v = occaUInt32((uint32_t) x); return true; }
  if (h == "i64") { out.v = occaInt64((int64_t) x); return true; }
  return false;
}

static int kindTag(const std::string &k) {
  if (k == "b") return OCCA_BOOL;
  if (k == "i8") return OCCA_INT8;   if (k == "u8") return OCCA_UINT8;
  if (k == "i16") return OCCA_INT16; if (k == "u16") return OCCA_UINT16;
  if (k == "i32") return OCCA_INT32; if (k == "u32") return OCCA_UINT32;
  if (k == "i64") return OCCA_INT64; if (k == "u64") return OCCA_UINT64;
  if (k == "f32") return OCCA_FLOAT; if (k == "f64") return OCCA_DOUBLE;
  return OCCA_UNDEFINED;
}

// the view of an occaType: tag name, bytes, needsFree and the union member that belongs to the tag
static std::string view(const occaType &o) {
  if (occaIsUndefined(o)) return "undefined";
  std::ostringstream s;
  const int t = o.type;
  auto head = [&](const char *name) { s << name << ":" << o.bytes << ":" << (o.needsFree ? 1 : 0) << ":"; };
  if (t == OCCA_DEFAULT) return "default";
  if (t == OCCA_NULL) return "null";
  if (t == OCCA_BOOL)   { head("bool");   s << (int) o.value.int8_; }
  else if (t == OCCA_INT8)   { head("int8");   s << (int) o.value.int8_; }
  else if (t == OCCA_UINT8)  { head("uint8");  s << (unsigned) o.value.uint8_; }
  else if (t == OCCA_INT16)  { head("int16");  s << o.value.int16_; }
  else if (t == OCCA_UINT16) { head("uint16"); s << o.value.uint16_; }
  else if (t == OCCA_INT32)  { head("int32");  s << o.value.int32_; }
  else if (t == OCCA_UINT32) { head("uint32"); s << o.value.uint32_; }
  else if (t == OCCA_INT64)  { head("int64");  s << (long long) o.value.int64_; }
  else if (t == OCCA_UINT64) { head("uint64"); s << (unsigned long long) o.value.uint64_; }
  else if (t == OCCA_FLOAT)  { head("float");  uint32_t u; memcpy(&u, &o.value.float_, 4); s << hex32(u); }
  else if (t == OCCA_DOUBLE) { head("double"); uint64_t u; memcpy(&u, &o.value.double_, 8); s << hex64(u); }
  else if (t == OCCA_PTR)    { head("ptr");    s << (o.value.ptr ? "nonnull" : "null"); }
  else if (t == OCCA_STRING) { head("string"); s << hex(o.value.ptr, o.bytes); }
  else if (t == OCCA_STRUCT) { head("struct"); s << hex(o.value.ptr, o.bytes); }
  else if (t == OCCA_JSON)   { s << "json:" << o.bytes << ":" << (o.needsFree ? 1 : 0); }
  else s << "tag" << t;
  return s.str();
}

static std::string primName(int t) {
  switch (t) {
    case occa::primitiveType::bool_:   return "bool";
    case occa::primitiveType::int8_:   return "int8";
    case occa::primitiveType::uint8_:  return "uint8";
    case occa::primitiveType::int16_:  return "int16";
    case occa::primitiveType::uint16_: return "uint16";
    case occa::primitiveType::int32_:  return "int32";
    case occa::primitiveType::uint32_: return "uint32";
    case occa::primitiveType::int64_:  return "int64";
    case occa::primitiveType::uint64_: return "uint64";
    case occa::primitiveType::float_:  return "float";
    case occa::primitiveType::double_: return "double";
    case occa::primitiveType::ptr:     return "ptr";
    default: return "none";
  }
}

static std::string viewKarg(const occa::kernelArg &a, const Lit &l) {
  if (a.args.size() != 1) return "karg:count" + std::to_string(a.args.size());
  const occa::kernelArgData &d = a.args[0];
  const occa::primitive &p = d.value;
  std::ostringstream s;
  s << "karg:" << primName(p.type) << ":";
  switch (p.type) {
    case occa::primitiveType::bool_:   s << (int) p.value.bool_; break;
    case occa::primitiveType::int8_:   s << (int) p.value.int8_; break;
    case occa::primitiveType::uint8_:  s << (unsigned) p.value.uint8_; break;
    case occa::primitiveType::int16_:  s << p.value.int16_; break;
    case occa::primitiveType::uint16_: s << p.value.uint16_; break;
    case occa::primitiveType::int32_:  s << p.value.int32_; break;
    case occa::primitiveType::uint32_: s << p.value.uint32_; break;
    case occa::primitiveType::int64_:  s << (long long) p.value.int64_; break;
    case occa::primitiveType::uint64_: s << (unsigned long long) p.value.uint64_; break;
    case occa::primitiveType::float_:  { uint32_t u; memcpy(&u, &p.value.float_, 4); s << hex32(u); break; }
    case occa::primitiveType::double_: { uint64_t u; memcpy(&u, &p.value.double_, 8); s << hex64(u); break; }
    case occa::primitiveType::ptr:
      if (!p.value.ptr) s << "null";
      else if (l.buf && p.value.ptr == l.buf) s << "buf";
      else if (p.value.ptr == (char*) &dummyTarget) s << "user";
      else s << "other";
      break;
    default: s << "?";
  }
  s << ":" << d.size() << ":" << (d.isPointer() ? 1 : 0);
  return s.str();
}

// ---------------------------------------------------------------- the echo kernels
static const char *ECHO_SRC =
  "typedef struct { unsigned long a, b; } mystruct;\n"
  "@kernel void echo(long *oi, unsigned long *ou, float *of, double *od, char *os,\n"
  "                  char i8, unsigned char u8, short i16, unsigned short u16, int i32, unsigned int u32,\n"
  "                  long i64, unsigned long u64, float f, double d, void *np, const char *str, mystruct st) {\n"
  "  for (int i = 0; i < 1; ++i; @tile(1, @outer, @inner)) {\n"
  "    oi[0] = i8; oi[1] = i16; oi[2] = i32; oi[3] = i64; oi[4] = (np == 0) ? 1 : 0;\n"
  "    ou[0] = u8; ou[1] = u16; ou[2] = u32; ou[3] = u64; ou[4] = st.a; ou[5] = st.b;\n"
  "    of[0] = f; od[0] = d;\n"
  "    int k = 0; while (str[k]) { os[k] = str[k]; ++k; } os[k] = 0; oi[5] = k;\n"
  "  }\n"
  "}\n"
  "@kernel void echob(long *oi, bool b) {\n"
  "  for (int i = 0; i < 1; ++i; @tile(1, @outer, @inner)) {\n"
  "    oi[0] = b ? 1 : 0; oi[1] = b;\n"
  "  }\n"
  "}\n";

static bool kernelsReady = false;
static occaKernel kEcho, kEchoB;
static occaMemory mI, mU, mF, mD, mS;

static void ensureKernels() {
  if (kernelsReady) return;
  occaJson props = occaJsonParse("{type_validation: false}");
  kEcho = occaBuildKernelFromString(ECHO_SRC, "echo", props);
  kEchoB = occaBuildKernelFromString(ECHO_SRC, "echob", props);
  occaFree(&props);
  mI = occaMalloc(8 * 8, NULL, occaDefault);
  mU = occaMalloc(8 * 8, NULL, occaDefault);
  mF = occaMalloc(4 * 4, NULL, occaDefault);
  mD = occaMalloc(8 * 4, NULL, occaDefault);
  mS = occaMalloc(512, NULL, occaDefault);
  kernelsReady = true;
}

static void freeKernels() {
  if (!kernelsReady) return;
  occaFree(&mI); occaFree(&mU); occaFree(&mF); occaFree(&mD); occaFree(&mS);
  occaFree(&kEcho); occaFree(&kEchoB);
  kernelsReady = false;
}

static void runKernel(occaKernel k, int mode, std::vector<occaType> &args) {
  if (mode == 0) {
    occaKernelClearArgs(k);
    for (auto &a : args) occaKernelPushArg(k, a);
    occaKernelRunFromArgs(k);
  } else if (mode == 1 && args.size() == 18) {
    occaKernelRunN(k, 18, args[0], args[1], args[2], args[3], args[4], args[5], args[6], args[7], args[8],
                   args[9], args[10], args[11], args[12], args[13], args[14], args[15], args[16], args[17]);
  } else if (mode == 1 && args.size() == 2) {
    occaKernelRunN(k, 2, args[0], args[1]);
  } else {
    occaKernelRunWithArgs(k, (int) args.size(), args.data());
  }
}

static const char *SCALAR_ORDER[10] = {"i8", "u8", "i16", "u16", "i32", "u32", "i64", "u64", "f32", "f64"};

static std::string kernelRun(int mode, const std::vector<std::string> &f) {
  // f[0] = KR<mode>; either the 13 echo arguments or a single bool
  std::vector<Lit> lits;
  for (size_t i = 1; i < f.size(); ++i) {
    Lit l;
    if (!parseLit(f[i], l)) return "BAD";
    lits.push_back(l);
  }
  ensureKernels();
  if (lits.size() == 1 && lits[0].v.type == OCCA_BOOL) {
    long ri[8] = {-1, -1, -1, -1, -1, -1, -1, -1};
    occaCopyPtrToMem(mI, ri, 64, 0, occaDefault);
    std::vector<occaType> args = {mI, lits[0].v};
    runKernel(kEchoB, mode, args);
    occaCopyMemToPtr(ri, mI, 64, 0, occaDefault);
    std::ostringstream s;
    s << "[bool:1:0:" << ri[1] << "]";
    return s.str();
  }
  if (lits.size() != 13) return "BAD";
  for (int i = 0; i < 10; ++i) {
    if (f[1 + i].compare(0, strlen(SCALAR_ORDER[i]) + 1, std::string(SCALAR_ORDER[i]) + ":") != 0) return "BAD";
  }
  if (lits[11].v.type != OCCA_STRING || lits[12].v.type != OCCA_STRUCT || lits[12].v.bytes != 16 ||
      lits[11].v.bytes > 400) return "BAD";
  long ri[8]; unsigned long ru[8]; float rf[4]; double rd[4]; char rs[512];
  memset(ri, 0x55, sizeof(ri)); memset(ru, 0x55, sizeof(ru)); memset(rf, 0x55, sizeof(rf));
  memset(rd, 0x55, sizeof(rd)); memset(rs, 0x55, sizeof(rs));
  occaCopyPtrToMem(mI, ri, 64, 0, occaDefault); occaCopyPtrToMem(mU, ru, 64, 0, occaDefault);
  occaCopyPtrToMem(mF, rf, 16, 0, occaDefault); occaCopyPtrToMem(mD, rd, 32, 0, occaDefault);
  occaCopyPtrToMem(mS, rs, 512, 0, occaDefault);
  std::vector<occaType> args = {mI, mU, mF, mD, mS};
  for (auto &l : lits) args.push_back(l.v);
  runKernel(kEcho, mode, args);
  occaCopyMemToPtr(ri, mI, 64, 0, occaDefault); occaCopyMemToPtr(ru, mU, 64, 0, occaDefault);
  occaCopyMemToPtr(rf, mF, 16, 0, occaDefault); occaCopyMemToPtr(rd, mD, 32, 0, occaDefault);
  occaCopyMemToPtr(rs, mS, 512, 0, occaDefault);
  std::ostringstream s;
  uint32_t fb; memcpy(&fb, &rf[0], 4);
  uint64_t db; memcpy(&db, &rd[0], 8);
  s << "[int8:1:0:" << ri[0] << "|uint8:1:0:" << ru[0] << "|int16:2:0:" << ri[1] << "|uint16:2:0:" << ru[1]
    << "|int32:4:0:" << ri[2] << "|uint32:4:0:" << ru[2] << "|int64:8:0:" << ri[3] << "|uint64:8:0:" << ru[3]
    << "|float:4:0:" << hex32(fb) << "|double:8:0:" << hex64(db)
    << "|" << (ri[4] == 1 ? "null" : "ptr:8:0:nonnull")
    << "|x" << hex(rs, (size_t) (ri[5] < 0 || ri[5] > 511 ? 0 : ri[5]))
    << "|x" << hex(&ru[4], 16) << "]";
  return s.str();
}


// ---------------------------------------------------------------- scopes
// "[const ]<type> [*]x"  ->  decl:<const>:<type>:<ptr>   (read from the scope's own entries: the text that
// kernelBuilder pastes into the inlined kernel's signature)
static std::string declType(const std::string &decl, bool &isConst, bool &isPtr) {
  std::string d = decl;
  isConst = d.compare(0, 6, "const ") == 0;
  if (isConst) d = d.substr(6);
  size_t sp = d.find_last_of(' ');
  std::string type = (sp == std::string::npos) ? d : d.substr(0, sp);
  std::string rest = (sp == std::string::npos) ? "" : d.substr(sp + 1);
  isPtr = (!rest.empty() && rest[0] == '*') || (!type.empty() && type.back() == '*');
  while (!type.empty() && (type.back() == '*' || type.back() == ' ')) type.pop_back();
  if (type == "unsigned char") return "uchar";
  if (type == "unsigned short") return "ushort";
  if (type == "unsigned int") return "uint";
  if (type == "unsigned long") return "ulong";
  for (auto &c : type) if (c == ' ') c = '_';
  return type;
}

static std::string scopeDecl(bool isConst, const std::string &litText) {
  Lit l; if (!parseLit(litText, l)) return "BAD";
  occaScope sc = occaCreateScope(occaDefault);
  std::string out;
  try {
    if (isConst) occaScopeAddConst(sc, "x", l.v); else occaScopeAdd(sc, "x", l.v);
    occa::scope &s = occa::c::scope(sc);
    bool c, p;
    std::string t = declType(s.args.back().getDeclaration(), c, p);
    out = std::string("decl:") + (c ? "1" : "0") + ":" + t + ":" + (p ? "1" : "0");
  } catch (...) {
    out = "ERR";
  }
  occaFree(&sc);
  return out;
}

static const char *SCOPE_S_SRC =
  "for (int i = 0; i < 1; ++i; @tile(1, @outer, @inner)) {"
  " iout[0] = a0 ? 1 : 0; iout[1] = a1; iout[2] = a2; iout[3] = a3; iout[4] = a4; dout[0] = a5; dout[1] = a6;"
  " iout[8] = sizeof(a0); iout[9] = sizeof(a1); iout[10] = sizeof(a2); iout[11] = sizeof(a3); iout[12] = sizeof(a4);"
  " iout[13] = sizeof(a5); iout[14] = sizeof(a6); }";
static const char *SCOPE_U_SRC =
  "for (int i = 0; i < 1; ++i; @tile(1, @outer, @inner)) {"
  " iout[0] = a0; iout[1] = a1; iout[2] = a2; iout[3] = a3;"
  " iout[8] = sizeof(a0); iout[9] = sizeof(a1); iout[10] = sizeof(a2); iout[11] = sizeof(a3); }";

static bool scopeReady = false;
static occaKernelBuilder kbS, kbU;
static occaMemory sI, sD;

static void ensureScope() {
  if (scopeReady) return;
  kbS = occaCreateKernelBuilder(SCOPE_S_SRC, "scope_s");
  kbU = occaCreateKernelBuilder(SCOPE_U_SRC, "scope_u");
  sI = occaTypedMalloc(16, occaDtypeLong, NULL, occaDefault);
  sD = occaTypedMalloc(4, occaDtypeDouble, NULL, occaDefault);
  scopeReady = true;
}

static void freeScope() {
  if (!scopeReady) return;
  occaFree(&kbS); occaFree(&kbU); occaFree(&sI); occaFree(&sD);
  scopeReady = false;
}

static const char *SHAPE_S[7] = {"b", "i8", "i16", "i32", "i64", "f32", "f64"};
static const char *SHAPE_U[4] = {"u8", "u16", "u32", "u64"};

static std::string scopeRun(bool isConst, const std::vector<std::string> &f) {
  const size_t n = f.size() - 1;
  const char **shape = (n == 7) ? SHAPE_S : (n == 4) ? SHAPE_U : NULL;
  if (!shape) return "BAD";
  std::vector<Lit> lits;
  for (size_t i = 0; i < n; ++i) {
    if (f[1 + i].compare(0, strlen(shape[i]) + 1, std::string(shape[i]) + ":") != 0) return "BAD";
    Lit l; if (!parseLit(f[1 + i], l)) return "BAD";
    lits.push_back(l);
  }
  ensureScope();
  long ri[16]; double rd[4];
  memset(ri, 0x55, sizeof(ri)); memset(rd, 0x55, sizeof(rd));
  occaCopyPtrToMem(sI, ri, occaAllBytes, 0, occaDefault);
  occaCopyPtrToMem(sD, rd, occaAllBytes, 0, occaDefault);
  occaScope sc = occaCreateScope(occaDefault);
  std::string out;
  try {
    occaScopeAdd(sc, "iout", sI);
    occaScopeAdd(sc, "dout", sD);
    for (size_t i = 0; i < n; ++i) {
      const std::string name = "a" + std::to_string(i);
      if (isConst) occaScopeAddConst(sc, name.c_str(), lits[i].v); else occaScopeAdd(sc, name.c_str(), lits[i].v);
    }
    std::vector<std::string> types;
    {
      occa::scope &s = occa::c::scope(sc);
      for (size_t i = 0; i < n; ++i) { bool c, p; types.push_back(declType(s.args[2 + i].getDeclaration(), c, p)); }
    }
    occaKernelBuilderRun(n == 7 ? kbS : kbU, sc);
    occaCopyMemToPtr(ri, sI, occaAllBytes, 0, occaDefault);
    occaCopyMemToPtr(rd, sD, occaAllBytes, 0, occaDefault);
    std::ostringstream s;
    s << "[";
    for (size_t i = 0; i < n; ++i) {
      if (i) s << "|";
      const std::string &t = types[i];
      const long sz = ri[8 + i];
      const bool fslot = (n == 7 && i >= 5);
      if (t == "float")       { float x = (float) rd[i - 5]; uint32_t u; memcpy(&u, &x, 4); s << "float:" << sz << ":0:" << hex32(u); }
      else if (t == "double") { uint64_t u; memcpy(&u, &rd[i - 5], 8); s << "double:" << sz << ":0:" << hex64(u); }
      else if (fslot)         { s << t << ":" << sz << ":0:" << (long) rd[i - 5]; }
      else if (t == "bool")   { s << "bool:" << sz << ":0:" << ri[i]; }
      else if (t == "char")   { s << "int8:" << sz << ":0:" << ri[i]; }
      else if (t == "short")  { s << "int16:" << sz << ":0:" << ri[i]; }
      else if (t == "int")    { s << "int32:" << sz << ":0:" << ri[i]; }
      else if (t == "long")   { s << "int64:" << sz << ":0:" << ri[i]; }
      else if (t == "uchar")  { s << "uint8:" << sz << ":0:" << (unsigned long) ri[i]; }
      else if (t == "ushort") { s << "uint16:" << sz << ":0:" << (unsigned long) ri[i]; }
      else if (t == "uint")   { s << "uint32:" << sz << ":0:" << (unsigned long) ri[i]; }
      else if (t == "ulong")  { s << "uint64:" << sz << ":0:" << (unsigned long) ri[i]; }
      else                    { s << t << ":" << sz << ":0:" << ri[i]; }
    }
    s << "]";
    out = s.str();
  } catch (...) {
    out = "ERR";
  }
  occaFree(&sc);
  return out;
}

// ---------------------------------------------------------------- one case
static occaType slot[16];
static std::map<void*, occaType> liveRoots;   // heap objects made by occaCreateJson and not yet freed

static bool parseValue(const std::string &s, Lit &out, bool &undef) {
  undef = false;
  if (s.size() > 1 && s[0] == 'h' && isdigit((unsigned char) s[1])) {
    int m = atoi(s.c_str() + 1) & 15;
    out.v = slot[m]; out.buf = NULL;
    undef = occaIsUndefined(slot[m]);
    return true;
  }
  return parseLit(s, out);
}

static std::string doOp(const std::string &tok) {
  std::vector<std::string> f = split(tok, ',');
  const std::string &name = f[0];
  auto N = [&](size_t i) { return atoi(f[i].c_str()) & 15; };
  try {
    if (name == "C" && f.size() == 2) {
      Lit l; if (!parseLit(f[1], l)) return "BAD";
      return view(l.v);
    }
    if (name == "A" && f.size() == 3) {
      const std::string &c = f[1];
      const long long x = strtoll(f[2].c_str(), NULL, 10);
      const unsigned long long ux = strtoull(f[2].c_str(), NULL, 10);
      if (c == "c")  return view(occaChar((char) x));
      if (c == "uc") return view(occaUChar((unsigned char) x));
      if (c == "s")  return view(occaShort((short) x));
      if (c == "us") return view(occaUShort((unsigned short) x));
      if (c == "i")  return view(occaInt((int) x));
      if (c == "ui") return view(occaUInt((unsigned int) x));
      if (c == "l")  return view(occaLong((long) x));
      if (c == "ul") return view(occaULong((unsigned long) ux));
      return "BAD";
    }
    if (name == "P" && f.size() == 2) {
      Lit l; if (!parseLit(f[1], l)) return "BAD";
      return view(occa::c::newOccaType(occa::c::primitive(l.v)));
    }
    if (name == "Q" && f.size() == 3) {
      Lit l; if (!parseLit(f[2], l)) return "BAD";
      return view(occa::c::newOccaType(occa::c::primitive(l.v), kindTag(f[1])));
    }
    if (name == "T" && f.size() == 3) {
      Lit l; if (!parseLit(f[2], l)) return "BAD";
      return view(occa::c::newOccaType(occa::c::primitive(l.v, kindTag(f[1]))));
    }
    if (name == "K" && f.size() == 2) {
      Lit l; if (!parseLit(f[1], l)) return "BAD";
      occa::kernelArg a = occa::c::kernelArg(l.v);
      return viewKarg(a, l);
    }
    if ((name == "SDc" || name == "SDa") && f.size() == 2) return scopeDecl(name == "SDc", f[1]);
    if (name == "SCc" || name == "SCa") return scopeRun(name == "SCc", f);
    if (name.size() == 3 && name.compare(0, 2, "KR") == 0) {
      return kernelRun(name[2] - '0', f);
    }
    if (name == "n" && f.size() == 2) {
      occaType j = occaCreateJson();
      liveRoots[(void*) j.value.ptr] = j;
      slot[N(1)] = j;
      return view(j);
    }
    if (name == "f" && f.size() == 2) {
      occaType &h = slot[N(1)];
      if (!occaIsUndefined(h) && h.type == OCCA_JSON && h.needsFree) liveRoots.erase((void*) h.value.ptr);
      occaFree(&h);
      return "ok";
    }
    if (name == "u" && f.size() == 2) return occaIsUndefined(slot[N(1)]) ? "true" : "false";
    if (name == "v" && f.size() == 2) return view(slot[N(1)]);

    // everything below uses the handle in slot N(1); a careful caller checks occaIsUndefined first
    if (f.size() < 2) return "BAD";
    occaType h = slot[N(1)];
    const bool hUndef = occaIsUndefined(h);

    if (name == "os" && f.size() == 4) {
      const std::string key = unhex(f[2]);
      if (key.find('/') != std::string::npos) return "OUT";
      if (hUndef) return "UNDEF";
      Lit v; bool vu; if (!parseValue(f[3], v, vu)) return "BAD";
      if (vu && f[3][0] == 'h') return "UNDEF";
      occaJsonObjectSet(h, key.c_str(), v.v);
      return "ok";
    }
    if (name == "og" && f.size() == 5) {
      const std::string key = unhex(f[2]);
      if (key.find('/') != std::string::npos) return "OUT";
      if (hUndef) return "UNDEF";
      Lit d; if (!parseLit(f[4], d)) return "BAD";
      occaType r = occaJsonObjectGet(h, key.c_str(), d.v);
      slot[N(3)] = r;
      return view(r);
    }
    if (name == "oh" && f.size() == 3) {
      const std::string key = unhex(f[2]);
      if (key.find('/') != std::string::npos) return "OUT";
      if (hUndef) return "UNDEF";
      return occaJsonObjectHas(h, key.c_str()) ? "true" : "false";
    }
    if (name == "ap" && f.size() == 3) {
      if (hUndef) return "UNDEF";
      Lit v; bool vu; if (!parseValue(f[2], v, vu)) return "BAD";
      if (vu && f[2][0] == 'h') return "UNDEF";
      occaJsonArrayPush(h, v.v);
      return "ok";
    }
    if (name == "ai" && f.size() == 4) {
      if (hUndef) return "UNDEF";
      Lit v; bool vu; if (!parseValue(f[3], v, vu)) return "BAD";
      if (vu && f[3][0] == 'h') return "UNDEF";
      occaJsonArrayInsert(h, atoi(f[2].c_str()), v.v);
      return "ok";
    }
    if (name == "ag" && f.size() == 4) {
      if (hUndef) return "UNDEF";
      occaType r = occaJsonArrayGet(h, atoi(f[2].c_str()));
      slot[N(3)] = r;
      return view(r);
    }
    if (name == "ao" && f.size() == 2) { if (hUndef) return "UNDEF"; occaJsonArrayPop(h); return "ok"; }
    if (name == "ac" && f.size() == 2) { if (hUndef) return "UNDEF"; occaJsonArrayClear(h); return "ok"; }
    if (name == "az" && f.size() == 2) { if (hUndef) return "UNDEF"; return std::to_string(occaJsonArraySize(h)); }
    if (name == "ct" && f.size() == 3) {
      if (hUndef) return "UNDEF";
      const std::string &c = f[2];
      if (c == "b") occaJsonCastToBoolean(h);
      else if (c == "n") occaJsonCastToNumber(h);
      else if (c == "s") occaJsonCastToString(h);
      else if (c == "a") occaJsonCastToArray(h);
      else if (c == "o") occaJsonCastToObject(h);
      else return "BAD";
      return "ok";
    }
    if (name == "gb" && f.size() == 2) {
      if (hUndef) return "UNDEF";
      if (!occaJsonIsBoolean(h)) return "not";
      return occaJsonGetBoolean(h) ? "true" : "false";
    }
    if (name == "gn" && f.size() == 3) {
      if (hUndef) return "UNDEF";
      if (!occaJsonIsNumber(h)) return "not";
      return view(occaJsonGetNumber(h, kindTag(f[2])));
    }
    if (name == "gs" && f.size() == 2) {
      if (hUndef) return "UNDEF";
      if (!occaJsonIsString(h)) return "not";
      const char *c = occaJsonGetString(h);
      return "x" + hex(c, strlen(c));
    }
    if (name == "ty" && f.size() == 2) {
      if (hUndef) return "UNDEF";
      std::string s = "flags:";
      s += occaJsonIsBoolean(h) ? "1" : "0";
      s += occaJsonIsNumber(h) ? "1" : "0";
      s += occaJsonIsString(h) ? "1" : "0";
      s += occaJsonIsArray(h) ? "1" : "0";
      s += occaJsonIsObject(h) ? "1" : "0";
      return s;
    }
    return "BAD";
  } catch (...) {
    return "ERR";
  }
}

int main() {
  // the type constants the model's tag_code table must match
  if (OCCA_UNDEFINED != 0 || OCCA_DEFAULT != 1 || OCCA_NULL != 2 || OCCA_PTR != 3 || OCCA_BOOL != 4 ||
      OCCA_INT8 != 5 || OCCA_UINT8 != 6 || OCCA_INT16 != 7 || OCCA_UINT16 != 8 || OCCA_INT32 != 9 ||
      OCCA_UINT32 != 10 || OCCA_INT64 != 11 || OCCA_UINT64 != 12 || OCCA_FLOAT != 13 || OCCA_DOUBLE != 14 ||
      OCCA_STRUCT != 15 || OCCA_STRING != 16 || OCCA_JSON != 26) {
    std::cerr << "type codes differ from coq/C29/Types.v tag_code" << std::endl;
    return 3;
  }
  std::string line;
  while (std::getline(std::cin, line)) {
    arena.clear();
    for (auto &s : slot) s = occaUndefined;
    std::ostringstream out;
    std::istringstream ss(line);
    std::string tok;
    bool first = true;
    while (ss >> tok) {
      if (!first) out << ";";
      first = false;
      out << doOp(tok);
    }
    // free what the case left alive (the case language has no other way to drop them)
    for (auto &kv : liveRoots) {
      occaType t = kv.second;
      occaFree(&t);
    }
    liveRoots.clear();
    std::cout << "R " << out.str() << std::endl;
  }
  freeKernels();
  freeScope();
  return 0;
}
