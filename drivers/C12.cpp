// C12 implementation driver: the real occa::lang::tokenizer_t and token printers.
// One case per stdin line, one "R ..." line per case (same syntax as extract/C12/driver.ml):
//   B <hex> ...    tokenize the bytes (C string: cut at the first NUL), print every token with its own
//                  print(), join with ' ', tokenize again:   R B <toks>|<printed hex>|<toks>
//   Q tok tok ...  build the token objects, print them joined with ' ', tokenize:  R Q <toks>|<printed hex>
//   L <hex> ...    tokenize "//" + bytes + newline + "x1":   R L <toks>
//   H <hex> ...    tokenizer_t::getHeader() on the bytes:     R H <header hex>|<cursor offset>
// token syntax: I<hex> identifier, P<hex> primitive (source text), O<hex> operator symbol, N newline,
//   C<enc>.<hex>.<hexudf> char, S<enc>.<hex>.<hexudf> string, K<hex> comment, U<hex> unknown (its byte)
// The input buffer is an exact-size heap block (bytes + NUL) so that ASan sees any read past the NUL.
#include <cstdlib>
#include <cstring>
#include <iostream>
#include <sstream>
#include <string>
#include <vector>
#include <stdexcept>

#include <occa/internal/lang/tokenizer.hpp>
#include <occa/internal/lang/token.hpp>

using namespace occa::lang;

static std::string unhex(const std::string &h) {
  std::string s;
  for (size_t i = 0; i + 1 < h.size(); i += 2) {
    s.push_back((char) std::stoi(h.substr(i, 2), nullptr, 16));
  }
  return s;
}

static std::string hex(const std::string &s) {
  static const char *d = "0123456789abcdef";
  std::string h;
  for (unsigned char c : s) {
    h.push_back(d[c >> 4]);
    h.push_back(d[c & 15]);
  }
  return h;
}

static std::string showToken(token_t *t) {
  const int ty = t->type();
  std::ostringstream o;
  if (ty == tokenType::identifier)      { o << "I" << hex(t->to<identifierToken>().value); }
  else if (ty == tokenType::primitive)  { o << "P" << hex(t->to<primitiveToken>().strValue); }
  else if (ty == tokenType::op)         { o << "O" << hex(t->to<operatorToken>().op->str); }
  else if (ty == tokenType::newline)    { o << "N"; }
  else if (ty == tokenType::char_) {
    charToken &c = t->to<charToken>();
    o << "C" << c.encoding << "." << hex(c.value) << "." << hex(c.udf);
  }
  else if (ty == tokenType::string) {
    stringToken &s = t->to<stringToken>();
    o << "S" << s.encoding << "." << hex(s.value) << "." << hex(s.udf);
  }
  else if (ty == tokenType::comment)    { o << "K" << hex(t->to<commentToken>().value); }
  else if (ty == tokenType::unknown)    { o << "U" << hex(std::string(1, t->origin.position.start[0])); }
  else { o << "X" << ty; }
  return o.str();
}

// exact-size NUL-terminated heap copy
struct cbuf {
  char *p;
  size_t n;
  explicit cbuf(const std::string &s) {
    n = strlen(s.c_str());
    p = (char*) malloc(n + 1);
    memcpy(p, s.c_str(), n);
    p[n] = '\0';
  }
  ~cbuf() { free(p); }
};

// the loop of tokenizer_t::tokenize(tokens, origin, source), on our own buffer
static void tokenizeBuf(const char *buf, tokenVector &tokens) {
  fileOrigin origin_ = originSource::string;
  fileOrigin fakeOrigin(*origin_.file, buf);
  tokenizer_t tstream(fakeOrigin);
  token_t *token;
  while (!tstream.isEmpty()) {
    tstream.setNext(token);
    tokens.push_back(token);
  }
}

static std::string showTokens(tokenVector &tokens) {
  std::string s;
  for (size_t i = 0; i < tokens.size(); ++i) {
    if (i) s += ",";
    s += showToken(tokens[i]);
  }
  return s;
}

static std::string printTokens(tokenVector &tokens) {
  std::string s;
  for (size_t i = 0; i < tokens.size(); ++i) {
    if (i) s += " ";
    s += tokens[i]->str();
  }
  return s;
}

static token_t* makeToken(const std::string &spec, operatorTrie &ops, std::vector<cbuf*> &keep) {
  fileOrigin org;
  const char k = spec[0];
  const std::string body = spec.substr(1);
  if (k == 'I') return new identifierToken(org, unhex(body));
  if (k == 'P') {
    const std::string s = unhex(body);
    return new primitiveToken(org, occa::primitive::load(s), s);
  }
  if (k == 'O') {
    operatorTrie::result_t r = ops.get(unhex(body));
    if (!r.success()) return NULL;
    return new operatorToken(org, *r.value());
  }
  if (k == 'N') return new newlineToken(org);
  if (k == 'K') return new commentToken(org, unhex(body), 0);
  if (k == 'U') {
    cbuf *b = new cbuf(unhex(body));
    keep.push_back(b);
    fileOrigin o2(*org.file, b->p);
    return new unknownToken(o2);
  }
  if (k == 'C' || k == 'S') {
    size_t d1 = body.find('.');
    size_t d2 = body.find('.', d1 + 1);
    const int enc = std::stoi(body.substr(0, d1));
    const std::string v = unhex(body.substr(d1 + 1, d2 - d1 - 1));
    const std::string udf = unhex(body.substr(d2 + 1));
    if (k == 'C') return new charToken(org, enc, v, udf);
    return new stringToken(org, enc, v, udf);
  }
  return NULL;
}

int main() {
  std::string line;
  operatorTrie ops;
  getOperators(ops);
  while (std::getline(std::cin, line)) {
    std::istringstream ss(line);
    std::string kind, tok;
    ss >> kind;
    std::ostringstream out;
    if (kind == "B") {
      std::string h;
      while (ss >> tok) h += tok;
      cbuf b(unhex(h));
      tokenVector t1, t2;
      tokenizeBuf(b.p, t1);
      const std::string printed = printTokens(t1);
      cbuf b2(printed);
      tokenizeBuf(b2.p, t2);
      out << "B " << showTokens(t1) << "|" << hex(printed) << "|" << showTokens(t2);
      freeTokenVector(t1);
      freeTokenVector(t2);
    } else if (kind == "Q") {
      tokenVector t1, t2;
      std::vector<cbuf*> keep;
      bool bad = false;
      while (ss >> tok) {
        token_t *t = makeToken(tok, ops, keep);
        if (!t) { bad = true; break; }
        t1.push_back(t);
      }
      if (bad) {
        out << "Q BADTOKEN";
      } else {
        const std::string printed = printTokens(t1);
        cbuf b2(printed);
        tokenizeBuf(b2.p, t2);
        out << "Q " << showTokens(t2) << "|" << hex(printed);
      }
      freeTokenVector(t1);
      freeTokenVector(t2);
      for (cbuf *c : keep) delete c;
    } else if (kind == "L") {
      std::string h;
      while (ss >> tok) h += tok;
      const std::string src = "//" + unhex(h) + "\nx1";
      cbuf b(src);
      tokenVector t1;
      tokenizeBuf(b.p, t1);
      out << "L " << showTokens(t1);
      freeTokenVector(t1);
    } else if (kind == "H") {
      std::string h;
      while (ss >> tok) h += tok;
      cbuf b(unhex(h));
      fileOrigin origin_ = originSource::string;
      fileOrigin fakeOrigin(*origin_.file, b.p);
      tokenizer_t tstream(fakeOrigin);
      try {
        const std::string header = tstream.getHeader();
        out << "H " << hex(header) << "|" << (tstream.fp.start - b.p);
      } catch (std::logic_error &e) {
        out << "H CRASH std::logic_error";
      }
    } else {
      out << "BADCASE";
    }
    std::cout << "R " << out.str() << std::endl;
  }
  return 0;
}
