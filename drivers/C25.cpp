// C25 implementation driver: the same histories on a real occa::json (see extract/C25/driver.ml
// for the syntax).  One "R ..." line per history; the last item is the final value.
#include <cstdint>
#include <cstring>
#include <iostream>
#include <sstream>
#include <string>
#include <vector>
#include <occa/types/json.hpp>
#include <occa/utils/exception.hpp>

using occa::json;
namespace pt = occa::primitiveType;

struct Bad {};

static int hexv(char c) {
  if (c >= '0' && c <= '9') return c - '0';
  if (c >= 'a' && c <= 'f') return c - 'a' + 10;
  throw Bad();
}
static std::string unhex(const std::string &h) {
  if (h.size() % 2) throw Bad();
  std::string s;
  for (size_t i = 0; i + 1 < h.size(); i += 2) s.push_back((char) (16 * hexv(h[i]) + hexv(h[i + 1])));
  return s;
}
static std::string hex(const std::string &s) {
  static const char *d = "0123456789abcdef";
  std::string o;
  for (unsigned char c : s) { o.push_back(d[c >> 4]); o.push_back(d[c & 15]); }
  return o;
}
static bool isHex(char c) { return (c >= '0' && c <= '9') || (c >= 'a' && c <= 'f'); }

struct VParser {
  const std::string &s;
  size_t pos;
  VParser(const std::string &s_) : s(s_), pos(0) {}
  char peek() const { return pos < s.size() ? s[pos] : '\0'; }
  std::string takeHex() {
    size_t st = pos;
    while (pos < s.size() && isHex(s[pos])) ++pos;
    std::string h = s.substr(st, pos - st);
    if (h.size() % 2) throw Bad();
    return h;
  }
  json value() {
    char c = peek();
    if (c == 'N') { ++pos; return json(); }
    if (c == 'Z') { ++pos; json j; j.asNull(); return j; }
    if (c == 'B') {
      ++pos; char d = peek(); ++pos;
      if (d == '0') return json(false);
      if (d == '1') return json(true);
      throw Bad();
    }
    if (c == 'I') {
      ++pos;
      size_t st = pos;
      if (peek() == '-') ++pos;
      while (pos < s.size() && s[pos] >= '0' && s[pos] <= '9') ++pos;
      std::string t = s.substr(st, pos - st);
      if (t.empty() || t == "-" || t.size() > 10) throw Bad();
      long long v = std::stoll(t);
      if (v < -2147483648LL || v > 2147483647LL) throw Bad();
      return json((int32_t) v);
    }
    if (c == 'S') { ++pos; return json(unhex(takeHex())); }
    if (c == '[') {
      ++pos;
      json j; j.asArray();
      if (peek() == ']') { ++pos; return j; }
      j.array().push_back(value());
      while (peek() == ',') { ++pos; j.array().push_back(value()); }
      if (peek() != ']') throw Bad();
      ++pos;
      return j;
    }
    if (c == '{') {
      ++pos;
      json j; j.asObject();
      if (peek() == '}') { ++pos; return j; }
      while (true) {
        std::string k = unhex(takeHex());
        if (peek() != '=') throw Bad();
        ++pos;
        json v = value();
        j.object()[k] = v;
        if (peek() == ',') { ++pos; continue; }
        break;
      }
      if (peek() != '}') throw Bad();
      ++pos;
      return j;
    }
    throw Bad();
  }
};

static json parseValue(const std::string &s) {
  VParser p(s);
  json v = p.value();
  if (p.pos != s.size()) throw Bad();
  return v;
}

static void enc(std::ostream &o, const json &j) {
  switch (j.type) {
  case json::none_: o << "N"; break;
  case json::null_: o << "Z"; break;
  case json::number_: {
    const occa::primitive &p = j.value_.number;
    if (p.type == pt::bool_) o << "B" << (p.value.bool_ ? 1 : 0);
    else if (p.type == pt::int32_) o << "I" << (long long) p.value.int32_;
    else o << "?";
    break;
  }
  case json::string_: o << "S" << hex(j.value_.string); break;
  case json::array_: {
    o << "[";
    bool first = true;
    for (const json &x : j.value_.array) { if (!first) o << ","; first = false; enc(o, x); }
    o << "]";
    break;
  }
  case json::object_: {
    o << "{";
    bool first = true;
    for (auto &kv : j.value_.object) {
      if (!first) o << ",";
      first = false;
      o << hex(kv.first) << "=";
      enc(o, kv.second);
    }
    o << "}";
    break;
  }
  default: o << "?";
  }
}

// every member of every value, whatever its type says: T<type>[s<hex>][a[..]][o{..}]
static void encx(std::ostream &o, const json &j) {
  switch (j.type) {
  case json::none_: o << "N"; break;
  case json::null_: o << "Z"; break;
  case json::number_: {
    const occa::primitive &p = j.value_.number;
    if (p.type == pt::bool_) o << "B" << (p.value.bool_ ? 1 : 0);
    else if (p.type == pt::int32_) o << "I" << (long long) p.value.int32_;
    else o << "#";
    break;
  }
  case json::string_: o << "S"; break;
  case json::array_: o << "A"; break;
  case json::object_: o << "O"; break;
  default: o << "?";
  }
  if (!j.value_.string.empty()) o << "s" << hex(j.value_.string);
  if (!j.value_.array.empty()) {
    o << "a[";
    bool first = true;
    for (const json &x : j.value_.array) { if (!first) o << ","; first = false; encx(o, x); }
    o << "]";
  }
  if (!j.value_.object.empty()) {
    o << "o{";
    bool first = true;
    for (auto &kv : j.value_.object) { if (!first) o << ","; first = false; o << hex(kv.first) << "="; encx(o, kv.second); }
    o << "}";
  }
}

// j = <typed>: the inline assignment operator of json.hpp for the C++ type that the value stands for
static void assignTyped(json &dst, const json &v) {
  switch (v.type) {
  case json::number_:
    if (v.value_.number.type == pt::bool_) dst = (bool) v.value_.number.value.bool_;
    else dst = (int32_t) v.value_.number.value.int32_;
    break;
  case json::string_: dst = v.value_.string; break;
  case json::array_: dst = v.value_.array; break;
  case json::object_: dst = v.value_.object; break;
  default: throw Bad();
  }
}
static void setTyped(json &j, const std::string &key, const json &v) {
  switch (v.type) {
  case json::number_:
    if (v.value_.number.type == pt::bool_) j.set(key, (bool) v.value_.number.value.bool_);
    else j.set(key, (int32_t) v.value_.number.value.int32_);
    break;
  case json::string_: j.set(key, v.value_.string); break;
  case json::array_: j.set(key, v.value_.array); break;
  case json::object_: j.set(key, v.value_.object); break;
  default: throw Bad();
  }
}

static void split2(const std::string &body, std::string &a, std::string &b) {
  size_t i = body.find(':');
  if (i == std::string::npos) throw Bad();
  a = body.substr(0, i);
  b = body.substr(i + 1);
}
static std::string pathOf(const std::string &h) {
  for (char c : h) if (!isHex(c)) throw Bad();
  return unhex(h);
}

struct Op { char kind; std::string path; json value; };

static std::string run(const std::vector<std::string> &toks) {
  // decode everything first, so that a malformed token makes the whole history BAD (as in the model driver)
  std::vector<Op> ops;
  for (const std::string &tok : toks) {
    Op op;
    if (tok == "Z") { op.kind = 'Z'; ops.push_back(op); continue; }
    if (tok.size() < 2 || tok[1] != ':') throw Bad();
    op.kind = tok[0];
    std::string body = tok.substr(2), a, b;
    switch (op.kind) {
    case 'G': case 'H': case 'z': case 'R': case 'T': op.path = pathOf(body); break;
    case 'M': op.value = parseValue(body); break;
    case 'D': case 'S': case 'K': case 'm': split2(body, a, b); op.path = pathOf(a); op.value = parseValue(b); break;
    case 't': case 'k':
      split2(body, a, b); op.path = pathOf(a); op.value = parseValue(b);
      if (op.value.type == json::none_ || op.value.type == json::null_) throw Bad();
      break;
    default: throw Bad();
    }
    ops.push_back(op);
  }
  json j;
  std::ostringstream out;
  for (const Op &op : ops) {
    try {
      const json &cj = j;
      switch (op.kind) {
      case 'G': out << "v="; enc(out, cj[op.path]); break;
      case 'D': out << "v="; enc(out, j.get<json>(op.path, op.value)); break;
      case 'H': out << "h=" << (j.has(op.path) ? 1 : 0); break;
      case 'Z': out << "n=" << j.size(); break;
      case 'z': out << "n=" << cj[op.path].size(); break;
      case 'S': j[op.path] = op.value; out << "u"; break;
      case 'K': j.set(op.path, op.value); out << "u"; break;
      case 'R': j.remove(op.path); out << "u"; break;
      case 'M': j += op.value; out << "u"; break;
      case 'm': j[op.path] += op.value; out << "u"; break;
      case 'T': j[op.path]; out << "u"; break;
      case 't': assignTyped(j[op.path], op.value); out << "u"; break;
      case 'k': setTyped(j, op.path, op.value); out << "u"; break;
      }
    } catch (occa::exception &e) {
      out << "E";
    }
    out << ";";
  }
  out << "D=";
  enc(out, j);
  out << ";X=";
  encx(out, j);
  return "R " + out.str();
}

int main() {
  std::string line;
  while (std::getline(std::cin, line)) {
    std::istringstream ss(line);
    std::vector<std::string> t;
    std::string tok;
    while (ss >> tok) t.push_back(tok);
    std::string out;
    try { out = run(t); } catch (Bad &) { out = "R BAD"; } catch (std::exception &) { out = "R BAD"; }
    std::cout << out << std::endl;
  }
  return 0;
}
