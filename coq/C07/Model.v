(* C07 -- editing an included header invalidates stale cached kernels.  Executable model (plain Coq,
   no proofs, extracted).

   What is modelled (line numbers: /repo at the pinned snapshot):
     device::buildKernel             src/core/device.cpp:371-403  key = setupKernelInfo(props, hashFile(file)), then
                                                                  the mode's buildKernel in io::hashDir(file, key)
     device::setupKernelInfo         src/core/device.cpp:308-324  (key composition: C06) then applyDependencyHash
     device::applyDependencyHash     src/core/device.cpp:326-369  transcribed below WITH FUEL (the C++ recurses unboundedly)
     serial::device::buildKernel     src/occa/internal/modes/serial/device.cpp:119-160,270-300
                                       binary present -> load it; else parse (preprocessor follows #include),
                                       writeKernelBuildFile (kernel/dependencies: path -> hash of contents), compile
     preprocessor_t::processInclude  src/occa/internal/lang/preprocessor.cpp:1316-1391  textual inclusion, `dependencies[header]`
     parser_t::setSourceMetadata     src/occa/internal/lang/parser.cpp:135-141          dependencyHashes[dep] = hashFile(dep)
     sourceMetadata_t::getDependencyJson / modeDevice_t::writeKernelBuildFile           recording in build.json

   Files are numbered; file 0 is the kernel source.  The contents of a file are abstracted to the list of
   files it #includes and a number standing for the rest of its text.  Hashes are ideal (C06/XorHash.v): a key
   of the pinned code is a set of atoms combined by XOR, kept as a sorted duplicate-free list so that equal
   keys are equal terms (`toggle` = XOR with one atom).

   NOT modelled: headers OCCA cannot find and passes through to the host compiler, kernels built with
   okl/enabled: false (neither is dependency-tracked), a new file shadowing an included one earlier in the
   include path, concurrent builders (C09) and killed builds (C08). *)
From Coq Require Import List Arith Bool PeanoNat.
Import ListNotations.

Definition path := nat.
Definition root : path := 0.

Record contents := mkC { incs : list path; val : nat }.

Definition fsT := list (path * contents).        (* at most one binding per path (maintained by fs_set/fs_del) *)

Fixpoint fs_get (fs : fsT) (p : path) : option contents :=
  match fs with
  | [] => None
  | (q, c) :: fs' => if Nat.eqb p q then Some c else fs_get fs' p
  end.

Definition fs_del (fs : fsT) (p : path) : fsT := filter (fun qc => negb (Nat.eqb p (fst qc))) fs.
Definition fs_set (fs : fsT) (p : path) (c : contents) : fsT := (p, c) :: fs_del fs p.

(* ------------------------------------------------------------------ what the compiler sees *)
Definition snapshot := list (path * contents).   (* the files in the order the preprocessor reads them *)

Fixpoint expand_list (f : path -> option snapshot) (l : list path) : option snapshot :=
  match l with
  | [] => Some []
  | q :: l' =>
      match f q, expand_list f l' with
      | Some s, Some ss => Some (s ++ ss)
      | _, _ => None
      end
  end.

(* textual inclusion, to depth n; None: a file is missing ("File does not exist") or the nesting is deeper than n *)
Fixpoint expand (n : nat) (fs : fsT) (p : path) : option snapshot :=
  match n with
  | 0 => None
  | S n' =>
      match fs_get fs p with
      | None => None
      | Some c =>
          match expand_list (expand n' fs) (incs c) with
          | None => None
          | Some ss => Some ((p, c) :: ss)
          end
      end
  end.

Definition memp (p : path) (l : list path) : bool := existsb (Nat.eqb p) l.

(* std::map keyed by path: one entry per included file *)
Fixpoint dedupe (l : snapshot) (seen : list path) : snapshot :=
  match l with
  | [] => []
  | (p, c) :: l' => if memp p seen then dedupe l' seen else (p, c) :: dedupe l' (p :: seen)
  end.

Definition deps_of (s : snapshot) : snapshot := dedupe (tl s) [].

(* ------------------------------------------------------------------ contents and atoms: equality, order *)
Fixpoint list_nat_eqb (a b : list nat) : bool :=
  match a, b with
  | [], [] => true
  | x :: a', y :: b' => Nat.eqb x y && list_nat_eqb a' b'
  | _, _ => false
  end.

Definition contents_eqb (a b : contents) : bool := Nat.eqb (val a) (val b) && list_nat_eqb (incs a) (incs b).

Fixpoint list_nat_cmp (a b : list nat) : comparison :=
  match a, b with
  | [], [] => Eq
  | [], _ => Lt
  | _, [] => Gt
  | x :: a', y :: b' => match Nat.compare x y with Eq => list_nat_cmp a' b' | r => r end
  end.

Definition contents_cmp (a b : contents) : comparison :=
  match Nat.compare (val a) (val b) with Eq => list_nat_cmp (incs a) (incs b) | r => r end.

Inductive hatom :=
| ABase                       (* everything of the key that is not a file: device, properties, header (C06) *)
| ARoot (c : contents)        (* hashFile(kernel source) *)
| AFile (c : contents).       (* hashFile(included file): equal texts give equal atoms, whatever the path *)

Definition hatom_cmp (a b : hatom) : comparison :=
  match a, b with
  | ABase, ABase => Eq
  | ABase, _ => Lt
  | _, ABase => Gt
  | ARoot x, ARoot y => contents_cmp x y
  | ARoot _, AFile _ => Lt
  | AFile _, ARoot _ => Gt
  | AFile x, AFile y => contents_cmp x y
  end.

(* XOR of a key with the hash of one more input *)
Fixpoint toggle (a : hatom) (l : list hatom) : list hatom :=
  match l with
  | [] => [a]
  | b :: l' =>
      match hatom_cmp a b with
      | Eq => l'
      | Lt => a :: b :: l'
      | Gt => b :: toggle a l'
      end
  end.

(* ------------------------------------------------------------------ keys, cache *)
Inductive key :=
| KSet (s : list hatom)                                   (* XOR-composed *)
| KChain (k : key) (ds : list (path * option contents)).  (* after the fix: hash of (previous key, state of its dependencies) *)

Definition ocontents_eqb (a b : option contents) : bool :=
  match a, b with
  | None, None => true
  | Some x, Some y => contents_eqb x y
  | _, _ => false
  end.

Fixpoint hatoms_eqb (a b : list hatom) : bool :=
  match a, b with
  | [], [] => true
  | x :: a', y :: b' => (match hatom_cmp x y with Eq => true | _ => false end) && hatoms_eqb a' b'
  | _, _ => false
  end.

Fixpoint dstate_eqb (a b : list (path * option contents)) : bool :=
  match a, b with
  | [], [] => true
  | (p, x) :: a', (q, y) :: b' => Nat.eqb p q && ocontents_eqb x y && dstate_eqb a' b'
  | _, _ => false
  end.

Fixpoint key_eqb (a b : key) : bool :=
  match a, b with
  | KSet x, KSet y => hatoms_eqb x y
  | KChain k ds, KChain k' ds' => key_eqb k k' && dstate_eqb ds ds'
  | _, _ => false
  end.

Record entry := mkEntry {
  e_key : key;
  e_deps : snapshot;        (* build.json kernel/dependencies: path -> hash of the contents compiled against *)
  e_snap : snapshot }.      (* the binary, identified by the texts it was compiled from *)

Definition cacheT := list entry.

Fixpoint lookup (k : key) (cache : cacheT) : option entry :=
  match cache with
  | [] => None
  | e :: cache' => if key_eqb k (e_key e) then Some e else lookup k cache'
  end.

(* ------------------------------------------------------------------ applyDependencyHash *)
Inductive variant :=
| Pinned        (* newKernelHash ^= hashFile(dependency) for every existing recorded dependency *)
| Fixed.        (* fixes/C07-1.patch: newKernelHash = hash(kernelHash, [(dependency, its current hash or "missing")]) *)

Definition dep_state (fs : fsT) (deps : snapshot) : list (path * option contents) :=
  map (fun dc => (fst dc, fs_get fs (fst dc))) deps.

Definition changed (fs : fsT) (deps : snapshot) : bool :=
  existsb (fun dc => match fs_get fs (fst dc) with
                     | Some c => negb (contents_eqb c (snd dc))
                     | None => true
                     end) deps.

Definition xor_existing (s : list hatom) (st : list (path * option contents)) : list hatom :=
  fold_left (fun acc dc => match snd dc with Some c => toggle (AFile c) acc | None => acc end) st s.

Definition step_key (v : variant) (k : key) (st : list (path * option contents)) : key :=
  match v with
  | Pinned => match k with KSet s => KSet (xor_existing s st) | _ => k end
  | Fixed => KChain k st
  end.

Fixpoint apply (v : variant) (fuel : nat) (cache : cacheT) (fs : fsT) (k : key) : option key :=
  match fuel with
  | 0 => None                                              (* the C++ would still be recursing *)
  | S f =>
      match lookup k cache with
      | None => Some k                                     (* no build.json for this key *)
      | Some e =>
          if changed fs (e_deps e)
          then apply v f cache fs (step_key v k (dep_state fs (e_deps e)))
          else Some k
      end
  end.

(* ------------------------------------------------------------------ builds and histories *)
Inductive outcome :=
| Ran (s : snapshot) (compiled : bool)   (* the kernel that runs was compiled from s; compiled = the compiler ran now *)
| Failed                                 (* no binary: source or an included file missing *)
| Diverged.                              (* applyDependencyHash did not return within the fuel *)

Definition key0 (r : contents) : key := KSet (toggle (ARoot r) [ABase]).

Definition build (v : variant) (cache : cacheT) (fs : fsT) : cacheT * outcome :=
  match fs_get fs root with
  | None => (cache, Failed)
  | Some r =>
      match apply v (length cache + 1) cache fs (key0 r) with
      | None => (cache, Diverged)
      | Some k =>
          match lookup k cache with
          | Some e => (cache, Ran (e_snap e) false)
          | None =>
              match expand (length fs + 1) fs root with
              | None => (cache, Failed)
              | Some s => (mkEntry k (deps_of s) s :: cache, Ran s true)
              end
          end
      end
  end.

Inductive op :=
| Edit (p : path) (c : contents)
| Delete (p : path)
| Build.

Record state := mkState { st_fs : fsT; st_cache : cacheT }.

Definition init : state := mkState [] [].

Definition step (v : variant) (st : state) (o : op) : state * option outcome :=
  match o with
  | Edit p c => (mkState (fs_set (st_fs st) p c) (st_cache st), None)
  | Delete p => (mkState (fs_del (st_fs st) p) (st_cache st), None)
  | Build => let '(cache', out) := build v (st_cache st) (st_fs st) in
             (mkState (st_fs st) cache', Some out)
  end.

(* the outcomes of the builds of a history, each with the file system it ran against *)
Fixpoint run (v : variant) (st : state) (h : list op) : list (fsT * outcome) :=
  match h with
  | [] => []
  | o :: h' =>
      let '(st', out) := step v st o in
      match out with
      | Some x => (st_fs st, x) :: run v st' h'
      | None => run v st' h'
      end
  end.
