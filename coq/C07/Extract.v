(* Extraction of the executable model and specification (ExtrOcamlBasic only; nat stays the extracted
   inductive; Z.of_nat is extracted only because extract/zutil.ml mentions the types positive and z).  coqc is run from /verif/coq by the Makefile, so the path is relative to that directory. *)
From Coq Require Import Extraction ExtrOcamlBasic ZArith.
From OV.C07 Require Import Model Spec.
Extraction Language OCaml.
Extraction "../_work/extract/C07/model.ml" run init current fs_set fs_del mkC Pinned Fixed Z.of_nat.
