(* C07 -- reference semantics: what "the code reflects the current contents of all files it includes" means.

   `texp fs p s`: s is the sequence of (file, contents) that textual inclusion starting at file p reads from
   the file system fs -- the file itself, then, for each of its #include lines in order, the same for the
   included file.  A relation, without fuel and without any notion of cache or key.  A build satisfies the
   property when the kernel that runs was compiled from exactly `texp fs root` of the file system at the
   time of the build. *)
From Coq Require Import List Arith.
From OV.C07 Require Import Model.
Import ListNotations.

Inductive texp (fs : fsT) : path -> snapshot -> Prop :=
| texp_file : forall p c ss,
    fs_get fs p = Some c -> texps fs (incs c) ss -> texp fs p ((p, c) :: ss)
with texps (fs : fsT) : list path -> snapshot -> Prop :=
| texps_nil : texps fs [] []
| texps_cons : forall q l s ss, texp fs q s -> texps fs l ss -> texps fs (q :: l) (s ++ ss).

(* the property for one build *)
Definition reflects_current (fs : fsT) (o : outcome) : Prop :=
  match o with
  | Ran s _ => texp fs root s
  | Failed => True            (* no kernel runs *)
  | Diverged => False         (* the build never returns (stack overflow in the C++) *)
  end.

(* executable counterpart for the oracle of the correspondence: the texts a fresh compilation would read *)
Definition current (fs : fsT) : option snapshot := expand (length fs + 1) fs root.
