(* C07 -- editing an included header always invalidates stale cached kernels.  Statements only; proofs in
   Proofs.v.

   Vocabulary (Model.v / Spec.v):
     fsT, contents     files by number (0 = the kernel source); contents = (#include list, rest of the text)
     op                Edit p c | Delete p | Build          run v init h = the outcome of every Build of history h,
                                                            paired with the file system it ran against
     outcome           Ran s compiled (the kernel that runs was compiled from the texts s; compiled: now or cached)
                       | Failed (no binary) | Diverged (applyDependencyHash did not return)
     texp fs root s    s = the texts textual inclusion reads from fs, starting at the kernel source (Spec.v)
     apply v fuel ...  device::applyDependencyHash with fuel; variant Pinned = the snapshot (XOR of the current
                       hashes of all existing recorded dependencies), Fixed = after fixes/C07-1.patch (the next key
                       is the hash of the previous key together with every recorded dependency's name and current
                       hash-or-missing)
   Hashes are ideal (a key is a set of atoms / a term); accidental collisions are out of scope. *)
From Coq Require Import List Arith Bool.
From OV.C07 Require Import Model Spec Proofs.
Import ListNotations.

(* MAIN.  After every build of every history of edits, deletions and builds (include-graph changes and
   reverts are edits), starting from an empty cache: the kernel that runs was compiled from exactly the
   current texts of the source and of everything it includes, directly or transitively; the build never
   diverges; and it fails only when a fresh compilation of the current texts is impossible (a file is
   missing / inclusion does not end). *)
Theorem build_runs_current : forall (h : list op),
  Forall (fun fo : fsT * outcome =>
            reflects_current (fst fo) (snd fo) /\ (snd fo = Failed -> current (fst fo) = None))
         (run Fixed init h).
Proof. exact Proofs.build_runs_current. Qed.

(* the fuel argument: for EVERY cache (reachable or not), file system and key, the repaired
   applyDependencyHash returns within |cache| + 1 calls *)
Theorem apply_terminates : forall (cache : cacheT) (fs : fsT) (k : key),
  apply Fixed (length cache + 1) cache fs k <> None.
Proof. exact Proofs.apply_terminates. Qed.

(* `texp` pins the texts down: whatever a fresh expansion computes is the only snapshot satisfying it *)
Theorem current_texts_unique : forall fs n s s',
  expand n fs root = Some s -> texp fs root s' -> s = s'.
Proof. intros fs n s s'. exact (Proofs.texp_functional fs n root s s'). Qed.

Print Assumptions build_runs_current.
Print Assumptions apply_terminates.
Print Assumptions current_texts_unique.

(* ================================================================== the pinned function is refuted *)
Definition state_after (v : variant) (h : list op) : state := fold_left (fun st o => fst (step v st o)) h init.

Lemma self_loop v cache fs k e :
  lookup k cache = Some e -> changed fs (e_deps e) = true ->
  step_key v k (dep_state fs (e_deps e)) = k ->
  forall fuel, apply v fuel cache fs k = None.
Proof. intros L Ch St. induction fuel as [|f IH]; simpl; [reflexivity|]. now rewrite L, Ch, St. Qed.

Lemma two_cycle v cache fs k k' e e' :
  lookup k cache = Some e -> changed fs (e_deps e) = true -> step_key v k (dep_state fs (e_deps e)) = k' ->
  lookup k' cache = Some e' -> changed fs (e_deps e') = true -> step_key v k' (dep_state fs (e_deps e')) = k ->
  forall fuel, apply v fuel cache fs k = None /\ apply v fuel cache fs k' = None.
Proof.
  intros L Ch St L' Ch' St'. induction fuel as [|f [IH IH']]; simpl; [split; reflexivity|].
  rewrite L, Ch, St, L', Ch', St'. split; assumption.
Qed.

Lemma one_step v cache fs k k' e :
  lookup k cache = Some e -> changed fs (e_deps e) = true -> step_key v k (dep_state fs (e_deps e)) = k' ->
  (forall fuel, apply v fuel cache fs k' = None) -> forall fuel, apply v fuel cache fs k = None.
Proof. intros L Ch St Hn [|f]; simpl; [reflexivity|]. rewrite L, Ch, St. apply Hn. Qed.

Definition F (l : list path) (v : nat) : contents := mkC l v.

(* DESIGN section 8 #12: k.okl includes a.h and b.h; after one build both headers are edited to the same text.
   The two new hashes cancel, the key does not move, and the recursion never ends: for every fuel. *)
Definition h_equal : list op :=
  [Edit 0 (F [1; 2] 7); Edit 1 (F [] 1); Edit 2 (F [] 2); Build; Edit 1 (F [] 5); Edit 2 (F [] 5)].

Theorem equal_contents_self_loop_refuted :
  let st := state_after Pinned h_equal in
  (forall fuel, apply Pinned fuel (st_cache st) (st_fs st) (key0 (F [1; 2] 7)) = None)
  /\ map snd (run Pinned init (h_equal ++ [Build])) = [Ran [(0, F [1; 2] 7); (1, F [] 1); (2, F [] 2)] true; Diverged].
Proof.
  split; [|vm_compute; reflexivity].
  eapply self_loop; vm_compute; reflexivity.
Qed.

(* the same when every recorded dependency is missing *)
Definition h_missing : list op :=
  [Edit 0 (F [1] 7); Edit 1 (F [] 1); Build; Delete 1].

Theorem all_missing_self_loop_refuted :
  let st := state_after Pinned h_missing in
  forall fuel, apply Pinned fuel (st_cache st) (st_fs st) (key0 (F [1] 7)) = None.
Proof. eapply self_loop; vm_compute; reflexivity. Qed.

(* and without any two files ever being equal: k.okl includes a.h, a.h comes to include b.h, and ordinary edits
   of a.h and b.h lead to two cache entries that send applyDependencyHash to each other for ever (every
   unchanged dependency is XORed in as well, so a step can undo the previous one) *)
Definition h_cycle : list op :=
  [Edit 0 (F [1] 7); Edit 1 (F [] 1); Build;
   Edit 1 (F [2] 2); Edit 2 (F [] 1); Build;
   Edit 2 (F [] 2); Build;
   Edit 1 (F [2] 3); Edit 2 (F [] 3); Build;
   Edit 2 (F [] 2)].

Theorem alternating_edits_two_cycle_refuted :
  let st := state_after Pinned h_cycle in
  (forall fuel, apply Pinned fuel (st_cache st) (st_fs st) (key0 (F [1] 7)) = None)
  /\ map snd (run Pinned init (h_cycle ++ [Build]))
     = [Ran [(0, F [1] 7); (1, F [] 1)] true;
        Ran [(0, F [1] 7); (1, F [2] 2); (2, F [] 1)] true;
        Ran [(0, F [1] 7); (1, F [2] 2); (2, F [] 2)] true;
        Ran [(0, F [1] 7); (1, F [2] 3); (2, F [] 3)] true;
        Diverged].
Proof.
  split; [|vm_compute; reflexivity].
  (* the first call moves from the base key to the first key of the cycle *)
  eapply one_step; [vm_compute; reflexivity | vm_compute; reflexivity | vm_compute; reflexivity |].
  intros fuel. eapply proj1. eapply two_cycle; vm_compute; reflexivity.
Qed.

Print Assumptions equal_contents_self_loop_refuted.
Print Assumptions all_missing_self_loop_refuted.
Print Assumptions alternating_edits_two_cycle_refuted.

(* ================================================================== non-vacuity / the repaired function *)
(* the same three histories under the repaired function: every build runs the current texts; reverting to an
   earlier state loads the binary that was compiled for it *)
Example fixed_equal_contents :
  map snd (run Fixed init (h_equal ++ [Build; Edit 1 (F [] 1); Edit 2 (F [] 2); Build]))
  = [Ran [(0, F [1; 2] 7); (1, F [] 1); (2, F [] 2)] true;
     Ran [(0, F [1; 2] 7); (1, F [] 5); (2, F [] 5)] true;
     Ran [(0, F [1; 2] 7); (1, F [] 1); (2, F [] 2)] false].
Proof. vm_compute. reflexivity. Qed.

Example fixed_missing :
  map snd (run Fixed init (h_missing ++ [Build; Edit 0 (F [] 7); Build; Edit 0 (F [1] 7); Edit 1 (F [] 1); Build]))
  = [Ran [(0, F [1] 7); (1, F [] 1)] true; Failed; Ran [(0, F [] 7)] true; Ran [(0, F [1] 7); (1, F [] 1)] false].
Proof. vm_compute. reflexivity. Qed.

Example fixed_cycle :
  map snd (run Fixed init (h_cycle ++ [Build; Build]))
  = [Ran [(0, F [1] 7); (1, F [] 1)] true;
     Ran [(0, F [1] 7); (1, F [2] 2); (2, F [] 1)] true;
     Ran [(0, F [1] 7); (1, F [2] 2); (2, F [] 2)] true;
     Ran [(0, F [1] 7); (1, F [2] 3); (2, F [] 3)] true;
     Ran [(0, F [1] 7); (1, F [2] 3); (2, F [] 2)] true;
     Ran [(0, F [1] 7); (1, F [2] 3); (2, F [] 2)] false].
Proof. vm_compute. reflexivity. Qed.
