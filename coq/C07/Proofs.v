(* C07 -- proofs about the repaired applyDependencyHash (variant Fixed): termination within
   |cache|+1 steps for every cache, and, by an invariant over all histories, every build runs code
   compiled from the current texts. *)
From Coq Require Import List Arith Bool PeanoNat Lia.
From OV.C07 Require Import Model Spec.
Import ListNotations.

(* ------------------------------------------------------------------ boolean equalities *)
Lemma list_nat_eqb_eq a b : list_nat_eqb a b = true <-> a = b.
Proof.
  revert b. induction a as [|x a IH]; intros [|y b]; simpl; try (split; [discriminate | intros E; discriminate E]);
    [split; reflexivity|].
  rewrite andb_true_iff, Nat.eqb_eq, IH. split; [intros [-> ->]; reflexivity | intros E; injection E; auto].
Qed.

Lemma contents_eqb_eq a b : contents_eqb a b = true <-> a = b.
Proof.
  destruct a as [ia va], b as [ib vb]. unfold contents_eqb. simpl.
  rewrite andb_true_iff, Nat.eqb_eq, list_nat_eqb_eq.
  split; [intros [-> ->]; reflexivity | intros E; injection E; auto].
Qed.

Lemma list_nat_cmp_eq a b : list_nat_cmp a b = Eq <-> a = b.
Proof.
  revert b. induction a as [|x a IH]; intros [|y b]; simpl; try (split; [discriminate | intros E; discriminate E]);
    [split; reflexivity|].
  destruct (Nat.compare x y) eqn:C.
  - apply Nat.compare_eq_iff in C. subst. rewrite IH. split; [intros ->; reflexivity | intros E; injection E; auto].
  - split; [discriminate|]. intros E. injection E as -> _. rewrite Nat.compare_refl in C. discriminate.
  - split; [discriminate|]. intros E. injection E as -> _. rewrite Nat.compare_refl in C. discriminate.
Qed.

Lemma contents_cmp_eq a b : contents_cmp a b = Eq <-> a = b.
Proof.
  destruct a as [ia va], b as [ib vb]. unfold contents_cmp. simpl.
  destruct (Nat.compare va vb) eqn:C.
  - apply Nat.compare_eq_iff in C. subst. rewrite list_nat_cmp_eq.
    split; [intros ->; reflexivity | intros E; injection E; auto].
  - split; [discriminate|]. intros E. injection E as _ ->. rewrite Nat.compare_refl in C. discriminate.
  - split; [discriminate|]. intros E. injection E as _ ->. rewrite Nat.compare_refl in C. discriminate.
Qed.

Lemma hatom_cmp_eq a b : hatom_cmp a b = Eq <-> a = b.
Proof.
  destruct a as [|x|x], b as [|y|y]; simpl; try (split; [discriminate | intros E; discriminate E]);
    try (split; reflexivity);
    rewrite contents_cmp_eq; (split; [intros ->; reflexivity | intros E; injection E; auto]).
Qed.

Lemma hatoms_eqb_eq a b : hatoms_eqb a b = true <-> a = b.
Proof.
  revert b. induction a as [|x a IH]; intros [|y b]; simpl; try (split; [discriminate | intros E; discriminate E]);
    [split; reflexivity|].
  rewrite andb_true_iff, IH. destruct (hatom_cmp x y) eqn:C.
  - apply hatom_cmp_eq in C. subst. split; [intros [_ ->]; reflexivity | intros E; injection E; auto].
  - split; [intros [D _]; discriminate D|]. intros E. injection E as -> _.
    rewrite (proj2 (hatom_cmp_eq y y) eq_refl) in C. discriminate.
  - split; [intros [D _]; discriminate D|]. intros E. injection E as -> _.
    rewrite (proj2 (hatom_cmp_eq y y) eq_refl) in C. discriminate.
Qed.

Lemma ocontents_eqb_eq a b : ocontents_eqb a b = true <-> a = b.
Proof.
  destruct a as [x|], b as [y|]; simpl; try (split; [discriminate | intros E; discriminate E]); try (split; reflexivity).
  rewrite contents_eqb_eq. split; [intros ->; reflexivity | intros E; injection E; auto].
Qed.

Lemma dstate_eqb_eq a b : dstate_eqb a b = true <-> a = b.
Proof.
  revert b. induction a as [|[p x] a IH]; intros [|[q y] b]; simpl;
    try (split; [discriminate | intros E; discriminate E]); [split; reflexivity|].
  rewrite !andb_true_iff, Nat.eqb_eq, ocontents_eqb_eq, IH.
  split; [intros [[-> ->] ->]; reflexivity | intros E; injection E; auto].
Qed.

Lemma key_eqb_eq a b : key_eqb a b = true <-> a = b.
Proof.
  revert b. induction a as [s|k IH ds]; intros [s'|k' ds']; simpl;
    try (split; [discriminate | intros E; discriminate E]).
  - rewrite hatoms_eqb_eq. split; [intros ->; reflexivity | intros E; injection E; auto].
  - rewrite andb_true_iff, IH, dstate_eqb_eq.
    split; [intros [-> ->]; reflexivity | intros E; injection E; auto].
Qed.

Lemma lookup_some k cache e : lookup k cache = Some e -> In e cache /\ e_key e = k.
Proof.
  induction cache as [|e0 cache IH]; simpl; [discriminate|].
  destruct (key_eqb k (e_key e0)) eqn:E.
  - intros H. injection H as <-. apply key_eqb_eq in E. split; [now left | now symmetry].
  - intros H. destruct (IH H) as [Hin Hk]. split; [now right | assumption].
Qed.

(* ------------------------------------------------------------------ termination *)
Fixpoint ksize (k : key) : nat :=
  match k with KSet _ => 0 | KChain k' _ => S (ksize k') end.

Definition above (n : nat) (cache : cacheT) : nat :=
  length (filter (fun e => Nat.leb n (ksize (e_key e))) cache).

Lemma above_le n cache : above n cache <= length cache.
Proof.
  unfold above. induction cache as [|e cache IH]; simpl; [lia|].
  destruct (Nat.leb n (ksize (e_key e))); simpl; lia.
Qed.

Lemma filter_len_le {A} (p q : A -> bool) l :
  (forall y, p y = true -> q y = true) -> length (filter p l) <= length (filter q l).
Proof.
  intros Hpq. induction l as [|y l IH]; simpl; [lia|].
  destruct (p y) eqn:Py.
  - rewrite (Hpq y Py). simpl. lia.
  - destruct (q y); simpl; lia.
Qed.

Lemma filter_len_lt {A} (p q : A -> bool) l x :
  (forall y, p y = true -> q y = true) -> In x l -> q x = true -> p x = false ->
  length (filter p l) < length (filter q l).
Proof.
  intros Hpq. induction l as [|y l IH]; intros Hin Hq Hp; [destruct Hin|].
  simpl. destruct Hin as [->|Hin].
  - rewrite Hp, Hq. simpl. pose proof (filter_len_le p q l Hpq). lia.
  - specialize (IH Hin Hq Hp). destruct (p y) eqn:Py.
    + rewrite (Hpq y Py). simpl. lia.
    + destruct (q y); simpl; lia.
Qed.

Lemma above_succ n cache e : In e cache -> ksize (e_key e) = n -> above (S n) cache < above n cache.
Proof.
  intros Hin Hk. unfold above.
  apply (filter_len_lt (fun e0 => Nat.leb (S n) (ksize (e_key e0))) (fun e0 => Nat.leb n (ksize (e_key e0))) cache e).
  - intros y Hy. apply Nat.leb_le in Hy. apply Nat.leb_le. lia.
  - exact Hin.
  - rewrite Hk. apply Nat.leb_refl.
  - rewrite Hk. apply Nat.leb_gt. lia.
Qed.

Lemma apply_fuel cache fs : forall fuel k,
  above (ksize k) cache < fuel -> apply Fixed fuel cache fs k <> None.
Proof.
  induction fuel as [|f IH]; intros k Hlt; [lia|].
  simpl. destruct (lookup k cache) as [e|] eqn:L; [|discriminate].
  destruct (changed fs (e_deps e)); [|discriminate].
  apply IH. simpl. destruct (lookup_some _ _ _ L) as [Hin Hk].
  assert (ksize (e_key e) = ksize k) by now rewrite Hk.
  pose proof (above_succ (ksize k) cache e Hin H). lia.
Qed.

Theorem apply_terminates cache fs k : apply Fixed (length cache + 1) cache fs k <> None.
Proof. apply apply_fuel. pose proof (above_le (ksize k) cache). lia. Qed.

(* ------------------------------------------------------------------ what apply returns *)
Fixpoint root_of (k : key) : option contents :=
  match k with
  | KSet [ABase; ARoot r] => Some r
  | KSet _ => None
  | KChain k' _ => root_of k'
  end.

Lemma root_of_key0 r : root_of (key0 r) = Some r.
Proof. reflexivity. Qed.

Lemma apply_result cache fs : forall fuel k k',
  apply Fixed fuel cache fs k = Some k' ->
  root_of k' = root_of k /\ (forall e, lookup k' cache = Some e -> changed fs (e_deps e) = false).
Proof.
  induction fuel as [|f IH]; intros k k'; simpl; [discriminate|].
  destruct (lookup k cache) as [e|] eqn:L.
  - destruct (changed fs (e_deps e)) eqn:Ch.
    + intros H. destruct (IH _ _ H) as [Hr Hc]. split; [simpl in Hr; assumption | assumption].
    + intros H. injection H as <-. split; [reflexivity|]. intros e' L'. rewrite L in L'. now injection L' as <-.
  - intros H. injection H as <-. split; [reflexivity|]. intros e' L'. rewrite L in L'. discriminate.
Qed.

Lemma changed_false fs deps :
  changed fs deps = false -> forall d c, In (d, c) deps -> fs_get fs d = Some c.
Proof.
  unfold changed. induction deps as [|[d0 c0] deps IH]; simpl; intros H d c Hin; [destruct Hin|].
  apply orb_false_iff in H as [H0 H1]. destruct Hin as [E|Hin]; [|exact (IH H1 d c Hin)].
  injection E as <- <-. destruct (fs_get fs d0) as [c1|]; [|discriminate].
  apply negb_false_iff, contents_eqb_eq in H0. now subst.
Qed.

(* ------------------------------------------------------------------ textual inclusion *)
Lemma expand_list_pairs (f : path -> option snapshot) (P : path * contents -> Prop) l :
  (forall q s, In q l -> f q = Some s -> Forall P s) ->
  forall ss, expand_list f l = Some ss -> Forall P ss.
Proof.
  induction l as [|q l IH]; simpl; intros Hf ss.
  - intros H. injection H as <-. constructor.
  - destruct (f q) as [s|] eqn:Fq; [|discriminate].
    destruct (expand_list f l) as [ss'|] eqn:El; [|discriminate].
    intros H. injection H as <-. apply Forall_app. split.
    + apply (Hf q s); [now left | assumption].
    + apply IH; [|reflexivity]. intros q' s' Hin. apply Hf. now right.
Qed.

Lemma expand_pairs fs : forall n p s,
  expand n fs p = Some s -> Forall (fun qc => fs_get fs (fst qc) = Some (snd qc)) s.
Proof.
  induction n as [|n IH]; intros p s; simpl; [discriminate|].
  destruct (fs_get fs p) as [c|] eqn:G; [|discriminate].
  destruct (expand_list (expand n fs) (incs c)) as [ss|] eqn:El; [|discriminate].
  intros H. injection H as <-. constructor; [exact G|].
  apply (expand_list_pairs (expand n fs) _ (incs c)); [|exact El].
  intros q s' _ Hq. exact (IH q s' Hq).
Qed.

Lemma expand_list_stable (f f' : path -> option snapshot) (P : path * contents -> Prop) l :
  (forall q s, In q l -> f q = Some s -> Forall P s -> f' q = Some s) ->
  forall ss, expand_list f l = Some ss -> Forall P ss -> expand_list f' l = Some ss.
Proof.
  induction l as [|q l IH]; simpl; intros Hf ss; [auto|].
  destruct (f q) as [s|] eqn:Fq; [|discriminate].
  destruct (expand_list f l) as [ss'|] eqn:El; [|discriminate].
  intros H HP. injection H as <-. apply Forall_app in HP as [HP1 HP2].
  rewrite (Hf q s (or_introl eq_refl) Fq HP1).
  rewrite (IH (fun q' s' Hin => Hf q' s' (or_intror Hin)) ss' eq_refl HP2). reflexivity.
Qed.

Lemma expand_stable fs fs' : forall n p s,
  expand n fs p = Some s ->
  Forall (fun qc => fs_get fs' (fst qc) = Some (snd qc)) s ->
  expand n fs' p = Some s.
Proof.
  induction n as [|n IH]; intros p s; simpl; [discriminate|].
  destruct (fs_get fs p) as [c|] eqn:G; [|discriminate].
  destruct (expand_list (expand n fs) (incs c)) as [ss|] eqn:El; [|discriminate].
  intros H HP. injection H as <-. inversion HP as [|x l Hx Hl]; subst. simpl in Hx. rewrite Hx.
  rewrite (expand_list_stable (expand n fs) (expand n fs') _ (incs c)
             (fun q s' _ Hq HPq => IH q s' Hq HPq) ss El Hl). reflexivity.
Qed.

Lemma expand_list_sound fs (f : path -> option snapshot) l :
  (forall q s, f q = Some s -> texp fs q s) ->
  forall ss, expand_list f l = Some ss -> texps fs l ss.
Proof.
  intros Hf. induction l as [|q l IH]; simpl; intros ss.
  - intros H. injection H as <-. constructor.
  - destruct (f q) as [s|] eqn:Fq; [|discriminate].
    destruct (expand_list f l) as [ss'|] eqn:El; [|discriminate].
    intros H. injection H as <-. constructor; [now apply Hf | now apply IH].
Qed.

Lemma expand_sound fs : forall n p s, expand n fs p = Some s -> texp fs p s.
Proof.
  induction n as [|n IH]; intros p s; simpl; [discriminate|].
  destruct (fs_get fs p) as [c|] eqn:G; [|discriminate].
  destruct (expand_list (expand n fs) (incs c)) as [ss|] eqn:El; [|discriminate].
  intros H. injection H as <-. constructor; [exact G|].
  exact (expand_list_sound fs (expand n fs) (incs c) (IH) ss El).
Qed.

Lemma expand_head fs n p s :
  expand n fs p = Some s -> exists c ss, s = (p, c) :: ss /\ fs_get fs p = Some c.
Proof.
  destruct n as [|n]; simpl; [discriminate|].
  destruct (fs_get fs p) as [c|] eqn:G; [|discriminate].
  destruct (expand_list (expand n fs) (incs c)) as [ss|]; [|discriminate].
  intros H. injection H as <-. now exists c, ss.
Qed.

(* ------------------------------------------------------------------ recorded dependencies *)
Lemma dedupe_sub l : forall seen x, In x (dedupe l seen) -> In x l.
Proof.
  induction l as [|[p c] l IH]; simpl; intros seen x; [auto|].
  destruct (memp p seen).
  - intros H. right. exact (IH _ _ H).
  - intros [<-|H]; [now left | right; exact (IH _ _ H)].
Qed.

Lemma memp_In p l : memp p l = true <-> In p l.
Proof.
  unfold memp. rewrite existsb_exists. split.
  - intros [x [Hin E]]. apply Nat.eqb_eq in E. now subst.
  - intros Hin. exists p. split; [assumption | apply Nat.eqb_refl].
Qed.

Lemma dedupe_in l : forall seen q c,
  In (q, c) l -> memp q seen = false -> exists c', In (q, c') (dedupe l seen).
Proof.
  induction l as [|[p c0] l IH]; simpl; intros seen q c; [intros []|].
  intros [E|Hin] Hs.
  - injection E as -> ->. rewrite Hs. exists c. now left.
  - destruct (memp p seen) eqn:Mp.
    + exact (IH seen q c Hin Hs).
    + destruct (Nat.eq_dec q p) as [->|Hne].
      * exists c0. now left.
      * destruct (IH (p :: seen) q c Hin) as [c' Hc'].
        { unfold memp in *. simpl. rewrite Hs. rewrite (proj2 (Nat.eqb_neq q p) Hne). reflexivity. }
        exists c'. now right.
Qed.

(* ------------------------------------------------------------------ the invariant *)
Definition snap_root (s : snapshot) : option contents :=
  match s with (_, c) :: _ => Some c | [] => None end.

Definition entry_ok (e : entry) : Prop :=
  e_deps e = deps_of (e_snap e)
  /\ (exists n fs0, expand n fs0 root = Some (e_snap e))
  /\ (exists r, root_of (e_key e) = Some r /\ snap_root (e_snap e) = Some r).

Definition cache_ok (cache : cacheT) : Prop := Forall entry_ok cache.

Lemma reuse_current cache fs r k e :
  cache_ok cache -> fs_get fs root = Some r ->
  apply Fixed (length cache + 1) cache fs (key0 r) = Some k ->
  lookup k cache = Some e ->
  texp fs root (e_snap e).
Proof.
  intros Hok Hr Hap Hl.
  destruct (apply_result _ _ _ _ _ Hap) as [Hroot Hunch].
  specialize (Hunch e Hl). rewrite root_of_key0 in Hroot.
  destruct (lookup_some _ _ _ Hl) as [Hin Hk].
  unfold cache_ok in Hok. rewrite Forall_forall in Hok.
  destruct (Hok e Hin) as (Hdeps & (n & fs0 & Hexp) & (r0 & Hr0 & Hs0)).
  rewrite Hk, Hroot in Hr0. injection Hr0 as <-.
  apply (expand_sound fs n). apply (expand_stable fs0 fs n root _ Hexp).
  destruct (expand_head _ _ _ _ Hexp) as (c & ss & Es & Gc).
  pose proof (expand_pairs _ _ _ _ Hexp) as Hp0. rewrite Forall_forall in Hp0.
  rewrite Es in Hs0. simpl in Hs0. injection Hs0 as ->.
  apply Forall_forall. intros [q cq] Hq. simpl. rewrite Es in Hq. destruct Hq as [E|Hq].
  - injection E as <- <-. exact Hr.
  - assert (Hdd : exists c', In (q, c') (e_deps e)).
    { rewrite Hdeps, Es. unfold deps_of. simpl. apply (dedupe_in ss [] q cq Hq). reflexivity. }
    destruct Hdd as [c' Hc'].
    pose proof (changed_false _ _ Hunch q c' Hc') as Hnow.
    assert (Hin' : In (q, c') (e_snap e)).
    { rewrite Es. right. rewrite Hdeps, Es in Hc'. unfold deps_of in Hc'. simpl in Hc'.
      exact (dedupe_sub _ _ _ Hc'). }
    assert (Hin'' : In (q, cq) (e_snap e)) by (rewrite Es; now right).
    pose proof (Hp0 _ Hin') as A. pose proof (Hp0 _ Hin'') as B. simpl in A, B.
    rewrite A in B. injection B as <-. exact Hnow.
Qed.

Lemma build_ok cache fs cache' o :
  cache_ok cache -> build Fixed cache fs = (cache', o) ->
  cache_ok cache' /\ reflects_current fs o /\ (o = Failed -> current fs = None).
Proof.
  intros Hok. unfold build, current.
  destruct (fs_get fs root) as [r|] eqn:Hr.
  2:{ intros H. injection H as <- <-. split; [assumption|]. split; [exact I|]. intros _.
      destruct (length fs + 1) as [|n] eqn:E; [lia|]. simpl. now rewrite Hr. }
  destruct (apply Fixed (length cache + 1) cache fs (key0 r)) as [k|] eqn:Hap.
  2:{ exfalso. exact (apply_terminates _ _ _ Hap). }
  destruct (lookup k cache) as [e|] eqn:Hl.
  - intros H. injection H as <- <-. split; [assumption|]. split; [|discriminate].
    simpl. exact (reuse_current cache fs r k e Hok Hr Hap Hl).
  - destruct (expand (length fs + 1) fs root) as [s|] eqn:Hexp.
    + intros H. injection H as <- <-. split; [|split; [|discriminate]].
      * constructor; [|assumption]. unfold entry_ok. simpl. split; [reflexivity|]. split.
        { now exists (length fs + 1), fs. }
        destruct (apply_result _ _ _ _ _ Hap) as [Hroot _]. rewrite root_of_key0 in Hroot.
        destruct (expand_head _ _ _ _ Hexp) as (c & ss & Es & Gc).
        exists r. split; [assumption|]. rewrite Es. simpl. rewrite Hr in Gc. now injection Gc as ->.
      * simpl. exact (expand_sound fs _ _ _ Hexp).
    + intros H. injection H as <- <-. split; [assumption|]. split; [exact I | reflexivity].
Qed.

Lemma run_ok : forall h st,
  cache_ok (st_cache st) ->
  Forall (fun fo => reflects_current (fst fo) (snd fo) /\ (snd fo = Failed -> current (fst fo) = None))
         (run Fixed st h).
Proof.
  induction h as [|o h IH]; intros st Hok; simpl; [constructor|].
  destruct o as [p c|p|]; simpl.
  - apply IH. exact Hok.
  - apply IH. exact Hok.
  - destruct (build Fixed (st_cache st) (st_fs st)) as [cache' out] eqn:B.
    destruct (build_ok _ _ _ _ Hok B) as (Hok' & Hr & Hf).
    constructor; [split; assumption|]. apply IH. exact Hok'.
Qed.

Theorem build_runs_current h :
  Forall (fun fo => reflects_current (fst fo) (snd fo) /\ (snd fo = Failed -> current (fst fo) = None))
         (run Fixed init h).
Proof. apply run_ok. constructor. Qed.

(* the relation of the specification determines the texts: there is at most one *)
Lemma texp_functional fs : forall n p s s', expand n fs p = Some s -> texp fs p s' -> s = s'.
Proof.
  induction n as [|n IH]; intros p s s'; simpl; [discriminate|].
  destruct (fs_get fs p) as [c|] eqn:G; [|discriminate].
  destruct (expand_list (expand n fs) (incs c)) as [ss|] eqn:El; [|discriminate].
  intros H T. injection H as <-. inversion T as [p' c' ss' G' Ts]; subst.
  rewrite G in G'. injection G' as <-. f_equal.
  clear G T. revert ss ss' El Ts. induction (incs c) as [|q l IHl]; simpl; intros ss ss' El Ts.
  - injection El as <-. now inversion Ts.
  - destruct (expand n fs q) as [s|] eqn:Eq; [|discriminate].
    destruct (expand_list (expand n fs) l) as [ss0|] eqn:El0; [|discriminate].
    injection El as <-. inversion Ts as [|q' l' s1 ss1 T1 Ts1]; subst.
    rewrite (IH q s s1 Eq T1). rewrite (IHl ss0 ss1 eq_refl Ts1). reflexivity.
Qed.
