(* Extraction of the executable model and of the view.  ExtrOcamlBasic + ExtrOcamlString: Coq
   `string` becomes `char list` and `ascii` becomes `char` (names are data here, and an extracted
   type called `string` would shadow OCaml's in the shared helpers); Z stays the extracted
   inductive.  coqc runs from
   /verif/coq, so the path is relative to that directory. *)
From Coq Require Import Extraction ExtrOcamlBasic ExtrOcamlString.
From OV.C11 Require Import Model Spec.
Extraction Language OCaml.
Extraction "../_work/extract/C11/model.ml"
  repaired pinned mk_leaf mk_named tuple_of add_field add_enumerator register copy relabel
  getBuiltin g_none g_memory builtin_map toJson fromJson dump canBeCastedTo view_of
  arg_toJson arg_fromJson k_toJson k_fromJson jget jset kv_get d_name d_bytes self
  cast_ruleb.
