(* C11 — proofs, part 2: normal forms of the JSON objects toJson builds, what fromJson reads
   from them, and: the fuel fromJson supplies (jdepth j + 1) is enough — any two amounts of fuel
   above jdepth j give the same result. *)
From Coq Require Import List ZArith Bool String Ascii Lia.
From OV.C11 Require Import Model Spec Statements.
Import ListNotations.
Local Open Scope Z_scope.
Local Open Scope string_scope.

Lemma builtin_json_nf : forall h,
  builtin_json h = JObj [("name", JStr (h_name h)); ("type", JStr "builtin")].
Proof. reflexivity. Qed.

Lemma custom_json_nf : forall h,
  custom_json h = JObj [("bytes", JInt (h_bytes h)); ("name", JStr (h_name h)); ("type", JStr "custom")].
Proof. reflexivity. Qed.

Lemma field_json_nf : forall n dj, field_json n dj = JObj [("dtype", dj); ("name", JStr n)].
Proof. reflexivity. Qed.

(* ---- fromJson on each of toJson's shapes ---- *)
Lemma fromJson_builtin : forall v n p h,
  fromJson_n v (S n) p (builtin_json h) =
  (if is_none_obj (getBuiltin (h_name h)) then None else Some (copy (getBuiltin (h_name h)))).
Proof. reflexivity. Qed.

Lemma fromJson_custom : forall v n p h,
  fromJson_n v (S n) p (custom_json h) = Some (DLeaf (mkH p (h_name h) (h_bytes h) false)).
Proof. reflexivity. Qed.

Lemma fromJson_struct : forall v n p nm l,
  fromJson_n v (S n) p (fields_json "struct" nm l) =
  match fields_loop (fromJson_n v n) p 0 l [] with
  | Some fs => Some (DStruct (mkH p nm (if v_from_bytes v then sum_bytes fs else 0) false) fs)
  | None => None
  end.
Proof.
  intros. unfold fields_json, jset_name. destruct (String.eqb nm "") eqn:E.
  - apply String.eqb_eq in E. subst nm. reflexivity.
  - reflexivity.
Qed.

Lemma fromJson_union : forall v n p nm l,
  fromJson_n v (S n) p (fields_json "union" nm l) =
  match fields_loop (fromJson_n v n) p 0 l [] with
  | Some fs => Some (DUnion (mkH p nm (if v_from_bytes v then sum_bytes fs else 0) false) fs)
  | None => None
  end.
Proof.
  intros. unfold fields_json, jset_name. destruct (String.eqb nm "") eqn:E.
  - apply String.eqb_eq in E. subst nm. reflexivity.
  - reflexivity.
Qed.

Lemma fromJson_tuple : forall v n p nm ej s,
  fromJson_n v (S n) p (tuple_json nm ej s) =
  match fromJson_n v n (p ++ [0])%list ej with
  | Some e => Some (DTuple (mkH p nm (if v_from_bytes v then d_bytes e * s else 0) false) (copy e) s)
  | None => None
  end.
Proof.
  intros. unfold tuple_json, jset_name. destruct (String.eqb nm "") eqn:E.
  - apply String.eqb_eq in E. subst nm. reflexivity.
  - reflexivity.
Qed.

Lemma fromJson_enum : forall v n p nm ns,
  fromJson_n v (S n) p (enum_json nm ns) =
  match enum_names (map (fun n => jset "name" (JStr n) JNone) ns) [] with
  | Some ns' => Some (DEnum (mkH p nm 0 false) ns')
  | None => None
  end.
Proof.
  intros. unfold enum_json, jset_name. destruct (String.eqb nm "") eqn:E.
  - apply String.eqb_eq in E. subst nm. reflexivity.
  - reflexivity.
Qed.

(* ---- fuel ---- *)
Lemma fold_max_in : forall (kv : list (string * json)) k x,
  In (k, x) kv -> (jdepth x <= fold_right (fun kx m => Nat.max (jdepth (snd kx)) m) O kv)%nat.
Proof.
  induction kv as [|[k' x'] kv IH]; cbn; intros k x H; [contradiction|].
  destruct H as [H|H].
  - inversion H; subst. apply Nat.le_max_l.
  - etransitivity; [eapply IH; eauto | apply Nat.le_max_r].
Qed.

Lemma fold_max_in_arr : forall (l : list json) x,
  In x l -> (jdepth x <= fold_right (fun x m => Nat.max (jdepth x) m) O l)%nat.
Proof.
  induction l as [|y l IH]; cbn; intros x H; [contradiction|].
  destruct H as [H|H].
  - subst. apply Nat.le_max_l.
  - etransitivity; [eapply IH; eauto | apply Nat.le_max_r].
Qed.

Lemma kv_get_in : forall k kv v, kv_get k kv = Some v -> exists k', In (k', v) kv.
Proof.
  induction kv as [|[k' x] kv IH]; cbn; intros v H; try discriminate.
  destruct (String.eqb k k').
  - inversion H; subst. eexists. left. reflexivity.
  - destruct (IH _ H) as [k'' Hin]. eexists. right. exact Hin.
Qed.

Lemma jget_depth : forall k j, (jdepth (jget k j) <= pred (jdepth j))%nat.
Proof.
  intros k j. destruct j; cbn; try lia.
  destruct (kv_get k kv) eqn:E; cbn; try lia.
  destruct (kv_get_in _ _ _ E) as [k' Hin]. eapply fold_max_in; eauto.
Qed.

Lemma j_array_depth : forall j x, In x (j_array j) -> (jdepth x <= pred (jdepth j))%nat.
Proof.
  intros j x H. destruct j; cbn in *; try contradiction.
  apply fold_max_in_arr. exact H.
Qed.

Lemma fields_loop_ext : forall rec1 rec2 p l i acc,
  (forall x q, In x l -> rec1 q (jget "dtype" x) = rec2 q (jget "dtype" x)) ->
  fields_loop rec1 p i l acc = fields_loop rec2 p i l acc.
Proof.
  induction l as [|fj l IH]; intros i acc H; cbn [fields_loop]; [reflexivity|].
  destruct (jhas "dtype" fj && jhas "name" fj && j_isString (jget "name" fj)); [|reflexivity].
  rewrite (H fj (p ++ [i])%list (or_introl eq_refl)).
  destruct (rec2 (p ++ [i])%list (jget "dtype" fj)); [|reflexivity].
  destruct (has_field (j_toString (jget "name" fj)) acc); [reflexivity|].
  apply IH. intros x q Hin. apply H. right. exact Hin.
Qed.

Lemma fuel_enough : forall v n m p j,
  (jdepth j < n)%nat -> (jdepth j < m)%nat -> fromJson_n v n p j = fromJson_n v m p j.
Proof.
  intros v. induction n as [|n IH]; intros m p j Hn Hm; [lia|].
  destruct m as [|m]; [lia|].
  destruct j as [| | | | l |kv]; try reflexivity.
  assert (H1 : (1 <= jdepth (JObj kv))%nat) by (cbn [jdepth]; lia).
  set (j := JObj kv) in *.
  assert (Hd : forall k, (jdepth (jget k j) < n)%nat /\ (jdepth (jget k j) < m)%nat).
  { intro k. pose proof (jget_depth k j). lia. }
  assert (Hf : forall x, In x (j_array (jget "fields" j)) ->
                 (jdepth (jget "dtype" x) < n)%nat /\ (jdepth (jget "dtype" x) < m)%nat).
  { intros x Hin. pose proof (j_array_depth _ _ Hin). pose proof (jget_depth "dtype" x).
    pose proof (jget_depth "fields" j). lia. }
  cbn [fromJson_n].
  rewrite (fields_loop_ext (fromJson_n v n) (fromJson_n v m) p (j_array (jget "fields" j)) 0 []).
  2:{ intros x q Hin. destruct (Hf x Hin). apply IH; assumption. }
  rewrite (IH m (p ++ [0])%list (jget "dtype" j)) by apply Hd.
  reflexivity.
Qed.
