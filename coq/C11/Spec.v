(* C11 — what the property compares.

   `view_of d` is everything the statement says a round trip must preserve: the kind of the
   dtype, its name, its byte size, the field names in declaration order, the enumerator names,
   the tuple size and, recursively, the element types.  It deliberately forgets addresses, the
   `registered` flag and whether an object is held directly or through a reference.
   `equiv a b` is "same view".

   The cast rule is stated declaratively on the flattened element lists (`cast_rule`): either
   side is the wildcard `byte`, or the lists are equal, or one is a whole number (>= 1) of
   repetitions of the other.  `cast_ruleb` is its executable form (used as oracle by C10). *)
From Coq Require Import List ZArith Bool String.
From OV.C11 Require Import Model.
Import ListNotations.
Local Open Scope Z_scope.

Inductive view : Type :=
| VBuiltin (name : string) (bytes : Z)      (* one of the library's global builtin objects *)
| VCustom (name : string) (bytes : Z)
| VEnum (name : string) (bytes : Z) (enumerators : list string)
| VStruct (name : string) (bytes : Z) (fields : list (string * view))
| VTuple (name : string) (bytes : Z) (elem : view) (size : Z)
| VUnion (name : string) (bytes : Z) (fields : list (string * view)).

Fixpoint view_of (d : dtype) : view :=
  match d with
  | DRef t => view_of t
  | DLeaf h => if is_builtin_obj h then VBuiltin (h_name h) (h_bytes h)
               else VCustom (h_name h) (h_bytes h)
  | DEnum h ns => VEnum (h_name h) (h_bytes h) ns
  | DStruct h fs => VStruct (h_name h) (h_bytes h) (map (fun nf => (fst nf, view_of (snd nf))) fs)
  | DTuple h e s => VTuple (h_name h) (h_bytes h) (view_of e) s
  | DUnion h fs => VUnion (h_name h) (h_bytes h) (map (fun nf => (fst nf, view_of (snd nf))) fs)
  end.

Definition equiv (a b : dtype) : Prop := view_of a = view_of b.

(* argument metadata: same flags, same name, equivalent dtype *)
Definition arg_equiv (a b : argmeta) : Prop :=
  a_const a = a_const b /\ a_ptr a = a_ptr b /\ a_name a = a_name b /\ equiv (a_dtype a) (a_dtype b).

Definition kmeta_equiv (a b : kmeta) : Prop :=
  k_name a = k_name b /\ Forall2 arg_equiv (k_args a) (k_args b).

(* ---- the cast rule ---- *)
Definition repeats (small big : list ident) : Prop :=
  small <> [] /\ exists k : nat, (1 <= k)%nat /\ big = List.concat (repeat small k).

Definition cast_rule (from to : dtype) : Prop :=
  is_byte_obj from = true \/ is_byte_obj to = true \/
  flat from = flat to \/ repeats (flat from) (flat to) \/ repeats (flat to) (flat from).

Fixpoint ids_eqb (a b : list ident) : bool :=
  match a, b with
  | [], [] => true
  | x :: a', y :: b' => ident_eqb x y && ids_eqb a' b'
  | _, _ => false
  end.

Definition repeatsb (small big : list ident) : bool :=
  match small, big with
  | [], _ | _, [] => false
  | _, _ => ids_eqb big (List.concat (repeat small (Nat.div (List.length big) (List.length small))))
  end.

Definition cast_ruleb (from to : dtype) : bool :=
  is_byte_obj from || is_byte_obj to ||
  ids_eqb (flat from) (flat to) || repeatsb (flat from) (flat to) || repeatsb (flat to) (flat from).
