(* C11 — proofs, part 3: the round trip, by induction on the dtype. *)
From Coq Require Import List ZArith Bool String Ascii Lia.
From OV.C11 Require Import Model Spec Statements Globals JsonFacts.
Import ListNotations.
Local Open Scope Z_scope.

(* what the induction carries about the reconstructed dtype d' *)
Definition rt_post (nm : string) (d d' : dtype) : Prop :=
  (names_kept nm d = true -> bytes_derived d = true -> view_of d' = view_of d) /\
  (builtin_leaves d -> flat d' = flat d) /\
  is_byte_obj d' = is_byte_obj d /\
  is_ref (self d') = false.

Definition vbytes (v : view) : Z :=
  match v with
  | VBuiltin _ b | VCustom _ b | VEnum _ b _ | VStruct _ b _ | VTuple _ b _ _ | VUnion _ b _ => b
  end.

Lemma d_bytes_view : forall d, is_ref (self d) = false -> d_bytes d = vbytes (view_of d).
Proof.
  intros d H. unfold d_bytes. destruct d as [t| | | | |]; cbn in *;
    try reflexivity; try (destruct (is_builtin_obj h); reflexivity).
  destruct t; cbn in *; try discriminate; try reflexivity.
  destruct (is_builtin_obj h); reflexivity.
Qed.

Lemma wf_self_nonref : forall d, wf d -> is_ref (self d) = false.
Proof.
  intros d H. destruct H; cbn; auto.
  destruct (global_prop _ H) as [E|(_ & _ & _ & Hr & _)].
  - subst. reflexivity.
  - destruct g; cbn in *; auto; discriminate.
Qed.

(* ---- copy ---- *)
Lemma copy_cases : forall d, copy d = DRef (self d) \/ copy d = self d.
Proof. intro d. unfold copy. destruct (h_reg (hdr_of (self d))); auto. Qed.

Lemma view_self : forall d, view_of (self d) = view_of d.
Proof. destruct d; reflexivity. Qed.

Lemma flat_self : forall d, flat (self d) = flat d.
Proof. destruct d; reflexivity. Qed.

Lemma view_copy : forall d, view_of (copy d) = view_of d.
Proof. intro d. destruct (copy_cases d) as [E|E]; rewrite E; cbn; apply view_self. Qed.

Lemma flat_copy : forall d, flat (copy d) = flat d.
Proof. intro d. destruct (copy_cases d) as [E|E]; rewrite E; cbn; apply flat_self. Qed.

Lemma self_copy : forall d, is_ref (self d) = false -> self (copy d) = self d.
Proof.
  intros d H. destruct (copy_cases d) as [E|E]; rewrite E; cbn; auto.
  destruct (self d); cbn in *; auto; discriminate.
Qed.

Lemma d_bytes_copy : forall d, is_ref (self d) = false -> d_bytes (copy d) = d_bytes d.
Proof. intros d H. unfold d_bytes. rewrite self_copy by assumption. reflexivity. Qed.

(* ---- small list facts ---- *)
Lemma has_field_false : forall n (acc : list (string * dtype)),
  ~ In n (map fst acc) -> has_field n acc = false.
Proof.
  intros n acc H. unfold has_field.
  induction acc as [|[k v] acc IH]; cbn in *; [reflexivity|].
  destruct (String.eqb n k) eqn:E.
  - apply String.eqb_eq in E. subst. exfalso. apply H. auto.
  - apply IH. intro Hin. apply H. auto.
Qed.

Lemma str_in_false : forall n (acc : list string), ~ In n acc -> str_in n acc = false.
Proof.
  intros n acc H. unfold str_in. induction acc as [|k acc IH]; cbn in *; [reflexivity|].
  destruct (String.eqb n k) eqn:E.
  - apply String.eqb_eq in E. subst. exfalso. apply H. auto.
  - apply IH. intro Hin. apply H. auto.
Qed.

Lemma NoDup_app_mid : forall (A : Type) (a : list A) x b,
  NoDup (a ++ x :: b) -> ~ In x a /\ NoDup ((a ++ [x]) ++ b).
Proof.
  intros A a x b H. split.
  - apply NoDup_remove_2 in H. intro Hin. apply H. apply in_or_app. auto.
  - rewrite <- app_assoc. exact H.
Qed.

Lemma enum_names_rt : forall ns acc,
  NoDup (acc ++ ns) ->
  enum_names (map (fun n => jset "name"%string (JStr n) JNone) ns) acc = Some (acc ++ ns)%list.
Proof.
  induction ns as [|n ns IH]; intros acc H; cbn [map enum_names].
  - rewrite app_nil_r. reflexivity.
  - change (jhas "name"%string (jset "name"%string (JStr n) JNone)) with true.
    change (jget "name"%string (jset "name"%string (JStr n) JNone)) with (JStr n).
    cbn [andb j_isString j_toString].
    destruct (NoDup_app_mid _ _ _ _ H) as [Hn Hd].
    rewrite (str_in_false _ _ Hn). rewrite IH by exact Hd. rewrite <- app_assoc. reflexivity.
Qed.

Lemma fold_left_sum_ext : forall (l l' : list (string * dtype)),
  Forall2 (fun a b => d_bytes (snd a) = d_bytes (snd b)) l l' ->
  forall z, fold_left (fun a nf => a + d_bytes (snd nf)) l z =
            fold_left (fun a nf => a + d_bytes (snd nf)) l' z.
Proof.
  induction 1 as [|a b l l' Hab _ IH]; intro z; cbn; [reflexivity|]. rewrite Hab. apply IH.
Qed.

Lemma height_in : forall (fs : list (string * dtype)) nf,
  In nf fs -> (height (snd nf) <= fold_right (fun nf m => Nat.max (height (snd nf)) m) O fs)%nat.
Proof.
  induction fs as [|a fs IH]; cbn; intros nf H; [contradiction|].
  destruct H as [H|H].
  - subst. apply Nat.le_max_l.
  - etransitivity; [apply IH; exact H | apply Nat.le_max_r].
Qed.

(* ---- the loop of struct / union fromJson over toJson's field array ---- *)
Definition field_rt (nf nf' : string * dtype) : Prop :=
  fst nf' = fst nf /\ exists d', snd nf' = copy d' /\ rt_post EmptyString (snd nf) d'.

Lemma fields_loop_rt : forall (rec : ident -> json -> option dtype) p fs i acc,
  user_prefix p = true ->
  Forall (fun nf => forall q, user_prefix q = true ->
            exists d', rec q (toJson repaired (snd nf) EmptyString) = Some d' /\ rt_post EmptyString (snd nf) d') fs ->
  NoDup (map fst acc ++ map fst fs) ->
  exists fs',
    fields_loop rec p i
      (map (fun nf => field_json (fst nf) (toJson repaired (snd nf) EmptyString)) fs) acc
    = Some (acc ++ fs')%list /\ Forall2 field_rt fs fs'.
Proof.
  intros rec p fs. induction fs as [|[n f] fs IH]; intros i acc Hp Hall Hnd.
  - exists []. cbn. rewrite app_nil_r. split; [reflexivity|constructor].
  - inversion Hall as [|? ? Hf Hrest]; subst. cbn [map fst snd fields_loop].
    destruct (Hf (p ++ [i])%list (user_prefix_app _ _ Hp)) as [d' [Hrec Hpost]].
    cbn [fst snd] in *.
    rewrite field_json_nf.
    change (jhas "dtype"%string (JObj [("dtype"%string, toJson repaired f EmptyString); ("name"%string, JStr n)])) with true.
    change (jhas "name"%string (JObj [("dtype"%string, toJson repaired f EmptyString); ("name"%string, JStr n)])) with true.
    change (jget "name"%string (JObj [("dtype"%string, toJson repaired f EmptyString); ("name"%string, JStr n)])) with (JStr n).
    change (jget "dtype"%string (JObj [("dtype"%string, toJson repaired f EmptyString); ("name"%string, JStr n)]))
      with (toJson repaired f EmptyString).
    cbn [andb j_isString j_toString]. rewrite Hrec.
    cbn [map fst] in Hnd. destruct (NoDup_app_mid _ _ _ _ Hnd) as [Hn Hd].
    rewrite (has_field_false _ _ Hn).
    destruct (IH (i + 1) (acc ++ [(n, copy d')])%list Hp Hrest) as [fs' [Hloop Hf2]].
    { rewrite map_app. cbn [map fst]. exact Hd. }
    exists ((n, copy d') :: fs'). split.
    + rewrite Hloop. rewrite <- app_assoc. reflexivity.
    + constructor; [|exact Hf2]. split; [reflexivity|]. exists d'. split; [reflexivity|exact Hpost].
Qed.

Lemma fields_view : forall fs fs',
  Forall2 field_rt fs fs' ->
  forallb (fun nf => names_kept EmptyString (snd nf)) fs = true ->
  forallb (fun nf => bytes_derived (snd nf)) fs = true ->
  map (fun nf => (fst nf, view_of (snd nf))) fs' = map (fun nf => (fst nf, view_of (snd nf))) fs.
Proof.
  induction 1 as [|nf nf' fs fs' [Hn [d' [Hc [Hv _]]]] _ IH]; cbn [forallb map]; intros Hnm Hby; [reflexivity|].
  apply andb_true_iff in Hnm. destruct Hnm as [Hnm1 Hnm2].
  apply andb_true_iff in Hby. destruct Hby as [Hby1 Hby2].
  rewrite (IH Hnm2 Hby2), Hn, Hc, view_copy, (Hv Hnm1 Hby1). reflexivity.
Qed.

Lemma fields_bytes : forall fs fs',
  Forall (fun nf => wf (snd nf)) fs -> Forall2 field_rt fs fs' ->
  forallb (fun nf => names_kept EmptyString (snd nf)) fs = true ->
  forallb (fun nf => bytes_derived (snd nf)) fs = true ->
  sum_bytes fs' = sum_bytes fs.
Proof.
  intros fs fs' Hwf H Hnm Hby. unfold sum_bytes. apply fold_left_sum_ext.
  induction H as [|nf nf' fs fs' [Hn [d' [Hc [Hv [_ [_ Hr]]]]]] _ IH]; [constructor|].
  cbn [forallb] in Hnm, Hby.
  apply andb_true_iff in Hnm. destruct Hnm as [Hnm1 Hnm2].
  apply andb_true_iff in Hby. destruct Hby as [Hby1 Hby2].
  inversion Hwf; subst. constructor; [|apply IH; assumption].
  rewrite Hc, d_bytes_copy by exact Hr.
  rewrite (d_bytes_view d') by exact Hr.
  rewrite (d_bytes_view (snd nf)) by (apply wf_self_nonref; assumption).
  rewrite (Hv Hnm1 Hby1). reflexivity.
Qed.

Lemma fields_flat : forall fs fs',
  Forall2 field_rt fs fs' ->
  Forall (fun i => is_bid i = true) (flat_map (fun nf => flat (snd nf)) fs) ->
  flat_map (fun nf => flat (snd nf)) fs' = flat_map (fun nf => flat (snd nf)) fs.
Proof.
  induction 1 as [|nf nf' fs fs' [Hn [d' [Hc [_ [Hfl _]]]]] _ IH]; cbn; intro Hb; [reflexivity|].
  apply Forall_app in Hb. destruct Hb as [Hb1 Hb2].
  rewrite IH by exact Hb2. rewrite Hc, flat_copy, (Hfl Hb1). reflexivity.
Qed.

