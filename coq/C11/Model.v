(* C11 — executable model of occa::dtype_t and its JSON form
   (src/dtype/dtype.cpp, src/dtype/builtins.cpp, include/occa/dtype/utils.hpp,
    src/occa/internal/lang/kernelMetadata.cpp).

   A dtype_t object is modelled as a value: the object graph reachable from it, with the
   address of every object abstracted as an identifier (`ident`).  `ref != NULL` (the object is
   a reference to a registered dtype) is `DRef target`.  An object carries at most one of
   enum_/struct_/tuple_/union_ (objects on which both addField and addEnumerator were called
   are not modelled).  Objects are immutable once they have been copied/referenced.

   The three places where the repaired source differs from the pinned one are parameters
   (`variant`), so that both are expressible:
     v_ref_bytes  : addField / tuple add `dtype.bytes()` (true) or the raw field `dtype.bytes_`,
                    which is 0 for a reference (false, pinned)
     v_from_bytes : fromJson recomputes bytes_ of struct/tuple/union (true) or leaves 0 (pinned)
     v_builtin_id : toJson recognises builtins by identity and before looking at the
                    structure (true) or by name, after the structure (pinned)
   No proofs in this file. *)
From Coq Require Import List ZArith Bool String Ascii DecimalString.
Import ListNotations.
Local Open Scope Z_scope.
Local Open Scope string_scope.

(* ------------------------------------------------------------------ JSON trees *)
(* occa::json: none_ (uninitialised / missing key), number_ (a primitive: here integers and
   booleans), string_, array_, object_ (std::map, i.e. sorted by key, unique keys) *)
Inductive json : Type :=
| JNone
| JBool (b : bool)
| JInt (z : Z)
| JStr (s : string)
| JArr (l : list json)
| JObj (kv : list (string * json)).

Definition str_ltb (a b : string) : bool :=
  match String.compare a b with Lt => true | _ => false end.

(* std::map::operator[] = : insert keeping ascending key order, replace on equal key *)
Fixpoint kv_set (k : string) (v : json) (kv : list (string * json)) : list (string * json) :=
  match kv with
  | [] => [(k, v)]
  | (k', v') :: r =>
      if String.eqb k k' then (k, v) :: r
      else if str_ltb k k' then (k, v) :: kv
      else (k', v') :: kv_set k v r
  end.

Fixpoint kv_get (k : string) (kv : list (string * json)) : option json :=
  match kv with
  | [] => None
  | (k', v) :: r => if String.eqb k k' then Some v else kv_get k r
  end.

(* j[key] = v on a json that is none_ or an object *)
Definition jset (k : string) (v : json) (j : json) : json :=
  match j with
  | JObj kv => JObj (kv_set k v kv)
  | _ => JObj [(k, v)]
  end.

(* const operator[]: the static default (none_) when absent or not an object *)
Definition jget (k : string) (j : json) : json :=
  match j with
  | JObj kv => match kv_get k kv with Some v => v | None => JNone end
  | _ => JNone
  end.

Definition jhas (k : string) (j : json) : bool :=
  match j with
  | JObj kv => match kv_get k kv with Some _ => true | None => false end
  | _ => false
  end.

Definition j_isArray (j : json) : bool := match j with JArr _ => true | _ => false end.
Definition j_isString (j : json) : bool := match j with JStr _ => true | _ => false end.
Definition j_isNumber (j : json) : bool := match j with JInt _ | JBool _ => true | _ => false end.
Definition j_array (j : json) : list json := match j with JArr l => l | _ => [] end.

(* (int) j *)
Definition j_int (j : json) : Z :=
  match j with JInt z => z | JBool b => if b then 1 else 0 | _ => 0 end.

(* (bool) j *)
Definition j_bool (j : json) : bool :=
  match j with
  | JInt z => negb (Z.eqb z 0)
  | JBool b => b
  | JStr s => negb (String.eqb s "")
  | JArr _ | JObj _ => true
  | JNone => false
  end.

Definition dec (z : Z) : string := NilZero.string_of_int (Z.to_int z).

Definition chr (n : nat) : string := String (ascii_of_nat n) EmptyString.

(* json::dumpToString for string_ *)
Fixpoint escape (s : string) : string :=
  match s with
  | EmptyString => EmptyString
  | String c r =>
      let n := nat_of_ascii c in
      (if Nat.eqb n 34 then "\" ++ chr 34
       else if Nat.eqb n 92 then "\\"
       else if Nat.eqb n 8 then "\b"
       else if Nat.eqb n 12 then "\f"
       else if Nat.eqb n 10 then "\n"
       else if Nat.eqb n 13 then "\r"
       else if Nat.eqb n 9 then "\t"
       else String c EmptyString) ++ escape r
  end.

Definition quote (s : string) : string := chr 34 ++ s ++ chr 34.

(* json::dump(0): no indentation, ", " between entries, keys printed unescaped *)
Fixpoint dump (j : json) : string :=
  match j with
  | JNone => ""
  | JBool b => if b then "true" else "false"
  | JInt z => dec z
  | JStr s => quote (escape s)
  | JArr l =>
      "[" ++ (fix go (l : list json) : string :=
                match l with
                | [] => ""
                | [x] => dump x
                | x :: r => dump x ++ ", " ++ go r
                end) l ++ "]"
  | JObj kv =>
      match kv with
      | [] => "{}"
      | _ =>
          "{" ++ (fix go (kv : list (string * json)) : string :=
                    match kv with
                    | [] => ""
                    | (k, x) :: r =>
                        quote k ++ ": " ++ (match x with JNone => "{}" | _ => dump x end)
                        ++ match r with [] => "" | _ => ", " ++ go r end
                    end) kv ++ "}"
      end
  end.

(* json::toString *)
Definition j_toString (j : json) : string :=
  match j with JStr s => s | _ => dump j end.

(* ------------------------------------------------------------------ dtypes *)
Definition ident := list Z.

Fixpoint ident_eqb (a b : ident) : bool :=
  match a, b with
  | [], [] => true
  | x :: a', y :: b' => Z.eqb x y && ident_eqb a' b'
  | _, _ => false
  end.

(* the scalar members of a dtype_t object: (address), name_, bytes_, registered *)
Record hdr : Type := mkH { h_id : ident; h_name : string; h_bytes : Z; h_reg : bool }.

Inductive dtype : Type :=
| DRef (target : dtype)                                 (* ref != NULL *)
| DLeaf (h : hdr)                                       (* no enum_/struct_/tuple_/union_ *)
| DEnum (h : hdr) (names : list string)                 (* enum_  : enumeratorNames *)
| DStruct (h : hdr) (fields : list (string * dtype))    (* struct_: fieldNames + fieldTypes *)
| DTuple (h : hdr) (elem : dtype) (size : Z)            (* tuple_ : dtype, size *)
| DUnion (h : hdr) (fields : list (string * dtype)).    (* union_ *)

Definition empty_hdr : hdr := mkH [] "" 0 false.

Definition hdr_of (d : dtype) : hdr :=
  match d with
  | DRef _ => empty_hdr
  | DLeaf h | DEnum h _ | DStruct h _ | DTuple h _ _ | DUnion h _ => h
  end.

Definition set_hdr (h : hdr) (d : dtype) : dtype :=
  match d with
  | DRef t => DRef t
  | DLeaf _ => DLeaf h
  | DEnum _ n => DEnum h n
  | DStruct _ f => DStruct h f
  | DTuple _ e s => DTuple h e s
  | DUnion _ f => DUnion h f
  end.

(* dtype_t::self() *)
Definition self (d : dtype) : dtype := match d with DRef t => t | _ => d end.

Definition d_id (d : dtype) : ident := h_id (hdr_of (self d)).
Definition d_name (d : dtype) : string := h_name (hdr_of (self d)).     (* name()  *)
Definition d_bytes (d : dtype) : Z := h_bytes (hdr_of (self d)).        (* bytes() *)
Definition d_registered (d : dtype) : bool := h_reg (hdr_of (self d)).  (* isRegistered() *)
(* the raw member bytes_ of the object itself: cleared to 0 in a reference *)
Definition raw_bytes (d : dtype) : Z := h_bytes (hdr_of d).

(* ---- the global builtin objects (src/dtype/builtins.cpp); sizes are those of LP64 ---- *)
Definition gid (k : Z) : ident := [-1; k].
Definition gleaf (k : Z) (name : string) (bytes : Z) : dtype := DLeaf (mkH (gid k) name bytes true).

Definition g_none   := gleaf 0 "none" 0.
Definition g_void   := gleaf 1 "void" 0.
Definition g_byte   := gleaf 2 "byte" 1.
Definition g_bool   := gleaf 3 "bool" 1.
Definition g_char   := gleaf 4 "char" 1.
Definition g_short  := gleaf 5 "short" 2.
Definition g_int    := gleaf 6 "int" 4.
Definition g_long   := gleaf 7 "long" 8.
Definition g_float  := gleaf 8 "float" 4.
Definition g_double := gleaf 9 "double" 8.
Definition g_memory := gleaf 10 "occa::memory" 0.   (* not in getBuiltin's map *)

(* const dtype_t float2("float2", dtype_t::tuple(float_, 2), true): the tuple holds a copy of
   the registered element, i.e. a reference to it; bytes = elem.bytes_ * n with the global
   itself as argument *)
Definition gvec (k : Z) (name : string) (base : dtype) (n : Z) : dtype :=
  DTuple (mkH (gid k) name (h_bytes (hdr_of base) * n) true) (DRef base) n.

Definition vec_bases : list (string * dtype) :=
  [("uchar", g_char); ("char", g_char); ("ushort", g_short); ("short", g_short);
   ("uint", g_int); ("int", g_int); ("ulong", g_long); ("long", g_long);
   ("float", g_float); ("double", g_double)].

Fixpoint vec_globals (k : Z) (bs : list (string * dtype)) : list (string * dtype) :=
  match bs with
  | [] => []
  | (nm, b) :: r =>
      (nm ++ "2", gvec k (nm ++ "2") b 2) ::
      (nm ++ "3", gvec (k + 1) (nm ++ "3") b 3) ::
      (nm ++ "4", gvec (k + 2) (nm ++ "4") b 4) :: vec_globals (k + 3) r
  end.

(* dtype_t::getBuiltin's map *)
Definition builtin_map : list (string * dtype) :=
  [("none", g_none); ("void", g_void); ("byte", g_byte); ("bool", g_bool); ("char", g_char);
   ("short", g_short); ("int", g_int); ("long", g_long); ("float", g_float);
   ("double", g_double);
   ("int8", g_char); ("uint8", g_char); ("int16", g_short); ("uint16", g_short);
   ("int32", g_int); ("uint32", g_int); ("int64", g_long); ("uint64", g_long)]
  ++ vec_globals 11 vec_bases.

Fixpoint assoc {A : Type} (k : string) (l : list (string * A)) : option A :=
  match l with
  | [] => None
  | (k', v) :: r => if String.eqb k k' then Some v else assoc k r
  end.

Definition getBuiltin (name : string) : dtype :=
  match assoc name builtin_map with Some g => g | None => g_none end.

Definition is_none_obj (d : dtype) : bool := ident_eqb (d_id d) (gid 0).
Definition is_byte_obj (d : dtype) : bool := ident_eqb (d_id d) (gid 2).

(* "this is the object getBuiltin(name_) returns and is not dtype::none" *)
Definition is_builtin_obj (h : hdr) : bool :=
  negb (ident_eqb (h_id h) (gid 0)) && ident_eqb (h_id h) (d_id (getBuiltin (h_name h))).

(* ---- variants of the source ---- *)
Record variant : Type := mkV { v_ref_bytes : bool; v_from_bytes : bool; v_builtin_id : bool }.
Definition repaired : variant := mkV true true true.
Definition pinned : variant := mkV false false false.

(* ---- the construction API ---- *)
(* operator= into a fresh object / the copy constructor: a registered source is referenced,
   anything else is cloned (the clone's addresses are assigned by `relabel`) *)
Definition copy (d : dtype) : dtype :=
  let o := self d in
  if h_reg (hdr_of o) then DRef o else o.

(* the byte count addField / tuple take from their argument *)
Definition arg_bytes (v : variant) (d : dtype) : Z :=
  if v_ref_bytes v then d_bytes d else raw_bytes d.

(* dtype_t(name, bytes, registered) *)
Definition mk_leaf (name : string) (bytes : Z) (reg : bool) : dtype :=
  DLeaf (mkH [] name bytes reg).

(* dtype_t(name, other, registered) *)
Definition mk_named (name : string) (other : dtype) (reg : bool) : dtype :=
  match copy other with
  | DRef t => DRef t
  | o => let h := hdr_of o in set_hdr (mkH (h_id h) name (h_bytes h) reg) o
  end.

(* dtype_t::tuple(dtype, size, registered) *)
Definition tuple_of (v : variant) (d : dtype) (size : Z) (reg : bool) : dtype :=
  DTuple (mkH [] "" (arg_bytes v d * size) reg) (copy d) size.

Definition has_field (f : string) (fs : list (string * dtype)) : bool :=
  match assoc f fs with Some _ => true | None => false end.

(* dtype_t::addField(field, dtype, tupleSize); None = occa::exception *)
Definition add_field (v : variant) (obj : dtype) (f : string) (d : dtype) (n : Z) : option dtype :=
  if Z.leb n 0 then None else
  let fv := if Z.eqb n 1 then copy d else copy (tuple_of v d n false) in
  let grow h := mkH (h_id h) (h_name h) (h_bytes h + arg_bytes v d * n) (h_reg h) in
  match obj with
  | DUnion h fs => if has_field f fs then None else Some (DUnion (grow h) (fs ++ [(f, fv)])%list)
  | DLeaf h => Some (DStruct (grow h) [(f, fv)])
  | DStruct h fs => if has_field f fs then None else Some (DStruct (grow h) (fs ++ [(f, fv)])%list)
  | _ => None
  end.

Definition str_in (s : string) (l : list string) : bool := existsb (String.eqb s) l.

(* dtype_t::addEnumerator *)
Definition add_enumerator (obj : dtype) (e : string) : option dtype :=
  match obj with
  | DLeaf h => Some (DEnum h [e])
  | DEnum h ns => if str_in e ns then None else Some (DEnum h (ns ++ [e])%list)
  | _ => None
  end.

(* dtype_t::registerType *)
Definition register (obj : dtype) : option dtype :=
  match obj with
  | DRef _ => None
  | o => let h := hdr_of o in Some (set_hdr (mkH (h_id h) (h_name h) (h_bytes h) true) o)
  end.

(* give the objects of a freshly built value their addresses: p, p++[i], ...; referenced
   (registered) objects keep theirs *)
Fixpoint relabel (p : ident) (d : dtype) : dtype :=
  let re h := mkH p (h_name h) (h_bytes h) (h_reg h) in
  match d with
  | DRef t => DRef t
  | DLeaf h => DLeaf (re h)
  | DEnum h ns => DEnum (re h) ns
  | DStruct h fs =>
      DStruct (re h)
        ((fix go (i : Z) (fs : list (string * dtype)) : list (string * dtype) :=
            match fs with
            | [] => []
            | (n, f) :: r => (n, relabel (p ++ [i])%list f) :: go (i + 1) r
            end) 0 fs)
  | DTuple h e s => DTuple (re h) (relabel (p ++ [0])%list e) s
  | DUnion h fs =>
      DUnion (re h)
        ((fix go (i : Z) (fs : list (string * dtype)) : list (string * dtype) :=
            match fs with
            | [] => []
            | (n, f) :: r => (n, relabel (p ++ [i])%list f) :: go (i + 1) r
            end) 0 fs)
  end.

(* ---- toJson ---- *)
Definition jset_name (name : string) (j : json) : json :=
  if String.eqb name "" then j else jset "name" (JStr name) j.

Definition builtin_json (h : hdr) : json :=
  jset "name" (JStr (h_name h)) (jset "type" (JStr "builtin") (JObj [])).

Definition custom_json (h : hdr) : json :=
  jset "bytes" (JInt (h_bytes h)) (jset "name" (JStr (h_name h)) (jset "type" (JStr "custom") (JObj []))).

(* one entry of "fields": fieldJson["dtype"] = ...; fieldJson["name"] = fieldName *)
Definition field_json (name : string) (dj : json) : json :=
  jset "name" (JStr name) (jset "dtype" dj JNone).

Definition fields_json (kind : string) (name : string) (fields : list json) : json :=
  jset "fields" (JArr fields) (jset_name name (jset "type" (JStr kind) (JObj []))).

Definition enum_json (name : string) (ns : list string) : json :=
  jset "enumerators" (JArr (map (fun n => jset "name" (JStr n) JNone) ns))
       (jset_name name (jset "type" (JStr "enum") (JObj []))).

Definition tuple_json (name : string) (ej : json) (size : Z) : json :=
  jset "size" (JInt size) (jset "dtype" ej (jset_name name (jset "type" (JStr "tuple") (JObj [])))).

(* dtype_t::toJson(j, name) with the per-kind toJson inlined; nested dtypes are serialised by
   dtype::toJson(dtype), i.e. with name = "" *)
Fixpoint toJson (v : variant) (d : dtype) (name : string) : json :=
  match d with
  | DRef t => toJson v t name
  | DLeaf h =>
      if v_builtin_id v
      then (if is_builtin_obj h then builtin_json h else custom_json h)
      else (if is_none_obj (getBuiltin (h_name h)) then custom_json h else builtin_json h)
  | DEnum h ns =>
      if v_builtin_id v && is_builtin_obj h then builtin_json h else enum_json name ns
  | DStruct h fs =>
      if v_builtin_id v && is_builtin_obj h then builtin_json h
      else fields_json "struct" name (map (fun nf => field_json (fst nf) (toJson v (snd nf) "")) fs)
  | DTuple h e s =>
      if v_builtin_id v && is_builtin_obj h then builtin_json h
      else tuple_json name (toJson v e "") s
  | DUnion h fs =>
      if v_builtin_id v && is_builtin_obj h then builtin_json h
      else fields_json "union" name (map (fun nf => field_json (fst nf) (toJson v (snd nf) "")) fs)
  end.

(* ---- fromJson ---- *)
Fixpoint jdepth (j : json) : nat :=
  match j with
  | JArr l => S (fold_right (fun x m => Nat.max (jdepth x) m) O l)
  | JObj kv => S (fold_right (fun kx m => Nat.max (jdepth (snd kx)) m) O kv)
  | _ => O
  end.

(* dtypeEnum_t::fromJson's loop *)
Fixpoint enum_names (l : list json) (acc : list string) : option (list string) :=
  match l with
  | [] => Some acc
  | e :: r =>
      if jhas "name" e && j_isString (jget "name" e)
      then let n := j_toString (jget "name" e) in
           if str_in n acc then None else enum_names r (acc ++ [n])%list
      else None
  end.

Definition sum_bytes (fs : list (string * dtype)) : Z :=
  fold_left (fun a nf => a + d_bytes (snd nf)) fs 0.

(* the loop of dtypeStruct_t::fromJson / dtypeUnion_t::fromJson; `rec` is dtype_t::fromJson *)
Fixpoint fields_loop (rec : ident -> json -> option dtype) (p : ident) (i : Z) (l : list json)
         (acc : list (string * dtype)) : option (list (string * dtype)) :=
  match l with
  | [] => Some acc
  | fj :: r =>
      if jhas "dtype" fj && jhas "name" fj && j_isString (jget "name" fj) then
        match rec (p ++ [i])%list (jget "dtype" fj) with
        | Some fd =>
            let fname := j_toString (jget "name" fj) in
            if has_field fname acc then None
            else fields_loop rec p (i + 1) r (acc ++ [(fname, copy fd)])%list
        | None => None
        end
      else None
  end.

(* dtype_t::fromJson(const json&); None = occa::exception.  `p` is the address given to the
   object created, p++[i] those of its fields.  The recursion is on explicit fuel; fromJson
   below supplies jdepth j + 1, which always suffices (Proofs.fuel_enough). *)
Fixpoint fromJson_n (v : variant) (n : nat) (p : ident) (j : json) : option dtype :=
  match n with
  | O => None
  | S n' =>
      let type := j_toString (jget "type" j) in
      let name := j_toString (jget "name" j) in
      if String.eqb type "builtin" then
        let g := getBuiltin name in
        if is_none_obj g then None else Some (copy g)
      else if String.eqb type "enum" then
        if jhas "enumerators" j && j_isArray (jget "enumerators" j) then
          match enum_names (j_array (jget "enumerators" j)) [] with
          | Some ns => Some (DEnum (mkH p name 0 false) ns)
          | None => None
          end
        else None
      else if String.eqb type "struct" || String.eqb type "union" then
        if jhas "fields" j && j_isArray (jget "fields" j) then
          match fields_loop (fromJson_n v n') p 0 (j_array (jget "fields" j)) [] with
          | Some fs =>
              let h := mkH p name (if v_from_bytes v then sum_bytes fs else 0) false in
              Some (if String.eqb type "struct" then DStruct h fs else DUnion h fs)
          | None => None
          end
        else None
      else if String.eqb type "tuple" then
        if jhas "dtype" j && jhas "size" j && j_isNumber (jget "size" j) then
          match fromJson_n v n' (p ++ [0])%list (jget "dtype" j) with
          | Some e =>
              let size := j_int (jget "size" j) in
              Some (DTuple (mkH p name (if v_from_bytes v then d_bytes e * size else 0) false)
                           (copy e) size)
          | None => None
          end
        else None
      else if String.eqb type "custom" then
        Some (DLeaf (mkH p name (j_int (jget "bytes" j)) false))
      else None
  end.

Definition fromJson (v : variant) (p : ident) (j : json) : option dtype :=
  fromJson_n v (S (jdepth j)) p j.

(* ---- flattening and casting ---- *)
(* addFlatDtypes: the addresses of the leaf objects, in order *)
Fixpoint flat (d : dtype) : list ident :=
  match d with
  | DRef t => flat t
  | DLeaf h => [h_id h]
  | DEnum h _ => [h_id h]
  | DStruct _ fs => flat_map (fun nf => flat (snd nf)) fs
  | DTuple _ e n => List.concat (repeat (flat e) (Z.to_nat n))
  | DUnion _ fs => flat_map (fun nf => flat (snd nf)) fs
  end.

Definition nth_id (i : nat) (l : list ident) : ident := nth i l [].

(* dtype_t::isCyclic(vec, cycleLength); None = integer division by zero (SIGFPE) *)
Definition isCyclic (vec : list ident) (cycleLength : nat) : option bool :=
  let size := List.length vec in
  match cycleLength with
  | O => None
  | _ =>
      if negb (Nat.eqb (Nat.modulo size cycleLength) 0) then Some false
      else
        let cycles := Nat.div size cycleLength in
        Some (forallb (fun i =>
                forallb (fun c => ident_eqb (nth_id i vec) (nth_id (i + c * cycleLength) vec))
                        (seq 1 (cycles - 1)))
              (seq 0 cycleLength))
  end.

Definition prefix_eq (entries : nat) (a b : list ident) : bool :=
  forallb (fun i => ident_eqb (nth_id i a) (nth_id i b)) (seq 0 entries).

(* canBeCastedTo on the flattened vectors *)
Definition castv (fromVec toVec : list ident) : option bool :=
  let fe := List.length fromVec in
  let te := List.length toVec in
  if Nat.ltb fe te then
    match isCyclic toVec fe with
    | None => None
    | Some false => Some false
    | Some true => Some (prefix_eq fe fromVec toVec)
    end
  else if Nat.ltb te fe then
    match isCyclic fromVec te with
    | None => None
    | Some false => Some false
    | Some true => Some (prefix_eq te fromVec toVec)
    end
  else Some (prefix_eq fe fromVec toVec).

(* dtype_t::canBeCastedTo *)
Definition canBeCastedTo (from to : dtype) : option bool :=
  if is_byte_obj from || is_byte_obj to then Some true
  else castv (flat from) (flat to).

(* ---- argMetadata_t / kernelMetadata_t (kernelMetadata.cpp) ---- *)
Record argmeta : Type := mkArg { a_const : bool; a_ptr : bool; a_dtype : dtype; a_name : string }.
Record kmeta : Type := mkK { k_name : string; k_args : list argmeta }.

Definition arg_toJson (v : variant) (a : argmeta) : json :=
  jset "name" (JStr (a_name a))
    (jset "dtype" (toJson v (a_dtype a) "")
       (jset "ptr" (JBool (a_ptr a)) (jset "const" (JBool (a_const a)) JNone))).

Definition arg_fromJson (v : variant) (p : ident) (j : json) : option argmeta :=
  match fromJson v p (jget "dtype" j) with
  | Some d => Some (mkArg (j_bool (jget "const" j)) (j_bool (jget "ptr" j)) (copy d)
                          (j_toString (jget "name" j)))
  | None => None
  end.

Definition k_toJson (v : variant) (k : kmeta) : json :=
  jset "arguments" (JArr (map (arg_toJson v) (k_args k))) (jset "name" (JStr (k_name k)) JNone).

Fixpoint args_loop (v : variant) (p : ident) (i : Z) (l : list json) : option (list argmeta) :=
  match l with
  | [] => Some []
  | aj :: r =>
      match arg_fromJson v (p ++ [i])%list aj, args_loop v p (i + 1) r with
      | Some a, Some rest => Some (a :: rest)
      | _, _ => None
      end
  end.

Definition k_fromJson (v : variant) (p : ident) (j : json) : option kmeta :=
  match args_loop v p 0 (j_array (jget "arguments" j))
  with
  | Some args => Some (mkK (j_toString (jget "name" j)) args)
  | None => None
  end.
