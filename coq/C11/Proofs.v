(* C11 — proofs, part 5: the theorems of Properties_C11.v. *)
From Coq Require Import List ZArith Bool String Ascii Lia.
From OV.C11 Require Import Model Spec Statements Globals JsonFacts RoundtripFields Roundtrip.
Import ListNotations.
Local Open Scope Z_scope.
Local Open Scope string_scope.

(* fromJson never throws on what toJson produced *)
Theorem roundtrip_total : forall d nm p,
  wf d -> user_prefix p = true -> exists d', roundtrip p d nm = Some d'.
Proof.
  intros d nm p Hwf Hp. destruct (roundtrip_main d nm p Hwf Hp) as [d' [He _]]. eauto.
Qed.

Theorem roundtrip_equiv_partial : forall d nm p,
  wf d -> user_prefix p = true -> names_kept nm d = true -> bytes_derived d = true ->
  exists d', roundtrip p d nm = Some d' /\ equiv d' d.
Proof.
  intros d nm p Hwf Hp Hnm Hby. destruct (roundtrip_main d nm p Hwf Hp) as [d' [He [Hv _]]].
  exists d'. split; [exact He|]. exact (Hv Hnm Hby).
Qed.

Theorem cast_preserved : forall a b nma nmb p q,
  wf a -> wf b -> user_prefix p = true -> user_prefix q = true ->
  builtin_leaves a -> builtin_leaves b ->
  exists a' b',
    roundtrip p a nma = Some a' /\ roundtrip q b nmb = Some b' /\
    canBeCastedTo a' b' = canBeCastedTo a b /\
    canBeCastedTo a b' = canBeCastedTo a b /\
    canBeCastedTo a' b = canBeCastedTo a b.
Proof.
  intros a b nma nmb p q Hwa Hwb Hp Hq Hla Hlb.
  destruct (roundtrip_main a nma p Hwa Hp) as [a' [Hea (_ & Hfa & Hba & _)]].
  destruct (roundtrip_main b nmb q Hwb Hq) as [b' [Heb (_ & Hfb & Hbb & _)]].
  exists a', b'. unfold canBeCastedTo.
  rewrite Hba, Hbb, (Hfa Hla), (Hfb Hlb). auto.
Qed.

(* ---- metadata ---- *)
Lemma arg_toJson_nf : forall v a,
  arg_toJson v a =
  JObj [("const", JBool (a_const a)); ("dtype", toJson v (a_dtype a) "");
        ("name", JStr (a_name a)); ("ptr", JBool (a_ptr a))].
Proof. reflexivity. Qed.

Theorem arg_roundtrip : forall a p,
  wf (a_dtype a) -> user_prefix p = true ->
  names_kept "" (a_dtype a) = true -> bytes_derived (a_dtype a) = true ->
  exists a', arg_fromJson repaired p (arg_toJson repaired a) = Some a' /\ arg_equiv a' a.
Proof.
  intros a p Hwf Hp Hnm Hby.
  destruct (roundtrip_equiv_partial _ _ _ Hwf Hp Hnm Hby) as [d' [He Hv]].
  exists (mkArg (a_const a) (a_ptr a) (copy d') (a_name a)). split.
  - rewrite arg_toJson_nf. unfold arg_fromJson.
    change (jget "dtype" (JObj [("const", JBool (a_const a)); ("dtype", toJson repaired (a_dtype a) "");
                                ("name", JStr (a_name a)); ("ptr", JBool (a_ptr a))]))
      with (toJson repaired (a_dtype a) "").
    unfold roundtrip in He. rewrite He. reflexivity.
  - unfold arg_equiv, equiv. cbn [a_const a_ptr a_name a_dtype]. repeat split.
    rewrite view_copy. exact Hv.
Qed.

Lemma args_loop_rt : forall args p i,
  user_prefix p = true ->
  Forall (fun a => wf (a_dtype a) /\ names_kept "" (a_dtype a) = true /\ bytes_derived (a_dtype a) = true) args ->
  exists args', args_loop repaired p i (map (arg_toJson repaired) args) = Some args' /\
                Forall2 arg_equiv args' args.
Proof.
  induction args as [|a args IH]; intros p i Hp Hall; cbn [map args_loop].
  - exists []. split; [reflexivity|constructor].
  - inversion Hall as [|? ? [Hwf [Hnm Hby]] Hrest]; subst.
    destruct (arg_roundtrip a (p ++ [i])%list Hwf (user_prefix_app _ _ Hp) Hnm Hby) as [a' [Ha Heq]].
    destruct (IH p (i + 1) Hp Hrest) as [args' [Hl Hf2]].
    exists (a' :: args'). rewrite Ha, Hl. split; [reflexivity|]. constructor; assumption.
Qed.

Theorem metadata_roundtrip : forall k p,
  user_prefix p = true ->
  Forall (fun a => wf (a_dtype a) /\ names_kept "" (a_dtype a) = true /\ bytes_derived (a_dtype a) = true)
         (k_args k) ->
  exists k', k_fromJson repaired p (k_toJson repaired k) = Some k' /\ kmeta_equiv k' k.
Proof.
  intros k p Hp Hall.
  destruct (args_loop_rt (k_args k) p 0 Hp Hall) as [args' [Hl Hf2]].
  exists (mkK (k_name k) args'). split.
  - unfold k_fromJson, k_toJson.
    change (jset "arguments" (JArr (map (arg_toJson repaired) (k_args k))) (jset "name" (JStr (k_name k)) JNone))
      with (JObj [("arguments", JArr (map (arg_toJson repaired) (k_args k))); ("name", JStr (k_name k))]).
    change (j_array (jget "arguments" (JObj [("arguments", JArr (map (arg_toJson repaired) (k_args k)));
                                              ("name", JStr (k_name k))])))
      with (map (arg_toJson repaired) (k_args k)).
    rewrite Hl. reflexivity.
  - split; [reflexivity|exact Hf2].
Qed.

(* ---- the construction API keeps the guards that are invariants ---- *)
(* add_field on a 0-based struct/union keeps bytes_derived: the byte size addField accumulates is
   the sum of the byte sizes of the stored fields (repaired source: dtype.bytes()) *)
Lemma sum_bytes_app : forall fs f d, sum_bytes (fs ++ [(f, d)]) = sum_bytes fs + d_bytes d.
Proof. intros. unfold sum_bytes. rewrite fold_left_app. reflexivity. Qed.

Lemma forallb_app1 : forall (A : Type) (f : A -> bool) l x,
  forallb f (l ++ [x]) = forallb f l && f x.
Proof. intros. rewrite forallb_app. cbn. rewrite andb_true_r. reflexivity. Qed.

Lemma stored_field_ok : forall d n,
  wf d -> bytes_derived d = true -> 0 < n ->
  let fv := if Z.eqb n 1 then copy d else copy (tuple_of repaired d n false) in
  d_bytes fv = d_bytes d * n /\ bytes_derived fv = true.
Proof.
  intros d n Hwf Hby Hn. pose proof (wf_self_nonref d Hwf) as Hr.
  assert (Hbs : bytes_derived (self d) = true) by (destruct d; exact Hby).
  assert (Hcd : bytes_derived (copy d) = true).
  { destruct (copy_cases d) as [E|E]; rewrite E; exact Hbs. }
  cbn zeta. destruct (Z.eqb n 1) eqn:E1.
  - apply Z.eqb_eq in E1. subst n. split; [rewrite d_bytes_copy by exact Hr; lia|exact Hcd].
  - assert (Hc : copy (tuple_of repaired d n false) = tuple_of repaired d n false) by reflexivity.
    rewrite Hc. unfold tuple_of. cbn [arg_bytes repaired v_ref_bytes]. split; [reflexivity|].
    cbn [bytes_derived h_bytes]. rewrite d_bytes_copy by exact Hr. rewrite Z.eqb_refl, Hcd.
    apply orb_true_r.
Qed.

Theorem add_field_keeps_bytes_derived : forall obj f d n obj',
  wf d -> bytes_derived d = true -> bytes_derived obj = true ->
  (forall h, obj = DLeaf h -> h_bytes h = 0) ->
  is_builtin_obj (hdr_of obj) = false ->
  add_field repaired obj f d n = Some obj' -> bytes_derived obj' = true.
Proof.
  intros obj f d n obj' Hwf Hbd Hbo Hleaf Hnb Hadd. unfold add_field in Hadd.
  destruct (Z.leb n 0) eqn:En; [discriminate|]. apply Z.leb_gt in En.
  pose proof (stored_field_ok d n Hwf Hbd En) as Hs. cbn zeta in Hs.
  remember (if Z.eqb n 1 then copy d else copy (tuple_of repaired d n false)) as fv eqn:Efv in *.
  destruct Hs as [Hfb Hfd]. clear Efv.
  assert (Hab : arg_bytes repaired d = d_bytes d) by reflexivity. rewrite Hab in Hadd.
  destruct obj as [t|h|h ns|h fs|h e s|h fs]; try discriminate; cbn [hdr_of] in Hnb.
  - inversion Hadd; subst obj'. cbn [bytes_derived h_bytes h_id h_name h_reg].
    assert (Hib : is_builtin_obj (mkH (h_id h) (h_name h) (h_bytes h + d_bytes d * n) (h_reg h)) = false).
    { unfold is_builtin_obj in *. exact Hnb. }
    rewrite Hib. cbn [orb forallb snd]. rewrite (Hleaf h eq_refl), Hfd.
    unfold sum_bytes. cbn [fold_left snd]. rewrite Hfb. rewrite Z.eqb_refl. reflexivity.
  - destruct (has_field f fs); [discriminate|]. inversion Hadd; subst obj'.
    cbn [bytes_derived] in Hbo. rewrite Hnb in Hbo. cbn [orb] in Hbo.
    apply andb_true_iff in Hbo. destruct Hbo as [Hb1 Hb2]. apply Z.eqb_eq in Hb1.
    cbn [bytes_derived h_bytes].
    assert (Hib : is_builtin_obj (mkH (h_id h) (h_name h) (h_bytes h + d_bytes d * n) (h_reg h)) = false).
    { unfold is_builtin_obj in *. exact Hnb. }
    rewrite Hib. cbn [orb]. rewrite sum_bytes_app, forallb_app1. cbn beta. cbn [snd].
    rewrite Hb2, Hfd, Hfb, Hb1.
    rewrite Z.eqb_refl. reflexivity.
  - destruct (has_field f fs); [discriminate|]. inversion Hadd; subst obj'.
    cbn [bytes_derived] in Hbo. rewrite Hnb in Hbo. cbn [orb] in Hbo.
    apply andb_true_iff in Hbo. destruct Hbo as [Hb1 Hb2]. apply Z.eqb_eq in Hb1.
    cbn [bytes_derived h_bytes].
    assert (Hib : is_builtin_obj (mkH (h_id h) (h_name h) (h_bytes h + d_bytes d * n) (h_reg h)) = false).
    { unfold is_builtin_obj in *. exact Hnb. }
    rewrite Hib. cbn [orb]. rewrite sum_bytes_app, forallb_app1. cbn beta. cbn [snd].
    rewrite Hb2, Hfd, Hfb, Hb1.
    rewrite Z.eqb_refl. reflexivity.
Qed.
