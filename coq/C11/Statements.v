(* C11 — the hypotheses of the theorems: well-formed dtype values, and the guards that delimit
   what the JSON form of the code can carry at all (each guard that is not an invariant of the
   construction API is a recorded finding, see docs/notes/C11.md). *)
From Coq Require Import List ZArith Bool String.
From OV.C11 Require Import Model Spec.
Import ListNotations.
Local Open Scope Z_scope.

(* the global builtin objects (with dtype::none, which getBuiltin returns for unknown names) *)
Definition globals : list dtype := map snd builtin_map.

(* "this address is the address of a builtin global other than dtype::none" *)
Definition is_bid (i : ident) : bool :=
  negb (ident_eqb i (gid 0)) && existsb (fun g => ident_eqb i (d_id g)) globals.

Definition is_ref (d : dtype) : bool := match d with DRef _ => true | _ => false end.

(* addresses handed to freshly created objects never collide with those of the globals *)
Definition user_prefix (p : ident) : bool :=
  match p with
  | x :: _ => negb (Z.eqb x (-1))
  | [] => false
  end.

(* Well-formed values: a reference points to an object (never to a reference); an object at a
   builtin address is that builtin; field names and enumerators are unique (addField /
   addEnumerator throw otherwise). *)
Inductive wf : dtype -> Prop :=
| wf_ref t : is_ref t = false -> wf t -> wf (DRef t)
| wf_global g : In g globals -> wf g
| wf_leaf h : is_bid (h_id h) = false -> wf (DLeaf h)
| wf_enum h ns : is_bid (h_id h) = false -> NoDup ns -> wf (DEnum h ns)
| wf_struct h fs : is_bid (h_id h) = false -> NoDup (map fst fs) ->
                   Forall (fun nf => wf (snd nf)) fs -> wf (DStruct h fs)
| wf_tuple h e s : is_bid (h_id h) = false -> wf e -> wf (DTuple h e s)
| wf_union h fs : is_bid (h_id h) = false -> NoDup (map fst fs) ->
                  Forall (fun nf => wf (snd nf)) fs -> wf (DUnion h fs).

(* Guard 1 (finding "composite_name"): toJson(j, name) writes the name of an enum / struct /
   tuple / union only when the caller passes it, and nested dtypes are always serialised with
   name = "".  `names_kept nm d`: the top-level composite is called nm (the name handed to
   toJson) and every nested user-defined composite is anonymous.  Builtins and custom leaves
   carry their own name and are unconstrained. *)
Fixpoint names_kept (nm : string) (d : dtype) : bool :=
  match d with
  | DRef t => names_kept nm t
  | DLeaf _ => true
  | DEnum h _ => is_builtin_obj h || String.eqb (h_name h) nm
  | DStruct h fs =>
      is_builtin_obj h ||
      (String.eqb (h_name h) nm && forallb (fun nf => names_kept EmptyString (snd nf)) fs)
  | DTuple h e _ => is_builtin_obj h || (String.eqb (h_name h) nm && names_kept EmptyString e)
  | DUnion h fs =>
      is_builtin_obj h ||
      (String.eqb (h_name h) nm && forallb (fun nf => names_kept EmptyString (snd nf)) fs)
  end.

(* Guard 2 (finding "explicit_bytes"): the JSON form of an enum / struct / tuple / union has no
   byte size; fromJson derives it from the fields.  `bytes_derived d`: every user-defined
   composite has the byte size addField / tuple compute when they start from a 0-byte dtype_t
   (0 for an enum). *)
Fixpoint bytes_derived (d : dtype) : bool :=
  match d with
  | DRef t => bytes_derived t
  | DLeaf _ => true
  | DEnum h _ => is_builtin_obj h || Z.eqb (h_bytes h) 0
  | DStruct h fs =>
      is_builtin_obj h ||
      (Z.eqb (h_bytes h) (sum_bytes fs) && forallb (fun nf => bytes_derived (snd nf)) fs)
  | DTuple h e s => is_builtin_obj h || (Z.eqb (h_bytes h) (d_bytes e * s) && bytes_derived e)
  | DUnion h fs =>
      is_builtin_obj h ||
      (Z.eqb (h_bytes h) (sum_bytes fs) && forallb (fun nf => bytes_derived (snd nf)) fs)
  end.

(* Guard 3 (finding "registered_identity"): every flattened leaf is a builtin global.  Other
   leaves (custom dtypes, enums, dtype::none, occa::memory) are compared by address and a
   deserialised copy has a new address. *)
Definition builtin_leaves (d : dtype) : Prop := Forall (fun i => is_bid i = true) (flat d).

(* the round trip at address p: what a process that reads the JSON back obtains *)
Definition roundtrip (p : ident) (d : dtype) (nm : string) : option dtype :=
  fromJson repaired p (toJson repaired d nm).

Fixpoint height (d : dtype) : nat :=
  match d with
  | DRef t => height t
  | DLeaf _ | DEnum _ _ => O
  | DStruct _ fs => S (fold_right (fun nf m => Nat.max (height (snd nf)) m) O fs)
  | DTuple _ e _ => S (height e)
  | DUnion _ fs => S (fold_right (fun nf m => Nat.max (height (snd nf)) m) O fs)
  end.

(* induction principle that reaches into the field lists *)
Section DtypeInd.
  Variable P : dtype -> Prop.
  Hypothesis Href : forall t, P t -> P (DRef t).
  Hypothesis Hleaf : forall h, P (DLeaf h).
  Hypothesis Henum : forall h ns, P (DEnum h ns).
  Hypothesis Hstruct : forall h fs, Forall (fun nf => P (snd nf)) fs -> P (DStruct h fs).
  Hypothesis Htuple : forall h e s, P e -> P (DTuple h e s).
  Hypothesis Hunion : forall h fs, Forall (fun nf => P (snd nf)) fs -> P (DUnion h fs).

  Fixpoint dtype_ind' (d : dtype) : P d :=
    match d with
    | DRef t => Href t (dtype_ind' t)
    | DLeaf h => Hleaf h
    | DEnum h ns => Henum h ns
    | DStruct h fs =>
        Hstruct h fs
          ((fix go (fs : list (string * dtype)) : Forall (fun nf => P (snd nf)) fs :=
              match fs with
              | [] => Forall_nil _
              | nf :: r => Forall_cons nf (dtype_ind' (snd nf)) (go r)
              end) fs)
    | DTuple h e s => Htuple h e s (dtype_ind' e)
    | DUnion h fs =>
        Hunion h fs
          ((fix go (fs : list (string * dtype)) : Forall (fun nf => P (snd nf)) fs :=
              match fs with
              | [] => Forall_nil _
              | nf :: r => Forall_cons nf (dtype_ind' (snd nf)) (go r)
              end) fs)
    end.
End DtypeInd.
