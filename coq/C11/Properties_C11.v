(* C11 — Dtype and kernel-metadata JSON serialization round-trips.

   Vocabulary (coq/C11/Model.v, Spec.v, Statements.v):
     dtype            a dtype_t object graph; addresses are abstract identifiers
     toJson v d nm    dtype_t::toJson(j, nm)           fromJson v p j   dtype_t::fromJson(j), the new
                                                                        objects get the addresses p, p++[i], ...
     roundtrip p d nm = fromJson repaired p (toJson repaired d nm)
     repaired / pinned : the source with / without fixes/C11-1..3.patch
     view_of d        kind, name, byte size, field names in order, enumerators, tuple size, element views
     equiv a b        view_of a = view_of b
     canBeCastedTo    dtype_t::canBeCastedTo (None = the integer division by zero in isCyclic)
     wf d             references point to objects, an object at a builtin's address is that builtin,
                      field names / enumerators are unique
     names_kept, bytes_derived, builtin_leaves : the three guards (Statements.v), each the exact
                      complement of a recorded finding. *)
From Coq Require Import List ZArith Bool String.
From OV.C11 Require Import Model Spec Statements Proofs.
Import ListNotations.
Local Open Scope Z_scope.
Local Open Scope string_scope.

(* ------------------------------------------------------------------------------------------
   Full statement of the property (NOT provable for the code, see the _refuted theorems):
     forall d nm p, wf d -> user_prefix p = true ->
       exists d', roundtrip p d nm = Some d' /\ equiv d' d.
   What is proved: the same with the two guards names_kept nm d and bytes_derived d.  What is
   missing is exactly: names of user-defined struct/union/tuple/enum dtypes that are not handed
   to toJson by the caller (nested ones never are), and byte sizes given explicitly to an enum /
   struct / union (not derivable from the fields).  Without any guard, fromJson still never
   throws on toJson's output (roundtrip_total). *)
Theorem roundtrip_equiv_partial : forall (d : dtype) (nm : string) (p : ident),
  wf d -> user_prefix p = true ->
  names_kept nm d = true -> bytes_derived d = true ->
  exists d', roundtrip p d nm = Some d' /\ equiv d' d.
Proof. exact Proofs.roundtrip_equiv_partial. Qed.
Print Assumptions roundtrip_equiv_partial.

Theorem roundtrip_total : forall (d : dtype) (nm : string) (p : ident),
  wf d -> user_prefix p = true -> exists d', roundtrip p d nm = Some d'.
Proof. exact Proofs.roundtrip_total. Qed.
Print Assumptions roundtrip_total.

(* bytes_derived is an invariant of the construction API: a struct / union grown by addField
   from a 0-byte dtype_t has it (so the guard only excludes explicitly given byte sizes) *)
Theorem add_field_keeps_bytes_derived : forall obj f d n obj',
  wf d -> bytes_derived d = true -> bytes_derived obj = true ->
  (forall h, obj = DLeaf h -> h_bytes h = 0) ->
  is_builtin_obj (hdr_of obj) = false ->
  add_field repaired obj f d n = Some obj' -> bytes_derived obj' = true.
Proof. exact Proofs.add_field_keeps_bytes_derived. Qed.
Print Assumptions add_field_keeps_bytes_derived.

(* ------------------------------------------------------------------------------------------
   Full statement: forall a b, canBeCastedTo (rt a) (rt b) = canBeCastedTo a b.
   Proved for all dtypes whose flattened leaves are builtins (this covers every dtype the OKL
   parser produces for kernel arguments), whatever their names and byte sizes, for the three
   combinations (both round-tripped, only the target, only the source).  Missing: leaves that
   are custom dtypes / enums / dtype::none / occa::memory — compared by address, and a
   deserialised copy has a new address (cast_shared_leaf_refuted). *)
Theorem cast_preserved_partial : forall (a b : dtype) (nma nmb : string) (p q : ident),
  wf a -> wf b -> user_prefix p = true -> user_prefix q = true ->
  builtin_leaves a -> builtin_leaves b ->
  exists a' b',
    roundtrip p a nma = Some a' /\ roundtrip q b nmb = Some b' /\
    canBeCastedTo a' b' = canBeCastedTo a b /\
    canBeCastedTo a b' = canBeCastedTo a b /\
    canBeCastedTo a' b = canBeCastedTo a b.
Proof. exact Proofs.cast_preserved. Qed.
Print Assumptions cast_preserved_partial.

(* ------------------------------------------------------------------------------------------
   argMetadata_t / kernelMetadata_t: flags, argument names, kernel name and order always come
   back; the dtypes as in roundtrip_equiv_partial (they are serialised with name = ""). *)
Theorem arg_roundtrip_partial : forall (a : argmeta) (p : ident),
  wf (a_dtype a) -> user_prefix p = true ->
  names_kept "" (a_dtype a) = true -> bytes_derived (a_dtype a) = true ->
  exists a', arg_fromJson repaired p (arg_toJson repaired a) = Some a' /\ arg_equiv a' a.
Proof. exact Proofs.arg_roundtrip. Qed.
Print Assumptions arg_roundtrip_partial.

Theorem metadata_roundtrip_partial : forall (k : kmeta) (p : ident),
  user_prefix p = true ->
  Forall (fun a => wf (a_dtype a) /\ names_kept "" (a_dtype a) = true /\
                   bytes_derived (a_dtype a) = true) (k_args k) ->
  exists k', k_fromJson repaired p (k_toJson repaired k) = Some k' /\ kmeta_equiv k' k.
Proof. exact Proofs.metadata_roundtrip. Qed.
Print Assumptions metadata_roundtrip_partial.

(* ------------------------------------------------------------------------------------------
   Witnesses. *)
Ltac in_globals := unfold globals; cbn; repeat (first [left; reflexivity | right]).

Definition float_ref : dtype := DRef g_float.
Lemma wf_float_ref : wf float_ref.
Proof. apply wf_ref; [reflexivity|]. apply wf_global. in_globals. Qed.

(* struct vec2 { float x, y; } built as dtype_t("vec2").addField("x", float_).addField("y", float_) *)
Definition vec2 : dtype :=
  DStruct (mkH [5] "vec2" 8 false) [("x", float_ref); ("y", float_ref)].
Lemma wf_vec2 : wf vec2.
Proof.
  apply wf_struct; [reflexivity| |].
  - repeat constructor; cbn; intuition discriminate.
  - repeat constructor; apply wf_float_ref.
Qed.

(* the name of a user-defined struct does not come back (also on the repaired source) *)
Theorem name_lost_refuted :
  exists d p, wf d /\ user_prefix p = true /\ bytes_derived d = true /\
    exists d', roundtrip p d "" = Some d' /\ ~ equiv d' d.
Proof.
  exists vec2, [7]. split; [exact wf_vec2|]. split; [reflexivity|]. split; [reflexivity|].
  eexists. split; [vm_compute; reflexivity|]. unfold equiv. vm_compute. discriminate.
Qed.

(* ... unless the caller hands it to toJson: the guard is tight *)
Example name_kept_when_passed :
  exists d', roundtrip [7] vec2 "vec2" = Some d' /\ equiv d' vec2.
Proof. eexists. split; [vm_compute; reflexivity|]. unfold equiv. vm_compute. reflexivity. Qed.

(* an enum that was given a byte size comes back with 0 bytes *)
Definition color4 : dtype := DEnum (mkH [5] "" 4 false) ["red"; "green"].
Theorem explicit_bytes_lost_refuted :
  exists d p, wf d /\ user_prefix p = true /\ names_kept "" d = true /\
    exists d', roundtrip p d "" = Some d' /\ ~ equiv d' d.
Proof.
  exists color4, [7]. split.
  { apply wf_enum; [reflexivity|]. repeat constructor; cbn; intuition discriminate. }
  split; [reflexivity|]. split; [reflexivity|].
  eexists. split; [vm_compute; reflexivity|]. unfold equiv. vm_compute. discriminate.
Qed.

(* two structs that hold the same registered custom dtype can be cast into each other; their
   round trips cannot *)
Definition reg_custom : dtype := DLeaf (mkH [1] "r" 8 true).
Definition holder (k : Z) (f : string) : dtype := DStruct (mkH [k] "" 8 false) [(f, DRef reg_custom)].
Theorem cast_shared_leaf_refuted :
  exists a b p q a' b', wf a /\ wf b /\ user_prefix p = true /\ user_prefix q = true /\
    roundtrip p a "" = Some a' /\ roundtrip q b "" = Some b' /\
    canBeCastedTo a b = Some true /\ canBeCastedTo a' b' = Some false.
Proof.
  assert (Hw : forall k f, is_bid [k] = false -> wf (holder k f)).
  { intros k f Hk. apply wf_struct; [exact Hk| |].
    - repeat constructor; cbn; intuition.
    - apply Forall_cons; [|apply Forall_nil]. cbn [snd]. apply wf_ref; [reflexivity|].
      apply wf_leaf. reflexivity. }
  exists (holder 2 "a"), (holder 3 "b"), [10], [11]. do 2 eexists.
  split; [apply Hw; reflexivity|]. split; [apply Hw; reflexivity|].
  split; [reflexivity|]. split; [reflexivity|].
  split; [vm_compute; reflexivity|]. split; [vm_compute; reflexivity|].
  split; vm_compute; reflexivity.
Qed.

(* ---- the pinned source (before fixes/C11-1..3.patch) ---- *)
Definition anon2 : dtype := DStruct (mkH [5] "" 8 false) [("x", float_ref); ("y", float_ref)].

(* fromJson left bytes_ = 0 for struct / tuple / union: 8 bytes came back as 0 *)
Theorem pinned_bytes_lost_refuted :
  names_kept "" anon2 = true /\ bytes_derived anon2 = true /\
  exists d', fromJson pinned [7] (toJson pinned anon2 "") = Some d' /\ d_bytes anon2 = 8 /\ d_bytes d' = 0.
Proof. split; [reflexivity|]. split; [reflexivity|]. eexists. split; [vm_compute; reflexivity|]. split; reflexivity. Qed.

(* ... and the repaired source brings them back *)
Example repaired_bytes_kept :
  exists d', roundtrip [7] anon2 "" = Some d' /\ d_bytes d' = 8 /\ equiv d' anon2.
Proof. eexists. split; [vm_compute; reflexivity|]. split; [reflexivity|]. unfold equiv. vm_compute. reflexivity. Qed.

(* a custom dtype that shares a builtin's name was serialised as that builtin: dtype_t("float", 7)
   came back as the 4-byte builtin float *)
Definition fake_float : dtype := DLeaf (mkH [5] "float" 7 false).
Theorem pinned_builtin_shadow_refuted :
  exists d', fromJson pinned [7] (toJson pinned fake_float "") = Some d' /\
             view_of fake_float = VCustom "float" 7 /\ view_of d' = VBuiltin "float" 4.
Proof. eexists. split; [vm_compute; reflexivity|]. split; vm_compute; reflexivity. Qed.

Example repaired_fake_float_kept :
  exists d', roundtrip [7] fake_float "" = Some d' /\ view_of d' = VCustom "float" 7.
Proof. eexists. split; vm_compute; reflexivity. Qed.

(* the builtin vector types were serialised structurally: float2 lost its name and size *)
Theorem pinned_vector_lost_refuted :
  exists d', fromJson pinned [7] (toJson pinned (getBuiltin "float2") "") = Some d' /\
             d_name (getBuiltin "float2") = "float2" /\ d_bytes (getBuiltin "float2") = 8 /\
             d_name d' = "" /\ d_bytes d' = 0.
Proof. eexists. split; [vm_compute; reflexivity|]. repeat split; reflexivity. Qed.

Example repaired_vector_kept :
  roundtrip [7] (getBuiltin "float2") "" = Some (DRef (getBuiltin "float2")).
Proof. vm_compute. reflexivity. Qed.

(* addField / tuple took the raw bytes_ of their argument, which is 0 in a reference (dtype::int8,
   dtype::get<T>()): a struct of one int8 had 0 bytes *)
Theorem pinned_ref_bytes_refuted :
  exists s, add_field pinned (mk_leaf "" 0 false) "x" (DRef g_char) 1 = Some s /\ d_bytes s = 0.
Proof. eexists. split; [vm_compute; reflexivity|]. reflexivity. Qed.

Example repaired_ref_bytes :
  exists s, add_field repaired (mk_leaf "" 0 false) "x" (DRef g_char) 1 = Some s /\ d_bytes s = 1.
Proof. eexists. split; [vm_compute; reflexivity|]. reflexivity. Qed.

(* ---- non-vacuity: a nested dtype (struct of {tuple of 3 structs of 2 floats, custom, enum,
   reference to a registered struct}) meets the hypotheses of the theorems ---- *)
Definition nested : dtype :=
  DStruct (mkH [9] "" 43 false)
    [("t", DTuple (mkH [9; 0] "" 24 false) anon2 3);
     ("c", DLeaf (mkH [9; 1] "foo" 7 false));
     ("e", DEnum (mkH [9; 2] "" 0 false) ["on"; "off"]);
     ("r", DRef (DStruct (mkH [4] "" 12 true) [("v", DRef (getBuiltin "float3"))]))].

Example nested_meets_hypotheses :
  wf nested /\ names_kept "" nested = true /\ bytes_derived nested = true /\ height nested = 3%nat.
Proof.
  split; [|split; [reflexivity|split; reflexivity]].
  assert (Ha : wf anon2).
  { apply wf_struct; [reflexivity| |].
    - repeat constructor; cbn; intuition discriminate.
    - repeat constructor; apply wf_float_ref. }
  apply wf_struct; [reflexivity| |].
  - repeat constructor; cbn; intuition discriminate.
  - repeat (apply Forall_cons; [|try apply Forall_nil]); cbn [snd].
    + apply wf_tuple; [reflexivity|exact Ha].
    + apply wf_leaf. reflexivity.
    + apply wf_enum; [reflexivity|]. repeat constructor; cbn; intuition discriminate.
    + apply wf_ref; [reflexivity|]. apply wf_struct; [reflexivity| |].
      * repeat constructor; cbn; intuition.
      * apply Forall_cons; [|apply Forall_nil]. cbn [snd]. apply wf_ref; [reflexivity|].
        apply wf_global. in_globals.
Qed.

Example nested_roundtrip :
  exists d', roundtrip [7] nested "" = Some d' /\ equiv d' nested /\ d_bytes d' = 43.
Proof. eexists. split; [vm_compute; reflexivity|]. split; [unfold equiv; vm_compute; reflexivity|reflexivity]. Qed.

(* cast compatibility on builtin-leaved dtypes: float[6] <-> struct{float2 a; float b} (3 | 6) *)
Example cast_example :
  let a := DTuple (mkH [2] "" 24 false) float_ref 6 in
  let b := DStruct (mkH [3] "" 12 false) [("a", DRef (getBuiltin "float2")); ("b", float_ref)] in
  canBeCastedTo a b = Some true /\ canBeCastedTo b (getBuiltin "float2") = Some false.
Proof. split; vm_compute; reflexivity. Qed.
