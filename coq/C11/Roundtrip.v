(* C11 — proofs, part 3: the round trip, by induction on the dtype. *)
From Coq Require Import List ZArith Bool String Ascii Lia.
From OV.C11 Require Import Model Spec Statements Globals JsonFacts.
Import ListNotations.
Local Open Scope Z_scope.

(* what the induction carries about the reconstructed dtype d' *)
Definition rt_post (d d' : dtype) : Prop :=
  view_of d' = view_of d /\
  (builtin_leaves d -> flat d' = flat d) /\
  is_byte_obj d' = is_byte_obj d /\
  is_ref (self d') = false.

Definition vbytes (v : view) : Z :=
  match v with
  | VBuiltin _ b | VCustom _ b | VEnum _ b _ | VStruct _ b _ | VTuple _ b _ _ | VUnion _ b _ => b
  end.

Lemma d_bytes_view : forall d, is_ref (self d) = false -> d_bytes d = vbytes (view_of d).
Proof.
  intros d H. unfold d_bytes. destruct d as [t| | | | |]; cbn in *;
    try reflexivity; try (destruct (is_builtin_obj h); reflexivity).
  destruct t; cbn in *; try discriminate; try reflexivity.
  destruct (is_builtin_obj h); reflexivity.
Qed.

Lemma wf_self_nonref : forall d, wf d -> is_ref (self d) = false.
Proof.
  intros d H. destruct H; cbn; auto.
  destruct (global_prop _ H) as [E|(_ & _ & _ & Hr & _)].
  - subst. reflexivity.
  - destruct g; cbn in *; auto; discriminate.
Qed.

(* ---- copy ---- *)
Lemma copy_cases : forall d, copy d = DRef (self d) \/ copy d = self d.
Proof. intro d. unfold copy. destruct (h_reg (hdr_of (self d))); auto. Qed.

Lemma view_self : forall d, view_of (self d) = view_of d.
Proof. destruct d; reflexivity. Qed.

Lemma flat_self : forall d, flat (self d) = flat d.
Proof. destruct d; reflexivity. Qed.

Lemma view_copy : forall d, view_of (copy d) = view_of d.
Proof. intro d. destruct (copy_cases d) as [E|E]; rewrite E; cbn; apply view_self. Qed.

Lemma flat_copy : forall d, flat (copy d) = flat d.
Proof. intro d. destruct (copy_cases d) as [E|E]; rewrite E; cbn; apply flat_self. Qed.

Lemma self_copy : forall d, is_ref (self d) = false -> self (copy d) = self d.
Proof.
  intros d H. destruct (copy_cases d) as [E|E]; rewrite E; cbn; auto.
  destruct (self d); cbn in *; auto; discriminate.
Qed.

Lemma d_bytes_copy : forall d, is_ref (self d) = false -> d_bytes (copy d) = d_bytes d.
Proof. intros d H. unfold d_bytes. rewrite self_copy by assumption. reflexivity. Qed.

(* ---- small list facts ---- *)
Lemma has_field_false : forall n (acc : list (string * dtype)),
  ~ In n (map fst acc) -> has_field n acc = false.
Proof.
  intros n acc H. unfold has_field.
  induction acc as [|[k v] acc IH]; cbn in *; [reflexivity|].
  destruct (String.eqb n k) eqn:E.
  - apply String.eqb_eq in E. subst. exfalso. apply H. auto.
  - apply IH. intro Hin. apply H. auto.
Qed.

Lemma str_in_false : forall n (acc : list string), ~ In n acc -> str_in n acc = false.
Proof.
  intros n acc H. unfold str_in. induction acc as [|k acc IH]; cbn in *; [reflexivity|].
  destruct (String.eqb n k) eqn:E.
  - apply String.eqb_eq in E. subst. exfalso. apply H. auto.
  - apply IH. intro Hin. apply H. auto.
Qed.

Lemma NoDup_app_mid : forall (A : Type) (a : list A) x b,
  NoDup (a ++ x :: b) -> ~ In x a /\ NoDup ((a ++ [x]) ++ b).
Proof.
  intros A a x b H. split.
  - apply NoDup_remove_2 in H. intro Hin. apply H. apply in_or_app. auto.
  - rewrite <- app_assoc. exact H.
Qed.

Lemma enum_names_rt : forall ns acc,
  NoDup (acc ++ ns) ->
  enum_names (map (fun n => jset "name"%string (JStr n) JNone) ns) acc = Some (acc ++ ns)%list.
Proof.
  induction ns as [|n ns IH]; intros acc H; cbn [map enum_names].
  - rewrite app_nil_r. reflexivity.
  - change (jhas "name"%string (jset "name"%string (JStr n) JNone)) with true.
    change (jget "name"%string (jset "name"%string (JStr n) JNone)) with (JStr n).
    cbn [andb j_isString j_toString].
    destruct (NoDup_app_mid _ _ _ _ H) as [Hn Hd].
    rewrite (str_in_false _ _ Hn). rewrite IH by exact Hd. rewrite <- app_assoc. reflexivity.
Qed.

Lemma fold_left_sum_ext : forall (l l' : list (string * dtype)),
  Forall2 (fun a b => d_bytes (snd a) = d_bytes (snd b)) l l' ->
  forall z, fold_left (fun a nf => a + d_bytes (snd nf)) l z =
            fold_left (fun a nf => a + d_bytes (snd nf)) l' z.
Proof.
  induction 1 as [|a b l l' Hab _ IH]; intro z; cbn; [reflexivity|]. rewrite Hab. apply IH.
Qed.

Lemma height_in : forall (fs : list (string * dtype)) nf,
  In nf fs -> (height (snd nf) <= fold_right (fun nf m => Nat.max (height (snd nf)) m) O fs)%nat.
Proof.
  induction fs as [|a fs IH]; cbn; intros nf H; [contradiction|].
  destruct H as [H|H].
  - subst. apply Nat.le_max_l.
  - etransitivity; [apply IH; exact H | apply Nat.le_max_r].
Qed.

(* ---- the loop of struct / union fromJson over toJson's field array ---- *)
Definition field_rt (nf nf' : string * dtype) : Prop :=
  fst nf' = fst nf /\ exists d', snd nf' = copy d' /\ rt_post (snd nf) d'.

Lemma fields_loop_rt : forall (rec : ident -> json -> option dtype) p fs i acc,
  user_prefix p = true ->
  Forall (fun nf => forall q, user_prefix q = true ->
            exists d', rec q (toJson repaired (snd nf) EmptyString) = Some d' /\ rt_post (snd nf) d') fs ->
  NoDup (map fst acc ++ map fst fs) ->
  exists fs',
    fields_loop rec p i
      (map (fun nf => field_json (fst nf) (toJson repaired (snd nf) EmptyString)) fs) acc
    = Some (acc ++ fs')%list /\ Forall2 field_rt fs fs'.
Proof.
  intros rec p fs. induction fs as [|[n f] fs IH]; intros i acc Hp Hall Hnd.
  - exists []. cbn. rewrite app_nil_r. split; [reflexivity|constructor].
  - inversion Hall as [|? ? Hf Hrest]; subst. cbn [map fst snd fields_loop].
    destruct (Hf (p ++ [i])%list (user_prefix_app _ _ Hp)) as [d' [Hrec Hpost]].
    cbn [fst snd] in *.
    rewrite field_json_nf.
    change (jhas "dtype"%string (JObj [("dtype"%string, toJson repaired f EmptyString); ("name"%string, JStr n)])) with true.
    change (jhas "name"%string (JObj [("dtype"%string, toJson repaired f EmptyString); ("name"%string, JStr n)])) with true.
    change (jget "name"%string (JObj [("dtype"%string, toJson repaired f EmptyString); ("name"%string, JStr n)])) with (JStr n).
    change (jget "dtype"%string (JObj [("dtype"%string, toJson repaired f EmptyString); ("name"%string, JStr n)]))
      with (toJson repaired f EmptyString).
    cbn [andb j_isString j_toString]. rewrite Hrec.
    cbn [map fst] in Hnd. destruct (NoDup_app_mid _ _ _ _ Hnd) as [Hn Hd].
    rewrite (has_field_false _ _ Hn).
    destruct (IH (i + 1) (acc ++ [(n, copy d')])%list Hp Hrest) as [fs' [Hloop Hf2]].
    { rewrite map_app. cbn [map fst]. exact Hd. }
    exists ((n, copy d') :: fs'). split.
    + rewrite Hloop. rewrite <- app_assoc. reflexivity.
    + constructor; [|exact Hf2]. split; [reflexivity|]. exists d'. split; [reflexivity|exact Hpost].
Qed.

Lemma fields_view : forall fs fs',
  Forall2 field_rt fs fs' ->
  map (fun nf => (fst nf, view_of (snd nf))) fs' = map (fun nf => (fst nf, view_of (snd nf))) fs.
Proof.
  induction 1 as [|nf nf' fs fs' [Hn [d' [Hc [Hv _]]]] _ IH]; cbn; [reflexivity|].
  rewrite IH, Hn, Hc, view_copy, Hv. reflexivity.
Qed.

Lemma fields_bytes : forall fs fs',
  Forall (fun nf => wf (snd nf)) fs -> Forall2 field_rt fs fs' -> sum_bytes fs' = sum_bytes fs.
Proof.
  intros fs fs' Hwf H. unfold sum_bytes. apply fold_left_sum_ext.
  induction H as [|nf nf' fs fs' [Hn [d' [Hc [Hv [_ [_ Hr]]]]]] _ IH]; [constructor|].
  inversion Hwf; subst. constructor; [|apply IH; assumption].
  rewrite Hc, d_bytes_copy by exact Hr.
  rewrite (d_bytes_view d') by exact Hr.
  rewrite (d_bytes_view (snd nf)) by (apply wf_self_nonref; assumption).
  rewrite Hv. reflexivity.
Qed.

Lemma fields_flat : forall fs fs',
  Forall2 field_rt fs fs' ->
  Forall (fun i => is_bid i = true) (flat_map (fun nf => flat (snd nf)) fs) ->
  flat_map (fun nf => flat (snd nf)) fs' = flat_map (fun nf => flat (snd nf)) fs.
Proof.
  induction 1 as [|nf nf' fs fs' [Hn [d' [Hc [_ [Hfl _]]]]] _ IH]; cbn; intro Hb; [reflexivity|].
  apply Forall_app in Hb. destruct Hb as [Hb1 Hb2].
  rewrite IH by exact Hb2. rewrite Hc, flat_copy, (Hfl Hb1). reflexivity.
Qed.

(* ---- globals ---- *)
Lemma toJson_builtin_obj : forall g nm,
  is_ref g = false -> is_builtin_obj (hdr_of g) = true ->
  toJson repaired g nm = builtin_json (hdr_of g).
Proof.
  intros g nm Hr Hb. destruct g; cbn in *; try discriminate; rewrite Hb; reflexivity.
Qed.

Lemma fresh_not_builtin : forall p nm b r, user_prefix p = true -> is_builtin_obj (mkH p nm b r) = false.
Proof.
  intros. apply not_bid_not_builtin. cbn. rewrite <- (app_nil_r p). apply user_prefix_not_bid. assumption.
Qed.

Lemma fresh_not_byte : forall p, user_prefix p = true -> ident_eqb p (gid 2) = false.
Proof.
  intros. apply not_bid_not_byte. rewrite <- (app_nil_r p). apply user_prefix_not_bid. assumption.
Qed.

Lemma rt_global : forall g, In g globals -> forall nm p n,
  user_prefix p = true ->
  exists d', fromJson_n repaired (S n) p (toJson repaired g nm) = Some d' /\ rt_post g d'.
Proof.
  intros g Hin nm p n Hp. destruct (global_prop _ Hin) as [E|(Hb & Hg & Hreg & Hr & Hn & Hid)].
  - subst g. exists (DLeaf (mkH p "none" 0 false)). split; [reflexivity|].
    unfold rt_post. cbn [view_of]. rewrite (fresh_not_builtin p _ _ _ Hp).
    repeat split.
    + intro Hbl. inversion Hbl as [|? ? Hx _]; subst. vm_compute in Hx. discriminate.
    + unfold is_byte_obj, d_id. cbn [self hdr_of h_id]. rewrite (fresh_not_byte p Hp). reflexivity.
  - exists (DRef g). split.
    + rewrite (toJson_builtin_obj g nm Hr Hb). rewrite fromJson_builtin.
      assert (Hnm : h_name (hdr_of g) = d_name g).
      { unfold d_name. destruct g; cbn in *; try discriminate; reflexivity. }
      rewrite Hnm, Hg, Hn. unfold copy.
      assert (Hs : self g = g) by (destruct g; cbn in *; try discriminate; reflexivity).
      rewrite Hs, Hreg. reflexivity.
    + unfold rt_post. repeat split.
      * assert (Hs : self g = g) by (destruct g; cbn in *; try discriminate; reflexivity).
        unfold is_byte_obj, d_id. cbn [self]. rewrite Hs. reflexivity.
      * cbn. exact Hr.
Qed.

(* ---- the main induction ---- *)
Definition rt_stmt (d : dtype) : Prop :=
  wf d -> forall nm p n,
    user_prefix p = true -> names_kept nm d = true -> bytes_derived d = true ->
    (height d < n)%nat ->
    exists d', fromJson_n repaired n p (toJson repaired d nm) = Some d' /\ rt_post d d'.

Lemma forallb_In : forall (A : Type) (f : A -> bool) l x, forallb f l = true -> In x l -> f x = true.
Proof. intros A f l x H Hin. rewrite forallb_forall in H. apply H. exact Hin. Qed.

(* the field hypotheses of a struct / union, in the form fields_loop_rt wants *)
Lemma fields_hyp : forall (fs : list (string * dtype)) n,
  Forall (fun nf => rt_stmt (snd nf)) fs ->
  Forall (fun nf => wf (snd nf)) fs ->
  forallb (fun nf => names_kept EmptyString (snd nf)) fs = true ->
  forallb (fun nf => bytes_derived (snd nf)) fs = true ->
  (fold_right (fun nf m => Nat.max (height (snd nf)) m) O fs < n)%nat ->
  Forall (fun nf => forall q, user_prefix q = true ->
            exists d', fromJson_n repaired n q (toJson repaired (snd nf) EmptyString) = Some d'
                       /\ rt_post (snd nf) d') fs.
Proof.
  intros fs n IH Hwf Hnm Hby Hh. apply Forall_forall. intros nf Hin q Hq.
  rewrite Forall_forall in IH, Hwf.
  apply (IH nf Hin (Hwf nf Hin)); auto.
  - exact (forallb_In (string * dtype) (fun nf => names_kept EmptyString (snd nf)) fs nf Hnm Hin).
  - exact (forallb_In (string * dtype) (fun nf => bytes_derived (snd nf)) fs nf Hby Hin).
  - pose proof (height_in fs nf Hin). lia.
Qed.

Lemma rt_main : forall d, rt_stmt d.
Proof.
  induction d using dtype_ind'; unfold rt_stmt; intros Hwf nm p n Hp Hnm Hby Hh.
  - (* DRef *)
    inversion Hwf as [t' Hr Hwt| g Hg | | | | |]; subst.
    2:{ destruct n; [lia|]. apply rt_global; assumption. }
    destruct (IHd Hwt nm p n Hp Hnm Hby Hh) as [d' [He (Hv & Hf & Hb & Hrr)]].
    exists d'. split; [exact He|]. unfold rt_post. repeat split; auto.
    rewrite Hb. unfold is_byte_obj, d_id. cbn [self]. destruct d; cbn in *; try discriminate; reflexivity.
  - (* DLeaf *)
    destruct n; [lia|].
    inversion Hwf as [| g Hg | h' Hbid | | | |]; subst; [apply rt_global; assumption|].
    pose proof (not_bid_not_builtin _ Hbid) as Hnb.
    exists (DLeaf (mkH p (h_name h) (h_bytes h) false)). split.
    + cbn [toJson repaired v_builtin_id]. rewrite Hnb. apply fromJson_custom.
    + unfold rt_post. cbn [view_of]. rewrite Hnb, (fresh_not_builtin p _ _ _ Hp). repeat split.
      * intro Hbl. inversion Hbl as [|? ? Hx _]; subst. cbn in Hx. congruence.
      * unfold is_byte_obj, d_id. cbn [self hdr_of h_id].
        rewrite (fresh_not_byte p Hp), (not_bid_not_byte _ Hbid). reflexivity.
  - (* DEnum *)
    destruct n; [lia|].
    inversion Hwf as [| g Hg | | h' ns' Hbid Hnd | | |]; subst; [apply rt_global; assumption|].
    pose proof (not_bid_not_builtin _ Hbid) as Hnb.
    cbn [names_kept bytes_derived] in Hnm, Hby. rewrite Hnb in Hnm, Hby. cbn [orb] in Hnm, Hby.
    apply String.eqb_eq in Hnm. apply Z.eqb_eq in Hby.
    exists (DEnum (mkH p nm 0 false) ns). split.
    + cbn [toJson repaired v_builtin_id]. rewrite Hnb. cbn [andb].
      rewrite fromJson_enum. rewrite enum_names_rt by exact Hnd. reflexivity.
    + unfold rt_post. cbn [view_of h_name h_bytes]. rewrite Hnm, Hby. repeat split.
      * intro Hbl. inversion Hbl as [|? ? Hx _]; subst. cbn in Hx. congruence.
      * unfold is_byte_obj, d_id. cbn [self hdr_of h_id].
        rewrite (fresh_not_byte p Hp), (not_bid_not_byte _ Hbid). reflexivity.
  - (* DStruct *)
    destruct n; [lia|].
    inversion Hwf as [| g Hg | | | h' fs' Hbid Hnd Hwfs | |]; subst; [apply rt_global; assumption|].
    pose proof (not_bid_not_builtin _ Hbid) as Hnb.
    cbn [names_kept bytes_derived] in Hnm, Hby. rewrite Hnb in Hnm, Hby. cbn [orb] in Hnm, Hby.
    apply andb_true_iff in Hnm. destruct Hnm as [Hnm Hnms].
    apply andb_true_iff in Hby. destruct Hby as [Hby Hbys].
    apply String.eqb_eq in Hnm. apply Z.eqb_eq in Hby. cbn [height] in Hh.
    assert (Hfh := fields_hyp fs n H Hwfs Hnms Hbys ltac:(lia)).
    destruct (fields_loop_rt (fromJson_n repaired n) p fs 0 [] Hp Hfh Hnd) as [fs' [Hloop Hf2]].
    exists (DStruct (mkH p nm (sum_bytes fs') false) fs'). split.
    + cbn [toJson repaired v_builtin_id]. rewrite Hnb. cbn [andb].
      rewrite fromJson_struct. rewrite Hloop. reflexivity.
    + unfold rt_post. cbn [view_of h_name h_bytes].
      rewrite (fields_view _ _ Hf2), (fields_bytes _ _ Hwfs Hf2), Hnm, Hby. repeat split.
      * intro Hbl. unfold builtin_leaves in Hbl. cbn [flat] in *. apply fields_flat; assumption.
      * unfold is_byte_obj, d_id. cbn [self hdr_of h_id].
        rewrite (fresh_not_byte p Hp), (not_bid_not_byte _ Hbid). reflexivity.
  - (* DTuple *)
    destruct n; [lia|].
    inversion Hwf as [| g Hg | | | | h' e' s' Hbid Hwe |]; subst; [apply rt_global; assumption|].
    pose proof (not_bid_not_builtin _ Hbid) as Hnb.
    cbn [names_kept bytes_derived] in Hnm, Hby. rewrite Hnb in Hnm, Hby. cbn [orb] in Hnm, Hby.
    apply andb_true_iff in Hnm. destruct Hnm as [Hnm Hnme].
    apply andb_true_iff in Hby. destruct Hby as [Hby Hbye].
    apply String.eqb_eq in Hnm. apply Z.eqb_eq in Hby. cbn [height] in Hh.
    destruct (IHd Hwe EmptyString (p ++ [0])%list n (user_prefix_app _ _ Hp) Hnme Hbye ltac:(lia))
      as [e' [He (Hv & Hf & Hb & Hr)]].
    exists (DTuple (mkH p nm (d_bytes e' * s) false) (copy e') s). split.
    + cbn [toJson repaired v_builtin_id]. rewrite Hnb. cbn [andb].
      rewrite fromJson_tuple. rewrite He. reflexivity.
    + unfold rt_post. cbn [view_of h_name h_bytes]. rewrite view_copy, Hv, Hnm, Hby.
      rewrite (d_bytes_view e') by exact Hr.
      rewrite (d_bytes_view d) by (apply wf_self_nonref; exact Hwe). rewrite Hv.
      repeat split.
      * intro Hbl. unfold builtin_leaves in Hbl. cbn [flat] in *. rewrite flat_copy.
        destruct (Z.to_nat s) eqn:Es; [reflexivity|].
        rewrite Hf; [reflexivity|]. cbn [repeat concat] in Hbl. apply Forall_app in Hbl. apply Hbl.
      * unfold is_byte_obj, d_id. cbn [self hdr_of h_id].
        rewrite (fresh_not_byte p Hp), (not_bid_not_byte _ Hbid). reflexivity.
  - (* DUnion *)
    destruct n; [lia|].
    inversion Hwf as [| g Hg | | | | | h' fs' Hbid Hnd Hwfs]; subst; [apply rt_global; assumption|].
    pose proof (not_bid_not_builtin _ Hbid) as Hnb.
    cbn [names_kept bytes_derived] in Hnm, Hby. rewrite Hnb in Hnm, Hby. cbn [orb] in Hnm, Hby.
    apply andb_true_iff in Hnm. destruct Hnm as [Hnm Hnms].
    apply andb_true_iff in Hby. destruct Hby as [Hby Hbys].
    apply String.eqb_eq in Hnm. apply Z.eqb_eq in Hby. cbn [height] in Hh.
    assert (Hfh := fields_hyp fs n H Hwfs Hnms Hbys ltac:(lia)).
    destruct (fields_loop_rt (fromJson_n repaired n) p fs 0 [] Hp Hfh Hnd) as [fs' [Hloop Hf2]].
    exists (DUnion (mkH p nm (sum_bytes fs') false) fs'). split.
    + cbn [toJson repaired v_builtin_id]. rewrite Hnb. cbn [andb].
      rewrite fromJson_union. rewrite Hloop. reflexivity.
    + unfold rt_post. cbn [view_of h_name h_bytes].
      rewrite (fields_view _ _ Hf2), (fields_bytes _ _ Hwfs Hf2), Hnm, Hby. repeat split.
      * intro Hbl. unfold builtin_leaves in Hbl. cbn [flat] in *. apply fields_flat; assumption.
      * unfold is_byte_obj, d_id. cbn [self hdr_of h_id].
        rewrite (fresh_not_byte p Hp), (not_bid_not_byte _ Hbid). reflexivity.
Qed.
