(* C11 — proofs, part 4: the round trip, by induction on the dtype (main induction). *)
From Coq Require Import List ZArith Bool String Ascii Lia.
From OV.C11 Require Import Model Spec Statements Globals JsonFacts RoundtripFields.
Import ListNotations.
Local Open Scope Z_scope.

(* ---- globals ---- *)
Lemma toJson_builtin_obj : forall g nm,
  is_ref g = false -> is_builtin_obj (hdr_of g) = true ->
  toJson repaired g nm = builtin_json (hdr_of g).
Proof.
  intros g nm Hr Hb. destruct g; cbn in *; try discriminate; rewrite Hb; reflexivity.
Qed.

Lemma fresh_not_builtin : forall p nm b r, user_prefix p = true -> is_builtin_obj (mkH p nm b r) = false.
Proof.
  intros. apply not_bid_not_builtin. cbn. rewrite <- (app_nil_r p). apply user_prefix_not_bid. assumption.
Qed.

Lemma fresh_not_byte : forall p, user_prefix p = true -> ident_eqb p (gid 2) = false.
Proof.
  intros. apply not_bid_not_byte. rewrite <- (app_nil_r p). apply user_prefix_not_bid. assumption.
Qed.

Lemma rt_global : forall g, In g globals -> forall nm p n,
  user_prefix p = true ->
  exists d', fromJson_n repaired (S n) p (toJson repaired g nm) = Some d' /\ rt_post nm g d'.
Proof.
  intros g Hin nm p n Hp. destruct (global_prop _ Hin) as [E|(Hb & Hg & Hreg & Hr & Hn & Hid)].
  - subst g. exists (DLeaf (mkH p "none" 0 false)). split; [reflexivity|].
    unfold rt_post. cbn [view_of]. rewrite (fresh_not_builtin p _ _ _ Hp).
    repeat split.
    + intro Hbl. inversion Hbl as [|? ? Hx _]; subst. vm_compute in Hx. discriminate.
    + unfold is_byte_obj, d_id. cbn [self hdr_of h_id]. rewrite (fresh_not_byte p Hp). reflexivity.
  - assert (Hs : self g = g) by (destruct g; cbn in *; try discriminate; reflexivity).
    exists (DRef g). split.
    + rewrite (toJson_builtin_obj g nm Hr Hb). rewrite fromJson_builtin.
      assert (Hnm : h_name (hdr_of g) = d_name g).
      { unfold d_name. rewrite Hs. reflexivity. }
      rewrite Hnm, Hg, Hn. unfold copy. rewrite Hs, Hreg. reflexivity.
    + unfold rt_post. repeat split.
      * unfold is_byte_obj, d_id. cbn [self]. rewrite Hs. reflexivity.
      * cbn. exact Hr.
Qed.

(* ---- the main induction ---- *)
Definition rt_stmt (d : dtype) : Prop :=
  wf d -> forall nm p n,
    user_prefix p = true -> (height d < n)%nat ->
    exists d', fromJson_n repaired n p (toJson repaired d nm) = Some d' /\ rt_post nm d d'.

(* the field hypotheses of a struct / union, in the form fields_loop_rt wants *)
Lemma fields_hyp : forall (fs : list (string * dtype)) n,
  Forall (fun nf => rt_stmt (snd nf)) fs ->
  Forall (fun nf => wf (snd nf)) fs ->
  (fold_right (fun nf m => Nat.max (height (snd nf)) m) O fs < n)%nat ->
  Forall (fun nf => forall q, user_prefix q = true ->
            exists d', fromJson_n repaired n q (toJson repaired (snd nf) EmptyString) = Some d'
                       /\ rt_post EmptyString (snd nf) d') fs.
Proof.
  intros fs n IH Hwf Hh. apply Forall_forall. intros nf Hin q Hq.
  rewrite Forall_forall in IH, Hwf.
  apply (IH nf Hin (Hwf nf Hin)); auto.
  pose proof (height_in fs nf Hin). lia.
Qed.

(* the guards of a user-defined composite, opened *)
Lemma guard_split : forall (b : bool) (x y : bool), b = false -> b || (x && y) = true -> x = true /\ y = true.
Proof. intros b x y Hb H. rewrite Hb in H. cbn in H. apply andb_true_iff in H. exact H. Qed.

Lemma rt_main : forall d, rt_stmt d.
Proof.
  induction d using dtype_ind'; unfold rt_stmt; intros Hwf nm p n Hp Hh.
  - (* DRef *)
    inversion Hwf as [t' Hr Hwt| g Hg | | | | |]; subst.
    2:{ destruct n; [lia|]. apply rt_global; assumption. }
    destruct (IHd Hwt nm p n Hp Hh) as [d' [He (Hv & Hf & Hb & Hrr)]].
    exists d'. split; [exact He|]. unfold rt_post. repeat split; auto.
    rewrite Hb. unfold is_byte_obj, d_id. cbn [self]. destruct d; cbn in *; try discriminate; reflexivity.
  - (* DLeaf *)
    destruct n; [lia|].
    inversion Hwf as [| g Hg | h' Hbid | | | |]; subst; [apply rt_global; assumption|].
    pose proof (not_bid_not_builtin _ Hbid) as Hnb.
    exists (DLeaf (mkH p (h_name h) (h_bytes h) false)). split.
    + cbn [toJson repaired v_builtin_id]. rewrite Hnb. apply fromJson_custom.
    + unfold rt_post. cbn [view_of]. rewrite Hnb, (fresh_not_builtin p _ _ _ Hp). repeat split.
      * intro Hbl. inversion Hbl as [|? ? Hx _]; subst. cbn in Hx. congruence.
      * unfold is_byte_obj, d_id. cbn [self hdr_of h_id].
        rewrite (fresh_not_byte p Hp), (not_bid_not_byte _ Hbid). reflexivity.
  - (* DEnum *)
    destruct n; [lia|].
    inversion Hwf as [| g Hg | | h' ns' Hbid Hnd | | |]; subst; [apply rt_global; assumption|].
    pose proof (not_bid_not_builtin _ Hbid) as Hnb.
    exists (DEnum (mkH p nm 0 false) ns). split.
    + cbn [toJson repaired v_builtin_id]. rewrite Hnb. cbn [andb].
      rewrite fromJson_enum. rewrite enum_names_rt by exact Hnd. reflexivity.
    + unfold rt_post. cbn [view_of h_name h_bytes]. repeat split.
      * intros Hnm Hby. cbn [names_kept bytes_derived] in Hnm, Hby.
        rewrite Hnb in Hnm, Hby. cbn [orb] in Hnm, Hby.
        apply String.eqb_eq in Hnm. apply Z.eqb_eq in Hby. rewrite Hnm, Hby. reflexivity.
      * intro Hbl. inversion Hbl as [|? ? Hx _]; subst. cbn in Hx. congruence.
      * unfold is_byte_obj, d_id. cbn [self hdr_of h_id].
        rewrite (fresh_not_byte p Hp), (not_bid_not_byte _ Hbid). reflexivity.
  - (* DStruct *)
    destruct n; [lia|].
    inversion Hwf as [| g Hg | | | h' fs' Hbid Hnd Hwfs | |]; subst; [apply rt_global; assumption|].
    pose proof (not_bid_not_builtin _ Hbid) as Hnb. cbn [height] in Hh.
    assert (Hfh := fields_hyp fs n H Hwfs ltac:(lia)).
    destruct (fields_loop_rt (fromJson_n repaired n) p fs 0 [] Hp Hfh Hnd) as [fs' [Hloop Hf2]].
    exists (DStruct (mkH p nm (sum_bytes fs') false) fs'). split.
    + cbn [toJson repaired v_builtin_id]. rewrite Hnb. cbn [andb].
      rewrite fromJson_struct. rewrite Hloop. reflexivity.
    + unfold rt_post. cbn [view_of h_name h_bytes]. repeat split.
      * intros Hnm Hby. cbn [names_kept bytes_derived] in Hnm, Hby.
        destruct (guard_split _ _ _ Hnb Hnm) as [Hnm1 Hnm2].
        destruct (guard_split _ _ _ Hnb Hby) as [Hby1 Hby2].
        apply String.eqb_eq in Hnm1. apply Z.eqb_eq in Hby1.
        rewrite (fields_view _ _ Hf2 Hnm2 Hby2), (fields_bytes _ _ Hwfs Hf2 Hnm2 Hby2), Hnm1, Hby1.
        reflexivity.
      * intro Hbl. unfold builtin_leaves in Hbl. cbn [flat] in *. apply fields_flat; assumption.
      * unfold is_byte_obj, d_id. cbn [self hdr_of h_id].
        rewrite (fresh_not_byte p Hp), (not_bid_not_byte _ Hbid). reflexivity.
  - (* DTuple *)
    destruct n; [lia|].
    inversion Hwf as [| g Hg | | | | h' e' s' Hbid Hwe |]; subst; [apply rt_global; assumption|].
    pose proof (not_bid_not_builtin _ Hbid) as Hnb. cbn [height] in Hh.
    destruct (IHd Hwe EmptyString (p ++ [0])%list n (user_prefix_app _ _ Hp) ltac:(lia))
      as [e' [He (Hv & Hf & Hb & Hr)]].
    exists (DTuple (mkH p nm (d_bytes e' * s) false) (copy e') s). split.
    + cbn [toJson repaired v_builtin_id]. rewrite Hnb. cbn [andb].
      rewrite fromJson_tuple. rewrite He. reflexivity.
    + unfold rt_post. cbn [view_of h_name h_bytes]. repeat split.
      * intros Hnm Hby. cbn [names_kept bytes_derived] in Hnm, Hby.
        destruct (guard_split _ _ _ Hnb Hnm) as [Hnm1 Hnm2].
        destruct (guard_split _ _ _ Hnb Hby) as [Hby1 Hby2].
        apply String.eqb_eq in Hnm1. apply Z.eqb_eq in Hby1.
        rewrite view_copy, (Hv Hnm2 Hby2), Hnm1, Hby1.
        rewrite (d_bytes_view e') by exact Hr.
        rewrite (d_bytes_view d) by (apply wf_self_nonref; exact Hwe). rewrite (Hv Hnm2 Hby2).
        reflexivity.
      * intro Hbl. unfold builtin_leaves in Hbl. cbn [flat] in *. rewrite flat_copy.
        destruct (Z.to_nat s) eqn:Es; [reflexivity|].
        rewrite Hf; [reflexivity|]. cbn [repeat concat] in Hbl. apply Forall_app in Hbl. apply Hbl.
      * unfold is_byte_obj, d_id. cbn [self hdr_of h_id].
        rewrite (fresh_not_byte p Hp), (not_bid_not_byte _ Hbid). reflexivity.
  - (* DUnion *)
    destruct n; [lia|].
    inversion Hwf as [| g Hg | | | | | h' fs' Hbid Hnd Hwfs]; subst; [apply rt_global; assumption|].
    pose proof (not_bid_not_builtin _ Hbid) as Hnb. cbn [height] in Hh.
    assert (Hfh := fields_hyp fs n H Hwfs ltac:(lia)).
    destruct (fields_loop_rt (fromJson_n repaired n) p fs 0 [] Hp Hfh Hnd) as [fs' [Hloop Hf2]].
    exists (DUnion (mkH p nm (sum_bytes fs') false) fs'). split.
    + cbn [toJson repaired v_builtin_id]. rewrite Hnb. cbn [andb].
      rewrite fromJson_union. rewrite Hloop. reflexivity.
    + unfold rt_post. cbn [view_of h_name h_bytes]. repeat split.
      * intros Hnm Hby. cbn [names_kept bytes_derived] in Hnm, Hby.
        destruct (guard_split _ _ _ Hnb Hnm) as [Hnm1 Hnm2].
        destruct (guard_split _ _ _ Hnb Hby) as [Hby1 Hby2].
        apply String.eqb_eq in Hnm1. apply Z.eqb_eq in Hby1.
        rewrite (fields_view _ _ Hf2 Hnm2 Hby2), (fields_bytes _ _ Hwfs Hf2 Hnm2 Hby2), Hnm1, Hby1.
        reflexivity.
      * intro Hbl. unfold builtin_leaves in Hbl. cbn [flat] in *. apply fields_flat; assumption.
      * unfold is_byte_obj, d_id. cbn [self hdr_of h_id].
        rewrite (fresh_not_byte p Hp), (not_bid_not_byte _ Hbid). reflexivity.
Qed.

(* ---- with the fuel fromJson supplies ---- *)
Theorem roundtrip_main : forall d nm p,
  wf d -> user_prefix p = true ->
  exists d', roundtrip p d nm = Some d' /\ rt_post nm d d'.
Proof.
  intros d nm p Hwf Hp. unfold roundtrip, fromJson.
  set (j := toJson repaired d nm).
  destruct (rt_main d Hwf nm p (S (Nat.max (height d) (jdepth j))) Hp ltac:(lia)) as [d' [He Hpost]].
  exists d'. split; [|exact Hpost].
  rewrite <- He. subst j. apply fuel_enough; lia.
Qed.
