(* C11 — proofs, part 1: identifiers and the table of builtin globals (finite facts by computation). *)
From Coq Require Import List ZArith Bool String Ascii Lia.
From OV.C11 Require Import Model Spec Statements.
Import ListNotations.
Local Open Scope Z_scope.

(* ------------------------------------------------------------------ 1. identifiers, globals *)
Lemma ident_eqb_eq : forall a b, ident_eqb a b = true <-> a = b.
Proof.
  induction a as [|x a IH]; destruct b as [|y b]; cbn; split; intro H; try discriminate; auto.
  - apply andb_true_iff in H. destruct H as [H1 H2]. apply Z.eqb_eq in H1. apply IH in H2. congruence.
  - inversion H; subst. rewrite Z.eqb_refl. cbn. apply IH. reflexivity.
Qed.

Lemma ident_eqb_refl : forall a, ident_eqb a a = true.
Proof. intro a. apply ident_eqb_eq. reflexivity. Qed.

Lemma ident_eqb_false : forall a b, ident_eqb a b = false <-> a <> b.
Proof.
  intros a b. split; intro H.
  - intro E. apply ident_eqb_eq in E. congruence.
  - destruct (ident_eqb a b) eqn:E; auto. apply ident_eqb_eq in E. contradiction.
Qed.

Lemma assoc_in : forall (A : Type) k (l : list (string * A)) v, assoc k l = Some v -> In v (map snd l).
Proof.
  induction l as [|[k' v'] l IH]; cbn; intros v H; try discriminate.
  destruct (String.eqb k k').
  - inversion H. auto.
  - right. auto.
Qed.

Lemma getBuiltin_in : forall name, In (getBuiltin name) globals.
Proof.
  intro name. unfold getBuiltin. destruct (assoc name builtin_map) eqn:E.
  - eapply assoc_in; eauto.
  - unfold globals. left. reflexivity.
Qed.

(* what is true of every entry of getBuiltin's table *)
Definition gprop (g : dtype) : Prop :=
  g = g_none \/
  (is_builtin_obj (hdr_of g) = true /\ getBuiltin (d_name g) = g /\ h_reg (hdr_of g) = true /\
   is_ref g = false /\ is_none_obj g = false /\ d_id g = h_id (hdr_of g)).

Lemma globals_ok : Forall gprop globals.
Proof.
  unfold globals.
  let l := eval vm_compute in (map snd builtin_map) in change (map snd builtin_map) with l.
  repeat (apply Forall_cons; [ first [ left; reflexivity | right; vm_compute; repeat split ] | ]).
  apply Forall_nil.
Qed.

Lemma global_prop : forall g, In g globals -> gprop g.
Proof. intros g H. eapply Forall_forall in H; [exact H | exact globals_ok]. Qed.

Lemma builtin_obj_is_bid : forall h, is_builtin_obj h = true -> is_bid (h_id h) = true.
Proof.
  intros h H. unfold is_builtin_obj in H. apply andb_true_iff in H. destruct H as [H1 H2].
  unfold is_bid. rewrite H1. rewrite andb_true_l. apply existsb_exists.
  exists (getBuiltin (h_name h)). split; [apply getBuiltin_in | exact H2].
Qed.

Lemma not_bid_not_builtin : forall h, is_bid (h_id h) = false -> is_builtin_obj h = false.
Proof.
  intros h H. destruct (is_builtin_obj h) eqn:E; auto. apply builtin_obj_is_bid in E. congruence.
Qed.

(* all builtin addresses are [-1; k] *)
Lemma bid_shape : forall i, is_bid i = true -> exists k, i = [-1; k].
Proof.
  intros i H. unfold is_bid in H. apply andb_true_iff in H. destruct H as [_ H].
  apply existsb_exists in H. destruct H as [g [Hin He]]. apply ident_eqb_eq in He. subst i.
  revert g Hin. unfold globals.
  let l := eval vm_compute in (map snd builtin_map) in change (map snd builtin_map) with l.
  intros g Hin. cbn [In] in Hin.
  repeat (destruct Hin as [Hin|Hin]; [subst g; eexists; reflexivity|]). contradiction.
Qed.

Lemma user_prefix_not_bid : forall p q, user_prefix p = true -> is_bid (p ++ q) = false.
Proof.
  intros p q H. destruct (is_bid (p ++ q)) eqn:E; auto.
  apply bid_shape in E. destruct E as [k E]. destruct p as [|x p]; cbn in H; try discriminate.
  cbn in E. inversion E; subst. cbn in H. discriminate.
Qed.

Lemma user_prefix_app : forall p q, user_prefix p = true -> user_prefix (p ++ q) = true.
Proof. intros [|x p] q H; cbn in *; auto; discriminate. Qed.

Lemma byte_is_bid : is_bid (gid 2) = true.
Proof. vm_compute. reflexivity. Qed.

Lemma not_bid_not_byte : forall i, is_bid i = false -> ident_eqb i (gid 2) = false.
Proof.
  intros i H. apply ident_eqb_false. intro E. subst i. rewrite byte_is_bid in H. discriminate.
Qed.
