(* C26 — entries of other modes are inert: the specification consults its inputs only at paths
   that are not under <position>/modes/<m'> for m' different from the device's mode. *)
From Coq Require Import List ZArith String Ascii Bool Arith Lia.
From OV.C26 Require Import Model Spec Lemmas Proofs.
Import ListNotations.
Local Open Scope string_scope.
Local Open Scope list_scope.
Local Open Scope nat_scope.

(* a walk is determined by what the tree says about the prefixes of the path *)
Lemma walk_ext r : forall t t',
  (forall n, probe (Some t) (firstn n r) = probe (Some t') (firstn n r)) -> walk t r = walk t' r.
Proof.
  induction r as [|k r IH]; intros t t' H.
  - specialize (H 0). cbn in H. destruct t, t'; cbn; congruence.
  - pose proof (H 0) as H0. cbn in H0.
    destruct t as [v|kvs], t' as [v'|kvs']; try discriminate; [reflexivity|].
    pose proof (H 1) as H1. cbn in H1. cbn [walk].
    destruct (alookup k kvs) as [c|] eqn:E, (alookup k kvs') as [c'|] eqn:E'.
    + f_equal. apply IH. intros n. specialize (H (S n)). cbn [firstn probe tget] in H.
      now rewrite E, E' in H.
    + destruct c; discriminate.
    + destruct c'; discriminate.
    + reflexivity.
Qed.

Lemma jwalk_ext r (j j' : json) :
  (forall n, probe j (firstn n r) = probe j' (firstn n r)) -> jwalk j r = jwalk j' r.
Proof.
  intros H. destruct j as [t|], j' as [t'|]; cbn [jwalk]; auto.
  - now apply walk_ext.
  - specialize (H 0). cbn in H. destruct t; discriminate.
  - specialize (H 0). cbn in H. destruct t'; discriminate.
Qed.

Lemma prefixb_firstn q : forall n p, prefixb q (firstn n p) = true -> prefixb q p = true.
Proof.
  induction q as [|k q IH]; intros n p; cbn; auto.
  destruct n, p as [|k' p]; cbn; try discriminate.
  rewrite !andb_true_iff. intros [H1 H2]. split; auto. eapply IH; eauto.
Qed.

Lemma other_mode_path_firstn m' pres n p :
  other_mode_path m' pres p = false -> other_mode_path m' pres (firstn n p) = false.
Proof.
  unfold other_mode_path. intros H.
  destruct (existsb _ pres) eqn:E in |- *; auto.
  apply existsb_exists in E. destruct E as (pre & HIn & Hp).
  apply prefixb_firstn in Hp.
  assert (existsb (fun pre => prefixb (pre ++ ["modes"; m']) p) pres = true)
    by (apply existsb_exists; eauto).
  congruence.
Qed.

Lemma jwalk_agree m' pres X X' r :
  agree_off m' pres X X' -> other_mode_path m' pres r = false -> jwalk X r = jwalk X' r.
Proof.
  intros HA Hr. apply jwalk_ext. intros n. apply HA. now apply other_mode_path_firstn.
Qed.

Lemma lwalk_agree m' pres X X' q p :
  agree_off m' pres X X' -> other_mode_path m' pres (q ++ p) = false ->
  lwalk (Sub X q) p = lwalk (Sub X' q) p.
Proof.
  intros HA Hr.
  assert (E : jwalk X (q ++ p) = jwalk X' (q ++ p)) by (eapply jwalk_agree; eauto).
  assert (E0 : probe X [] = probe X' []).
  { apply HA. eapply (other_mode_path_firstn _ _ 0) in Hr. exact Hr. }
  destruct X as [t|], X' as [t'|]; cbn [lwalk]; cbn [jwalk] in E.
  - now rewrite E.
  - cbn in E0. destruct t; discriminate.
  - cbn in E0. destruct t'; discriminate.
  - reflexivity.
Qed.

(* what a tree holds at a position, as far as the layering looks at it *)
Lemma tget_probe X X' q :
  probe (Some X) q = probe (Some X') q ->
  objnone (tget X q) = objnone (tget X' q) /\ mode_string (tget X q) = mode_string (tget X' q).
Proof.
  cbn [probe]. destruct (tget X q) as [[v|kvs]|], (tget X' q) as [[v'|kvs']|]; cbn; intros H;
    try discriminate; auto.
  injection H as ->. auto.
Qed.

Ltac eqb_false :=
  repeat match goal with
         | H : String.eqb ?a ?b = false |- context [String.eqb ?a ?b] => rewrite H
         | H : String.eqb ?a ?b = false |- context [String.eqb ?b ?a] => rewrite (String.eqb_sym b a), H
         end.

Ltac eqb_closed :=
  repeat match goal with
         | |- context [String.eqb ?a ?b] =>
             let v := eval vm_compute in (String.eqb a b) in
             first [constr_eq v true | constr_eq v false];
             change (String.eqb a b) with v
         end.

Ltac omp := unfold other_mode_path, user_positions, settings_positions, additional_positions;
            cbn [existsb app prefixb]; eqb_closed; eqb_false;
            cbn [andb orb]; rewrite ?andb_false_r; cbn [andb orb]; try reflexivity.

Section Inert.
  Variables (M m' : key).
  Hypothesis HMm : String.eqb M m' = false.

  Lemma object_layers_agree pres o X X' p :
    (pres = user_positions \/ pres = settings_positions) ->
    (o = "kernel" \/ o = "memory" \/ o = "stream" \/ (o = "device" /\ pres = settings_positions)) ->
    agree_off m' pres (Some X) (Some X') ->
    match p with k :: _ => String.eqb k "modes" = false | [] => True end ->
    lwalk (object_layers M o X) p = lwalk (object_layers M o X') p.
  Proof.
    intros Hpres Ho HA Hp. unfold object_layers. cbn [lwalk].
    assert (E1 : lwalk (Sub (Some X) [o]) p = lwalk (Sub (Some X') [o]) p).
    { eapply lwalk_agree; eauto.
      destruct p as [|k p]; destruct Hpres as [-> | ->];
        destruct Ho as [-> | [-> | [-> | [-> Hd]]]]; try discriminate Hd; omp. }
    assert (E2 : lwalk (Sub (Some X) [o; "modes"; M]) p = lwalk (Sub (Some X') [o; "modes"; M]) p).
    { eapply lwalk_agree; eauto.
      destruct Hpres as [-> | ->];
        destruct Ho as [-> | [-> | [-> | [-> Hd]]]]; try discriminate Hd; omp. }
    assert (E3 : lwalk (Sub (Some X) ["modes"; M; o]) p = lwalk (Sub (Some X') ["modes"; M; o]) p).
    { eapply lwalk_agree; eauto.
      destruct Hpres as [-> | ->]; omp. }
    cbn [lwalk] in E1, E2, E3. now rewrite E1, E2, E3.
  Qed.

  Lemma mode_layers_agree pres X X' p :
    (pres = user_positions \/ pres = additional_positions) ->
    agree_off m' pres X X' ->
    match p with
    | k :: _ => String.eqb k "modes" = false /\ (pres = user_positions -> is_object_key k = false)
    | [] => True
    end ->
    lwalk (mode_layers M X) p = lwalk (mode_layers M X') p.
  Proof.
    intros Hpres HA Hp. unfold mode_layers. cbn [lwalk].
    assert (E1 : lwalk (Sub X []) p = lwalk (Sub X' []) p).
    { eapply lwalk_agree; eauto. cbn [app].
      destruct p as [|k p]; destruct Hpres as [-> | ->]; [omp|omp| |].
      - destruct Hp as [Hp1 Hp2]. specialize (Hp2 eq_refl). unfold is_object_key in Hp2.
        apply orb_false_iff in Hp2. destruct Hp2 as [Hp2 Hp3]. apply orb_false_iff in Hp2. destruct Hp2 as [Hp2 Hp4].
        omp.
      - destruct Hp as [Hp1 _]. omp. }
    assert (E2 : lwalk (Sub X ["modes"; M]) p = lwalk (Sub X' ["modes"; M]) p).
    { eapply lwalk_agree; eauto. destruct Hpres as [-> | ->]; omp. }
    cbn [lwalk] in E1, E2. now rewrite E1, E2.
  Qed.

  Lemma spec_object_agree o S S' U U' p :
    o = "kernel" \/ o = "memory" \/ o = "stream" ->
    agree_off m' settings_positions (Some S) (Some S') ->
    agree_off m' user_positions (Some U) (Some U') ->
    spec_object M o S U p = spec_object M o S' U' p.
  Proof.
    intros Ho HS HU. unfold spec_object. destruct p as [|k rest]; auto.
    destruct (String.eqb k "mode"); auto.
    destruct (String.eqb k "modes") eqn:E; auto.
    cbn [lwalk].
    rewrite (object_layers_agree settings_positions o S S') by (intuition auto).
    rewrite (object_layers_agree user_positions o U U') by (intuition auto).
    reflexivity.
  Qed.

  Lemma spec_device_agree S S' U U' p :
    agree_off m' settings_positions (Some S) (Some S') ->
    agree_off m' user_positions (Some U) (Some U') ->
    spec_device M S U p = spec_device M S' U' p.
  Proof.
    intros HS HU. unfold spec_device. destruct p as [|k rest]; auto.
    destruct (is_object_key k) eqn:Ek.
    - apply spec_object_agree; auto. unfold is_object_key in Ek.
      apply orb_true_iff in Ek. destruct Ek as [Ek|Ek]; [apply orb_true_iff in Ek; destruct Ek as [Ek|Ek]|];
        apply String.eqb_eq in Ek; auto.
    - destruct (String.eqb k "mode"); auto.
      destruct (String.eqb k "modes") eqn:E; auto.
      cbn [lwalk].
      rewrite (object_layers_agree settings_positions "device" S S') by (intuition auto).
      rewrite (mode_layers_agree user_positions (Some U) (Some U')) by (intuition auto).
      reflexivity.
  Qed.

  Lemma spec_with_agree K K' A A' p :
    (forall q, probe K q = probe K' q) ->
    agree_off m' additional_positions A A' ->
    spec_with M K A p = spec_with M K' A' p.
  Proof.
    intros HK HA. unfold spec_with. rewrite !lwalk_sub_nil.
    rewrite (jwalk_ext p K K') by (intros n; apply HK).
    destruct p as [|k rest].
    - cbn [hide]. now rewrite (mode_layers_agree additional_positions A A') by (intuition auto).
    - cbn [hide]. destruct (String.eqb k "modes") eqn:E; auto.
      rewrite (mode_layers_agree additional_positions A A'); auto.
      split; auto. intros H; discriminate H.
  Qed.

  Lemma wf_object_agree pres o X X' :
    (pres = user_positions \/ pres = settings_positions) ->
    (o = "kernel" \/ o = "memory" \/ o = "stream" \/ (o = "device" /\ pres = settings_positions)) ->
    agree_off m' pres (Some X) (Some X') ->
    wf_object M o X = wf_object M o X'.
  Proof.
    intros Hpres Ho HA. unfold wf_object.
    assert (E1 : objnone (tget X [o]) = objnone (tget X' [o])).
    { apply tget_probe, HA.
      destruct Hpres as [-> | ->]; destruct Ho as [-> | [-> | [-> | [-> Hd]]]]; try discriminate Hd; omp. }
    assert (E2 : objnone (tget X [o; "modes"; M]) = objnone (tget X' [o; "modes"; M])).
    { apply tget_probe, HA.
      destruct Hpres as [-> | ->]; destruct Ho as [-> | [-> | [-> | [-> Hd]]]]; try discriminate Hd; omp. }
    assert (E3 : objnone (tget X ["modes"; M; o]) = objnone (tget X' ["modes"; M; o])).
    { apply tget_probe, HA. destruct Hpres as [-> | ->]; omp. }
    now rewrite E1, E2, E3.
  Qed.

  Lemma wf_setup_agree S S' U U' :
    agree_off m' settings_positions (Some S) (Some S') ->
    agree_off m' user_positions (Some U) (Some U') ->
    wf_setup M S U = wf_setup M S' U'.
  Proof.
    intros HS HU. unfold wf_setup.
    rewrite (wf_object_agree settings_positions "device" S S') by (intuition auto).
    rewrite (wf_object_agree settings_positions "kernel" S S') by (intuition auto).
    rewrite (wf_object_agree settings_positions "memory" S S') by (intuition auto).
    rewrite (wf_object_agree settings_positions "stream" S S') by (intuition auto).
    rewrite (wf_object_agree user_positions "kernel" U U') by (intuition auto).
    rewrite (wf_object_agree user_positions "memory" U U') by (intuition auto).
    rewrite (wf_object_agree user_positions "stream" U U') by (intuition auto).
    assert (E1 : objnone (tget U ["modes"; M]) = objnone (tget U' ["modes"; M])).
    { apply tget_probe, HU. omp. }
    assert (E0 : objnone (Some U) = objnone (Some U')).
    { apply (tget_probe U U' []), HU. omp. }
    now rewrite E1, E0.
  Qed.

  Lemma wf_with_agree A A' :
    agree_off m' additional_positions A A' -> wf_with M A = wf_with M A'.
  Proof.
    intros HA. unfold wf_with.
    assert (E0 : probe A [] = probe A' []) by (apply HA; omp).
    assert (E1 : probe A ["modes"; M] = probe A' ["modes"; M]) by (apply HA; omp).
    destruct A as [a|], A' as [a'|].
    - destruct (tget_probe a a' [] E0) as [H0 _]. destruct (tget_probe a a' _ E1) as [H1 _].
      cbn [tget] in H0. now rewrite H0, H1.
    - cbn in E0. destruct a; discriminate.
    - cbn in E0. destruct a'; discriminate.
    - reflexivity.
  Qed.
End Inert.

Lemma spec_mode_agree m' U U' :
  agree_off m' user_positions (Some U) (Some U') -> spec_mode U = spec_mode U'.
Proof.
  intros HU. unfold spec_mode. f_equal. apply tget_probe, HU.
  unfold other_mode_path, user_positions. cbn [existsb app prefixb]. eqb_closed. reflexivity.
Qed.
