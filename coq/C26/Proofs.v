(* C26 — proofs about the layering of device.cpp (variant `fixed`): every function returns,
   on well-formed inputs, a tree whose walk/probe at each path is the one Spec.v names. *)
From Coq Require Import List ZArith String Ascii Bool Arith Lia.
From OV.C26 Require Import Model Spec Lemmas.
Import ListNotations.
Local Open Scope string_scope.
Local Open Scope list_scope.
Local Open Scope nat_scope.

Definition jsub (j : json) (q : path) : json :=
  match j with None => None | Some t => tget t q end.

Lemma jget_split j s : jget j s = jsub j (split_path s).
Proof. reflexivity. Qed.

Lemma lwalk_Sub j q p : lwalk (Sub j q) p = jwalk (jsub j q) p.
Proof. destruct j as [t|]; [apply lwalk_sub|reflexivity]. Qed.

Lemma jsub_nil j : jsub j [] = j.
Proof. destruct j; reflexivity. Qed.

Lemma wfj_jsub j q : wfj j -> wfj (jsub j q).
Proof. destruct j as [t|]; cbn; auto. apply wfT_tget. Qed.

Lemma jremove_modes j : jremove j "modes" = option_map (tremove ["modes"]) j.
Proof. destruct j; reflexivity. Qed.

Notation hidem := (hide "modes").

(* ---- getModeSpecificProps ---- *)
Lemma MSP_ok M X :
  nice M -> objnone X = true -> wfj X -> objnone (jsub X ["modes"; M]) = true ->
  exists r, getModeSpecificProps M X = Ok r /\ objnone r = true /\ wfj r /\
            (forall p, jwalk r p = hidem p (lwalk (mode_layers M X) p)) /\
            (X <> None -> r <> None).
Proof.
  intros HM HX WF Hsub. unfold getModeSpecificProps.
  rewrite jget_split, split_modes_M by assumption.
  destruct (jadd_ok X (jsub X ["modes"; M]) HX Hsub (wfj_jsub _ _ WF)) as (r & E & Hr & Hw & Hwf & Hn).
  rewrite E. cbn [bind]. rewrite jremove_modes.
  eexists. split; [reflexivity|]. split; [now apply objnone_remove1|].
  split; [apply wfj_remove1; auto|]. split.
  - intros p. rewrite jwalk_remove1 by assumption. rewrite Hw.
    change (lwalk (mode_layers M X) p) with (combine (lwalk (Sub X []) p) (lwalk (Sub X ["modes"; M]) p)).
    rewrite !lwalk_Sub. now rewrite jsub_nil.
  - intros HXn. destruct r as [t|]; [destruct X; cbn; congruence|].
    exfalso. apply HXn. now apply Hn.
Qed.

(* ---- getObjectSpecificProps ---- *)
Lemma wf_object_parts M o X :
  wf_object M o X = true ->
  objnone (tget X [o]) = true /\ objnone (tget X [o; "modes"; M]) = true /\ objnone (tget X ["modes"; M; o]) = true.
Proof. unfold wf_object. rewrite !andb_true_iff. tauto. Qed.

Lemma OSP_ok M o X :
  nice M -> nice o -> wfT X -> wf_object M o X = true ->
  exists r, getObjectSpecificProps fixed M o (Some X) = Ok r /\ objnone r = true /\ wfj r /\
            (forall p, jwalk r p = hidem p (lwalk (object_layers M o X) p)).
Proof.
  intros HM Ho WF Hwf. apply wf_object_parts in Hwf. destruct Hwf as (H1 & H2 & H3).
  unfold getObjectSpecificProps. cbn [v_nested_remove fixed].
  rewrite !jget_split, split_o_modes_M, split_modes_M_o, split_nice by assumption.
  cbn [jsub].
  destruct (jadd_ok _ _ H1 H2 (wfT_tget X _ WF)) as (r1 & E1 & Hr1 & Hw1 & Hwf1 & _).
  rewrite E1. cbn [bind].
  destruct (jadd_ok _ _ Hr1 H3 (wfT_tget X _ WF)) as (r2 & E2 & Hr2 & Hw2 & Hwf2 & _).
  rewrite E2. cbn [bind]. rewrite jremove_modes.
  eexists. split; [reflexivity|]. split; [now apply objnone_remove1|].
  split; [apply wfj_remove1; auto; apply Hwf2, Hwf1, wfT_tget, WF|].
  intros p. rewrite jwalk_remove1 by assumption. rewrite Hw2, Hw1.
  change (lwalk (object_layers M o X) p) with
    (combine (combine (lwalk (Sub (Some X) [o]) p) (lwalk (Sub (Some X) [o; "modes"; M]) p))
             (lwalk (Sub (Some X) ["modes"; M; o]) p)).
  now rewrite !lwalk_sub.
Qed.

(* ---- assigning one key ---- *)
Definition kvs_of (j : json) : list (key * tree) :=
  match j with Some (Obj kvs) => kvs | _ => [] end.

Lemma jset1_ok j k v : objnone j = true -> jset1 j k v = Ok (Obj (aset k v (kvs_of j))).
Proof. intros H. destruct (objnone_cases _ H) as [->|[kvs ->]]; reflexivity. Qed.

Lemma probe_kvs_of j k p : objnone j = true -> probe (Some (Obj (kvs_of j))) (k :: p) = probe j (k :: p).
Proof. intros H. destruct (objnone_cases _ H) as [->|[kvs ->]]; reflexivity. Qed.

Lemma probe_aset k v kvs k' p :
  probe (Some (Obj (aset k v kvs))) (k' :: p) =
  if String.eqb k' k then probe (Some v) p else probe (Some (Obj kvs)) (k' :: p).
Proof. cbn [probe tget]. rewrite alookup_aset. now destruct (String.eqb k' k). Qed.

Lemma wfT_kvs_of j : wfj j -> wfT (Obj (kvs_of j)).
Proof.
  destruct j as [[v|kvs]|]; cbn [kvs_of wfj]; auto; intros _; apply wfT_obj; split; constructor.
Qed.

(* ---- initialObjectProps ---- *)
Lemma answer_hidem k rest w :
  answer (hidem (k :: rest) w) = if String.eqb k "modes" then ANone else answer w.
Proof. cbn [hide]. now destruct (String.eqb k "modes"). Qed.

Lemma IOP_ok M o S U :
  nice M -> nice o -> wfT S -> wfT U ->
  wf_object M o S = true -> wf_object M o U = true ->
  exists kvs, initialObjectProps fixed M o (Some S) (Some U) = Ok (Obj kvs) /\ wfT (Obj kvs) /\
              (forall p, probe (Some (Obj kvs)) p = spec_object M o S U p).
Proof.
  intros HM Ho WS WU HS HU. unfold initialObjectProps.
  destruct (OSP_ok M o S HM Ho WS HS) as (a & Ea & Ha & Wa & Hwa).
  destruct (OSP_ok M o U HM Ho WU HU) as (b & Eb & Hb & Wb & Hwb).
  rewrite Ea, Eb. cbn [bind].
  destruct (jadd_ok a b Ha Hb Wb) as (r & Er & Hr & Hwr & Wr & _).
  rewrite Er. cbn [bind]. rewrite jset1_ok by assumption.
  eexists. split; [reflexivity|]. split.
  - apply wfT_aset; [apply wfT_kvs_of; auto|exact I].
  - intros [|k rest]; [reflexivity|].
    rewrite probe_aset. unfold spec_object.
    destruct (String.eqb k "mode") eqn:Ek.
    + destruct rest; reflexivity.
    + rewrite probe_kvs_of by assumption. rewrite probe_answer, Hwr, Hwa, Hwb, hide_combine.
      rewrite answer_hidem. reflexivity.
Qed.

(* ---- device::setup ---- *)
Lemma mode_string_leaf M : mode_string (Some (Leaf (VStr M))) = M.
Proof. reflexivity. Qed.

Lemma wf_setup_parts M S U :
  wf_setup M S U = true ->
  objnone (Some U) = true /\ wf_object M "device" S = true /\ objnone (tget U ["modes"; M]) = true /\
  wf_object M "kernel" S = true /\ wf_object M "kernel" U = true /\
  wf_object M "memory" S = true /\ wf_object M "memory" U = true /\
  wf_object M "stream" S = true /\ wf_object M "stream" U = true.
Proof. unfold wf_setup. rewrite !andb_true_iff. tauto. Qed.

Lemma nice_const_device : nice "device". Proof. split; cbn; congruence. Qed.
Lemma nice_const_kernel : nice "kernel". Proof. split; cbn; congruence. Qed.
Lemma nice_const_memory : nice "memory". Proof. split; cbn; congruence. Qed.
Lemma nice_const_stream : nice "stream". Proof. split; cbn; congruence. Qed.

Theorem setup_ok S U :
  wfT S -> wfT U -> wf_setup (spec_mode U) S U = true ->
  exists props, setup fixed S U = Ok (spec_mode U, props) /\ wfT props /\
                (forall p, probe (Some props) p = spec_device (spec_mode U) S U p).
Proof.
  intros WS WU Hwf. set (M := spec_mode U) in *.
  assert (HM : nice M) by apply canon_nice.
  assert (HMc : canon M = M) by apply canon_idem.
  apply wf_setup_parts in Hwf.
  destruct Hwf as (HU & HdS & HUm & HkS & HkU & HmS & HmU & HsS & HsU).
  unfold setup. cbn [v_canon_mode fixed].
  change (jget (Some U) "mode") with (tget U ["mode"]). fold (spec_mode U). fold M.
  destruct (OSP_ok M "device" S HM nice_const_device WS HdS) as (d0 & E0 & H0 & W0 & Hw0).
  rewrite E0. cbn [bind].
  destruct (MSP_ok M (Some U) HM HU WU HUm) as (d1 & E1 & H1 & W1 & Hw1 & Hn1).
  rewrite E1. cbn [bind].
  destruct (jadd_ok d0 d1 H0 H1 W1) as (d & Ed & Hd & Hwd & Wd & _).
  rewrite Ed. cbn [bind]. rewrite jset1_ok by assumption. cbn [bind].
  destruct (IOP_ok M "kernel" S U HM nice_const_kernel WS WU HkS HkU) as (kk & Ek & Wk & Hk).
  destruct (IOP_ok M "memory" S U HM nice_const_memory WS WU HmS HmU) as (mm & Em & Wm & Hm).
  destruct (IOP_ok M "stream" S U HM nice_const_stream WS WU HsS HsU) as (ss & Es & Ws & Hs).
  rewrite Ek. cbn [bind jset1]. rewrite Em. cbn [bind jset1]. rewrite Es. cbn [bind jset1].
  cbn [tget]. rewrite !alookup_aset. cbn [String.eqb Ascii.eqb Bool.eqb].
  cbn [mode_string]. rewrite HMc.
  eexists. split; [reflexivity|]. split.
  - repeat apply wfT_aset; auto; try exact I. apply wfT_kvs_of; auto.
  - intros [|k rest]; [reflexivity|].
    rewrite !probe_aset. unfold spec_device, is_object_key.
    destruct (String.eqb k "mode") eqn:Emode.
    { apply seqb_eq in Emode; subst k. cbn. destruct rest; reflexivity. }
    destruct (String.eqb k "stream") eqn:Estream.
    { apply seqb_eq in Estream; subst k. cbn. apply Hs. }
    destruct (String.eqb k "memory") eqn:Ememory.
    { apply seqb_eq in Ememory; subst k. cbn. apply Hm. }
    destruct (String.eqb k "kernel") eqn:Ekernel.
    { apply seqb_eq in Ekernel; subst k. cbn. apply Hk. }
    cbn [orb]. rewrite probe_kvs_of by assumption.
    rewrite probe_answer, Hwd, Hw0, Hw1, hide_combine, answer_hidem. reflexivity.
Qed.

(* ---- kernelProperties(additional) etc. ---- *)
Lemma wf_with_parts M A : wf_with M A = true -> objnone A = true /\ objnone (jsub A ["modes"; M]) = true.
Proof. unfold wf_with. rewrite andb_true_iff. tauto. Qed.

Theorem with_ok M props o A :
  nice M -> objnone (tget props [o]) = true -> wfj A -> wf_with M A = true ->
  exists r, objectPropertiesWith (M, props) o A = Ok r /\
            (forall p, probe r p = spec_with M (tget props [o]) A p).
Proof.
  intros HM HK WA Hwf. apply wf_with_parts in Hwf. destruct Hwf as [HA HAm].
  unfold objectPropertiesWith, objectProperties. cbn [fst snd].
  destruct (MSP_ok M A HM HA WA HAm) as (a & Ea & Ha & Wa & Hwa & _).
  rewrite Ea. cbn [bind].
  destruct (jadd_ok _ a HK Ha Wa) as (r & Er & Hr & Hwr & _).
  rewrite Er. exists r. split; [reflexivity|].
  intros p. rewrite probe_answer, Hwr, Hwa. unfold spec_with. now rewrite lwalk_sub_nil.
Qed.

(* ------------------------------------------------------------------ when the functions throw *)
Definition isleaf (j : json) : bool := negb (objnone j).

(* "threw, or produced a non-object" *)
Definition LE (r : res json) : Prop := r = Err \/ exists v, r = Ok (Some (Leaf v)).

Lemma isleaf_inv j : isleaf j = true -> exists v, j = Some (Leaf v).
Proof. destruct j as [[v|kvs]|]; cbn; try discriminate; eauto. Qed.

Lemma jadd_leaf a b : isleaf a = true \/ isleaf b = true -> LE (jadd a b).
Proof.
  intros [H|H]; apply isleaf_inv in H; destruct H as [v ->].
  - destruct b as [[vb|kb]|]; cbn.
    + destruct v, vb; cbn; unfold LE; eauto.
    + destruct v; cbn; unfold LE; eauto.
    + unfold LE; eauto.
  - destruct a as [[va|ka]|]; cbn.
    + destruct va, v; cbn; unfold LE; eauto.
    + unfold LE; eauto.
    + unfold LE; eauto.
Qed.

Lemma LE_bind_jadd x b : LE x -> LE (a <- x ;; jadd a b).
Proof.
  intros [->|[v ->]]; cbn [bind]; [left; reflexivity|].
  apply jadd_leaf. now left.
Qed.

Lemma LE_bind_remove x : LE x -> LE (r <- x ;; Ok (jremove r "modes")).
Proof. intros [->|[v ->]]; cbn; unfold LE; eauto. Qed.

Lemma objnone_false j : objnone j = false -> isleaf j = true.
Proof. unfold isleaf. now intros ->. Qed.

Lemma OSP_err M o X :
  nice M -> nice o -> wfT X -> wf_object M o X = false ->
  LE (getObjectSpecificProps fixed M o (Some X)).
Proof.
  intros HM Ho WF Hwf. unfold getObjectSpecificProps. cbn [v_nested_remove fixed].
  rewrite !jget_split, split_o_modes_M, split_modes_M_o, split_nice by assumption.
  cbn [jsub].
  unfold wf_object in Hwf. apply andb_false_iff in Hwf. destruct Hwf as [Hwf|H3].
  - assert (L1 : LE (jadd (tget X [o]) (tget X [o; "modes"; M]))).
    { apply jadd_leaf. apply andb_false_iff in Hwf. destruct Hwf as [H|H]; apply objnone_false in H; auto. }
    destruct L1 as [->|[v ->]]; cbn [bind]; [left; reflexivity|].
    destruct (jadd_leaf (Some (Leaf v)) (tget X ["modes"; M; o]) (or_introl eq_refl)) as [->|[v' ->]];
      cbn; unfold LE; eauto.
  - destruct (jadd (tget X [o]) (tget X [o; "modes"; M])) as [r1|]; cbn [bind]; [|left; reflexivity].
    destruct (jadd_leaf r1 (tget X ["modes"; M; o]) (or_intror (objnone_false _ H3))) as [->|[v' ->]];
      cbn; unfold LE; eauto.
Qed.

Lemma tail_err (ra rb : res json) k v :
  LE ra \/ LE rb ->
  (a <- ra ;; b <- rb ;; r <- jadd a b ;; jset1 r k v) = Err.
Proof.
  intros [[->|[va ->]]|[->|[vb ->]]]; cbn [bind]; auto.
  - destruct rb as [[[vb|kb]|]|]; cbn; auto; destruct va; try destruct vb; reflexivity.
  - destruct ra; reflexivity.
  - destruct ra as [[[va|ka]|]|]; cbn; auto; destruct vb; try destruct va; reflexivity.
Qed.

Lemma IOP_err M o S U :
  nice M -> nice o -> wfT S -> wfT U ->
  wf_object M o S = false \/ wf_object M o U = false ->
  initialObjectProps fixed M o (Some S) (Some U) = Err.
Proof.
  intros HM Ho WS WU H. unfold initialObjectProps. apply tail_err.
  destruct H as [H|H]; [left|right]; now apply OSP_err.
Qed.

Lemma MSP_err M X :
  nice M -> isleaf X = true \/ isleaf (jsub X ["modes"; M]) = true -> LE (getModeSpecificProps M X).
Proof.
  intros HM H. unfold getModeSpecificProps.
  rewrite jget_split, split_modes_M by assumption.
  apply LE_bind_remove. now apply jadd_leaf.
Qed.

Lemma dev_part_err (ra rb : res json) k v (K : json -> res (string * tree)) :
  LE ra \/ LE rb ->
  (a <- ra ;; b <- rb ;; d <- jadd a b ;; d' <- (r <- jset1 d k v ;; Ok (Some r)) ;; K d') = Err.
Proof.
  intros [[->|[va ->]]|[->|[vb ->]]]; cbn [bind]; auto.
  - destruct rb as [[[vb|kb]|]|]; cbn; auto; destruct va; try destruct vb; reflexivity.
  - destruct ra; reflexivity.
  - destruct ra as [[[va|ka]|]|]; cbn; auto; destruct vb; try destruct va; reflexivity.
Qed.

Theorem setup_err S U :
  wfT S -> wfT U -> wf_setup (spec_mode U) S U = false -> setup fixed S U = Err.
Proof.
  intros WS WU Hwf. set (M := spec_mode U) in *.
  assert (HM : nice M) by apply canon_nice.
  unfold setup. cbn [v_canon_mode fixed].
  change (jget (Some U) "mode") with (tget U ["mode"]). fold (spec_mode U). fold M.
  unfold wf_setup in Hwf. repeat rewrite andb_false_iff in Hwf.
  destruct Hwf as [[[[[[[[H|H]|H]|H]|H]|H]|H]|H]|H].
  1-3: apply dev_part_err.
  - right. apply MSP_err; auto. left. now apply objnone_false.
  - left. apply OSP_err; auto. apply nice_const_device.
  - right. apply MSP_err; auto. right. now apply objnone_false.
  - destruct (getObjectSpecificProps _ _ _ _) as [d0|]; [|reflexivity]. cbn [bind].
    destruct (getModeSpecificProps _ _) as [d1|]; [|reflexivity]. cbn [bind].
    destruct (jadd d0 d1) as [d|]; [|reflexivity]. cbn [bind].
    destruct (jset1 d _ _) as [d'|]; [|reflexivity]. cbn [bind].
    rewrite (IOP_err M "kernel") by (auto using nice_const_kernel). reflexivity.
  - destruct (getObjectSpecificProps _ _ _ _) as [d0|]; [|reflexivity]. cbn [bind].
    destruct (getModeSpecificProps _ _) as [d1|]; [|reflexivity]. cbn [bind].
    destruct (jadd d0 d1) as [d|]; [|reflexivity]. cbn [bind].
    destruct (jset1 d _ _) as [d'|]; [|reflexivity]. cbn [bind].
    rewrite (IOP_err M "kernel") by (auto using nice_const_kernel). reflexivity.
  - destruct (getObjectSpecificProps _ _ _ _) as [d0|]; [|reflexivity]. cbn [bind].
    destruct (getModeSpecificProps _ _) as [d1|]; [|reflexivity]. cbn [bind].
    destruct (jadd d0 d1) as [d|]; [|reflexivity]. cbn [bind].
    destruct (jset1 d _ _) as [d'|]; [|reflexivity]. cbn [bind].
    destruct (initialObjectProps _ _ "kernel" _ _) as [kk|]; [|reflexivity]. cbn [bind].
    destruct (jset1 (Some d') "kernel" kk) as [d2|]; [|reflexivity]. cbn [bind].
    rewrite (IOP_err M "memory") by (auto using nice_const_memory). reflexivity.
  - destruct (getObjectSpecificProps _ _ _ _) as [d0|]; [|reflexivity]. cbn [bind].
    destruct (getModeSpecificProps _ _) as [d1|]; [|reflexivity]. cbn [bind].
    destruct (jadd d0 d1) as [d|]; [|reflexivity]. cbn [bind].
    destruct (jset1 d _ _) as [d'|]; [|reflexivity]. cbn [bind].
    destruct (initialObjectProps _ _ "kernel" _ _) as [kk|]; [|reflexivity]. cbn [bind].
    destruct (jset1 (Some d') "kernel" kk) as [d2|]; [|reflexivity]. cbn [bind].
    rewrite (IOP_err M "memory") by (auto using nice_const_memory). reflexivity.
  - destruct (getObjectSpecificProps _ _ _ _) as [d0|]; [|reflexivity]. cbn [bind].
    destruct (getModeSpecificProps _ _) as [d1|]; [|reflexivity]. cbn [bind].
    destruct (jadd d0 d1) as [d|]; [|reflexivity]. cbn [bind].
    destruct (jset1 d _ _) as [d'|]; [|reflexivity]. cbn [bind].
    destruct (initialObjectProps _ _ "kernel" _ _) as [kk|]; [|reflexivity]. cbn [bind].
    destruct (jset1 (Some d') "kernel" kk) as [d2|]; [|reflexivity]. cbn [bind].
    destruct (initialObjectProps _ _ "memory" _ _) as [mm|]; [|reflexivity]. cbn [bind].
    destruct (jset1 (Some d2) "memory" mm) as [d3|]; [|reflexivity]. cbn [bind].
    rewrite (IOP_err M "stream") by (auto using nice_const_stream). reflexivity.
  - destruct (getObjectSpecificProps _ _ _ _) as [d0|]; [|reflexivity]. cbn [bind].
    destruct (getModeSpecificProps _ _) as [d1|]; [|reflexivity]. cbn [bind].
    destruct (jadd d0 d1) as [d|]; [|reflexivity]. cbn [bind].
    destruct (jset1 d _ _) as [d'|]; [|reflexivity]. cbn [bind].
    destruct (initialObjectProps _ _ "kernel" _ _) as [kk|]; [|reflexivity]. cbn [bind].
    destruct (jset1 (Some d') "kernel" kk) as [d2|]; [|reflexivity]. cbn [bind].
    destruct (initialObjectProps _ _ "memory" _ _) as [mm|]; [|reflexivity]. cbn [bind].
    destruct (jset1 (Some d2) "memory" mm) as [d3|]; [|reflexivity]. cbn [bind].
    rewrite (IOP_err M "stream") by (auto using nice_const_stream). reflexivity.
Qed.

Theorem with_err M props o A kvs :
  nice M -> tget props [o] = Some (Obj kvs) -> wf_with M A = false ->
  objectPropertiesWith (M, props) o A = Err.
Proof.
  intros HM HK Hwf. unfold objectPropertiesWith, objectProperties. cbn [fst snd]. rewrite HK.
  assert (L : LE (getModeSpecificProps M A)).
  { apply MSP_err; auto. unfold wf_with in Hwf. apply andb_false_iff in Hwf.
    destruct Hwf as [H|H]; apply objnone_false in H; auto. }
  destruct L as [->|[v ->]]; cbn; auto.
Qed.
