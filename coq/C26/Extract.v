(* Extraction of the executable model and specification.  ExtrOcamlString is needed: keys and
   string values are Coq strings (extracted to char list / char); Z stays the extracted inductive.
   coqc is run from /verif/coq by the Makefile, so the path is relative to that directory. *)
From Coq Require Import Extraction ExtrOcamlBasic ExtrOcamlString.
From OV.C26 Require Import Model Spec.
Extraction Language OCaml.
Extraction "../_work/extract/C26/model.ml"
  pinned fixed setup objectProperties objectPropertiesWith tset split_path
  spec_mode spec_device spec_object spec_with wf_setup wf_with probe.
