(* C26 — the algebra of walks under the model's tree operations (association lists, merge,
   remove, sub-tree access, path strings). *)
From Coq Require Import List ZArith String Ascii Bool Arith Lia.
From OV.C26 Require Import Model Spec.
Import ListNotations.
Local Open Scope string_scope.
Local Open Scope list_scope.
Local Open Scope nat_scope.

(* ------------------------------------------------------------------ strings *)
Lemma seqb_refl k : String.eqb k k = true.
Proof. apply String.eqb_refl. Qed.

Lemma seqb_eq k k' : String.eqb k k' = true -> k = k'.
Proof. apply String.eqb_eq. Qed.

Lemma seqb_neq k k' : String.eqb k k' = false <-> k <> k'.
Proof. apply String.eqb_neq. Qed.

Ltac seqb k k' :=
  let H := fresh "E" in
  destruct (String.eqb k k') eqn:H;
  [ apply String.eqb_eq in H | pose proof (proj1 (String.eqb_neq _ _) H) ].

(* ------------------------------------------------------------------ association lists *)
Notation keys l := (map fst l) (only parsing).

Lemma alookup_aset_same k v l : alookup k (aset k v l) = Some v.
Proof.
  induction l as [|[k' v'] l IH]; cbn.
  - now rewrite seqb_refl.
  - destruct (String.eqb k k') eqn:E; cbn; rewrite ?seqb_refl, ?E; auto.
Qed.

Lemma alookup_aset_other k k' v l : k <> k' -> alookup k' (aset k v l) = alookup k' l.
Proof.
  intros N. induction l as [|[k0 v0] l IH]; cbn.
  - destruct (String.eqb k' k) eqn:E; auto. apply seqb_eq in E. congruence.
  - destruct (String.eqb k k0) eqn:E; cbn.
    + apply seqb_eq in E; subst k0.
      destruct (String.eqb k' k) eqn:E'; auto. apply seqb_eq in E'. congruence.
    + destruct (String.eqb k' k0); auto.
Qed.

Lemma alookup_aset k k' v l :
  alookup k' (aset k v l) = if String.eqb k' k then Some v else alookup k' l.
Proof.
  destruct (String.eqb k' k) eqn:E.
  - apply seqb_eq in E; subst. apply alookup_aset_same.
  - apply alookup_aset_other. apply seqb_neq in E. congruence.
Qed.

Lemma alookup_aremove k k' l :
  alookup k' (aremove k l) = if String.eqb k' k then None else alookup k' l.
Proof.
  induction l as [|[k0 v0] l IH]; cbn.
  - now destruct (String.eqb k' k).
  - destruct (String.eqb k k0) eqn:E.
    + apply seqb_eq in E; subst k0. rewrite IH. destruct (String.eqb k' k); auto.
    + cbn. rewrite IH. destruct (String.eqb k' k0) eqn:E0; auto.
      apply seqb_eq in E0; subst k0.
      destruct (String.eqb k' k) eqn:E1; auto. apply seqb_eq in E1; subst. now rewrite seqb_refl in E.
Qed.

Lemma alookup_In k v l : alookup k l = Some v -> In (k, v) l.
Proof.
  induction l as [|[k0 v0] l IH]; cbn; [discriminate|].
  destruct (String.eqb k k0) eqn:E.
  - apply seqb_eq in E; subst. intros [= ->]. now left.
  - intros H. right. auto.
Qed.

Lemma alookup_None k l : ~ In k (keys l) -> alookup k l = None.
Proof.
  induction l as [|[k0 v0] l IH]; cbn; auto.
  intros N. destruct (String.eqb k k0) eqn:E.
  - apply seqb_eq in E; subst. tauto.
  - apply IH. tauto.
Qed.

Lemma keys_aset k v l :
  keys (aset k v l) = if existsb (String.eqb k) (keys l) then keys l else keys l ++ [k].
Proof.
  induction l as [|[k0 v0] l IH]; cbn; auto.
  destruct (String.eqb k k0) eqn:E; cbn.
  - apply seqb_eq in E; now subst.
  - rewrite IH. now destruct (existsb (String.eqb k) (keys l)).
Qed.

Lemma existsb_eqb_In k l : existsb (String.eqb k) l = true <-> In k l.
Proof.
  rewrite existsb_exists. split.
  - intros (x & Hx & E). apply seqb_eq in E. now subst.
  - intros H. exists k. split; auto. apply seqb_refl.
Qed.

Lemma NoDup_snoc (A : Type) (l : list A) (x : A) : NoDup l -> ~ In x l -> NoDup (l ++ [x]).
Proof.
  induction l as [|y l IH]; cbn; intros H N.
  - constructor; auto.
  - inversion H; subst. constructor.
    + rewrite in_app_iff. cbn. intuition congruence.
    + apply IH; auto.
Qed.

Lemma NoDup_keys_aset k v l : NoDup (keys l) -> NoDup (keys (aset k v l)).
Proof.
  intros H. rewrite keys_aset.
  destruct (existsb (String.eqb k) (keys l)) eqn:E; auto.
  apply NoDup_snoc; auto.
  intros HIn. apply existsb_eqb_In in HIn. congruence.
Qed.

Lemma In_aset kv k v l : In kv (aset k v l) -> kv = (k, v) \/ In kv l.
Proof.
  induction l as [|[k0 v0] l IH]; cbn.
  - intros [<-|[]]. now left.
  - destruct (String.eqb k k0); cbn.
    + intros [<-|H]; auto.
    + intros [<-|H]; auto. destruct (IH H); auto.
Qed.

Lemma keys_aremove_incl k l x : In x (keys (aremove k l)) -> In x (keys l).
Proof.
  induction l as [|[k0 v0] l IH]; cbn; auto.
  destruct (String.eqb k k0); cbn; intuition.
Qed.

Lemma NoDup_keys_aremove k l : NoDup (keys l) -> NoDup (keys (aremove k l)).
Proof.
  induction l as [|[k0 v0] l IH]; cbn; auto.
  intros H. inversion H; subst.
  destruct (String.eqb k k0); cbn; auto.
  constructor; auto. intros HIn. apply keys_aremove_incl in HIn. auto.
Qed.

Lemma In_aremove kv k l : In kv (aremove k l) -> In kv l.
Proof.
  induction l as [|[k0 v0] l IH]; cbn; auto.
  destruct (String.eqb k k0); cbn; intuition.
Qed.

(* ------------------------------------------------------------------ trees *)
Section TreeInd.
  Variable P : tree -> Prop.
  Hypothesis HL : forall v, P (Leaf v).
  Hypothesis HO : forall kvs, Forall (fun kv => P (snd kv)) kvs -> P (Obj kvs).
  Fixpoint tree_ind2 (t : tree) : P t :=
    match t with
    | Leaf v => HL v
    | Obj kvs =>
        HO kvs ((fix go (l : list (key * tree)) : Forall (fun kv => P (snd kv)) l :=
                  match l with
                  | [] => Forall_nil _
                  | kv :: l' => Forall_cons kv (tree_ind2 (snd kv)) (go l')
                  end) kvs)
    end.
End TreeInd.

Lemma wfT_obj kvs : wfT (Obj kvs) <-> NoDup (keys kvs) /\ Forall (fun kv => wfT (snd kv)) kvs.
Proof.
  cbn [wfT]. split; intros [H1 H2]; split; auto.
  - induction kvs as [|kv l IH]; constructor; try tauto.
    apply IH; try tauto. now inversion H1.
  - clear H1. induction H2; auto.
Qed.

Fixpoint nodupb (l : list key) : bool :=
  match l with [] => true | k :: l' => negb (existsb (String.eqb k) l') && nodupb l' end.
Fixpoint wfb (t : tree) : bool :=
  match t with
  | Leaf _ => true
  | Obj kvs =>
      nodupb (keys kvs) &&
      (fix all (l : list (key * tree)) : bool :=
         match l with [] => true | kv :: l' => wfb (snd kv) && all l' end) kvs
  end.

Lemma nodupb_sound l : nodupb l = true -> NoDup l.
Proof.
  induction l as [|k l IH]; cbn; [constructor|].
  rewrite andb_true_iff, negb_true_iff. intros [H1 H2]. constructor; auto.
  intros HIn. apply existsb_eqb_In in HIn. congruence.
Qed.

Lemma wfb_sound t : wfb t = true -> wfT t.
Proof.
  induction t as [v|kvs IH] using tree_ind2; [cbn; auto|].
  intros H. apply wfT_obj. cbn [wfb] in H. apply andb_true_iff in H. destruct H as [H1 H2].
  split; [now apply nodupb_sound|].
  induction IH as [|kv l Hkv _ IHl]; constructor.
  - apply andb_true_iff in H2. tauto.
  - apply IHl.
    + cbn in H1. apply andb_true_iff in H1. tauto.
    + apply andb_true_iff in H2. tauto.
Qed.

Lemma wfT_child k c kvs : wfT (Obj kvs) -> alookup k kvs = Some c -> wfT c.
Proof.
  intros H E. apply wfT_obj in H. destruct H as [_ H].
  apply alookup_In in E. rewrite Forall_forall in H. apply (H _ E).
Qed.

Lemma wfT_tget t p : wfT t -> wfj (tget t p).
Proof.
  revert t. induction p as [|k p IH]; intros t H; cbn; auto.
  destruct t as [v|kvs]; cbn; auto.
  destruct (alookup k kvs) eqn:E; cbn; auto.
  apply IH. eapply wfT_child; eauto.
Qed.

Lemma wfT_aset k v kvs : wfT (Obj kvs) -> wfT v -> wfT (Obj (aset k v kvs)).
Proof.
  intros H Hv. apply wfT_obj in H. destruct H as [H1 H2]. apply wfT_obj. split.
  - now apply NoDup_keys_aset.
  - rewrite Forall_forall in *. intros kv HIn. apply In_aset in HIn. destruct HIn as [->|HIn]; auto.
Qed.

Lemma wfT_aremove k kvs : wfT (Obj kvs) -> wfT (Obj (aremove k kvs)).
Proof.
  intros H. apply wfT_obj in H. destruct H as [H1 H2]. apply wfT_obj. split.
  - now apply NoDup_keys_aremove.
  - rewrite Forall_forall in *. intros kv HIn. apply In_aremove in HIn. auto.
Qed.

(* ------------------------------------------------------------------ walks *)
Definition jwalk (j : json) (p : path) : wres :=
  match j with None => Silent 0 | Some t => walk t p end.

Lemma probe_answer j p : probe j p = answer (jwalk j p).
Proof.
  destruct j as [t|]; cbn; auto.
  revert t. induction p as [|k p IH]; intros t; cbn.
  - now destruct t.
  - destruct t as [v|kvs]; cbn; auto.
    destruct (alookup k kvs) as [c|]; cbn; auto.
    rewrite IH. now destruct (walk c p).
Qed.

Lemma combine_deeper a b : combine (deeper a) (deeper b) = deeper (combine a b).
Proof.
  destruct b; cbn; auto. destruct a; cbn; auto.
  destruct (d0 <=? d) eqn:E; cbn; auto.
Qed.

Lemma deeper_not_blocked0 w : deeper w <> Blocked 0.
Proof. destruct w; cbn; congruence. Qed.

Lemma walk_obj_not_blocked0 kvs p : walk (Obj kvs) p <> Blocked 0.
Proof.
  destruct p as [|k p]; cbn; [congruence|].
  destruct (alookup k kvs); [apply deeper_not_blocked0|congruence].
Qed.

Lemma combine_silent0_r a : a <> Blocked 0 -> combine a (Silent 0) = a.
Proof.
  destruct a; cbn; auto.
  destruct d; cbn; congruence.
Qed.

Lemma combine_silent0_l b : combine (Silent 0) b = b.
Proof. destruct b; cbn; auto. now rewrite Nat.max_0_r. Qed.

(* ------------------------------------------------------------------ merge *)
Lemma alookup_merge_kvs f b : forall a k,
  NoDup (keys b) ->
  alookup k (merge_kvs_with f b a) =
  match alookup k b with Some x => Some (f (alookup k a) x) | None => alookup k a end.
Proof.
  induction b as [|[k0 x0] b IH]; intros a k ND; cbn; auto.
  inversion ND as [|? ? N ND']; subst.
  rewrite IH by assumption.
  destruct (String.eqb k k0) eqn:E.
  - apply seqb_eq in E; subst k0.
    rewrite (alookup_None k b) by assumption.
    now rewrite alookup_aset_same.
  - rewrite alookup_aset, E. reflexivity.
Qed.

Lemma combine_leaf_l va xb p : combine (walk (Leaf va) p) (walk (Obj xb) p) = walk (Obj xb) p.
Proof.
  destruct p as [|k p]; [reflexivity|].
  cbn [walk]. destruct (alookup k xb); cbn; auto.
  destruct (deeper (walk t p)); cbn; auto.
Qed.

Lemma walk_leaf_deeper_nonsilent v p a : combine a (deeper (walk (Leaf v) p)) = deeper (walk (Leaf v) p).
Proof. destruct p; reflexivity. Qed.

Lemma walk_merge_obj b :
  wfT b ->
  match b with
  | Leaf _ => True
  | Obj kb => forall ka p, walk (Obj (merge_kvs kb ka)) p = combine (walk (Obj ka) p) (walk b p)
  end.
Proof.
  induction b as [v|kb IH] using tree_ind2; auto.
  intros WF ka p. destruct p as [|k p]; [reflexivity|].
  cbn [walk]. unfold merge_kvs. pose proof WF as WF'. apply wfT_obj in WF'. destruct WF' as [ND WFc].
  rewrite alookup_merge_kvs by assumption.
  destruct (alookup k kb) as [x|] eqn:Ex.
  - assert (HIn : In (k, x) kb) by now apply alookup_In.
    rewrite Forall_forall in IH, WFc.
    specialize (IH _ HIn). specialize (WFc _ HIn). cbn [snd] in IH, WFc. specialize (IH WFc).
    destruct x as [v|xb].
    + cbn [tmerge]. now rewrite walk_leaf_deeper_nonsilent.
    + cbn [tmerge]. destruct (alookup k ka) as [[va|xa]|] eqn:Ea.
      * (* a leaf of the left operand is replaced by the object *)
        rewrite combine_deeper. now rewrite combine_leaf_l.
      * fold (merge_kvs xb xa). rewrite IH. now rewrite combine_deeper.
      * now rewrite combine_silent0_l.
  - rewrite combine_silent0_r; auto.
    destruct (alookup k ka); [apply deeper_not_blocked0|congruence].
Qed.

(* merge keeps maps duplicate-free *)
Lemma NoDup_keys_merge f b : forall a, NoDup (keys a) -> NoDup (keys (merge_kvs_with f b a)).
Proof.
  induction b as [|[k x] b IH]; intros a H; cbn; auto.
  apply IH. now apply NoDup_keys_aset.
Qed.

Lemma Forall_merge (P : tree -> Prop) f b : forall a,
  Forall (fun kv => P (snd kv)) a ->
  Forall (fun kv => forall old, (match old with Some o => P o | None => True end) -> P (f old (snd kv))) b ->
  Forall (fun kv => P (snd kv)) (merge_kvs_with f b a).
Proof.
  induction b as [|[k x] b IH]; intros a Ha Hb; cbn; auto.
  inversion Hb as [|? ? Hx Hb']; subst. apply IH; auto.
  rewrite Forall_forall in *. intros kv HIn. apply In_aset in HIn. destruct HIn as [->|HIn]; auto.
  cbn [snd] in *. apply Hx.
  destruct (alookup k a) as [o|] eqn:E; auto.
  apply alookup_In in E. apply (Ha _ E).
Qed.

Lemma wfT_tmerge b : wfT b -> forall old, (match old with Some o => wfT o | None => True end) -> wfT (tmerge old b).
Proof.
  induction b as [v|kb IH] using tree_ind2; intros WF old Hold; [exact I|].
  cbn [tmerge]. destruct old as [[va|ka]|]; auto.
  apply wfT_obj in Hold. destruct Hold as [NDa Fa].
  pose proof WF as WF'. apply wfT_obj in WF'. destruct WF' as [NDb Fb].
  apply wfT_obj. split.
  - now apply NoDup_keys_merge.
  - apply Forall_merge; auto.
    rewrite Forall_forall in *. intros kv HIn old Hold. apply IH; auto.
Qed.

(* ------------------------------------------------------------------ operator+ on objects-or-nothing *)
Lemma objnone_cases j : objnone j = true -> j = None \/ exists kvs, j = Some (Obj kvs).
Proof. destruct j as [[v|kvs]|]; cbn; try discriminate; eauto. Qed.

Lemma jadd_ok a b :
  objnone a = true -> objnone b = true -> wfj b ->
  exists r, jadd a b = Ok r /\ objnone r = true /\
            (forall p, jwalk r p = combine (jwalk a p) (jwalk b p)) /\
            (wfj a -> wfj r) /\
            (r = None <-> a = None /\ b = None).
Proof.
  intros Ha Hb WFb.
  destruct (objnone_cases _ Hb) as [->|[kb ->]].
  - exists a. split; [reflexivity|]. split; [assumption|]. split; [|split; [tauto|tauto]].
    intros p. destruct (objnone_cases _ Ha) as [->|[ka ->]]; cbn; auto.
    symmetry. apply combine_silent0_r. apply walk_obj_not_blocked0.
  - destruct (objnone_cases _ Ha) as [->|[ka ->]].
    + exists (Some (Obj (merge_kvs kb []))). split; [reflexivity|]. split; [reflexivity|].
      split; [|split].
      * intros p. cbn [jwalk]. rewrite (walk_merge_obj (Obj kb) WFb).
        destruct p; cbn; auto.
      * intros _. apply (wfT_tmerge (Obj kb) WFb (Some (Obj []))). apply wfT_obj. split; constructor.
      * split; [discriminate|]. intros [_ H]; discriminate.
    + exists (Some (Obj (merge_kvs kb ka))). split; [reflexivity|]. split; [reflexivity|].
      split; [|split].
      * intros p. cbn [jwalk]. apply (walk_merge_obj (Obj kb) WFb).
      * intros WFa. apply (wfT_tmerge (Obj kb) WFb (Some (Obj ka))). exact WFa.
      * split; [discriminate|]. intros [H _]; discriminate.
Qed.

(* ------------------------------------------------------------------ remove one top-level key *)
Lemma jwalk_remove1 j k p :
  objnone j = true -> jwalk (option_map (tremove [k]) j) p = hide k p (jwalk j p).
Proof.
  intros H. destruct (objnone_cases _ H) as [->|[kvs ->]]; cbn.
  - destruct p as [|k0 p]; cbn; auto. now destruct (String.eqb k0 k).
  - destruct p as [|k' p]; cbn; auto.
    rewrite alookup_aremove. now destruct (String.eqb k' k).
Qed.

Lemma objnone_remove1 j k : objnone j = true -> objnone (option_map (tremove [k]) j) = true.
Proof. intros H. destruct (objnone_cases _ H) as [->|[kvs ->]]; reflexivity. Qed.

Lemma wfj_remove1 j k : objnone j = true -> wfj j -> wfj (option_map (tremove [k]) j).
Proof.
  intros H. destruct (objnone_cases _ H) as [->|[kvs ->]]; cbn [option_map wfj tremove]; auto.
  apply wfT_aremove.
Qed.

Lemma hide_combine k p a b : combine (hide k p a) (hide k p b) = hide k p (combine a b).
Proof. destruct p as [|k' p]; cbn; auto. now destruct (String.eqb k' k). Qed.

(* ------------------------------------------------------------------ sub-trees *)
Lemma rebase_deeper n w : rebase (S n) (deeper w) = rebase n w.
Proof.
  destruct w; cbn [deeper rebase]; auto.
Qed.

Lemma rebase_0 w : rebase 0 w = w.
Proof. destruct w; cbn; auto; now rewrite Nat.sub_0_r. Qed.

Lemma walk_sub t q p :
  jwalk (tget t q) p = rebase (List.length q) (walk t (q ++ p)).
Proof.
  revert t. induction q as [|k q IH]; intros t.
  - cbn. now rewrite rebase_0.
  - cbn [tget app List.length walk]. destruct t as [v|kvs]; [reflexivity|].
    destruct (alookup k kvs) as [c|]; [|reflexivity].
    rewrite IH. now rewrite rebase_deeper.
Qed.

Lemma lwalk_sub t q p : lwalk (Sub (Some t) q) p = jwalk (tget t q) p.
Proof. cbn [lwalk]. now rewrite walk_sub. Qed.

Lemma lwalk_sub_nil j p : lwalk (Sub j []) p = jwalk j p.
Proof. destruct j as [t|]; cbn [lwalk jwalk]; auto. cbn. apply rebase_0. Qed.

(* ------------------------------------------------------------------ path strings *)
Fixpoint noslash (s : string) : bool :=
  match s with
  | EmptyString => true
  | String c r => negb (Ascii.eqb c slash) && noslash r
  end.

Lemma split_path_noslash s : noslash s = true -> s <> EmptyString -> split_path s = [s].
Proof.
  induction s as [|c r IH]; [congruence|].
  cbn. rewrite andb_true_iff, negb_true_iff. intros [Hc Hr] _. rewrite Hc.
  destruct r as [|c' r'].
  - reflexivity.
  - rewrite IH; auto. congruence.
Qed.

Lemma split_path_cat a b :
  noslash a = true -> split_path (a ++ String slash b)%string = a :: split_path b.
Proof.
  induction a as [|c r IH]; intros H.
  - cbn. reflexivity.
  - cbn in H. apply andb_true_iff in H. destruct H as [Hc Hr]. apply negb_true_iff in Hc.
    cbn [append split_path]. rewrite Hc, IH by assumption. reflexivity.
Qed.

Definition nice (s : string) : Prop := noslash s = true /\ s <> EmptyString.

Lemma split_modes_M M : nice M -> split_path ("modes/" ++ M)%string = ["modes"; M].
Proof.
  intros [H1 H2]. change ("modes/" ++ M)%string with ("modes" ++ String slash M)%string.
  rewrite split_path_cat by reflexivity. now rewrite split_path_noslash.
Qed.

Lemma split_o_modes_M o M : nice o -> nice M -> split_path (o ++ "/modes/" ++ M)%string = [o; "modes"; M].
Proof.
  intros [Ho _] HM.
  change (o ++ "/modes/" ++ M)%string with (o ++ String slash ("modes/" ++ M))%string.
  rewrite split_path_cat by assumption. now rewrite split_modes_M.
Qed.

Lemma split_modes_M_o o M : nice o -> nice M -> split_path ("modes/" ++ M ++ "/" ++ o)%string = ["modes"; M; o].
Proof.
  intros [Ho Ho'] [HM _].
  change ("modes/" ++ M ++ "/" ++ o)%string with ("modes" ++ String slash (M ++ String slash o))%string.
  rewrite split_path_cat by reflexivity. rewrite split_path_cat by assumption.
  now rewrite split_path_noslash.
Qed.

Lemma split_nice o : nice o -> split_path o = [o].
Proof. intros [H1 H2]. now apply split_path_noslash. Qed.

(* ------------------------------------------------------------------ modes *)
Lemma canon_cases s : canon s = "Serial" \/ canon s = "OpenMP".
Proof.
  unfold canon. destruct (String.eqb (lowercase s) "serial"); auto.
  destruct (String.eqb (lowercase s) "openmp"); auto.
Qed.

Lemma canon_nice s : nice (canon s).
Proof. destruct (canon_cases s) as [-> | ->]; split; cbn; congruence. Qed.

Lemma canon_idem s : canon (canon s) = canon s.
Proof. destruct (canon_cases s) as [-> | ->]; reflexivity. Qed.

(* ------------------------------------------------------------------ "first defined" reading *)
Lemma all_silent l p : (forall y, In y (priority l) -> silent (lwalk y p)) -> silent (lwalk l p).
Proof.
  induction l as [X q|lo IHlo hi IHhi]; intros H.
  - apply H. now left.
  - cbn [priority] in H. cbn [lwalk].
    destruct IHlo as [d' ->]; [intros y Hy; apply H, in_app_iff; auto|].
    destruct IHhi as [d ->]; [intros y Hy; apply H, in_app_iff; auto|].
    cbn. eexists; reflexivity.
Qed.

Lemma first_defined l p : forall i x,
  nth_error (priority l) i = Some x ->
  (forall j y, j < i -> nth_error (priority l) j = Some y -> silent (lwalk y p)) ->
  hit (lwalk x p) ->
  lwalk l p = lwalk x p.
Proof.
  induction l as [X q|lo IHlo hi IHhi]; intros i x Hn Hs Hh.
  - destruct i; cbn in Hn; [now injection Hn as <-|]. destruct i; discriminate.
  - cbn [priority] in Hn, Hs. cbn [lwalk].
    destruct (Nat.lt_ge_cases i (List.length (priority hi))) as [Hi|Hi].
    + rewrite nth_error_app1 in Hn by assumption.
      rewrite (IHhi i x Hn); auto.
      * destruct Hh as [->|[v ->]]; reflexivity.
      * intros j y Hj Hy. apply (Hs j y Hj). rewrite nth_error_app1; auto. lia.
    + rewrite nth_error_app2 in Hn by assumption.
      assert (Hsil : silent (lwalk hi p)).
      { apply all_silent. intros y Hy. apply In_nth_error in Hy. destruct Hy as [j Hj].
        assert (j < List.length (priority hi)) by (apply nth_error_Some; congruence).
        apply (Hs j y); [lia|]. rewrite nth_error_app1; auto. }
      rewrite (IHlo _ x Hn); auto.
      * destruct Hsil as [d ->]. destruct Hh as [->|[v ->]]; reflexivity.
      * intros j y Hj Hy. apply (Hs (List.length (priority hi) + j) y); [lia|].
        rewrite nth_error_app2 by lia. now replace (List.length (priority hi) + j - List.length (priority hi)) with j by lia.
Qed.
