(* C26 — executable model of the property layering of occa::device
   (src/core/device.cpp: getModeSpecificProps, getObjectSpecificProps, initialObjectProps,
   device::setup, device::kernelProperties/memoryProperties/streamProperties(additional);
   src/occa/internal/utils/env.cpp: settings(); src/occa/internal/modes.cpp: getMode,
   getModeFromProps, mode_t::setModeProp) over the JSON operations it uses
   (src/types/json.cpp: const operator[], operator+/+=, mergeWithObject, remove, operator[]= on
   one key).

   Property trees: a JSON value is a number, a string or an object (std::map, here an
   association list with first-match lookup and replace-or-append update; the dump sorts).
   `None` is the none-typed json() that const operator[] returns for a missing path.
   Null/bool/array/float values are not modelled (the generator never produces them).

   The model is parameterised by a `variant`: `pinned` is the code as found (commit 0b40015),
   `fixed` is the code after fixes/C26-1.patch (registered mode name) and fixes/C26-2.patch
   (no nested remove); see docs/notes/C26.md.
   No proofs in this file. *)
From Coq Require Import List ZArith String Ascii Bool.
Import ListNotations.
Local Open Scope string_scope.

Notation key := string (only parsing).
Notation path := (list string) (only parsing).

Inductive value : Type := VNum (n : Z) | VStr (s : string).
Inductive tree : Type := Leaf (v : value) | Obj (kvs : list (key * tree)).
Definition json := option tree.

(* outcome of an operation that may throw occa::exception *)
Inductive res (A : Type) : Type := Ok (a : A) | Err.
Arguments Ok {A} a.
Arguments Err {A}.
Definition bind {A B} (r : res A) (f : A -> res B) : res B :=
  match r with Ok a => f a | Err => Err end.
Notation "x <- r ;; k" := (bind r (fun x => k)) (at level 61, r at next level, right associativity).

(* ---- std::map<std::string, json> ---- *)
Fixpoint alookup (k : key) (l : list (key * tree)) : option tree :=
  match l with
  | [] => None
  | (k', v) :: l' => if String.eqb k k' then Some v else alookup k l'
  end.

(* object[k] = v *)
Fixpoint aset (k : key) (v : tree) (l : list (key * tree)) : list (key * tree) :=
  match l with
  | [] => [(k, v)]
  | (k', v') :: l' => if String.eqb k k' then (k, v) :: l' else (k', v') :: aset k v l'
  end.

(* object.erase(k) *)
Fixpoint aremove (k : key) (l : list (key * tree)) : list (key * tree) :=
  match l with
  | [] => []
  | (k', v') :: l' => if String.eqb k k' then aremove k l' else (k', v') :: aremove k l'
  end.

(* ---- paths: the loop "skipTo(c, slash, backslash); key = ...; skip the slash" shared by
   const operator[], has, remove (backslash escapes are not modelled) ---- *)
Definition slash : ascii := "/"%char.
Fixpoint split_path (s : string) : list key :=
  match s with
  | EmptyString => []
  | String c r =>
      if Ascii.eqb c slash then EmptyString :: split_path r
      else match split_path r with
           | [] => [String c EmptyString]
           | k :: ks => String c k :: ks
           end
  end.

(* const json& operator[](path) const: default_ (none) when a key is missing or a non-object
   is met while keys remain *)
Fixpoint tget (t : tree) (ks : path) : json :=
  match ks with
  | [] => Some t
  | k :: ks' =>
      match t with
      | Obj kvs => match alookup k kvs with Some c => tget c ks' | None => None end
      | Leaf _ => None
      end
  end.
Definition jget (j : json) (p : string) : json :=
  match j with None => None | Some t => tget t (split_path p) end.

(* ---- operator += and mergeWithObject ---- *)
Section MergeKvs.
  Variable mergef : option tree -> tree -> tree.
  (* iterate over the right operand's entries, updating the left operand *)
  Fixpoint merge_kvs_with (b a : list (key * tree)) : list (key * tree) :=
    match b with
    | [] => a
    | (k, x) :: b' => merge_kvs_with b' (aset k (mergef (alookup k a) x) a)
    end.
End MergeKvs.

(* new value of this->object[key] given its old value and the incoming val:
     if (val.isObject() && has(key)) { if (oldVal.isObject()) oldVal += val; else oldVal = val; }
     else object[key] = val;                                                                   *)
Fixpoint tmerge (old : option tree) (v : tree) {struct v} : tree :=
  match v with
  | Leaf _ => v
  | Obj vb =>
      match old with
      | Some (Obj va) => Obj (merge_kvs_with tmerge vb va)
      | _ => v
      end
  end.
Definition merge_kvs := merge_kvs_with tmerge.

(* json operator+ (copy, then +=) *)
Definition jadd (a b : json) : res json :=
  match b with
  | None => Ok a                                   (* "Nothing to add" *)
  | Some tb =>
      match a with
      | None =>                                    (* "treat this as an = operator": type := j.type, then the switch *)
          match tb with
          | Obj kb => Ok (Some (Obj (merge_kvs kb [])))
          | Leaf _ => Ok (Some tb)                 (* 0 + n, empty string + s *)
          end
      | Some ta =>
          match ta, tb with
          | Leaf (VNum x), Leaf (VNum y) => Ok (Some (Leaf (VNum (x + y))))
          | Leaf (VStr x), Leaf (VStr y) => Ok (Some (Leaf (VStr (x ++ y))))
          | Obj ka, Obj kb => Ok (Some (Obj (merge_kvs kb ka)))
          | _, _ => Err                            (* "Cannot apply operator + with different JSON types" *)
          end
      end
  end.

(* ---- json::remove(path) ---- *)
Fixpoint tremove (ks : path) (t : tree) : tree :=
  match ks with
  | [] => t
  | k :: ks' =>
      match t with
      | Leaf _ => t
      | Obj kvs =>
          match ks' with
          | [] => Obj (aremove k kvs)
          | _ => match alookup k kvs with
                 | Some c => Obj (aset k (tremove ks' c) kvs)
                 | None => t
                 end
          end
      end
  end.
Definition jremove (j : json) (p : string) : json :=
  match j with None => None | Some t => Some (tremove (split_path p) t) end.

(* j[k] = v for a single key k (non-const operator[] followed by assignment) *)
Definition jset1 (j : json) (k : key) (v : tree) : res tree :=
  match j with
  | None => Ok (Obj [(k, v)])
  | Some (Obj kvs) => Ok (Obj (aset k v kvs))
  | Some (Leaf _) => Err                           (* OCCA_ERROR: path is not an object *)
  end.

(* ---- modes.cpp: case-insensitive lookup among the enabled modes (Serial, OpenMP in the
   configuration the checks build), Serial when not found ---- *)
Definition lower_ascii (c : ascii) : ascii :=
  let n := nat_of_ascii c in
  if andb (Nat.leb 65 n) (Nat.leb n 90) then ascii_of_nat (n + 32) else c.
Fixpoint lowercase (s : string) : string :=
  match s with EmptyString => EmptyString | String c r => String (lower_ascii c) (lowercase r) end.
Definition canon (s : string) : string :=
  let l := lowercase s in
  if String.eqb l "serial" then "Serial"
  else if String.eqb l "openmp" then "OpenMP"
  else "Serial".

(* (std::string) json: the string itself; the empty string for none (dump of nothing); for numbers and objects
   the dump text, which is not modelled: any text that is not a mode name behaves the same in the
   fixed variant *)
Definition mode_string (j : json) : string :=
  match j with
  | Some (Leaf (VStr s)) => s
  | None => ""
  | Some _ => "#"
  end.

(* ---- variants ---- *)
Record variant : Type := Variant {
  v_nested_remove : bool;   (* getObjectSpecificProps also does allProps.remove(object + "/modes") *)
  v_canon_mode    : bool    (* device::setup uses the registered mode name instead of props["mode"] verbatim *)
}.
Definition pinned : variant := Variant true false.
Definition fixed  : variant := Variant false true.

(* ---- device.cpp ---- *)
Definition getModeSpecificProps (mode : string) (props : json) : res json :=
  r <- jadd props (jget props ("modes/" ++ mode)) ;;
  Ok (jremove r "modes").

Definition getObjectSpecificProps (vr : variant) (mode object : string) (props : json) : res json :=
  r1 <- jadd (jget props object) (jget props (object ++ "/modes/" ++ mode)) ;;
  r2 <- jadd r1 (jget props ("modes/" ++ mode ++ "/" ++ object)) ;;
  let r3 := if v_nested_remove vr then jremove r2 (object ++ "/modes") else r2 in
  Ok (jremove r3 "modes").

Definition initialObjectProps (vr : variant) (mode object : string) (settings props : json) : res tree :=
  a <- getObjectSpecificProps vr mode object settings ;;
  b <- getObjectSpecificProps vr mode object props ;;
  r <- jadd a b ;;
  jset1 r "mode" (Leaf (VStr mode)).

(* device::setup(props) with settings() = settings; returns (modeDevice->mode, modeDevice->properties) *)
Definition setup (vr : variant) (settings props : tree) : res (string * tree) :=
  let S := Some settings in
  let U := Some props in
  let mstr := mode_string (jget U "mode") in
  let mode_ := if v_canon_mode vr then canon mstr else mstr in
  d0 <- getObjectSpecificProps vr mode_ "device" S ;;
  d1 <- getModeSpecificProps mode_ U ;;
  d  <- jadd d0 d1 ;;
  d  <- (if v_canon_mode vr
         then r <- jset1 d "mode" (Leaf (VStr mode_)) ;; Ok (Some r)
         else Ok d) ;;
  k  <- initialObjectProps vr mode_ "kernel" S U ;;
  d  <- jset1 d "kernel" k ;;
  m  <- initialObjectProps vr mode_ "memory" S U ;;
  d  <- jset1 (Some d) "memory" m ;;
  s  <- initialObjectProps vr mode_ "stream" S U ;;
  d  <- jset1 (Some d) "stream" s ;;
  (* newModeDevice: getModeFromProps(deviceProps)->newDevice(setModeProp(deviceProps)) *)
  let M := canon (mode_string (tget d ["mode"])) in
  d  <- jset1 (Some d) "mode" (Leaf (VStr M)) ;;
  Ok (M, d).

(* device::kernelProperties(additional) etc.: object = "kernel" | "memory" | "stream" *)
Definition objectProperties (dev : string * tree) (object : string) : json :=
  tget (snd dev) [object].
Definition objectPropertiesWith (dev : string * tree) (object : string) (additional : json) : res json :=
  a <- getModeSpecificProps (fst dev) additional ;;
  jadd (objectProperties dev object) a.

(* ---- building the inputs (drivers): set the value at a path, a leaf on the way becomes an object ---- *)
Fixpoint tset (ks : path) (v : tree) (t : tree) : tree :=
  match ks with
  | [] => v
  | k :: ks' =>
      let kvs := match t with Obj kvs => kvs | Leaf _ => [] end in
      let c := match alookup k kvs with Some c => c | None => Obj [] end in
      Obj (aset k (tset ks' v c) kvs)
  end.
