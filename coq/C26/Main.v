(* C26 — the theorems of Properties_C26.v, assembled from Proofs.v and Inert.v. *)
From Coq Require Import List ZArith String Ascii Bool Arith Lia.
From OV.C26 Require Import Model Spec Lemmas Proofs Inert.
Import ListNotations.
Local Open Scope string_scope.
Local Open Scope list_scope.

Lemma probe_cons props o q : probe (Some props) (o :: q) = probe (tget props [o]) q.
Proof.
  cbn [probe tget]. destruct props as [v|kvs]; auto.
  destruct (alookup o kvs); auto.
Qed.

Lemma probe_nil_obj j : probe j [] = AObj -> exists kvs, j = Some (Obj kvs).
Proof. destruct j as [[v|kvs]|]; cbn; try discriminate; eauto. Qed.

Lemma is_object_key_cases o : is_object_key o = true -> o = "kernel" \/ o = "memory" \/ o = "stream".
Proof.
  unfold is_object_key. rewrite !orb_true_iff. intros [[H|H]|H]; apply String.eqb_eq in H; auto.
Qed.

Theorem effective_lookup_thm S U :
  wfT S -> wfT U -> wf_setup (spec_mode U) S U = true ->
  exists props,
    setup fixed S U = Ok (spec_mode U, props) /\
    (forall p, probe (Some props) p = spec_device (spec_mode U) S U p) /\
    (forall o, is_object_key o = true ->
       forall p, probe (objectProperties (spec_mode U, props) o) p = spec_object (spec_mode U) o S U p).
Proof.
  intros WS WU Hwf. destruct (setup_ok S U WS WU Hwf) as (props & E & _ & Hp).
  exists props. split; [assumption|]. split; [assumption|].
  intros o Ho p. unfold objectProperties. cbn [snd]. rewrite <- probe_cons, Hp.
  unfold spec_device. now rewrite Ho.
Qed.

Theorem effective_lookup_additional_thm S U A dev :
  wfT S -> wfT U -> wfj A -> setup fixed S U = Ok dev -> wf_with (fst dev) A = true ->
  forall o, is_object_key o = true ->
  exists r, objectPropertiesWith dev o A = Ok r /\
            forall p, probe r p = spec_with (fst dev) (objectProperties dev o) A p.
Proof.
  intros WS WU WA E Hwf o Ho.
  destruct (wf_setup (spec_mode U) S U) eqn:Hs.
  - destruct (effective_lookup_thm S U WS WU Hs) as (props & E' & Hp & Hk).
    rewrite E' in E. assert (Edev : dev = (spec_mode U, props)) by congruence. subst dev. clear E. cbn [fst] in *.
    apply with_ok; [apply canon_nice| |assumption|assumption].
    specialize (Hk o Ho []). unfold objectProperties in Hk. cbn [snd] in Hk.
    destruct (tget props [o]) as [[v|kvs]|]; cbn in Hk; try discriminate; reflexivity.
  - rewrite (setup_err S U WS WU Hs) in E. discriminate.
Qed.

Theorem setup_defined_iff_thm S U :
  wfT S -> wfT U -> ((exists dev, setup fixed S U = Ok dev) <-> wf_setup (spec_mode U) S U = true).
Proof.
  intros WS WU. split.
  - intros [dev E]. destruct (wf_setup (spec_mode U) S U) eqn:Hs; auto.
    rewrite (setup_err S U WS WU Hs) in E. discriminate.
  - intros Hs. destruct (setup_ok S U WS WU Hs) as (props & E & _). eauto.
Qed.

Theorem additional_defined_iff_thm S U A dev o :
  wfT S -> wfT U -> wfj A -> setup fixed S U = Ok dev -> is_object_key o = true ->
  ((exists r, objectPropertiesWith dev o A = Ok r) <-> wf_with (fst dev) A = true).
Proof.
  intros WS WU WA E Ho. split.
  - intros [r Er]. destruct (wf_with (fst dev) A) eqn:Hw; auto.
    destruct (wf_setup (spec_mode U) S U) eqn:Hs.
    + destruct (effective_lookup_thm S U WS WU Hs) as (props & E' & Hp & Hk).
      rewrite E' in E. assert (Edev : dev = (spec_mode U, props)) by congruence. subst dev. clear E. cbn [fst] in *.
      specialize (Hk o Ho []). apply probe_nil_obj in Hk. destruct Hk as [kvs Hk].
      unfold objectProperties in Hk. cbn [snd] in Hk.
      rewrite (with_err (spec_mode U) props o A kvs (canon_nice _) Hk Hw) in Er. discriminate.
    + rewrite (setup_err S U WS WU Hs) in E. discriminate.
  - intros Hw. destruct (effective_lookup_additional_thm S U A dev WS WU WA E Hw o Ho) as (r & Er & _). eauto.
Qed.

Theorem other_modes_inert_thm (m' : key) (S S' U U' : tree) (A A' : json) :
  wfT S -> wfT S' -> wfT U -> wfT U' -> wfj A -> wfj A' ->
  m' <> spec_mode U ->
  agree_off m' settings_positions (Some S) (Some S') ->
  agree_off m' user_positions (Some U) (Some U') ->
  agree_off m' additional_positions A A' ->
  match setup fixed S U, setup fixed S' U' with
  | Err, Err => True
  | Ok dev, Ok dev' =>
      fst dev = fst dev' /\
      (forall p, probe (Some (snd dev)) p = probe (Some (snd dev')) p) /\
      (forall o, is_object_key o = true ->
         match objectPropertiesWith dev o A, objectPropertiesWith dev' o A' with
         | Err, Err => True
         | Ok r, Ok r' => forall p, probe r p = probe r' p
         | _, _ => False
         end)
  | _, _ => False
  end.
Proof.
  intros WS WS' WU WU' WA WA' Hm HS HU HA.
  pose proof (spec_mode_agree m' U U' HU) as EM.
  set (M := spec_mode U) in *.
  assert (HMm : String.eqb M m' = false) by (apply String.eqb_neq; congruence).
  pose proof (wf_setup_agree M m' HMm S S' U U' HS HU) as Ewf.
  destruct (wf_setup M S U) eqn:Hs.
  - destruct (effective_lookup_thm S U WS WU Hs) as (props & E & Hp & Hk).
    assert (Hs' : wf_setup (spec_mode U') S' U' = true) by (rewrite <- EM; congruence).
    destruct (effective_lookup_thm S' U' WS' WU' Hs') as (props' & E' & Hp' & Hk').
    fold M in E, Hp, Hk. rewrite <- EM in E', Hp', Hk'. rewrite E, E'. cbn [fst snd].
    split; [reflexivity|]. split.
    + intros p. rewrite Hp, Hp'. apply (spec_device_agree M m' HMm); assumption.
    + intros o Ho.
      assert (HK : forall q, probe (objectProperties (M, props) o) q = probe (objectProperties (M, props') o) q).
      { intros q. rewrite Hk, Hk' by assumption. apply (spec_object_agree M m' HMm); auto using is_object_key_cases. }
      pose proof (wf_with_agree M m' HMm A A' HA) as Eww.
      destruct (wf_with M A) eqn:Hw.
      * destruct (effective_lookup_additional_thm S U A (M, props) WS WU WA E Hw o Ho) as (r & Er & Hr).
        symmetry in Eww.
        destruct (effective_lookup_additional_thm S' U' A' (M, props') WS' WU' WA' E' Eww o Ho) as (r' & Er' & Hr').
        rewrite Er, Er'. intros p. rewrite Hr, Hr'. cbn [fst]. now apply (spec_with_agree M m' HMm).
      * pose proof (Hk o Ho []) as Hk0. apply probe_nil_obj in Hk0. destruct Hk0 as [kvs Hk0].
        pose proof (Hk' o Ho []) as Hk0'. apply probe_nil_obj in Hk0'. destruct Hk0' as [kvs' Hk0'].
        unfold objectProperties in Hk0, Hk0'. cbn [snd] in Hk0, Hk0'.
        rewrite (with_err M props o A kvs (canon_nice _) Hk0 Hw).
        symmetry in Eww.
        now rewrite (with_err M props' o A' kvs' (canon_nice _) Hk0' Eww).
  - rewrite (setup_err S U WS WU Hs).
    assert (Hs' : wf_setup (spec_mode U') S' U' = false) by (rewrite <- EM; congruence).
    now rewrite (setup_err S' U' WS' WU' Hs').
Qed.

Theorem no_modes_key_thm S U A dev :
  wfT S -> wfT U -> wfj A -> setup fixed S U = Ok dev ->
  probe (Some (snd dev)) ["modes"] = ANone /\
  (forall o, is_object_key o = true ->
     probe (objectProperties dev o) ["modes"] = ANone /\
     (forall r, objectPropertiesWith dev o A = Ok r -> probe r ["modes"] = ANone)).
Proof.
  intros WS WU WA E.
  destruct (wf_setup (spec_mode U) S U) eqn:Hs.
  - destruct (effective_lookup_thm S U WS WU Hs) as (props & E' & Hp & Hk).
    rewrite E' in E. assert (Edev : dev = (spec_mode U, props)) by congruence. subst dev. clear E. cbn [fst snd].
    split; [now rewrite Hp|]. intros o Ho.
    assert (HK : probe (objectProperties (spec_mode U, props) o) ["modes"] = ANone) by now rewrite Hk.
    split; [assumption|]. intros r Er.
    destruct (wf_with (spec_mode U) A) eqn:Hw.
    + destruct (effective_lookup_additional_thm S U A _ WS WU WA E' Hw o Ho) as (r' & Er' & Hr').
      rewrite Er' in Er. injection Er as <-. rewrite Hr'. cbn [fst].
      unfold spec_with. rewrite lwalk_sub_nil. cbn [hide]. change (String.eqb "modes" "modes") with true. cbn iota.
      rewrite probe_answer in HK.
      destruct (jwalk (objectProperties (spec_mode U, props) o) ["modes"]) eqn:Ew; cbn in HK; try discriminate; cbn.
      * reflexivity.
      * destruct d; reflexivity.
    + pose proof (Hk o Ho []) as Hk0. apply probe_nil_obj in Hk0. destruct Hk0 as [kvs Hk0].
      unfold objectProperties in Hk0. cbn [snd] in Hk0.
      rewrite (with_err (spec_mode U) props o A kvs (canon_nice _) Hk0 Hw) in Er. discriminate.
  - rewrite (setup_err S U WS WU Hs) in E. discriminate.
Qed.
