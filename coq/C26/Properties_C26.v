(* C26 — mode-specific properties override generic ones only for their mode.

   Vocabulary (Model.v / Spec.v):
     setup vr S U                  device::setup(U) with occa::settings() = S: Ok (mode, properties) | Err
     objectProperties dev o        dev.kernelProperties() / memoryProperties() / streamProperties()
     objectPropertiesWith dev o A  dev.kernelProperties(A) / ...
     fixed / pinned                the code after / before fixes/C26-1.patch and fixes/C26-2.patch
     probe j p                     what the tree j holds at path p: nothing, a leaf value, an object
     spec_device / spec_object / spec_with   the declarative lookup rule (Spec.v): per path, the answer of
                                   settings-layers `Over` user-layers, each  generic `Over` mode-specific
     spec_mode U                   the registered mode named by U["mode"] up to case, else Serial
     wf_setup / wf_with            every layer position holds an object or nothing
     wfT                           no duplicate keys (std::map)
     agree_off m' positions X X'   X and X' differ at most under <position>/modes/<m'>                     *)
From Coq Require Import List ZArith String Ascii Bool.
From OV.C26 Require Import Model Spec Lemmas Proofs Inert Main.
Import ListNotations.
Local Open Scope string_scope.
Local Open Scope list_scope.

(* (a) effective_lookup: on every input on which construction is defined, it succeeds with the
   registered mode, and the resulting property tree holds at EVERY path exactly what the
   layering rule says; likewise the three object property sets. *)
Theorem effective_lookup :
  forall (S U : tree),
    wfT S -> wfT U -> wf_setup (spec_mode U) S U = true ->
    exists props,
      setup fixed S U = Ok (spec_mode U, props) /\
      (forall p, probe (Some props) p = spec_device (spec_mode U) S U p) /\
      (forall o, is_object_key o = true ->
         forall p, probe (objectProperties (spec_mode U, props) o) p = spec_object (spec_mode U) o S U p).
Proof. exact effective_lookup_thm. Qed.
Print Assumptions effective_lookup.

(* (a') the per-call variants: K overridden by A overridden by A/modes/<mode> *)
Theorem effective_lookup_additional :
  forall (S U : tree) (A : json) (dev : string * tree),
    wfT S -> wfT U -> wfj A -> setup fixed S U = Ok dev -> wf_with (fst dev) A = true ->
    forall o, is_object_key o = true ->
    exists r, objectPropertiesWith dev o A = Ok r /\
              forall p, probe r p = spec_with (fst dev) (objectProperties dev o) A p.
Proof. exact effective_lookup_additional_thm. Qed.
Print Assumptions effective_lookup_additional.

(* the functions throw exactly when a layer position holds a non-object *)
Theorem setup_defined_iff :
  forall (S U : tree), wfT S -> wfT U ->
    ((exists dev, setup fixed S U = Ok dev) <-> wf_setup (spec_mode U) S U = true).
Proof. exact setup_defined_iff_thm. Qed.
Print Assumptions setup_defined_iff.

Theorem additional_defined_iff :
  forall (S U : tree) (A : json) (dev : string * tree) (o : key),
    wfT S -> wfT U -> wfj A -> setup fixed S U = Ok dev -> is_object_key o = true ->
    ((exists r, objectPropertiesWith dev o A = Ok r) <-> wf_with (fst dev) A = true).
Proof. exact additional_defined_iff_thm. Qed.
Print Assumptions additional_defined_iff.

(* the rule read as "first defined of ...": the layers in priority order *)
Example device_priority (M : key) (S U : tree) :
  priority (Over (object_layers M "device" S) (mode_layers M (Some U))) =
  [Sub (Some U) ["modes"; M]; Sub (Some U) [];
   Sub (Some S) ["modes"; M; "device"]; Sub (Some S) ["device"; "modes"; M]; Sub (Some S) ["device"]].
Proof. reflexivity. Qed.

Example object_priority (M o : key) (S U : tree) :
  priority (Over (object_layers M o S) (object_layers M o U)) =
  [Sub (Some U) ["modes"; M; o]; Sub (Some U) [o; "modes"; M]; Sub (Some U) [o];
   Sub (Some S) ["modes"; M; o]; Sub (Some S) [o; "modes"; M]; Sub (Some S) [o]].
Proof. reflexivity. Qed.

Theorem first_defined_decides :
  forall (l : lay) (p : path) (i : nat) (x : lay),
    nth_error (priority l) i = Some x ->
    (forall j y, j < i -> nth_error (priority l) j = Some y -> silent (lwalk y p)) ->
    hit (lwalk x p) ->
    lwalk l p = lwalk x p.
Proof. exact first_defined. Qed.
Print Assumptions first_defined_decides.

(* (b) other_modes_inert: whatever is changed under modes/<m'>, kernel/modes/<m'>, ... for a mode m'
   other than the device's, in the user properties, the settings and the additional properties:
   same exceptions, same mode, and every lookup in every result is unchanged. *)
Theorem other_modes_inert :
  forall (m' : key) (S S' U U' : tree) (A A' : json),
    wfT S -> wfT S' -> wfT U -> wfT U' -> wfj A -> wfj A' ->
    m' <> spec_mode U ->
    agree_off m' settings_positions (Some S) (Some S') ->
    agree_off m' user_positions (Some U) (Some U') ->
    agree_off m' additional_positions A A' ->
    match setup fixed S U, setup fixed S' U' with
    | Err, Err => True
    | Ok dev, Ok dev' =>
        fst dev = fst dev' /\
        (forall p, probe (Some (snd dev)) p = probe (Some (snd dev')) p) /\
        (forall o, is_object_key o = true ->
           match objectPropertiesWith dev o A, objectPropertiesWith dev' o A' with
           | Err, Err => True
           | Ok r, Ok r' => forall p, probe r p = probe r' p
           | _, _ => False
           end)
    | _, _ => False
    end.
Proof. exact other_modes_inert_thm. Qed.
Print Assumptions other_modes_inert.

(* (c) no_modes_key_in_result *)
Theorem no_modes_key_in_result :
  forall (S U : tree) (A : json) (dev : string * tree),
    wfT S -> wfT U -> wfj A -> setup fixed S U = Ok dev ->
    probe (Some (snd dev)) ["modes"] = ANone /\
    (forall o, is_object_key o = true ->
       probe (objectProperties dev o) ["modes"] = ANone /\
       (forall r, objectPropertiesWith dev o A = Ok r -> probe r ["modes"] = ANone)).
Proof. exact no_modes_key_thm. Qed.
Print Assumptions no_modes_key_in_result.

(* ---- non-vacuity: overlapping keys at every layer, both modes present ---- *)
Definition n (z : Z) : tree := Leaf (VNum z).
Definition exU : tree :=
  Obj [("mode", Leaf (VStr "openmp"));
       ("a", n 1); ("b", Obj [("x", n 2)]);
       ("modes", Obj [("OpenMP", Obj [("a", n 3); ("kernel", Obj [("a", n 4)])]);
                      ("Serial", Obj [("a", n 5); ("kernel", Obj [("a", n 6)])])]);
       ("kernel", Obj [("a", n 7); ("c", n 8);
                       ("modes", Obj [("OpenMP", Obj [("a", n 9); ("c", n 10)]); ("Serial", Obj [("c", n 11)])])])].
Definition exS : tree :=
  Obj [("device", Obj [("a", n 20); ("d", n 21); ("b", n 22);
                       ("modes", Obj [("OpenMP", Obj [("d", n 23)]); ("Serial", Obj [("d", n 24)])])]);
       ("kernel", Obj [("a", n 25); ("e", n 26)]);
       ("modes", Obj [("OpenMP", Obj [("kernel", Obj [("e", n 27)]); ("device", Obj [("f", n 28)])])])].
Definition exA : json :=
  Some (Obj [("c", n 30); ("g", n 31);
             ("modes", Obj [("OpenMP", Obj [("g", n 32)]); ("Serial", Obj [("g", n 33)])])]).

Example ex_hypotheses :
  wfT exS /\ wfT exU /\ wfj exA /\ spec_mode exU = "OpenMP" /\
  wf_setup "OpenMP" exS exU = true /\ wf_with "OpenMP" exA = true.
Proof.
  split; [apply wfb_sound; reflexivity|]. split; [apply wfb_sound; reflexivity|].
  split; [apply wfb_sound; reflexivity|]. repeat split.
Qed.

Example ex_results :
  exists props,
    setup fixed exS exU = Ok ("OpenMP", props) /\
    probe (Some props) ["a"] = ALeaf (VNum 3) /\            (* user modes/OpenMP over user generic over settings *)
    probe (Some props) ["b"; "x"] = ALeaf (VNum 2) /\       (* user object replaces the settings' leaf *)
    probe (Some props) ["d"] = ALeaf (VNum 23) /\           (* settings device/modes/OpenMP over device *)
    probe (Some props) ["f"] = ALeaf (VNum 28) /\
    probe (Some props) ["kernel"; "a"] = ALeaf (VNum 4) /\  (* modes/OpenMP/kernel over kernel/modes/OpenMP over kernel *)
    probe (Some props) ["kernel"; "c"] = ALeaf (VNum 10) /\
    probe (Some props) ["kernel"; "e"] = ALeaf (VNum 27) /\
    probe (Some props) ["kernel"; "mode"] = ALeaf (VStr "OpenMP") /\
    probe (Some props) ["modes"] = ANone /\
    exists r, objectPropertiesWith ("OpenMP", props) "kernel" exA = Ok r /\
              probe r ["c"] = ALeaf (VNum 30) /\ probe r ["g"] = ALeaf (VNum 32) /\ probe r ["a"] = ALeaf (VNum 4).
Proof. vm_compute. eexists. repeat split. eexists. repeat split. Qed.

(* ---- the code as found (variant pinned) violates (a), (b) and, through the nested remove, drops a generic entry ---- *)

(* mode: "serial" selects the Serial mode (modes are matched case-insensitively), but modes/Serial
   is not applied *)
Theorem pinned_mode_spelling_refuted :
  exists (S U : tree) (props : tree) (p : path),
    wfT S /\ wfT U /\ wf_setup (spec_mode U) S U = true /\
    setup pinned S U = Ok (spec_mode U, props) /\
    probe (Some props) p <> spec_device (spec_mode U) S U p.
Proof.
  exists (Obj []), (Obj [("mode", Leaf (VStr "serial")); ("a", n 1); ("modes", Obj [("Serial", Obj [("a", n 2)])])]).
  eexists. exists ["a"].
  split; [apply wfb_sound; reflexivity|]. split; [apply wfb_sound; reflexivity|].
  split; [reflexivity|]. split; [vm_compute; reflexivity|]. vm_compute. discriminate.
Qed.
Print Assumptions pinned_mode_spelling_refuted.

(* no "mode": the device is Serial, but "modes/" + "" addresses the whole modes object, whose
   entries become top-level properties: entries of other modes take effect *)
Theorem pinned_absent_mode_refuted :
  exists (S U U' : tree) (props props' : tree) (p : path),
    wfT S /\ wfT U /\ wfT U' /\ "OpenMP" <> spec_mode U /\
    agree_off "OpenMP" user_positions (Some U) (Some U') /\
    setup pinned S U = Ok (spec_mode U, props) /\
    setup pinned S U' = Ok (spec_mode U', props') /\
    probe (Some props) p <> probe (Some props') p.
Proof.
  exists (Obj []), (Obj [("modes", Obj [("OpenMP", Obj [("a", n 3)])])]),
         (Obj [("modes", Obj [("OpenMP", Obj [("a", n 4)])])]).
  eexists. eexists. exists ["OpenMP"; "a"].
  split; [apply wfb_sound; reflexivity|]. split; [apply wfb_sound; reflexivity|].
  split; [apply wfb_sound; reflexivity|]. split; [vm_compute; discriminate|].
  split.
  - intros p H. destruct p as [|k p]; [reflexivity|].
    cbn [probe tget alookup].
    destruct (String.eqb k "modes") eqn:Ek; [|reflexivity].
    apply String.eqb_eq in Ek; subst k.
    destruct p as [|k2 p]; [reflexivity|].
    cbn [tget alookup].
    destruct (String.eqb k2 "OpenMP") eqn:Ek2; [|reflexivity].
    apply String.eqb_eq in Ek2; subst k2. vm_compute in H. discriminate.
  - split; [vm_compute; reflexivity|]. split; [vm_compute; reflexivity|]. vm_compute. discriminate.
Qed.
Print Assumptions pinned_absent_mode_refuted.

(* getObjectSpecificProps removes "<object>/modes" from the already extracted object: the generic
   entry kernel/kernel/modes is lost *)
Theorem pinned_nested_modes_refuted :
  exists (S U : tree) (props : tree) (p : path),
    wfT S /\ wfT U /\ wf_setup (spec_mode U) S U = true /\
    setup pinned S U = Ok (spec_mode U, props) /\
    probe (Some props) p <> spec_device (spec_mode U) S U p.
Proof.
  exists (Obj []), (Obj [("mode", Leaf (VStr "Serial")); ("kernel", Obj [("kernel", Obj [("modes", n 1); ("x", n 2)])])]).
  eexists. exists ["kernel"; "kernel"; "modes"].
  split; [apply wfb_sound; reflexivity|]. split; [apply wfb_sound; reflexivity|].
  split; [reflexivity|]. split; [vm_compute; reflexivity|]. vm_compute. discriminate.
Qed.
Print Assumptions pinned_nested_modes_refuted.
