(* C26 — reference semantics of property layering, stated per path and independently of the
   tree operations of Model.v (only the tree type and the map lookup are shared).

   A *layer* is the part of an input tree below some prefix (`Sub X q`: "the entries of X under
   q").  A layer answers a query path p by walking q ++ p in X:

     HitLeaf v / HitObj : the path exists in the layer,
     Silent d           : the layer has nothing to say: after d keys of p the next key is missing,
     Blocked d          : after d keys of p the layer holds a leaf, so nothing can be below it.

   `Over lo hi` gives hi priority: hi decides unless it is silent about p; then lo decides,
   except that a leaf of lo at a place where hi has an object (d' <= d) has been replaced by hi's
   object and no longer blocks.  The effective value of p is the answer of the layering

       settings-layers `Over` user-layers,   each being   generic `Over` mode-specific,

   with every path that starts with the key "modes" undefined. *)
From Coq Require Import List ZArith String Ascii Bool Arith.
From OV.C26 Require Import Model.
Import ListNotations.
Local Open Scope string_scope.
Local Open Scope list_scope.

Inductive wres : Type :=
| Silent (d : nat)
| Blocked (d : nat)
| HitLeaf (v : value)
| HitObj.

Definition deeper (w : wres) : wres :=
  match w with Silent d => Silent (S d) | Blocked d => Blocked (S d) | x => x end.

Fixpoint walk (t : tree) (p : path) : wres :=
  match p with
  | [] => match t with Leaf v => HitLeaf v | Obj _ => HitObj end
  | k :: p' =>
      match t with
      | Leaf _ => Blocked 0
      | Obj kvs => match alookup k kvs with
                   | None => Silent 0
                   | Some c => deeper (walk c p')
                   end
      end
  end.

(* the walk of q ++ p seen from the layer below q (n = length q): falling off or meeting a leaf
   inside q means that the layer is absent *)
Definition rebase (n : nat) (w : wres) : wres :=
  match w with
  | Silent d => Silent (d - n)%nat
  | Blocked d => if (d <? n)%nat then Silent 0 else Blocked (d - n)%nat
  | x => x
  end.

Definition combine (lo hi : wres) : wres :=
  match hi with
  | Silent d =>
      match lo with
      | Blocked d' => if (d' <=? d)%nat then Silent d else Blocked d'
      | Silent d' => Silent (Nat.max d d')
      | x => x
      end
  | x => x
  end.

Inductive lay : Type :=
| Sub (X : json) (q : path)
| Over (lo hi : lay).

Fixpoint lwalk (l : lay) (p : path) : wres :=
  match l with
  | Sub None _ => Silent 0
  | Sub (Some X) q => rebase (List.length q) (walk X (q ++ p)%list)
  | Over lo hi => combine (lwalk lo p) (lwalk hi p)
  end.

Inductive ans : Type := ANone | ALeaf (v : value) | AObj.
Definition answer (w : wres) : ans :=
  match w with HitLeaf v => ALeaf v | HitObj => AObj | _ => ANone end.

(* what a resulting tree says about a path *)
Definition probe (j : json) (p : path) : ans :=
  match j with
  | None => ANone
  | Some t => match tget t p with
              | None => ANone
              | Some (Leaf v) => ALeaf v
              | Some (Obj _) => AObj
              end
  end.

(* property trees are std::maps: no key occurs twice in an object, at any depth *)
Fixpoint wfT (t : tree) : Prop :=
  match t with
  | Leaf _ => True
  | Obj kvs =>
      NoDup (map fst kvs) /\
      (fix all (l : list (key * tree)) : Prop :=
         match l with [] => True | kv :: l' => wfT (snd kv) /\ all l' end) kvs
  end.
Definition wfj (j : json) : Prop := match j with None => True | Some t => wfT t end.

(* ---- the layering of device.cpp, M = the device's mode ---- *)

(* entries of X for `object`: X/<object>, overridden by X/<object>/modes/<M>, overridden by
   X/modes/<M>/<object> *)
Definition object_layers (M object : key) (X : tree) : lay :=
  Over (Over (Sub (Some X) [object]) (Sub (Some X) [object; "modes"; M]))
       (Sub (Some X) ["modes"; M; object]).

(* X's own entries overridden by X/modes/<M> *)
Definition mode_layers (M : key) (X : json) : lay :=
  Over (Sub X []) (Sub X ["modes"; M]).

Definition leaf_key (v : value) (rest : path) : ans :=
  match rest with [] => ALeaf v | _ => ANone end.

(* device.kernelProperties() / memoryProperties() / streamProperties() *)
Definition spec_object (M object : key) (S U : tree) (p : path) : ans :=
  match p with
  | [] => AObj
  | k :: rest =>
      if String.eqb k "mode" then leaf_key (VStr M) rest
      else if String.eqb k "modes" then ANone
      else answer (lwalk (Over (object_layers M object S) (object_layers M object U)) p)
  end.

Definition is_object_key (k : key) : bool :=
  String.eqb k "kernel" || String.eqb k "memory" || String.eqb k "stream".

(* device.properties() *)
Definition spec_device (M : key) (S U : tree) (p : path) : ans :=
  match p with
  | [] => AObj
  | k :: rest =>
      if is_object_key k then spec_object M k S U rest
      else if String.eqb k "mode" then leaf_key (VStr M) rest
      else if String.eqb k "modes" then ANone
      else answer (lwalk (Over (object_layers M "device" S) (mode_layers M (Some U))) p)
  end.

(* a layer whose entries under the top-level key k are ignored *)
Definition hide (k : key) (p : path) (w : wres) : wres :=
  match p with
  | k' :: _ => if String.eqb k' k then Silent 0 else w
  | [] => w
  end.

(* device.kernelProperties(A) etc., K = the device's properties for that object: K overridden by
   A's entries, themselves overridden by A/modes/<M>; A's "modes" entry itself is ignored *)
Definition spec_with (M : key) (K : json) (A : json) (p : path) : ans :=
  answer (combine (lwalk (Sub K []) p) (hide "modes" p (lwalk (mode_layers M A) p))).

(* the device's mode: the enabled mode whose name equals props["mode"] up to case, else Serial *)
Definition spec_mode (U : tree) : key := canon (mode_string (tget U ["mode"])).

(* inputs on which device construction / the per-call functions are defined (no exception):
   wherever the layering looks for a set of entries there is an object or nothing *)
Definition objnone (j : json) : bool :=
  match j with Some (Leaf _) => false | _ => true end.

Definition wf_object (M object : key) (X : tree) : bool :=
  objnone (tget X [object]) && objnone (tget X [object; "modes"; M]) && objnone (tget X ["modes"; M; object]).

Definition wf_setup (M : key) (S U : tree) : bool :=
  objnone (Some U) && wf_object M "device" S && objnone (tget U ["modes"; M])
  && wf_object M "kernel" S && wf_object M "kernel" U
  && wf_object M "memory" S && wf_object M "memory" U
  && wf_object M "stream" S && wf_object M "stream" U.

Definition wf_with (M : key) (A : json) : bool :=
  objnone A && objnone (match A with Some a => tget a ["modes"; M] | None => None end).

(* ---- "anything under modes/<m'>" for another mode m', at any layer ---- *)
Fixpoint prefixb (q p : path) : bool :=
  match q with
  | [] => true
  | k :: q' => match p with
               | k' :: p' => String.eqb k k' && prefixb q' p'
               | [] => false
               end
  end.

(* p lies under <pre>/modes/<m'> for one of the given prefixes *)
Definition other_mode_path (m' : key) (pres : list path) (p : path) : bool :=
  existsb (fun pre => prefixb (pre ++ ["modes"; m'])%list p) pres.

(* where mode-specific entries are looked for: in user properties at the top level and inside
   kernel/memory/stream ("device" is an ordinary key there); in the settings also inside device;
   in additional properties at the top level *)
Definition user_positions : list path := [[]; ["kernel"]; ["memory"]; ["stream"]].
Definition settings_positions : list path := [[]; ["kernel"]; ["memory"]; ["stream"]; ["device"]].
Definition additional_positions : list path := [[]].

(* X and X' say the same about every path that is not under modes/<m'> *)
Definition agree_off (m' : key) (pres : list path) (X X' : json) : Prop :=
  forall p, other_mode_path m' pres p = false -> probe X p = probe X' p.

(* ---- the layers of a layering, highest priority first ---- *)
Fixpoint priority (l : lay) : list lay :=
  match l with
  | Sub _ _ => [l]
  | Over lo hi => (priority hi ++ priority lo)%list
  end.
Definition silent (w : wres) : Prop := exists d, w = Silent d.
Definition hit (w : wres) : Prop := w = HitObj \/ exists v, w = HitLeaf v.
