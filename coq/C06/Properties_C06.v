(* C06 -- kernel cache keys separate every build configuration.  Statements only; proofs in Proofs.v.

   Vocabulary (Model.v / Spec.v / Statements.v):
     cfg            one kernel build: device mode, source text, merged kernel properties (path -> JSON value)
     shape          how the key is composed: per mode a list of terms that are XORed
                      TField p   = hash of the value of property p alone        (occa::hash(props["p"]))
                      TRecord ps = hash of ONE object {p: value | p in ps, set} (kernelPropsHash(props, {...}))
                      TConst s / TConstVal j / TSource = string literal / settings()["version"] / kernel source
     key sh c       the key as an ideal XOR hash value: the set of atoms occurring an odd number of times
     effective c    the sub-record the build consumes (mode, source, values at Spec.effective_paths);
                    Spec.build (compiler command line, header inputs, parser settings) is a function of it
     good_shape     decidable: no TField, records duplicate-free and pairwise disjoint and covering the
                    effective paths, literals distinct and different between the modes, source hashed once
     dom_sepb sh c  domain separation: the source text is not one of the string literals the key hashes
                    ("host", "openmp device::hash", ...).  The other half of the separation -- a raw text
                    is never the dump of a hashed JSON value, and dump is injective (C24) -- is built into
                    the atoms (ARaw / AVal).
   The shape of the CURRENT tree is generated from the C++ text on every run (coq/gen/C06_KeyFields.v);
   coq/gen/C06_KeyChecks.v re-proves `good_shape effective_paths gen_shape = true` and instantiates
   key_injective for it.  pinned_shape is the composition at the snapshot, fixed_shape the one after
   fixes/C06-1.patch. *)
From stdpp Require Import base gmap.
From Coq Require Import List String ZArith Bool.
From OV.C06 Require Import XorHash Model Spec Statements Proofs.
Import ListNotations.
Local Open Scope string_scope.

(* MAIN.  Two builds share a cache entry only if their effective inputs are identical: for every
   well-formed key composition, all configurations (any JSON values, any source texts, any further
   properties). *)
Theorem key_injective : forall (sh : shape) (c1 c2 : cfg),
  good_shape effective_paths sh = true ->
  dom_sepb sh c1 = true -> dom_sepb sh c2 = true ->
  key sh c1 = key sh c2 -> effective c1 = effective c2.
Proof. exact Proofs.key_injective. Qed.

(* ... and then they run the same compiler command on the same generated source *)
Theorem key_injective_build : forall (sh : shape) (c1 c2 : cfg) env text truth vsf vstd omp,
  good_shape effective_paths sh = true ->
  dom_sepb sh c1 = true -> dom_sepb sh c2 = true ->
  key sh c1 = key sh c2 ->
  build env text truth vsf vstd omp c1 = build env text truth vsf vstd omp c2.
Proof.
  intros sh c1 c2 env text truth vsf vstd omp Hg H1 H2 Hk.
  apply build_factors. exact (Proofs.key_injective sh c1 c2 Hg H1 H2 Hk).
Qed.

(* Identical builds resolve to the same entry: the key is a function of the configuration only (no
   address, time or process id enters the model; the check compares the keys of two processes). *)
Theorem same_cfg_same_key : forall (sh : shape) (c1 c2 : cfg),
  c_mode c1 = c_mode c2 -> c_source c1 = c_source c2 -> (forall p, get c1 p = get c2 p) ->
  key sh c1 = key sh c2.
Proof. exact Proofs.same_cfg_same_key. Qed.

(* the composition after fixes/C06-1.patch is well formed, whatever the version string *)
Theorem fixed_shape_good : forall ver, good_shape effective_paths (fixed_shape ver) = true.
Proof. exact Proofs.fixed_shape_good. Qed.

Corollary fixed_key_injective : forall ver c1 c2,
  dom_sepb (fixed_shape ver) c1 = true -> dom_sepb (fixed_shape ver) c2 = true ->
  key (fixed_shape ver) c1 = key (fixed_shape ver) c2 -> effective c1 = effective c2.
Proof. intros ver c1 c2. exact (Proofs.key_injective _ c1 c2 (Proofs.fixed_shape_good ver)). Qed.

Print Assumptions key_injective.
Print Assumptions key_injective_build.
Print Assumptions same_cfg_same_key.
Print Assumptions fixed_shape_good.
Print Assumptions fixed_key_injective.

(* ================================================================== the pinned composition is refuted *)
Definition k0 : string := "@kernel void k(int *out) { /* ... */ }".
Definition cfgS (props : list (string * jv)) : cfg := mkCfg Serial k0 (("mode", JStr "Serial") :: props).

(* DESIGN section 8 #10: values that move between properties.  compiler_flags = "-O1" with
   compiler_linker_flags = "-O2" and the swapped pair have the same key. *)
Definition swap1 := cfgS [("compiler_flags", JStr "-O1"); ("compiler_linker_flags", JStr "-O2")].
Definition swap2 := cfgS [("compiler_flags", JStr "-O2"); ("compiler_linker_flags", JStr "-O1")].

Theorem xor_swap_collision_refuted : forall ver,
  dom_sepb (pinned_shape ver) swap1 = true /\ dom_sepb (pinned_shape ver) swap2 = true /\
  key (pinned_shape ver) swap1 = key (pinned_shape ver) swap2 /\ effective swap1 <> effective swap2.
Proof.
  intros ver. split; [vm_compute; reflexivity|]. split; [vm_compute; reflexivity|]. split.
  - apply pinned_key_eq. vm_compute. reflexivity.
  - apply effective_neq. vm_compute. reflexivity.
Qed.

(* #10: equal values cancel.  A build that defines X=5 (and has an equal `functions` entry) has the key of
   the build without any of the two; so does one with two equal flag strings. *)
Definition cancel1 := cfgS [("defines", JObj [("X", JInt 5)]); ("functions", JObj [("X", JInt 5)])].
Definition cancel2 := cfgS [].
Definition cancel3 := cfgS [("compiler_flags", JStr "-O0"); ("compiler_linker_flags", JStr "-O0")].

Theorem xor_cancel_collision_refuted : forall ver,
  dom_sepb (pinned_shape ver) cancel1 = true /\ dom_sepb (pinned_shape ver) cancel2 = true /\
  key (pinned_shape ver) cancel1 = key (pinned_shape ver) cancel2 /\ effective cancel1 <> effective cancel2 /\
  key (pinned_shape ver) cancel3 = key (pinned_shape ver) cancel2 /\ effective cancel3 <> effective cancel2.
Proof.
  intros ver. split; [vm_compute; reflexivity|]. split; [vm_compute; reflexivity|].
  split; [|split; [|split]].
  - apply pinned_key_eq. vm_compute. reflexivity.
  - apply effective_neq. vm_compute. reflexivity.
  - apply pinned_key_eq. vm_compute. reflexivity.
  - apply effective_neq. vm_compute. reflexivity.
Qed.

(* #11: settings that change the generated code are not in the key at all *)
Definition okl1 := cfgS [("okl/include_paths", JArr [JStr "/opt/a"])].
Definition okl2 := cfgS [("okl/include_paths", JArr [JStr "/opt/b"])].
Definition okl3 := cfgS [("serial/include_std", JBool true)].
Definition okl4 := cfgS [("okl/restrict", JStr "disabled")].
Definition okl5 := cfgS [("kernel/include_occa", JBool true)].
Definition okl6 := cfgS [("okl/enabled", JBool false)].

Theorem okl_settings_not_in_key_refuted : forall ver,
  key (pinned_shape ver) okl1 = key (pinned_shape ver) okl2 /\ effective okl1 <> effective okl2 /\
  Forall (fun c => key (pinned_shape ver) c = key (pinned_shape ver) cancel2 /\ effective c <> effective cancel2)
         [okl1; okl3; okl4; okl5; okl6].
Proof.
  intros ver. split; [|split].
  - apply pinned_key_eq. vm_compute. reflexivity.
  - apply effective_neq. vm_compute. reflexivity.
  - repeat (apply Forall_cons; [split; [apply pinned_key_eq; vm_compute; reflexivity
                                          | apply effective_neq; vm_compute; reflexivity]|]).
    apply Forall_nil.
Qed.

Theorem pinned_shape_not_good : forall ver, good_shape effective_paths (pinned_shape ver) = false.
Proof. exact Proofs.pinned_shape_bad. Qed.

Print Assumptions xor_swap_collision_refuted.
Print Assumptions xor_cancel_collision_refuted.
Print Assumptions okl_settings_not_in_key_refuted.

(* ================================================================== non-vacuity *)
(* with the fixed composition the same witnesses have different keys *)
Example fixed_separates_witnesses :
  keys_equal (fixed_shape "2.0.0") swap1 swap2 = false /\
  keys_equal (fixed_shape "2.0.0") cancel1 cancel2 = false /\
  keys_equal (fixed_shape "2.0.0") cancel3 cancel2 = false /\
  forallb (fun c => negb (keys_equal (fixed_shape "2.0.0") c cancel2)) [okl1; okl2; okl3; okl4; okl5; okl6] = true /\
  keys_equal (fixed_shape "2.0.0") okl1 okl2 = false.
Proof. vm_compute. repeat split; reflexivity. Qed.

(* the hypotheses of key_injective are met by real-looking configurations, Serial against OpenMP too *)
Example hypotheses_inhabited :
  let c1 := cfgS [("defines", JObj [("N", JInt 16)]); ("compiler_flags", JStr "-O2 -g")] in
  let c2 := mkCfg OpenMP k0 [("mode", JStr "OpenMP"); ("defines", JObj [("N", JInt 16)]); ("compiler_flags", JStr "-O2 -g")] in
  dom_sepb (fixed_shape "2.0.0") c1 = true /\ dom_sepb (fixed_shape "2.0.0") c2 = true /\
  keys_equal (fixed_shape "2.0.0") c1 c1 = true /\ keys_equal (fixed_shape "2.0.0") c1 c2 = false.
Proof. vm_compute. repeat split; reflexivity. Qed.

(* domain separation is needed: a "kernel" whose text is the literal `host` cancels the device hash *)
Example dom_sep_needed :
  let c := mkCfg Serial "host" [] in
  dom_sepb (fixed_shape "2.0.0") c = false /\
  occb (ARaw "host") (atoms_of (fixed_shape "2.0.0") c) = 2.
Proof. vm_compute. split; reflexivity. Qed.
