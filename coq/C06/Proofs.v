(* C06 -- proofs.  Main result: for every well-formed key shape (good_shape, a decidable condition that
   the generated shape of the current tree is checked against on every run), equal keys imply equal
   mode, source and property values at every needed path.  Unbounded in the configurations: arbitrary
   JSON trees, arbitrary source texts, arbitrary other properties. *)
From stdpp Require Import base decidable countable list strings gmap.
From Coq Require Import ZArith Arith Lia.
From OV.C06 Require Import XorHash Model Spec Statements.

(* ------------------------------------------------------------------ booleans of Model.v *)
Lemma mem_In p l : mem p l = true <-> In p l.
Proof.
  unfold mem. rewrite existsb_exists. split.
  - intros [x [Hin E]]. apply String.eqb_eq in E. now subst.
  - intros Hin. exists p. split; [assumption | apply String.eqb_refl].
Qed.

Lemma mem_false p l : mem p l = false <-> ~ In p l.
Proof. rewrite <- mem_In. destruct (mem p l); split; congruence. Qed.

Lemma nodupb_NoDup l : nodupb l = true -> List.NoDup l.
Proof.
  induction l as [|a l IH]; simpl; [constructor|].
  rewrite andb_true_iff, negb_true_iff, mem_false. intros [Hn Hl]. constructor; auto.
Qed.

Lemma is_none_true j : is_none j = true -> j = JNone.
Proof. destruct j; simpl; congruence. Qed.

(* ------------------------------------------------------------------ records *)
Lemma rec_of_cons q ps c :
  rec_of (q :: ps) c = if is_none (get c q) then rec_of ps c else (q, get c q) :: rec_of ps c.
Proof. unfold rec_of. simpl. destruct (is_none (get c q)); reflexivity. Qed.

Lemma rec_of_names ps c p v : In (p, v) (rec_of ps c) -> In p ps.
Proof.
  unfold rec_of. rewrite filter_In, in_map_iff. intros [[q [E Hq]] _]. now injection E as <- _.
Qed.

Lemma rec_of_inj ps c1 c2 :
  List.NoDup ps -> rec_of ps c1 = rec_of ps c2 -> forall p, In p ps -> get c1 p = get c2 p.
Proof.
  induction ps as [|q ps IH]; intros Hnd E p Hin; [destruct Hin|].
  inversion Hnd as [|? ? Hq Hps]; subst.
  rewrite !rec_of_cons in E.
  destruct (is_none (get c1 q)) eqn:N1, (is_none (get c2 q)) eqn:N2.
  - destruct Hin as [<-|Hin]; [|now apply IH].
    now rewrite (is_none_true _ N1), (is_none_true _ N2).
  - exfalso. apply Hq. apply (rec_of_names ps c1 q (get c2 q)). rewrite E. now left.
  - exfalso. apply Hq. apply (rec_of_names ps c2 q (get c1 q)). rewrite <- E. now left.
  - injection E as Ev Et. destruct Hin as [<-|Hin]; [assumption | now apply IH].
Qed.

Lemma rec_of_ext ps c1 c2 : (forall p, get c1 p = get c2 p) -> rec_of ps c1 = rec_of ps c2.
Proof.
  intros Hg. unfold rec_of. f_equal. apply map_ext. intros p. now rewrite Hg.
Qed.

(* ------------------------------------------------------------------ counting atoms in a key *)
Notation atoms c ts := (List.map (term_atom c) ts).

Lemma occ_raw c ts s :
  occ (ARaw s) (atoms c ts)
  = occ s (consts_of ts) + (if decide (s = c_source c) then count_source ts else 0).
Proof.
  induction ts as [|t ts IH]; simpl; [destruct (decide _); reflexivity|].
  unfold count_source in *. destruct t as [p|ps|s'|j|]; simpl; rewrite IH.
  - destruct (decide (ARaw s = AVal (get c p))); [discriminate|]. reflexivity.
  - destruct (decide (ARaw s = AVal (JObj (rec_of ps c)))); [discriminate|]. reflexivity.
  - destruct (decide (ARaw s = ARaw s')) as [E|N], (decide (s = s')) as [E'|N']; try congruence; lia.
  - destruct (decide (ARaw s = AVal j)); [discriminate|]. reflexivity.
  - destruct (decide (ARaw s = ARaw (c_source c))) as [E|N], (decide (s = c_source c)) as [E'|N'];
      try congruence; lia.
Qed.

Lemma occ_obj c ts r :
  forallb term_ok ts = true ->
  occ (AVal (JObj r)) (atoms c ts) = occ r (List.map (fun ps => rec_of ps c) (records_of ts)).
Proof.
  induction ts as [|t ts IH]; simpl; [reflexivity|].
  rewrite andb_true_iff. intros [Ht Hts]. rewrite (IH Hts).
  destruct t as [p|ps|s'|j|]; simpl in *.
  - discriminate.
  - destruct (decide (AVal (JObj r) = AVal (JObj (rec_of ps c)))) as [E|N],
             (decide (r = rec_of ps c)) as [E'|N']; try congruence; try lia.
  - destruct (decide (AVal (JObj r) = ARaw s')); [discriminate|]. reflexivity.
  - destruct (decide (AVal (JObj r) = AVal j)) as [E|N]; [|reflexivity].
    injection E as <-. discriminate.
  - destruct (decide (AVal (JObj r) = ARaw (c_source c))); [discriminate|]. reflexivity.
Qed.

Lemma occ_zero_recs (c : cfg) (r : list (string * jv)) p v r' ls :
  r = (p, v) :: r' -> (forall ps, In ps ls -> ~ In p ps) ->
  occ r (List.map (fun ps => rec_of ps c) ls) = 0.
Proof.
  intros -> Hno. apply occ_0_not_in. intros Hin. apply elem_of_list_In, in_map_iff in Hin.
  destruct Hin as [ps [E Hps]]. apply (Hno ps Hps). apply (rec_of_names ps c p v). rewrite E. now left.
Qed.

Lemma disjointb_spec l1 l2 p : disjointb l1 l2 = true -> In p l1 -> ~ In p l2.
Proof.
  unfold disjointb. rewrite forallb_forall. intros H Hin. specialize (H p Hin).
  now apply negb_true_iff, mem_false in H.
Qed.

Lemma count_rec ls c r p v r' :
  pairwise_disjointb ls = true -> r = (p, v) :: r' ->
  forall ps, In ps ls -> In p ps ->
  occ r (List.map (fun ps' => rec_of ps' c) ls) = if decide (rec_of ps c = r) then 1 else 0.
Proof.
  intros Hpd Hr. induction ls as [|l0 ls IH]; intros ps Hps Hp; [destruct Hps|].
  simpl in Hpd. apply andb_true_iff in Hpd as [Hd Hpd]. rewrite forallb_forall in Hd.
  simpl. destruct (mem p l0) eqn:Hm.
  - apply mem_In in Hm.
    assert (Hothers : forall ps', In ps' ls -> ~ In p ps').
    { intros ps' Hin. apply (disjointb_spec l0 ps' p); [apply Hd; assumption | assumption]. }
    assert (ps = l0) as ->.
    { destruct Hps as [E|Hin]; [now symmetry|]. exfalso. now apply (Hothers ps Hin). }
    rewrite (occ_zero_recs c r p v r' ls Hr Hothers).
    destruct (decide (r = rec_of l0 c)) as [E|N], (decide (rec_of l0 c = r)) as [E'|N']; try congruence; lia.
  - apply mem_false in Hm.
    destruct (decide (r = rec_of l0 c)) as [E|N].
    + exfalso. apply Hm. apply (rec_of_names l0 c p v). rewrite <- E, Hr. now left.
    + destruct Hps as [E|Hin]; [subst; contradiction|]. simpl. now apply IH.
Qed.

(* ------------------------------------------------------------------ unpacking good_shape *)
Lemma terms_ok_parts needed ts :
  terms_ok needed ts = true ->
  forallb term_ok ts = true /\ count_source ts = 1 /\ List.NoDup (consts_of ts)
  /\ (forall ps, In ps (records_of ts) -> List.NoDup ps)
  /\ pairwise_disjointb (records_of ts) = true
  /\ (forall p, In p needed -> exists ps, In ps (records_of ts) /\ In p ps).
Proof.
  unfold terms_ok. rewrite !andb_true_iff. intros [[[[[[H1 H2] H3] _] H5] H6] H7].
  repeat split; try assumption.
  - now apply Nat.eqb_eq.
  - now apply nodupb_NoDup.
  - intros ps Hin. rewrite forallb_forall in H5. now apply nodupb_NoDup, H5.
  - intros p Hin. rewrite forallb_forall in H7. specialize (H7 p Hin).
    apply existsb_exists in H7 as [ps [Hps Hm]]. exists ps. split; [assumption | now apply mem_In].
Qed.

Lemma same_set_false l1 l2 :
  same_set l1 l2 = false -> exists s, (In s l1 /\ ~ In s l2) \/ (In s l2 /\ ~ In s l1).
Proof.
  unfold same_set. rewrite andb_false_iff. intros [Hf|Hf].
  - assert (Hex : existsb (fun p => negb (mem p l2)) l1 = true).
    { rewrite <- negb_false_iff, <- Hf. clear Hf. induction l1; simpl; [reflexivity|].
      rewrite negb_orb, negb_involutive, IHl1. reflexivity. }
    apply existsb_exists in Hex as [s [Hin Hm]]. exists s. left. split; [assumption|].
    now apply mem_false, negb_true_iff.
  - assert (Hex : existsb (fun p => negb (mem p l1)) l2 = true).
    { rewrite <- negb_false_iff, <- Hf. clear Hf. induction l2; simpl; [reflexivity|].
      rewrite negb_orb, negb_involutive, IHl2. reflexivity. }
    apply existsb_exists in Hex as [s [Hin Hm]]. exists s. right. split; [assumption|].
    now apply mem_false, negb_true_iff.
Qed.

Lemma good_shape_parts needed sh :
  good_shape needed sh = true ->
  (forall m, terms_ok needed (sh m) = true)
  /\ same_set (consts_of (sh Serial)) (consts_of (sh OpenMP)) = false.
Proof.
  unfold good_shape. rewrite !andb_true_iff, negb_true_iff. intros [[H1 H2] H3].
  split; [intros []; assumption | assumption].
Qed.

Lemma dom_sep_not_const sh c m :
  dom_sepb sh c = true -> ~ In (c_source c) (consts_of (sh m)).
Proof.
  unfold dom_sepb, reserved. rewrite negb_true_iff, mem_false, in_app_iff. intros Hn Hin.
  apply Hn. destruct m; [left | right]; assumption.
Qed.

Lemma occ_str_0 (s : string) l : ~ In s l -> occ s l = 0.
Proof. intros Hn. apply occ_0_not_in. intros Hin. now apply Hn, elem_of_list_In. Qed.

Lemma occ_str_1 (s : string) l : List.NoDup l -> In s l -> occ s l = 1.
Proof. intros Hnd Hin. apply occ_nodup; [now apply NoDup_ListNoDup | now apply elem_of_list_In]. Qed.

(* ------------------------------------------------------------------ the main theorem *)
Section Injective.
  Variable needed : list string.
  Variable sh : shape.
  Hypothesis Hgood : good_shape needed sh = true.
  Variables c1 c2 : cfg.
  Hypothesis Hsep1 : dom_sepb sh c1 = true.
  Hypothesis Hsep2 : dom_sepb sh c2 = true.
  Hypothesis Hkey : key sh c1 = key sh c2.

  Let Hpar : forall a, Nat.odd (occ a (atoms_of sh c1)) = Nat.odd (occ a (atoms_of sh c2)).
  Proof. apply xor_list_eq_iff. exact Hkey. Qed.

  Let Hok : forall m, terms_ok needed (sh m) = true.
  Proof. exact (proj1 (good_shape_parts _ _ Hgood)). Qed.

  Lemma inj_source : c_source c1 = c_source c2.
  Proof.
    pose proof (Hpar (ARaw (c_source c1))) as E. unfold atoms_of in E. rewrite !occ_raw in E.
    destruct (terms_ok_parts _ _ (Hok (c_mode c1))) as (_ & Hs1 & _).
    destruct (terms_ok_parts _ _ (Hok (c_mode c2))) as (_ & Hs2 & _).
    rewrite Hs1, Hs2 in E.
    rewrite (occ_str_0 _ _ (dom_sep_not_const sh c1 (c_mode c1) Hsep1)) in E.
    rewrite (occ_str_0 _ _ (dom_sep_not_const sh c1 (c_mode c2) Hsep1)) in E.
    destruct (decide (c_source c1 = c_source c1)); [|contradiction].
    destruct (decide (c_source c1 = c_source c2)); [assumption | discriminate E].
  Qed.

  (* a literal hashed by exactly one of two modes separates their keys *)
  Lemma inj_mode_aux ca cb s :
    dom_sepb sh ca = true -> dom_sepb sh cb = true ->
    In s (consts_of (sh (c_mode ca))) -> ~ In s (consts_of (sh (c_mode cb))) ->
    Nat.odd (occ (ARaw s) (atoms_of sh ca)) = Nat.odd (occ (ARaw s) (atoms_of sh cb)) -> False.
  Proof.
    intros Ha Hb Hin Hnin E. unfold atoms_of in E. rewrite !occ_raw in E.
    destruct (terms_ok_parts _ _ (Hok (c_mode ca))) as (_ & _ & Hnd & _).
    rewrite (occ_str_1 _ _ Hnd Hin), (occ_str_0 _ _ Hnin) in E.
    destruct (decide (s = c_source ca)) as [->|_];
      [exfalso; exact (dom_sep_not_const sh ca (c_mode ca) Ha Hin)|].
    destruct (decide (s = c_source cb)) as [->|_]; [|discriminate E].
    exfalso. exact (dom_sep_not_const sh cb (c_mode ca) Hb Hin).
  Qed.

  Lemma inj_mode : c_mode c1 = c_mode c2.
  Proof.
    destruct (good_shape_parts _ _ Hgood) as [_ Hdiff].
    apply same_set_false in Hdiff as [s Hs].
    destruct (c_mode c1) eqn:M1, (c_mode c2) eqn:M2; try reflexivity; exfalso.
    - destruct Hs as [[Hin Hnin]|[Hin Hnin]].
      + apply (inj_mode_aux c1 c2 s Hsep1 Hsep2); rewrite ?M1, ?M2; auto.
      + apply (inj_mode_aux c2 c1 s Hsep2 Hsep1); rewrite ?M1, ?M2; auto.
    - destruct Hs as [[Hin Hnin]|[Hin Hnin]].
      + apply (inj_mode_aux c2 c1 s Hsep2 Hsep1); rewrite ?M1, ?M2; auto.
      + apply (inj_mode_aux c1 c2 s Hsep1 Hsep2); rewrite ?M1, ?M2; auto.
  Qed.

  Lemma inj_record ps : In ps (records_of (sh (c_mode c1))) -> rec_of ps c1 = rec_of ps c2.
  Proof.
    intros Hps. pose proof inj_mode as Hm.
    destruct (terms_ok_parts _ _ (Hok (c_mode c1))) as (Hto & _ & _ & _ & Hpd & _).
    destruct (rec_of ps c1) as [|[p v] r'] eqn:R1.
    - destruct (rec_of ps c2) as [|[p v] r'] eqn:R2; [reflexivity|]. exfalso.
      pose proof (Hpar (AVal (JObj ((p, v) :: r')))) as E. unfold atoms_of in E.
      rewrite <- Hm in E. rewrite !(occ_obj _ _ _ Hto) in E.
      assert (Hp : In p ps) by (apply (rec_of_names ps c2 p v); rewrite R2; now left).
      rewrite (count_rec _ c1 _ p v r' Hpd eq_refl ps Hps Hp) in E.
      rewrite (count_rec _ c2 _ p v r' Hpd eq_refl ps Hps Hp) in E.
      rewrite R1, R2 in E.
      destruct (decide ([] = (p, v) :: r')); [discriminate|].
      destruct (decide ((p, v) :: r' = (p, v) :: r')); [discriminate E | contradiction].
    - pose proof (Hpar (AVal (JObj ((p, v) :: r')))) as E. unfold atoms_of in E.
      rewrite <- Hm in E. rewrite !(occ_obj _ _ _ Hto) in E.
      assert (Hp : In p ps) by (apply (rec_of_names ps c1 p v); rewrite R1; now left).
      rewrite (count_rec _ c1 _ p v r' Hpd eq_refl ps Hps Hp) in E.
      rewrite (count_rec _ c2 _ p v r' Hpd eq_refl ps Hps Hp) in E.
      rewrite R1 in E.
      destruct (decide ((p, v) :: r' = (p, v) :: r')); [|contradiction].
      destruct (decide (rec_of ps c2 = (p, v) :: r')); [now symmetry | discriminate E].
  Qed.

  Lemma inj_paths : forall p, In p needed -> get c1 p = get c2 p.
  Proof.
    intros p Hin.
    destruct (terms_ok_parts _ _ (Hok (c_mode c1))) as (_ & _ & _ & Hnd & _ & Hcov).
    destruct (Hcov p Hin) as [ps [Hps Hp]].
    exact (rec_of_inj ps c1 c2 (Hnd ps Hps) (inj_record ps Hps) p Hp).
  Qed.
End Injective.

Theorem key_injective_gen needed sh c1 c2 :
  good_shape needed sh = true -> dom_sepb sh c1 = true -> dom_sepb sh c2 = true ->
  key sh c1 = key sh c2 ->
  c_mode c1 = c_mode c2 /\ c_source c1 = c_source c2 /\ forall p, In p needed -> get c1 p = get c2 p.
Proof.
  intros Hg H1 H2 Hk. split; [|split].
  - exact (inj_mode needed sh Hg c1 c2 H1 H2 Hk).
  - exact (inj_source needed sh Hg c1 c2 H1 Hk).
  - exact (inj_paths needed sh Hg c1 c2 H1 H2 Hk).
Qed.

Theorem key_injective sh c1 c2 :
  good_shape effective_paths sh = true -> dom_sepb sh c1 = true -> dom_sepb sh c2 = true ->
  key sh c1 = key sh c2 -> effective c1 = effective c2.
Proof.
  intros Hg H1 H2 Hk. destruct (key_injective_gen _ _ _ _ Hg H1 H2 Hk) as (Hm & Hs & Hp).
  unfold effective. rewrite Hm, Hs. f_equal. apply map_ext_in. exact Hp.
Qed.

(* the key is a function of the configuration alone *)
Theorem same_cfg_same_key sh c1 c2 :
  c_mode c1 = c_mode c2 -> c_source c1 = c_source c2 -> (forall p, get c1 p = get c2 p) ->
  key sh c1 = key sh c2.
Proof.
  intros Hm Hs Hg. unfold key, atoms_of. rewrite Hm. f_equal. apply map_ext. intros t.
  destruct t as [p|ps|s|j|]; simpl; try reflexivity.
  - now rewrite Hg.
  - now rewrite (rec_of_ext ps c1 c2 Hg).
  - now rewrite Hs.
Qed.

(* everything the build does with a configuration is determined by `effective` *)
Lemma effective_paths_eq c1 c2 :
  effective c1 = effective c2 -> forall p, In p effective_paths -> get c1 p = get c2 p.
Proof.
  unfold effective. generalize effective_paths as l. intros l E p Hin.
  assert (Em : List.map (get c1) l = List.map (get c2) l) by (injection E; auto). clear E.
  revert Em Hin. induction l as [|q l IH]; simpl; intros Em Hin; [destruct Hin|].
  injection Em as Eq El. destruct Hin as [<-|Hin]; [assumption | now apply IH].
Qed.

Theorem build_factors env text truth vsf vstd omp c1 c2 :
  effective c1 = effective c2 ->
  build env text truth vsf vstd omp c1 = build env text truth vsf vstd omp c2.
Proof.
  intros E. pose proof (effective_paths_eq c1 c2 E) as Hp.
  assert (Hm : c_mode c1 = c_mode c2) by (unfold effective in E; now injection E).
  assert (Hs : c_source c1 = c_source c2) by (unfold effective in E; now injection E).
  assert (Hh : List.map (get c1) header_paths = List.map (get c2) header_paths).
  { apply map_ext_in. intros p Hin. apply Hp. unfold effective_paths. rewrite in_app_iff. now left. }
  assert (Hq : List.map (get c1) parser_paths = List.map (get c2) parser_paths).
  { apply map_ext_in. intros p Hin. apply Hp. unfold effective_paths. rewrite !in_app_iff. now right; right. }
  assert (Hc : forall p, In p compile_paths -> get c1 p = get c2 p).
  { intros p Hin. apply Hp. unfold effective_paths. rewrite !in_app_iff. now right; left. }
  unfold build, get_text, get_bool. rewrite Hm, Hs, Hh, Hq.
  rewrite !(Hc "compiler"%string), !(Hc "compiler_flags"%string), !(Hc "compiler_env_script"%string),
          !(Hc "compiler_language"%string), !(Hc "compiler_linker_flags"%string),
          !(Hc "compiler_shared_flags"%string), !(Hc "kernel/include_occa"%string),
          !(Hc "kernel/link_occa"%string), !(Hc "okl/enabled"%string)
    by (unfold compile_paths; simpl; tauto).
  reflexivity.
Qed.

(* ------------------------------------------------------------------ the known shapes *)
Lemma fixed_shape_good ver : good_shape effective_paths (fixed_shape ver) = true.
Proof. reflexivity. Qed.

Lemma pinned_shape_bad ver : good_shape effective_paths (pinned_shape ver) = false.
Proof. reflexivity. Qed.

(* keys over the pinned shape: the version atom is common to both sides *)
Lemma pinned_key_eq ver c1 c2 :
  parityb (atoms_of pinned_tail c1) (atoms_of pinned_tail c2) = true ->
  key (pinned_shape ver) c1 = key (pinned_shape ver) c2.
Proof.
  intros Hp. apply parityb_spec in Hp.
  change (xor (hash1 (AVal (JStr ver))) (xor_list (atoms_of pinned_tail c1))
          = xor (hash1 (AVal (JStr ver))) (xor_list (atoms_of pinned_tail c2))).
  now rewrite Hp.
Qed.

Lemma effective_neq c1 c2 : effective_eqb c1 c2 = false -> effective c1 <> effective c2.
Proof.
  unfold effective, effective_eqb. generalize effective_paths as l. intros l Hf E.
  assert (Em : c_mode c1 = c_mode c2) by (injection E; auto).
  assert (Es : c_source c1 = c_source c2) by (injection E; auto).
  assert (El : List.map (get c1) l = List.map (get c2) l) by (injection E; auto).
  rewrite Em, Es, El in Hf.
  assert (Hr : forall l, jvs_eqb l l = true).
  { intros l'. induction l' as [|a l' IH]; simpl; [reflexivity|].
    rewrite IH, (proj2 (jv_eqb_eq a a) eq_refl). reflexivity. }
  rewrite Hr, String.eqb_refl in Hf. destruct (c_mode c2); discriminate Hf.
Qed.
