(* Extraction of the executable model and specification.  ExtrOcamlString is needed: property paths,
   values and source texts are Coq strings (extracted to char list).  The key shape is the one
   generated from the C++ text of the current tree (coq/gen/C06_KeyFields.v), so the extracted model
   follows the code; `pinned_shape`/`fixed_shape` are extracted for C06_VARIANT runs of the driver.
   coqc is run from /verif/coq by the Makefile, so the path is relative to that directory. *)
From Coq Require Import Extraction ExtrOcamlBasic ExtrOcamlString.
From OV.C06 Require Import Model Spec.
From OV.gen Require Import C06_KeyFields.
Extraction Language OCaml.
Extraction "../_work/extract/C06/model.ml"
  keys_equal gen_shape gen_version pinned_shape fixed_shape effective_eqb same_on dom_sepb good_shape
  effective_paths inert_paths c_props.
