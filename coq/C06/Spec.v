(* C06 -- reference semantics: which part of a configuration a build actually uses.

   Written from the code that CONSUMES the properties, not from the code that hashes them:
     serial::device::buildKernel   src/occa/internal/modes/serial/device.cpp:119-390   (compiler command line)
     openmp::device::buildKernel   src/occa/internal/modes/openmp/device.cpp:57-137
     assembleKernelHeader          src/core/kernel.cpp:219-272                       (text put before the source)
     preprocessor_t ctor/init      src/occa/internal/lang/preprocessor.cpp:27-105      (okl/strict_headers, okl/include_paths, mode)
     parser_t::setupLoadTokens     src/occa/internal/lang/parser.cpp:238-252           (okl/restrict)
     serialParser::afterParsing / setupHeaders  src/occa/internal/lang/modes/serial.cpp:22-46
                                                                   (okl/validate, kernel/include_occa, serial/include_std)
   The process environment is held fixed (property statement) and appears as the parameter `env`.

   `effective c` is the sub-record of c made of the mode, the source text and the values at
   `effective_paths`; `build_inputs` (the compiler command line, the header inputs and the parser
   settings) is a function of it.  The list `effective_paths` is compared on every run with the
   property reads that tools/C06_keyfields.py finds in those C++ functions (gen_reads_known). *)
From Coq Require Import List String ZArith Bool.
From OV.C06 Require Import Model.
Import ListNotations.
Local Open Scope string_scope.

Definition header_paths : list string := ["defines"; "includes"; "headers"; "functions"].
Definition compile_paths : list string :=
  ["compiler"; "compiler_flags"; "compiler_env_script"; "compiler_language"; "compiler_linker_flags";
   "compiler_shared_flags"; "kernel/include_occa"; "kernel/link_occa"; "okl/enabled"].
Definition parser_paths : list string :=
  ["okl/include_paths"; "okl/strict_headers"; "okl/restrict"; "okl/validate"; "serial/include_std"; "mode"].
Definition effective_paths : list string := (header_paths ++ compile_paths ++ parser_paths)%list.

(* properties the build reads that cannot change the compiled code: diagnostics, the key itself
   (allProps["hash"], written by device::buildKernel from the key), and `vendor`, which
   openmp::device::buildKernel overwrites whenever a compiler name is known (always on Linux) *)
Definition inert_paths : list string := ["verbose"; "silent"; "hash"; "vendor"].

Definition effective (c : cfg) : mode * string * list jv :=
  (c_mode c, c_source c, List.map (get c) effective_paths).

Fixpoint jvs_eqb (x y : list jv) : bool :=
  match x, y with
  | [], [] => true
  | a :: x', b :: y' => jv_eqb a b && jvs_eqb x' y'
  | _, _ => false
  end.

Definition effective_eqb (c1 c2 : cfg) : bool :=
  mode_eqb (c_mode c1) (c_mode c2) && String.eqb (c_source c1) (c_source c2)
  && jvs_eqb (List.map (get c1) effective_paths) (List.map (get c2) effective_paths).

(* identical configurations (every property path that is asked about; used for "identical builds
   resolve to the same cache entry") *)
Definition same_on (ps : list string) (c1 c2 : cfg) : bool :=
  mode_eqb (c_mode c1) (c_mode c2) && String.eqb (c_source c1) (c_source c2)
  && jvs_eqb (List.map (get c1) ps) (List.map (get c2) ps).

(* ------------------------------------------------------------------ what the build does with them *)
Section Build.
  Variable env : string -> string.          (* env::var, fixed *)
  Variable text : jv -> string.             (* (std::string) json / get<std::string> *)
  Variable truth : jv -> bool.              (* (bool) json *)
  Variable vendor_shared_flags : string -> string.   (* sys::compilerSharedBinaryFlags(sys::compilerVendor(compiler)) *)
  Variable vendor_std_flags : string -> bool -> string. (* compilerCpp11Flags / compilerC99Flags of the vendor *)
  Variable openmp_flag : string -> string.  (* openmp::compilerFlag(vendor, compiler); "" when unsupported *)

  Definition nonempty (s : string) : bool := negb (String.eqb s "").
  Definition get_text (c : cfg) (p : string) : string := if is_none (get c p) then "" else text (get c p).
  Definition get_bool (c : cfg) (p : string) (d : bool) : bool := if is_none (get c p) then d else truth (get c p).
  Definition lower_is_c (s : string) : bool := String.eqb s "c" || String.eqb s "C".

  Record build_inputs := mkBuild {
    b_env_script : string; b_compiler : string; b_flags : list string; b_include_occa : bool;
    b_link_occa : bool; b_linker_flags : string; b_compiling_okl : bool;
    b_header : list jv;            (* defines, includes, headers, functions : inputs of assembleKernelHeader *)
    b_parser : list jv;            (* settings read by the OKL preprocessor / parser *)
    b_mode : mode; b_source : string }.

  Definition build (c : cfg) : build_inputs :=
    let language :=
      if nonempty (env "OCCA_COMPILER_LANGUAGE") then env "OCCA_COMPILER_LANGUAGE"
      else if nonempty (get_text c "compiler_language") then get_text c "compiler_language" else "cpp" in
    let compiling_okl := get_bool c "okl/enabled" true in
    let cpp := compiling_okl || negb (lower_is_c language) in
    let compiler :=
      if cpp && nonempty (env "OCCA_CXX") then env "OCCA_CXX"
      else if negb cpp && nonempty (env "OCCA_CC") then env "OCCA_CC"
      else if nonempty (get_text c "compiler") then get_text c "compiler"
      else if cpp && nonempty (env "CXX") then env "CXX"
      else if negb cpp && nonempty (env "CC") then env "CC"
      else if cpp then "g++" else "gcc" in
    let omp := match c_mode c with
               | Serial => ""
               | OpenMP => openmp_flag compiler
               end in
    (* openmp::device::buildKernel appends " " + flag to the compiler_flags property before the serial build *)
    let user_flags := match c_mode c with
                      | Serial => get_text c "compiler_flags"
                      | OpenMP => if nonempty omp then get_text c "compiler_flags" ++ " " ++ omp
                                  else get_text c "compiler_flags"
                      end in
    let flags :=
      if nonempty user_flags then user_flags
      else if cpp && nonempty (env "OCCA_CXXFLAGS") then env "OCCA_CXXFLAGS"
      else if negb cpp && nonempty (env "OCCA_CFLAGS") then env "OCCA_CFLAGS"
      else if cpp && nonempty (env "CXXFLAGS") then env "CXXFLAGS"
      else if negb cpp && nonempty (env "CFLAGS") then env "CFLAGS"
      else "-O3" in
    let shared :=
      if nonempty (env "OCCA_COMPILER_SHARED_FLAGS") then env "OCCA_COMPILER_SHARED_FLAGS"
      else if nonempty (get_text c "compiler_shared_flags") then get_text c "compiler_shared_flags"
      else vendor_shared_flags compiler in
    let linker :=
      if nonempty (env "OCCA_LDFLAGS") then env "OCCA_LDFLAGS"
      else get_text c "compiler_linker_flags" in
    mkBuild (get_text c "compiler_env_script") compiler
            [flags; vendor_std_flags compiler cpp; shared]
            (get_bool c "kernel/include_occa" false) (get_bool c "kernel/link_occa" false)
            linker compiling_okl
            (List.map (get c) header_paths) (List.map (get c) parser_paths)
            (c_mode c) (c_source c).
End Build.
