(* C06 -- the key as an ideal XOR hash value (std++ side): decidable equality and countability of
   JSON values and atoms, `key`, and the link between the executable comparison of Model.v and
   equality of keys. *)
From stdpp Require Import base decidable countable list strings gmap.
From Coq Require Import ZArith.
From OV.C06 Require Import XorHash Model.

(* ------------------------------------------------------------------ induction over nested JSON values *)
Section jv_ind.
  Variable P : jv -> Prop.
  Hypothesis HNone : P JNone.
  Hypothesis HNull : P JNull.
  Hypothesis HBool : forall b, P (JBool b).
  Hypothesis HInt : forall z, P (JInt z).
  Hypothesis HStr : forall s, P (JStr s).
  Hypothesis HArr : forall l, Forall P l -> P (JArr l).
  Hypothesis HObj : forall l, Forall (fun kv => P (snd kv)) l -> P (JObj l).

  Fixpoint jv_ind' (j : jv) : P j :=
    match j with
    | JNone => HNone
    | JNull => HNull
    | JBool b => HBool b
    | JInt z => HInt z
    | JStr s => HStr s
    | JArr l => HArr l ((fix go (l : list jv) : Forall P l :=
                           match l with
                           | [] => @List.Forall_nil _ _
                           | a :: l' => @List.Forall_cons _ P a l' (jv_ind' a) (go l')
                           end) l)
    | JObj l => HObj l ((fix go (l : list (string * jv)) : Forall (fun kv => P (snd kv)) l :=
                           match l with
                           | [] => @List.Forall_nil _ _
                           | kv :: l' => @List.Forall_cons _ (fun kv => P (snd kv)) kv l' (jv_ind' (snd kv)) (go l')
                           end) l)
    end.
End jv_ind.

Lemma jv_eqb_eq : forall a b, jv_eqb a b = true <-> a = b.
Proof.
  induction a as [| | x | x | x | l IH | l IH] using jv_ind'; intros b; destruct b as [| | y | y | y | m | m];
    simpl; try (split; [discriminate | intros E; discriminate E]); try (split; reflexivity).
  - rewrite Bool.eqb_true_iff. split; [intros ->; reflexivity | intros E; injection E; auto].
  - rewrite Z.eqb_eq. split; [intros ->; reflexivity | intros E; injection E; auto].
  - rewrite String.eqb_eq. split; [intros ->; reflexivity | intros E; injection E; auto].
  - revert m. induction IH as [|a l Ha _ IHl]; intros [|b m]; simpl;
      try (split; [discriminate | intros E; discriminate E]); [split; reflexivity|].
    rewrite andb_true_iff, Ha. specialize (IHl m). rewrite IHl.
    split; [intros [-> E]; injection E as ->; reflexivity | intros E; injection E as -> ->; auto].
  - revert m. induction IH as [|[k a] l Ha _ IHl]; intros [|[k' b] m]; simpl;
      try (split; [discriminate | intros E; discriminate E]); [split; reflexivity|].
    rewrite !andb_true_iff, String.eqb_eq. simpl in Ha. rewrite Ha. specialize (IHl m). rewrite IHl.
    split; [intros [[-> ->] E]; injection E as ->; reflexivity | intros E; injection E as -> -> ->; auto].
Qed.

Global Instance jv_eq_dec : EqDecision jv.
Proof.
  intros a b. destruct (jv_eqb a b) eqn:E.
  - left. apply jv_eqb_eq. exact E.
  - right. intros Heq. apply jv_eqb_eq in Heq. congruence.
Defined.

(* countability through std++'s generic trees *)
Definition leafT : Type := bool + Z + string.

Fixpoint jv_enc (j : jv) : gen_tree leafT :=
  match j with
  | JNone => GenNode 0 []
  | JNull => GenNode 1 []
  | JBool b => GenLeaf (inl (inl b))
  | JInt z => GenLeaf (inl (inr z))
  | JStr s => GenLeaf (inr s)
  | JArr l => GenNode 2 (List.map jv_enc l)
  | JObj l => GenNode 3 (List.map (fun kv => GenNode 4 [GenLeaf (inr (fst kv)); jv_enc (snd kv)]) l)
  end.

Fixpoint jv_dec (t : gen_tree leafT) : jv :=
  match t with
  | GenLeaf (inl (inl b)) => JBool b
  | GenLeaf (inl (inr z)) => JInt z
  | GenLeaf (inr s) => JStr s
  | GenNode 0 _ => JNone
  | GenNode 1 _ => JNull
  | GenNode 2 l => JArr (List.map jv_dec l)
  | GenNode 3 l => JObj (List.map (fun t => match t with
                                            | GenNode _ [GenLeaf (inr k); v] => (k, jv_dec v)
                                            | _ => (EmptyString, JNone)
                                            end) l)
  | GenNode _ _ => JNone
  end.

Lemma jv_dec_enc : forall j, jv_dec (jv_enc j) = j.
Proof.
  induction j as [| | x | x | x | l IH | l IH] using jv_ind'; simpl; try reflexivity.
  - f_equal. induction IH as [|a l Ha _ IHl]; simpl; [reflexivity|]. now rewrite Ha, IHl.
  - f_equal. induction IH as [|[k a] l Ha _ IHl]; simpl; [reflexivity|]. simpl in Ha. now rewrite Ha, IHl.
Qed.

Global Instance jv_countable : Countable jv.
Proof. exact (inj_countable' jv_enc jv_dec jv_dec_enc). Defined.

Global Instance atom_eq_dec : EqDecision atom.
Proof. solve_decision. Defined.

Global Instance atom_countable : Countable atom.
Proof.
  refine (inj_countable' (fun a => match a with ARaw s => inl s | AVal j => inr j end)
                         (fun x => match x with inl s => ARaw s | inr j => AVal j end) _).
  intros []; reflexivity.
Defined.

Lemma atom_eqb_eq a b : atom_eqb a b = true <-> a = b.
Proof.
  destruct a as [s|j], b as [s'|j']; simpl; try (split; [discriminate | intros E; discriminate E]).
  - rewrite String.eqb_eq. split; [intros ->; reflexivity | intros E; injection E; auto].
  - rewrite jv_eqb_eq. split; [intros ->; reflexivity | intros E; injection E; auto].
Qed.

(* ------------------------------------------------------------------ the key *)
Definition key (sh : shape) (c : cfg) : hv atom := xor_list (atoms_of sh c).

Lemma occb_occ a l : occb a l = occ a l.
Proof.
  induction l as [|b l IH]; simpl; [reflexivity|]. rewrite IH. f_equal.
  destruct (decide (a = b)) as [->|Hne].
  - now rewrite (proj2 (atom_eqb_eq b b) eq_refl).
  - destruct (atom_eqb a b) eqn:E; [apply atom_eqb_eq in E; contradiction | reflexivity].
Qed.

Lemma parityb_spec l1 l2 : parityb l1 l2 = true <-> xor_list l1 = xor_list l2.
Proof.
  rewrite <- parity_eqb_spec. unfold parityb, parity_eqb.
  rewrite !forallb_forall. split; intros Hall a Hin; specialize (Hall a Hin);
    rewrite ?occb_occ in *; exact Hall.
Qed.

Lemma keys_equal_spec sh c1 c2 : keys_equal sh c1 c2 = true <-> key sh c1 = key sh c2.
Proof. apply parityb_spec. Qed.
