(* The ideal XOR hash (DESIGN.md section 3), shared by C06 and C07.

   occa::hash_t is eight 32-bit words; `operator^` XORs the words (src/utils/hash.cpp).  The ideal
   model keeps exactly the algebra that this composition has and nothing else: a hash value is a finite
   set of *atoms* (an atom stands for "the 256-bit hash of this particular input"), hashing an input
   gives the singleton of its atom, and `^` is symmetric difference.  Accidental collisions of the
   FNV-style hash function are idealised away (distinct inputs have distinct atoms); the collisions that
   XOR composition itself creates -- commutativity and self-cancellation -- are all kept.

   The type of atoms is a parameter (C06: raw texts / JSON values, C07: file contents). *)
From stdpp Require Import base decidable countable list gmap fin_sets.
From Coq Require Import Arith.

Section xor.
  Context {A : Type} `{Countable A}.

  Definition hv := gset A.

  Definition hash1 (a : A) : hv := {[ a ]}.

  Definition xor (x y : hv) : hv := (x ∖ y) ∪ (y ∖ x).

  Definition xor_list (l : list A) : hv := foldr (fun a acc => xor (hash1 a) acc) ∅ l.

  Lemma elem_of_xor a x y : a ∈ xor x y <-> ((a ∈ x /\ a ∉ y) \/ (a ∈ y /\ a ∉ x)).
  Proof. unfold xor. set_solver. Qed.

  Lemma xor_comm x y : xor x y = xor y x.
  Proof. unfold xor. set_solver. Qed.

  Lemma xor_assoc x y z : xor x (xor y z) = xor (xor x y) z.
  Proof.
    apply set_eq. intros a. rewrite !elem_of_xor.
    destruct (decide (a ∈ x)), (decide (a ∈ y)), (decide (a ∈ z)); tauto.
  Qed.

  Lemma xor_self x : xor x x = ∅.
  Proof. unfold xor. set_solver. Qed.

  Lemma xor_empty_l x : xor ∅ x = x.
  Proof. unfold xor. set_solver. Qed.

  Lemma xor_empty_r x : xor x ∅ = x.
  Proof. unfold xor. set_solver. Qed.

  Lemma xor_cancel_l x y z : xor x y = xor x z -> y = z.
  Proof.
    intros E. rewrite <- (xor_empty_l y), <- (xor_empty_l z), <- (xor_self x), <- !xor_assoc.
    now rewrite E.
  Qed.

  (* occurrences of an atom in a list, with the decidable equality of Countable *)
  Fixpoint occ (a : A) (l : list A) : nat :=
    match l with
    | [] => 0
    | b :: l' => (if decide (a = b) then 1 else 0) + occ a l'
    end.

  Lemma occ_app a l1 l2 : occ a (l1 ++ l2) = occ a l1 + occ a l2.
  Proof. induction l1 as [|b l1 IH]; simpl; [reflexivity|]. rewrite IH. lia. Qed.

  Lemma occ_0_not_in a l : occ a l = 0 <-> a ∉ l.
  Proof.
    induction l as [|b l IH]; simpl.
    - split; [intros _; apply not_elem_of_nil | reflexivity].
    - rewrite not_elem_of_cons. destruct (decide (a = b)); simpl; [split; [discriminate | tauto]|].
      rewrite IH. tauto.
  Qed.

  Lemma occ_nodup a l : NoDup l -> a ∈ l -> occ a l = 1.
  Proof.
    induction 1 as [|b l Hb Hl IH]; [intros Hin; inversion Hin|].
    intros Hin. simpl. destruct (decide (a = b)) as [->|Hne].
    - apply occ_0_not_in in Hb. rewrite Hb. reflexivity.
    - apply elem_of_cons in Hin as [?|Hin]; [contradiction|]. rewrite (IH Hin). reflexivity.
  Qed.

  (* the membership characterisation: an atom is in the XOR of a list of hashes exactly when it occurs
     an odd number of times *)
  Lemma elem_of_xor_list a l : a ∈ xor_list l <-> Nat.odd (occ a l) = true.
  Proof.
    induction l as [|b l IH]; simpl.
    - split; [intros Hx; exfalso; revert Hx; apply not_elem_of_empty | discriminate].
    - rewrite elem_of_xor. unfold hash1. rewrite elem_of_singleton.
      destruct (decide (a = b)) as [->|Hne].
      + replace (1 + occ b l) with (S (occ b l)) by lia. rewrite Nat.odd_succ, <- Nat.negb_odd.
        destruct (Nat.odd (occ b l)) eqn:E; simpl.
        * split; [|discriminate].
          intros [[_ Hn]|[_ Hn]]; exfalso; [apply Hn, IH; reflexivity | apply Hn; reflexivity].
        * split; [reflexivity | intros _; left; split; [reflexivity|]].
          intros Hin. apply IH in Hin. discriminate.
      + simpl. rewrite <- IH. split; [intros [[? _]|[? _]]; [contradiction | assumption] | intros ?; right; tauto].
  Qed.

  Lemma xor_list_eq_iff l1 l2 :
    xor_list l1 = xor_list l2 <-> forall a, Nat.odd (occ a l1) = Nat.odd (occ a l2).
  Proof.
    split.
    - intros E a. destruct (Nat.odd (occ a l1)) eqn:E1, (Nat.odd (occ a l2)) eqn:E2; try reflexivity.
      + apply elem_of_xor_list in E1. rewrite E in E1. apply elem_of_xor_list in E1. congruence.
      + apply elem_of_xor_list in E2. rewrite <- E in E2. apply elem_of_xor_list in E2. congruence.
    - intros Hp. apply set_eq. intros a. rewrite !elem_of_xor_list, Hp. reflexivity.
  Qed.

  Lemma xor_list_app l1 l2 : xor_list (l1 ++ l2) = xor (xor_list l1) (xor_list l2).
  Proof.
    induction l1 as [|a l1 IH]; simpl; [now rewrite xor_empty_l|]. now rewrite IH, xor_assoc.
  Qed.

  Lemma xor_list_perm l1 l2 : l1 ≡ₚ l2 -> xor_list l1 = xor_list l2.
  Proof.
    intros P. apply xor_list_eq_iff. intros a. f_equal.
    induction P; simpl; try lia.
  Qed.

  Lemma xor_list_cancel a l : xor_list (a :: a :: l) = xor_list l.
  Proof. simpl. now rewrite xor_assoc, xor_self, xor_empty_l. Qed.

  (* executable equality test on the list presentation (used by the extracted models through their own
     boolean atom equality; here with `decide`) *)
  Definition parity_eqb (l1 l2 : list A) : bool :=
    forallb (fun a => Bool.eqb (Nat.odd (occ a l1)) (Nat.odd (occ a l2))) (l1 ++ l2).

  Lemma parity_eqb_spec l1 l2 : parity_eqb l1 l2 = true <-> xor_list l1 = xor_list l2.
  Proof.
    rewrite xor_list_eq_iff. unfold parity_eqb. rewrite forallb_forall. split.
    - intros Hall a. destruct (decide (a ∈ l1 ++ l2)) as [Hin|Hnin].
      + apply Bool.eqb_prop, Hall. apply elem_of_list_In. exact Hin.
      + rewrite not_elem_of_app in Hnin. destruct Hnin as [N1 N2].
        apply occ_0_not_in in N1, N2. now rewrite N1, N2.
    - intros Hp a _. rewrite Hp. apply Bool.eqb_reflx.
  Qed.
End xor.

Arguments hv A {_ _}.
