(* C06 -- kernel cache keys.  Executable model (plain Coq, no proofs, extracted).

   What is modelled (line numbers: /repo at the pinned snapshot):
     device::setupKernelInfo            src/core/device.cpp:308-324
         kernelHash = hash() ^ modeDevice->kernelHash(kernelProps) ^ kernelHeaderHash(kernelProps) ^ sourceHash
     device::hash / versionedHash       src/core/device.cpp:222, src/occa/internal/core/device.cpp:99
         occa::hash(settings()["version"]) ^ hash()
     serial::device::hash / kernelHash  src/occa/internal/modes/serial/device.cpp:26-45
     openmp::device::hash / kernelHash  src/occa/internal/modes/openmp/device.cpp:14-26
     kernelHeaderHash                   src/core/kernel.cpp:210-217
     hash_t::operator^                  src/utils/hash.cpp:85-93 (8-word XOR)
     json::hash                         src/types/json.cpp:632 (hash of the compact dump)

   A key is the XOR of a list of *terms*; which terms, in which function, is NOT written here: it is
   regenerated from the C++ text on every run by tools/C06_keyfields.py into coq/gen/C06_KeyFields.v
   (`gen_shape`).  This file fixes the vocabulary (terms, atoms, configurations), gives the two shapes
   the translator is known to produce (`pinned_shape`: the snapshot, one hash per property value;
   `fixed_shape`: after fixes/C06-1.patch, one hash per named record) and the executable key comparison.

   Ideal XOR hash (coq/C06/XorHash.v): a hash value is the set of atoms that occur an odd number of
   times.  Atoms: `ARaw s` = occa::hash of the raw text s (kernel source, string literals),
   `AVal j` = occa::hash(json) = hash of the dump of the JSON value j.  Keeping the two apart is the
   domain-separation assumption (a raw text that is hashed is never the dump of a JSON value that is
   hashed, and dump is injective -- the latter is C24's round-trip theorem). *)
From Coq Require Import List String ZArith Bool Arith.
Import ListNotations.
Local Open Scope string_scope.

(* ------------------------------------------------------------------ JSON values (occa::json) *)
Inductive jv :=
| JNone                                  (* json() : not initialized; also what props["missing"] returns *)
| JNull
| JBool (b : bool)
| JInt (z : Z)
| JStr (s : string)
| JArr (l : list jv)
| JObj (l : list (string * jv)).         (* std::map order: callers keep keys sorted and distinct *)

Fixpoint jv_eqb (a b : jv) {struct a} : bool :=
  match a, b with
  | JNone, JNone => true
  | JNull, JNull => true
  | JBool x, JBool y => Bool.eqb x y
  | JInt x, JInt y => Z.eqb x y
  | JStr x, JStr y => String.eqb x y
  | JArr x, JArr y =>
      (fix go (x y : list jv) {struct x} : bool :=
         match x, y with
         | [], [] => true
         | a :: x', b :: y' => jv_eqb a b && go x' y'
         | _, _ => false
         end) x y
  | JObj x, JObj y =>
      (fix go (x y : list (string * jv)) {struct x} : bool :=
         match x, y with
         | [], [] => true
         | (k, a) :: x', (k', b) :: y' => String.eqb k k' && jv_eqb a b && go x' y'
         | _, _ => false
         end) x y
  | _, _ => false
  end.

Definition is_none (j : jv) : bool := match j with JNone => true | _ => false end.

(* ------------------------------------------------------------------ configurations *)
Inductive mode := Serial | OpenMP.

Definition mode_eqb (a b : mode) : bool :=
  match a, b with Serial, Serial => true | OpenMP, OpenMP => true | _, _ => false end.

(* One kernel build: the device's mode, the kernel source text and the merged kernel properties
   (device::kernelProperties(props), the subject of C26) as a map from property path to value. *)
Record cfg := mkCfg { c_mode : mode; c_source : string; c_props : list (string * jv) }.

Fixpoint assoc (p : string) (l : list (string * jv)) : option jv :=
  match l with
  | [] => None
  | (k, v) :: l' => if String.eqb p k then Some v else assoc p l'
  end.

(* const json::operator[] : the value at the path, json() when there is none *)
Definition get (c : cfg) (p : string) : jv :=
  match assoc p (c_props c) with Some v => v | None => JNone end.

(* ------------------------------------------------------------------ key shapes *)
Inductive term :=
| TField (p : string)          (* occa::hash(props["p"])  or  ... ^ props["p"]  : the value alone, without its name *)
| TRecord (ps : list string)   (* occa::hash(json object {p: props[p] | p in ps, props[p] initialized}) *)
| TConst (s : string)          (* occa::hash("literal") *)
| TConstVal (j : jv)           (* occa::hash(settings()["version"]) : a JSON value fixed by the library build *)
| TSource.                     (* sourceHash = occa::hash(source text) / hashFile(file) *)

Inductive atom :=
| ARaw (s : string)
| AVal (j : jv).

Definition atom_eqb (a b : atom) : bool :=
  match a, b with
  | ARaw x, ARaw y => String.eqb x y
  | AVal x, AVal y => jv_eqb x y
  | _, _ => false
  end.

Definition rec_of (ps : list string) (c : cfg) : list (string * jv) :=
  List.filter (fun kv => negb (is_none (snd kv))) (List.map (fun p => (p, get c p)) ps).

Definition term_atom (c : cfg) (t : term) : atom :=
  match t with
  | TField p => AVal (get c p)
  | TRecord ps => AVal (JObj (rec_of ps c))
  | TConst s => ARaw s
  | TConstVal j => AVal j
  | TSource => ARaw (c_source c)
  end.

Definition shape := mode -> list term.

Definition atoms_of (sh : shape) (c : cfg) : list atom := List.map (term_atom c) (sh (c_mode c)).

(* executable comparison of two keys: same parity of occurrences for every atom *)
Fixpoint occb (a : atom) (l : list atom) : nat :=
  match l with
  | [] => 0
  | b :: l' => (if atom_eqb a b then 1 else 0) + occb a l'
  end.

Definition parityb (l1 l2 : list atom) : bool :=
  forallb (fun a => Bool.eqb (Nat.odd (occb a l1)) (Nat.odd (occb a l2))) (l1 ++ l2)%list.

Definition keys_equal (sh : shape) (c1 c2 : cfg) : bool := parityb (atoms_of sh c1) (atoms_of sh c2).

(* ------------------------------------------------------------------ the two known shapes *)
Definition serial_fields_pinned : list string :=
  ["compiler"; "compiler_flags"; "compiler_env_script"; "compiler_vendor"; "compiler_language";
   "compiler_linker_flags"; "compiler_shared_flags"; "include_occa"; "link_occa"].
Definition header_fields_pinned : list string := ["defines"; "functions"; "includes"; "headers"].

Definition pinned_tail : shape := fun m =>
  ([TConst "host"]
   ++ (match m with Serial => [] | OpenMP => [TConst "openmp device::hash"] end)
   ++ List.map TField serial_fields_pinned
   ++ (match m with Serial => [] | OpenMP => [TConst "openmp device::kernelHash"] end)
   ++ List.map TField header_fields_pinned
   ++ [TSource])%list.
Definition pinned_shape (version : string) : shape := fun m => TConstVal (JStr version) :: pinned_tail m.

(* after fixes/C06-1.patch (names sorted as std::map keeps them) *)
Definition serial_fields_fixed : list string :=
  ["compiler"; "compiler_env_script"; "compiler_flags"; "compiler_language"; "compiler_linker_flags";
   "compiler_shared_flags"; "compiler_vendor"; "kernel/include_occa"; "kernel/link_occa"; "mode";
   "okl/enabled"; "okl/include_paths"; "okl/restrict"; "okl/strict_headers"; "okl/validate";
   "serial/include_std"].
Definition header_fields_fixed : list string := ["defines"; "functions"; "headers"; "includes"].

Definition fixed_tail : shape := fun m =>
  ([TConst "host"]
   ++ (match m with Serial => [] | OpenMP => [TConst "openmp device::hash"] end)
   ++ [TRecord serial_fields_fixed]
   ++ (match m with Serial => [] | OpenMP => [TConst "openmp device::kernelHash"] end)
   ++ [TRecord header_fields_fixed]
   ++ [TSource])%list.
Definition fixed_shape (version : string) : shape := fun m => TConstVal (JStr version) :: fixed_tail m.

(* ------------------------------------------------------------------ well-formed shapes (decidable) *)
Definition mem (p : string) (l : list string) : bool := existsb (String.eqb p) l.

Fixpoint nodupb (l : list string) : bool :=
  match l with [] => true | a :: l' => negb (mem a l') && nodupb l' end.

Definition disjointb (l1 l2 : list string) : bool := forallb (fun p => negb (mem p l2)) l1.

Fixpoint pairwise_disjointb (ls : list (list string)) : bool :=
  match ls with [] => true | l :: ls' => forallb (disjointb l) ls' && pairwise_disjointb ls' end.

Definition consts_of (ts : list term) : list string :=
  flat_map (fun t => match t with TConst s => [s] | _ => [] end) ts.
Definition records_of (ts : list term) : list (list string) :=
  flat_map (fun t => match t with TRecord ps => [ps] | _ => [] end) ts.
Definition count_source (ts : list term) : nat :=
  List.length (List.filter (fun t => match t with TSource => true | _ => false end) ts).
Definition term_ok (t : term) : bool :=
  match t with
  | TField _ => false                                   (* a value hashed without its name *)
  | TConstVal (JObj _) => false                         (* could coincide with a record *)
  | TConstVal _ => true
  | _ => true
  end.
Definition constvals_of (ts : list term) : list jv :=
  flat_map (fun t => match t with TConstVal j => [j] | _ => [] end) ts.
Fixpoint jv_nodupb (l : list jv) : bool :=
  match l with [] => true | a :: l' => negb (existsb (jv_eqb a) l') && jv_nodupb l' end.

(* the terms of one mode are well formed and the record names cover `needed` *)
Definition terms_ok (needed : list string) (ts : list term) : bool :=
  forallb term_ok ts
  && Nat.eqb (count_source ts) 1
  && nodupb (consts_of ts)
  && jv_nodupb (constvals_of ts)
  && forallb nodupb (records_of ts)
  && pairwise_disjointb (records_of ts)
  && forallb (fun p => existsb (mem p) (records_of ts)) needed.

(* the literals of the two modes differ (as sets), so keys of different modes differ *)
Definition same_set (l1 l2 : list string) : bool :=
  forallb (fun p => mem p l2) l1 && forallb (fun p => mem p l1) l2.

Definition good_shape (needed : list string) (sh : shape) : bool :=
  terms_ok needed (sh Serial) && terms_ok needed (sh OpenMP)
  && negb (same_set (consts_of (sh Serial)) (consts_of (sh OpenMP))).

(* string literals hashed by either mode: a kernel source must not be one of them (domain separation) *)
Definition reserved (sh : shape) : list string := (consts_of (sh Serial) ++ consts_of (sh OpenMP))%list.
Definition dom_sepb (sh : shape) (c : cfg) : bool := negb (mem (c_source c) (reserved sh)).
