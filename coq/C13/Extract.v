(* Extraction of the executable model and specification (ExtrOcamlBasic only). *)
From Coq Require Import Extraction ExtrOcamlBasic.
From OV.C14 Require Import Syntax Model Spec.
From OV.C13 Require Import Model Spec.
Extraction Language OCaml.
Extraction "../_work/extract/C13/model.ml"
  mrun_conc srun_conc ppinned pfixed mk_pcfg evalm_conc evals_conc.
