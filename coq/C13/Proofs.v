(* C13 — the repaired directive state machine simulates the group semantics of the standard. *)
From Coq Require Import List ZArith Bool Lia.
From OV.C14 Require Import Syntax Model Spec Proofs.
From OV.C13 Require Import Model Spec.
Import ListNotations.
Local Open Scope Z_scope.

Section Sim.
Context {C Dir D : Type}.
Variable evalm : D -> C -> cres.
Variable evals : D -> C -> option bool.
Variable isdef : D -> Z -> bool.
Variable apply_dir : D -> Dir -> D.

(* wherever the standard gives a condition a value, the implementation's evaluator returns it *)
Hypothesis Hagree : forall d c b, evals d c = Some b -> evalm d c = (if b then CTrue else CFalse).

Notation mstate := (@mstate C D).
Notation sstate := (@sstate C D).

(* the status word that goes with a group *)
Definition st_rel (st : status) (f : frame) : Prop :=
  foundIf st = true /\
  reading st = active f /\
  ignoring st = negb (active f) /\
  foundElse st = seen_else f /\
  (active f = true -> parent_active f = true /\ taken f = true /\ finishedIf st = false) /\
  (active f = false -> finishedIf st = (taken f || negb (parent_active f))).

(* status + statusStack against the stack of groups *)
Fixpoint stack_rel (st : status) (stk : list status) (fs : list frame) {struct fs} : Prop :=
  match fs with
  | [] => st = st_reading /\ stk = [st_zero]
  | f :: fs' =>
      st_rel st f /\ parent_active f = cur_active fs' /\
      match stk with
      | [] => False
      | st' :: stk' => stack_rel st' stk' fs'
      end
  end.

Definition rel (m : mstate) (s : sstate) : Prop :=
  ms_crashed m = None /\ ms_errors m = 0 /\ ms_defs m = ss_defs s /\
  ms_out m = ss_out s /\ ms_trace m = ss_trace s /\
  stack_rel (ms_status m) (ms_stack m) (ss_frames s).

Lemma stack_rel_ignoring : forall st stk fs,
  stack_rel st stk fs -> ignoring st = negb (cur_active fs) /\ reading st = cur_active fs.
Proof.
  intros st stk fs H. destruct fs as [|f fs]; cbn in *.
  - destruct H as [-> _]. split; reflexivity.
  - destruct H as [[_ [Hr [Hi _]]] _]. split; assumption.
Qed.

Lemma stack_rel_foundIf : forall st stk fs,
  stack_rel st stk fs -> foundIf st = match fs with [] => false | _ => true end.
Proof.
  intros st stk fs H. destruct fs as [|f fs]; cbn in *.
  - destruct H as [-> _]. reflexivity.
  - destruct H as [[Hf _] _]. exact Hf.
Qed.

Ltac brk :=
  repeat match goal with
  | H : _ /\ _ |- _ => destruct H
  | H : st_rel _ _ |- _ => unfold st_rel in H
  end.

Ltac fin_rel :=
  unfold rel, push_status, set_status, pop_status, swap_reading, kill_group, st_group, st_dead, st_error, st_rel in *;
  cbn in *; unfold st_rel in *; cbn in *;
  repeat match goal with
  | |- _ /\ _ => split
  end;
  intros; rewrite ?orb_true_r, ?orb_false_r, ?andb_true_r, ?andb_false_r in *;
  try assumption; try reflexivity; try discriminate; try congruence;
  try (intuition (try discriminate; try congruence)).

Lemma step_sim : forall m s it s',
  rel m s -> sstep evals isdef apply_dir s it = Some s' ->
  rel (mstep evalm isdef apply_dir true m it) s'.
Proof.
  intros m s it s' Hrel Hstep.
  destruct Hrel as [Hcr [Herr [Hdefs [Hout [Htr Hstk]]]]].
  destruct m as [st stk d out tr errs cr]. destruct s as [fs sd sout str].
  cbn [ms_crashed ms_errors ms_defs ms_out ms_trace ms_status ms_stack
       ss_frames ss_defs ss_out ss_trace] in *. subst cr errs d out tr.
  pose proof (stack_rel_ignoring _ _ _ Hstk) as [Hign Hrd].
  pose proof (stack_rel_foundIf _ _ _ Hstk) as Hfi.
  unfold mstep. cbn [ms_crashed].
  destruct it as [id | dd | c | n | n | c | | ]; cbn [sstep ss_frames ss_defs ss_out ss_trace] in Hstep.
  - (* text line *)
    cbn [ms_status]. rewrite Hign. inversion Hstep; subst; clear Hstep.
    destruct (cur_active fs); cbn [negb]; fin_rel.
  - (* #define / #undef *)
    cbn [ms_status]. rewrite Hign. inversion Hstep; subst; clear Hstep.
    destruct (cur_active fs); cbn [negb]; fin_rel.
  - (* #if *)
    unfold process_if. cbn [ms_status]. rewrite Hign.
    destruct (cur_active fs) eqn:Ea; cbn [negb].
    + destruct (evals sd c) as [b|] eqn:Ev; [|discriminate].
      unfold open_group in Hstep. inversion Hstep; subst; clear Hstep.
      unfold line_is_true. cbn [add_trace ms_defs]. rewrite (Hagree _ _ _ Ev).
      destruct b; fin_rel.
    + unfold open_group in Hstep. inversion Hstep; subst; clear Hstep. fin_rel.
  - (* #ifdef *)
    unfold process_ifdef. cbn [ms_status]. rewrite Hign.
    destruct (cur_active fs) eqn:Ea; cbn [negb]; unfold open_group in Hstep; inversion Hstep; subst; clear Hstep.
    + cbn [xorb ms_defs]. destruct (isdef sd n); fin_rel.
    + fin_rel.
  - (* #ifndef *)
    unfold process_ifdef. cbn [ms_status]. rewrite Hign.
    destruct (cur_active fs) eqn:Ea; cbn [negb]; unfold open_group in Hstep; inversion Hstep; subst; clear Hstep.
    + cbn [xorb ms_defs]. destruct (isdef sd n); fin_rel.
    + fin_rel.
  - (* #elif *)
    destruct fs as [|f fs]; [discriminate|].
    cbn [stack_rel] in Hstk. destruct Hstk as [Hst [Hpa Hrest]].
    destruct stk as [|st' stk']; [contradiction|].
    destruct f as [pa tk se ac]. destruct st as [r i fi fe fin].
    unfold st_rel in Hst. cbn in Hst, Hpa, Hstep, Hfi, Hign, Hrd.
    destruct Hst as [Hf [Hr [Hi [He [Hact Hina]]]]]. subst fi r i fe.
    destruct se; [discriminate|].
    unfold process_elif; cbn.
    destruct pa; cbn in Hstep.
    + destruct tk.
      * inversion Hstep; subst; clear Hstep.
        destruct ac; cbn.
        -- destruct (Hact eq_refl) as [_ [_ Hfin]]. subst fin. cbn. fin_rel.
        -- rewrite (Hina eq_refl). cbn. fin_rel.
      * destruct ac; [destruct (Hact eq_refl) as [_ [Ht _]]; discriminate|].
        rewrite (Hina eq_refl). cbn.
        destruct (evals sd c) as [b|] eqn:Ev; [|discriminate].
        inversion Hstep; subst; clear Hstep.
        unfold line_is_true. cbn [add_trace ms_defs]. rewrite (Hagree _ _ _ Ev).
        destruct b; fin_rel.
    + inversion Hstep; subst; clear Hstep.
      destruct ac; [destruct (Hact eq_refl) as [Hp _]; discriminate|].
      rewrite (Hina eq_refl). rewrite orb_true_r. fin_rel.
  - (* #else *)
    destruct fs as [|f fs]; [discriminate|].
    cbn [stack_rel] in Hstk. destruct Hstk as [Hst [Hpa Hrest]].
    destruct stk as [|st' stk']; [contradiction|].
    destruct f as [pa tk se ac]. destruct st as [r i fi fe fin].
    unfold st_rel in Hst. cbn in Hst, Hpa, Hstep, Hfi, Hign, Hrd.
    destruct Hst as [Hf [Hr [Hi [He [Hact Hina]]]]]. subst fi r i fe.
    destruct se; [discriminate|].
    inversion Hstep; clear Hstep.
    unfold process_else; cbn.
    destruct ac; cbn.
    + destruct (Hact eq_refl) as [Hp [Ht Hfin]]. rewrite Hp, Ht, Hfin in *. cbn. subst s'. fin_rel.
    + rewrite (Hina eq_refl). subst s'. destruct tk, pa; cbn; fin_rel.
  - (* #endif *)
    destruct fs as [|f fs]; [discriminate|].
    cbn [stack_rel] in Hstk. destruct Hstk as [Hst [Hpa Hrest]].
    destruct stk as [|st' stk']; [contradiction|].
    inversion Hstep; subst; clear Hstep.
    unfold process_endif. cbn [ms_status]. rewrite Hfi. cbn [negb].
    fin_rel.
Qed.

Lemma run_sim : forall items m s s',
  rel m s -> srun_from evals isdef apply_dir s items = Some s' ->
  rel (fold_left (mstep evalm isdef apply_dir true) items m) s'.
Proof.
  induction items as [|it items IH]; intros m s s' Hrel Hrun; cbn in *.
  - inversion Hrun; subst. exact Hrel.
  - destruct (sstep evals isdef apply_dir s it) as [s1|] eqn:Es; [|discriminate].
    apply (IH _ s1); [apply (step_sim m s it s1 Hrel Es) | exact Hrun].
Qed.

Theorem bisim : forall d items out trace,
  srun evals isdef apply_dir d items = Some (out, trace) ->
  let m := mrun evalm isdef apply_dir true d items in
  rev (ms_out m) = out /\ rev (ms_trace m) = trace /\ ms_errors m = 0 /\ ms_crashed m = None /\
  ms_status m = st_reading /\ ms_stack m = [st_zero].
Proof.
  intros d items out trace H. unfold srun in H.
  destruct (srun_from evals isdef apply_dir (mk_sstate [] d [] []) items) as [s'|] eqn:Er; [|discriminate].
  destruct (ss_frames s') eqn:Ef; [|discriminate]. inversion H; subst; clear H.
  assert (Hinit : rel (m_init d) (mk_sstate (C:=C) [] d [] [])).
  { unfold rel, m_init; cbn. repeat split; reflexivity. }
  pose proof (run_sim items _ _ _ Hinit Er) as [Hc [He [Hd [Ho [Ht Hs]]]]].
  rewrite Ef in Hs. cbn in Hs. destruct Hs as [Hst Hstk].
  cbn. unfold mrun. rewrite Ho, Ht. repeat split; assumption.
Qed.

End Sim.

(* ------------------------------------------------------------------ (b) conditions: C14's theorem *)
Section CondAgree.
Context {F : Type} (ops : fops F).
Hypothesis H_nz_of_Z : forall s z, - 2 ^ 64 < z < 2 ^ 64 -> fnonzero ops (f_of_Z ops s z) = negb (z =? 0).
Hypothesis H_nz_ext : forall f, fnonzero ops (f64_of_f32 ops f) = fnonzero ops f.

Lemma cond_agree : forall d c b,
  evals_conc ops d c = Some b ->
  evalm_conc ops pfixed d c = (if b then CTrue else CFalse).
Proof.
  intros d c b H. unfold evals_conc, evalm_conc in *.
  destruct (resolve d c) as [e|]; [|discriminate].
  cbn [fix_wide pfixed folder].
  destruct (no_float (widen e) && guards (widen e)) eqn:Eg; [|discriminate].
  apply andb_true_iff in Eg. destruct Eg as [_ Hg].
  destruct (cpp_eval ops (widen e)) as [v|] eqn:Ev; [|discriminate].
  inversion H; subst; clear H.
  destruct (fold_agrees_guarded ops H_nz_of_Z H_nz_ext (widen e) v Hg Ev) as [He _].
  rewrite He, ProofsOps.truthy_erase. destruct (truth ops v); reflexivity.
Qed.

Theorem bisim_conc : forall items out trace,
  srun_conc ops items = Some (out, trace) ->
  let m := mrun_conc ops pfixed items in
  rev (ms_out m) = out /\ rev (ms_trace m) = trace /\ ms_errors m = 0 /\ ms_crashed m = None /\
  ms_status m = st_reading /\ ms_stack m = [st_zero].
Proof.
  intros items out trace H.
  exact (bisim (evalm_conc ops pfixed) (evals_conc ops) isdef_conc apply_dir_conc cond_agree [] items out trace H).
Qed.

End CondAgree.
