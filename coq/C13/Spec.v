(* C13 — the reference semantics of conditional inclusion (C11 6.10.1 / C++17 [cpp.cond]), written
   independently of Model.v: a stack of groups, each remembering whether its enclosing group is
   active, whether one of its branches has been taken, and whether #else has been seen.

   A directive line is *evaluated* only when the standard evaluates it: an #if in an active group,
   an #elif whose enclosing group is active and none of whose earlier branches was taken.  A run
   is undefined (None) as soon as an evaluated condition has no value, a directive is misplaced
   (#elif / #else / #endif without #if, #elif or #else after #else), or the unit ends inside a
   group.

   Conditions (part b): the controlling expression after macro expansion, identifiers -> 0,
   defined(X) -> 0/1, evaluated in intmax_t / uintmax_t: every integer literal is typed as if it
   carried an LL suffix (unsigned with U, or when it does not fit intmax_t and is not decimal),
   and the value is computed by C14's C++17 specification on that expression.  [cpp.cond] also
   makes *results of comparisons* act as intmax_t where C++ would promote them to int; the two
   readings differ only when a comparison/logical result is itself an operand of arithmetic that
   overflows int or of a shift by 31 or more; this file follows C++ there (the check compares
   with the system cpp).  Floating literals are not allowed in #if. *)
From Coq Require Import List ZArith Bool.
From OV.C14 Require Import Syntax Spec.
From OV.C13 Require Import Model.
Import ListNotations.
Local Open Scope Z_scope.

Record frame := mk_frame {
  parent_active : bool;     (* the enclosing group is being kept *)
  taken : bool;             (* this or an earlier branch of the group has been selected *)
  seen_else : bool;
  active : bool;            (* the current branch is being kept *)
}.

Section Groups.
Context {C Dir D : Type}.
Variable evals : D -> C -> option bool.   (* value of a controlling expression, when it has one *)
Variable isdef : D -> Z -> bool.
Variable apply_dir : D -> Dir -> D.

Record sstate := mk_sstate {
  ss_frames : list frame;     (* innermost first *)
  ss_defs : D;
  ss_out : list Z;            (* kept lines, most recent first *)
  ss_trace : list C;          (* evaluated conditions, most recent first *)
}.

Definition cur_active (fs : list frame) : bool :=
  match fs with [] => true | f :: _ => active f end.

Definition open_group (s : sstate) (v : option bool) (tr : list C) : option sstate :=
  (* v = None: the group is opened inside a skipped group, nothing is evaluated *)
  match v with
  | None => Some (mk_sstate (mk_frame false false false false :: ss_frames s) (ss_defs s) (ss_out s) tr)
  | Some b => Some (mk_sstate (mk_frame true b false b :: ss_frames s) (ss_defs s) (ss_out s) tr)
  end.

Definition sstep (s : sstate) (it : item C Dir) : option sstate :=
  let act := cur_active (ss_frames s) in
  match it with
  | IText id =>
      Some (if act then mk_sstate (ss_frames s) (ss_defs s) (id :: ss_out s) (ss_trace s) else s)
  | IDir d =>
      Some (if act then mk_sstate (ss_frames s) (apply_dir (ss_defs s) d) (ss_out s) (ss_trace s) else s)
  | IIf c =>
      if act then
        match evals (ss_defs s) c with
        | Some b => open_group s (Some b) (c :: ss_trace s)
        | None => None
        end
      else open_group s None (ss_trace s)
  | IIfdef n =>
      if act then open_group s (Some (isdef (ss_defs s) n)) (ss_trace s) else open_group s None (ss_trace s)
  | IIfndef n =>
      if act then open_group s (Some (negb (isdef (ss_defs s) n))) (ss_trace s) else open_group s None (ss_trace s)
  | IElif c =>
      match ss_frames s with
      | [] => None
      | f :: fs =>
          if seen_else f then None
          else if negb (parent_active f) then Some s
          else if taken f then
            Some (mk_sstate (mk_frame true true false false :: fs) (ss_defs s) (ss_out s) (ss_trace s))
          else
            match evals (ss_defs s) c with
            | Some b => Some (mk_sstate (mk_frame true b false b :: fs) (ss_defs s) (ss_out s) (c :: ss_trace s))
            | None => None
            end
      end
  | IElse =>
      match ss_frames s with
      | [] => None
      | f :: fs =>
          if seen_else f then None
          else Some (mk_sstate (mk_frame (parent_active f) true true (parent_active f && negb (taken f)) :: fs)
                               (ss_defs s) (ss_out s) (ss_trace s))
      end
  | IEndif =>
      match ss_frames s with
      | [] => None
      | _ :: fs => Some (mk_sstate fs (ss_defs s) (ss_out s) (ss_trace s))
      end
  end.

Fixpoint srun_from (s : sstate) (items : list (item C Dir)) : option sstate :=
  match items with
  | [] => Some s
  | it :: rest => match sstep s it with Some s' => srun_from s' rest | None => None end
  end.

(* kept lines and evaluated conditions, in source order; the unit must end outside every group *)
Definition srun (d : D) (items : list (item C Dir)) : option (list Z * list C) :=
  match srun_from (mk_sstate [] d [] []) items with
  | Some s => match ss_frames s with [] => Some (rev (ss_out s), rev (ss_trace s)) | _ => None end
  | None => None
  end.

End Groups.

Section Cond.
Context {F : Type} (ops : fops F).

Fixpoint no_float (e : expr F) : bool :=
  match e with
  | ELit (LFloat _ _) => false
  | ELit _ => true
  | EUn _ a => no_float a
  | EBin _ a b => no_float a && no_float b
  | ETern c a b => no_float c && no_float a && no_float b
  end.

(* value of a controlling expression; `guards` excludes the three recorded C14 findings *)
Definition evals_conc (d : defs) (c : pexpr F) : option bool :=
  match resolve d c with
  | None => None
  | Some e =>
      let e' := widen e in
      if no_float e' && guards e' then
        match cpp_eval ops e' with
        | Some v => Some (truth ops v)
        | None => None
        end
      else None
  end.

Definition srun_conc (items : list (item (pexpr F) dir)) : option (list Z * list (pexpr F)) :=
  srun evals_conc isdef_conc apply_dir_conc [] items.

End Cond.
