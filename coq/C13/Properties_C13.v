(* C13 — preprocessing agrees with the C preprocessor on the supported subset: conditional inclusion.

   Vocabulary: Model.item (one source line: text, #define/#undef, #if/#ifdef/#ifndef/#elif/#else/
   #endif), Model.mrun (OCCA's status word and statusStack, transcribed; parameter true = the tree
   with fixes/C13-1 applied), Spec.srun (the standard's groups: (parentActive, taken, seenElse,
   active) frames; None = undefined run), Model.evalm_conc / Spec.evals_conc (condition values:
   C14's folder model / C14's C++ specification, after identifiers -> 0, defined(), 64-bit typing).

   PROVED here (conditionals): conditional_bisim, no_error_in_dead_code, if_value_agrees_partial.
   NOT proved (labelled a test in props/C13.py): macro expansion (object-like, function-like,
   variadic, #undef) against the C rescanning algorithm; it is compared with the system `cpp -P`
   by the differential run only.

   FULL STATEMENT for the condition values, false because of the three recorded C14 findings
   (Spec.guards) and left partial:
       forall d c b, value of c under C++17/intmax_t rules = b -> evalm_conc pfixed d c = b. *)
From Coq Require Import List ZArith Bool.
From OV.C14 Require Import Syntax Model Spec.
From OV.C13 Require Import Model Spec Proofs.
Import ListNotations.
Local Open Scope Z_scope.

(* for every evaluator of the implementation that returns the standard's value wherever the standard
   defines one (and does anything at all elsewhere: errors, crashes), and every translation unit on
   which the standard's run is defined: same kept lines, same conditions evaluated in the same
   order, no error, no crash, status word and stack back to their initial values *)
Theorem conditional_bisim :
  forall (C Dir D : Type)
         (evalm : D -> C -> cres) (evals : D -> C -> option bool)
         (isdef : D -> Z -> bool) (apply_dir : D -> Dir -> D),
    (forall d c b, evals d c = Some b -> evalm d c = (if b then CTrue else CFalse)) ->
    forall (d : D) (items : list (item C Dir)) (kept : list Z) (evaluated : list C),
      srun evals isdef apply_dir d items = Some (kept, evaluated) ->
      let m := mrun evalm isdef apply_dir true d items in
      rev (ms_out m) = kept /\ rev (ms_trace m) = evaluated /\
      ms_errors m = 0 /\ ms_crashed m = None /\
      ms_status m = st_reading /\ ms_stack m = [st_zero].
Proof.
  intros C Dir D evalm evals isdef apply_dir Hagree d items kept evaluated H.
  exact (bisim evalm evals isdef apply_dir Hagree d items kept evaluated H).
Qed.
Print Assumptions conditional_bisim.

(* conditions the standard does not evaluate (#elif after a taken branch, anything inside a
   skipped group) cannot cause an error or a crash: whatever the evaluator does on them *)
Theorem no_error_in_dead_code :
  forall (C Dir D : Type)
         (evalm : D -> C -> cres) (evals : D -> C -> option bool)
         (isdef : D -> Z -> bool) (apply_dir : D -> Dir -> D),
    (forall d c b, evals d c = Some b -> evalm d c = (if b then CTrue else CFalse)) ->
    forall (d : D) (items : list (item C Dir)) r,
      srun evals isdef apply_dir d items = Some r ->
      ms_errors (mrun evalm isdef apply_dir true d items) = 0 /\
      ms_crashed (mrun evalm isdef apply_dir true d items) = None.
Proof.
  intros C Dir D evalm evals isdef apply_dir Hagree d items [kept evaluated] H.
  destruct (bisim evalm evals isdef apply_dir Hagree d items kept evaluated H) as [_ [_ [He [Hc _]]]].
  split; assumption.
Qed.
Print Assumptions no_error_in_dead_code.

(* condition values: where the specification (C++17 on 64-bit typed literals, C14's guards)
   defines the value of a controlling expression, the repaired lineIsTrue returns it *)
Theorem if_value_agrees_partial :
  forall (F : Type) (ops : fops F),
    (forall s z, - 2 ^ 64 < z < 2 ^ 64 -> fnonzero ops (f_of_Z ops s z) = negb (z =? 0)) ->
    (forall f, fnonzero ops (f64_of_f32 ops f) = fnonzero ops f) ->
    forall (d : defs) (c : pexpr F) (b : bool),
      evals_conc ops d c = Some b ->
      evalm_conc ops pfixed d c = (if b then CTrue else CFalse).
Proof. intros F ops H1 H2 d c b H. exact (cond_agree ops H1 H2 d c b H). Qed.
Print Assumptions if_value_agrees_partial.

(* both parts together, on the concrete conditions *)
Theorem conditional_bisim_conc :
  forall (F : Type) (ops : fops F),
    (forall s z, - 2 ^ 64 < z < 2 ^ 64 -> fnonzero ops (f_of_Z ops s z) = negb (z =? 0)) ->
    (forall f, fnonzero ops (f64_of_f32 ops f) = fnonzero ops f) ->
    forall (items : list (item (pexpr F) dir)) kept evaluated,
      srun_conc ops items = Some (kept, evaluated) ->
      let m := mrun_conc ops pfixed items in
      rev (ms_out m) = kept /\ rev (ms_trace m) = evaluated /\ ms_errors m = 0 /\ ms_crashed m = None.
Proof.
  intros F ops H1 H2 items kept evaluated H.
  destruct (bisim_conc ops H1 H2 items kept evaluated H) as [A [B [Cc [Dd _]]]].
  repeat split; assumption.
Qed.
Print Assumptions conditional_bisim_conc.

(* ------------------------------------------------------------------ witnesses *)
Definition ilit_p {F} (l : ilit) : pexpr F := PLit (LInt l).
Definition d1 : ilit := mk_ilit Dec [1] false 0.
Definition z0 : ilit := mk_ilit Oct [] false 0.
Definition div10 {F} : pexpr F := PBin Div (ilit_p d1) (ilit_p z0).        (* 1/0 *)

(* #if 1 / A / #elif 1/0 / B / #endif / C *)
Definition tu_elif_after_taken {F} : list (item (pexpr F) dir) :=
  [IIf (ilit_p d1); IText 1; IElif div10; IText 2; IEndif; IText 3].

Theorem elif_after_taken_evaluated_refuted :      (* pinned: the #elif condition is evaluated -> SIGFPE *)
  forall (F : Type) (ops : fops F),
    srun_conc ops (@tu_elif_after_taken F) = Some ([1; 3], [ilit_p d1]) /\
    ms_crashed (mrun_conc ops ppinned (@tu_elif_after_taken F)) = Some 0 /\
    ms_crashed (mrun_conc ops pfixed (@tu_elif_after_taken F)) = None.
Proof. intros. repeat split; vm_compute; reflexivity. Qed.
Print Assumptions elif_after_taken_evaluated_refuted.

(* #if 0 / #if 1 / X / #elif 1/0 / Y / #endif / #endif / C : an #elif inside a skipped group *)
Definition tu_dead_elif {F} : list (item (pexpr F) dir) :=
  [IIf (ilit_p z0); IIf (ilit_p d1); IText 1; IElif div10; IText 2; IEndif; IEndif; IText 3].

Theorem dead_code_elif_evaluated_refuted :
  forall (F : Type) (ops : fops F),
    srun_conc ops (@tu_dead_elif F) = Some ([3], [ilit_p z0]) /\
    ms_crashed (mrun_conc ops ppinned (@tu_dead_elif F)) = Some 0 /\
    ms_crashed (mrun_conc ops pfixed (@tu_dead_elif F)) = None.
Proof. intros. repeat split; vm_compute; reflexivity. Qed.
Print Assumptions dead_code_elif_evaluated_refuted.

(* #if 0 && (1/0) : pinned folder evaluates both operands *)
Definition tu_dead_arith {F} : list (item (pexpr F) dir) :=
  [IIf (PBin LAnd (ilit_p z0) div10); IText 1; IEndif; IText 2].

Theorem dead_if_arith_refuted :
  forall (F : Type) (ops : fops F),
    srun_conc ops (@tu_dead_arith F) = Some ([2], [PBin LAnd (ilit_p z0) div10]) /\
    ms_crashed (mrun_conc ops ppinned (@tu_dead_arith F)) = Some 0.
Proof. intros. repeat split; vm_compute; reflexivity. Qed.
Print Assumptions dead_if_arith_refuted.

(* #if 65536*65536 : 2^32 in intmax_t arithmetic, signed overflow in 32-bit arithmetic;
   the repaired folder alone (literal typing by value) does not help, 64-bit typing does *)
Definition lit65536 : ilit := mk_ilit Dec [6;5;5;3;6] false 0.
Definition tu_int32 {F} : list (item (pexpr F) dir) :=
  [IIf (PBin Mul (ilit_p lit65536) (ilit_p lit65536)); IText 1; IEndif; IText 2].

Theorem int32_conditions_refuted :
  forall (F : Type) (ops : fops F),
    srun_conc ops (@tu_int32 F) = Some ([1; 2], [PBin Mul (ilit_p lit65536) (ilit_p lit65536)]) /\
    ms_crashed (mrun_conc ops ppinned (@tu_int32 F)) = Some 0 /\
    ms_crashed (mrun_conc ops (mk_pcfg true false fixed) (@tu_int32 F)) = Some 0 /\
    rev (ms_out (mrun_conc ops pfixed (@tu_int32 F))) = [1; 2].
Proof. intros. repeat split; vm_compute; reflexivity. Qed.
Print Assumptions int32_conditions_refuted.

(* ------------------------------------------------------------------ non-vacuity *)
(* #define N 3 / #if N > 2 / A / #elif 1/0 / B / #else / C / #endif / #undef N / #if N > 2 / D / #else / E / #endif *)
Example bisim_example :
  forall (F : Type) (ops : fops F),
    let three := mk_ilit Dec [3] false 0 in
    let two := mk_ilit Dec [2] false 0 in
    let c : pexpr F := PBin Gt (PIdent 7) (ilit_p two) in
    let tu : list (item (pexpr F) dir) :=
      [IDir (DDefine 7 (BLit three)); IIf c; IText 1; IElif div10; IText 2; IElse; IText 3; IEndif;
       IDir (DUndef 7); IIf c; IText 4; IElse; IText 5; IEndif] in
    srun_conc ops tu = Some ([1; 5], [c; c]) /\
    rev (ms_out (mrun_conc ops pfixed tu)) = [1; 5] /\
    ms_crashed (mrun_conc ops pfixed tu) = None.
Proof. intros. repeat split; vm_compute; reflexivity. Qed.
