(* C13 — executable model of OCCA's conditional-inclusion machinery, transcribed from
     src/occa/internal/lang/preprocessor.cpp
       pushStatus / popStatus / swapReadingStatus            (386-408)
       processToken, processIdentifier: drop tokens while `status & ignoring`   (676-750)
       processHashOperator: which directives run while ignoring                (804-855)
       lineIsTrue (incl. its error path that pushes a status)                  (990-1035)
       getIfdef, processIf / Ifdef / Ifndef / Elif / Else / Endif             (1037-1214)
     src/occa/internal/lang/specialMacros.cpp  definedMacro::expand           (12-60)

   A translation unit is a list of items (one per source line).  The status word is the record of
   its five bits.  Conditions are evaluated by a function `evalm` (outcome: true / false / an
   expression error / death of the process); part (b) below instantiates it with C14's model of
   the constant folder after identifiers -> 0 and defined().

   [pcfg] parameterises the branches changed by fixes/C13-1 (an #elif condition is evaluated only
   where it decides something; its error path no longer pushes a status) and fixes/C13-2
   (#if arithmetic in 64 bits).  No proofs in this file. *)
From Coq Require Import List ZArith Bool.
From OV.C14 Require Import Syntax Model.
Import ListNotations.
Local Open Scope Z_scope.

(* ppStatus bits *)
Record status := mk_status {
  reading : bool; ignoring : bool; foundIf : bool; foundElse : bool; finishedIf : bool }.

Definition st_zero : status := mk_status false false false false false.
Definition st_reading : status := mk_status true false false false false.

(* outcome of lineIsTrue's expression: value, error reported while parsing / checking the
   expression (counted: preprocessor_t::errorOn was used, otherwise only printed), or the
   evaluation killed the process (0: undefined behaviour / SIGFPE, 1: occa::exception escaped) *)
Inductive cres := CTrue | CFalse | CErr (counted : bool) | CCrash (how : Z).

Inductive item (C Dir : Type) :=
| IText (id : Z)            (* an ordinary source line *)
| IDir (d : Dir)            (* #define / #undef: only acts on the macro table *)
| IIf (c : C)
| IIfdef (n : Z)
| IIfndef (n : Z)
| IElif (c : C)
| IElse
| IEndif.
Arguments IText {C Dir}. Arguments IDir {C Dir}. Arguments IIf {C Dir}. Arguments IIfdef {C Dir}.
Arguments IIfndef {C Dir}. Arguments IElif {C Dir}. Arguments IElse {C Dir}. Arguments IEndif {C Dir}.

Section StateMachine.
Context {C Dir D : Type}.
Variable evalm : D -> C -> cres.          (* lineIsTrue's expression, in the current macro table *)
Variable isdef : D -> Z -> bool.          (* getMacro(name) != NULL *)
Variable apply_dir : D -> Dir -> D.       (* processDefine / processUndef *)

Record mstate := mk_mstate {
  ms_status : status;
  ms_stack : list status;       (* statusStack, top first *)
  ms_defs : D;
  ms_out : list Z;              (* kept lines, most recent first *)
  ms_trace : list C;            (* conditions handed to the evaluator, most recent first *)
  ms_errors : Z;                (* preprocessor_t::errors *)
  ms_crashed : option Z;        (* Some how: the process died *)
}.

Definition set_status (s : mstate) (st : status) : mstate :=
  mk_mstate st (ms_stack s) (ms_defs s) (ms_out s) (ms_trace s) (ms_errors s) (ms_crashed s).
Definition push_status (s : mstate) (st : status) : mstate :=
  mk_mstate st (ms_status s :: ms_stack s) (ms_defs s) (ms_out s) (ms_trace s) (ms_errors s) (ms_crashed s).
Definition pop_status (s : mstate) : mstate :=
  match ms_stack s with
  | [] => s
  | st :: rest => mk_mstate st rest (ms_defs s) (ms_out s) (ms_trace s) (ms_errors s) (ms_crashed s)
  end.
Definition add_error (s : mstate) : mstate :=
  mk_mstate (ms_status s) (ms_stack s) (ms_defs s) (ms_out s) (ms_trace s) (ms_errors s + 1) (ms_crashed s).
Definition add_trace (s : mstate) (c : C) : mstate :=
  mk_mstate (ms_status s) (ms_stack s) (ms_defs s) (ms_out s) (c :: ms_trace s) (ms_errors s) (ms_crashed s).
Definition crash (s : mstate) (how : Z) : mstate :=
  mk_mstate (ms_status s) (ms_stack s) (ms_defs s) (ms_out s) (ms_trace s) (ms_errors s) (Some how).

Definition swap_reading (st : status) : status :=
  if reading st then mk_status false true (foundIf st) (foundElse st) (finishedIf st)
  else mk_status true false (foundIf st) (foundElse st) (finishedIf st).

(* status &= ~reading; status |= ignoring | finishedIf *)
Definition kill_group (st : status) : status :=
  mk_status false true (foundIf st) (foundElse st) true.

(* foundIf | (isTrue ? reading : ignoring) *)
Definition st_group (isTrue : bool) : status := mk_status isTrue (negb isTrue) true false false.
(* ignoring | foundIf | finishedIf *)
Definition st_dead : status := mk_status false true true false true.
(* ignoring | foundIf *)
Definition st_error : status := mk_status false true true false false.

(* lineIsTrue: Some b = returned true with isTrue = b; None = returned false (after pushing) or died *)
Definition line_is_true (s : mstate) (c : C) : mstate * option bool :=
  let s := add_trace s c in
  match evalm (ms_defs s) c with
  | CTrue => (s, Some true)
  | CFalse => (s, Some false)
  | CErr counted => (push_status (if counted then add_error s else s) st_error, None)
  | CCrash how => (crash s how, None)
  end.

Definition process_if (s : mstate) (c : C) : mstate :=
  if ignoring (ms_status s) then push_status s st_dead
  else match line_is_true s c with
       | (s', Some b) => push_status s' (st_group b)
       | (s', None) => s'
       end.

Definition process_ifdef (neg : bool) (s : mstate) (n : Z) : mstate :=
  if ignoring (ms_status s) then push_status s st_dead
  else push_status s (st_group (xorb neg (isdef (ms_defs s) n))).

Definition process_elif (fix_elif : bool) (s : mstate) (c : C) : mstate :=
  let st := ms_status s in
  if negb (foundIf st) then add_error s
  else if foundElse st then set_status (add_error s) (kill_group st)
  else if fix_elif then
    (* repaired: the condition is evaluated only when it decides something *)
    if finishedIf st then s
    else if reading st then
      let st' := swap_reading st in
      set_status s (mk_status (reading st') (ignoring st') (foundIf st') (foundElse st') true)
    else match line_is_true s c with
         | (s', Some true) => set_status s' (st_group true)
         | (s', Some false) => s'
         | (s', None) => match ms_crashed s' with Some _ => s' | None => pop_status s' end
         end
  else
    (* pinned: lineIsTrue first, whatever the state *)
    match line_is_true s c with
    | (s', None) => s'
    | (s', Some isTrue) =>
        let st := ms_status s' in
        if finishedIf st then s'
        else if reading st then
          let st' := swap_reading st in
          set_status s' (mk_status (reading st') (ignoring st') (foundIf st') (foundElse st') true)
        else if isTrue then set_status s' (st_group true)
        else s'
    end.

Definition process_else (s : mstate) : mstate :=
  let st := ms_status s in
  if negb (foundIf st) then add_error s
  else if foundElse st then set_status (add_error s) (kill_group st)
  else
    let st := mk_status (reading st) (ignoring st) (foundIf st) true (finishedIf st) in
    if finishedIf st then set_status s st
    else if reading st then
      let st' := swap_reading st in
      set_status s (mk_status (reading st') (ignoring st') (foundIf st') (foundElse st') true)
    else set_status s (swap_reading st).

Definition process_endif (s : mstate) : mstate :=
  if negb (foundIf (ms_status s)) then add_error s else pop_status s.

Definition mstep (fix_elif : bool) (s : mstate) (it : item C Dir) : mstate :=
  match ms_crashed s with
  | Some _ => s
  | None =>
      match it with
      | IText id =>
          if ignoring (ms_status s) then s
          else mk_mstate (ms_status s) (ms_stack s) (ms_defs s) (id :: ms_out s) (ms_trace s) (ms_errors s) (ms_crashed s)
      | IDir d =>
          if ignoring (ms_status s) then s
          else mk_mstate (ms_status s) (ms_stack s) (apply_dir (ms_defs s) d) (ms_out s) (ms_trace s) (ms_errors s) (ms_crashed s)
      | IIf c => process_if s c
      | IIfdef n => process_ifdef false s n
      | IIfndef n => process_ifdef true s n
      | IElif c => process_elif fix_elif s c
      | IElse => process_else s
      | IEndif => process_endif s
      end
  end.

(* the constructor does pushStatus(reading) on a zeroed status word *)
Definition m_init (d : D) : mstate := mk_mstate st_reading [st_zero] d [] [] 0 None.

Definition mrun (fix_elif : bool) (d : D) (items : list (item C Dir)) : mstate :=
  fold_left (mstep fix_elif) items (m_init d).

End StateMachine.

(* ------------------------------------------------------------------ (b) conditions
   A condition after macro expansion of the line: identifiers, defined(X), literals and operators.
   The macro table maps a name to its body when the body matters for conditions: an integer
   literal, or nothing usable (empty / anything else). *)
Inductive pexpr (F : Type) :=
| PLit (l : lit F)
| PIdent (n : Z)
| PDefined (n : Z)
| PUn (o : unop) (a : pexpr F)
| PBin (o : binop) (a b : pexpr F)
| PTern (c a b : pexpr F)
| PBad                        (* a token line that is not an expression *)
| PEmpty.                     (* no tokens at all: "Expected a value or expression" (counted) *)
Arguments PLit {F}. Arguments PIdent {F}. Arguments PDefined {F}. Arguments PUn {F}.
Arguments PBin {F}. Arguments PTern {F}. Arguments PBad {F}. Arguments PEmpty {F}.

Inductive mbody := BLit (l : ilit) | BEmpty | BOther.
Definition defs := list (Z * mbody).

Fixpoint lookup (n : Z) (d : defs) : option mbody :=
  match d with
  | [] => None
  | (m, b) :: d' => if n =? m then Some b else lookup n d'
  end.

Inductive dir := DDefine (n : Z) (b : mbody) | DUndef (n : Z).

Fixpoint remove_def (n : Z) (d : defs) : defs :=
  match d with
  | [] => []
  | (m, b) :: d' => if n =? m then remove_def n d' else (m, b) :: remove_def n d'
  end.

Definition apply_dir_conc (d : defs) (x : dir) : defs :=
  match x with
  | DDefine n b => (n, b) :: remove_def n d
  | DUndef n => remove_def n d
  end.

Definition isdef_conc (d : defs) (n : Z) : bool :=
  match lookup n d with Some _ => true | None => false end.

Definition lit_zero : ilit := mk_ilit Oct [] false 0.        (* primitiveToken(origin, 0, "0") *)

Section Cond.
Context {F : Type} (ops : fops F).

(* the token line after expansion, as an expression: None = it does not parse
   (an identifier expanded to nothing / to something that is not one literal) *)
Fixpoint resolve (d : defs) (e : pexpr F) : option (expr F) :=
  match e with
  | PLit l => Some (ELit l)
  | PIdent n =>
      match lookup n d with
      | None => Some (ELit (LInt lit_zero))          (* remaining identifiers become 0 *)
      | Some (BLit l) => Some (ELit (LInt l))
      | Some _ => None
      end
  | PDefined n => Some (ELit (LBool (isdef_conc d n)))     (* definedMacro: primitive(bool) *)
  | PUn o a => match resolve d a with Some a' => Some (EUn o a') | None => None end
  | PBin o a b =>
      match resolve d a, resolve d b with
      | Some a', Some b' => Some (EBin o a' b')
      | _, _ => None
      end
  | PTern c a b =>
      match resolve d c, resolve d a, resolve d b with
      | Some c', Some a', Some b' => Some (ETern c' a' b')
      | _, _, _ => None
      end
  | PBad => None
  | PEmpty => None
  end.

(* fixes/C13-2: lineIsTrue turns every integer / bool primitive token into a 64-bit one (unsigned
   only with a U suffix or above INT64_MAX): the literal is typed as if it carried an LL suffix *)
Definition widen_lit (l : lit F) : lit F :=
  match l with
  | LInt il => LInt (mk_ilit (l_base il) (l_digits il) (l_uns il) 2)
  | LBool b => LInt (if b then mk_ilit Dec [1] false 2 else mk_ilit Oct [] false 2)     (* 1LL / 0LL *)
  | LFloat s f => LFloat s f
  end.

Fixpoint widen (e : expr F) : expr F :=
  match e with
  | ELit l => ELit (widen_lit l)
  | EUn o a => EUn o (widen a)
  | EBin o a b => EBin o (widen a) (widen b)
  | ETern c a b => ETern (widen c) (widen a) (widen b)
  end.

Record pcfg := mk_pcfg { fix_elif : bool; fix_wide : bool; folder : cfg }.
Definition ppinned : pcfg := mk_pcfg false false pinned.
Definition pfixed : pcfg := mk_pcfg true true fixed.

Definition evalm_conc (pc : pcfg) (d : defs) (c : pexpr F) : cres :=
  match resolve d c with
  | None => CErr (match c with PEmpty => true | _ => false end)
  | Some e =>
      match eval ops (folder pc) (if fix_wide pc then widen e else e) with
      | Val p => if truthy ops p then CTrue else CFalse
      | Err => CCrash 1
      | UB => CCrash 0
      end
  end.

Definition mrun_conc (pc : pcfg) (items : list (item (pexpr F) dir)) : mstate :=
  mrun (evalm_conc pc) isdef_conc apply_dir_conc (fix_elif pc) [] items.

End Cond.
