(* C28 — the specification: a finite map from non-empty keys to values, as an association
   list without duplicate keys; longest stored prefix by trying the prefixes of the query
   from the longest down.  Independent of Model.v's data structures. *)
From Coq Require Import List ZArith Bool.
Import ListNotations.
Local Open Scope Z_scope.

Definition skey := list Z.
Definition smap := list (skey * Z).

Fixpoint key_eqb (a b : skey) : bool :=
  match a, b with
  | [], [] => true
  | x :: a', y :: b' => (x =? y) && key_eqb a' b'
  | _, _ => false
  end.

Fixpoint s_lookup (k : skey) (m : smap) : option Z :=
  match m with
  | [] => None
  | (k', v) :: m' => if key_eqb k k' then Some v else s_lookup k m'
  end.

Fixpoint s_remove (k : skey) (m : smap) : smap :=
  match m with
  | [] => []
  | (k', v) :: m' => if key_eqb k k' then s_remove k m' else (k', v) :: s_remove k m'
  end.

(* add: a later add of the same key replaces the value (most recently added value) *)
Definition s_add (k : skey) (v : Z) (m : smap) : smap := (k, v) :: s_remove k m.

(* longest stored non-empty key that is a prefix of q: returns (length, value) *)
Fixpoint s_longest (q : skey) (m : smap) (pre : skey) (best : option (Z * Z)) : option (Z * Z) :=
  match q with
  | [] => best
  | c :: q' =>
      let pre' := pre ++ [c] in
      let best' := match s_lookup pre' m with
                   | Some v => Some (Z.of_nat (length pre'), v)
                   | None => best
                   end in
      s_longest q' m pre' best'
  end.

Definition spec_getLongest (q : skey) (m : smap) : option (Z * Z) := s_longest q m [] None.
Definition spec_get (q : skey) (m : smap) : option Z :=
  match q with [] => None | _ => s_lookup q m end.
Definition spec_size (m : smap) : Z := Z.of_nat (length m).

Inductive sop := SAdd (k : skey) (v : Z) | SRemove (k : skey) | SClear | SNop.

Definition s_step (m : smap) (o : sop) : smap :=
  match o with
  | SAdd k v => s_add k v m
  | SRemove k => s_remove k m
  | SClear => []
  | SNop => m
  end.
