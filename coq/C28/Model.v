(* C28 — executable model of occa::trie<int> (src/occa/internal/utils/trie.{hpp,tpp,cpp}).
   Transcribed branch for branch.  Characters are C `char`s, i.e. signed: Z in [-128,127];
   std::map<char,trieNode> and the frozen binary search both order them as signed values.
   No proofs in this file (so that it still extracts when a proof breaks). *)
From Coq Require Import List ZArith Bool Lia.
Import ListNotations.
Local Open Scope Z_scope.

Definition chr := Z.
Definition key := list chr.

(* trieNode: valueIndex and the ordered map of leaves *)
Inductive node : Type := Node (vi : Z) (kids : list (chr * node)).

Definition n_vi (n : node) : Z := match n with Node v _ => v end.
Definition n_kids (n : node) : list (chr * node) := match n with Node _ k => k end.

Definition empty_node : node := Node (-1) [].

(* std::map lookup *)
Fixpoint kfind (c : chr) (ks : list (chr * node)) : option node :=
  match ks with
  | [] => None
  | (c', n) :: ks' => if c =? c' then Some n else kfind c ks'
  end.

(* insert-or-replace keeping ascending key order (std::map semantics) *)
Fixpoint kset (c : chr) (n : node) (ks : list (chr * node)) : list (chr * node) :=
  match ks with
  | [] => [(c, n)]
  | (c', n') :: ks' =>
      if c <? c' then (c, n) :: ks
      else if c =? c' then (c, n) :: ks'
      else (c', n') :: kset c n ks'
  end.

Fixpoint kerase (c : chr) (ks : list (chr * node)) : list (chr * node) :=
  match ks with
  | [] => []
  | (c', n') :: ks' => if c =? c' then ks' else (c', n') :: kerase c ks'
  end.

(* trieNode::get(c, cIndex, length): returns (length, valueIndex).
   `off1` is what the code adds to cIndex when it falls back to its own value after a failed
   descent.  The pinned source had `cIndex + 1` there (DESIGN section 8 #31); the repaired
   source has `cIndex`.  The model takes the code's constant as a parameter so that both
   variants are expressible; `node_get` below fixes it to the value in the current tree. *)
Fixpoint node_get_gen (off1 : Z) (q : key) (cIndex : Z) (n : node) : Z * Z :=
  match q with
  | [] => (cIndex, n_vi n)
  | c :: q' =>
      match kfind c (n_kids n) with
      | Some k =>
          let r := node_get_gen off1 q' (cIndex + 1) k in
          if negb (0 <=? snd r) && (0 <=? n_vi n)
          then (cIndex + off1, n_vi n)
          else r
      | None => (cIndex, n_vi n)
      end
  end.

Definition node_get (q : key) (n : node) : Z * Z := node_get_gen 0 q 0 n.

(* trieNode::getValueIndex *)
Definition node_getValueIndex (q : key) (n : node) : Z :=
  let r := node_get q n in
  if fst r =? Z.of_nat (length q) then snd r else -1.

(* trieNode::add *)
Fixpoint node_add (q : key) (vi : Z) (n : node) : node :=
  match q with
  | [] => Node vi (n_kids n)
  | c :: q' =>
      let child := match kfind c (n_kids n) with Some k => k | None => empty_node end in
      Node (n_vi n) (kset c (node_add q' vi child) (n_kids n))
  end.

(* trieNode::nestedRemove: returns (new node, returned bool) *)
Fixpoint node_nestedRemove (q : key) (n : node) : node * bool :=
  match q with
  | [] => (n, false)   (* unreachable from remove(): length <= 0 returns early *)
  | c :: q' =>
      match kfind c (n_kids n) with
      | None => (n, false)
      | Some leaf =>
          let kids' :=
            match q' with
            | [] => (* length == 1 *)
                let leaf' := Node (-1) (n_kids leaf) in
                match n_kids leaf with
                | [] => kerase c (n_kids n)
                | _ => kset c leaf' (n_kids n)
                end
            | _ =>
                let '(leaf', emptyTree) := node_nestedRemove q' leaf in
                if emptyTree && (Z.of_nat (length (n_kids n)) =? 1)
                then kerase c (n_kids n)
                else kset c leaf' (n_kids n)
            end in
          (Node (n_vi n) kids',
           (n_vi n <? 0) && match kids' with [] => true | _ => false end)
      end
  end.

(* trieNode::decrementIndex: every proper descendant with valueIndex > v is decremented
   (the node it is called on is not) *)
Fixpoint node_decr (v : Z) (n : node) : node :=
  match n with
  | Node vi kids =>
      Node vi ((fix go (ks : list (chr * node)) : list (chr * node) :=
                  match ks with
                  | [] => []
                  | (c, k) :: ks' =>
                      let k' := node_decr v k in
                      (c, Node (if v <? n_vi k' then n_vi k' - 1 else n_vi k') (n_kids k')) :: go ks'
                  end) kids)
  end.

(* trieNode::remove(c, length, valueIndex) *)
Definition node_remove (q : key) (v : Z) (n : node) : node :=
  match q with
  | [] => n
  | _ => node_decr v (fst (node_nestedRemove q n))
  end.

Fixpoint node_size (n : node) : Z :=
  match n with
  | Node vi kids =>
      (if 0 <=? vi then 1 else 0) +
      (fix go (ks : list (chr * node)) : Z :=
         match ks with [] => 0 | (_, k) :: ks' => node_size k + go ks' end) kids
  end.

Fixpoint node_count (n : node) : Z :=
  match n with
  | Node _ kids =>
      Z.of_nat (length kids) +
      (fix go (ks : list (chr * node)) : Z :=
         match ks with [] => 0 | (_, k) :: ks' => node_count k + go ks' end) kids
  end.

(* ---- frozen representation: four parallel arrays, here one list of entries ---- *)
Record entry := { e_char : chr; e_offset : Z; e_count : Z; e_vi : Z }.

(* trie::freeze(node, offset): the block of `node`'s leaves is at [offset, offset+|leaves|),
   the sub-blocks follow from leafOffset in leaf order.  `lay n off` is the content of the
   arrays from index `off` for the whole subtree (length = node_count n). *)
Fixpoint lay (n : node) (off : Z) : list entry :=
  match n with
  | Node _ kids =>
      let base := off + Z.of_nat (length kids) in
      let p :=
        (fix go (ks : list (chr * node)) (leafOffset : Z) : list entry * list entry :=
           match ks with
           | [] => ([], [])
           | (c, k) :: ks' =>
               let sub := lay k leafOffset in
               let '(blk, subs) := go ks' (leafOffset + node_count k) in
               ({| e_char := c; e_offset := leafOffset;
                   e_count := Z.of_nat (length (n_kids k)); e_vi := n_vi k |} :: blk,
                sub ++ subs)
           end) kids base in
      fst p ++ snd p
  end.

Definition sentinel (nodeCount : Z) : entry :=
  {| e_char := 0; e_offset := nodeCount; e_count := 0; e_vi := -1 |}.

Record frozen_t := { f_arr : list entry; f_nodeCount : Z; f_base : Z }.

Definition freeze_node (r : node) : frozen_t :=
  let nc := node_count r in
  {| f_arr := lay r 0 ++ [sentinel nc]; f_nodeCount := nc;
     f_base := Z.of_nat (length (n_kids r)) |}.

(* An array read outside [0, nodeCount] is an out-of-bounds read in C++; the model makes it
   observable as OOB instead of returning a default. *)
Inductive fres := FOk (len vi : Z) | FOob.

Definition arr_get (a : list entry) (i : Z) : option entry :=
  if (0 <=? i) then nth_error a (Z.to_nat i) else None.

(* the inner `while (start <= end)` binary search; fuel = count+1 suffices *)
Fixpoint bsearch (fuel : nat) (a : list entry) (offset : Z) (ci : chr) (start end_ : Z)
  : option (option (Z * entry)) (* None = OOB; Some None = not found; Some (Some (mid, e)) *) :=
  match fuel with
  | O => Some None
  | S fuel' =>
      if start <=? end_ then
        let mid := Z.quot (start + end_) 2 in
        match arr_get a (offset + mid) with
        | None => None
        | Some e =>
            if ci <? e_char e then bsearch fuel' a offset ci start (mid - 1)
            else if e_char e <? ci then bsearch fuel' a offset ci (mid + 1) end_
            else Some (Some (mid, e))
        end
      else Some None
  end.

(* frozen getLongest's outer loop *)
Fixpoint frozen_loop (a : list entry) (q : key) (pos : Z) (offset count : Z) (retLen retVi : Z) : fres :=
  match q with
  | [] => FOk retLen retVi
  | ci :: q' =>
      match bsearch (S (Z.to_nat count)) a offset ci 0 (count - 1) with
      | None => FOob
      | Some None => FOk retLen retVi
      | Some (Some (_, e)) =>
          let pos' := pos + 1 in
          let '(rl, rv) := if 0 <=? e_vi e then (pos', e_vi e) else (retLen, retVi) in
          frozen_loop a q' pos' (e_offset e) (e_count e) rl rv
      end
  end.

(* ---- trie<int> ---- *)
Record trie := {
  t_root : node;
  t_values : list Z;
  t_frozen : option frozen_t;
  t_auto : bool
}.

Definition trie_init (auto : bool) : trie :=
  {| t_root := empty_node; t_values := []; t_frozen := None; t_auto := auto |}.

Definition t_defrost (t : trie) : trie :=
  {| t_root := t_root t; t_values := t_values t; t_frozen := None; t_auto := t_auto t |}.

Definition t_freeze (t : trie) : trie :=
  {| t_root := t_root t; t_values := t_values t;
     t_frozen := Some (freeze_node (t_root t)); t_auto := t_auto t |}.

Fixpoint list_set {A} (l : list A) (i : nat) (x : A) : list A :=
  match l, i with
  | [], _ => []
  | _ :: l', O => x :: l'
  | y :: l', S i' => y :: list_set l' i' x
  end.

Fixpoint list_del {A} (l : list A) (i : nat) : list A :=
  match l, i with
  | [], _ => []
  | _ :: l', O => l'
  | y :: l', S i' => y :: list_del l' i'
  end.

Definition t_add (q : key) (v : Z) (t : trie) : trie :=
  let vi := node_getValueIndex q (t_root t) in
  if vi <? 0 then
    let t1 := t_defrost t in
    let vi' := Z.of_nat (length (t_values t1)) in
    let t2 := {| t_root := node_add q vi' (t_root t1); t_values := t_values t1 ++ [v];
                 t_frozen := None; t_auto := t_auto t1 |} in
    if t_auto t2 then t_freeze t2 else t2
  else
    {| t_root := t_root t; t_values := list_set (t_values t) (Z.to_nat vi) v;
       t_frozen := t_frozen t; t_auto := t_auto t |}.

Definition t_remove (q : key) (t : trie) : trie :=
  let vi := node_getValueIndex q (t_root t) in
  if 0 <=? vi then
    let t1 := t_defrost t in
    let t2 := {| t_root := node_remove q vi (t_root t1); t_values := list_del (t_values t1) (Z.to_nat vi);
                 t_frozen := None; t_auto := t_auto t1 |} in
    if t_auto t2 then t_freeze t2 else t2
  else t.

Definition t_clear (t : trie) : trie :=
  {| t_root := Node (n_vi (t_root t)) []; t_values := []; t_frozen := None; t_auto := t_auto t |}.

(* result: success flag, length, value (defaultValue = 0 for trie<int> ... the driver uses -7) *)
Inductive qres := QOk (success : bool) (len : Z) (vi : Z) | QOob.

Definition t_getLongest (q : key) (t : trie) : qres :=
  match t_frozen t with
  | None =>
      let r := node_get q (t_root t) in
      if 0 <=? snd r then QOk true (fst r) (snd r) else QOk false 0 (-1)
  | Some f =>
      match frozen_loop (f_arr f) q 0 0 (f_base f) 0 (-1) with
      | FOob => QOob
      | FOk rl rv => if rl =? 0 then QOk false 0 (-1) else QOk (0 <=? rv) rl rv
      end
  end.

Definition t_get (q : key) (t : trie) : qres :=
  match t_getLongest q t with
  | QOob => QOob
  | QOk s l v => if l =? Z.of_nat (length q) then QOk s l v else QOk false 0 (-1)
  end.

(* bool has(const char *c): get(c).length == strlen(c) *)
Definition t_has (q : key) (t : trie) : option bool :=
  match t_get q t with
  | QOob => None
  | QOk _ l _ => Some (l =? Z.of_nat (length q))
  end.

Definition t_size (t : trie) : Z :=
  match t_frozen t with
  | Some _ => Z.of_nat (length (t_values t))
  | None => node_size (t_root t)
  end.

(* ---- histories ---- *)
Inductive op :=
| OAdd (k : key) (v : Z)
| ORemove (k : key)
| OFreeze
| ODefrost
| OClear.

Definition step (t : trie) (o : op) : trie :=
  match o with
  | OAdd k v => t_add k v t
  | ORemove k => t_remove k t
  | OFreeze => t_freeze t
  | ODefrost => t_defrost t
  | OClear => t_clear t
  end.

Definition run (auto : bool) (ops : list op) : trie := fold_left step ops (trie_init auto).

(* value lookup as result_t::value() does it (values[valueIndex], or the default) *)
Definition value_of (t : trie) (dflt : Z) (r : qres) : option (bool * Z * Z) :=
  match r with
  | QOob => None
  | QOk s l vi =>
      if 0 <=? vi then
        match nth_error (t_values t) (Z.to_nat vi) with
        | Some v => Some (s, l, v)
        | None => None          (* values[vi] out of range: OOB *)
        end
      else Some (s, l, dflt)
  end.
