(* C28 — proofs: the trie of Model.v refines the finite map of Spec.v.
   Plan: (1) lemmas on the ordered child lists; (2) a semantic lookup `tree_vi` and its behaviour
   under add / nestedRemove / decrementIndex; (3) `walk`, the common meaning of the unfrozen
   `node_get` and the frozen `frozen_loop`; (4) the layout of the frozen arrays and the binary
   search; (5) the invariant tying tree, value vector and map, preserved by every step;
   (6) the theorems. *)
From Coq Require Import List ZArith Bool Lia ZifyBool Arith.
From OV.C28 Require Import Model Spec Statements.
Import ListNotations.
Local Open Scope Z_scope.

Notation len l := (Z.of_nat (length l)).

(* ------------------------------------------------------------------------------------ *)
(* keys                                                                                  *)

Lemma key_eqb_spec : forall a b, key_eqb a b = true <-> a = b.
Proof.
  induction a as [|x a IH]; intros [|y b]; cbn [key_eqb]; split; intro H;
    try reflexivity; try discriminate.
  - apply andb_true_iff in H. destruct H as [H1 H2].
    apply Z.eqb_eq in H1. apply IH in H2. congruence.
  - inversion H; subst. apply andb_true_iff. split; [apply Z.eqb_refl | apply IH; reflexivity].
Qed.

Lemma key_eqb_refl : forall a, key_eqb a a = true.
Proof. intro a. apply key_eqb_spec. reflexivity. Qed.

Lemma key_eqb_neq : forall a b, a <> b -> key_eqb a b = false.
Proof.
  intros a b H. destruct (key_eqb a b) eqn:E; [|reflexivity].
  apply key_eqb_spec in E. contradiction.
Qed.

Lemma key_eqb_false : forall a b, key_eqb a b = false -> a <> b.
Proof. intros a b H E. subst. rewrite key_eqb_refl in H. discriminate. Qed.

Lemma key_eqb_sym : forall a b, key_eqb a b = key_eqb b a.
Proof.
  intros a b. destruct (key_eqb a b) eqn:E.
  - apply key_eqb_spec in E. subst. symmetry. apply key_eqb_refl.
  - symmetry. apply key_eqb_neq. intro H. subst. rewrite key_eqb_refl in E. discriminate.
Qed.

(* ------------------------------------------------------------------------------------ *)
(* induction on nodes                                                                     *)

Section NodeInd.
  Variable P : node -> Prop.
  Hypothesis HN : forall vi kids, Forall (fun p => P (snd p)) kids -> P (Node vi kids).
  Fixpoint node_ind' (n : node) : P n :=
    match n with
    | Node vi kids =>
        HN vi kids
          ((fix go (ks : list (chr * node)) : Forall (fun p => P (snd p)) ks :=
              match ks with
              | [] => Forall_nil _
              | p :: ks' => Forall_cons p (node_ind' (snd p)) (go ks')
              end) kids)
    end.
End NodeInd.

(* ------------------------------------------------------------------------------------ *)
(* ordered child lists                                                                    *)

Fixpoint ksorted (ks : list (chr * node)) : Prop :=
  match ks with
  | [] => True
  | p :: ks' => Forall (fun p' => fst p < fst p') ks' /\ ksorted ks'
  end.

Lemma kfind_kset : forall c c' n ks,
  kfind c (kset c' n ks) = if c =? c' then Some n else kfind c ks.
Proof.
  intros c c' n ks. induction ks as [|[c0 n0] ks IH]; cbn [kset kfind].
  - reflexivity.
  - destruct (c' <? c0) eqn:E1; [cbn [kfind]; reflexivity|].
    destruct (c' =? c0) eqn:E2; cbn [kfind].
    + destruct (c =? c') eqn:E3; [reflexivity|].
      assert (c =? c0 = false) as -> by lia. reflexivity.
    + rewrite IH. destruct (c =? c0) eqn:E3; [|reflexivity].
      assert (c =? c' = false) as -> by lia. reflexivity.
Qed.

Lemma kfind_kerase_ne : forall c c' ks, c <> c' -> kfind c (kerase c' ks) = kfind c ks.
Proof.
  intros c c' ks Hne. induction ks as [|[c0 n0] ks IH]; cbn [kerase kfind]; [reflexivity|].
  destruct (c' =? c0) eqn:E.
  - assert (c =? c0 = false) as -> by lia. reflexivity.
  - cbn [kfind]. rewrite IH. reflexivity.
Qed.

Lemma kfind_lt_none : forall c ks, Forall (fun p => c < fst p) ks -> kfind c ks = None.
Proof.
  intros c ks H. induction H as [|[c0 n0] ks H1 H2 IH]; cbn [kfind]; [reflexivity|].
  cbn [fst] in H1. assert (c =? c0 = false) as -> by lia. exact IH.
Qed.

Lemma kfind_kerase_eq : forall c ks, ksorted ks -> kfind c (kerase c ks) = None.
Proof.
  intros c ks. induction ks as [|[c0 n0] ks IH]; cbn [kerase kfind ksorted]; intro H; [reflexivity|].
  destruct H as [H1 H2]. destruct (c =? c0) eqn:E.
  - apply kfind_lt_none. assert (c = c0) by lia. subst. exact H1.
  - cbn [kfind]. rewrite E. apply IH. exact H2.
Qed.

Lemma Forall_kset : forall (P : chr * node -> Prop) c n ks,
  P (c, n) -> Forall P ks -> Forall P (kset c n ks).
Proof.
  intros P c n ks Hp H. induction H as [|[c0 n0] ks H1 H2 IH]; cbn [kset].
  - constructor; [exact Hp | constructor].
  - destruct (c <? c0); [constructor; [exact Hp | constructor; assumption]|].
    destruct (c =? c0); constructor; assumption.
Qed.

Lemma Forall_kerase : forall (P : chr * node -> Prop) c ks,
  Forall P ks -> Forall P (kerase c ks).
Proof.
  intros P c ks H. induction H as [|[c0 n0] ks H1 H2 IH]; cbn [kerase]; [constructor|].
  destruct (c =? c0); [assumption | constructor; assumption].
Qed.

Lemma ksorted_kset : forall c n ks, ksorted ks -> ksorted (kset c n ks).
Proof.
  intros c n ks. induction ks as [|[c0 n0] ks IH]; cbn [kset ksorted]; intro H.
  - split; [constructor | exact I].
  - destruct H as [H1 H2]. destruct (c <? c0) eqn:E1.
    + cbn [ksorted]. split; [|split; assumption].
      constructor; [cbn [fst]; lia|].
      eapply Forall_impl; [|exact H1]. cbn [fst]. intros a Ha. lia.
    + destruct (c =? c0) eqn:E2; cbn [ksorted].
      * split; [|assumption]. assert (c = c0) by lia. subst. exact H1.
      * split; [|apply IH; assumption].
        apply Forall_kset; [cbn [fst]; lia | exact H1].
Qed.

Lemma ksorted_kerase : forall c ks, ksorted ks -> ksorted (kerase c ks).
Proof.
  intros c ks. induction ks as [|[c0 n0] ks IH]; cbn [kerase ksorted]; intro H; [exact I|].
  destruct H as [H1 H2]. destruct (c =? c0); [assumption|].
  cbn [ksorted]. split; [apply Forall_kerase; assumption | apply IH; assumption].
Qed.

Lemma kfind_In : forall c ks n, kfind c ks = Some n -> In (c, n) ks.
Proof.
  intros c ks n. induction ks as [|[c0 n0] ks IH]; cbn [kfind]; intro H; [discriminate|].
  destruct (c =? c0) eqn:E.
  - inversion H; subst. left. f_equal. lia.
  - right. apply IH. exact H.
Qed.

Lemma kfind_Forall : forall (P : chr * node -> Prop) c ks n,
  Forall P ks -> kfind c ks = Some n -> P (c, n).
Proof.
  intros P c ks n HF H. apply kfind_In in H. rewrite Forall_forall in HF. apply HF. exact H.
Qed.

(* ------------------------------------------------------------------------------------ *)
(* well-formed trees: children strictly ascending, value indices >= -1                    *)

Inductive wf_node : node -> Prop :=
| wf_intro : forall vi kids,
    -1 <= vi -> ksorted kids -> Forall (fun p => wf_node (snd p)) kids -> wf_node (Node vi kids).

Lemma wf_inv : forall n, wf_node n ->
  -1 <= n_vi n /\ ksorted (n_kids n) /\ Forall (fun p => wf_node (snd p)) (n_kids n).
Proof. intros n H. inversion H; subst. cbn [n_vi n_kids]. auto. Qed.

Lemma wf_make : forall n, -1 <= n_vi n -> ksorted (n_kids n) ->
  Forall (fun p => wf_node (snd p)) (n_kids n) -> wf_node n.
Proof. intros [vi kids]. cbn [n_vi n_kids]. intros. constructor; assumption. Qed.

Lemma wf_kid : forall n c k, wf_node n -> kfind c (n_kids n) = Some k -> wf_node k.
Proof.
  intros n c k H Hk. apply wf_inv in H. destruct H as (_ & _ & HF).
  exact (kfind_Forall _ _ _ _ HF Hk).
Qed.

Lemma wf_empty : wf_node empty_node.
Proof. constructor; [lia | exact I | constructor]. Qed.

(* ------------------------------------------------------------------------------------ *)
(* semantic lookup: the value index stored for key k below n, -1 if the path is missing  *)

Fixpoint tree_vi (k : key) (n : node) : Z :=
  match k with
  | [] => n_vi n
  | c :: k' =>
      match kfind c (n_kids n) with
      | Some ch => tree_vi k' ch
      | None => -1
      end
  end.

Lemma tree_vi_ge : forall k n, wf_node n -> -1 <= tree_vi k n.
Proof.
  induction k as [|c k IH]; intros n H; cbn [tree_vi].
  - apply wf_inv in H. tauto.
  - destruct (kfind c (n_kids n)) as [ch|] eqn:E; [|lia].
    apply IH. eapply wf_kid; eassumption.
Qed.

Definition dead (n : node) : Prop := n_vi n < 0 /\ n_kids n = [].

Lemma tree_vi_dead : forall k n, wf_node n -> dead n -> tree_vi k n = -1.
Proof.
  intros k n Hwf [H1 H2]. destruct k as [|c k]; cbn [tree_vi].
  - apply wf_inv in Hwf. lia.
  - rewrite H2. reflexivity.
Qed.

Lemma tree_vi_empty : forall k, tree_vi k empty_node = -1.
Proof. intros [|c k]; reflexivity. Qed.

(* ---- add ---- *)

Lemma tree_vi_add : forall q vi n k,
  tree_vi k (node_add q vi n) = if key_eqb k q then vi else tree_vi k n.
Proof.
  induction q as [|a q IH]; intros vi n k; cbn [node_add].
  - destruct k as [|c k]; cbn [key_eqb tree_vi n_vi n_kids]; reflexivity.
  - destruct k as [|c k]; cbn [key_eqb tree_vi n_vi n_kids]; [reflexivity|].
    rewrite kfind_kset. destruct (c =? a) eqn:E; cbn [andb]; [|reflexivity].
    assert (c = a) by lia. subst c. rewrite IH.
    destruct (kfind a (n_kids n)) as [ch|]; [reflexivity|].
    rewrite tree_vi_empty. reflexivity.
Qed.

Lemma n_vi_add_cons : forall a q vi n, n_vi (node_add (a :: q) vi n) = n_vi n.
Proof. reflexivity. Qed.

Lemma wf_add : forall q vi n, -1 <= vi -> wf_node n -> wf_node (node_add q vi n).
Proof.
  induction q as [|a q IH]; intros vi n Hvi H; cbn [node_add].
  - apply wf_inv in H. destruct H as (H1 & H2 & H3). constructor; assumption.
  - pose proof (wf_inv _ H) as (H1 & H2 & H3). constructor; [assumption | apply ksorted_kset; assumption |].
    apply Forall_kset; [|assumption]. cbn [snd]. apply IH; [assumption|].
    destruct (kfind a (n_kids n)) as [ch|] eqn:E; [eapply wf_kid; eassumption | apply wf_empty].
Qed.

(* ---- sizes ---- *)

Definition b01 (v : Z) : Z := if 0 <=? v then 1 else 0.

Fixpoint ksize (ks : list (chr * node)) : Z :=
  match ks with
  | [] => 0
  | p :: ks' => node_size (snd p) + ksize ks'
  end.

Lemma node_size_eq : forall vi kids, node_size (Node vi kids) = b01 vi + ksize kids.
Proof.
  intros vi kids. cbn [node_size]. unfold b01. f_equal.
  induction kids as [|[c k] ks IH]; [reflexivity|].
  cbn [ksize snd]. rewrite <- IH. reflexivity.
Qed.

Lemma node_size_eq' : forall n, node_size n = b01 (n_vi n) + ksize (n_kids n).
Proof. intros [vi kids]. apply node_size_eq. Qed.

Definition ksz (o : option node) : Z := match o with Some k => node_size k | None => 0 end.

Lemma ksize_kset : forall c n ks, ksorted ks ->
  ksize (kset c n ks) = ksize ks + node_size n - ksz (kfind c ks).
Proof.
  intros c n ks. induction ks as [|[c0 n0] ks IH]; cbn [kset ksorted]; intro H.
  - cbn [ksize kfind ksz snd]. lia.
  - destruct H as [H1 H2]. destruct (c <? c0) eqn:E1.
    + cbn [ksize snd kfind]. assert (c =? c0 = false) as -> by lia.
      rewrite kfind_lt_none; [cbn [ksz]; lia|].
      eapply Forall_impl; [|exact H1]. cbn [fst]. intros a Ha. lia.
    + destruct (c =? c0) eqn:E2; cbn [ksize snd kfind]; rewrite E2; cbn [ksz].
      * lia.
      * rewrite IH by assumption. lia.
Qed.

Lemma ksize_kerase : forall c ks, ksize (kerase c ks) = ksize ks - ksz (kfind c ks).
Proof.
  intros c ks. induction ks as [|[c0 n0] ks IH]; cbn [kerase ksize kfind snd].
  - cbn [ksz]. lia.
  - destruct (c =? c0) eqn:E; cbn [ksize snd ksz]; [lia | rewrite IH; lia].
Qed.

Lemma node_size_empty : node_size empty_node = 0.
Proof. reflexivity. Qed.

Lemma node_size_add : forall q vi n, wf_node n ->
  node_size (node_add q vi n) = node_size n - b01 (tree_vi q n) + b01 vi.
Proof.
  induction q as [|a q IH]; intros vi n H; cbn [node_add tree_vi].
  - rewrite node_size_eq, (node_size_eq' n). lia.
  - pose proof (wf_inv _ H) as (H1 & H2 & H3).
    rewrite node_size_eq, (node_size_eq' n), ksize_kset by assumption.
    destruct (kfind a (n_kids n)) as [ch|] eqn:E; cbn [ksz].
    + rewrite IH by (eapply wf_kid; eassumption). lia.
    + rewrite IH by apply wf_empty. rewrite tree_vi_empty, node_size_empty. change (b01 (-1)) with 0. lia.
Qed.

(* ---- nestedRemove ---- *)

Definition isnil (ks : list (chr * node)) : bool := match ks with [] => true | _ => false end.

Definition leaf_after (q' : key) (leaf : node) : node :=
  match q' with
  | [] => Node (-1) (n_kids leaf)
  | _ => fst (node_nestedRemove q' leaf)
  end.

Lemma nestedRemove_form : forall c q' n leaf, kfind c (n_kids n) = Some leaf ->
  exists kids', node_nestedRemove (c :: q') n
                = (Node (n_vi n) kids', (n_vi n <? 0) && isnil kids').
Proof.
  intros c q' n leaf H. cbn [node_nestedRemove]. rewrite H. eexists. unfold isnil. reflexivity.
Qed.

Lemma nestedRemove_snd : forall q n,
  snd (node_nestedRemove q n) = true -> dead (fst (node_nestedRemove q n)).
Proof.
  intros [|c q'] n; [cbn; discriminate|].
  destruct (kfind c (n_kids n)) as [leaf|] eqn:E.
  - destruct (nestedRemove_form c q' n leaf E) as [kids' ->]. cbn [fst snd].
    intro H. apply andb_true_iff in H. destruct H as [H1 H2].
    split; cbn [n_vi n_kids]; [lia|]. destruct kids'; [reflexivity | discriminate].
  - cbn [node_nestedRemove]. rewrite E. cbn. discriminate.
Qed.

Lemma nestedRemove_shape : forall c q' n leaf, kfind c (n_kids n) = Some leaf ->
  exists kids', node_nestedRemove (c :: q') n
                = (Node (n_vi n) kids', (n_vi n <? 0) && isnil kids')
    /\ ((kids' = kerase c (n_kids n) /\ dead (leaf_after q' leaf))
        \/ kids' = kset c (leaf_after q' leaf) (n_kids n)).
Proof.
  intros c q' n leaf H. cbn [node_nestedRemove]. rewrite H.
  destruct q' as [|c2 q2].
  - cbn [leaf_after]. destruct (n_kids leaf) as [|p ks] eqn:E.
    + eexists. split; [unfold isnil; reflexivity|]. left. split; [reflexivity|].
      split; cbn [n_vi n_kids]; [lia | reflexivity].
    + eexists. split; [unfold isnil; reflexivity|]. right. reflexivity.
  - unfold leaf_after.
    pose proof (nestedRemove_snd (c2 :: q2) leaf) as Hs.
    destruct (node_nestedRemove (c2 :: q2) leaf) as [leaf' e]. cbn [fst snd] in *.
    destruct (e && (len (n_kids n) =? 1)) eqn:Ee.
    + eexists. split; [unfold isnil; reflexivity|]. left. split; [reflexivity|].
      apply Hs. apply andb_true_iff in Ee. tauto.
    + eexists. split; [unfold isnil; reflexivity|]. right. reflexivity.
Qed.

Lemma nestedRemove_none : forall c q' n, kfind c (n_kids n) = None ->
  node_nestedRemove (c :: q') n = (n, false).
Proof. intros c q' n H. cbn [node_nestedRemove]. rewrite H. reflexivity. Qed.

Lemma wf_nestedRemove : forall q n, wf_node n -> wf_node (fst (node_nestedRemove q n)).
Proof.
  induction q as [|c q' IH]; intros n H; [exact H|].
  destruct (kfind c (n_kids n)) as [leaf|] eqn:E.
  - pose proof (wf_inv _ H) as (H1 & H2 & H3).
    assert (Hleaf : wf_node leaf) by (eapply wf_kid; eassumption).
    assert (HLA : wf_node (leaf_after q' leaf)).
    { destruct q' as [|c2 q2]; [|apply IH; assumption].
      cbn [leaf_after]. apply wf_inv in Hleaf. destruct Hleaf as (L1 & L2 & L3).
      constructor; [lia | assumption | assumption]. }
    destruct (nestedRemove_shape c q' n leaf E) as (kids' & -> & [[-> _] | ->]); cbn [fst].
    + constructor; [assumption | apply ksorted_kerase; assumption | apply Forall_kerase; assumption].
    + constructor; [assumption | apply ksorted_kset; assumption |].
      apply Forall_kset; [exact HLA | assumption].
  - rewrite nestedRemove_none by assumption. exact H.
Qed.

Lemma n_vi_nestedRemove : forall q n, n_vi (fst (node_nestedRemove q n)) = n_vi n.
Proof.
  intros [|c q'] n; [reflexivity|].
  destruct (kfind c (n_kids n)) as [leaf|] eqn:E.
  - destruct (nestedRemove_form c q' n leaf E) as [kids' ->]. reflexivity.
  - rewrite nestedRemove_none by assumption. reflexivity.
Qed.

Lemma tree_vi_nestedRemove : forall q n k, q <> [] -> wf_node n ->
  tree_vi k (fst (node_nestedRemove q n)) = if key_eqb k q then -1 else tree_vi k n.
Proof.
  induction q as [|c q' IH]; intros n k Hq H; [contradiction|].
  destruct (kfind c (n_kids n)) as [leaf|] eqn:E.
  - pose proof (wf_inv _ H) as (H1 & H2 & H3).
    assert (Hleaf : wf_node leaf) by (eapply wf_kid; eassumption).
    assert (HLAwf : wf_node (leaf_after q' leaf)).
    { destruct q' as [|c2 q2]; [|apply wf_nestedRemove; assumption].
      cbn [leaf_after]. apply wf_inv in Hleaf. destruct Hleaf as (L1 & L2 & L3).
      constructor; [lia | assumption | assumption]. }
    assert (HLA : forall k', tree_vi k' (leaf_after q' leaf)
                             = if key_eqb k' q' then -1 else tree_vi k' leaf).
    { intro k'. destruct q' as [|c2 q2]; [|apply IH; [discriminate | assumption]].
      cbn [leaf_after]. destruct k' as [|c' k'']; reflexivity. }
    destruct (nestedRemove_shape c q' n leaf E) as (kids' & -> & Hk); cbn [fst].
    destruct k as [|c0 k']; [reflexivity|].
    cbn [tree_vi key_eqb n_kids].
    destruct (c0 =? c) eqn:Ec; cbn [andb].
    + assert (c0 = c) by lia. subst c0. rewrite E.
      destruct Hk as [[-> Hd] | ->].
      * rewrite kfind_kerase_eq by assumption. rewrite <- HLA.
        symmetry. apply tree_vi_dead; assumption.
      * rewrite kfind_kset, Z.eqb_refl. apply HLA.
    + destruct Hk as [[-> Hd] | ->].
      * rewrite kfind_kerase_ne by lia. reflexivity.
      * rewrite kfind_kset, Ec. reflexivity.
  - rewrite nestedRemove_none by assumption. cbn [fst].
    destruct (key_eqb k (c :: q')) eqn:Ek; [|reflexivity].
    apply key_eqb_spec in Ek. subst k. cbn [tree_vi]. rewrite E. reflexivity.
Qed.

Lemma node_size_dead : forall n, dead n -> node_size n = 0.
Proof.
  intros n [H1 H2]. rewrite node_size_eq', H2. cbn [ksize]. unfold b01.
  destruct (0 <=? n_vi n) eqn:E; lia.
Qed.

Lemma node_size_nestedRemove : forall q n, q <> [] -> wf_node n ->
  node_size (fst (node_nestedRemove q n)) = node_size n - b01 (tree_vi q n).
Proof.
  induction q as [|c q' IH]; intros n Hq H; [contradiction|].
  cbn [tree_vi].
  destruct (kfind c (n_kids n)) as [leaf|] eqn:E.
  - pose proof (wf_inv _ H) as (H1 & H2 & H3).
    assert (Hleaf : wf_node leaf) by (eapply wf_kid; eassumption).
    assert (HLA : node_size (leaf_after q' leaf) = node_size leaf - b01 (tree_vi q' leaf)).
    { destruct q' as [|c2 q2]; [|apply IH; [discriminate | assumption]].
      cbn [leaf_after tree_vi]. rewrite node_size_eq, (node_size_eq' leaf). unfold b01 at 1. cbn. lia. }
    destruct (nestedRemove_shape c q' n leaf E) as (kids' & -> & Hk); cbn [fst].
    rewrite node_size_eq, (node_size_eq' n).
    destruct Hk as [[-> Hd] | ->].
    + rewrite ksize_kerase, E. cbn [ksz]. apply node_size_dead in Hd. lia.
    + rewrite ksize_kset by assumption. rewrite E. cbn [ksz]. lia.
  - rewrite nestedRemove_none by assumption. cbn [fst]. unfold b01. cbn. lia.
Qed.

(* ---- decrementIndex ---- *)

Definition dec (v j : Z) : Z := if v <? j then j - 1 else j.

Definition bump (v : Z) (k' : node) : node :=
  Node (if v <? n_vi k' then n_vi k' - 1 else n_vi k') (n_kids k').

Fixpoint decr_kids (v : Z) (ks : list (chr * node)) : list (chr * node) :=
  match ks with
  | [] => []
  | p :: ks' => (fst p, bump v (node_decr v (snd p))) :: decr_kids v ks'
  end.

Lemma node_decr_eq : forall v vi kids, node_decr v (Node vi kids) = Node vi (decr_kids v kids).
Proof.
  intros v vi kids. cbn [node_decr]. f_equal.
  induction kids as [|[c k] ks IH]; [reflexivity|].
  cbn [decr_kids fst snd]. rewrite <- IH. reflexivity.
Qed.

Lemma n_vi_decr : forall v n, n_vi (node_decr v n) = n_vi n.
Proof. intros v [vi kids]. rewrite node_decr_eq. reflexivity. Qed.

Lemma n_kids_decr : forall v n, n_kids (node_decr v n) = decr_kids v (n_kids n).
Proof. intros v [vi kids]. rewrite node_decr_eq. reflexivity. Qed.

Lemma kfind_decr_kids : forall v c ks,
  kfind c (decr_kids v ks) = option_map (fun k => bump v (node_decr v k)) (kfind c ks).
Proof.
  intros v c ks. induction ks as [|[c0 k0] ks IH]; [reflexivity|].
  cbn [decr_kids kfind fst snd]. destruct (c =? c0); [reflexivity | exact IH].
Qed.

Lemma tree_vi_bump_decr : forall v k n, -1 <= v ->
  tree_vi k (bump v (node_decr v n)) = dec v (tree_vi k n).
Proof.
  intros v k. induction k as [|c k IH]; intros n Hv.
  - cbn [tree_vi]. unfold bump, dec. cbn [n_vi]. rewrite n_vi_decr. reflexivity.
  - cbn [tree_vi]. unfold bump at 1. cbn [n_kids]. rewrite n_kids_decr, kfind_decr_kids.
    destruct (kfind c (n_kids n)) as [ch|]; cbn [option_map].
    + apply IH. exact Hv.
    + unfold dec. destruct (v <? -1) eqn:E; lia.
Qed.

Lemma tree_vi_decr : forall v c k n, -1 <= v ->
  tree_vi (c :: k) (node_decr v n) = dec v (tree_vi (c :: k) n).
Proof.
  intros v c k n Hv. rewrite <- tree_vi_bump_decr by assumption. reflexivity.
Qed.

Lemma ksorted_decr_kids : forall v ks, ksorted ks -> ksorted (decr_kids v ks).
Proof.
  intros v ks. induction ks as [|[c k] ks IH]; cbn [decr_kids ksorted]; intro H; [exact I|].
  destruct H as [H1 H2]. split; [|apply IH; assumption].
  cbn [fst] in *. clear IH H2. induction H1 as [|[c1 k1] ks H1 H2 IH]; cbn [decr_kids]; constructor.
  - exact H1.
  - exact IH.
Qed.

Lemma wf_decr : forall v n, 0 <= v -> wf_node n ->
  wf_node (node_decr v n) /\ wf_node (bump v (node_decr v n)).
Proof.
  intros v n Hv. induction n as [vi kids IH] using node_ind'. intro H.
  apply wf_inv in H. cbn [n_vi n_kids] in H. destruct H as (H1 & H2 & H3).
  rewrite node_decr_eq.
  assert (HF : Forall (fun p => wf_node (snd p)) (decr_kids v kids)).
  { clear H2. induction kids as [|[c k] ks IHk]; cbn [decr_kids]; constructor.
    - cbn [snd]. inversion IH; subst. inversion H3; subst. cbn [snd] in *. apply H2. assumption.
    - inversion IH; subst. inversion H3; subst. apply IHk; assumption. }
  assert (HS : ksorted (decr_kids v kids)) by (apply ksorted_decr_kids; assumption).
  split.
  - constructor; assumption.
  - unfold bump. cbn [n_vi n_kids]. constructor; [|assumption|assumption].
    destruct (v <? vi) eqn:E; lia.
Qed.

Lemma node_size_decr : forall v n, 0 <= v ->
  node_size (node_decr v n) = node_size n /\ node_size (bump v (node_decr v n)) = node_size n.
Proof.
  intros v n Hv. induction n as [vi kids IH] using node_ind'.
  rewrite node_decr_eq. unfold bump. cbn [n_vi n_kids]. rewrite !node_size_eq.
  assert (HK : ksize (decr_kids v kids) = ksize kids).
  { induction kids as [|[c k] ks IHk]; [reflexivity|].
    cbn [decr_kids ksize snd]. inversion IH; subst. cbn [snd] in *.
    rewrite IHk by assumption. destruct H1 as [_ ->]. reflexivity. }
  rewrite HK. split; [reflexivity|].
  unfold b01. destruct (v <? vi) eqn:E; [|reflexivity].
  destruct (0 <=? vi - 1) eqn:E1; destruct (0 <=? vi) eqn:E2; lia.
Qed.

(* node_remove as a whole *)

Lemma n_vi_remove : forall q v n, n_vi (node_remove q v n) = n_vi n.
Proof.
  intros [|c q] v n; [reflexivity|]. unfold node_remove.
  rewrite n_vi_decr. apply n_vi_nestedRemove.
Qed.

Lemma wf_remove : forall q v n, 0 <= v -> wf_node n -> wf_node (node_remove q v n).
Proof.
  intros [|c q] v n Hv H; [exact H|]. unfold node_remove.
  apply wf_decr; [assumption|]. apply wf_nestedRemove. exact H.
Qed.

Lemma tree_vi_remove : forall q v n c k, q <> [] -> 0 <= v -> wf_node n ->
  tree_vi (c :: k) (node_remove q v n)
  = dec v (if key_eqb (c :: k) q then -1 else tree_vi (c :: k) n).
Proof.
  intros [|a q] v n c k Hq Hv H; [contradiction|]. unfold node_remove.
  rewrite tree_vi_decr by lia. rewrite tree_vi_nestedRemove by assumption. reflexivity.
Qed.

Lemma node_size_remove : forall q v n, q <> [] -> 0 <= v -> wf_node n ->
  node_size (node_remove q v n) = node_size n - b01 (tree_vi q n).
Proof.
  intros [|a q] v n Hq Hv H; [contradiction|]. unfold node_remove.
  destruct (node_size_decr v (fst (node_nestedRemove (a :: q) n)) Hv) as [-> _].
  apply node_size_nestedRemove; assumption.
Qed.

(* ------------------------------------------------------------------------------------ *)
(* walk: the deepest node with a value along the query (depth >= 1 below the start node)  *)

Fixpoint walk (q : key) (n : node) (d : Z) (best : option (Z * Z)) : option (Z * Z) :=
  match q with
  | [] => best
  | c :: q' =>
      match kfind c (n_kids n) with
      | None => best
      | Some k => walk q' k (d + 1) (if 0 <=? n_vi k then Some (d + 1, n_vi k) else best)
      end
  end.

Lemma walk_best : forall q n d b,
  walk q n d (Some b) = match walk q n d None with Some r => Some r | None => Some b end.
Proof.
  induction q as [|c q IH]; intros n d b; cbn [walk]; [reflexivity|].
  destruct (kfind c (n_kids n)) as [k|]; [|reflexivity].
  destruct (0 <=? n_vi k).
  - rewrite IH. destruct (walk q k (d + 1) None); reflexivity.
  - apply IH.
Qed.

Lemma walk_spec : forall q n d best l vi, walk q n d best = Some (l, vi) ->
  best = Some (l, vi) \/
  (d < l <= d + len q /\ 0 <= vi /\ (l = d + len q -> tree_vi q n = vi)).
Proof.
  induction q as [|c q IH]; intros n d best l vi H; cbn [walk] in H; [left; exact H|].
  destruct (kfind c (n_kids n)) as [k|] eqn:E; [|left; exact H].
  apply IH in H. cbn [tree_vi length]. rewrite E.
  destruct H as [H | (H1 & H2 & H3)].
  - destruct (0 <=? n_vi k) eqn:Ek; [|left; exact H].
    inversion H; subst. right. split; [lia|]. split; [lia|].
    intro Hl. destruct q as [|c2 q]; [reflexivity|]. cbn [length] in Hl. lia.
  - right. split; [lia|]. split; [lia|]. intro Hl. apply H3. lia.
Qed.

Lemma walk_full : forall q n d best vi, q <> [] -> tree_vi q n = vi -> 0 <= vi ->
  walk q n d best = Some (d + len q, vi).
Proof.
  induction q as [|c q IH]; intros n d best vi Hq H Hvi; [contradiction|].
  cbn [walk tree_vi] in *. destruct (kfind c (n_kids n)) as [k|] eqn:E; [|lia].
  destruct q as [|c2 q].
  - cbn [tree_vi] in H. subst vi. cbn [walk length].
    assert (0 <=? n_vi k = true) as -> by lia. f_equal; f_equal; lia.
  - rewrite (IH k (d + 1) _ vi); [|discriminate|assumption|assumption].
    cbn [length]. f_equal; f_equal; lia.
Qed.

Lemma walk_none_pos : forall q n d l vi, walk q n d None = Some (l, vi) -> d < l /\ 0 <= vi.
Proof.
  intros q n d l vi H. apply walk_spec in H. destruct H as [H | H]; [discriminate | lia].
Qed.

(* the unfrozen lookup, trieNode::get with the repaired constant *)
Lemma node_get_walk : forall q d n,
  match walk q n d None with
  | Some w => node_get_gen 0 q d n = w
  | None => if 0 <=? n_vi n then node_get_gen 0 q d n = (d, n_vi n)
            else snd (node_get_gen 0 q d n) < 0
  end.
Proof.
  induction q as [|c q IH]; intros d n; cbn [walk node_get_gen].
  - destruct (0 <=? n_vi n) eqn:E; cbn [snd]; [reflexivity | lia].
  - destruct (kfind c (n_kids n)) as [k|] eqn:Ek.
    + specialize (IH (d + 1) k). destruct (0 <=? n_vi k) eqn:Evk.
      * rewrite walk_best. destruct (walk q k (d + 1) None) as [[l v]|] eqn:W.
        -- rewrite IH. apply walk_none_pos in W. cbn [snd].
           assert (0 <=? v = true) as -> by lia. reflexivity.
        -- rewrite IH. cbn [snd]. rewrite Evk. reflexivity.
      * destruct (walk q k (d + 1) None) as [[l v]|] eqn:W.
        -- rewrite IH. apply walk_none_pos in W. cbn [snd].
           assert (0 <=? v = true) as -> by lia. reflexivity.
        -- assert (0 <=? snd (node_get_gen 0 q (d + 1) k) = false) as -> by lia.
           cbn [negb andb]. destruct (0 <=? n_vi n) eqn:En.
           ++ rewrite Z.add_0_r. reflexivity.
           ++ exact IH.
    + destruct (0 <=? n_vi n) eqn:E; cbn [snd]; [reflexivity | lia].
Qed.

Lemma gvi_spec : forall q n, q <> [] -> n_vi n < 0 ->
  (0 <= tree_vi q n -> node_getValueIndex q n = tree_vi q n) /\
  (tree_vi q n < 0 -> node_getValueIndex q n < 0).
Proof.
  intros q n Hq Hn. unfold node_getValueIndex, node_get.
  pose proof (node_get_walk q 0 n) as G. split; intro H.
  - rewrite (walk_full q n 0 None (tree_vi q n) Hq eq_refl H) in G. rewrite G. cbn [fst snd].
    assert (0 + len q =? len q = true) as -> by lia. reflexivity.
  - destruct (walk q n 0 None) as [[l v]|] eqn:W.
    + rewrite G. cbn [fst snd]. destruct (l =? len q) eqn:El; [|lia].
      apply walk_spec in W. destruct W as [W | (W1 & W2 & W3)]; [discriminate|].
      rewrite W3 in H by lia. lia.
    + assert (0 <=? n_vi n = false) as E by lia. rewrite E in G.
      destruct (fst (node_get_gen 0 q 0 n) =? len q); lia.
Qed.

Definition res_of (w : option (Z * Z)) : qres :=
  match w with Some (l, vi) => QOk true l vi | None => QOk false 0 (-1) end.

Lemma unfrozen_getLongest : forall q t, n_vi (t_root t) < 0 -> t_frozen t = None ->
  t_getLongest q t = res_of (walk q (t_root t) 0 None).
Proof.
  intros q t Hr Hf. unfold t_getLongest, node_get. rewrite Hf.
  pose proof (node_get_walk q 0 (t_root t)) as G.
  destruct (walk q (t_root t) 0 None) as [[l v]|] eqn:W.
  - rewrite G. apply walk_none_pos in W. cbn [fst snd res_of].
    assert (0 <=? v = true) as -> by lia. reflexivity.
  - assert (0 <=? n_vi (t_root t) = false) as E by lia. rewrite E in G.
    assert (0 <=? snd (node_get_gen 0 q 0 (t_root t)) = false) as -> by lia. reflexivity.
Qed.

(* ------------------------------------------------------------------------------------ *)
(* the specification side                                                                *)

Lemma s_lookup_remove_eq : forall k m, s_lookup k (s_remove k m) = None.
Proof.
  intros k m. induction m as [|[k0 v0] m IH]; cbn [s_remove s_lookup]; [reflexivity|].
  destruct (key_eqb k k0) eqn:E; [exact IH|]. cbn [s_lookup]. rewrite E. exact IH.
Qed.

Lemma s_lookup_remove_ne : forall k k' m, k' <> k -> s_lookup k' (s_remove k m) = s_lookup k' m.
Proof.
  intros k k' m Hne. induction m as [|[k0 v0] m IH]; cbn [s_remove s_lookup]; [reflexivity|].
  destruct (key_eqb k k0) eqn:E.
  - apply key_eqb_spec in E. subst k0. rewrite (key_eqb_neq k' k Hne). exact IH.
  - cbn [s_lookup]. destruct (key_eqb k' k0); [reflexivity | exact IH].
Qed.

Lemma s_lookup_notin : forall k m, ~ In k (map fst m) -> s_lookup k m = None.
Proof.
  intros k m. induction m as [|[k0 v0] m IH]; cbn [map fst In s_lookup]; intro H; [reflexivity|].
  destruct (key_eqb k k0) eqn:E.
  - apply key_eqb_spec in E. subst. tauto.
  - apply IH. tauto.
Qed.

Lemma s_lookup_in : forall k m, In k (map fst m) -> s_lookup k m <> None.
Proof.
  intros k m. induction m as [|[k0 v0] m IH]; cbn [map fst In s_lookup]; intro H; [contradiction|].
  destruct (key_eqb k k0) eqn:E; [discriminate|].
  apply IH. destruct H as [H|H]; [|exact H]. subst. rewrite key_eqb_refl in E. discriminate.
Qed.

Lemma s_remove_none : forall k m, s_lookup k m = None -> s_remove k m = m.
Proof.
  intros k m. induction m as [|[k0 v0] m IH]; cbn [s_remove s_lookup]; intro H; [reflexivity|].
  destruct (key_eqb k k0); [discriminate|]. rewrite IH by assumption. reflexivity.
Qed.

Lemma s_remove_keys : forall k k' m, In k' (map fst (s_remove k m)) -> In k' (map fst m).
Proof.
  intros k k' m. induction m as [|[k0 v0] m IH]; cbn [s_remove map fst In]; intro H; [exact H|].
  destruct (key_eqb k k0); [right; apply IH; exact H|].
  cbn [map fst In] in H. destruct H as [H|H]; [left; exact H | right; apply IH; exact H].
Qed.

Lemma nodup_remove : forall k m, NoDup (map fst m) -> NoDup (map fst (s_remove k m)).
Proof.
  intros k m. induction m as [|[k0 v0] m IH]; cbn [s_remove map fst]; intro H; [exact H|].
  inversion H as [|x l Hn Hd]; subst. destruct (key_eqb k k0); [apply IH; exact Hd|].
  cbn [map fst]. constructor; [|apply IH; exact Hd].
  intro Hin. apply Hn. eapply s_remove_keys. exact Hin.
Qed.

Lemma nodup_add : forall k v m, NoDup (map fst m) -> NoDup (map fst (s_add k v m)).
Proof.
  intros k v m H. unfold s_add. cbn [map fst]. constructor; [|apply nodup_remove; exact H].
  intro Hin. apply s_lookup_in in Hin. apply Hin. apply s_lookup_remove_eq.
Qed.

Definition has01 (o : option Z) : Z := match o with Some _ => 1 | None => 0 end.

Lemma s_remove_length : forall k m, NoDup (map fst m) ->
  len (s_remove k m) = len m - has01 (s_lookup k m).
Proof.
  intros k m. induction m as [|[k0 v0] m IH]; cbn [s_remove s_lookup map fst]; intro H.
  - cbn. lia.
  - inversion H as [|x l Hn Hd]; subst. destruct (key_eqb k k0) eqn:E.
    + apply key_eqb_spec in E. subst k0.
      rewrite s_remove_none by (apply s_lookup_notin; exact Hn). cbn [has01 length]. lia.
    + cbn [length]. rewrite !Nat2Z.inj_succ. rewrite IH by assumption. lia.
Qed.

Lemma s_longest_none : forall q m pre best,
  (forall k, k <> [] -> s_lookup (pre ++ k) m = None) -> s_longest q m pre best = best.
Proof.
  induction q as [|c q IH]; intros m pre best H; cbn [s_longest]; [reflexivity|].
  rewrite (H [c]) by discriminate. apply IH.
  intros k Hk. rewrite <- app_assoc. apply H. discriminate.
Qed.

(* ------------------------------------------------------------------------------------ *)
(* values vector                                                                          *)

Definition vlookup (values : list Z) (i : Z) : option Z :=
  if 0 <=? i then nth_error values (Z.to_nat i) else None.

Lemma vlookup_neg : forall values i, i < 0 -> vlookup values i = None.
Proof. intros values i H. unfold vlookup. assert (0 <=? i = false) as -> by lia. reflexivity. Qed.

Lemma vlookup_some : forall values i, 0 <= i < len values -> exists v, vlookup values i = Some v.
Proof.
  intros values i H. unfold vlookup. assert (0 <=? i = true) as -> by lia.
  destruct (nth_error values (Z.to_nat i)) as [v|] eqn:E; [eexists; reflexivity|].
  apply nth_error_None in E. lia.
Qed.

Lemma vlookup_app : forall l l' i, i < len l -> vlookup (l ++ l') i = vlookup l i.
Proof.
  intros l l' i H. unfold vlookup. destruct (0 <=? i) eqn:E; [|reflexivity].
  apply nth_error_app1. lia.
Qed.

Lemma vlookup_snoc : forall l v, vlookup (l ++ [v]) (len l) = Some v.
Proof.
  intros l v. unfold vlookup. assert (0 <=? len l = true) as -> by lia.
  rewrite Nat2Z.id, nth_error_app2 by lia. rewrite Nat.sub_diag. reflexivity.
Qed.

Lemma list_set_length : forall (l : list Z) i x, length (list_set l i x) = length l.
Proof.
  induction l as [|y l IH]; intros [|i] x; cbn [list_set length]; try reflexivity.
  rewrite IH. reflexivity.
Qed.

Lemma nth_error_list_set_eq : forall (l : list Z) i x, (i < length l)%nat ->
  nth_error (list_set l i x) i = Some x.
Proof.
  induction l as [|y l IH]; intros [|i] x H; cbn [list_set length nth_error] in *; try lia.
  - reflexivity.
  - apply IH. lia.
Qed.

Lemma nth_error_list_set_ne : forall (l : list Z) i j x, i <> j ->
  nth_error (list_set l i x) j = nth_error l j.
Proof.
  induction l as [|y l IH]; intros [|i] [|j] x H; cbn [list_set nth_error]; try reflexivity.
  - contradiction.
  - apply IH. lia.
Qed.

Lemma list_del_length : forall (l : list Z) i, (i < length l)%nat ->
  length (list_del l i) = (length l - 1)%nat.
Proof.
  induction l as [|y l IH]; intros [|i] H; cbn [list_del length] in *; try lia.
  rewrite IH by lia. lia.
Qed.

Lemma nth_error_list_del_lt : forall (l : list Z) i j, (j < i)%nat ->
  nth_error (list_del l i) j = nth_error l j.
Proof.
  induction l as [|y l IH]; intros [|i] [|j] H; cbn [list_del nth_error]; try reflexivity; try lia.
  apply IH. lia.
Qed.

Lemma nth_error_list_del_ge : forall (l : list Z) i j, (i <= j)%nat ->
  nth_error (list_del l i) j = nth_error l (S j).
Proof.
  induction l as [|y l IH]; intros i j H.
  - destruct i, j; reflexivity.
  - destruct i as [|i]; [reflexivity|].
    destruct j as [|j]; [lia|]. cbn [list_del nth_error]. apply IH. lia.
Qed.

(* node n, reached by prefix `pre`, represents the part of m below `pre` *)
Definition rep (values : list Z) (m : smap) (n : node) (pre : list Z) : Prop :=
  forall k : list Z, k <> [] ->
    vlookup values (tree_vi k n) = s_lookup (pre ++ k) m /\ tree_vi k n < len values.

Definition res_rel (values : list Z) (w s : option (Z * Z)) : Prop :=
  match w, s with
  | Some (l, vi), Some (l', v) => l = l' /\ 0 <= vi /\ nth_error values (Z.to_nat vi) = Some v
  | None, None => True
  | _, _ => False
  end.

Lemma walk_longest : forall values m q n d pre best best',
  rep values m n pre -> d = len pre -> res_rel values best best' ->
  res_rel values (walk q n d best) (s_longest q m pre best').
Proof.
  intros values m. induction q as [|c q IH]; intros n d pre best best' Hrep Hd Hb;
    cbn [walk s_longest]; [exact Hb|].
  destruct (Hrep [c]) as [H1 H2]; [discriminate|]. cbn [tree_vi] in H1, H2. unfold key, skey, chr in *.
  destruct (kfind c (n_kids n)) as [k|] eqn:E.
  - apply IH.
    + intros k' Hk'. rewrite <- app_assoc. cbn [app].
      destruct (Hrep (c :: k')) as [R1 R2]; [discriminate|]. cbn [tree_vi] in R1, R2.
      rewrite E in R1, R2. split; assumption.
    + rewrite app_length. cbn [length]. unfold key, chr in *. lia.
    + destruct (0 <=? n_vi k) eqn:Ek.
      * destruct (vlookup_some values (n_vi k)) as [v Hv]; [lia|].
        rewrite <- H1, Hv. unfold vlookup in Hv. rewrite Ek in Hv.
        cbn [res_rel]. rewrite app_length. cbn [length]. unfold key, chr in *.
        split; [lia|]. split; [lia | exact Hv].
      * rewrite <- H1, vlookup_neg by lia. exact Hb.
  - rewrite <- H1, vlookup_neg by lia. rewrite s_longest_none; [exact Hb|].
    intros k' Hk'. rewrite <- app_assoc. cbn [app].
    destruct (Hrep (c :: k')) as [R1 R2]; [discriminate|]. cbn [tree_vi] in R1.
    rewrite E in R1. rewrite <- R1. apply vlookup_neg. lia.
Qed.

(* ------------------------------------------------------------------------------------ *)
(* the frozen arrays                                                                      *)

Fixpoint kcount (ks : list (chr * node)) : Z :=
  match ks with
  | [] => 0
  | p :: ks' => node_count (snd p) + kcount ks'
  end.

Lemma node_count_eq : forall vi kids, node_count (Node vi kids) = len kids + kcount kids.
Proof.
  intros vi kids. cbn [node_count]. f_equal.
  induction kids as [|[c k] ks IH]; [reflexivity|].
  cbn [kcount snd]. rewrite <- IH. reflexivity.
Qed.

Definition kentry (c : chr) (k : node) (o : Z) : entry :=
  {| e_char := c; e_offset := o; e_count := len (n_kids k); e_vi := n_vi k |}.

Fixpoint lay_blk (ks : list (chr * node)) (lo : Z) : list entry :=
  match ks with
  | [] => []
  | p :: ks' => kentry (fst p) (snd p) lo :: lay_blk ks' (lo + node_count (snd p))
  end.

Fixpoint lay_subs (ks : list (chr * node)) (lo : Z) : list entry :=
  match ks with
  | [] => []
  | p :: ks' => lay (snd p) lo ++ lay_subs ks' (lo + node_count (snd p))
  end.

(* the local function of `lay`, named *)
Definition lay_go :=
  fix go (ks : list (chr * node)) (leafOffset : Z) : list entry * list entry :=
    match ks with
    | [] => ([], [])
    | (c, k) :: ks' =>
        let sub := lay k leafOffset in
        let '(blk, subs) := go ks' (leafOffset + node_count k) in
        ({| e_char := c; e_offset := leafOffset;
            e_count := Z.of_nat (length (n_kids k)); e_vi := n_vi k |} :: blk,
         sub ++ subs)
    end.

Lemma lay_unfold : forall vi kids off,
  lay (Node vi kids) off
  = fst (lay_go kids (off + len kids)) ++ snd (lay_go kids (off + len kids)).
Proof. reflexivity. Qed.

Lemma lay_go_eq : forall ks lo, lay_go ks lo = (lay_blk ks lo, lay_subs ks lo).
Proof.
  induction ks as [|[c k] ks IH]; intro lo; [reflexivity|].
  cbn [lay_go lay_blk lay_subs fst snd]. rewrite IH. reflexivity.
Qed.

Lemma lay_eq : forall vi kids off,
  lay (Node vi kids) off
  = lay_blk kids (off + len kids) ++ lay_subs kids (off + len kids).
Proof. intros. rewrite lay_unfold, lay_go_eq. reflexivity. Qed.

Lemma lay_blk_length : forall ks lo, length (lay_blk ks lo) = length ks.
Proof.
  induction ks as [|p ks IH]; intro lo; cbn [lay_blk length]; [reflexivity|].
  rewrite IH. reflexivity.
Qed.

Lemma lay_length : forall n off, len (lay n off) = node_count n.
Proof.
  induction n as [vi kids IH] using node_ind'. intro off.
  rewrite lay_eq, node_count_eq, app_length, lay_blk_length, Nat2Z.inj_add.
  f_equal. generalize (off + len kids) as lo.
  induction kids as [|[c k] ks IHk]; intro lo; [reflexivity|].
  cbn [lay_subs kcount snd]. inversion IH; subst. cbn [snd] in *.
  rewrite app_length, Nat2Z.inj_add, IHk by assumption. rewrite H1. reflexivity.
Qed.

Lemma lay_kids_nth : forall ks i c k lo, nth_error ks i = Some (c, k) ->
  exists s1 s2,
    nth_error (lay_blk ks lo) i = Some (kentry c k (lo + len s1)) /\
    lay_subs ks lo = s1 ++ lay k (lo + len s1) ++ s2.
Proof.
  induction ks as [|[c0 k0] ks IH]; intros i c k lo H; [destruct i; discriminate|].
  destruct i as [|i].
  - cbn [nth_error] in H. inversion H; subst. exists [], (lay_subs ks (lo + node_count k)).
    cbn [length Z.of_nat]. rewrite Z.add_0_r. split; reflexivity.
  - cbn [nth_error] in H. destruct (IH i c k (lo + node_count k0) H) as (s1 & s2 & H1 & H2).
    exists (lay k0 lo ++ s1), s2. cbn [lay_blk lay_subs nth_error fst snd].
    rewrite app_length, Nat2Z.inj_add, lay_length.
    rewrite Z.add_assoc. split; [exact H1|]. rewrite H2, <- app_assoc. reflexivity.
Qed.

Definition laid (a : list entry) (n : node) (off : Z) : Prop :=
  exists pre post, a = pre ++ lay n off ++ post /\ len pre = off.

Lemma laid_kid : forall a n off i c k, laid a n off -> nth_error (n_kids n) i = Some (c, k) ->
  exists o, arr_get a (off + Z.of_nat i) = Some (kentry c k o) /\ laid a k o.
Proof.
  intros a [vi kids] off i c k (pre & post & Ha & Hp) H. cbn [n_kids] in H.
  rewrite lay_eq in Ha.
  destruct (lay_kids_nth kids i c k (off + len kids) H) as (s1 & s2 & H1 & H2).
  exists (off + len kids + len s1). split.
  - unfold arr_get. assert (0 <=? off + Z.of_nat i = true) as -> by lia.
    replace (Z.to_nat (off + Z.of_nat i)) with (length pre + i)%nat by lia.
    rewrite Ha. rewrite nth_error_app2 by lia.
    replace (length pre + i - length pre)%nat with i by lia.
    assert (Hi : (i < length (lay_blk kids (off + len kids)))%nat)
      by (apply nth_error_Some; rewrite H1; discriminate).
    rewrite nth_error_app1 by (rewrite app_length; lia).
    rewrite nth_error_app1 by exact Hi. exact H1.
  - exists (pre ++ lay_blk kids (off + len kids) ++ s1), (s2 ++ post). split.
    + rewrite Ha, H2. rewrite <- !app_assoc. reflexivity.
    + rewrite !app_length, lay_blk_length. lia.
Qed.

Lemma laid_root : forall n post, laid (lay n 0 ++ post) n 0.
Proof. intros n post. exists [], post. split; reflexivity. Qed.

(* ---- the binary search ---- *)

Lemma ksorted_nth : forall ks i j p1 p2, ksorted ks -> (i < j)%nat ->
  nth_error ks i = Some p1 -> nth_error ks j = Some p2 -> fst p1 < fst p2.
Proof.
  induction ks as [|p ks IH]; intros i j p1 p2 Hs Hij H1 H2; [destruct i; discriminate|].
  cbn [ksorted] in Hs. destruct Hs as [Hs1 Hs2].
  destruct j as [|j]; [lia|]. cbn [nth_error] in H2. destruct i as [|i].
  - cbn [nth_error] in H1. inversion H1; subst. apply nth_error_In in H2.
    rewrite Forall_forall in Hs1. apply Hs1. exact H2.
  - cbn [nth_error] in H1. eapply IH; [exact Hs2 | | exact H1 | exact H2]. lia.
Qed.

Lemma kfind_nth : forall ks j c k, ksorted ks -> nth_error ks j = Some (c, k) ->
  kfind c ks = Some k.
Proof.
  induction ks as [|[c0 k0] ks IH]; intros j c k Hs H; [destruct j; discriminate|].
  cbn [ksorted] in Hs. destruct Hs as [Hs1 Hs2]. destruct j as [|j]; cbn [nth_error kfind] in *.
  - inversion H; subst. rewrite Z.eqb_refl. reflexivity.
  - apply nth_error_In in H as Hin. rewrite Forall_forall in Hs1. apply Hs1 in Hin.
    cbn [fst] in Hin. assert (c =? c0 = false) as -> by lia. eapply IH; eassumption.
Qed.

Lemma kfind_none_nth : forall ks c,
  (forall j c' k, nth_error ks j = Some (c', k) -> c' <> c) -> kfind c ks = None.
Proof.
  induction ks as [|[c0 k0] ks IH]; intros c H; [reflexivity|]. cbn [kfind].
  pose proof (H 0%nat c0 k0 eq_refl) as H0. assert (c =? c0 = false) as -> by lia.
  apply IH. intros j c' k Hj. apply (H (S j) c' k). exact Hj.
Qed.

Lemma mid_bounds : forall s e, 0 <= s -> s <= e -> s <= Z.quot (s + e) 2 <= e.
Proof.
  intros s e H1 H2. rewrite Z.quot_div_nonneg by lia.
  pose proof (Z.div_mod (s + e) 2 ltac:(lia)).
  pose proof (Z.mod_pos_bound (s + e) 2 ltac:(lia)). lia.
Qed.

Section BSearch.
  Variables (a : list entry) (off : Z) (ks : list (chr * node)) (ci : chr).
  Hypothesis Hblk : forall j c k, nth_error ks j = Some (c, k) ->
    exists e, arr_get a (off + Z.of_nat j) = Some e /\ e_char e = c.
  Hypothesis Hsorted : ksorted ks.

  Lemma bsearch_spec : forall fuel start end_,
    0 <= start -> end_ < len ks -> end_ - start + 1 < Z.of_nat fuel ->
    (exists mid e k, bsearch fuel a off ci start end_ = Some (Some (mid, e)) /\ 0 <= mid /\
                     nth_error ks (Z.to_nat mid) = Some (ci, k) /\ arr_get a (off + mid) = Some e)
    \/ (bsearch fuel a off ci start end_ = Some None /\
        forall j c k, start <= Z.of_nat j <= end_ -> nth_error ks j = Some (c, k) -> c <> ci).
  Proof.
    induction fuel as [|fuel IH]; intros start end_ Hs He Hf.
    - right. split; [reflexivity|]. intros j c k Hj. lia.
    - cbn [bsearch]. destruct (start <=? end_) eqn:Ese.
      2:{ right. split; [reflexivity|]. intros j c k Hj. lia. }
      pose proof (mid_bounds start end_ Hs ltac:(lia)) as Hm.
      set (mid := Z.quot (start + end_) 2) in *.
      destruct (nth_error ks (Z.to_nat mid)) as [[cm km]|] eqn:Enth.
      2:{ apply nth_error_None in Enth. lia. }
      destruct (Hblk _ _ _ Enth) as (e & Hget & Hchar).
      rewrite Z2Nat.id in Hget by lia. rewrite Hget.
      assert (Hcmp : forall j c k, nth_error ks j = Some (c, k) ->
                (Z.of_nat j < mid -> c < cm) /\ (mid < Z.of_nat j -> cm < c)).
      { intros j c k Hj. split; intro Hlt.
        - apply (ksorted_nth ks j (Z.to_nat mid) (c, k) (cm, km) Hsorted); [lia | exact Hj | exact Enth].
        - apply (ksorted_nth ks (Z.to_nat mid) j (cm, km) (c, k) Hsorted); [lia | exact Enth | exact Hj]. }
      assert (Hmid : forall j c k, nth_error ks j = Some (c, k) -> Z.of_nat j = mid -> c = cm).
      { intros j c k Hj Hjm. replace j with (Z.to_nat mid) in Hj by lia. congruence. }
      destruct (ci <? e_char e) eqn:E1.
      + destruct (IH start (mid - 1)) as [Hfound | [Hnone Hall]]; [lia | lia | lia | left; exact Hfound |].
        right. split; [exact Hnone|]. intros j c k Hj Hnth.
        destruct (Z_le_gt_dec (Z.of_nat j) (mid - 1)) as [Hle | Hgt].
        * eapply Hall; [|exact Hnth]. lia.
        * destruct (Z.eq_dec (Z.of_nat j) mid) as [Heq | Hne].
          -- pose proof (Hmid _ _ _ Hnth Heq). lia.
          -- pose proof (proj2 (Hcmp _ _ _ Hnth)). lia.
      + destruct (e_char e <? ci) eqn:E2.
        * destruct (IH (mid + 1) end_) as [Hfound | [Hnone Hall]]; [lia | lia | lia | left; exact Hfound |].
          right. split; [exact Hnone|]. intros j c k Hj Hnth.
          destruct (Z_le_gt_dec (mid + 1) (Z.of_nat j)) as [Hle | Hgt].
          -- eapply Hall; [|exact Hnth]. lia.
          -- destruct (Z.eq_dec (Z.of_nat j) mid) as [Heq | Hne].
             ++ pose proof (Hmid _ _ _ Hnth Heq). lia.
             ++ pose proof (proj1 (Hcmp _ _ _ Hnth)). lia.
        * left. exists mid, e, km. split; [reflexivity|]. split; [lia|]. split; [|exact Hget].
          rewrite Enth. f_equal. f_equal. lia.
  Qed.
End BSearch.

(* ---- the frozen loop computes `walk` ---- *)

Lemma frozen_walk : forall q a n off d rl rv, wf_node n -> laid a n off ->
  frozen_loop a q d off (len (n_kids n)) rl rv
  = match walk q n d None with Some (l, v) => FOk l v | None => FOk rl rv end.
Proof.
  induction q as [|c q IH]; intros a n off d rl rv Hwf Hlaid; [reflexivity|].
  cbn [frozen_loop walk].
  pose proof (wf_inv _ Hwf) as (W1 & W2 & W3).
  assert (Hblk : forall j c' k, nth_error (n_kids n) j = Some (c', k) ->
            exists e, arr_get a (off + Z.of_nat j) = Some e /\ e_char e = c').
  { intros j c' k Hj. destruct (laid_kid a n off j c' k Hlaid Hj) as (o & Ho & _).
    eexists. split; [exact Ho | reflexivity]. }
  destruct (bsearch_spec a off (n_kids n) c Hblk W2 (S (Z.to_nat (len (n_kids n)))) 0
              (len (n_kids n) - 1)) as [(mid & e & k & -> & Hmid & Hnth & Hget) | [-> Hall]];
    [lia | lia | lia | |].
  - rewrite (kfind_nth _ _ _ _ W2 Hnth).
    destruct (laid_kid a n off _ c k Hlaid Hnth) as (o & Ho & Hlk).
    rewrite Z2Nat.id in Ho by lia. rewrite Hget in Ho. inversion Ho; subst e.
    cbn [kentry e_vi e_offset e_count].
    assert (Hk : wf_node k) by (eapply wf_kid; [exact Hwf | eapply kfind_nth; eassumption]).
    destruct (0 <=? n_vi k) eqn:Ek.
    + rewrite (IH a k o (d + 1) _ _ Hk Hlk), walk_best.
      destruct (walk q k (d + 1) None) as [[l v]|]; reflexivity.
    + rewrite (IH a k o (d + 1) _ _ Hk Hlk). reflexivity.
  - rewrite kfind_none_nth; [reflexivity|].
    intros j c' k Hj. eapply Hall; [|exact Hj].
    assert ((j < length (n_kids n))%nat) by (apply nth_error_Some; rewrite Hj; discriminate). lia.
Qed.

Lemma frozen_getLongest : forall q t, wf_node (t_root t) -> n_vi (t_root t) < 0 ->
  t_frozen t = Some (freeze_node (t_root t)) ->
  t_getLongest q t = res_of (walk q (t_root t) 0 None).
Proof.
  intros q t Hwf Hr Hf. unfold t_getLongest. rewrite Hf. unfold freeze_node. cbn [f_arr f_base].
  rewrite (frozen_walk q _ (t_root t) 0 0 0 (-1) Hwf (laid_root _ _)).
  destruct (walk q (t_root t) 0 None) as [[l v]|] eqn:W; [|reflexivity].
  apply walk_none_pos in W. cbn [res_of].
  assert (l =? 0 = false) as -> by lia. assert (0 <=? v = true) as -> by lia. reflexivity.
Qed.

(* ------------------------------------------------------------------------------------ *)
(* the invariant                                                                          *)

Record Inv' (root : node) (values : list Z) (m : smap) : Prop := {
  inv_wf : wf_node root;
  inv_root : n_vi root = -1;
  inv_rep : forall k : list Z, k <> [] -> vlookup values (tree_vi k root) = s_lookup k m;
  inv_bound : forall k : list Z, tree_vi k root < len values;
  inv_inj : forall k1 k2 : list Z,
      0 <= tree_vi k1 root -> tree_vi k1 root = tree_vi k2 root -> k1 = k2;
  inv_size : node_size root = len values;
  inv_len : len m = len values;
  inv_nodup : NoDup (map fst m)
}.

Definition frozen_ok (t : trie) : Prop :=
  t_frozen t = None \/ t_frozen t = Some (freeze_node (t_root t)).

Definition Inv (t : trie) (m : smap) : Prop :=
  Inv' (t_root t) (t_values t) m /\ frozen_ok t.

Lemma inv_init : forall auto, Inv (trie_init auto) [].
Proof.
  intro auto. split; [|left; reflexivity]. cbn [trie_init t_root t_values].
  constructor.
  - apply wf_empty.
  - reflexivity.
  - intros k Hk. rewrite tree_vi_empty. reflexivity.
  - intro k. rewrite tree_vi_empty. cbn. lia.
  - intros k1 k2 H. rewrite tree_vi_empty in H. lia.
  - reflexivity.
  - reflexivity.
  - constructor.
Qed.

Lemma inv_freeze : forall t m, Inv t m -> Inv (t_freeze t) m.
Proof. intros t m [H _]. split; [exact H | right; reflexivity]. Qed.

Lemma inv_defrost : forall t m, Inv t m -> Inv (t_defrost t) m.
Proof. intros t m [H _]. split; [exact H | left; reflexivity]. Qed.

Lemma inv_auto : forall (b : bool) t m, Inv t m -> Inv (if b then t_freeze t else t) m.
Proof. intros [|] t m H; [apply inv_freeze|]; exact H. Qed.

Lemma inv_clear : forall t m, Inv t m -> Inv (t_clear t) [].
Proof.
  intros t m [H _]. split; [|left; reflexivity]. cbn [t_clear t_root t_values].
  rewrite (inv_root _ _ _ H).
  assert (Hvi : forall k : list Z, tree_vi k (Node (-1) []) = -1) by (intros [|c k]; reflexivity).
  constructor.
  - constructor; [lia | exact I | constructor].
  - reflexivity.
  - intros k Hk. rewrite Hvi. reflexivity.
  - intro k. rewrite Hvi. cbn. lia.
  - intros k1 k2 H1. rewrite Hvi in H1. lia.
  - reflexivity.
  - reflexivity.
  - constructor.
Qed.

Lemma s_lookup_add : forall k q v m,
  s_lookup k (s_add q v m) = if key_eqb k q then Some v else s_lookup k (s_remove q m).
Proof. reflexivity. Qed.

Lemma inv_add : forall q v t m, q <> [] -> Inv t m -> Inv (t_add q v t) (s_add q v m).
Proof.
  intros q v t m Hq [H Hfz]. unfold t_add.
  pose proof (inv_wf _ _ _ H) as Hwf. pose proof (inv_root _ _ _ H) as Hroot.
  pose proof (inv_rep _ _ _ H) as Hrep. pose proof (inv_bound _ _ _ H) as Hbound.
  pose proof (inv_inj _ _ _ H) as Hinj.
  destruct (gvi_spec q (t_root t) Hq ltac:(lia)) as [G1 G2].
  destruct (Z_lt_le_dec (tree_vi q (t_root t)) 0) as [Hneg | Hpos].
  - (* a new key *)
    assert (node_getValueIndex q (t_root t) <? 0 = true) as -> by (specialize (G2 Hneg); lia).
    cbn [t_defrost t_root t_values t_auto]. apply inv_auto.
    split; [|left; reflexivity]. cbn [t_root t_values].
    set (L := len (t_values t)).
    assert (Hlk : s_lookup q m = None).
    { rewrite <- Hrep by assumption. apply vlookup_neg. exact Hneg. }
    constructor.
    + apply wf_add; [lia | exact Hwf].
    + destruct q as [|a q0]; [contradiction|]. rewrite n_vi_add_cons. exact Hroot.
    + intros k Hk. rewrite tree_vi_add, s_lookup_add. destruct (key_eqb k q) eqn:E.
      * apply vlookup_snoc.
      * rewrite vlookup_app by apply Hbound. rewrite Hrep by assumption.
        symmetry. apply s_lookup_remove_ne. apply key_eqb_false. exact E.
    + intro k. rewrite tree_vi_add, app_length, Nat2Z.inj_add. cbn [length].
      destruct (key_eqb k q); [lia|]. specialize (Hbound k). lia.
    + intros k1 k2. rewrite !tree_vi_add.
      destruct (key_eqb k1 q) eqn:E1; destruct (key_eqb k2 q) eqn:E2; intros P1 P2.
      * apply key_eqb_spec in E1, E2. congruence.
      * specialize (Hbound k2). lia.
      * specialize (Hbound k1). lia.
      * apply Hinj; assumption.
    + rewrite node_size_add by exact Hwf. rewrite app_length, Nat2Z.inj_add. cbn [length].
      rewrite (inv_size _ _ _ H). unfold b01.
      assert (0 <=? tree_vi q (t_root t) = false) as -> by lia.
      assert (0 <=? L = true) as -> by lia. lia.
    + unfold s_add. cbn [length]. rewrite s_remove_none by exact Hlk.
      rewrite app_length, Nat2Z.inj_add, Nat2Z.inj_succ. cbn [length].
      pose proof (inv_len _ _ _ H). lia.
    + apply nodup_add. exact (inv_nodup _ _ _ H).
  - (* an existing key: overwrite the value *)
    specialize (G1 Hpos).
    assert (node_getValueIndex q (t_root t) <? 0 = false) as -> by lia.
    rewrite G1. set (i := tree_vi q (t_root t)) in *.
    split; [|exact Hfz]. cbn [t_root t_values].
    assert (Hi : (Z.to_nat i < length (t_values t))%nat) by (specialize (Hbound q); lia).
    assert (Hlk : s_lookup q m <> None).
    { rewrite <- Hrep by assumption. destruct (vlookup_some (t_values t) i) as [x Hx].
      - specialize (Hbound q). lia.
      - unfold i in Hx. rewrite Hx. discriminate. }
    constructor.
    + exact Hwf.
    + exact Hroot.
    + intros k Hk. rewrite s_lookup_add. destruct (key_eqb k q) eqn:E.
      * apply key_eqb_spec in E. subst k. unfold vlookup. fold i.
        assert (0 <=? i = true) as -> by lia. apply nth_error_list_set_eq. exact Hi.
      * rewrite s_lookup_remove_ne by (apply key_eqb_false; exact E).
        rewrite <- Hrep by assumption. unfold vlookup.
        destruct (0 <=? tree_vi k (t_root t)) eqn:Ek; [|reflexivity].
        apply nth_error_list_set_ne. intro Heq.
        assert (q = k) by (apply Hinj; [exact Hpos | fold i; lia]).
        subst k. rewrite key_eqb_refl in E. discriminate.
    + intro k. rewrite list_set_length. apply Hbound.
    + exact Hinj.
    + rewrite list_set_length. exact (inv_size _ _ _ H).
    + unfold s_add. cbn [length]. rewrite Nat2Z.inj_succ, list_set_length.
      rewrite s_remove_length by exact (inv_nodup _ _ _ H).
      pose proof (inv_len _ _ _ H). destruct (s_lookup q m); [cbn [has01]; lia | contradiction].
    + apply nodup_add. exact (inv_nodup _ _ _ H).
Qed.

Lemma inv_remove : forall q t m, q <> [] -> Inv t m -> Inv (t_remove q t) (s_remove q m).
Proof.
  intros q t m Hq [H Hfz]. unfold t_remove.
  pose proof (inv_wf _ _ _ H) as Hwf. pose proof (inv_root _ _ _ H) as Hroot.
  pose proof (inv_rep _ _ _ H) as Hrep. pose proof (inv_bound _ _ _ H) as Hbound.
  pose proof (inv_inj _ _ _ H) as Hinj.
  destruct (gvi_spec q (t_root t) Hq ltac:(lia)) as [G1 G2].
  destruct (Z_lt_le_dec (tree_vi q (t_root t)) 0) as [Hneg | Hpos].
  - (* not stored: nothing happens *)
    assert (0 <=? node_getValueIndex q (t_root t) = false) as -> by (specialize (G2 Hneg); lia).
    rewrite s_remove_none; [split; assumption|].
    rewrite <- Hrep by assumption. apply vlookup_neg. exact Hneg.
  - specialize (G1 Hpos).
    assert (0 <=? node_getValueIndex q (t_root t) = true) as -> by lia.
    rewrite G1. set (i := tree_vi q (t_root t)) in *.
    cbn [t_defrost t_root t_values t_auto]. apply inv_auto.
    split; [|left; reflexivity]. cbn [t_root t_values].
    assert (Hi : (Z.to_nat i < length (t_values t))%nat) by (specialize (Hbound q); lia).
    assert (Hlen : len (list_del (t_values t) (Z.to_nat i)) = len (t_values t) - 1)
      by (rewrite list_del_length by exact Hi; lia).
    assert (Hlk : s_lookup q m <> None).
    { rewrite <- Hrep by assumption. destruct (vlookup_some (t_values t) i) as [x Hx].
      - specialize (Hbound q). lia.
      - unfold i in Hx. rewrite Hx. discriminate. }
    assert (Hvi : forall k : list Z, tree_vi k (node_remove q i (t_root t))
                  = dec i (if key_eqb k q then -1 else tree_vi k (t_root t))).
    { intros [|c k].
      - cbn [tree_vi]. rewrite n_vi_remove, Hroot. destruct q; [contradiction|].
        cbn [key_eqb]. unfold dec. assert (i <? -1 = false) as -> by lia. reflexivity.
      - apply tree_vi_remove; assumption. }
    assert (Hne : forall k : list Z, key_eqb k q = false -> tree_vi k (t_root t) <> i).
    { intros k E Heq. assert (q = k) by (apply Hinj; [exact Hpos | fold i; lia]).
      subst k. rewrite key_eqb_refl in E. discriminate. }
    constructor.
    + apply wf_remove; assumption.
    + rewrite n_vi_remove. exact Hroot.
    + intros k Hk. rewrite Hvi. destruct (key_eqb k q) eqn:E.
      * apply key_eqb_spec in E. subst k. rewrite s_lookup_remove_eq.
        apply vlookup_neg. unfold dec. destruct (i <? -1); lia.
      * rewrite s_lookup_remove_ne by (apply key_eqb_false; exact E).
        rewrite <- Hrep by assumption. specialize (Hne k E). specialize (Hbound k).
        set (j := tree_vi k (t_root t)) in *. unfold dec, vlookup.
        destruct (i <? j) eqn:Eij.
        -- assert (0 <=? j - 1 = true) as -> by lia. assert (0 <=? j = true) as -> by lia.
           rewrite nth_error_list_del_ge by lia. f_equal. lia.
        -- destruct (0 <=? j) eqn:Ej; [|reflexivity].
           apply nth_error_list_del_lt. lia.
    + intro k. rewrite Hvi, Hlen. destruct (key_eqb k q) eqn:E.
      * unfold dec. destruct (i <? -1); lia.
      * specialize (Hne k E). specialize (Hbound k). unfold dec.
        destruct (i <? tree_vi k (t_root t)) eqn:Eij; lia.
    + intros k1 k2. rewrite !Hvi.
      destruct (key_eqb k1 q) eqn:E1; [unfold dec; destruct (i <? -1); lia|].
      destruct (key_eqb k2 q) eqn:E2.
      * unfold dec. destruct (i <? -1); destruct (i <? tree_vi k1 (t_root t)); lia.
      * pose proof (Hne k1 E1). pose proof (Hne k2 E2). intros P1 P2. apply Hinj.
        -- unfold dec in P1. destruct (i <? tree_vi k1 (t_root t)); lia.
        -- unfold dec in P1, P2. destruct (i <? tree_vi k1 (t_root t)) eqn:Ea;
             destruct (i <? tree_vi k2 (t_root t)) eqn:Eb; lia.
    + rewrite node_size_remove by assumption. rewrite Hlen, (inv_size _ _ _ H).
      fold i. unfold b01. assert (0 <=? i = true) as -> by lia. reflexivity.
    + rewrite s_remove_length by exact (inv_nodup _ _ _ H). rewrite Hlen.
      pose proof (inv_len _ _ _ H). destruct (s_lookup q m); [cbn [has01]; lia | contradiction].
    + apply nodup_remove. exact (inv_nodup _ _ _ H).
Qed.

Lemma inv_step : forall t m o, op_nonempty o -> Inv t m -> Inv (step t o) (s_step m (abs_op o)).
Proof.
  intros t m [k v | k | | |] Ho H; cbn [step abs_op s_step op_nonempty] in *.
  - apply inv_add; assumption.
  - apply inv_remove; assumption.
  - apply inv_freeze; assumption.
  - apply inv_defrost; assumption.
  - eapply inv_clear; eassumption.
Qed.

Lemma inv_fold : forall ops t m, nonempty_ops ops -> Inv t m ->
  Inv (fold_left step ops t) (fold_left s_step (map abs_op ops) m).
Proof.
  induction ops as [|o ops IH]; intros t m Hne H; [exact H|].
  inversion Hne; subst. cbn [fold_left map]. apply IH; [assumption|]. apply inv_step; assumption.
Qed.

Lemma inv_run : forall auto ops, nonempty_ops ops ->
  Inv (run auto ops) (fold_left s_step (map abs_op ops) []).
Proof. intros auto ops H. unfold run. apply inv_fold; [exact H | apply inv_init]. Qed.

(* ------------------------------------------------------------------------------------ *)
(* the queries under the invariant                                                        *)

Lemma inv_getLongest : forall q t m, Inv t m ->
  t_getLongest q t = res_of (walk q (t_root t) 0 None).
Proof.
  intros q t m [H [Hf | Hf]].
  - apply unfrozen_getLongest; [rewrite (inv_root _ _ _ H); lia | exact Hf].
  - apply frozen_getLongest; [exact (inv_wf _ _ _ H) | rewrite (inv_root _ _ _ H); lia | exact Hf].
Qed.

Lemma inv_walk_rel : forall q t m, Inv t m ->
  res_rel (t_values t) (walk q (t_root t) 0 None) (spec_getLongest q m).
Proof.
  intros q t m [H _]. unfold spec_getLongest. apply walk_longest; [|reflexivity|exact I].
  intros k Hk. cbn [app]. split; [apply (inv_rep _ _ _ H); exact Hk | apply (inv_bound _ _ _ H)].
Qed.

Lemma getLongest_correct : forall q t m d, Inv t m ->
  value_of t d (t_getLongest q t)
  = Some (match spec_getLongest q m with Some (l, v) => (true, l, v) | None => (false, 0, d) end).
Proof.
  intros q t m d H. rewrite (inv_getLongest q t m H).
  pose proof (inv_walk_rel q t m H) as R.
  destruct (walk q (t_root t) 0 None) as [[l vi]|]; destruct (spec_getLongest q m) as [[l' v]|];
    cbn [res_rel] in R; try contradiction.
  - destruct R as (-> & R1 & R2). cbn [res_of value_of].
    assert (0 <=? vi = true) as -> by lia. rewrite R2. reflexivity.
  - reflexivity.
Qed.

Lemma get_correct : forall q t m d, Inv t m ->
  value_of t d (t_get q t)
  = Some (match spec_get q m with Some v => (true, len q, v) | None => (false, 0, d) end)
  /\ (q <> [] -> t_has q t = Some (match spec_get q m with Some _ => true | None => false end)).
Proof.
  intros q t m d HI. unfold t_has, t_get. rewrite (inv_getLongest q t m HI).
  destruct HI as [H _]. destruct q as [|c q].
  - cbn [walk res_of spec_get length]. cbn. split; [reflexivity | intro Hc; contradiction].
  - set (k := c :: q) in *. assert (Hk : k <> []) by discriminate.
    assert (Hs : spec_get k m = s_lookup k m) by reflexivity. rewrite Hs.
    pose proof (inv_rep _ _ _ H k Hk) as Hrep. pose proof (inv_bound _ _ _ H k) as Hbound.
    destruct (Z_lt_le_dec (tree_vi k (t_root t)) 0) as [Hneg | Hpos].
    + rewrite vlookup_neg in Hrep by exact Hneg. rewrite <- Hrep.
      destruct (walk k (t_root t) 0 None) as [[l vi]|] eqn:W; cbn [res_of].
      * apply walk_spec in W. destruct W as [W | (W1 & W2 & W3)]; [discriminate|].
        destruct (l =? len k) eqn:El; [rewrite W3 in Hneg by lia; lia|].
        cbn [value_of]. split; [reflexivity|]. intros _.
        assert (0 =? len k = false) as -> by (unfold k; cbn [length]; lia). reflexivity.
      * assert (0 =? len k = false) as -> by (unfold k; cbn [length]; lia).
        cbn [value_of]. split; [reflexivity|]. intros _.
        assert (0 =? len k = false) as -> by (unfold k; cbn [length]; lia). reflexivity.
    + rewrite (walk_full k (t_root t) 0 None _ Hk eq_refl Hpos). cbn [res_of].
      rewrite Z.add_0_l, Z.eqb_refl. cbn [value_of].
      unfold vlookup in Hrep. assert (0 <=? tree_vi k (t_root t) = true) as E by lia.
      rewrite E in *. rewrite Hrep.
      destruct (s_lookup k m) as [v|] eqn:Ev.
      * split; [reflexivity|]. intros _. rewrite Z.eqb_refl. reflexivity.
      * exfalso. apply nth_error_None in Hrep. lia.
Qed.

Lemma size_correct : forall t m, Inv t m -> t_size t = spec_size m.
Proof.
  intros t m [H Hf]. unfold t_size, spec_size. rewrite (inv_len _ _ _ H).
  destruct Hf as [-> | ->]; [exact (inv_size _ _ _ H) | reflexivity].
Qed.

(* ------------------------------------------------------------------------------------ *)
(* the theorems                                                                           *)

Theorem trie_refines_map : forall (auto : bool) (ops : list op) (q : key) (d : Z),
  nonempty_ops ops ->
  let t := run auto ops in
  let m := fold_left s_step (map abs_op ops) [] in
  value_of t d (t_getLongest q t)
    = Some (match spec_getLongest q m with
            | Some (l, v) => (true, l, v)
            | None => (false, 0, d)
            end)
  /\ value_of t d (t_get q t)
    = Some (match spec_get q m with
            | Some v => (true, Z.of_nat (length q), v)
            | None => (false, 0, d)
            end)
  /\ (q <> [] ->
      t_has q t = Some (match spec_get q m with Some _ => true | None => false end))
  /\ t_size t = spec_size m.
Proof.
  intros auto ops q d Hne t m. pose proof (inv_run auto ops Hne) as HI. fold t m in HI.
  split; [apply getLongest_correct; exact HI|].
  destruct (get_correct q t m d HI) as [G1 G2].
  split; [exact G1|]. split; [exact G2|]. apply size_correct. exact HI.
Qed.

Theorem frozen_eq_unfrozen : forall (auto : bool) (ops : list op) (q : key),
  nonempty_ops ops ->
  let t := run auto ops in
  t_getLongest q (t_freeze t) = t_getLongest q (t_defrost t)
  /\ t_get q (t_freeze t) = t_get q (t_defrost t)
  /\ t_has q (t_freeze t) = t_has q (t_defrost t)
  /\ t_size (t_freeze t) = t_size (t_defrost t).
Proof.
  intros auto ops q Hne t. pose proof (inv_run auto ops Hne) as HI. fold t in HI.
  assert (E : t_getLongest q (t_freeze t) = t_getLongest q (t_defrost t)).
  { rewrite (inv_getLongest q _ _ (inv_freeze _ _ HI)).
    rewrite (inv_getLongest q _ _ (inv_defrost _ _ HI)). reflexivity. }
  split; [exact E|]. unfold t_has, t_get. rewrite E.
  split; [reflexivity|]. split; [reflexivity|].
  rewrite (size_correct _ _ (inv_freeze _ _ HI)), (size_correct _ _ (inv_defrost _ _ HI)).
  reflexivity.
Qed.

(* no lookup on a reachable trie reads outside the frozen arrays or the value vector *)
Theorem lookups_in_bounds : forall (auto : bool) (ops : list op) (q : key) (d : Z),
  nonempty_ops ops ->
  let t := run auto ops in
  t_getLongest q t <> QOob /\ t_get q t <> QOob
  /\ value_of t d (t_getLongest q t) <> None /\ value_of t d (t_get q t) <> None.
Proof.
  intros auto ops q d Hne t.
  destruct (trie_refines_map auto ops q d Hne) as (H1 & H2 & _). fold t in H1, H2.
  assert (A : value_of t d (t_getLongest q t) <> None) by (rewrite H1; discriminate).
  assert (B : value_of t d (t_get q t) <> None) by (rewrite H2; discriminate).
  split; [intro E; rewrite E in A; apply A; reflexivity|].
  split; [intro E; rewrite E in B; apply B; reflexivity|].
  split; assumption.
Qed.

(* The pinned source (`cIndex + 1` in trieNode::get, modelled by node_get_gen 1) does not meet
   the specification: with "a" and "abc" stored, the query "abd" is answered with length 2
   (the map's longest stored prefix has length 1), and "ab" is reported as stored. *)
Theorem pinned_variant_refuted :
  exists (ops : list op) (q q2 : key),
    nonempty_ops ops /\
    let t := run false ops in
    let m := fold_left s_step (map abs_op ops) [] in
    spec_getLongest q m = Some (1, 1) /\
    node_get_gen 0 q 0 (t_root t) = (1, 0) /\
    node_get_gen 1 q 0 (t_root t) = (2, 0) /\
    spec_get q2 m = None /\
    node_get_gen 0 q2 0 (t_root t) = (1, 0) /\
    node_get_gen 1 q2 0 (t_root t) = (Z.of_nat (length q2), 0).
Proof.
  exists [OAdd [97] 1; OAdd [97; 98; 99] 2], [97; 98; 100], [97; 98].
  split.
  - repeat constructor; discriminate.
  - vm_compute. repeat split; reflexivity.
Qed.
