(* C28 — the statements.  Vocabulary: Model.v (the trie as transcribed from trie.{hpp,tpp,cpp}),
   Spec.v (finite map with longest-stored-prefix lookup), Statements.v (abs_op, nonempty_ops).
   Every proof is in Proofs.v; this file only states, cites and prints assumptions.
   Characters are written as their codes: 97 = 'a', 98 = 'b', 99 = 'c', 100 = 'd', 120 = 'x'. *)
From Coq Require Import List ZArith.
From OV.C28 Require Import Model Spec Statements.
From OV.C28 Require Proofs.
Import ListNotations.
Local Open Scope Z_scope.

(* For every history of add / remove / freeze / defrost / clear over non-empty keys, with or
   without autoFreeze, and every query q (d is the trie's defaultValue):
   getLongest returns the longest stored prefix of q with the most recently added value,
   get and has succeed exactly for stored keys, size counts the stored keys.
   `value_of ... = Some _` also says: no out-of-bounds read in the frozen binary search
   (QOob) and no values[valueIndex] outside the value vector. *)
Theorem trie_refines_map : forall (auto : bool) (ops : list op) (q : key) (d : Z),
  nonempty_ops ops ->
  let t := run auto ops in
  let m := fold_left s_step (map abs_op ops) [] in
  value_of t d (t_getLongest q t)
    = Some (match spec_getLongest q m with
            | Some (l, v) => (true, l, v)
            | None => (false, 0, d)
            end)
  /\ value_of t d (t_get q t)
    = Some (match spec_get q m with
            | Some v => (true, Z.of_nat (length q), v)
            | None => (false, 0, d)
            end)
  /\ (q <> [] ->
      t_has q t = Some (match spec_get q m with Some _ => true | None => false end))
  /\ t_size t = spec_size m.
Proof. exact Proofs.trie_refines_map. Qed.
Print Assumptions trie_refines_map.

(* On every reachable trie the frozen arrays + binary search and the node tree give the same
   answers (result records are equal: success flag, length and value index). *)
Theorem frozen_eq_unfrozen : forall (auto : bool) (ops : list op) (q : key),
  nonempty_ops ops ->
  let t := run auto ops in
  t_getLongest q (t_freeze t) = t_getLongest q (t_defrost t)
  /\ t_get q (t_freeze t) = t_get q (t_defrost t)
  /\ t_has q (t_freeze t) = t_has q (t_defrost t)
  /\ t_size (t_freeze t) = t_size (t_defrost t).
Proof. exact Proofs.frozen_eq_unfrozen. Qed.
Print Assumptions frozen_eq_unfrozen.

(* Explicitly: no lookup on a reachable trie reads outside the frozen arrays or `values`. *)
Theorem lookups_in_bounds : forall (auto : bool) (ops : list op) (q : key) (d : Z),
  nonempty_ops ops ->
  let t := run auto ops in
  t_getLongest q t <> QOob /\ t_get q t <> QOob
  /\ value_of t d (t_getLongest q t) <> None /\ value_of t d (t_get q t) <> None.
Proof. exact Proofs.lookups_in_bounds. Qed.
Print Assumptions lookups_in_bounds.

(* The pinned source (`cIndex + 1` in trieNode::get = node_get_gen 1; the repaired source is
   node_get_gen 0) violates the specification: with "a" and "abc" stored the query q = "abd" is
   answered with length 2 although the longest stored prefix has length 1, and q2 = "ab", which
   is not stored, is answered with its full length (so get/has succeed on it). *)
Theorem pinned_variant_refuted :
  exists (ops : list op) (q q2 : key),
    nonempty_ops ops /\
    let t := run false ops in
    let m := fold_left s_step (map abs_op ops) [] in
    spec_getLongest q m = Some (1, 1) /\
    node_get_gen 0 q 0 (t_root t) = (1, 0) /\
    node_get_gen 1 q 0 (t_root t) = (2, 0) /\
    spec_get q2 m = None /\
    node_get_gen 0 q2 0 (t_root t) = (1, 0) /\
    node_get_gen 1 q2 0 (t_root t) = (Z.of_nat (length q2), 0).
Proof. exact Proofs.pinned_variant_refuted. Qed.
Print Assumptions pinned_variant_refuted.

(* ---- non-vacuity: concrete histories that meet the hypotheses, with non-trivial answers ---- *)

(* 5 adds (one overwriting after the freeze), 2 removes (one of a key that is a proper prefix of
   stored keys, one of an absent key), an explicit freeze; the trie ends frozen; the query
   "abcd" has the stored prefixes "ab" and "abc" *)
Example trie_refines_map_nonvacuous :
  let ops := [OAdd [97] 1; OAdd [97; 98; 99] 2; OAdd [98] 3; OAdd [97; 98] 4;
              ORemove [97]; OFreeze; OAdd [97; 98; 99] 5; ORemove [120]] in
  let q := [97; 98; 99; 100] in
  let t := run false ops in
  let m := fold_left s_step (map abs_op ops) [] in
  nonempty_ops ops /\
  spec_getLongest q m = Some (3, 5) /\
  value_of t (-7) (t_getLongest q t) = Some (true, 3, 5) /\
  spec_get [97] m = None /\ t_has [97] t = Some false /\
  spec_get [97; 98] m = Some 4 /\ value_of t (-7) (t_get [97; 98] t) = Some (true, 2, 4) /\
  t_size t = 3 /\ spec_size m = 3 /\
  t_frozen t = Some (freeze_node (t_root t)).
Proof.
  cbv zeta. split; [repeat constructor; discriminate|].
  vm_compute. repeat split; reflexivity.
Qed.

(* autoFreeze on, 4 adds, a remove, a defrost, a freeze, a clear in the middle *)
Example frozen_eq_unfrozen_nonvacuous :
  let ops := [OAdd [120] 9; OClear; OAdd [97] 1; OAdd [97; 98; 99] 2; OAdd [98] 3;
              ODefrost; ORemove [98]; OFreeze] in
  let q := [97; 98; 99; 100] in
  let t := run true ops in
  nonempty_ops ops /\
  t_getLongest q (t_freeze t) = QOk true 3 1 /\
  t_getLongest q (t_defrost t) = QOk true 3 1 /\
  t_getLongest [97; 98] (t_freeze t) = QOk true 1 0 /\
  t_getLongest [97; 98] (t_defrost t) = QOk true 1 0 /\
  t_size (t_freeze t) = 2 /\ t_size (t_defrost t) = 2.
Proof.
  cbv zeta. split; [repeat constructor; discriminate|].
  vm_compute. repeat split; reflexivity.
Qed.

(* the frozen lookup of the first example really goes through the binary search on a frozen
   array of 5 entries + sentinel, and returns a proper result *)
Example lookups_in_bounds_nonvacuous :
  let ops := [OAdd [97] 1; OAdd [97; 98; 99] 2; OAdd [98] 3; OAdd [97; 98] 4;
              ORemove [97]; OFreeze] in
  let t := run false ops in
  nonempty_ops ops /\
  option_map (fun f => length (f_arr f)) (t_frozen t) = Some 5%nat /\
  t_getLongest [97; 98; 99; 100] t = QOk true 3 0 /\
  t_get [97; 98; 100] t = QOk false 0 (-1).
Proof.
  cbv zeta. split; [repeat constructor; discriminate|].
  vm_compute. repeat split; reflexivity.
Qed.

(* the repaired constant on the refutation's input: the answers the specification asks for *)
Example pinned_variant_repaired :
  let ops := [OAdd [97] 1; OAdd [97; 98; 99] 2] in
  let t := run true ops in
  let m := fold_left s_step (map abs_op ops) [] in
  nonempty_ops ops /\
  spec_getLongest [97; 98; 100] m = Some (1, 1) /\
  value_of t (-7) (t_getLongest [97; 98; 100] t) = Some (true, 1, 1) /\
  value_of t (-7) (t_getLongest [97; 98; 100] (t_defrost t)) = Some (true, 1, 1) /\
  t_has [97; 98] t = Some false /\ t_has [97; 98] (t_defrost t) = Some false.
Proof.
  cbv zeta. split; [repeat constructor; discriminate|].
  vm_compute. repeat split; reflexivity.
Qed.
