From OV.C28 Require Import Model Spec.
From Coq Require Import List ZArith.
Import ListNotations.
Local Open Scope Z_scope.
Example placeholder : node_get [1;2] (Node (-1) []) = (0, -1).
Proof. reflexivity. Qed.
Print Assumptions placeholder.
