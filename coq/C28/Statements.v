(* C28 — the small vocabulary used by the theorem statements in Properties_C28.v, on top of
   Model.v (the trie) and Spec.v (the finite map). *)
From Coq Require Import List ZArith.
From OV.C28 Require Import Model Spec.
Import ListNotations.
Local Open Scope Z_scope.

(* the abstract operation of a concrete one: freeze/defrost do not change the stored map *)
Definition abs_op (o : op) : sop :=
  match o with
  | OAdd k v => SAdd k v
  | ORemove k => SRemove k
  | OClear => SClear
  | OFreeze => SNop
  | ODefrost => SNop
  end.

(* the empty key is excluded (known finding `empty_key`) *)
Definition op_nonempty (o : op) : Prop :=
  match o with
  | OAdd k _ => k <> []
  | ORemove k => k <> []
  | _ => True
  end.

Definition nonempty_ops (ops : list op) : Prop := Forall op_nonempty ops.
