(* Extraction of the executable model and specification (ExtrOcamlBasic only; Z stays the
   extracted inductive).  coqc is run from /verif/coq by the Makefile, so the path is relative
   to that directory. *)
From Coq Require Import Extraction ExtrOcamlBasic.
From OV.C28 Require Import Model Spec.
Extraction Language OCaml.
Extraction "../_work/extract/C28/model.ml"
  trie_init step t_getLongest t_get t_has t_size value_of t_frozen t_root t_values
  s_step spec_getLongest spec_get spec_size.
