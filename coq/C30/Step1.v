(* C30 — invariant preservation, part 1: a new wrapper, the counter updates. *)
From Coq Require Import List Arith Bool ZArith Lia.
From OV.C30 Require Import Model Statements Lemmas Frame.
Import ListNotations.

Lemma local_upd s' ths t th0 th' :
  nth_error ths t = Some th0 -> local s' t (cur th') ->
  (forall i p, i <> t -> at_thr ths i p -> local s' i p) ->
  forall i p, at_thr (upd_nth ths t th') i p -> local s' i p.
Proof.
  intros Ht Hl Ho i p Ha. apply (at_thr_upd _ _ _ _ _ _ Ht) in Ha as [[-> <-]|[Hn Ha]]; [assumption|now apply Ho].
Qed.

Lemma bound_new_handle s t v h :
  vars s t v = None ->
  (bound (snd (new_handle s t v)) h <-> h = nh s \/ bound s h).
Proof.
  intros Hv. unfold new_handle, bound. cbn [snd]. simpl_st. split.
  - intros (a & b & H). destruct (upd2_cases (vars s) t v (Some (nh s)) a b) as [(-> & -> & E)|(Hd & E)];
      rewrite E in H; [left; congruence|right; eauto].
  - intros [->|(a & b & H)].
    + exists t, v. apply upd2_same.
    + exists a, b. rewrite upd2_other; [assumption|].
      destruct (Nat.eq_dec a t) as [->|]; [|now left]. destruct (Nat.eq_dec b v) as [->|]; [congruence|now right].
Qed.

(* a new wrapper bound to a free variable of any thread; no thread moves *)
Lemma inv_new_handle s ths t v :
  Inv s ths -> vars s t v = None ->
  Inv (snd (new_handle s t v)) ths /\ building (snd (new_handle s t v)) t (nh s).
Proof.
  intros HI Hv. pose proof (bound_new_handle s t v) as Hb.
  assert (Hfresh : hptr s (nh s) = None).
  { destruct (hptr s (nh s)) eqn:E; [|reflexivity]. apply (i_hptr_lt _ _ HI) in E. lia. }
  split.
  2:{ unfold new_handle, building. cbn [snd]. simpl_st. split; [assumption|]. exists v. apply upd2_same. }
  destruct HI. unfold new_handle in *. cbn [snd] in *. constructor; simpl_st; try assumption.
  - intros i p Ha. apply (local_stable s); [intros; now repeat split|intros; now repeat split| |now apply i_local].
    intros h Hh. simpl_st. split; [reflexivity|]. intros v0 H0. rewrite upd2_other; [assumption|].
    destruct (Nat.eq_dec i t) as [->|]; [|now left]. destruct (Nat.eq_dec v0 v) as [->|]; [congruence|now right].
  - intros a b h H. destruct (upd2_cases (vars s) t v (Some (nh s)) a b) as [(-> & -> & E)|(Hd & E)]; rewrite E in H.
    + inversion H. lia.
    + apply i_vars_lt in H. lia.
  - intros a b a' b' h H H'.
    destruct (upd2_cases (vars s) t v (Some (nh s)) a b) as [(-> & -> & E)|(Hd & E)]; rewrite E in H;
    destruct (upd2_cases (vars s) t v (Some (nh s)) a' b') as [(-> & -> & E')|(Hd' & E')]; rewrite E' in H'.
    + now split.
    + inversion H; subst. apply i_vars_lt in H'. lia.
    + inversion H'; subst. apply i_vars_lt in H. lia.
    + eapply i_vars_inj; eauto.
  - intros h m H. apply i_hptr_lt in H. lia.
  - intros m h. rewrite (Hb h Hv). rewrite i_mring. split; [tauto|].
    intros [H [->|H']]; [congruence|tauto].
  - rewrite (sum_pend_ext s) by (intros; now apply pend_stable).
    rewrite (live_bytes_ext s); [assumption|]. intros; now split.
Qed.

(* bytesAllocated += sz at the end of device::malloc *)
Lemma inv_bytes_add s ths t th0 rest sz dst :
  Inv s ths -> nth_error ths t = Some th0 -> cur th0 = PMal3 sz dst ->
  Inv (set_bytes s (bytes s + sz)%Z) (upd_nth ths t (at_pc (PMalEnd dst) rest)).
Proof.
  intros HI Ht Hc. destruct HI. constructor; simpl_st; try assumption.
  - eapply local_upd; [eassumption|exact I|]. intros i p Hn Ha.
    apply (local_stable s); [intros; now repeat split|intros; now repeat split|intros; now split|now apply i_local].
  - intros m Ha Hr. apply (held_upd_eq hm _ _ _ _ Ht m); [now rewrite Hc|now apply i_mheld].
  - apply (disj_upd_eq hm _ _ _ _ Ht); [now rewrite Hc|assumption].
  - intros b Ha Hr. apply (held_upd_eq hb _ _ _ _ Ht b); [now rewrite Hc|now apply i_bheld].
  - apply (disj_upd_eq hb _ _ _ _ Ht); [now rewrite Hc|assumption].
  - rewrite (sum_pend_upd _ _ _ _ _ Ht).
    rewrite (sum_pend_ext s (set_bytes s (bytes s + sz)%Z)) by (intros; now apply pend_stable).
    rewrite Hc. cbn [pend cur at_pc].
    replace (live_bytes (set_bytes s (bytes s + sz)) (nb s)) with (live_bytes s (nb s)); [lia|].
    symmetry. apply live_bytes_ext. intros; now split.
Qed.

(* bytesAllocated -= size in ~modeBuffer_t *)
Lemma inv_bytes_sub s ths t th0 rest m b :
  Inv s ths -> nth_error ths t = Some th0 -> cur th0 = PBufBytes m b ->
  Inv (set_bytes s (bytes s - bsize s b)%Z) (upd_nth ths t (at_pc (PBufDev m b) rest)).
Proof.
  intros HI Ht Hc.
  pose proof (i_local _ _ HI t _ (at_thr_self _ _ _ Ht)) as Hl. rewrite Hc in Hl.
  destruct HI. constructor; simpl_st; try assumption.
  - eapply local_upd; [eassumption|exact Hl|]. intros i p Hn Ha.
    apply (local_stable s); [intros; now repeat split|intros; now repeat split|intros; now split|now apply i_local].
  - intros m0 Ha Hr. apply (held_upd_eq hm _ _ _ _ Ht m0); [now rewrite Hc|now apply i_mheld].
  - apply (disj_upd_eq hm _ _ _ _ Ht); [now rewrite Hc|assumption].
  - intros b0 Ha Hr. apply (held_upd_eq hb _ _ _ _ Ht b0); [now rewrite Hc|now apply i_bheld].
  - apply (disj_upd_eq hb _ _ _ _ Ht); [now rewrite Hc|assumption].
  - rewrite (sum_pend_upd _ _ _ _ _ Ht).
    rewrite (sum_pend_ext s (set_bytes s (bytes s - bsize s b)%Z)) by (intros; now apply pend_stable).
    rewrite Hc. cbn [pend cur at_pc]. simpl_st.
    replace (live_bytes (set_bytes s (bytes s - bsize s b)) (nb s)) with (live_bytes s (nb s)); [lia|].
    symmetry. apply live_bytes_ext. intros; now split.
Qed.
