(* C30 — invariant preservation, part 4: the destructors. *)
From Coq Require Import List Arith Bool ZArith Lia.
From OV.C30 Require Import Model Statements Lemmas Frame Step1 Step2.
Import ListNotations.

(* ~modeMemory_t up to and including modeBuffer->removeModeMemoryRef(this) with its test *)
Definition memrel_state (s : st) (m b : nat) : st :=
  let s := flag s (negb (malive s m) || (0 <? mdes s m)) in
  let s := set_mdes s (upd (mdes s) m (S (mdes s m))) in
  let s := set_hptr s (fold_left (fun f h => upd f h None) (mring s m) (hptr s)) in
  let s := set_mring s (upd (mring s) m []) in
  let s := flag s (negb (balive s b)) in
  set_bring s (upd (bring s) b (ring_rem m (bring s b))).

Lemma inv_memrel s ths t th0 rest m b :
  Inv s ths -> nth_error ths t = Some th0 -> cur th0 = PMemRel m -> mbuf s m = Some b ->
  Inv (memrel_state s m b)
      (upd_nth ths t (at_pc (PBuf1 m b (Some (is_nil (ring_rem m (bring s b))))) rest)).
Proof.
  intros HI Ht Hc Hmb.
  pose proof (i_local _ _ HI t _ (at_thr_self _ _ _ Ht)) as Hl. rewrite Hc in Hl. destruct Hl as (Hal & Hmr & Hd0).
  assert (Hin : In m (bring s b)). { apply (i_bring _ _ HI). now repeat split. }
  assert (Hne : bring s b <> []). { intros E. rewrite E in Hin. destruct Hin. }
  destruct (i_bref _ _ HI b Hne) as [Hbal Hbd0].
  assert (Hnh : ~ Held hb ths b). { intros H. apply (held_alive_b _ _ _ HI) in H as [_ H]. contradiction. }
  assert (Hob : forall i p b', at_thr ths i p -> hb p = Some b' -> b' <> b).
  { intros i p b' Ha E ->. apply Hnh. exists i, p. now split. }
  assert (Hom : forall i p m', i <> t -> at_thr ths i p -> hm p = Some m' -> m' <> m).
  { intros i p m' Hn Ha E ->. apply Hn. eapply (i_mdisj _ _ HI); eauto using at_thr_self. now rewrite Hc. }
  set (r := is_nil (ring_rem m (bring s b))).
  assert (Hcnt : (bytes s + sum_pend (memrel_state s m b) (upd_nth ths t (at_pc (PBuf1 m b (Some r)) rest)) =
                  live_bytes (memrel_state s m b) (nb s))%Z).
  { rewrite (sum_pend_upd _ _ _ _ _ Ht). rewrite Hc. cbn [pend cur at_pc].
    rewrite (sum_pend_ext s) by (intros; now apply pend_stable).
    rewrite (live_bytes_ext s); [pose proof (i_bytes _ _ HI); lia|]. intros; now split. }
  assert (Hnd : NoDup (bring s b)) by apply (i_bring_nd _ _ HI).
  assert (Emr : forall m0, upd (mring s) m [] m0 = mring s m0).
  { intros m0. destruct (Nat.eq_dec m0 m) as [->|Hn]; [now rewrite upd_same|now apply upd_other]. }
  pose proof HI as HI0. destruct HI. unfold memrel_state in *. simpl_st. rewrite Hmr in *. cbn [fold_left] in *.
  constructor; simpl_st; try assumption.
  - rewrite Hal, Hd0, Hbal. cbn. now rewrite i_ub.
  - eapply local_upd; [eassumption| |].
    + match goal with |- local ?s' _ _ => assert (Hm1 : mheld s' m 1) end.
      { unfold mheld. simpl_st. rewrite !upd_same. rewrite Hd0. now repeat split. }
      cbn [cur at_pc local].
      destruct r eqn:Er; [split; [exact Hm1|]|exact Hm1].
      unfold bheld. simpl_st. rewrite upd_same. repeat split; [assumption|now apply is_nil_true|assumption].
    + intros i p Hn Ha. apply (local_stable s); [| |intros; now split|now apply i_local].
      * intros m' E. simpl_st. rewrite Emr. rewrite upd_other by (eapply Hom; eassumption). now repeat split.
      * intros b' E. simpl_st. rewrite upd_other by (eapply Hob; eassumption). now repeat split.
  - intros m0 h. rewrite Emr. apply i_mring.
  - intros m0. rewrite Emr. apply i_mring_nd.
  - intros m0. rewrite Emr. intros H. destruct (i_mref m0 H) as [A B]. split; [assumption|].
    rewrite upd_other; [assumption|]. intros ->. contradiction.
  - intros m0 Ha. rewrite Emr. intros Hr. apply (held_upd_eq hm _ _ _ _ Ht m0); [now rewrite Hc|now apply i_mheld].
  - apply (disj_upd_eq hm _ _ _ _ Ht); [now rewrite Hc|assumption].
  - intros m0 Hlt Hdd. rewrite upd_other; [now apply i_mdead|]. intros ->. congruence.
  - intros m0 Hge. rewrite upd_other; [now apply i_mfresh|]. intros ->. apply i_malive_lt in Hal. lia.
  - intros b0 m0.
    destruct (Nat.eq_dec b0 b) as [->|Hnb]; [rewrite upd_same|rewrite (upd_other (bring s)) by assumption];
    (destruct (Nat.eq_dec m0 m) as [->|Hnm]; [rewrite upd_same|rewrite upd_other by assumption]).
    + rewrite ring_rem_In by assumption. split; [intros [_ H]; now destruct H|intros (_ & _ & H); discriminate].
    + rewrite ring_rem_In by assumption. rewrite i_bring. tauto.
    + rewrite i_bring. split; [intros (_ & H & _); congruence|intros (_ & _ & H); discriminate].
    + apply i_bring.
  - intros b0. destruct (Nat.eq_dec b0 b) as [->|Hnb]; [rewrite upd_same|rewrite upd_other by assumption; apply i_bring_nd].
    now apply ring_rem_NoDup.
  - intros b0. destruct (Nat.eq_dec b0 b) as [->|Hnb]; [rewrite upd_same|rewrite upd_other by assumption; apply i_bref].
    intros _. now split.
  - intros b0 Ha. destruct (Nat.eq_dec b0 b) as [->|Hnb]; [rewrite upd_same|rewrite upd_other by assumption]; intros Hr.
    + assert (Er : r = true) by (now apply is_nil_true). rewrite Er.
      apply (held_upd_gain hb _ _ _ _ Ht b b); [now rewrite Hc|reflexivity|now left].
    + pose proof (i_bheld b0 Ha Hr) as Hh0. destruct r.
      * apply (held_upd_gain hb _ _ _ _ Ht b0 b); [now rewrite Hc|reflexivity|now right].
      * apply (held_upd_eq hb _ _ _ _ Ht b0); [now rewrite Hc|assumption].
  - destruct r.
    + apply (disj_upd_new hb _ _ _ _ Ht b); [reflexivity|assumption|assumption].
    + apply (disj_upd_eq hb _ _ _ _ Ht); [now rewrite Hc|assumption].
Qed.

(* the same when modeBuffer == NULL (not reachable in the fixed code, harmless) *)
Definition memrel0_state (s : st) (m : nat) : st :=
  let s := flag s (negb (malive s m) || (0 <? mdes s m)) in
  let s := set_mdes s (upd (mdes s) m (S (mdes s m))) in
  let s := set_hptr s (fold_left (fun f h => upd f h None) (mring s m) (hptr s)) in
  set_mring s (upd (mring s) m []).

Lemma inv_memrel0 s ths t th0 rest m :
  Inv s ths -> nth_error ths t = Some th0 -> cur th0 = PMemRel m -> mbuf s m = None ->
  Inv (memrel0_state s m) (upd_nth ths t (at_pc (PMemEnd m) rest)).
Proof.
  intros HI Ht Hc Hmb.
  pose proof (i_local _ _ HI t _ (at_thr_self _ _ _ Ht)) as Hl. rewrite Hc in Hl. destruct Hl as (Hal & Hmr & Hd0).
  assert (Hom : forall i p m', i <> t -> at_thr ths i p -> hm p = Some m' -> m' <> m).
  { intros i p m' Hn Ha E ->. apply Hn. eapply (i_mdisj _ _ HI); eauto using at_thr_self. now rewrite Hc. }
  assert (Hcnt : (bytes s + sum_pend (memrel0_state s m) (upd_nth ths t (at_pc (PMemEnd m) rest)) =
                  live_bytes (memrel0_state s m) (nb s))%Z).
  { rewrite (sum_pend_upd _ _ _ _ _ Ht). rewrite Hc. cbn [pend cur at_pc].
    rewrite (sum_pend_ext s) by (intros; now apply pend_stable).
    rewrite (live_bytes_ext s); [pose proof (i_bytes _ _ HI); lia|]. intros; now split. }
  assert (Emr : forall m0, upd (mring s) m [] m0 = mring s m0).
  { intros m0. destruct (Nat.eq_dec m0 m) as [->|Hn]; [now rewrite upd_same|now apply upd_other]. }
  pose proof HI as HI0. destruct HI. unfold memrel0_state in *. simpl_st. rewrite Hmr in *. cbn [fold_left] in *.
  constructor; simpl_st; try assumption.
  - rewrite Hal, Hd0. cbn. now rewrite orb_false_r.
  - eapply local_upd; [eassumption| |].
    + cbn [cur at_pc local]. unfold mheld. simpl_st. rewrite !upd_same. rewrite Hd0. now repeat split.
    + intros i p Hn Ha. apply (local_stable s); [|intros; now repeat split|intros; now split|now apply i_local].
      intros m' E. simpl_st. rewrite Emr. rewrite upd_other by (eapply Hom; eassumption). now repeat split.
  - intros m0 h. rewrite Emr. apply i_mring.
  - intros m0. rewrite Emr. apply i_mring_nd.
  - intros m0. rewrite Emr. intros H. destruct (i_mref m0 H) as [A B]. split; [assumption|].
    rewrite upd_other; [assumption|]. intros ->. contradiction.
  - intros m0 Ha. rewrite Emr. intros Hr. apply (held_upd_eq hm _ _ _ _ Ht m0); [now rewrite Hc|now apply i_mheld].
  - apply (disj_upd_eq hm _ _ _ _ Ht); [now rewrite Hc|assumption].
  - intros m0 Hlt Hdd. rewrite upd_other; [now apply i_mdead|]. intros ->. congruence.
  - intros m0 Hge. rewrite upd_other; [now apply i_mfresh|]. intros ->. apply i_malive_lt in Hal. lia.
  - intros b0 m0. destruct (Nat.eq_dec m0 m) as [->|Hnm]; [rewrite upd_same|rewrite upd_other by assumption; apply i_bring].
    rewrite i_bring. split; [intros (_ & H & _); congruence|intros (_ & _ & H); discriminate].
  - intros b Ha Hr. apply (held_upd_eq hb _ _ _ _ Ht b); [now rewrite Hc|now apply i_bheld].
  - apply (disj_upd_eq hb _ _ _ _ Ht); [now rewrite Hc|assumption].
Qed.

(* delete modeBuffer decided: ~modeBuffer_t entered *)
Definition bufdtor_state (s : st) (b : nat) : st :=
  let s := flag s (negb (balive s b) || (0 <? bdes s b) || negb (is_nil (bring s b))) in
  set_bdes s (upd (bdes s) b (S (bdes s b))).

Lemma inv_bufdtor s ths t th0 rest m b :
  Inv s ths -> nth_error ths t = Some th0 -> cur th0 = PBuf1 m b (Some true) ->
  Inv (bufdtor_state s b) (upd_nth ths t (at_pc (PBufBytes m b) rest)).
Proof.
  intros HI Ht Hc.
  pose proof (i_local _ _ HI t _ (at_thr_self _ _ _ Ht)) as Hl. rewrite Hc in Hl.
  destruct Hl as ((Hal & Hmr & Hd1) & (Hbal & Hbr & Hbd0)).
  assert (Hob : forall i p b', i <> t -> at_thr ths i p -> hb p = Some b' -> b' <> b).
  { intros i p b' Hn Ha E ->. apply Hn. eapply (i_bdisj _ _ HI); eauto using at_thr_self. now rewrite Hc. }
  assert (Hcnt : (bytes s + sum_pend (bufdtor_state s b) (upd_nth ths t (at_pc (PBufBytes m b) rest)) =
                  live_bytes (bufdtor_state s b) (nb s))%Z).
  { rewrite (sum_pend_upd _ _ _ _ _ Ht). rewrite Hc. cbn [pend cur at_pc].
    rewrite (sum_pend_ext s) by (intros; now apply pend_stable).
    rewrite (live_bytes_ext s); [pose proof (i_bytes _ _ HI); lia|]. intros; now split. }
  pose proof HI as HI0. destruct HI. unfold bufdtor_state in *. constructor; simpl_st; try assumption.
  - rewrite Hbal, Hbd0, Hbr. cbn. now rewrite orb_false_r.
  - eapply local_upd; [eassumption| |].
    + cbn [cur at_pc local]. split; [now repeat split|]. unfold bheld. simpl_st. rewrite upd_same, Hbd0. now repeat split.
    + intros i p Hn Ha. apply (local_stable s); [intros; now repeat split| |intros; now split|now apply i_local].
      intros b' E. simpl_st. rewrite upd_other by (eapply Hob; eassumption). now repeat split.
  - intros m0 Ha Hr. apply (held_upd_eq hm _ _ _ _ Ht m0); [now rewrite Hc|now apply i_mheld].
  - apply (disj_upd_eq hm _ _ _ _ Ht); [now rewrite Hc|assumption].
  - intros b0 H. destruct (i_bref b0 H) as [A B]. split; [assumption|].
    rewrite upd_other; [assumption|]. intros ->. contradiction.
  - intros b0 Ha Hr. apply (held_upd_eq hb _ _ _ _ Ht b0); [now rewrite Hc|now apply i_bheld].
  - apply (disj_upd_eq hb _ _ _ _ Ht); [now rewrite Hc|assumption].
  - intros b0 Hlt Hdd. rewrite upd_other; [now apply i_bdead|]. intros ->. congruence.
  - intros b0 Hge. rewrite upd_other; [now apply i_bfresh|]. intros ->. apply i_balive_lt in Hbal. lia.
Qed.

(* end of ~modeBuffer_t: modeDevice->removeMemoryRef(this); deallocation *)
Definition bufkill_state (s : st) (b : nat) : st :=
  let s := flag s (negb (balive s b)) in
  let s := set_dring s (ring_rem b (dring s)) in
  set_balive s (upd (balive s) b false).

Lemma inv_bufkill s ths t th0 rest m b :
  Inv s ths -> nth_error ths t = Some th0 -> cur th0 = PBufDev m b ->
  Inv (bufkill_state s b) (upd_nth ths t (at_pc (PMemEnd m) rest)).
Proof.
  intros HI Ht Hc.
  pose proof (i_local _ _ HI t _ (at_thr_self _ _ _ Ht)) as Hl. rewrite Hc in Hl.
  destruct Hl as ((Hal & Hmr & Hd1) & (Hbal & Hbr & Hbd1)).
  assert (Hob : forall i p b', i <> t -> at_thr ths i p -> hb p = Some b' -> b' <> b).
  { intros i p b' Hn Ha E ->. apply Hn. eapply (i_bdisj _ _ HI); eauto using at_thr_self. now rewrite Hc. }
  assert (Hblt : b < nb s) by now apply (i_balive_lt _ _ HI).
  assert (Hcnt : (bytes s + sum_pend (bufkill_state s b) (upd_nth ths t (at_pc (PMemEnd m) rest)) =
                  live_bytes (bufkill_state s b) (nb s))%Z).
  { rewrite (sum_pend_upd _ _ _ _ _ Ht). rewrite Hc. cbn [pend cur at_pc].
    rewrite (sum_pend_ext s) by (intros; now apply pend_stable).
    rewrite (live_bytes_kill s _ (nb s) b); unfold bufkill_state; simpl_st;
      [pose proof (i_bytes _ _ HI); lia|assumption|assumption|apply upd_same|intros; now apply upd_other|reflexivity]. }
  pose proof HI as HI0. destruct HI. unfold bufkill_state in *. constructor; simpl_st; try assumption.
  - rewrite Hbal. cbn. now rewrite orb_false_r.
  - eapply local_upd; [eassumption| |].
    + cbn [cur at_pc local]. now repeat split.
    + intros i p Hn Ha. apply (local_stable s); [intros; now repeat split| |intros; now split|now apply i_local].
      intros b' E. simpl_st. rewrite upd_other by (eapply Hob; eassumption). now repeat split.
  - intros m0 Ha Hr. apply (held_upd_eq hm _ _ _ _ Ht m0); [now rewrite Hc|now apply i_mheld].
  - apply (disj_upd_eq hm _ _ _ _ Ht); [now rewrite Hc|assumption].
  - intros b0 H. destruct (upd_cases (balive s) b false b0) as [[-> E]|[Hn E]]; rewrite E in H; [discriminate|now apply i_balive_lt].
  - intros b0 H. destruct (i_bref b0 H) as [A B]. split; [|assumption].
    rewrite upd_other; [assumption|]. intros ->. contradiction.
  - intros b0 Ha Hr. destruct (upd_cases (balive s) b false b0) as [[-> E]|[Hn E]]; rewrite E in Ha; [discriminate|].
    apply (held_upd_lose hb _ _ _ _ Ht b0 b); [assumption|now rewrite Hc|reflexivity|]. split; [assumption|now apply i_bheld].
  - apply (disj_upd_none hb _ _ _ _ Ht); [reflexivity|assumption].
  - intros b0 Hlt Hdd. destruct (upd_cases (balive s) b false b0) as [[-> E]|[Hn E]]; [assumption|].
    rewrite E in Hdd. now apply i_bdead.
  - intros b0. rewrite ring_rem_In by assumption. rewrite i_dring.
    destruct (upd_cases (balive s) b false b0) as [[-> E]|[Hn E]]; rewrite E; [split; [intros [_ H]; now destruct H|discriminate]|tauto].
  - now apply ring_rem_NoDup.
Qed.

(* end of ~modeMemory_t: modeBuffer = NULL; deallocation *)
Definition memkill_state (s : st) (m : nat) : st :=
  set_malive (set_mbuf s (upd (mbuf s) m None)) (upd (malive s) m false).

Lemma inv_memkill s ths t th0 rest m :
  Inv s ths -> nth_error ths t = Some th0 -> cur th0 = PMemEnd m ->
  Inv (memkill_state s m) (upd_nth ths t (at_pc PIdle rest)).
Proof.
  intros HI Ht Hc.
  pose proof (i_local _ _ HI t _ (at_thr_self _ _ _ Ht)) as Hl. rewrite Hc in Hl. destruct Hl as (Hal & Hmr & Hd1).
  assert (Hom : forall i p m', i <> t -> at_thr ths i p -> hm p = Some m' -> m' <> m).
  { intros i p m' Hn Ha E ->. apply Hn. eapply (i_mdisj _ _ HI); eauto using at_thr_self. now rewrite Hc. }
  assert (Hcnt : (bytes s + sum_pend (memkill_state s m) (upd_nth ths t (at_pc PIdle rest)) =
                  live_bytes (memkill_state s m) (nb s))%Z).
  { rewrite (sum_pend_upd _ _ _ _ _ Ht). rewrite Hc. cbn [pend cur at_pc].
    rewrite (sum_pend_ext s) by (intros; now apply pend_stable).
    rewrite (live_bytes_ext s); [pose proof (i_bytes _ _ HI); lia|]. intros; now split. }
  pose proof HI as HI0. destruct HI. unfold memkill_state in *. constructor; simpl_st; try assumption.
  - eapply local_upd; [eassumption|exact I|].
    intros i p Hn Ha. apply (local_stable s); [|intros; now repeat split|intros; now split|now apply i_local].
    intros m' E. simpl_st. rewrite upd_other by (eapply Hom; eassumption). now repeat split.
  - intros m0 H. destruct (upd_cases (malive s) m false m0) as [[-> E]|[Hn E]]; rewrite E in H; [discriminate|now apply i_malive_lt].
  - intros m0 H. destruct (i_mref m0 H) as [A B]. split; [|assumption].
    rewrite upd_other; [assumption|]. intros ->. contradiction.
  - intros m0 Ha Hr. destruct (upd_cases (malive s) m false m0) as [[-> E]|[Hn E]]; rewrite E in Ha; [discriminate|].
    apply (held_upd_lose hm _ _ _ _ Ht m0 m); [assumption|now rewrite Hc|reflexivity|]. split; [assumption|now apply i_mheld].
  - apply (disj_upd_none hm _ _ _ _ Ht); [reflexivity|assumption].
  - intros m0 Hlt Hdd. destruct (upd_cases (malive s) m false m0) as [[-> E]|[Hn E]]; [assumption|].
    rewrite E in Hdd. now apply i_mdead.
  - intros m0 b0 H. destruct (upd_cases (mbuf s) m None m0) as [[-> E]|[Hn E]]; rewrite E in H; [discriminate|].
    eapply i_mbuf_lt; eassumption.
  - intros m0 Ha. destruct (Nat.eq_dec m0 m) as [->|Hn]; [rewrite upd_same in Ha; discriminate|].
    rewrite upd_other in Ha by assumption. rewrite upd_other by assumption. now apply i_mbuf_some.
  - intros b0 m0. destruct (Nat.eq_dec m0 m) as [->|Hnm]; [rewrite !upd_same|rewrite !upd_other by assumption; apply i_bring].
    rewrite i_bring. split; [intros (_ & _ & H); congruence|intros (H & _); discriminate].
  - intros b Ha Hr. apply (held_upd_eq hb _ _ _ _ Ht b); [now rewrite Hc|now apply i_bheld].
  - apply (disj_upd_eq hb _ _ _ _ Ht); [now rewrite Hc|assumption].
Qed.
