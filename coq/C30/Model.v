(* C30 — with sharable devices (OCCA_THREAD_SHARABLE_ENABLED), concurrent handle use.

   Executable interleaving model of the reference-counting protocol that the sharable build
   runs when several threads copy, hand over, slice and destroy occa::memory handles and
   allocate memory on one device.  Transcribed from (line numbers of /repo at 13fa146):

     src/occa/internal/utils/gc.tpp 25-52    ring_t::addRef     : mutex.lock(); link; mutex.unlock()
     src/occa/internal/utils/gc.tpp 54-76    ring_t::removeRef  : lock; unlink; fix head; unlock
     src/occa/internal/utils/gc.tpp 95-99    ring_t::needsFree  : useRefs && head == NULL  (no lock)
     src/occa/internal/utils/gc.tpp 138-163  multiRing_t::removeRef (lock; ring.removeRef(entry,false);
                                              erase / re-key; unlock)
     src/core/memory.cpp 17-29, 36-55        copy ctor, dtor, setModeMemory, removeMemoryRef
                                              (removeMemoryRef(this); if (needsFree()) delete)
     src/core/memory.cpp 169-193             memory::slice
     src/occa/internal/core/memory.cpp 10-37, 54-63   modeMemory_t ctor / dtor / removeModeMemoryRef
                                              (modeBuffer->removeModeMemoryRef(this); if (needsFree()) delete)
     src/occa/internal/core/buffer.cpp 10-48  modeBuffer_t ctor / dtor (bytesAllocated -= size;
                                              modeDevice->removeMemoryRef(this))
     src/core/device.cpp 455-481              device::malloc (bytesAllocated += bytes)
     src/occa/internal/modes/serial/device.cpp 448-468  serial malloc (new buffer; new memory)

   Granularity.  A critical section `mutex.lock(); ...; mutex.unlock()` of ring_t is ONE step
   (the ring is then a list: what ring_t::addRef / removeRef do to a well-formed pointer ring is
   proved in coq/C01/Heap.v and restated in Refine.v).  Everything that the code does outside
   such a section is a separate step: the needsFree() read, the destructor bodies, the read and
   the write of `bytesAllocated +=`.  A thread-local computation is merged with the shared step
   that follows it.  The [variant] selects the code before / after fixes/C30-1..3.

   Objects.  Handles (occa::memory wrappers), modeMemory_t objects and modeBuffer_t objects are
   numbered from three separate supplies ([nh], [nm], [nb]); numbers are never reused.  The
   device is one and stays alive.  [ub] records that a destroyed object was read, written or
   destroyed again; the run continues with the stale fields, as the real process does.
   No proofs in this file. *)
From Coq Require Import List Arith Bool ZArith.
From OV.C01 Require Heap.
Import ListNotations.

(* ---------------------------------------------------------------- variants of the code *)
Record variant := {
  v_test  : bool;   (* removeRef returns needsFree() evaluated under the ring's lock (fixes/C30-1);
                       false: needsFree() is read after the lock was released *)
  v_bytes : bool;   (* bytesAllocated is updated under a lock (fixes/C30-2); false: plain += / -= *)
  v_multi : bool }. (* ring_t::removeRef(entry, false) leaves the lock to its caller (fixes/C30-3);
                       false: it unlocks although it did not lock *)
Definition fixed  := {| v_test := true;  v_bytes := true;  v_multi := true |}.
Definition pinned := {| v_test := false; v_bytes := false; v_multi := false |}.

(* ---------------------------------------------------------------- shared state *)
Record st := {
  nh : nat; nm : nat; nb : nat;       (* next fresh handle / modeMemory_t / modeBuffer_t *)
  vars   : nat -> nat -> option nat;  (* thread -> handle variable -> wrapper object *)
  hptr   : nat -> option nat;         (* memory::modeMemory *)
  mring  : nat -> list nat;           (* modeMemory_t::memoryRing (wrappers), head first *)
  mbuf   : nat -> option nat;         (* modeMemory_t::modeBuffer *)
  malive : nat -> bool;               (* constructed and not yet deallocated *)
  mdes   : nat -> nat;                (* runs of ~modeMemory_t on this object *)
  bring  : nat -> list nat;           (* modeBuffer_t::modeMemoryRing (slices), head first *)
  bsize  : nat -> Z;                  (* modeBuffer_t::size *)
  balive : nat -> bool;
  bdes   : nat -> nat;                (* runs of ~modeBuffer_t on this object *)
  dring  : list nat;                  (* modeDevice_t::memoryRing (buffers) *)
  bytes  : Z;                         (* modeDevice_t::bytesAllocated *)
  ub     : bool }.

Definition upd {A} (f : nat -> A) (k : nat) (v : A) : nat -> A :=
  fun x => if Nat.eqb x k then v else f x.
Definition upd2 {A} (f : nat -> nat -> A) (t k : nat) (v : A) : nat -> nat -> A :=
  fun a b => if Nat.eqb a t && Nat.eqb b k then v else f a b.

Definition init : st :=
  {| nh := 0; nm := 0; nb := 0; vars := fun _ _ => None; hptr := fun _ => None;
     mring := fun _ => []; mbuf := fun _ => None; malive := fun _ => false; mdes := fun _ => 0;
     bring := fun _ => []; bsize := fun _ => 0%Z; balive := fun _ => false; bdes := fun _ => 0;
     dring := []; bytes := 0%Z; ub := false |}.

Definition set_nh (s : st) v : st := {| nh := v; nm := nm s; nb := nb s; vars := vars s; hptr := hptr s; mring := mring s; mbuf := mbuf s; malive := malive s; mdes := mdes s; bring := bring s; bsize := bsize s; balive := balive s; bdes := bdes s; dring := dring s; bytes := bytes s; ub := ub s |}.
Definition set_nm (s : st) v : st := {| nh := nh s; nm := v; nb := nb s; vars := vars s; hptr := hptr s; mring := mring s; mbuf := mbuf s; malive := malive s; mdes := mdes s; bring := bring s; bsize := bsize s; balive := balive s; bdes := bdes s; dring := dring s; bytes := bytes s; ub := ub s |}.
Definition set_nb (s : st) v : st := {| nh := nh s; nm := nm s; nb := v; vars := vars s; hptr := hptr s; mring := mring s; mbuf := mbuf s; malive := malive s; mdes := mdes s; bring := bring s; bsize := bsize s; balive := balive s; bdes := bdes s; dring := dring s; bytes := bytes s; ub := ub s |}.
Definition set_vars (s : st) v : st := {| nh := nh s; nm := nm s; nb := nb s; vars := v; hptr := hptr s; mring := mring s; mbuf := mbuf s; malive := malive s; mdes := mdes s; bring := bring s; bsize := bsize s; balive := balive s; bdes := bdes s; dring := dring s; bytes := bytes s; ub := ub s |}.
Definition set_hptr (s : st) v : st := {| nh := nh s; nm := nm s; nb := nb s; vars := vars s; hptr := v; mring := mring s; mbuf := mbuf s; malive := malive s; mdes := mdes s; bring := bring s; bsize := bsize s; balive := balive s; bdes := bdes s; dring := dring s; bytes := bytes s; ub := ub s |}.
Definition set_mring (s : st) v : st := {| nh := nh s; nm := nm s; nb := nb s; vars := vars s; hptr := hptr s; mring := v; mbuf := mbuf s; malive := malive s; mdes := mdes s; bring := bring s; bsize := bsize s; balive := balive s; bdes := bdes s; dring := dring s; bytes := bytes s; ub := ub s |}.
Definition set_mbuf (s : st) v : st := {| nh := nh s; nm := nm s; nb := nb s; vars := vars s; hptr := hptr s; mring := mring s; mbuf := v; malive := malive s; mdes := mdes s; bring := bring s; bsize := bsize s; balive := balive s; bdes := bdes s; dring := dring s; bytes := bytes s; ub := ub s |}.
Definition set_malive (s : st) v : st := {| nh := nh s; nm := nm s; nb := nb s; vars := vars s; hptr := hptr s; mring := mring s; mbuf := mbuf s; malive := v; mdes := mdes s; bring := bring s; bsize := bsize s; balive := balive s; bdes := bdes s; dring := dring s; bytes := bytes s; ub := ub s |}.
Definition set_mdes (s : st) v : st := {| nh := nh s; nm := nm s; nb := nb s; vars := vars s; hptr := hptr s; mring := mring s; mbuf := mbuf s; malive := malive s; mdes := v; bring := bring s; bsize := bsize s; balive := balive s; bdes := bdes s; dring := dring s; bytes := bytes s; ub := ub s |}.
Definition set_bring (s : st) v : st := {| nh := nh s; nm := nm s; nb := nb s; vars := vars s; hptr := hptr s; mring := mring s; mbuf := mbuf s; malive := malive s; mdes := mdes s; bring := v; bsize := bsize s; balive := balive s; bdes := bdes s; dring := dring s; bytes := bytes s; ub := ub s |}.
Definition set_bsize (s : st) v : st := {| nh := nh s; nm := nm s; nb := nb s; vars := vars s; hptr := hptr s; mring := mring s; mbuf := mbuf s; malive := malive s; mdes := mdes s; bring := bring s; bsize := v; balive := balive s; bdes := bdes s; dring := dring s; bytes := bytes s; ub := ub s |}.
Definition set_balive (s : st) v : st := {| nh := nh s; nm := nm s; nb := nb s; vars := vars s; hptr := hptr s; mring := mring s; mbuf := mbuf s; malive := malive s; mdes := mdes s; bring := bring s; bsize := bsize s; balive := v; bdes := bdes s; dring := dring s; bytes := bytes s; ub := ub s |}.
Definition set_bdes (s : st) v : st := {| nh := nh s; nm := nm s; nb := nb s; vars := vars s; hptr := hptr s; mring := mring s; mbuf := mbuf s; malive := malive s; mdes := mdes s; bring := bring s; bsize := bsize s; balive := balive s; bdes := v; dring := dring s; bytes := bytes s; ub := ub s |}.
Definition set_dring (s : st) v : st := {| nh := nh s; nm := nm s; nb := nb s; vars := vars s; hptr := hptr s; mring := mring s; mbuf := mbuf s; malive := malive s; mdes := mdes s; bring := bring s; bsize := bsize s; balive := balive s; bdes := bdes s; dring := v; bytes := bytes s; ub := ub s |}.
Definition set_bytes (s : st) v : st := {| nh := nh s; nm := nm s; nb := nb s; vars := vars s; hptr := hptr s; mring := mring s; mbuf := mbuf s; malive := malive s; mdes := mdes s; bring := bring s; bsize := bsize s; balive := balive s; bdes := bdes s; dring := dring s; bytes := v; ub := ub s |}.
Definition set_ub (s : st) v : st := {| nh := nh s; nm := nm s; nb := nb s; vars := vars s; hptr := hptr s; mring := mring s; mbuf := mbuf s; malive := malive s; mdes := mdes s; bring := bring s; bsize := bsize s; balive := balive s; bdes := bdes s; dring := dring s; bytes := bytes s; ub := v |}.

(* ---------------------------------------------------------------- the rings as lists *)
(* ring_t::addRef of an entry that is in no ring: appended before the head = at the end *)
Definition ring_add (l : list nat) (e : nat) : list nat := l ++ [e].
(* ring_t::removeRef: the entry leaves; if it was the head the old tail becomes the head *)
Definition ring_rem (e : nat) (l : list nat) : list nat := Heap.ring_remove e l.
(* ring_t::needsFree with useRefs = true: head == NULL *)
Definition is_nil (l : list nat) : bool := match l with [] => true | _ => false end.

Definition flag (s : st) (b : bool) : st := set_ub s (ub s || b).

(* ---------------------------------------------------------------- programs *)
(* variable v of a thread lives in slot 2v of its table; slot 2v+1 is the local `mem` of the
   device::malloc call that fills v (its `return mem;` copies the wrapper and destroys the local:
   GCC does not elide that copy because the function also has `return memory();`).  Which of the
   two wrappers survives is immaterial: the model keeps the one bound to the variable and lets the
   copy be the temporary; the ring sees the same addRef, removeRef, test in the same order. *)
Definition uv (v : nat) : nat := 2 * v.
Definition tv (v : nat) : nat := S (2 * v).

Inductive op :=
| OMalloc (dst : nat) (size : Z)      (* dst = device.malloc(size)               (dst unbound) *)
| OCopy (src dst : nat)               (* dst = new memory(src)                   (dst unbound) *)
| OSend (src t' dst : nat)            (* thread t' receives a copy of src in its variable dst *)
| OSlice (src dst : nat)              (* dst = src.slice(0)                      (dst unbound) *)
| ODrop (v : nat).                    (* delete v  (~memory)                     *)

(* where a thread stands inside a library call; the comments name the schedule point of hook
   hooks/C30-1.patch at which the real thread is parked when the model thread is at that pc *)
Inductive pc :=
| PIdle                                   (* between two operations (driver's own schedule point) *)
| PMal1 (h b : nat) (sz : Z) (dst : nat)   (* buffer constructed, in the device ring *)
| PMal2 (h b m : nat) (sz : Z) (dst : nat) (* modeMemory_t constructed, in the buffer ring *)
| PMal3 (sz : Z) (dst : nat)              (* wrapper registered; ptBeforeBytes; sz = the local `bytes` *)
| PMalWr (sz : Z) (v : Z) (dst : nat)     (* unfixed: bytesAllocated read (= v), not yet written *)
| PMalEnd (dst : nat)                     (* ptAfterBytes; next: `return mem` copies the wrapper *)
| PMalRet (dst : nat)                     (* the copy is registered; next: ~memory of the local `mem` *)
| PSl1 (h m : nat)                        (* slice: modeMemory_t constructed, in the buffer ring *)
| PDrop1 (m : nat) (r : option bool)      (* wrapper out of the ring; ptAfterRemoveRef;
                                             r = the test made under the lock (fixed code) *)
| PMemRel (m : nat)                       (* delete modeMemory decided *)
| PBuf1 (m b : nat) (r : option bool)     (* m out of the buffer ring; ptAfterRemoveModeMemoryRef *)
| PBufBytes (m b : nat)                   (* ~modeBuffer_t entered; ptBeforeBytes *)
| PBufWr (m b : nat) (v : Z)              (* unfixed: bytesAllocated read, not yet written *)
| PBufDev (m b : nat)                     (* ptAfterBytes *)
| PMemEnd (m : nat).                      (* back in ~modeMemory_t after removeModeMemoryRef *)

Record thread := { prog : list op; cur : pc }.

Definition at_pc (p : pc) (rest : list op) : thread := {| prog := rest; cur := p |}.

Section WithVariant.
Variable V : variant.

(* memory(const memory&) / setModeMemory: modeMemory = m; m->addMemoryRef(this) *)
Definition register (s : st) (h m : nat) : st :=
  let s := flag s (negb (malive s m)) in
  set_mring (set_hptr s (upd (hptr s) h (Some m))) (upd (mring s) m (ring_add (mring s m) h)).

(* a new wrapper object bound to variable (t, v), not yet pointing anywhere *)
Definition new_handle (s : st) (t v : nat) : nat * st :=
  let h := nh s in
  (h, set_vars (set_nh s (S h)) (upd2 (vars s) t v (Some h))).

(* modeMemory_t(modeBuffer, ...): modeBuffer->addModeMemoryRef(this) *)
Definition new_memory (s : st) (b : nat) : nat * st :=
  let m := nm s in
  let s := flag s (negb (balive s b)) in
  (m, set_bring (set_mbuf (set_malive (set_nm s (S m)) (upd (malive s) m true))
                          (upd (mbuf s) m (Some b)))
                (upd (bring s) b (ring_add (bring s b) m))).

(* copy constructor into the free slot (t', d) of a wrapper that sits in slot (t, a) *)
Definition do_copy (t : nat) (s : st) (a t' d : nat) : st :=
  match vars s t a, vars s t' d with
  | Some hs, None =>
      match hptr s hs with
      | Some m => let '(h, s) := new_handle s t' d in register s h m
      | None => s
      end
  | _, _ => s
  end.

(* ~memory of the wrapper in slot (t, a): the slot is free again; removeMemoryRef *)
Definition do_drop (t : nat) (s : st) (a : nat) (rest : list op) : st * thread :=
  match vars s t a with
  | None => (s, at_pc PIdle rest)
  | Some h =>
      let s := set_vars s (upd2 (vars s) t a None) in
      match hptr s h with
      | None => (s, at_pc PIdle rest)            (* removeMemoryRef: if (!modeMemory) return *)
      | Some m =>
          (* modeMemory->removeMemoryRef(this): lock; unlink; unlock *)
          let s := flag s (negb (malive s m)) in
          let l := ring_rem h (mring s m) in
          let s := set_mring s (upd (mring s) m l) in
          (s, at_pc (PDrop1 m (if v_test V then Some (is_nil l) else None)) rest)
      end
  end.

(* the operation at the head of the program starts: its first shared step *)
Definition start_op (t : nat) (s : st) (o : op) (rest : list op) : st * thread :=
  let skip := (s, at_pc PIdle rest) in
  match o with
  | OMalloc dst size =>
      match vars s t (uv dst), vars s t (tv dst) with
      | None, None =>
          if (size <=? 0)%Z then skip else
          let '(h, s) := new_handle s t (uv dst) in
          (* new serial::buffer(device, bytes): modeDevice->addMemoryRef(this) *)
          let b := nb s in
          let s := set_dring (set_bsize (set_balive (set_nb s (S b)) (upd (balive s) b true))
                                        (upd (bsize s) b size))
                             (ring_add (dring s) b) in
          (s, at_pc (PMal1 h b size dst) rest)
      | _, _ => skip
      end
  | OCopy src dst => (do_copy t s (uv src) t (uv dst), at_pc PIdle rest)
  | OSend src t' dst => (do_copy t s (uv src) t' (uv dst), at_pc PIdle rest)
  | OSlice src dst =>
      match vars s t (uv src), vars s t (uv dst) with
      | Some hs, None =>
          match hptr s hs with
          | Some m =>
              let s := flag s (negb (malive s m)) in
              match mbuf s m with
              | Some b =>
                  let '(h, s) := new_handle s t (uv dst) in
                  let '(m', s) := new_memory s b in
                  (s, at_pc (PSl1 h m') rest)
              | None => skip                         (* "ModeMemory not initialized or has been freed" *)
              end
          | None => skip
          end
      | _, _ => skip
      end
  | ODrop v => do_drop t s (uv v) rest
  end.

(* one step of thread t *)
Definition tstep (t : nat) (s : st) (th : thread) : st * thread :=
  let rest := prog th in
  match cur th with
  | PIdle =>
      match rest with
      | [] => (s, th)
      | o :: rest' => start_op t s o rest'
      end
  | PMal1 h b sz dst =>
      (* new serial::memory(buf, bytes, 0) *)
      let '(m, s) := new_memory s b in (s, at_pc (PMal2 h b m sz dst) rest)
  | PMal2 h b m sz dst =>
      (* memory mem(modeMemory) *)
      (register s h m, at_pc (PMal3 sz dst) rest)
  | PMal3 sz dst =>
      (* modeDevice->bytesAllocated += bytes *)
      if v_bytes V then (set_bytes s (bytes s + sz)%Z, at_pc (PMalEnd dst) rest)
      else (s, at_pc (PMalWr sz (bytes s) dst) rest)
  | PMalWr sz v dst => (set_bytes s (v + sz)%Z, at_pc (PMalEnd dst) rest)
  | PMalEnd dst =>
      (* return mem;  -- copy constructor of the result *)
      (do_copy t s (uv dst) t (tv dst), at_pc (PMalRet dst) rest)
  | PMalRet dst =>
      (* ~memory of the local *)
      do_drop t s (tv dst) rest
  | PSl1 h m => (register s h m, at_pc PIdle rest)
  | PDrop1 m r =>
      let '(test, s) := match r with
                        | Some r => (r, s)
                        | None => (is_nil (mring s m), flag s (negb (malive s m)))   (* needsFree() *)
                        end in
      if test then (s, at_pc (PMemRel m) rest) else (s, at_pc PIdle rest)
  | PMemRel m =>
      (* delete modeMemory: ~modeMemory_t *)
      let s := flag s (negb (malive s m) || (0 <? mdes s m)) in
      let s := set_mdes s (upd (mdes s) m (S (mdes s m))) in
      (* while (memoryRing.head) { removeRef(head); head->modeMemory = NULL } *)
      let s := set_hptr s (fold_left (fun f h => upd f h None) (mring s m) (hptr s)) in
      let s := set_mring s (upd (mring s) m []) in
      (* removeModeMemoryRef() *)
      match mbuf s m with
      | None => (s, at_pc (PMemEnd m) rest)
      | Some b =>
          let s := flag s (negb (balive s b)) in
          let l := ring_rem m (bring s b) in
          let s := set_bring s (upd (bring s) b l) in
          (s, at_pc (PBuf1 m b (if v_test V then Some (is_nil l) else None)) rest)
      end
  | PBuf1 m b r =>
      let '(test, s) := match r with
                        | Some r => (r, s)
                        | None => (is_nil (bring s b), flag s (negb (balive s b)))   (* needsFree() *)
                        end in
      if test then
        (* delete modeBuffer: ~modeBuffer_t up to the counter update; a buffer that still has
           slices at this point would destroy objects other threads use *)
        let s := flag s (negb (balive s b) || (0 <? bdes s b) || negb (is_nil (bring s b))) in
        let s := set_bdes s (upd (bdes s) b (S (bdes s b))) in
        (s, at_pc (PBufBytes m b) rest)
      else (s, at_pc (PMemEnd m) rest)
  | PBufBytes m b =>
      (* modeDevice->bytesAllocated -= size *)
      if v_bytes V then (set_bytes s (bytes s - bsize s b)%Z, at_pc (PBufDev m b) rest)
      else (s, at_pc (PBufWr m b (bytes s)) rest)
  | PBufWr m b v => (set_bytes s (v - bsize s b)%Z, at_pc (PBufDev m b) rest)
  | PBufDev m b =>
      (* modeDevice->removeMemoryRef(this); end of ~modeBuffer_t; deallocation *)
      let s := flag s (negb (balive s b)) in
      let s := set_dring s (ring_rem b (dring s)) in
      (set_balive s (upd (balive s) b false), at_pc (PMemEnd m) rest)
  | PMemEnd m =>
      (* modeBuffer = NULL; end of ~modeMemory_t; deallocation *)
      (set_malive (set_mbuf s (upd (mbuf s) m None)) (upd (malive s) m false), at_pc PIdle rest)
  end.

(* ---------------------------------------------------------------- the system *)
Record sys := { heap : st; thr : list thread }.

Fixpoint upd_nth {A} (l : list A) (i : nat) (x : A) : list A :=
  match l, i with
  | [], _ => []
  | _ :: l', O => x :: l'
  | y :: l', S i' => y :: upd_nth l' i' x
  end.

(* the scheduler picks thread t; a number that names no thread is a stutter *)
Definition sys_step (c : sys) (t : nat) : sys :=
  match nth_error (thr c) t with
  | None => c
  | Some th => let '(s', th') := tstep t (heap c) th in
               {| heap := s'; thr := upd_nth (thr c) t th' |}
  end.

Definition sys_run (c : sys) (sched : list nat) : sys := fold_left sys_step sched c.

(* schedule points of the real library (hook yield points + the driver's point between two
   operations): a thread can only be held where [boundary] is true *)
Definition boundary (p : pc) : bool :=
  match p with
  | PIdle | PMal3 _ _ | PMalEnd _ | PDrop1 _ _ | PBuf1 _ _ _ | PBufBytes _ _ | PBufDev _ _ => true
  | _ => false
  end.

(* let thread t run from one schedule point to the next *)
Fixpoint seg_go (fuel : nat) (t : nat) (s : st) (th : thread) : st * thread :=
  match fuel with
  | O => (s, th)
  | S f => let '(s', th') := tstep t s th in
           if boundary (cur th') then (s', th') else seg_go f t s' th'
  end.

Definition seg_step (c : sys) (t : nat) : sys :=
  match nth_error (thr c) t with
  | None => c
  | Some th => let '(s', th') := seg_go 8 t (heap c) th in
               {| heap := s'; thr := upd_nth (thr c) t th' |}
  end.

Definition seg_run (c : sys) (sched : list nat) : sys := fold_left seg_step sched c.

End WithVariant.

Definition mk_sys (progs : list (list op)) : sys :=
  {| heap := init; thr := map (fun p => {| prog := p; cur := PIdle |}) progs |}.

Definition finished (th : thread) : bool :=
  match cur th, prog th with PIdle, [] => true | _, _ => false end.
Definition quiescent (c : sys) : bool := forallb finished (thr c).

(* ---------------------------------------------------------------- observations *)
Fixpoint sum_nat (f : nat -> nat) (n : nat) : nat :=
  match n with O => 0 | S k => sum_nat f k + f k end.
(* what hook H1 counts: constructor runs, destructor runs, and the byte counter *)
Definition obs_created_m (s : st) : nat := nm s.
Definition obs_destroyed_m (s : st) : nat := sum_nat (mdes s) (nm s).
Definition obs_created_b (s : st) : nat := nb s.
Definition obs_destroyed_b (s : st) : nat := sum_nat (bdes s) (nb s).

(* ================================================================ multiRing_t::removeRef *)
(* The lock discipline of gc.tpp 138-163 with the mutex made explicit: [holder] is the thread
   that owns ring_t<entry_t>::mutex.  A pthread default mutex that is unlocked by a thread that
   does not own it, or while it is not locked, is undefined behaviour; glibc releases it. *)
Record mx := {
  holder : option nat;
  bad_unlock : nat;       (* unlocks of a mutex the caller does not hold *)
  unprotected : nat }.    (* steps of the critical region executed without holding the mutex *)

Inductive mpc :=
| MIdle                   (* next: mutex.lock() *)
| MLocked                 (* next: rings.find; ring.removeRef(entry, false) *)
| MBody                   (* next: rings.erase; re-key *)
| MTail.                  (* next: mutex.unlock() *)

Record mthread := { todo : nat; mcur : mpc }.   (* number of removeRef calls still to make *)

Definition mx_unlock (t : nat) (x : mx) : mx :=
  match holder x with
  | Some o => if Nat.eqb o t then {| holder := None; bad_unlock := bad_unlock x; unprotected := unprotected x |}
              else {| holder := None; bad_unlock := S (bad_unlock x); unprotected := unprotected x |}
  | None => {| holder := None; bad_unlock := S (bad_unlock x); unprotected := unprotected x |}
  end.

Definition mx_touch (t : nat) (x : mx) : mx :=
  match holder x with
  | Some o => if Nat.eqb o t then x
              else {| holder := holder x; bad_unlock := bad_unlock x; unprotected := S (unprotected x) |}
  | None => {| holder := holder x; bad_unlock := bad_unlock x; unprotected := S (unprotected x) |}
  end.

Definition mstep (V : variant) (t : nat) (x : mx) (th : mthread) : mx * mthread :=
  match mcur th with
  | MIdle =>
      match todo th with
      | O => (x, th)
      | S k =>
          match holder x with
          | None => ({| holder := Some t; bad_unlock := bad_unlock x; unprotected := unprotected x |},
                     {| todo := k; mcur := MLocked |})
          | Some _ => (x, th)                              (* blocked in mutex.lock() *)
          end
      end
  | MLocked =>
      let x := mx_touch t x in
      ((if v_multi V then x else mx_unlock t x), {| todo := todo th; mcur := MBody |})
  | MBody => (mx_touch t x, {| todo := todo th; mcur := MTail |})
  | MTail => (mx_unlock t x, {| todo := todo th; mcur := MIdle |})
  end.

Record msys := { mxs : mx; mthr : list mthread }.

Definition msys_step (V : variant) (c : msys) (t : nat) : msys :=
  match nth_error (mthr c) t with
  | None => c
  | Some th => let '(x', th') := mstep V t (mxs c) th in
               {| mxs := x'; mthr := upd_nth (mthr c) t th' |}
  end.
Definition msys_run (V : variant) (c : msys) (sched : list nat) : msys := fold_left (msys_step V) sched c.
Definition mk_msys (calls : list nat) : msys :=
  {| mxs := {| holder := None; bad_unlock := 0; unprotected := 0 |};
     mthr := map (fun k => {| todo := k; mcur := MIdle |}) calls |}.
