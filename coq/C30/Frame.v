(* C30 — what a thread's local knowledge depends on, and the steps that change no shared state. *)
From Coq Require Import List Arith Bool ZArith Lia.
From OV.C30 Require Import Model Statements Lemmas.
Import ListNotations.

Ltac simpl_st :=
  cbn [nh nm nb vars hptr mring mbuf malive mdes bring bsize balive bdes dring bytes ub
       set_nh set_nm set_nb set_vars set_hptr set_mring set_mbuf set_malive set_mdes set_bring
       set_bsize set_balive set_bdes set_dring set_bytes set_ub flag prog cur at_pc] in *.

(* the wrapper a thread is constructing *)
Definition hu (p : pc) : option nat :=
  match p with PMal1 h _ _ _ | PMal2 h _ _ _ _ | PSl1 h _ => Some h | _ => None end.

Lemma local_hm s i p m : local s i p -> hm p = Some m -> malive s m = true /\ mring s m = [].
Proof.
  destruct p as [|h b sz d|h b m' sz d|sz d|sz v d|d|d|h m'|m' [[|]|]|m'|m' b [[|]|]|m' b|m' b v|m' b|m'];
    cbn; intros H E; inversion E; subst; unfold mheld in H; tauto.
Qed.

Lemma local_hb s i p b : local s i p -> hb p = Some b -> balive s b = true /\ bring s b = [].
Proof.
  destruct p as [|h b' sz d|h b' m' sz d|sz d|sz v d|d|d|h m'|m' [[|]|]|m'|m' b' [[|]|]|m' b'|m' b' v|m' b'|m'];
    cbn; intros H E; inversion E; subst; unfold bheld in H; tauto.
Qed.

Lemma local_hu s i p h : local s i p -> hu p = Some h -> building s i h.
Proof.
  destruct p as [|h' b sz d|h' b m' sz d|sz d|sz v d|d|d|h' m'|m' [[|]|]|m'|m' b [[|]|]|m' b|m' b v|m' b|m'];
    cbn; intros H E; inversion E; subst; tauto.
Qed.

(* a thread's knowledge only depends on the objects it holds and the wrapper it constructs *)
Lemma local_stable s s' i p :
  (forall m, hm p = Some m -> malive s' m = malive s m /\ mring s' m = mring s m /\ mdes s' m = mdes s m) ->
  (forall b, hb p = Some b -> balive s' b = balive s b /\ bring s' b = bring s b /\ bdes s' b = bdes s b) ->
  (forall h, hu p = Some h -> hptr s' h = hptr s h /\ forall v, vars s i v = Some h -> vars s' i v = Some h) ->
  local s i p -> local s' i p.
Proof.
  intros Hm Hb Hh.
  assert (Em : forall m d, hm p = Some m -> mheld s m d -> mheld s' m d).
  { intros m d E (A & B & D). destruct (Hm m E) as (E1 & E2 & E3). unfold mheld. rewrite E1, E2, E3. now repeat split. }
  assert (Eb : forall b d, hb p = Some b -> bheld s b d -> bheld s' b d).
  { intros b d E (A & B & D). destruct (Hb b E) as (E1 & E2 & E3). unfold bheld. rewrite E1, E2, E3. now repeat split. }
  assert (Eh : forall h, hu p = Some h -> building s i h -> building s' i h).
  { intros h E (A & v & B). destruct (Hh h E) as (E1 & Hv). unfold building. rewrite E1. split; [assumption|]. exists v. now apply Hv. }
  destruct p as [|h b sz d|h b m' sz d|sz d|sz v d|d|d|h m'|m' [[|]|]|m'|m' b [[|]|]|m' b|m' b v|m' b|m'];
    cbn in *; intros H; try exact H; try tauto;
    repeat match goal with
           | H : _ /\ _ |- _ => destruct H
           | |- _ /\ _ => split
           end; eauto.
Qed.

Lemma pend_stable s s' p :
  (forall b, hb p = Some b -> bsize s' b = bsize s b) -> pend s' p = pend s p.
Proof.
  destruct p as [|h b sz d|h b m' sz d|sz d|sz v d|d|d|h m'|m' r|m'|m' b r|m' b|m' b v|m' b|m']; cbn; intros H; try reflexivity.
  now rewrite H.
Qed.

(* ---------------------------------------------------------------- a step that only moves the pc *)
Lemma inv_pc_only s ths t th0 th' :
  Inv s ths -> nth_error ths t = Some th0 ->
  hm (cur th') = hm (cur th0) -> hb (cur th') = hb (cur th0) ->
  pend s (cur th') = pend s (cur th0) -> local s t (cur th') ->
  Inv s (upd_nth ths t th').
Proof.
  intros HI Ht Em Eb Ep Hl. destruct HI. constructor; try assumption.
  - intros i p Ha. apply (at_thr_upd _ _ _ _ _ _ Ht) in Ha as [[-> <-]|[Hn Ha]]; [assumption|now apply i_local].
  - intros m Ha Hr. apply (held_upd_eq hm _ _ _ _ Ht m Em). now apply i_mheld.
  - exact (disj_upd_eq hm _ _ _ _ Ht Em i_mdisj).
  - intros b Ha Hr. apply (held_upd_eq hb _ _ _ _ Ht b Eb). now apply i_bheld.
  - exact (disj_upd_eq hb _ _ _ _ Ht Eb i_bdisj).
  - rewrite (sum_pend_upd _ _ _ _ _ Ht). lia.
Qed.
