(* C30 — reference semantics, written without rings, locks or micro-steps: every operation is
   atomic, objects carry reference counts, an object is destroyed when its count reaches zero.
   It is what the property demands of any interleaving: the summary (objects created,
   destroyed, alive; bytes accounted) of a run is the summary of the operations taken in the
   order in which they started. *)
From Coq Require Import List Arith Bool ZArith.
From OV.C30 Require Import Model.
Import ListNotations.

Record sp := {
  s_vars  : nat -> nat -> option nat;   (* thread -> variable -> memory object *)
  s_mbuf  : nat -> nat;                 (* memory object -> its buffer *)
  s_mref  : nat -> nat;                 (* handles that refer to a memory object *)
  s_bref  : nat -> nat;                 (* memory objects that refer to a buffer *)
  s_bsize : nat -> Z;
  s_nm : nat; s_nb : nat;               (* objects created *)
  s_mdes : nat; s_bdes : nat;           (* objects destroyed *)
  s_bytes : Z }.                        (* what device.memoryAllocated() must report *)

Definition sp_init : sp :=
  {| s_vars := fun _ _ => None; s_mbuf := fun _ => 0; s_mref := fun _ => 0; s_bref := fun _ => 0;
     s_bsize := fun _ => 0%Z; s_nm := 0; s_nb := 0; s_mdes := 0; s_bdes := 0; s_bytes := 0%Z |}.

Definition sp_step (t : nat) (o : op) (s : sp) : sp :=
  match o with
  | OMalloc dst size =>
      match s_vars s t dst with
      | Some _ => s
      | None =>
          if (size <=? 0)%Z then s else
          let m := s_nm s in let b := s_nb s in
          {| s_vars := upd2 (s_vars s) t dst (Some m); s_mbuf := upd (s_mbuf s) m b;
             s_mref := upd (s_mref s) m 1; s_bref := upd (s_bref s) b 1;
             s_bsize := upd (s_bsize s) b size; s_nm := S m; s_nb := S b;
             s_mdes := s_mdes s; s_bdes := s_bdes s; s_bytes := (s_bytes s + size)%Z |}
      end
  | OCopy src dst =>
      match s_vars s t src, s_vars s t dst with
      | Some m, None =>
          {| s_vars := upd2 (s_vars s) t dst (Some m); s_mbuf := s_mbuf s;
             s_mref := upd (s_mref s) m (S (s_mref s m)); s_bref := s_bref s; s_bsize := s_bsize s;
             s_nm := s_nm s; s_nb := s_nb s; s_mdes := s_mdes s; s_bdes := s_bdes s; s_bytes := s_bytes s |}
      | _, _ => s
      end
  | OSend src t' dst =>
      match s_vars s t src, s_vars s t' dst with
      | Some m, None =>
          {| s_vars := upd2 (s_vars s) t' dst (Some m); s_mbuf := s_mbuf s;
             s_mref := upd (s_mref s) m (S (s_mref s m)); s_bref := s_bref s; s_bsize := s_bsize s;
             s_nm := s_nm s; s_nb := s_nb s; s_mdes := s_mdes s; s_bdes := s_bdes s; s_bytes := s_bytes s |}
      | _, _ => s
      end
  | OSlice src dst =>
      match s_vars s t src, s_vars s t dst with
      | Some m, None =>
          let m' := s_nm s in let b := s_mbuf s m in
          {| s_vars := upd2 (s_vars s) t dst (Some m'); s_mbuf := upd (s_mbuf s) m' b;
             s_mref := upd (s_mref s) m' 1; s_bref := upd (s_bref s) b (S (s_bref s b));
             s_bsize := s_bsize s; s_nm := S m'; s_nb := s_nb s;
             s_mdes := s_mdes s; s_bdes := s_bdes s; s_bytes := s_bytes s |}
      | _, _ => s
      end
  | ODrop v =>
      match s_vars s t v with
      | None => s
      | Some m =>
          let vars' := upd2 (s_vars s) t v None in
          match s_mref s m with
          | S (S k) =>
              {| s_vars := vars'; s_mbuf := s_mbuf s; s_mref := upd (s_mref s) m (S k);
                 s_bref := s_bref s; s_bsize := s_bsize s; s_nm := s_nm s; s_nb := s_nb s;
                 s_mdes := s_mdes s; s_bdes := s_bdes s; s_bytes := s_bytes s |}
          | _ =>
              (* the last handle: the memory object goes, and its buffer when it was the last slice *)
              let b := s_mbuf s m in
              match s_bref s b with
              | S (S k) =>
                  {| s_vars := vars'; s_mbuf := s_mbuf s; s_mref := upd (s_mref s) m 0;
                     s_bref := upd (s_bref s) b (S k); s_bsize := s_bsize s; s_nm := s_nm s; s_nb := s_nb s;
                     s_mdes := S (s_mdes s); s_bdes := s_bdes s; s_bytes := s_bytes s |}
              | _ =>
                  {| s_vars := vars'; s_mbuf := s_mbuf s; s_mref := upd (s_mref s) m 0;
                     s_bref := upd (s_bref s) b 0; s_bsize := s_bsize s; s_nm := s_nm s; s_nb := s_nb s;
                     s_mdes := S (s_mdes s); s_bdes := S (s_bdes s);
                     s_bytes := (s_bytes s - s_bsize s b)%Z |}
              end
          end
      end
  end.

(* multiRing_t::removeRef: a correct lock discipline never unlocks a mutex it does not hold *)
Definition sp_bad_unlocks : nat := 0.
