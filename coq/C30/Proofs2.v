(* C30 — from the invariant to the statements: all schedules, what the invariant gives, the
   multiRing lock discipline. *)
From Coq Require Import List Arith Bool ZArith Lia.
From OV.C30 Require Import Model Statements Lemmas Frame Step1 Step2 Proofs.
Import ListNotations.

Lemma at_thr_mk progs i p : at_thr (thr (mk_sys progs)) i p -> p = PIdle.
Proof.
  unfold mk_sys. cbn [thr]. intros (th & Hn & <-). apply nth_error_In in Hn. apply in_map_iff in Hn as (x & <- & _). reflexivity.
Qed.

Lemma sum_pend_idle s ths : (forall i p, at_thr ths i p -> p = PIdle) -> sum_pend s ths = 0%Z.
Proof.
  induction ths as [|a l IH]; intros H; cbn; [reflexivity|].
  rewrite (H 0 (cur a)) by (exists a; now split). cbn. apply IH.
  intros i p (th & Hn & Hc). apply (H (S i)). exists th. now split.
Qed.

Lemma not_held_idle f ths x : (forall i p, at_thr ths i p -> p = PIdle) -> f PIdle = None -> ~ Held f ths x.
Proof. intros H E (i & p & Ha & Hf). rewrite (H _ _ Ha) in Hf. congruence. Qed.

Theorem inv_init progs : Inv (heap (mk_sys progs)) (thr (mk_sys progs)).
Proof.
  pose proof (at_thr_mk progs) as Hidle.
  constructor; cbn [heap mk_sys init nh nm nb vars hptr mring mbuf malive mdes bring bsize balive bdes dring bytes ub];
    try discriminate; try (intros; lia); try (intros; contradiction); try constructor.
  - intros i p Ha. rewrite (Hidle _ _ Ha). exact I.
  - intros H; destruct H.
  - intros [H _]; discriminate.
  - intros i j p q x Ha Hb Hp. rewrite (Hidle _ _ Ha) in Hp. discriminate.
  - intros H; destruct H.
  - intros (H & _); discriminate.
  - intros i j p q x Ha Hb Hp. rewrite (Hidle _ _ Ha) in Hp. discriminate.
  - intros H; destruct H.
  - discriminate.
  - rewrite sum_pend_idle by exact Hidle. reflexivity.
Qed.

Lemma sys_step_inv c t : Inv (heap c) (thr c) -> Inv (heap (sys_step fixed c t)) (thr (sys_step fixed c t)).
Proof.
  intros HI. unfold sys_step. destruct (nth_error (thr c) t) as [th|] eqn:E; [|exact HI].
  destruct (tstep fixed t (heap c) th) as [s' th'] eqn:Es. cbn [heap thr]. eapply step_inv; eassumption.
Qed.

Theorem run_inv c sched : Inv (heap c) (thr c) -> Inv (heap (sys_run fixed c sched)) (thr (sys_run fixed c sched)).
Proof.
  revert c. induction sched as [|t r IH]; intros c HI; [exact HI|]. cbn. apply IH. now apply sys_step_inv.
Qed.

Lemma local_mdes s i p m : local s i p -> hm p = Some m -> mdes s m <= 1.
Proof.
  destruct p as [|h b sz d|h b m' sz d|sz d|sz v d|d|d|h m'|m' [[|]|]|m'|m' b [[|]|]|m' b|m' b v|m' b|m'];
    cbn; intros H E; inversion E; subst; unfold mheld in H;
    repeat match goal with H : _ /\ _ |- _ => destruct H end; try contradiction; lia.
Qed.

Lemma local_bdes s i p b : local s i p -> hb p = Some b -> bdes s b <= 1.
Proof.
  destruct p as [|h b' sz d|h b' m' sz d|sz d|sz v d|d|d|h m'|m' [[|]|]|m'|m' b' [[|]|]|m' b'|m' b' v|m' b'|m'];
    cbn; intros H E; inversion E; subst; unfold bheld in H;
    repeat match goal with H : _ /\ _ |- _ => destruct H end; try contradiction; lia.
Qed.

Theorem inv_good c : Inv (heap c) (thr c) -> Good c.
Proof.
  intros HI. set (s := heap c) in *. constructor; fold s.
  - apply (i_ub _ _ HI).
  - intros m. destruct (le_lt_dec (nm s) m) as [Hge|Hlt]; [rewrite (i_mfresh _ _ HI m Hge); lia|].
    destruct (malive s m) eqn:Ea; [|rewrite (i_mdead _ _ HI m Hlt Ea); lia].
    destruct (mring s m) eqn:Er.
    + destruct (i_mheld _ _ HI m Ea Er) as (i & p & Ha & E). eapply local_mdes; [apply (i_local _ _ HI); eassumption|eassumption].
    + destruct (i_mref _ _ HI m) as [_ ->]; [rewrite Er; discriminate|lia].
  - intros b. destruct (le_lt_dec (nb s) b) as [Hge|Hlt]; [rewrite (i_bfresh _ _ HI b Hge); lia|].
    destruct (balive s b) eqn:Ea; [|rewrite (i_bdead _ _ HI b Hlt Ea); lia].
    destruct (bring s b) eqn:Er.
    + destruct (i_bheld _ _ HI b Ea Er) as (i & p & Ha & E). eapply local_bdes; [apply (i_local _ _ HI); eassumption|eassumption].
    + destruct (i_bref _ _ HI b) as [_ ->]; [rewrite Er; discriminate|lia].
  - intros t v h m Hv Hh. destruct (handle_facts _ _ _ _ _ _ HI Hv Hh) as (Hin & Hne & Hal & Hd0).
    split; [assumption|]. split; [assumption|].
    destruct (i_mbuf_some _ _ HI m Hal) as [b Hb]. exists b. split; [assumption|].
    assert (Hib : In m (bring s b)) by (apply (i_bring _ _ HI); now repeat split).
    split; [assumption|]. assert (Hbne : bring s b <> []) by (intros E; rewrite E in Hib; destruct Hib).
    destruct (i_bref _ _ HI b Hbne) as [Hbal _]. split; [assumption|]. now apply (i_dring _ _ HI).
  - intros Hq.
    assert (Hnm : forall m, ~ Held hm (thr c) m) by (intros m; now apply not_held_idle).
    assert (Hnb : forall b, ~ Held hb (thr c) b) by (intros b; now apply not_held_idle).
    assert (Hmne : forall m, malive s m = true -> mring s m <> []).
    { intros m Ha Er. apply (Hnm m). now apply (i_mheld _ _ HI). }
    assert (Hbne : forall b, balive s b = true -> bring s b <> []).
    { intros b Ha Er. apply (Hnb b). now apply (i_bheld _ _ HI). }
    split; [|split].
    + intros m Hlt. split.
      * split.
        -- intros Ha. pose proof (Hmne m Ha) as Hne. destruct (mring s m) as [|h l] eqn:Er; [contradiction|].
           exists h. assert (Hi : In h (mring s m)) by (rewrite Er; now left). apply (i_mring _ _ HI) in Hi. tauto.
        -- intros (h & Hb & Hh). assert (Hi : In h (mring s m)) by (apply (i_mring _ _ HI); now split).
           apply (i_mref _ _ HI). intros E. rewrite E in Hi. destruct Hi.
      * destruct (malive s m) eqn:Ea; [|now apply (i_mdead _ _ HI)]. destruct (i_mref _ _ HI m (Hmne m Ea)) as [_ H]. exact H.
    + intros b Hlt. split.
      * split.
        -- intros Ha. pose proof (Hbne b Ha) as Hne. destruct (bring s b) as [|m l] eqn:Er; [contradiction|].
           exists m. assert (Hi : In m (bring s b)) by (rewrite Er; now left). apply (i_bring _ _ HI) in Hi. tauto.
        -- intros (m & Ha & Hb). assert (Hd : mdes s m = 0) by (destruct (i_mref _ _ HI m (Hmne m Ha)) as [_ H]; exact H).
           assert (Hi : In m (bring s b)) by (apply (i_bring _ _ HI); now repeat split).
           apply (i_bref _ _ HI). intros E. rewrite E in Hi. destruct Hi.
      * destruct (balive s b) eqn:Ea; [|now apply (i_bdead _ _ HI)]. destruct (i_bref _ _ HI b (Hbne b Ea)) as [_ H]. exact H.
    + pose proof (i_bytes _ _ HI) as Hb. rewrite (sum_pend_idle _ _ Hq) in Hb. fold s in Hb. lia.
Qed.

Theorem race_free progs sched : Good (sys_run fixed (mk_sys progs) sched).
Proof. apply inv_good. apply run_inv. apply inv_init. Qed.

(* ================================================================ multiRing_t *)
Record MInv (c : msys) : Prop := {
  mi_bad  : bad_unlock (mxs c) = 0;
  mi_unp  : unprotected (mxs c) = 0;
  mi_hold : forall i th, nth_error (mthr c) i = Some th -> mcur th <> MIdle -> holder (mxs c) = Some i
}.

Lemma minv_init calls : MInv (mk_msys calls).
Proof.
  constructor; cbn; try reflexivity. intros i th Hn Hc. apply nth_error_In in Hn. apply in_map_iff in Hn as (x & <- & _).
  cbn in Hc. contradiction.
Qed.

Lemma mstep_inv c t : MInv c -> MInv (msys_step fixed c t).
Proof.
  intros [Hb Hu Hh]. unfold msys_step. destruct (nth_error (mthr c) t) as [th|] eqn:E; [|now constructor].
  assert (Hoth : forall i th', nth_error (upd_nth (mthr c) t th') i = (if Nat.eq_dec i t then Some th' else nth_error (mthr c) i)).
  { intros i th'. destruct (Nat.eq_dec i t) as [->|Hn]; [eapply nth_error_upd_nth_same; eassumption|apply nth_error_upd_nth_other; congruence]. }
  destruct th as [k p]. unfold mstep. cbn [mcur todo].
  destruct p.
  - (* MIdle *)
    destruct k as [|k]; [cbn [mxs mthr]; rewrite (upd_nth_id _ _ _ E); constructor; assumption|].
    destruct (holder (mxs c)) as [o|] eqn:Eh.
    { cbn [mxs mthr]. rewrite (upd_nth_id _ _ _ E). constructor; try assumption. intros i th' Hn Hc. cbn [mxs mthr] in *. rewrite Eh. eapply Hh; eassumption. }
    cbn [mxs mthr]. constructor; cbn [mxs mthr holder bad_unlock unprotected]; try assumption.
    intros i th' Hn Hc. cbn [mxs mthr holder] in *. rewrite Hoth in Hn. destruct (Nat.eq_dec i t) as [->|Hne]; [reflexivity|].
    pose proof (Hh i th' Hn Hc). congruence.
  - (* MLocked *)
    pose proof (Hh t _ E) as Ht. cbn [mcur] in Ht. specialize (Ht ltac:(discriminate)).
    cbn [v_multi fixed]. unfold mx_touch. rewrite Ht, Nat.eqb_refl. cbn [mxs mthr].
    constructor; try assumption. intros i th' Hn Hc. cbn [mxs mthr holder] in *. rewrite Hoth in Hn. destruct (Nat.eq_dec i t) as [->|Hne]; [assumption|].
    now apply (Hh i th').
  - (* MBody *)
    pose proof (Hh t _ E) as Ht. cbn [mcur] in Ht. specialize (Ht ltac:(discriminate)).
    unfold mx_touch. rewrite Ht, Nat.eqb_refl. cbn [mxs mthr].
    constructor; try assumption. intros i th' Hn Hc. cbn [mxs mthr holder] in *. rewrite Hoth in Hn. destruct (Nat.eq_dec i t) as [->|Hne]; [assumption|].
    now apply (Hh i th').
  - (* MTail *)
    pose proof (Hh t _ E) as Ht. cbn [mcur] in Ht. specialize (Ht ltac:(discriminate)).
    unfold mx_unlock. rewrite Ht, Nat.eqb_refl. cbn [mxs mthr].
    constructor; cbn [holder bad_unlock unprotected]; try assumption.
    intros i th' Hn Hc. cbn [mxs mthr holder] in *. rewrite Hoth in Hn. destruct (Nat.eq_dec i t) as [->|Hne].
    + inversion Hn; subst. cbn in Hc. contradiction.
    + pose proof (Hh i th' Hn Hc). congruence.
Qed.

Theorem multi_ring_locks calls sched : MGood (msys_run fixed (mk_msys calls) sched).
Proof.
  assert (H : forall c, MInv c -> MInv (msys_run fixed c sched)).
  { induction sched as [|t r IH]; intros c Hc; [exact Hc|]. cbn. apply IH. now apply mstep_inv. }
  destruct (H _ (minv_init calls)). now split.
Qed.
