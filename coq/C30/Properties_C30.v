(* C30 — with sharable devices, concurrent handle use is race-free.

   Level: partial.  The statements are about the interleaving model of coq/C30/Model.v: threads
   take sequentially consistent steps, a schedule is a list of thread numbers.  The pthread
   runtime, the C++ memory model, kernels, streams and memory pools are not modelled.

   [fixed]  = the code after fixes/C30-1.patch (remove-and-test under the ring lock),
              fixes/C30-2.patch (allocation counter under a lock), fixes/C30-3.patch (multiRing lock);
   [pinned] = the code as it was (needsFree() read after the unlock; plain `bytesAllocated +=`;
              ring_t::removeRef(entry, false) unlocking a mutex its caller still needs). *)
From Coq Require Import List Arith Bool ZArith.
From OV.C30 Require Import Model Spec Statements Proofs Proofs2 Refine.
Import ListNotations.

(* ---------------------------------------------------------------- the positive theorems *)

(* For ANY number of threads, ANY programs (malloc / copy / hand a copy to another thread / slice /
   delete, over each thread's own handle variables) and ANY schedule of the micro-steps, the state
   reached is Good (Statements.v):
     - no destroyed object is read, written or destroyed again            (no use after free)
     - no destructor runs twice on one modeMemory_t / modeBuffer_t         (no double free)
     - what a bound handle names is alive and registered in every ring it hangs on (no lost reference)
     - whenever all threads are between operations: an object is alive iff something refers to it,
       every other object created so far was destroyed exactly once          (no leak)
       and bytesAllocated = the sum of the sizes of the buffers that exist   (counter exact). *)
Theorem race_free_all_schedules :
  forall (progs : list (list op)) (sched : list nat),
    Good (sys_run fixed (mk_sys progs) sched).
Proof. exact race_free. Qed.
Print Assumptions race_free_all_schedules.

(* the invariant behind it, and its preservation by every step of every thread *)
Theorem invariant_initially : forall progs, Inv (heap (mk_sys progs)) (thr (mk_sys progs)).
Proof. exact inv_init. Qed.
Print Assumptions invariant_initially.

Theorem invariant_step :
  forall s ths t th s' th',
    Inv s ths -> nth_error ths t = Some th -> tstep fixed t s th = (s', th') -> Inv s' (upd_nth ths t th').
Proof. exact step_inv. Qed.
Print Assumptions invariant_step.

(* programs may be replaced at any point where the invariant holds (a barrier followed by a new
   phase, as in the stress driver): the invariant does not mention the remaining programs *)
Theorem invariant_gives_good : forall c, Inv (heap c) (thr c) -> Good c.
Proof. exact inv_good. Qed.
Print Assumptions invariant_gives_good.

(* multiRing_t::removeRef after fixes/C30-3.patch: for any number of threads, calls and any
   schedule, the mutex is unlocked only by its holder and the region between lock and unlock is
   executed only by the holder *)
Theorem multi_ring_lock_discipline :
  forall (calls : list nat) (sched : list nat), MGood (msys_run fixed (mk_msys calls) sched).
Proof. exact multi_ring_locks. Qed.
Print Assumptions multi_ring_lock_discipline.

(* one locked run of the pointer-level ring code of C01 = one list operation of this model *)
Theorem locked_addRef_refines :
  forall s G o sl e,
    OV.C01.Heap.heap_ok s G -> OV.C01.Model.alive s o = true -> OV.C01.Model.alive s e = true ->
    OV.C01.Heap.free_of G e ->
    exists s', OV.C01.Model.ring_addRef o sl e s = Some (tt, s') /\ OV.C01.Heap.same_obj s s' /\
               OV.C01.Heap.heap_ok s' (OV.C01.Model.upd2 G o sl (ring_add (G o sl) e)).
Proof. exact locked_addRef_is_ring_add. Qed.
Print Assumptions locked_addRef_refines.

Theorem locked_removeRef_refines :
  forall s G o sl e,
    OV.C01.Heap.heap_ok s G -> OV.C01.Model.alive s o = true -> In e (G o sl) ->
    exists s', OV.C01.Model.ring_removeRef o sl e s = Some (tt, s') /\ OV.C01.Heap.same_obj s s' /\
               OV.C01.Heap.heap_ok s' (OV.C01.Model.upd2 G o sl (ring_rem e (G o sl))).
Proof. exact locked_removeRef_is_ring_rem. Qed.
Print Assumptions locked_removeRef_refines.

(* ---------------------------------------------------------------- the code as it was: refuted *)

(* (a malloc is 8 micro-steps in the unfixed code: buffer, memory, wrapper, counter read, counter
   write, the copy made by `return mem`, removal of the local wrapper, its needsFree() test)
   two threads each drop one of the last two handles of one object:
   thread 0: m = malloc(8); hand a copy to thread 1; delete m      thread 1: delete its copy *)
Definition two_droppers : list (list op) :=
  [[OMalloc 0 8; OSend 0 1 0; ODrop 0]; [ODrop 0]].

(* both remove their wrapper, then both read needsFree() == true: ~modeMemory_t runs twice on the
   same object (and ~modeBuffer_t twice on its buffer) *)
Definition sched_double_destroy : list nat :=
  [0;0;0;0;0;0;0;0; 0; 0; 1; 0; 1; 0;1;0;1;0;1;0;1;0;1;0;1;0;1;0;1].

Theorem check_then_delete_refuted :
  exists progs sched,
    let c := sys_run pinned (mk_sys progs) sched in
    mdes (heap c) 0 = 2 /\ bdes (heap c) 0 = 2 /\ ub (heap c) = true /\ quiescent c = true.
Proof. exists two_droppers, sched_double_destroy. vm_compute. repeat split. Qed.
Print Assumptions check_then_delete_refuted.

(* thread 1 removes, tests, deletes everything; then thread 0 reads needsFree() of the freed object *)
Definition sched_use_after_free : list nat :=
  [0;0;0;0;0;0;0;0; 0; 0; 1;1;1;1;1;1;1;1; 0].

Theorem use_after_free_refuted :
  exists progs sched,
    let c := sys_run pinned (mk_sys progs) sched in
    malive (heap c) 0 = false /\ mdes (heap c) 0 = 1 /\ ub (heap c) = true.
Proof. exists two_droppers, sched_use_after_free. vm_compute. repeat split. Qed.
Print Assumptions use_after_free_refuted.

(* the same one level up: two slices of one buffer, dropped by two threads: ~modeBuffer_t twice *)
Definition two_slices : list (list op) :=
  [[OMalloc 0 8; OSlice 0 1; OSend 1 1 0; ODrop 1; ODrop 0]; [ODrop 0]].
Definition sched_buffer_double_destroy : list nat :=
  [0;0;0;0;0;0;0;0; 0;0; 0; 0;0; 0;0;0; 1;1;1; 0;1;0;1;0;1;0;1;0;1;0;1].

Theorem buffer_check_then_delete_refuted :
  exists progs sched,
    let c := sys_run pinned (mk_sys progs) sched in
    mdes (heap c) 0 = 1 /\ mdes (heap c) 1 = 1 /\ bdes (heap c) 0 = 2 /\ ub (heap c) = true.
Proof. exists two_slices, sched_buffer_double_destroy. vm_compute. repeat split. Qed.
Print Assumptions buffer_check_then_delete_refuted.

(* two threads allocate 8 and 16 bytes; both read bytesAllocated = 0 before either writes: at rest
   the counter says 16 while 24 bytes are allocated *)
Definition two_mallocs : list (list op) := [[OMalloc 0 8]; [OMalloc 0 16]].
Definition sched_lost_update : list nat := [0;0;0;1;1;1; 0;1;0;1;0;1;0;1;0;1;0;1].

Theorem lost_update_refuted :
  exists progs sched,
    let c := sys_run pinned (mk_sys progs) sched in
    quiescent c = true /\ ub (heap c) = false /\
    bytes (heap c) = 16%Z /\ live_bytes (heap c) (nb (heap c)) = 24%Z.
Proof. exists two_mallocs, sched_lost_update. vm_compute. repeat split. Qed.
Print Assumptions lost_update_refuted.

(* one thread, one call of multiRing_t::removeRef: the inner removeRef(entry, false) unlocks, the
   erase / re-key runs without the lock, the final unlock hits an unlocked mutex *)
Theorem double_unlock_refuted :
  exists calls sched,
    let c := msys_run pinned (mk_msys calls) sched in
    bad_unlock (mxs c) = 1 /\ unprotected (mxs c) = 1.
Proof. exists [1], [0;0;0;0]. vm_compute. split; reflexivity. Qed.
Print Assumptions double_unlock_refuted.

(* each fix is needed on its own: with only the counter and the multiRing repaired the double
   destroy remains; with only the rings repaired the lost update remains *)
Theorem test_fix_needed :
  let V := {| v_test := false; v_bytes := true; v_multi := true |} in
  mdes (heap (sys_run V (mk_sys two_droppers) [0;0;0;0;0;0;0; 0; 0; 1; 0;1;0;1;0;1;0;1;0;1;0;1;0;1])) 0 = 2.
Proof. vm_compute. reflexivity. Qed.
Theorem bytes_fix_needed :
  let V := {| v_test := true; v_bytes := false; v_multi := true |} in
  bytes (heap (sys_run V (mk_sys two_mallocs) sched_lost_update)) = 16%Z.
Proof. vm_compute. reflexivity. Qed.

(* ---------------------------------------------------------------- non-vacuity *)
(* the same programs and schedules on the fixed code: destroyed once, nothing alive, counter exact *)
Example fixed_two_droppers :
  let c := sys_run fixed (mk_sys two_droppers) sched_double_destroy in
  (mdes (heap c) 0, bdes (heap c) 0, malive (heap c) 0, ub (heap c), bytes (heap c), quiescent c)
  = (1, 1, false, false, 0%Z, true).
Proof. vm_compute. reflexivity. Qed.

Example fixed_two_mallocs :
  let c := sys_run fixed (mk_sys two_mallocs) sched_lost_update in
  (bytes (heap c), live_bytes (heap c) (nb (heap c)), quiescent c) = (24%Z, 24%Z, true).
Proof. vm_compute. reflexivity. Qed.

(* the schedule-point granularity used for the replay on the real library reaches the same double
   destroy (segment schedule "s0 s0 s0 s0 s0 s0 s1 s0 s1" + round-robin completion) *)
Example double_destroy_at_schedule_points :
  let c := seg_run pinned (mk_sys two_droppers) [0;0;0;0;0;0;1;0;1;0;1;0;1;0;1;0;1] in
  (mdes (heap c) 0, quiescent c) = (2, true).
Proof. vm_compute. reflexivity. Qed.

(* the reference semantics on the same programs, operations taken in program order *)
Example reference_two_droppers :
  let s := fold_left (fun s to => sp_step (fst to) (snd to) s)
                     [(0, OMalloc 0 8); (0, OSend 0 1 0); (0, ODrop 0); (1, ODrop 0)] sp_init in
  (s_nm s, s_mdes s, s_nb s, s_bdes s, s_bytes s) = (1, 1, 1, 1, 0%Z).
Proof. vm_compute. reflexivity. Qed.
