(* C30 — every step of every thread preserves the invariant (code after the fixes); what the
   invariant gives; the multiRing lock discipline. *)
From Coq Require Import List Arith Bool ZArith Lia.
From OV.C30 Require Import Model Statements Lemmas Frame Step1 Step2 Step3 Step4.
Import ListNotations.

Lemma inv_flag s ths b : b = false -> Inv s ths -> Inv (flag s b) ths.
Proof.
  intros -> HI. destruct HI. constructor; simpl_st; try assumption.
  - now rewrite orb_false_r.
  - rewrite (sum_pend_ext s) by (intros; now apply pend_stable).
    rewrite (live_bytes_ext s); [assumption|]. intros; now split.
Qed.

Lemma upd_nth_id {A} (l : list A) i x : nth_error l i = Some x -> upd_nth l i x = l.
Proof.
  revert i. induction l as [|a l IH]; intros [|i] H; cbn in *; try discriminate; [congruence|]. f_equal. now apply IH.
Qed.

(* a live handle variable: what it names is alive, referenced, not yet destroyed *)
Lemma handle_facts s ths t v h m :
  Inv s ths -> vars s t v = Some h -> hptr s h = Some m ->
  In h (mring s m) /\ mring s m <> [] /\ malive s m = true /\ mdes s m = 0.
Proof.
  intros HI Hv Hh. assert (Hin : In h (mring s m)). { apply (i_mring _ _ HI). split; [assumption|]. now exists t, v. }
  assert (Hne : mring s m <> []). { intros E. rewrite E in Hin. destruct Hin. }
  destruct (i_mref _ _ HI m Hne). now repeat split.
Qed.

Lemma others_not_building s ths t i p h :
  Inv s ths -> at_thr ths i p -> i <> t -> (nh s <= h \/ exists v, vars s t v = Some h) -> hu p <> Some h.
Proof.
  intros HI Ha Hn Hh E. pose proof (local_hu _ _ _ _ (i_local _ _ HI _ _ Ha) E) as (_ & v & Hv).
  destruct Hh as [Hge|(v' & Hv')].
  - apply (i_vars_lt _ _ HI) in Hv. lia.
  - destruct (i_vars_inj _ _ HI _ _ _ _ _ Hv Hv'). contradiction.
Qed.

Lemma copy_inv s ths t th0 th' a t' d :
  Inv s ths -> nth_error ths t = Some th0 ->
  hm (cur th0) = None -> hb (cur th0) = None -> (forall s1, pend s1 (cur th0) = 0%Z) ->
  hm (cur th') = None -> hb (cur th') = None -> (forall s1, pend s1 (cur th') = 0%Z) ->
  (forall s', local s' t (cur th')) ->
  Inv (do_copy t s a t' d) (upd_nth ths t th').
Proof.
  intros HI Ht Hm0 Hb0 Hp0 Hm1 Hb1 Hp1 Hl.
  assert (Hskip : Inv s (upd_nth ths t th')).
  { eapply inv_pc_only; [exact HI|exact Ht|congruence|congruence|now rewrite Hp0, Hp1|apply Hl]. }
  unfold do_copy.
  destruct (vars s t a) as [hs|] eqn:Es; [|exact Hskip].
  destruct (vars s t' d) eqn:Ev; [exact Hskip|].
  destruct (hptr s hs) as [m|] eqn:Eh; [|exact Hskip].
  destruct (handle_facts _ _ _ _ _ _ HI Es Eh) as (Hin & Hne & Hal & Hd0).
  destruct (inv_new_handle s ths t' d HI Ev) as [HI1 [Hb1' Hb2]].
  unfold new_handle. cbn [fst snd].
  refine (inv_register (snd (new_handle s t' d)) ths t _ th' (nh s) m HI1 Ht Hb1' _ Hal Hd0 _ _ _ _ Hl).
  - destruct Hb2 as [v Hv]. now exists t', v.
  - intros i p Ha Hn. apply (others_not_building s ths t i p (nh s) HI Ha Hn). left. apply le_n.
  - right. now repeat split.
  - congruence.
  - intros s1 s2. now rewrite Hp0, Hp1.
Qed.

Lemma drop_inv s ths t th0 a rest s' th' :
  Inv s ths -> nth_error ths t = Some th0 ->
  hm (cur th0) = None -> hb (cur th0) = None -> (forall s1, pend s1 (cur th0) = 0%Z) ->
  do_drop fixed t s a rest = (s', th') -> Inv s' (upd_nth ths t th').
Proof.
  intros HI Ht Hm0 Hb0 Hp0 Hs. unfold do_drop in Hs.
  destruct (vars s t a) as [h|] eqn:Ev.
  - cbn [hptr set_vars] in Hs. destruct (hptr s h) as [m|] eqn:Eh.
    + cbn in Hs. inversion Hs; subst. exact (inv_drop s ths t _ rest a h m HI Ht Hm0 Hb0 Hp0 Ev Eh).
    + inversion Hs; subst. exact (inv_unbind_null s ths t _ rest a h HI Ht Hm0 Hb0 Hp0 Ev Eh).
  - inversion Hs; subst. eapply inv_pc_only; [exact HI|exact Ht|now rewrite Hm0|now rewrite Hb0|now rewrite Hp0|exact I].
Qed.

Ltac skip_step HI Ht :=
  eapply inv_pc_only; [exact HI|exact Ht|reflexivity|reflexivity|reflexivity|exact I].

Theorem step_inv s ths t th s' th' :
  Inv s ths -> nth_error ths t = Some th -> tstep fixed t s th = (s', th') -> Inv s' (upd_nth ths t th').
Proof.
  intros HI Ht Hs. destruct th as [rest p].
  pose proof (i_local _ _ HI t _ (at_thr_self _ _ _ Ht)) as Hl. cbn [cur] in Hl.
  unfold tstep in Hs. cbn [cur prog] in Hs.
  destruct p as [|h b sz d|h b m sz d|sz d|sz v d|d|d|h m|m [[|]|]|m|m b [[|]|]|m b|m b v|m b|m]; cbn [local] in Hl; try contradiction.
  - (* PIdle *)
    destruct rest as [|o rest'].
    { inversion Hs; subst. rewrite (upd_nth_id _ _ _ Ht). exact HI. }
    unfold start_op in Hs. destruct o as [dst size|src dst|src t' dst|src dst|v].
    + (* malloc *)
      destruct (vars s t (uv dst)) eqn:Ev; [inversion Hs; subst; skip_step HI Ht|].
      destruct (vars s t (tv dst)) eqn:Ev2; [inversion Hs; subst; skip_step HI Ht|].
      destruct (size <=? 0)%Z; [inversion Hs; subst; skip_step HI Ht|].
      destruct (inv_new_handle s ths t (uv dst) HI Ev) as [HI1 Hb1].
      unfold new_handle in Hs. cbn in Hs. inversion Hs; subst.
      exact (inv_alloc_buffer (snd (new_handle s t (uv dst))) ths t _ rest' (nh s) size dst HI1 Ht eq_refl Hb1).
    + (* copy *)
      inversion Hs; subst.
      apply (copy_inv s ths t _ (at_pc PIdle rest') (uv src) t (uv dst) HI Ht); try reflexivity; try (intros; exact I).
    + (* hand over *)
      inversion Hs; subst.
      apply (copy_inv s ths t _ (at_pc PIdle rest') (uv src) t' (uv dst) HI Ht); try reflexivity; try (intros; exact I).
    + (* slice *)
      destruct (vars s t (uv src)) as [hs|] eqn:Es; [|inversion Hs; subst; skip_step HI Ht].
      destruct (vars s t (uv dst)) eqn:Ev; [inversion Hs; subst; skip_step HI Ht|].
      destruct (hptr s hs) as [m|] eqn:Eh; [|inversion Hs; subst; skip_step HI Ht].
      destruct (handle_facts _ _ _ _ _ _ HI Es Eh) as (Hin & Hne & Hal & Hd0).
      cbn [mbuf flag set_ub] in Hs.
      destruct (mbuf s m) as [b|] eqn:Eb; [|inversion Hs; subst; skip_step HI Ht].
      assert (HI0 : Inv (flag s (negb (malive s m))) ths) by (apply inv_flag; [now rewrite Hal|assumption]).
      assert (Hbne : bring s b <> []).
      { intros E. assert (Hi : In m (bring s b)) by (apply (i_bring _ _ HI); now repeat split). rewrite E in Hi. destruct Hi. }
      set (s0 := flag s (negb (malive s m))) in *.
      destruct (inv_new_handle s0 ths t (uv dst) HI0 Ev) as [HI1 Hb1].
      unfold new_handle, new_memory in Hs. cbn in Hs. inversion Hs; subst.
      refine (inv_new_memory (snd (new_handle s0 t (uv dst))) ths t _ (at_pc (PSl1 (nh s) (nm s)) rest') b HI1 Ht eq_refl eq_refl eq_refl _ _ _).
      * right. split; [reflexivity|exact Hbne].
      * reflexivity.
      * cbn [cur local]. split.
        -- destruct Hb1 as [A [v Hv]]. split; [exact A|]. exists v. exact Hv.
        -- destruct (fresh_mring _ _ (nm s) HI (le_n _)) as [Hmr Hma].
           unfold mheld, new_memory, new_handle. cbn. rewrite upd_same. repeat split; [exact Hmr|].
           apply (i_mfresh _ _ HI). lia.
    + (* delete *)
      apply (drop_inv s ths t _ (uv v) rest' s' th' HI Ht); try reflexivity. exact Hs.
  - (* PMal1 *)
    destruct Hl as [Hbld (Hbal & Hbr & Hbd)].
    unfold new_memory in Hs. cbn in Hs. inversion Hs; subst.
    refine (inv_new_memory s ths t _ (at_pc (PMal2 h b (nm s) sz d) rest) b HI Ht eq_refl eq_refl eq_refl _ _ _).
    + left. split; [reflexivity|exact Hbd].
    + reflexivity.
    + cbn [cur local]. split.
      * destruct Hbld as [A [v Hv]]. split; [exact A|]. exists v. exact Hv.
      * destruct (fresh_mring _ _ (nm s) HI (le_n _)) as [Hmr Hma].
        unfold mheld, new_memory. cbn. rewrite upd_same. repeat split; [exact Hmr|]. apply (i_mfresh _ _ HI). lia.
  - (* PMal2 *)
    destruct Hl as [[Hh [v Hv]] (Hal & Hmr & Hd0)]. inversion Hs; subst.
    refine (inv_register s ths t _ (at_pc (PMal3 sz d) rest) h m HI Ht Hh _ Hal Hd0 _ _ eq_refl _ _).
    + now exists t, v.
    + intros i p Ha Hn. eapply (others_not_building s); eauto.
    + left. now split.
    + reflexivity.
    + intros; exact I.
  - (* PMal3 *)
    cbn in Hs. inversion Hs; subst. exact (inv_bytes_add s ths t _ rest sz d HI Ht eq_refl).
  - (* PMalEnd *)
    inversion Hs; subst.
    apply (copy_inv s ths t _ (at_pc (PMalRet d) rest) (uv d) t (tv d) HI Ht); try reflexivity; try (intros; exact I).
  - (* PMalRet *)
    apply (drop_inv s ths t _ (tv d) rest s' th' HI Ht); try reflexivity. exact Hs.
  - (* PSl1 *)
    destruct Hl as [[Hh [v Hv]] (Hal & Hmr & Hd0)]. inversion Hs; subst.
    refine (inv_register s ths t _ (at_pc PIdle rest) h m HI Ht Hh _ Hal Hd0 _ _ eq_refl _ _).
    + now exists t, v.
    + intros i p Ha Hn. eapply (others_not_building s); eauto.
    + left. now split.
    + reflexivity.
    + intros; exact I.
  - (* PDrop1, last *)
    inversion Hs; subst. eapply inv_pc_only; [exact HI|exact Ht|reflexivity|reflexivity|reflexivity|exact Hl].
  - (* PDrop1, not last *)
    inversion Hs; subst. skip_step HI Ht.
  - (* PMemRel *)
    cbn [mbuf set_mring set_hptr set_mdes flag set_ub] in Hs. destruct (mbuf s m) as [b|] eqn:Eb.
    + cbn in Hs. inversion Hs; subst. exact (inv_memrel s ths t _ rest m b HI Ht eq_refl Eb).
    + inversion Hs; subst. exact (inv_memrel0 s ths t _ rest m HI Ht eq_refl Eb).
  - (* PBuf1, last *)
    inversion Hs; subst. exact (inv_bufdtor s ths t _ rest m b HI Ht eq_refl).
  - (* PBuf1, not last *)
    inversion Hs; subst. eapply inv_pc_only; [exact HI|exact Ht|reflexivity|reflexivity|reflexivity|exact Hl].
  - (* PBufBytes *)
    cbn in Hs. inversion Hs; subst. exact (inv_bytes_sub s ths t _ rest m b HI Ht eq_refl).
  - (* PBufDev *)
    inversion Hs; subst. exact (inv_bufkill s ths t _ rest m b HI Ht eq_refl).
  - (* PMemEnd *)
    inversion Hs; subst. exact (inv_memkill s ths t _ rest m HI Ht eq_refl).
Qed.
