(* C30 — invariant preservation, part 3: a wrapper enters a ring, a wrapper leaves a ring. *)
From Coq Require Import List Arith Bool ZArith Lia.
From OV.C30 Require Import Model Statements Lemmas Frame Step1 Step2.
Import ListNotations.

(* memory(modeMemory_t pointer) / copy constructor: modeMemory = m; m->addMemoryRef(this) *)
Lemma inv_register s ths t th0 th' h m :
  Inv s ths -> nth_error ths t = Some th0 ->
  hptr s h = None -> bound s h -> malive s m = true -> mdes s m = 0 ->
  (forall i p, at_thr ths i p -> i <> t -> hu p <> Some h) ->
  ((hm (cur th0) = Some m /\ hm (cur th') = None) \/
   (hm (cur th0) = None /\ hm (cur th') = None /\ mring s m <> [])) ->
  hb (cur th') = hb (cur th0) ->
  (forall s1 s2, pend s1 (cur th') = pend s2 (cur th0)) ->
  (forall s', local s' t (cur th')) ->
  Inv (register s h m) (upd_nth ths t th').
Proof.
  intros HI Ht Hh Hbd Hal Hd0 Hhu Hcase Hhb Hp Hl.
  assert (Hcnt : (bytes s + sum_pend (register s h m) (upd_nth ths t th') = live_bytes (register s h m) (nb s))%Z).
  { remember (register s h m) as s' eqn:Es'.
    rewrite (sum_pend_upd _ _ _ _ _ Ht). rewrite (Hp s' s), <- (Hp s s'), (Hp s s).
    rewrite (sum_pend_ext s) by (intros; apply pend_stable; intros; subst s'; reflexivity).
    rewrite (live_bytes_ext s); [pose proof (i_bytes _ _ HI); lia|]. intros; subst s'; now split. }
  assert (Hom : forall i p m', i <> t -> at_thr ths i p -> hm p = Some m' -> m' <> m).
  { intros i p m' Hn Ha E ->. destruct Hcase as [[E0 _]|(E0 & _ & Hne)].
    - apply Hn. eapply (i_mdisj _ _ HI); eauto using at_thr_self.
    - apply Hne. eapply local_hm; [apply (i_local _ _ HI); eassumption|eassumption]. }
  assert (Hnotin : forall m0, ~ In h (mring s m0)).
  { intros m0 H. apply (i_mring _ _ HI) in H as [H _]. congruence. }
  assert (Hhlt : h < nh s). { destruct Hbd as (a & b & H). eapply (i_vars_lt _ _ HI); eassumption. }
  pose proof HI as HI0. destruct HI. unfold register in *. constructor; simpl_st; try assumption.
  - rewrite Hal. cbn. now rewrite orb_false_r.
  - eapply local_upd; [eassumption|apply Hl|]. intros i p Hn Ha.
    apply (local_stable s); [|intros; now repeat split| |now apply i_local].
    + intros m' E. simpl_st. rewrite upd_other by (eapply Hom; eassumption). now repeat split.
    + intros h' E. simpl_st. rewrite upd_other; [now split|]. intros ->. eapply Hhu; eassumption.
  - intros h0 m0 H. destruct (Nat.eq_dec h0 h) as [->|Hn]; [rewrite upd_same in H|rewrite upd_other in H by assumption].
    + inversion H; subst. split; [assumption|now apply i_malive_lt].
    + now apply i_hptr_lt.
  - intros m0 h0.
    destruct (Nat.eq_dec m0 m) as [->|Hnm]; [rewrite upd_same|rewrite (upd_other (mring s)) by assumption];
    (destruct (Nat.eq_dec h0 h) as [->|Hnh]; [rewrite upd_same|rewrite upd_other by assumption]).
    + rewrite ring_add_In. split; [intros _; now split|now right].
    + rewrite ring_add_In, i_mring. split; [intros [H|H]; [assumption|contradiction]|tauto].
    + split; [intros H; now apply Hnotin in H|intros [H _]; congruence].
    + apply i_mring.
  - intros m0. destruct (Nat.eq_dec m0 m) as [->|Hnm]; [rewrite upd_same|rewrite upd_other by assumption; apply i_mring_nd].
    apply ring_add_NoDup; [apply i_mring_nd|apply Hnotin].
  - intros m0. destruct (Nat.eq_dec m0 m) as [->|Hnm]; [rewrite upd_same|rewrite upd_other by assumption; apply i_mref].
    intros _. now split.
  - intros m0 Ha. destruct (Nat.eq_dec m0 m) as [->|Hnm]; [rewrite upd_same|rewrite upd_other by assumption].
    + unfold ring_add. intros H. apply app_eq_nil in H as [_ H]. discriminate.
    + intros Hr. destruct Hcase as [[E0 E1]|(E0 & E1 & Hne)].
      * apply (held_upd_lose hm _ _ _ _ Ht m0 m); try assumption. split; [assumption|now apply i_mheld].
      * apply (held_upd_eq hm _ _ _ _ Ht m0); [congruence|now apply i_mheld].
  - destruct Hcase as [[E0 E1]|(E0 & E1 & Hne)].
    + apply (disj_upd_none hm _ _ _ _ Ht); assumption.
    + apply (disj_upd_eq hm _ _ _ _ Ht); [congruence|assumption].
  - intros b Ha Hr. apply (held_upd_eq hb _ _ _ _ Ht b Hhb). now apply i_bheld.
  - exact (disj_upd_eq hb _ _ _ _ Ht Hhb i_bdisj).
Qed.

Lemma bound_unbind s t v h :
  (forall a b a' b' x, vars s a b = Some x -> vars s a' b' = Some x -> a = a' /\ b = b') ->
  vars s t v = Some h ->
  forall h', bound (set_vars s (upd2 (vars s) t v None)) h' <-> (bound s h' /\ h' <> h).
Proof.
  intros Hinj Hv h'. unfold bound. simpl_st. split.
  - intros (a & b & H). destruct (upd2_cases (vars s) t v None a b) as [(-> & -> & E)|(Hd & E)]; rewrite E in H; [discriminate|].
    split; [eauto|]. intros ->. destruct (Hinj _ _ _ _ _ H Hv) as [-> ->]. destruct Hd; congruence.
  - intros [(a & b & H) Hne]. exists a, b. rewrite upd2_other; [assumption|].
    destruct (Nat.eq_dec a t) as [->|]; [|now left]. destruct (Nat.eq_dec b v) as [->|]; [congruence|now right].
Qed.

(* ~memory on a wrapper that points nowhere: removeMemoryRef returns at once *)
Lemma inv_unbind_null s ths t th0 rest v h :
  Inv s ths -> nth_error ths t = Some th0 ->
  hm (cur th0) = None -> hb (cur th0) = None -> (forall s1, pend s1 (cur th0) = 0%Z) ->
  vars s t v = Some h -> hptr s h = None ->
  Inv (set_vars s (upd2 (vars s) t v None)) (upd_nth ths t (at_pc PIdle rest)).
Proof.
  intros HI Ht Hm0 Hb0 Hp0 Hv Hh.
  pose proof (bound_unbind s t v h (i_vars_inj _ _ HI) Hv) as Hb.
  assert (Hcnt : (bytes s + sum_pend (set_vars s (upd2 (vars s) t v None)) (upd_nth ths t (at_pc PIdle rest)) =
                  live_bytes (set_vars s (upd2 (vars s) t v None)) (nb s))%Z).
  { rewrite (sum_pend_upd _ _ _ _ _ Ht). rewrite Hp0. cbn [pend cur at_pc].
    rewrite (sum_pend_ext s) by (intros; now apply pend_stable).
    rewrite (live_bytes_ext s); [pose proof (i_bytes _ _ HI); lia|]. intros; now split. }
  pose proof HI as HI0. destruct HI. constructor; simpl_st; try assumption.
  - eapply local_upd; [eassumption|exact I|]. intros i p Hn Ha.
    apply (local_stable s); [intros; now repeat split|intros; now repeat split| |now apply i_local].
    intros h' E. simpl_st. split; [reflexivity|]. intros v0 H0. rewrite upd2_other; [assumption|now left].
  - intros a b x H. destruct (upd2_cases (vars s) t v None a b) as [(-> & -> & E)|(Hd & E)]; rewrite E in H; [discriminate|].
    eapply i_vars_lt; eassumption.
  - intros a b a' b' x H H'.
    destruct (upd2_cases (vars s) t v None a b) as [(-> & -> & E)|(Hd & E)]; rewrite E in H; [discriminate|].
    destruct (upd2_cases (vars s) t v None a' b') as [(-> & -> & E')|(Hd' & E')]; rewrite E' in H'; [discriminate|].
    eapply i_vars_inj; eassumption.
  - intros m h'. rewrite Hb, i_mring. split; [|tauto]. intros [A B]. repeat split; try assumption. intros ->. congruence.
  - intros m Ha Hr. apply (held_upd_eq hm _ _ _ _ Ht m); [now rewrite Hm0|now apply i_mheld].
  - apply (disj_upd_eq hm _ _ _ _ Ht); [now rewrite Hm0|assumption].
  - intros b Ha Hr. apply (held_upd_eq hb _ _ _ _ Ht b); [now rewrite Hb0|now apply i_bheld].
  - apply (disj_upd_eq hb _ _ _ _ Ht); [now rewrite Hb0|assumption].
Qed.

(* ~memory: the variable is gone, modeMemory->removeMemoryRef(this) under the ring's lock,
   together with the test "was it the last one" *)
Definition drop_state (s : st) (t v h m : nat) : st :=
  let s := set_vars s (upd2 (vars s) t v None) in
  let s := flag s (negb (malive s m)) in
  set_mring s (upd (mring s) m (ring_rem h (mring s m))).

Lemma inv_drop s ths t th0 rest v h m :
  Inv s ths -> nth_error ths t = Some th0 ->
  hm (cur th0) = None -> hb (cur th0) = None -> (forall s1, pend s1 (cur th0) = 0%Z) ->
  vars s t v = Some h -> hptr s h = Some m ->
  Inv (drop_state s t v h m)
      (upd_nth ths t (at_pc (PDrop1 m (Some (is_nil (ring_rem h (mring s m))))) rest)).
Proof.
  intros HI Ht Hm0 Hb0 Hp0 Hv Hh.
  pose proof (bound_unbind s t v h (i_vars_inj _ _ HI) Hv) as Hb.
  assert (Hin : In h (mring s m)). { apply (i_mring _ _ HI). split; [assumption|]. now exists t, v. }
  assert (Hne : mring s m <> []). { intros E. rewrite E in Hin. destruct Hin. }
  destruct (i_mref _ _ HI m Hne) as [Hal Hd0].
  assert (Hnh : ~ Held hm ths m). { intros H. apply (held_alive_m _ _ _ HI) in H as [_ H]. contradiction. }
  assert (Hom : forall i p m', at_thr ths i p -> hm p = Some m' -> m' <> m).
  { intros i p m' Ha E ->. apply Hnh. exists i, p. now split. }
  set (r := is_nil (ring_rem h (mring s m))).
  assert (Hcnt : (bytes s + sum_pend (drop_state s t v h m) (upd_nth ths t (at_pc (PDrop1 m (Some r)) rest)) =
                  live_bytes (drop_state s t v h m) (nb s))%Z).
  { rewrite (sum_pend_upd _ _ _ _ _ Ht). rewrite Hp0. cbn [pend cur at_pc].
    rewrite (sum_pend_ext s) by (intros; now apply pend_stable).
    rewrite (live_bytes_ext s); [pose proof (i_bytes _ _ HI); lia|]. intros; now split. }
  assert (Hnd : NoDup (mring s m)) by apply (i_mring_nd _ _ HI).
  pose proof HI as HI0. destruct HI. unfold drop_state in *. constructor; simpl_st; try assumption.
  - rewrite Hal. cbn. now rewrite orb_false_r.
  - eapply local_upd; [eassumption| |].
    + cbn [cur at_pc local]. destruct r eqn:Er; [|exact I]. unfold mheld. simpl_st. rewrite upd_same.
      repeat split; [assumption|now apply is_nil_true|assumption].
    + intros i p Hn Ha. apply (local_stable s); [|intros; now repeat split| |now apply i_local].
      * intros m' E. simpl_st. rewrite upd_other by (eapply Hom; eassumption). now repeat split.
      * intros h' E. simpl_st. split; [reflexivity|]. intros v0 H0. rewrite upd2_other; [assumption|now left].
  - intros a b x H. destruct (upd2_cases (vars s) t v None a b) as [(-> & -> & E)|(Hd & E)]; rewrite E in H; [discriminate|].
    eapply i_vars_lt; eassumption.
  - intros a b a' b' x H H'.
    destruct (upd2_cases (vars s) t v None a b) as [(-> & -> & E)|(Hd & E)]; rewrite E in H; [discriminate|].
    destruct (upd2_cases (vars s) t v None a' b') as [(-> & -> & E')|(Hd' & E')]; rewrite E' in H'; [discriminate|].
    eapply i_vars_inj; eassumption.
  - intros m0 h'. rewrite (Hb h').
    destruct (Nat.eq_dec m0 m) as [->|Hnm]; [rewrite upd_same|rewrite upd_other by assumption].
    + rewrite ring_rem_In by assumption. rewrite i_mring. tauto.
    + rewrite i_mring. split; [|tauto]. intros [A B]. repeat split; try assumption. intros ->. congruence.
  - intros m0. destruct (Nat.eq_dec m0 m) as [->|Hnm]; [rewrite upd_same|rewrite upd_other by assumption; apply i_mring_nd].
    now apply ring_rem_NoDup.
  - intros m0. destruct (Nat.eq_dec m0 m) as [->|Hnm]; [rewrite upd_same|rewrite upd_other by assumption; apply i_mref].
    intros _. now split.
  - intros m0 Ha. destruct (Nat.eq_dec m0 m) as [->|Hnm]; [rewrite upd_same|rewrite upd_other by assumption]; intros Hr.
    + assert (Er : r = true) by (now apply is_nil_true). rewrite Er.
      apply (held_upd_gain hm _ _ _ _ Ht m m); [exact Hm0|reflexivity|now left].
    + pose proof (i_mheld m0 Ha Hr) as Hh0. destruct r.
      * apply (held_upd_gain hm _ _ _ _ Ht m0 m); [exact Hm0|reflexivity|now right].
      * apply (held_upd_eq hm _ _ _ _ Ht m0); [now rewrite Hm0|assumption].
  - destruct r.
    + apply (disj_upd_new hm _ _ _ _ Ht m); [reflexivity|assumption|assumption].
    + apply (disj_upd_eq hm _ _ _ _ Ht); [now rewrite Hm0|assumption].
  - intros b Ha Hr. apply (held_upd_eq hb _ _ _ _ Ht b); [rewrite Hb0; now destruct r|now apply i_bheld].
  - apply (disj_upd_eq hb _ _ _ _ Ht); [rewrite Hb0; now destruct r|assumption].
Qed.
