From Coq Require Import List Arith Bool ZArith.
From OV.C30 Require Import Model.
Import ListNotations.
Definition P1 := [[OMalloc 0 8; OSend 0 1 0; ODrop 0]; [ODrop 0]].
(* T0: malloc = start, PMal1, PMal2, PMal3, PMalWr, PMalEnd -> 6 steps; send 1 step *)
Definition S1 := [0;0;0;0;0;0; 0; 0; 1; 0; 1; 0;1;0;1;0;1;0;1;0;1;0;1;0;1;0;1].
Definition r1 := sys_run pinned (mk_sys P1) S1.
Eval vm_compute in (mdes (heap r1) 0, bdes (heap r1) 0, ub (heap r1), bytes (heap r1), quiescent r1, map cur (thr r1)).
Definition r1f := sys_run fixed (mk_sys P1) S1.
Eval vm_compute in (mdes (heap r1f) 0, bdes (heap r1f) 0, ub (heap r1f), bytes (heap r1f), quiescent r1f, map cur (thr r1f)).
(* lost update *)
Definition P2 := [[OMalloc 0 8]; [OMalloc 0 16]].
Definition S2 := [0;0;0;1;1;1; 0;1;0;1;0;1].
Definition r2 := sys_run pinned (mk_sys P2) S2.
Eval vm_compute in (bytes (heap r2), quiescent r2, ub (heap r2)).
(* buffer level *)
Definition P3 := [[OMalloc 0 8; OSlice 0 1; OSend 1 1 0; ODrop 1; ODrop 0]; [ODrop 0]].
Definition S3 := [0;0;0;0;0;0; 0;0; 0; 0;0 (* drop 1: start, test: not last *) ; 
   0;0;0 (* T0 drop 0: start,test,memrel -> PBuf1 *) ; 1;1;1 (* T1: PBuf1 *); 0;1;0;1;0;1;0;1;0;1;0;1].
Definition r3 := sys_run pinned (mk_sys P3) S3.
Eval vm_compute in (mdes (heap r3) 0, mdes (heap r3) 1, bdes (heap r3) 0, ub (heap r3), bytes (heap r3), quiescent r3, map cur (thr r3)).
Eval vm_compute in (msys_run pinned (mk_msys [1]) [0;0;0;0]).
Eval vm_compute in (msys_run fixed (mk_msys [1]) [0;0;0;0]).
