From Coq Require Import List Arith Bool ZArith.
From OV.C30 Require Import Model.
Import ListNotations.
Definition P1 := [[OMalloc 0 8; OSend 0 1 0; ODrop 0]; [ODrop 0]].
Definition obs c := (mdes (heap c) 0, bdes (heap c) 0, ub (heap c), bytes (heap c), quiescent c, map cur (thr c)).
(* pinned malloc: start PMal1 PMal2 PMal3 PMalWr PMalEnd PMalRet PDrop1 -> 8 steps *)
Eval vm_compute in obs (sys_run pinned (mk_sys P1) [0;0;0;0;0;0;0;0]).
Eval vm_compute in obs (sys_run pinned (mk_sys P1) ([0;0;0;0;0;0;0;0] ++ [0; 0; 1; 0; 1; 0;1;0;1;0;1;0;1;0;1;0;1;0;1;0;1])).
Eval vm_compute in obs (sys_run pinned (mk_sys P1) ([0;0;0;0;0;0;0;0] ++ [0; 0; 1;1;1;1;1;1;1;1; 0])).
Definition P3 := [[OMalloc 0 8; OSlice 0 1; OSend 1 1 0; ODrop 1; ODrop 0]; [ODrop 0]].
Definition obs3 c := (mdes (heap c) 0, mdes (heap c) 1, bdes (heap c) 0, ub (heap c), bytes (heap c), quiescent c, map cur (thr c)).
Eval vm_compute in obs3 (sys_run pinned (mk_sys P3) ([0;0;0;0;0;0;0;0] ++ [0;0; 0; 0;0; 0;0;0; 1;1;1; 0;1;0;1;0;1;0;1;0;1;0;1])).
Definition P2 := [[OMalloc 0 8]; [OMalloc 0 16]].
Eval vm_compute in (let c := sys_run pinned (mk_sys P2) [0;0;0;1;1;1; 0;1;0;1;0;1;0;1;0;1;0;1] in (bytes (heap c), quiescent c, ub (heap c))).
Eval vm_compute in obs (seg_run pinned (mk_sys P1) [0;0;0;0;0;0;1;0;1;0;1;0;1;0;1;0;1]).
Eval vm_compute in obs (sys_run {| v_test := false; v_bytes := true; v_multi := true |} (mk_sys P1) ([0;0;0;0;0;0;0] ++ [0; 0; 1; 0; 1; 0;1;0;1;0;1;0;1;0;1;0;1;0;1;0;1])).
