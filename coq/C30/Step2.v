(* C30 — invariant preservation, part 2: constructors (modeBuffer_t, modeMemory_t). *)
From Coq Require Import List Arith Bool ZArith Lia.
From OV.C30 Require Import Model Statements Lemmas Frame Step1.
Import ListNotations.

Lemma fresh_bring s ths b : Inv s ths -> nb s <= b -> bring s b = [] /\ balive s b = false.
Proof.
  intros HI Hb. assert (Ha : balive s b = false).
  { destruct (balive s b) eqn:E; [|reflexivity]. apply (i_balive_lt _ _ HI) in E. lia. }
  split; [|assumption]. destruct (bring s b) eqn:E; [reflexivity|].
  destruct (i_bref _ _ HI b) as [H _]; [rewrite E; discriminate|congruence].
Qed.

Lemma fresh_mring s ths m : Inv s ths -> nm s <= m -> mring s m = [] /\ malive s m = false.
Proof.
  intros HI Hm. assert (Ha : malive s m = false).
  { destruct (malive s m) eqn:E; [|reflexivity]. apply (i_malive_lt _ _ HI) in E. lia. }
  split; [|assumption]. destruct (mring s m) eqn:E; [reflexivity|].
  destruct (i_mref _ _ HI m) as [H _]; [rewrite E; discriminate|congruence].
Qed.

Lemma held_alive_m s ths m : Inv s ths -> Held hm ths m -> malive s m = true /\ mring s m = [].
Proof. intros HI (i & p & Ha & E). eapply local_hm; [apply (i_local _ _ HI); eassumption|assumption]. Qed.
Lemma held_alive_b s ths b : Inv s ths -> Held hb ths b -> balive s b = true /\ bring s b = [].
Proof. intros HI (i & p & Ha & E). eapply local_hb; [apply (i_local _ _ HI); eassumption|assumption]. Qed.

(* new serial::buffer(device, bytes): modeBuffer_t constructor, modeDevice->addMemoryRef(this) *)
Definition alloc_buffer (s : st) (size : Z) : st :=
  let b := nb s in
  set_dring (set_bsize (set_balive (set_nb s (S b)) (upd (balive s) b true)) (upd (bsize s) b size))
            (ring_add (dring s) b).

Lemma inv_alloc_buffer s ths t th0 rest h sz dst :
  Inv s ths -> nth_error ths t = Some th0 -> cur th0 = PIdle -> building s t h ->
  Inv (alloc_buffer s sz) (upd_nth ths t (at_pc (PMal1 h (nb s) sz dst) rest)).
Proof.
  intros HI Ht Hc Hbld.
  destruct (fresh_bring s ths (nb s) HI (le_n _)) as [Hbr Hba].
  assert (Hnh : ~ Held hb ths (nb s)).
  { intros H. apply (held_alive_b _ _ _ HI) in H as [H _]. congruence. }
  assert (Hother : forall i p b', at_thr ths i p -> hb p = Some b' -> b' <> nb s).
  { intros i p b' Ha E ->. apply Hnh. exists i, p. now split. }
  pose proof HI as HI0. destruct HI. unfold alloc_buffer. constructor; simpl_st; try assumption.
  - eapply local_upd; [eassumption| |].
    + cbn [cur at_pc local]. split; [exact Hbld|]. unfold bheld. simpl_st.
      rewrite upd_same. repeat split; [assumption|now apply i_bfresh].
    + intros i p Hn Ha. apply (local_stable s); [intros; now repeat split| |intros; now split|now apply i_local].
      intros b' E. simpl_st. rewrite upd_other by (eapply Hother; eassumption). now repeat split.
  - intros m Ha Hr. apply (held_upd_eq hm _ _ _ _ Ht m); [now rewrite Hc|now apply i_mheld].
  - apply (disj_upd_eq hm _ _ _ _ Ht); [now rewrite Hc|assumption].
  - intros b Hb. destruct (upd_cases (balive s) (nb s) true b) as [[-> _]|[Hn E]]; [lia|].
    rewrite E in Hb. apply i_balive_lt in Hb. lia.
  - intros m b Hb. apply i_mbuf_lt in Hb. lia.
  - intros b Hb. destruct (i_bref b Hb) as [A B]. split; [|assumption].
    rewrite upd_other; [assumption|]. intros ->. congruence.
  - intros b Ha Hr. apply (held_upd_gain hb _ _ _ _ Ht b (nb s)); [now rewrite Hc|reflexivity|].
    destruct (upd_cases (balive s) (nb s) true b) as [[-> _]|[Hn E]]; [now left|right].
    rewrite E in Ha. now apply i_bheld.
  - apply (disj_upd_new hb _ _ _ _ Ht (nb s)); [reflexivity|assumption|assumption].
  - intros b Hb Hd. destruct (upd_cases (balive s) (nb s) true b) as [[-> E]|[Hn E]]; rewrite E in Hd; [discriminate|].
    apply i_bdead; [lia|assumption].
  - intros b Hb. apply i_bfresh. lia.
  - intros b. rewrite ring_add_In, i_dring.
    destruct (upd_cases (balive s) (nb s) true b) as [[-> E]|[Hn E]]; rewrite E; [tauto|].
    split; [intros [H|H]; [assumption|contradiction]|tauto].
  - apply ring_add_NoDup; [assumption|]. rewrite i_dring. congruence.
  - rewrite (sum_pend_upd _ _ _ _ _ Ht). rewrite Hc. cbn [pend cur at_pc].
    rewrite (sum_pend_ext s).
    2:{ intros i p Ha. apply pend_stable. intros b' E. simpl_st. rewrite upd_other; [reflexivity|]. eapply Hother; eassumption. }
    rewrite (live_bytes_new s _ (nb s) sz); simpl_st; [lia|apply upd_same|apply upd_same|].
    intros k Hk. rewrite !upd_other by lia. now split.
Qed.

(* new serial::memory(buffer, ...): modeMemory_t constructor, modeBuffer->addModeMemoryRef(this) *)
Lemma inv_new_memory s ths t th0 th' b :
  Inv s ths -> nth_error ths t = Some th0 ->
  hm (cur th0) = None -> hm (cur th') = Some (nm s) -> hb (cur th') = None ->
  ((hb (cur th0) = Some b /\ bdes s b = 0) \/ (hb (cur th0) = None /\ bring s b <> [])) ->
  (forall s1 s2, pend s1 (cur th') = pend s2 (cur th0)) ->
  local (snd (new_memory s b)) t (cur th') ->
  Inv (snd (new_memory s b)) (upd_nth ths t th').
Proof.
  intros HI Ht Hm0 Hm' Hb' Hb0 Hp Hl.
  destruct (fresh_mring s ths (nm s) HI (le_n _)) as [Hmr Hma].
  assert (Hbal : balive s b = true /\ bdes s b = 0).
  { destruct Hb0 as [[E D]|[E Hne]].
    - split; [|assumption]. eapply local_hb; [apply (i_local _ _ HI _ _ (at_thr_self _ _ _ Ht))|exact E].
    - now apply (i_bref _ _ HI). }
  destruct Hbal as [Hbal Hbd].
  assert (Hnh : ~ Held hm ths (nm s)).
  { intros H. apply (held_alive_m _ _ _ HI) in H as [H _]. congruence. }
  assert (Hom : forall i p m', at_thr ths i p -> hm p = Some m' -> m' <> nm s).
  { intros i p m' Ha E ->. apply Hnh. exists i, p. now split. }
  assert (Hob : forall i p b', i <> t -> at_thr ths i p -> hb p = Some b' -> b' <> b).
  { intros i p b' Hn Ha E ->. destruct Hb0 as [[E0 _]|[E0 Hne]].
    - apply Hn. eapply (i_bdisj _ _ HI); eauto using at_thr_self.
    - apply Hne. eapply local_hb; [apply (i_local _ _ HI); eassumption|eassumption]. }
  assert (Hmnotin : forall b', ~ In (nm s) (bring s b')).
  { intros b' H. apply (i_bring _ _ HI) in H as [H _]. congruence. }
  assert (Hcnt : (bytes s + sum_pend (snd (new_memory s b)) (upd_nth ths t th') = live_bytes (snd (new_memory s b)) (nb s))%Z).
  { remember (snd (new_memory s b)) as s' eqn:Es'.
    rewrite (sum_pend_upd _ _ _ _ _ Ht). rewrite (Hp s' s), <- (Hp s s'), (Hp s s).
    rewrite (sum_pend_ext s) by (intros; apply pend_stable; intros; subst s'; reflexivity).
    rewrite (live_bytes_ext s); [pose proof (i_bytes _ _ HI); lia|]. intros; subst s'; now split. }
  pose proof HI as HI0. destruct HI. unfold new_memory in *. cbn [snd] in *. constructor; simpl_st; try assumption.
  - rewrite Hbal. cbn. now rewrite i_ub.
  - eapply local_upd; [eassumption|exact Hl|]. intros i p Hn Ha.
    apply (local_stable s); [| |intros; now split|now apply i_local].
    + intros m' E. simpl_st. rewrite upd_other by (eapply Hom; eassumption). now repeat split.
    + intros b' E. simpl_st. rewrite upd_other by (eapply Hob; eassumption). now repeat split.
  - intros h m H. apply i_hptr_lt in H. lia.
  - intros m Hm. destruct (upd_cases (malive s) (nm s) true m) as [[-> _]|[Hn E]]; [lia|].
    rewrite E in Hm. apply i_malive_lt in Hm. lia.
  - intros m Hm. destruct (i_mref m Hm) as [A B]. split; [|assumption].
    rewrite upd_other; [assumption|]. intros ->. congruence.
  - intros m Ha Hr. apply (held_upd_gain hm _ _ _ _ Ht m (nm s)); [assumption|assumption|].
    destruct (upd_cases (malive s) (nm s) true m) as [[-> _]|[Hn E]]; [now left|right].
    rewrite E in Ha. now apply i_mheld.
  - apply (disj_upd_new hm _ _ _ _ Ht (nm s)); assumption.
  - intros m Hlt Hd. destruct (upd_cases (malive s) (nm s) true m) as [[-> E]|[Hn E]]; rewrite E in Hd; [discriminate|].
    apply i_mdead; [lia|assumption].
  - intros m Hlt. apply i_mfresh. lia.
  - intros m b0 H. destruct (upd_cases (mbuf s) (nm s) (Some b) m) as [[-> E]|[Hn E]]; rewrite E in H.
    + inversion H; subst. now apply i_balive_lt.
    + now apply i_mbuf_lt in H.
  - intros m Ha. destruct (Nat.eq_dec m (nm s)) as [->|Hn]; [rewrite upd_same; eauto|].
    rewrite upd_other in Ha by assumption. rewrite upd_other by assumption. now apply i_mbuf_some.
  - intros b0 m.
    destruct (Nat.eq_dec b0 b) as [->|Hnb]; [rewrite upd_same|rewrite (upd_other (bring s)) by assumption];
    (destruct (Nat.eq_dec m (nm s)) as [->|Hnm]; [rewrite !upd_same|rewrite !upd_other by assumption]).
    + rewrite ring_add_In. split; [intros _; repeat split; now apply i_mfresh|now right].
    + rewrite ring_add_In, i_bring. split; [intros [H|H]; [assumption|contradiction]|tauto].
    + split; [intros H; now apply Hmnotin in H|intros (_ & H & _); congruence].
    + apply i_bring.
  - intros b0. destruct (upd_cases (bring s) b (ring_add (bring s b) (nm s)) b0) as [[-> E]|[Hnb E]]; rewrite E; [|apply i_bring_nd].
    apply ring_add_NoDup; [apply i_bring_nd|apply Hmnotin].
  - intros b0. destruct (upd_cases (bring s) b (ring_add (bring s b) (nm s)) b0) as [[-> E]|[Hnb E]]; rewrite E; [|apply i_bref].
    intros _. now split.
  - intros b0 Ha. destruct (upd_cases (bring s) b (ring_add (bring s b) (nm s)) b0) as [[-> E]|[Hnb E]]; rewrite E.
    + unfold ring_add. intros H. apply app_eq_nil in H as [_ H]. discriminate.
    + intros Hr. destruct Hb0 as [[E0 _]|[E0 Hne]].
      * apply (held_upd_lose hb _ _ _ _ Ht b0 b); try assumption. split; [assumption|now apply i_bheld].
      * apply (held_upd_eq hb _ _ _ _ Ht b0); [congruence|now apply i_bheld].
  - destruct Hb0 as [[E0 _]|[E0 Hne]].
    + apply (disj_upd_none hb _ _ _ _ Ht); assumption.
    + apply (disj_upd_eq hb _ _ _ _ Ht); [congruence|assumption].
Qed.
