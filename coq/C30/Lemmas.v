(* C30 — generic lemmas: threads lists, Held/Disj under a step of one thread, the counter sums,
   the ring-as-list operations. *)
From Coq Require Import List Arith Bool ZArith Lia.
From OV.C01 Require Heap.
From OV.C30 Require Import Model Statements.
Import ListNotations.

(* ---------------------------------------------------------------- upd / upd2 *)
Lemma upd_same {A} (f : nat -> A) k v : upd f k v k = v.
Proof. unfold upd. now rewrite Nat.eqb_refl. Qed.
Lemma upd_other {A} (f : nat -> A) k v x : x <> k -> upd f k v x = f x.
Proof. unfold upd. intros H. destruct (Nat.eqb_spec x k); [contradiction|reflexivity]. Qed.
Lemma upd_cases {A} (f : nat -> A) k v x : (x = k /\ upd f k v x = v) \/ (x <> k /\ upd f k v x = f x).
Proof. destruct (Nat.eq_dec x k) as [->|H]; [left; split; [reflexivity|apply upd_same]|right; split; [assumption|now apply upd_other]]. Qed.
Lemma upd2_same {A} (f : nat -> nat -> A) t k v : upd2 f t k v t k = v.
Proof. unfold upd2. now rewrite !Nat.eqb_refl. Qed.
Lemma upd2_other {A} (f : nat -> nat -> A) t k v a b : (a <> t \/ b <> k) -> upd2 f t k v a b = f a b.
Proof.
  unfold upd2. intros H. destruct (Nat.eqb_spec a t); destruct (Nat.eqb_spec b k); cbn; try reflexivity.
  subst. destruct H; contradiction.
Qed.
Lemma upd2_cases {A} (f : nat -> nat -> A) t k v a b :
  (a = t /\ b = k /\ upd2 f t k v a b = v) \/ ((a <> t \/ b <> k) /\ upd2 f t k v a b = f a b).
Proof.
  destruct (Nat.eq_dec a t) as [->|H]; [destruct (Nat.eq_dec b k) as [->|H]|].
  - left. repeat split. apply upd2_same.
  - right. split; [now right|]. apply upd2_other. now right.
  - right. split; [now left|]. apply upd2_other. now left.
Qed.

(* ---------------------------------------------------------------- thread lists *)
Lemma nth_error_upd_nth_same {A} (l : list A) i x y :
  nth_error l i = Some y -> nth_error (upd_nth l i x) i = Some x.
Proof.
  revert i. induction l as [|a l IH]; intros [|i] H; cbn in *; try discriminate; [reflexivity|now apply IH].
Qed.
Lemma nth_error_upd_nth_other {A} (l : list A) i j x :
  i <> j -> nth_error (upd_nth l i x) j = nth_error l j.
Proof.
  revert i j. induction l as [|a l IH]; intros [|i] [|j] H; cbn; try reflexivity; try congruence.
  apply IH. congruence.
Qed.

Lemma at_thr_upd ths t th0 th' i p :
  nth_error ths t = Some th0 ->
  (at_thr (upd_nth ths t th') i p <-> (i = t /\ cur th' = p) \/ (i <> t /\ at_thr ths i p)).
Proof.
  intros Ht. unfold at_thr. destruct (Nat.eq_dec i t) as [->|Hne].
  - rewrite (nth_error_upd_nth_same _ _ _ _ Ht). split.
    + intros (th & E & Hc). inversion E; subst. now left.
    + intros [[_ Hc]|[Hn _]]; [|contradiction]. eauto.
  - rewrite nth_error_upd_nth_other by congruence. split.
    + intros H. right. now split.
    + intros [[E _]|[_ H]]; [contradiction|assumption].
Qed.

Lemma at_thr_self ths t th0 : nth_error ths t = Some th0 -> at_thr ths t (cur th0).
Proof. intros H. exists th0. now split. Qed.

Lemma at_thr_fun ths i p q : at_thr ths i p -> at_thr ths i q -> p = q.
Proof. intros (a & Ha & <-) (b & Hb & <-). congruence. Qed.

(* ---------------------------------------------------------------- Held / Disj *)
Section HeldDisj.
Variable f : pc -> option nat.
Variables (ths : list thread) (t : nat) (th0 th' : thread).
Hypothesis Ht : nth_error ths t = Some th0.

Lemma held_upd_eq x : f (cur th') = f (cur th0) -> (Held f (upd_nth ths t th') x <-> Held f ths x).
Proof.
  intros E. unfold Held. split.
  - intros (i & p & Ha & Hf). apply (at_thr_upd _ _ _ _ _ _ Ht) in Ha as [[-> <-]|[Hn Ha]].
    + exists t, (cur th0). split; [now apply at_thr_self|congruence].
    + eauto.
  - intros (i & p & Ha & Hf). destruct (Nat.eq_dec i t) as [->|Hn].
    + exists t, (cur th'). split; [apply (at_thr_upd _ _ _ _ _ _ Ht); now left|].
      rewrite E. now rewrite (at_thr_fun _ _ _ _ (at_thr_self _ _ _ Ht) Ha).
    + exists i, p. split; [apply (at_thr_upd _ _ _ _ _ _ Ht); now right|assumption].
Qed.

Lemma held_upd_gain x y :
  f (cur th0) = None -> f (cur th') = Some y -> (Held f (upd_nth ths t th') x <-> x = y \/ Held f ths x).
Proof.
  intros E0 E1. unfold Held. split.
  - intros (i & p & Ha & Hf). apply (at_thr_upd _ _ _ _ _ _ Ht) in Ha as [[-> <-]|[Hn Ha]].
    + left. congruence.
    + right. eauto.
  - intros [->|(i & p & Ha & Hf)].
    + exists t, (cur th'). split; [apply (at_thr_upd _ _ _ _ _ _ Ht); now left|assumption].
    + destruct (Nat.eq_dec i t) as [->|Hn].
      * rewrite <- (at_thr_fun _ _ _ _ (at_thr_self _ _ _ Ht) Ha) in Hf. congruence.
      * exists i, p. split; [apply (at_thr_upd _ _ _ _ _ _ Ht); now right|assumption].
Qed.

Lemma held_upd_lose x y :
  Disj f ths -> f (cur th0) = Some y -> f (cur th') = None ->
  (Held f (upd_nth ths t th') x <-> x <> y /\ Held f ths x).
Proof.
  intros D E0 E1. unfold Held. split.
  - intros (i & p & Ha & Hf). apply (at_thr_upd _ _ _ _ _ _ Ht) in Ha as [[-> <-]|[Hn Ha]]; [congruence|].
    split; [|eauto]. intros ->. apply Hn. eapply D; eauto using at_thr_self.
  - intros [Hxy (i & p & Ha & Hf)]. destruct (Nat.eq_dec i t) as [->|Hn].
    + rewrite <- (at_thr_fun _ _ _ _ (at_thr_self _ _ _ Ht) Ha) in Hf. congruence.
    + exists i, p. split; [apply (at_thr_upd _ _ _ _ _ _ Ht); now right|assumption].
Qed.

(* the held object changes from y to z *)
Lemma held_upd_swap x y z :
  Disj f ths -> f (cur th0) = Some y -> f (cur th') = Some z ->
  (Held f (upd_nth ths t th') x <-> x = z \/ (x <> y /\ Held f ths x)).
Proof.
  intros D E0 E1. unfold Held. split.
  - intros (i & p & Ha & Hf). apply (at_thr_upd _ _ _ _ _ _ Ht) in Ha as [[-> <-]|[Hn Ha]]; [left; congruence|].
    right. split; [|eauto]. intros ->. apply Hn. eapply D; eauto using at_thr_self.
  - intros [->|[Hxy (i & p & Ha & Hf)]].
    + exists t, (cur th'). split; [apply (at_thr_upd _ _ _ _ _ _ Ht); now left|assumption].
    + destruct (Nat.eq_dec i t) as [->|Hn].
      * rewrite <- (at_thr_fun _ _ _ _ (at_thr_self _ _ _ Ht) Ha) in Hf. congruence.
      * exists i, p. split; [apply (at_thr_upd _ _ _ _ _ _ Ht); now right|assumption].
Qed.

Lemma disj_upd_eq : f (cur th') = f (cur th0) -> Disj f ths -> Disj f (upd_nth ths t th').
Proof.
  intros E D i j p q x Hi Hj Hp Hq.
  apply (at_thr_upd _ _ _ _ _ _ Ht) in Hi as [[-> <-]|[Hni Hi]];
  apply (at_thr_upd _ _ _ _ _ _ Ht) in Hj as [[-> <-]|[Hnj Hj]]; try reflexivity.
  - rewrite E in Hp. eapply D; eauto using at_thr_self.
  - rewrite E in Hq. eapply D; eauto using at_thr_self.
  - eapply D; eauto.
Qed.

Lemma disj_upd_none : f (cur th') = None -> Disj f ths -> Disj f (upd_nth ths t th').
Proof.
  intros E D i j p q x Hi Hj Hp Hq.
  apply (at_thr_upd _ _ _ _ _ _ Ht) in Hi as [[-> <-]|[Hni Hi]];
  apply (at_thr_upd _ _ _ _ _ _ Ht) in Hj as [[-> <-]|[Hnj Hj]]; try reflexivity; try congruence.
  eapply D; eauto.
Qed.

Lemma disj_upd_new y : f (cur th') = Some y -> ~ Held f ths y -> Disj f ths -> Disj f (upd_nth ths t th').
Proof.
  intros E N D i j p q x Hi Hj Hp Hq.
  apply (at_thr_upd _ _ _ _ _ _ Ht) in Hi as [[-> <-]|[Hni Hi]];
  apply (at_thr_upd _ _ _ _ _ _ Ht) in Hj as [[-> <-]|[Hnj Hj]]; try reflexivity.
  - exfalso. apply N. rewrite E in Hp. inversion Hp; subst. exists j, q. now split.
  - exfalso. apply N. rewrite E in Hq. inversion Hq; subst. exists i, p. now split.
  - eapply D; eauto.
Qed.
End HeldDisj.

Lemma held_self f ths t th0 x : nth_error ths t = Some th0 -> f (cur th0) = Some x -> Held f ths x.
Proof. intros H E. exists t, (cur th0). split; [now apply at_thr_self|assumption]. Qed.

(* a thread other than the holder does not hold the same object *)
Lemma disj_other f ths t th0 i p x :
  Disj f ths -> nth_error ths t = Some th0 -> f (cur th0) = Some x -> at_thr ths i p -> i <> t -> f p <> Some x.
Proof. intros D Ht E Hi Hn Hp. apply Hn. eapply D; eauto using at_thr_self. Qed.

(* ---------------------------------------------------------------- counter sums *)
Lemma sum_pend_upd s ths t th0 th' :
  nth_error ths t = Some th0 ->
  sum_pend s (upd_nth ths t th') = (sum_pend s ths - pend s (cur th0) + pend s (cur th'))%Z.
Proof.
  revert t. induction ths as [|a l IH]; intros [|t] H; cbn in *; try discriminate.
  - inversion H; subst. lia.
  - rewrite (IH _ H). lia.
Qed.

Lemma sum_pend_ext s s' ths :
  (forall i p, at_thr ths i p -> pend s' p = pend s p) -> sum_pend s' ths = sum_pend s ths.
Proof.
  induction ths as [|a l IH]; intros H; cbn; [reflexivity|].
  rewrite (H 0 (cur a)) by (exists a; now split).
  rewrite IH; [reflexivity|]. intros i p (th & Hn & Hc). apply (H (S i)). exists th. now split.
Qed.

Lemma live_bytes_ext s s' n :
  (forall k, k < n -> balive s' k = balive s k /\ bsize s' k = bsize s k) -> live_bytes s' n = live_bytes s n.
Proof.
  induction n as [|n IH]; intros H; cbn; [reflexivity|].
  destruct (H n) as [-> ->]; [lia|]. rewrite IH; [reflexivity|]. intros k Hk. apply H. lia.
Qed.

Lemma live_bytes_kill s s' n b :
  b < n -> balive s b = true -> balive s' b = false ->
  (forall k, k <> b -> balive s' k = balive s k) -> (forall k, bsize s' k = bsize s k) ->
  live_bytes s' n = (live_bytes s n - bsize s b)%Z.
Proof.
  intros Hb Ha Ha' Ho Hs. induction n as [|n IH]; [lia|]. cbn.
  destruct (Nat.eq_dec n b) as [->|Hn].
  - rewrite Ha, Ha'. rewrite (live_bytes_ext s s' b); [lia|].
    intros k Hk. split; [apply Ho; lia|apply Hs].
  - rewrite IH by lia. rewrite Ho by assumption. rewrite Hs. lia.
Qed.

Lemma live_bytes_new s s' n size :
  balive s' n = true -> bsize s' n = size ->
  (forall k, k < n -> balive s' k = balive s k /\ bsize s' k = bsize s k) ->
  live_bytes s' (S n) = (live_bytes s n + size)%Z.
Proof. intros Ha Hs Ho. cbn. rewrite Ha, Hs. now rewrite (live_bytes_ext s s' n Ho). Qed.

(* ---------------------------------------------------------------- rings as lists *)
Lemma ring_rem_In e l x : NoDup l -> (In x (ring_rem e l) <-> In x l /\ x <> e).
Proof. apply Heap.ring_remove_In. Qed.
Lemma ring_rem_NoDup e l : NoDup l -> NoDup (ring_rem e l).
Proof. apply Heap.ring_remove_NoDup. Qed.

Lemma is_nil_true l : is_nil l = true <-> l = [].
Proof. destruct l; cbn; split; congruence. Qed.
Lemma is_nil_false l : is_nil l = false <-> l <> [].
Proof. destruct l; cbn; split; congruence. Qed.

Lemma nil_no_In {A} (l : list A) : l = [] <-> forall x, ~ In x l.
Proof.
  split; [intros -> x []|]. destruct l as [|a l]; [reflexivity|]. intros H. destruct (H a). now left.
Qed.

Lemma ring_rem_nil e l : NoDup l -> (ring_rem e l = [] <-> forall x, In x l -> x = e).
Proof.
  intros Hnd. rewrite nil_no_In. split.
  - intros H x Hx. destruct (Nat.eq_dec x e) as [|Hne]; [assumption|].
    destruct (H x). apply ring_rem_In; [assumption|]. now split.
  - intros H x Hx. apply ring_rem_In in Hx as [Hx Hne]; [|assumption]. apply Hne. now apply H.
Qed.

Lemma ring_add_In l e x : In x (ring_add l e) <-> In x l \/ x = e.
Proof. unfold ring_add. rewrite in_app_iff. cbn. intuition. Qed.
Lemma ring_add_NoDup l e : NoDup l -> ~ In e l -> NoDup (ring_add l e).
Proof.
  unfold ring_add. induction l as [|a l IH]; intros Hnd Hn; cbn.
  - constructor; [intros []|constructor].
  - apply NoDup_cons_iff in Hnd as [Ha Hnd]. constructor.
    + rewrite in_app_iff. cbn. intros [H|[H|[]]]; [contradiction|]. apply Hn. now left.
    + apply IH; [assumption|]. intros H. apply Hn. now right.
Qed.
