(* C30 — every step of every thread preserves the invariant (code after the fixes); what the
   invariant gives; the multiRing lock discipline. *)
From Coq Require Import List Arith Bool ZArith Lia.
From OV.C30 Require Import Model Statements Lemmas Frame Step1 Step2 Step3 Step4.
Import ListNotations.

Lemma inv_flag s ths b : b = false -> Inv s ths -> Inv (flag s b) ths.
Proof.
  intros -> HI. destruct HI. constructor; simpl_st; try assumption.
  - now rewrite orb_false_r.
  - rewrite (sum_pend_ext s) by (intros; now apply pend_stable).
    rewrite (live_bytes_ext s); [assumption|]. intros; now split.
Qed.

Lemma upd_nth_id {A} (l : list A) i x : nth_error l i = Some x -> upd_nth l i x = l.
Proof.
  revert i. induction l as [|a l IH]; intros [|i] H; cbn in *; try discriminate; [congruence|]. f_equal. now apply IH.
Qed.

(* a live handle variable: what it names is alive, referenced, not yet destroyed *)
Lemma handle_facts s ths t v h m :
  Inv s ths -> vars s t v = Some h -> hptr s h = Some m ->
  In h (mring s m) /\ mring s m <> [] /\ malive s m = true /\ mdes s m = 0.
Proof.
  intros HI Hv Hh. assert (Hin : In h (mring s m)). { apply (i_mring _ _ HI). split; [assumption|]. now exists t, v. }
  assert (Hne : mring s m <> []). { intros E. rewrite E in Hin. destruct Hin. }
  destruct (i_mref _ _ HI m Hne). now repeat split.
Qed.

Lemma others_not_building s ths t i p h :
  Inv s ths -> at_thr ths i p -> i <> t -> (nh s <= h \/ exists v, vars s t v = Some h) -> hu p <> Some h.
Proof.
  intros HI Ha Hn Hh E. pose proof (local_hu _ _ _ _ (i_local _ _ HI _ _ Ha) E) as (_ & v & Hv).
  destruct Hh as [Hge|(v' & Hv')].
  - apply (i_vars_lt _ _ HI) in Hv. lia.
  - destruct (i_vars_inj _ _ HI _ _ _ _ _ Hv Hv'). contradiction.
Qed.

Lemma copy_inv s ths t th0 th' a t' d :
  Inv s ths -> nth_error ths t = Some th0 ->
  hm (cur th0) = None -> hb (cur th0) = None -> (forall s1, pend s1 (cur th0) = 0%Z) ->
  hm (cur th') = None -> hb (cur th') = None -> (forall s1, pend s1 (cur th') = 0%Z) ->
  (forall s', local s' t (cur th')) ->
  Inv (do_copy t s a t' d) (upd_nth ths t th').
Proof.
  intros HI Ht Hm0 Hb0 Hp0 Hm1 Hb1 Hp1 Hl.
  assert (Hskip : Inv s (upd_nth ths t th')).
  { eapply inv_pc_only; [exact HI|exact Ht|congruence|congruence|now rewrite Hp0, Hp1|apply Hl]. }
  unfold do_copy.
  destruct (vars s t a) as [hs|] eqn:Es; [|exact Hskip].
  destruct (vars s t' d) eqn:Ev; [exact Hskip|].
  destruct (hptr s hs) as [m|] eqn:Eh; [|exact Hskip].
  destruct (handle_facts _ _ _ _ _ _ HI Es Eh) as (Hin & Hne & Hal & Hd0).
  destruct (inv_new_handle s ths t' d HI Ev) as [HI1 [Hb1' Hb2]].
  unfold new_handle. cbn [fst snd].
  refine (inv_register (snd (new_handle s t' d)) ths t _ th' (nh s) m HI1 Ht Hb1' _ Hal Hd0 _ _ _ _ Hl).
  - destruct Hb2 as [v Hv]. now exists t', v.
  - intros i p Ha Hn. eapply (others_not_building s); eauto.
  - right. Show. repeat split. Show.
  - right. now repeat split.
  - congruence.
  - intros s1 s2. now rewrite Hp0, Hp1.
Qed.

