(* Extraction of the executable model and reference semantics (ExtrOcamlBasic only; Z and nat
   stay the extracted inductives).  coqc runs from /verif/coq. *)
From Coq Require Import Extraction ExtrOcamlBasic.
From OV.C30 Require Import Model Spec.
Extraction Language OCaml.
Extraction "../_work/extract/C30/model.ml"
  fixed pinned mk_sys sys_step seg_step boundary quiescent finished
  obs_created_m obs_destroyed_m obs_created_b obs_destroyed_b
  sp_init sp_step mk_msys msys_step.
