(* C30 — vocabulary of the theorem statements and of the invariant. *)
From Coq Require Import List Arith Bool ZArith Lia.
From OV.C30 Require Import Model.
Import ListNotations.

(* thread i exists and stands at pc p *)
Definition at_thr (ths : list thread) (i : nat) (p : pc) : Prop :=
  exists th, nth_error ths i = Some th /\ cur th = p.

(* a handle variable of some thread names the wrapper h *)
Definition bound (s : st) (h : nat) : Prop := exists t v, vars s t v = Some h.

(* ---------------------------------------------------------------- what a pc means *)
(* the modeMemory_t a thread holds exclusively: one it is constructing (no wrapper yet) or one
   whose last wrapper it removed (it is the one that deletes it) *)
Definition hm (p : pc) : option nat :=
  match p with
  | PMal2 _ _ m _ _ | PSl1 _ m => Some m
  | PDrop1 m (Some true) => Some m
  | PMemRel m | PBuf1 m _ _ | PBufBytes m _ | PBufWr m _ _ | PBufDev m _ | PMemEnd m => Some m
  | _ => None
  end.

(* the modeBuffer_t a thread holds exclusively *)
Definition hb (p : pc) : option nat :=
  match p with
  | PMal1 _ b _ _ => Some b
  | PBuf1 _ b (Some true) => Some b
  | PBufBytes _ b | PBufWr _ b _ | PBufDev _ b => Some b
  | _ => None
  end.

(* bytes of buffers that exist but are not (or no longer) in the counter, per thread in flight *)
Definition pend (s : st) (p : pc) : Z :=
  match p with
  | PMal1 _ _ sz _ | PMal2 _ _ _ sz _ | PMal3 sz _ => sz
  | PBufDev _ b => bsize s b
  | _ => 0%Z
  end.

Fixpoint sum_pend (s : st) (ths : list thread) : Z :=
  match ths with
  | [] => 0%Z
  | th :: r => (pend s (cur th) + sum_pend s r)%Z
  end.

(* sum of the sizes of the buffers that exist *)
Fixpoint live_bytes (s : st) (n : nat) : Z :=
  match n with
  | O => 0%Z
  | S k => (live_bytes s k + (if balive s k then bsize s k else 0))%Z
  end.

Definition Held (f : pc -> option nat) (ths : list thread) (x : nat) : Prop :=
  exists i p, at_thr ths i p /\ f p = Some x.

Definition Disj (f : pc -> option nat) (ths : list thread) : Prop :=
  forall i j p q x, at_thr ths i p -> at_thr ths j q -> f p = Some x -> f q = Some x -> i = j.

(* what thread i knows about the shared state when it stands at p (code after the fixes) *)
Definition mheld (s : st) (m : nat) (d : nat) : Prop :=
  malive s m = true /\ mring s m = [] /\ mdes s m = d.
Definition bheld (s : st) (b : nat) (d : nat) : Prop :=
  balive s b = true /\ bring s b = [] /\ bdes s b = d.
Definition building (s : st) (i h : nat) : Prop :=
  hptr s h = None /\ exists v, vars s i v = Some h.

Definition local (s : st) (i : nat) (p : pc) : Prop :=
  match p with
  | PIdle | PMal3 _ _ | PMalEnd _ | PMalRet _ => True
  | PMal1 h b _ _ => building s i h /\ bheld s b 0
  | PMal2 h _ m _ _ => building s i h /\ mheld s m 0
  | PSl1 h m => building s i h /\ mheld s m 0
  | PDrop1 m (Some true) => mheld s m 0
  | PDrop1 _ (Some false) => True
  | PDrop1 _ None => False
  | PMemRel m => mheld s m 0
  | PBuf1 m b (Some true) => mheld s m 1 /\ bheld s b 0
  | PBuf1 m _ (Some false) => mheld s m 1
  | PBuf1 _ _ None => False
  | PBufBytes m b => mheld s m 1 /\ bheld s b 1
  | PBufDev m b => mheld s m 1 /\ bheld s b 1
  | PMemEnd m => mheld s m 1
  | PMalWr _ _ _ | PBufWr _ _ _ => False
  end.

(* ---------------------------------------------------------------- the invariant *)
Record Inv (s : st) (ths : list thread) : Prop := {
  i_ub       : ub s = false;
  i_local    : forall i p, at_thr ths i p -> local s i p;
  (* wrappers *)
  i_vars_lt  : forall t v h, vars s t v = Some h -> h < nh s;
  i_vars_inj : forall t v t' v' h, vars s t v = Some h -> vars s t' v' = Some h -> t = t' /\ v = v';
  i_hptr_lt  : forall h m, hptr s h = Some m -> h < nh s /\ m < nm s;
  i_mring    : forall m h, In h (mring s m) <-> (hptr s h = Some m /\ bound s h);
  i_mring_nd : forall m, NoDup (mring s m);
  (* modeMemory_t objects *)
  i_malive_lt : forall m, malive s m = true -> m < nm s;
  i_mref     : forall m, mring s m <> [] -> malive s m = true /\ mdes s m = 0;
  i_mheld    : forall m, malive s m = true -> mring s m = [] -> Held hm ths m;
  i_mdisj    : Disj hm ths;
  i_mdead    : forall m, m < nm s -> malive s m = false -> mdes s m = 1;
  i_mfresh   : forall m, nm s <= m -> mdes s m = 0;
  (* modeBuffer_t objects *)
  i_balive_lt : forall b, balive s b = true -> b < nb s;
  i_mbuf_lt  : forall m b, mbuf s m = Some b -> b < nb s;
  i_mbuf_some : forall m, malive s m = true -> exists b, mbuf s m = Some b;
  i_bring    : forall b m, In m (bring s b) <-> (malive s m = true /\ mbuf s m = Some b /\ mdes s m = 0);
  i_bring_nd : forall b, NoDup (bring s b);
  i_bref     : forall b, bring s b <> [] -> balive s b = true /\ bdes s b = 0;
  i_bheld    : forall b, balive s b = true -> bring s b = [] -> Held hb ths b;
  i_bdisj    : Disj hb ths;
  i_bdead    : forall b, b < nb s -> balive s b = false -> bdes s b = 1;
  i_bfresh   : forall b, nb s <= b -> bdes s b = 0;
  i_dring    : forall b, In b (dring s) <-> balive s b = true;
  i_dring_nd : NoDup (dring s);
  (* allocation counter *)
  i_bytes    : (bytes s + sum_pend s ths = live_bytes s (nb s))%Z
}.

(* ---------------------------------------------------------------- what the property asks *)
Record Good (c : sys) : Prop := {
  (* no destroyed object is read, written or destroyed again *)
  g_no_ub  : ub (heap c) = false;
  (* no double free: no destructor runs twice on one object *)
  g_once_m : forall m, mdes (heap c) m <= 1;
  g_once_b : forall b, bdes (heap c) b <= 1;
  (* no lost reference: what a handle variable names is alive, registered, and so is all it hangs on *)
  g_ref    : forall t v h m, vars (heap c) t v = Some h -> hptr (heap c) h = Some m ->
               In h (mring (heap c) m) /\ malive (heap c) m = true /\
               exists b, mbuf (heap c) m = Some b /\ In m (bring (heap c) b) /\
                         balive (heap c) b = true /\ In b (dring (heap c));
  (* whenever no thread is inside a call: no leak, every unreferenced object was destroyed
     exactly once, and the counter is the sum of the sizes of the buffers that exist *)
  g_quiet  : (forall i p, at_thr (thr c) i p -> p = PIdle) ->
             (forall m, m < nm (heap c) ->
                (malive (heap c) m = true <-> exists h, bound (heap c) h /\ hptr (heap c) h = Some m) /\
                mdes (heap c) m = (if malive (heap c) m then 0 else 1)) /\
             (forall b, b < nb (heap c) ->
                (balive (heap c) b = true <-> exists m, malive (heap c) m = true /\ mbuf (heap c) m = Some b) /\
                bdes (heap c) b = (if balive (heap c) b then 0 else 1)) /\
             bytes (heap c) = live_bytes (heap c) (nb (heap c))
}.

(* multiRing_t: the mutex is only unlocked by its holder and the protected region is only
   executed by the holder *)
Definition MGood (c : msys) : Prop :=
  bad_unlock (mxs c) = 0 /\ unprotected (mxs c) = 0.
