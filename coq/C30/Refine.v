(* C30 — why a ring critical section may be modelled as one step on a list.
   Inside `mutex.lock(); ...; mutex.unlock()` the sharable ring_t::addRef / removeRef run the same
   pointer code as the single-threaded build, which coq/C01/Model.v transcribes pointer by pointer
   (leftRingEntry / rightRingEntry / head).  C01's Heap.v proves what that code does to a heap of
   well-formed rings described by ghost lists [G]; here those lemmas are restated with the list
   operations of coq/C30/Model.v, so that one C30 step = one locked run of the C01 function. *)
From Coq Require Import List Arith Bool.
From OV.C01 Require Import Model Heap.
From OV.C30 Require Model.
Import ListNotations.

(* ring_t::addRef(entry) under the lock, entry in no ring: the ring's list gets the entry at its end *)
Theorem locked_addRef_is_ring_add s G o sl e :
  heap_ok s G -> alive s o = true -> alive s e = true -> free_of G e ->
  exists s', ring_addRef o sl e s = Some (tt, s') /\ same_obj s s' /\
             heap_ok s' (upd2 G o sl (OV.C30.Model.ring_add (G o sl) e)).
Proof. apply ring_addRef_out. Qed.

(* ring_t::removeRef(entry) under the lock, entry in this ring: the ring's list loses the entry *)
Theorem locked_removeRef_is_ring_rem s G o sl e :
  heap_ok s G -> alive s o = true -> In e (G o sl) ->
  exists s', ring_removeRef o sl e s = Some (tt, s') /\ same_obj s s' /\
             heap_ok s' (upd2 G o sl (OV.C30.Model.ring_rem e (G o sl))).
Proof. apply ring_removeRef_in. Qed.

(* ring_t::needsFree(): useRefs && head == NULL is emptiness of the list *)
Theorem needsFree_is_nil s G o :
  heap_ok s G -> alive s o = true ->
  needsFree o s = Some (ouse s o && OV.C30.Model.is_nil (G o SH), s).
Proof. intros Hk Ho. rewrite (needsFree_run s G o Hk Ho). unfold OV.C30.Model.is_nil. reflexivity. Qed.
