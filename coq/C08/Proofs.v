(* C08/C09 — proofs. *)
From Coq Require Import List NArith Bool Lia Arith.
From OV.C08 Require Import Model Statements.
Import ListNotations.
Local Open Scope N_scope.

(* ---------- basic facts about the file-system map ---------- *)
Lemma path_eqb_refl p : path_eqb p p = true.
Proof. destruct p; cbn; apply N.eqb_refl. Qed.

Lemma path_eqb_eq p q : path_eqb p q = true <-> p = q.
Proof.
  destruct p, q; cbn; split; intro H; try discriminate; try (apply N.eqb_eq in H; now subst);
    inversion H; apply N.eqb_refl.
Qed.

Lemma path_eqb_neq p q : path_eqb p q = false <-> p <> q.
Proof.
  split.
  - intros H E. apply path_eqb_eq in E. congruence.
  - intros H. destruct (path_eqb p q) eqn:E; [|reflexivity]. apply path_eqb_eq in E. contradiction.
Qed.

Lemma lookup_set_eq p st s : lookup p (set p st s) = st.
Proof. unfold set; cbn. now rewrite path_eqb_refl. Qed.

Lemma lookup_set_neq p q st s : p <> q -> lookup p (set q st s) = lookup p s.
Proof. intros H. unfold set; cbn. apply path_eqb_neq in H. now rewrite H. Qed.

Lemma FT_neq n k : F n <> T k. Proof. discriminate. Qed.
Lemma TF_neq n k : T k <> F n. Proof. discriminate. Qed.

Lemma fstate_eqb_eq a b : fstate_eqb a b = true <-> a = b.
Proof. destruct a, b; cbn; split; intro; congruence. Qed.

(* ---------- part 1: a conforming trace is crash safe at every prefix ---------- *)
Lemma op_ok_preserves s o :
  finals_ok s -> op_ok s o = true -> finals_ok (apply_op s o).
Proof.
  intros Hs Hok n. destruct o as [p|p|p|a b|p|p|]; cbn [apply_op op_ok] in *.
  - apply andb_prop in Hok as [Hp _]. destruct p; cbn in Hp; try discriminate.
    rewrite lookup_set_neq by discriminate. apply Hs.
  - destruct p; cbn in Hok; try discriminate.
    destruct (lookup (T k) s); [apply Hs| |]; rewrite lookup_set_neq by discriminate; apply Hs.
  - destruct (lookup p s) eqn:E; try apply Hs.
    destruct (path_eqb (F n) p) eqn:Ep.
    + apply path_eqb_eq in Ep. subst p. rewrite lookup_set_eq. discriminate.
    + apply path_eqb_neq in Ep. rewrite lookup_set_neq by exact Ep. apply Hs.
  - apply andb_prop in Hok as [Ha Hc]. apply fstate_eqb_eq in Hc.
    destruct a; cbn in Ha; try discriminate. rewrite Hc.
    rewrite lookup_set_neq by discriminate.
    destruct (path_eqb (F n) b) eqn:Eb.
    + apply path_eqb_eq in Eb. subst b. rewrite lookup_set_eq. discriminate.
    + apply path_eqb_neq in Eb. rewrite lookup_set_neq by exact Eb. apply Hs.
  - destruct p; cbn in Hok; try discriminate. rewrite lookup_set_neq by discriminate. apply Hs.
  - apply Hs.
  - apply Hs.
Qed.

Lemma crash_safe_trace : forall t s0,
  finals_ok s0 -> protocol_ok_from s0 t = true ->
  forall n, finals_ok (run_ops s0 (firstn n t)).
Proof.
  induction t as [|o t IH]; intros s0 H0 Hok n.
  - destruct n; exact H0.
  - destruct n as [|n]; [exact H0|].
    cbn [protocol_ok_from] in Hok. apply andb_prop in Hok as [Ho Ht].
    cbn [firstn run_ops fold_left]. apply IH; [|exact Ht].
    now apply op_ok_preserves.
Qed.

Lemma finals_ok_nil : finals_ok [].
Proof. intros n. cbn. discriminate. Qed.

(* ---------- part 2: the process system ---------- *)
Definition cur_stages (p : pstate) : list (N * N) :=
  match p with
  | PStart st _ => st
  | PStage _ n k todo _ => (n, k) :: todo
  | _ => []
  end.

Definition ptemps (p : pstate) : list N := temps (cur_stages p).

Definition phase_state (ph : phase) : fstate :=
  match ph with
  | PCheck | PCreate => Absent
  | PWrite | PClose => Partial
  | PRename => Complete
  end.

Definition pinv (s : fs) (p : pstate) : Prop :=
  NoDup (ptemps p) /\
  match p with
  | PStart st _ => forall k, In k (temps st) -> lookup (T k) s = Absent
  | PStage ph n k todo _ =>
      lookup (T k) s = phase_state ph /\
      forall k', In k' (temps todo) -> lookup (T k') s = Absent
  | _ => True
  end.

Lemma pinv_next_stage s todo bin :
  NoDup (temps todo) -> (forall k, In k (temps todo) -> lookup (T k) s = Absent) ->
  pinv s (next_stage todo bin).
Proof.
  intros Hnd Hab. destruct todo as [|[n k] todo]; cbn.
  - split; [constructor|exact I].
  - split; [exact Hnd|]. split.
    + apply Hab. cbn. now left.
    + intros k' Hk'. apply Hab. cbn. now right.
Qed.

Lemma ptemps_next_stage todo bin : ptemps (next_stage todo bin) = temps todo.
Proof. destruct todo as [|[n k] todo]; reflexivity. Qed.

(* effect of one step of a process on everything *)
Lemma proc_step_facts s p s' p' o :
  finals_ok s -> pinv s p -> proc_step s p = (s', p', o) ->
  finals_ok s' /\ pinv s' p' /\ incl (ptemps p') (ptemps p) /\
  (forall k, ~ In k (ptemps p) -> lookup (T k) s' = lookup (T k) s) /\
  (forall n, lookup (F n) s = Complete -> lookup (F n) s' = Complete).
Proof.
  intros Hf [Hnd Hp] Hstep. destruct p as [st bin|ph n k todo bin|bin|]; cbn in Hstep.
  - (* PStart *)
    destruct (present (F bin) s); inversion Hstep; subst; clear Hstep.
    + split; [|split; [|split; [|split]]]; auto.
      * split; [constructor|exact I].
      * intros x Hx; inversion Hx.
    + split; [|split; [|split; [|split]]]; auto.
      * apply pinv_next_stage; assumption.
      * rewrite ptemps_next_stage. apply incl_refl.
  - destruct Hp as [Hk Htodo]. cbn [ptemps cur_stages temps map snd] in Hnd.
    assert (Hnd' : NoDup (temps todo)) by (inversion Hnd; assumption).
    assert (Hknot : ~ In k (temps todo)) by (inversion Hnd; assumption).
    destruct ph; cbn in Hstep.
    + (* PCheck *)
      destruct (present (F n) s); inversion Hstep; subst; clear Hstep.
      * split; [|split; [|split; [|split]]]; auto.
        -- apply pinv_next_stage; assumption.
        -- rewrite ptemps_next_stage. cbn. apply incl_tl, incl_refl.
      * split; [|split; [|split; [|split]]]; auto.
        -- split; [exact Hnd|]. split; assumption.
        -- apply incl_refl.
    + (* PCreate *)
      inversion Hstep; subst; clear Hstep. cbn [apply_op].
      split; [|split; [|split; [|split]]].
      * intros m. rewrite lookup_set_neq by discriminate. apply Hf.
      * split; [exact Hnd|]. split.
        -- apply lookup_set_eq.
        -- intros k' Hk'. rewrite lookup_set_neq; [now apply Htodo|].
           intros E; inversion E; subst. contradiction.
      * apply incl_refl.
      * intros k0 Hk0. rewrite lookup_set_neq; [reflexivity|].
        intros E; inversion E; subst. apply Hk0. cbn. now left.
      * intros m Hm. now rewrite lookup_set_neq by discriminate.
    + (* PWrite *)
      inversion Hstep; subst; clear Hstep. cbn [apply_op]. cbn in Hk. rewrite Hk.
      split; [|split; [|split; [|split]]].
      * intros m. rewrite lookup_set_neq by discriminate. apply Hf.
      * split; [exact Hnd|]. split.
        -- apply lookup_set_eq.
        -- intros k' Hk'. rewrite lookup_set_neq; [now apply Htodo|].
           intros E; inversion E; subst. contradiction.
      * apply incl_refl.
      * intros k0 Hk0. rewrite lookup_set_neq; [reflexivity|].
        intros E; inversion E; subst. apply Hk0. cbn. now left.
      * intros m Hm. now rewrite lookup_set_neq by discriminate.
    + (* PClose *)
      inversion Hstep; subst; clear Hstep. cbn [apply_op]. cbn in Hk. rewrite Hk.
      split; [|split; [|split; [|split]]].
      * intros m. rewrite lookup_set_neq by discriminate. apply Hf.
      * split; [exact Hnd|]. split.
        -- apply lookup_set_eq.
        -- intros k' Hk'. rewrite lookup_set_neq; [now apply Htodo|].
           intros E; inversion E; subst. contradiction.
      * apply incl_refl.
      * intros k0 Hk0. rewrite lookup_set_neq; [reflexivity|].
        intros E; inversion E; subst. apply Hk0. cbn. now left.
      * intros m Hm. now rewrite lookup_set_neq by discriminate.
    + (* PRename *)
      inversion Hstep; subst; clear Hstep. cbn [apply_op]. cbn in Hk. rewrite Hk.
      split; [|split; [|split; [|split]]].
      * intros m. rewrite lookup_set_neq by discriminate.
        destruct (N.eq_dec m n) as [->|Hmn].
        -- rewrite lookup_set_eq. discriminate.
        -- rewrite lookup_set_neq by congruence. apply Hf.
      * apply pinv_next_stage; [exact Hnd'|].
        intros k' Hk'. rewrite lookup_set_neq.
        -- rewrite lookup_set_neq by discriminate. now apply Htodo.
        -- intros E; inversion E; subst. contradiction.
      * rewrite ptemps_next_stage. cbn. apply incl_tl, incl_refl.
      * intros k0 Hk0. rewrite lookup_set_neq.
        -- now rewrite lookup_set_neq by discriminate.
        -- intros E; inversion E; subst. apply Hk0. cbn. now left.
      * intros m Hm. rewrite lookup_set_neq by discriminate.
        destruct (N.eq_dec m n) as [->|Hmn].
        -- apply lookup_set_eq.
        -- now rewrite lookup_set_neq by congruence.
  - inversion Hstep; subst. split; [|split; [|split; [|split]]]; auto.
    + split; [constructor|exact I].
    + apply incl_refl.
  - inversion Hstep; subst. split; [|split; [|split; [|split]]]; auto.
    + split; [constructor|exact I].
    + apply incl_refl.
Qed.

(* a process whose temps are untouched keeps its invariant *)
Lemma pinv_frame s s' p :
  pinv s p -> (forall k, In k (ptemps p) -> lookup (T k) s' = lookup (T k) s) -> pinv s' p.
Proof.
  intros [Hnd Hp] Hfr. split; [exact Hnd|].
  destruct p as [st bin|ph n k todo bin|bin|]; auto.
  - intros k Hk. rewrite Hfr by exact Hk. now apply Hp.
  - destruct Hp as [Hk Htodo]. split.
    + rewrite Hfr; [exact Hk|]. cbn. now left.
    + intros k' Hk'. rewrite Hfr; [now apply Htodo|]. cbn. now right.
Qed.

Definition sys_inv (owner : N -> nat) (st : sys) : Prop :=
  finals_ok (s_fs st) /\
  forall i p, nth_error (s_procs st) i = Some p ->
    pinv (s_fs st) p /\ forall k, In k (ptemps p) -> owner k = i.

Lemma nth_error_upd_eq {A} (l : list A) i x y :
  nth_error l i = Some y -> nth_error (upd l i x) i = Some x.
Proof.
  revert i; induction l as [|a l IH]; intros [|i] H; cbn in *; try discriminate; auto.
Qed.

Lemma nth_error_upd_neq {A} (l : list A) i j x :
  i <> j -> nth_error (upd l i x) j = nth_error l j.
Proof.
  revert i j; induction l as [|a l IH]; intros [|i] [|j] H; cbn; auto; try congruence.
Qed.

Lemma sys_inv_step owner st i : sys_inv owner st -> sys_inv owner (sys_step st i).
Proof.
  intros [Hf Hps]. unfold sys_step.
  destruct (nth_error (s_procs st) i) as [p|] eqn:Ei; [|split; assumption].
  destruct (proc_step (s_fs st) p) as [[s' p'] o] eqn:Es.
  destruct (Hps i p Ei) as [Hpi Hown].
  destruct (proc_step_facts _ _ _ _ _ Hf Hpi Es) as (Hf' & Hp' & Hincl & Hframe & _).
  split; [exact Hf'|]. cbn [s_fs s_procs].
  intros j q Hj. destruct (Nat.eq_dec i j) as [<-|Hij].
  - rewrite (nth_error_upd_eq _ _ _ _ Ei) in Hj. inversion Hj; subst q.
    split; [exact Hp'|]. intros k Hk. apply Hown. now apply Hincl.
  - rewrite nth_error_upd_neq in Hj by exact Hij.
    destruct (Hps j q Hj) as [Hq Hownq]. split; [|exact Hownq].
    apply pinv_frame with (s := s_fs st); [exact Hq|].
    intros k Hk. apply Hframe. intros Hin. apply Hij.
    rewrite <- (Hown k Hin). now apply Hownq.
Qed.

Lemma sys_inv_run owner sched : forall st, sys_inv owner st -> sys_inv owner (sys_run st sched).
Proof.
  induction sched as [|i sched IH]; intros st H; [exact H|].
  cbn [sys_run fold_left]. apply IH. now apply sys_inv_step.
Qed.

Lemma nth_init_procs : forall cfgs i p,
  nth_error (init_procs cfgs) i = Some p ->
  exists c, nth_error cfgs i = Some c /\ p = PStart (fst c) (snd c).
Proof.
  induction cfgs as [|c cfgs IH]; intros [|i] p H; cbn in H; try discriminate.
  - inversion H. exists c. split; reflexivity.
  - apply IH in H. exact H.
Qed.

Lemma nth_init_procs_some : forall cfgs i c,
  nth_error cfgs i = Some c -> nth_error (init_procs cfgs) i = Some (PStart (fst c) (snd c)).
Proof.
  induction cfgs as [|c0 cfgs IH]; intros [|i] c H; cbn in *; try discriminate.
  - now inversion H.
  - now apply IH.
Qed.

Lemma sys_inv_init owner cfgs s0 :
  finals_ok s0 -> fresh_temps owner cfgs s0 ->
  sys_inv owner {| s_fs := s0; s_procs := init_procs cfgs |}.
Proof.
  intros Hf Hfr. split; [exact Hf|]. cbn [s_fs s_procs]. intros i p Hi.
  apply nth_init_procs in Hi as (c & Ec & ->). destruct (Hfr i c Ec) as [Hnd Hk].
  split.
  - split; [exact Hnd|]. intros k Hin. apply (Hk k Hin).
  - intros k Hin. apply (Hk k Hin).
Qed.

(* every interleaving, every kill point: no completion-tested file is ever partial *)
Lemma no_partial_final_any_schedule owner cfgs s0 sched :
  finals_ok s0 -> fresh_temps owner cfgs s0 ->
  finals_ok (s_fs (sys_run {| s_fs := s0; s_procs := init_procs cfgs |} sched)).
Proof.
  intros Hf Hfr. apply (sys_inv_run owner sched). now apply sys_inv_init.
Qed.

(* ---------- part 3: every process that finishes has a complete binary ---------- *)
Definition pgoal (bin : N) (s : fs) (p : pstate) : Prop :=
  match p with
  | PStart st b => b = bin /\ In bin (names st)
  | PStage _ n k todo b => b = bin /\ (lookup (F bin) s = Complete \/ In bin (n :: names todo))
  | PLoad b => b = bin /\ lookup (F bin) s = Complete
  | PDone => lookup (F bin) s = Complete
  end.

Lemma present_complete s n : finals_ok s -> present (F n) s = true -> lookup (F n) s = Complete.
Proof.
  intros Hf Hp. unfold present in Hp. specialize (Hf n).
  destruct (lookup (F n) s); cbn in Hp; congruence.
Qed.

Lemma pgoal_next_stage bin s todo :
  lookup (F bin) s = Complete \/ In bin (names todo) -> pgoal bin s (next_stage todo bin).
Proof.
  intros H. destruct todo as [|[n k] todo]; cbn.
  - split; [reflexivity|]. destruct H as [H|[]]. exact H.
  - split; [reflexivity|]. exact H.
Qed.

Lemma pgoal_step bin s p s' p' o :
  finals_ok s -> pinv s p -> pgoal bin s p -> proc_step s p = (s', p', o) -> pgoal bin s' p'.
Proof.
  intros Hf [Hnd Hp] Hg Hstep.
  destruct p as [st b|ph n k todo b|b|]; cbn in Hstep.
  - destruct Hg as [-> Hin]. destruct (present (F bin) s) eqn:Epr; inversion Hstep; subst; clear Hstep.
    + split; [reflexivity|]. now apply present_complete.
    + apply pgoal_next_stage. now right.
  - destruct Hg as [-> Hg]. destruct Hp as [Hk Htodo].
    destruct ph; cbn in Hstep.
    + destruct (present (F n) s) eqn:Epr; inversion Hstep; subst; clear Hstep.
      * apply pgoal_next_stage. destruct Hg as [Hg|[Hg|Hg]]; auto.
        subst n. left. now apply present_complete.
      * split; [reflexivity|exact Hg].
    + inversion Hstep; subst; clear Hstep. split; [reflexivity|].
      destruct Hg as [Hg|Hg]; [left|now right]. cbn [apply_op].
      now rewrite lookup_set_neq by discriminate.
    + inversion Hstep; subst; clear Hstep. split; [reflexivity|].
      destruct Hg as [Hg|Hg]; [left|now right]. cbn [apply_op]. cbn in Hk. rewrite Hk.
      now rewrite lookup_set_neq by discriminate.
    + inversion Hstep; subst; clear Hstep. split; [reflexivity|].
      destruct Hg as [Hg|Hg]; [left|now right]. cbn [apply_op]. cbn in Hk. rewrite Hk.
      now rewrite lookup_set_neq by discriminate.
    + inversion Hstep; subst; clear Hstep. apply pgoal_next_stage.
      cbn [apply_op]. cbn in Hk. rewrite Hk. rewrite lookup_set_neq by discriminate.
      destruct (N.eq_dec bin n) as [->|Hne].
      * left. apply lookup_set_eq.
      * rewrite lookup_set_neq by congruence.
        destruct Hg as [Hg|[Hg|Hg]]; auto. congruence.
  - destruct Hg as [-> Hg]. inversion Hstep; subst. exact Hg.
  - inversion Hstep; subst. exact Hg.
Qed.

Lemma pgoal_mono bin s s' p :
  (forall n, lookup (F n) s = Complete -> lookup (F n) s' = Complete) ->
  pgoal bin s p -> pgoal bin s' p.
Proof.
  intros Hm Hg. destruct p as [st b|ph n k todo b|b|]; cbn in *.
  - exact Hg.
  - destruct Hg as [-> [Hg|Hg]]; split; auto.
  - destruct Hg as [-> Hg]; split; auto.
  - auto.
Qed.

Definition goal_inv (cfgs : list cfg) (st : sys) : Prop :=
  forall i c p, nth_error cfgs i = Some c -> nth_error (s_procs st) i = Some p ->
    pgoal (snd c) (s_fs st) p.

Lemma goal_inv_step owner cfgs st i :
  sys_inv owner st -> goal_inv cfgs st -> goal_inv cfgs (sys_step st i).
Proof.
  intros [Hf Hps] Hg. unfold sys_step.
  destruct (nth_error (s_procs st) i) as [p|] eqn:Ei; [|exact Hg].
  destruct (proc_step (s_fs st) p) as [[s' p'] o] eqn:Es.
  destruct (Hps i p Ei) as [Hpi Hown].
  destruct (proc_step_facts _ _ _ _ _ Hf Hpi Es) as (Hf' & Hp' & Hincl & Hframe & Hmono).
  intros j c q Hc Hj. cbn [s_fs s_procs] in *.
  destruct (Nat.eq_dec i j) as [<-|Hij].
  - rewrite (nth_error_upd_eq _ _ _ _ Ei) in Hj. inversion Hj; subst q.
    apply (pgoal_step (snd c) (s_fs st) p s' p' o Hf Hpi); [|exact Es]. now apply (Hg i c p).
  - rewrite nth_error_upd_neq in Hj by exact Hij.
    eapply pgoal_mono; [exact Hmono|]. now apply (Hg j c q).
Qed.

Lemma goal_inv_run owner cfgs sched : forall st,
  sys_inv owner st -> goal_inv cfgs st -> goal_inv cfgs (sys_run st sched).
Proof.
  induction sched as [|i sched IH]; intros st Hs Hg; [exact Hg|].
  cbn [sys_run fold_left]. apply IH; [now apply sys_inv_step|now apply (goal_inv_step owner)].
Qed.

Lemma goal_inv_init cfgs s0 :
  stages_bin cfgs -> goal_inv cfgs {| s_fs := s0; s_procs := init_procs cfgs |}.
Proof.
  intros Hb i c p Hc Hp. cbn [s_procs] in Hp.
  apply nth_init_procs in Hp as (c' & Ec & ->). rewrite Hc in Ec. inversion Ec; subst c'. cbn.
  split; [reflexivity|]. now apply (Hb i c).
Qed.

Lemma finished_has_binary owner cfgs s0 sched i c p :
  finals_ok s0 -> fresh_temps owner cfgs s0 -> stages_bin cfgs ->
  let st := sys_run {| s_fs := s0; s_procs := init_procs cfgs |} sched in
  nth_error cfgs i = Some c -> nth_error (s_procs st) i = Some p -> finished p ->
  lookup (F (snd c)) (s_fs st) = Complete.
Proof.
  intros Hf Hfr Hb st Hc Hp Hfin.
  assert (Hg : goal_inv cfgs st).
  { apply (goal_inv_run owner); [now apply sys_inv_init|now apply goal_inv_init]. }
  specialize (Hg i c p Hc Hp). destruct p; cbn in Hfin; try contradiction; cbn in Hg.
  - now destruct Hg.
  - exact Hg.
Qed.

(* ---------- part 4: a process run alone from any safe state terminates with the binary ---------- *)
Definition measure (p : pstate) : nat :=
  (match p with
  | PStart st _ => 5 * length st + 2
  | PStage ph _ _ todo _ =>
      5 * length todo + 1 +
      match ph with PCheck => 5 | PCreate => 4 | PWrite => 3 | PClose => 2 | PRename => 1 end
  | PLoad _ => 1
  | PDone => 0
  end)%nat.

Lemma measure_next_stage todo bin : (measure (next_stage todo bin) <= 5 * length todo + 1)%nat.
Proof. destruct todo as [|[n k] todo]; cbn [next_stage measure length]; lia. Qed.

Lemma measure_step s p s' p' o :
  p <> PDone -> proc_step s p = (s', p', o) -> (measure p' < measure p)%nat.
Proof.
  intros Hne Hstep. destruct p as [st b|ph n k todo b|b|]; cbn in Hstep; try congruence.
  - destruct (present (F b) s); inversion Hstep; subst; cbn [measure]; [lia|].
    pose proof (measure_next_stage st b). lia.
  - destruct ph; cbn in Hstep;
      try (inversion Hstep; subst; cbn [measure]; lia).
    + destruct (present (F n) s); inversion Hstep; subst; cbn [measure]; [|lia].
      pose proof (measure_next_stage todo b). lia.
    + inversion Hstep; subst. pose proof (measure_next_stage todo b). cbn [measure]. lia.
  - inversion Hstep; subst. cbn. lia.
Qed.

Lemma run_alone_done : forall fuel s p,
  (measure p <= fuel)%nat -> snd (fst (run_alone fuel s p)) = PDone.
Proof.
  induction fuel as [|f IH]; intros s p Hm.
  - destruct p; cbn in Hm; try lia. reflexivity.
  - cbn [run_alone]. destruct p as [st b|ph n k todo b|b|] eqn:Ep; try reflexivity;
      destruct (proc_step s p) as [[s' p'] o] eqn:Es; subst p; rewrite Es;
      (assert (Hlt : (measure p' < measure _)%nat) by (eapply measure_step; [|exact Es]; discriminate));
      specialize (IH s' p'); destruct (run_alone f s' p') as [[s'' p''] os]; cbn in *; apply IH; lia.
Qed.

(* ---------- part 5: killing at any point, then a fresh process run to completion ---------- *)
Lemma sys_step_nth st j p :
  nth_error (s_procs st) j = Some p ->
  nth_error (s_procs (sys_step st j)) j = Some (snd (fst (proc_step (s_fs st) p))).
Proof.
  intros E. unfold sys_step. rewrite E.
  destruct (proc_step (s_fs st) p) as [[s' p'] o]. cbn [s_procs fst snd].
  now apply nth_error_upd_eq with (y := p).
Qed.

Lemma solo_steps j : forall n st p,
  nth_error (s_procs st) j = Some p -> (measure p <= n)%nat ->
  nth_error (s_procs (sys_run st (repeat j n))) j = Some PDone.
Proof.
  induction n as [|n IH]; intros st p E Hm.
  - cbn. destruct p; cbn in Hm; try lia. exact E.
  - cbn [repeat sys_run fold_left].
    pose proof (sys_step_nth st j p E) as E'.
    destruct (proc_step (s_fs st) p) as [[s' p'] o] eqn:Es. cbn [fst snd] in E'.
    apply (IH _ p' E').
    destruct p as [sg b|ph m k todo b|b|].
    1-3: (assert (measure p' < measure _)%nat by (eapply measure_step; [|exact Es]; discriminate); lia).
    cbn in Es. inversion Es; subst. cbn. lia.
Qed.

Lemma measure_nonincr_step st i j p :
  nth_error (s_procs st) j = Some p ->
  exists p', nth_error (s_procs (sys_step st i)) j = Some p' /\ (measure p' <= measure p)%nat.
Proof.
  intros E. destruct (Nat.eq_dec i j) as [->|Hij].
  - rewrite (sys_step_nth st j p E).
    destruct (proc_step (s_fs st) p) as [[s' p'] o] eqn:Es. cbn [fst snd].
    exists p'. split; [reflexivity|].
    destruct p as [sg b|ph m k todo b|b|].
    1-3: (assert (measure p' < measure _)%nat by (eapply measure_step; [|exact Es]; discriminate); lia).
    cbn in Es. inversion Es; subst. cbn. lia.
  - exists p. split; [|lia]. unfold sys_step.
    destruct (nth_error (s_procs st) i) as [q|] eqn:Ei; [|exact E].
    destruct (proc_step (s_fs st) q) as [[s' q'] o]. cbn [s_procs].
    now rewrite nth_error_upd_neq by exact Hij.
Qed.

Lemma measure_nonincr_run sched j : forall st p,
  nth_error (s_procs st) j = Some p ->
  exists p', nth_error (s_procs (sys_run st sched)) j = Some p' /\ (measure p' <= measure p)%nat.
Proof.
  induction sched as [|i sched IH]; intros st p E.
  - exists p. split; [exact E|lia].
  - cbn [sys_run fold_left].
    destruct (measure_nonincr_step st i j p E) as (p1 & E1 & H1).
    destruct (IH _ p1 E1) as (p2 & E2 & H2). exists p2. split; [exact E2|lia].
Qed.

Lemma sys_run_app st a b : sys_run st (a ++ b) = sys_run (sys_run st a) b.
Proof. unfold sys_run. apply fold_left_app. Qed.

Lemma kill_then_rebuild owner cfgs s0 sched j c :
  finals_ok s0 -> fresh_temps owner cfgs s0 -> stages_bin cfgs ->
  nth_error cfgs j = Some c ->
  let st := sys_run {| s_fs := s0; s_procs := init_procs cfgs |}
                    (sched ++ repeat j (fuel_for (fst c))) in
  nth_error (s_procs st) j = Some PDone /\
  lookup (F (snd c)) (s_fs st) = Complete /\
  finals_ok (s_fs st).
Proof.
  intros Hf Hfr Hb Hc st.
  assert (E0 : nth_error (init_procs cfgs) j = Some (PStart (fst c) (snd c))).
  { now apply nth_init_procs_some. }
  set (st0 := {| s_fs := s0; s_procs := init_procs cfgs |}) in *.
  destruct (measure_nonincr_run sched j st0 _ E0) as (p1 & E1 & H1).
  assert (Hdone : nth_error (s_procs st) j = Some PDone).
  { unfold st. rewrite sys_run_app. apply (solo_steps j _ _ p1 E1).
    cbn [measure] in H1. unfold fuel_for. lia. }
  split; [exact Hdone|]. split.
  - apply (finished_has_binary owner cfgs s0 (sched ++ repeat j (fuel_for (fst c))) j c PDone);
      auto. exact I.
  - now apply (no_partial_final_any_schedule owner).
Qed.

(* ---------- part 6: a binary is never complete before its build.json ---------- *)
Lemma proc_step_final_frame s p s' p' o m :
  proc_step s p = (s', p', o) ->
  lookup (F m) s' = lookup (F m) s \/ exists k todo b, p = PStage PRename m k todo b.
Proof.
  intros Hstep. destruct p as [sg b|ph n k todo b|b|]; cbn in Hstep.
  - destruct (present (F b) s); inversion Hstep; subst; now left.
  - destruct ph; cbn in Hstep.
    + destruct (present (F n) s); inversion Hstep; subst; now left.
    + inversion Hstep; subst. left. cbn [apply_op]. now rewrite lookup_set_neq by discriminate.
    + inversion Hstep; subst. left. cbn [apply_op].
      destruct (lookup (T k) s); [reflexivity| |]; now rewrite lookup_set_neq by discriminate.
    + inversion Hstep; subst. left. cbn [apply_op].
      destruct (lookup (T k) s); reflexivity.
    + inversion Hstep; subst. cbn [apply_op].
      destruct (N.eq_dec m n) as [->|Hne]; [right; eauto|left].
      destruct (lookup (T k) s); [reflexivity| |];
        rewrite lookup_set_neq by discriminate; now rewrite lookup_set_neq by congruence.
  - inversion Hstep; subst; now left.
  - inversion Hstep; subst; now left.
Qed.

(* the stages already passed by a process are complete *)
Definition pmeta (sg : list (N * N)) (s : fs) (p : pstate) : Prop :=
  match p with
  | PStart sg' _ => sg' = sg
  | PStage _ n k todo _ =>
      exists pre, sg = pre ++ (n, k) :: todo /\
                  forall m, In m (names pre) -> lookup (F m) s = Complete
  | _ => True
  end.

Lemma pmeta_next_stage sg s pre todo b :
  sg = pre ++ todo -> (forall m, In m (names pre) -> lookup (F m) s = Complete) ->
  pmeta sg s (next_stage todo b).
Proof.
  intros E H. destruct todo as [|[n k] todo]; cbn; [exact I|]. exists pre. split; assumption.
Qed.

Lemma pmeta_step sg s p s' p' o :
  finals_ok s -> pinv s p -> pmeta sg s p -> proc_step s p = (s', p', o) ->
  (forall n, lookup (F n) s = Complete -> lookup (F n) s' = Complete) ->
  pmeta sg s' p'.
Proof.
  intros Hf [Hnd Hp] Hm Hstep Hmono.
  destruct p as [sg' b|ph n k todo b|b|]; cbn in Hstep.
  - cbn in Hm. subst sg'. destruct (present (F b) s); inversion Hstep; subst; [exact I|].
    apply pmeta_next_stage with (pre := []); [reflexivity|]. intros m [].
  - destruct Hm as (pre & Esg & Hpre). destruct Hp as [Hk Htodo].
    assert (Hpre' : forall m, In m (names pre) -> lookup (F m) s' = Complete)
      by (intros m Hin; apply Hmono; now apply Hpre).
    destruct ph; cbn in Hstep.
    + destruct (present (F n) s) eqn:Epr; inversion Hstep; subst; clear Hstep.
      * apply pmeta_next_stage with (pre := pre ++ [(n, k)]).
        -- now rewrite <- app_assoc.
        -- intros m Hin. unfold names in Hin. rewrite map_app in Hin.
           apply in_app_or in Hin as [Hin|[<-|[]]]; [now apply Hpre|].
           now apply present_complete.
      * exists pre. split; auto.
    + inversion Hstep; subst. exists pre. split; auto.
    + inversion Hstep; subst. exists pre. split; auto.
    + inversion Hstep; subst. exists pre. split; auto.
    + inversion Hstep; subst; clear Hstep.
      apply pmeta_next_stage with (pre := pre ++ [(n, k)]).
      * now rewrite <- app_assoc.
      * intros m Hin. unfold names in Hin. rewrite map_app in Hin.
        apply in_app_or in Hin as [Hin|[<-|[]]]; [now apply Hpre'|].
        cbn [apply_op fst]. cbn in Hk. rewrite Hk.
        rewrite lookup_set_neq by discriminate. apply lookup_set_eq.
  - inversion Hstep; subst. exact I.
  - inversion Hstep; subst. exact I.
Qed.

Lemma pmeta_mono sg s s' p :
  (forall n, lookup (F n) s = Complete -> lookup (F n) s' = Complete) ->
  pmeta sg s p -> pmeta sg s' p.
Proof.
  intros Hm H. destruct p as [sg' b|ph n k todo b|b|]; cbn in *; auto.
  destruct H as (pre & E & Hpre). exists pre. split; auto.
Qed.

Definition meta_inv (json bin : N) (cfgs : list cfg) (st : sys) : Prop :=
  (lookup (F bin) (s_fs st) = Complete -> lookup (F json) (s_fs st) = Complete) /\
  (forall i c p, nth_error cfgs i = Some c -> nth_error (s_procs st) i = Some p ->
    pmeta (fst c) (s_fs st) p) /\
  (forall i p, nth_error (s_procs st) i = Some p -> exists c, nth_error cfgs i = Some c).

Lemma nth_error_upd_some {A} (l : list A) i j x q :
  nth_error (upd l i x) j = Some q -> exists q', nth_error l j = Some q'.
Proof.
  revert i j; induction l as [|a l IH]; intros [|i] [|j] H; cbn in *; try discriminate; eauto.
Qed.

Lemma meta_inv_step owner json bin cfgs st i :
  json_before_bin json bin cfgs ->
  sys_inv owner st -> meta_inv json bin cfgs st -> meta_inv json bin cfgs (sys_step st i).
Proof.
  intros Hjb [Hf Hps] (HG & Hpm & Hdom). unfold sys_step.
  destruct (nth_error (s_procs st) i) as [p|] eqn:Ei; [|repeat split; assumption].
  destruct (proc_step (s_fs st) p) as [[s' p'] o] eqn:Es.
  destruct (Hps i p Ei) as [Hpi Hown].
  destruct (proc_step_facts _ _ _ _ _ Hf Hpi Es) as (Hf' & Hp' & Hincl & Hframe & Hmono).
  cbn [s_fs s_procs]. split; [|split].
  - intros Hb. destruct (proc_step_final_frame _ _ _ _ _ bin Es) as [Heq|(k & todo & b & ->)].
    + apply Hmono. apply HG. now rewrite <- Heq.
    + (* this step is the rename onto the binary: its build.json was staged before *)
      destruct (Hdom i _ Ei) as (c & Ec).
      destruct (Hjb i c Ec) as [_ Hbefore].
      destruct (Hpm i c _ Ec Ei) as (pre & Esg & Hpre).
      apply Hmono. apply Hpre. now apply (Hbefore pre todo k).
  - intros j c q Hc Hj. cbn [s_fs s_procs] in *. destruct (Nat.eq_dec i j) as [<-|Hij].
    + rewrite (nth_error_upd_eq _ _ _ _ Ei) in Hj. inversion Hj; subst q.
      apply (pmeta_step (fst c) (s_fs st) p s' p' o Hf Hpi); auto. now apply (Hpm i c p).
    + rewrite nth_error_upd_neq in Hj by exact Hij.
      eapply pmeta_mono; [exact Hmono|]. now apply (Hpm j c q).
  - intros j q Hj. cbn [s_procs] in Hj. apply nth_error_upd_some in Hj as (q' & Hq'). now apply (Hdom j q').
Qed.

Lemma meta_inv_run owner json bin cfgs sched : forall st,
  json_before_bin json bin cfgs ->
  sys_inv owner st -> meta_inv json bin cfgs st -> meta_inv json bin cfgs (sys_run st sched).
Proof.
  induction sched as [|i sched IH]; intros st Hjb Hs Hm; [exact Hm|].
  cbn [sys_run fold_left]. apply IH; [exact Hjb|now apply sys_inv_step|now apply (meta_inv_step owner)].
Qed.

Lemma binary_implies_metadata owner json bin cfgs s0 sched :
  finals_ok s0 -> fresh_temps owner cfgs s0 -> json_before_bin json bin cfgs ->
  (lookup (F bin) s0 = Complete -> lookup (F json) s0 = Complete) ->
  let st := sys_run {| s_fs := s0; s_procs := init_procs cfgs |} sched in
  lookup (F bin) (s_fs st) = Complete -> lookup (F json) (s_fs st) = Complete.
Proof.
  intros Hf Hfr Hjb H0 st.
  assert (Hm : meta_inv json bin cfgs st).
  { apply (meta_inv_run owner); [exact Hjb|now apply sys_inv_init|].
    split; [exact H0|]. cbn [s_fs s_procs]. split.
    - intros i c p Hc Hp. apply nth_init_procs in Hp as (c' & Ec & ->).
      rewrite Hc in Ec. inversion Ec; subst c'. reflexivity.
    - intros i p Hp. apply nth_init_procs in Hp as (c & Ec & _). eauto. }
  exact (proj1 Hm).
Qed.

(* ---------- part 7 (C09): concurrent builders ---------- *)
(* whenever a process is about to load the binary, the binary is complete *)
Lemma load_sees_complete owner cfgs s0 sched i c b :
  finals_ok s0 -> fresh_temps owner cfgs s0 -> stages_bin cfgs ->
  let st := sys_run {| s_fs := s0; s_procs := init_procs cfgs |} sched in
  nth_error cfgs i = Some c ->
  nth_error (s_procs st) i = Some (PLoad b) ->
  lookup (F b) (s_fs st) = Complete.
Proof.
  intros Hf Hfr Hb st Hc Hp.
  assert (Hg : goal_inv cfgs st).
  { apply (goal_inv_run owner); [now apply sys_inv_init|now apply goal_inv_init]. }
  specialize (Hg i c _ Hc Hp). cbn in Hg. destruct Hg as [-> Hg]. exact Hg.
Qed.

Lemma measure_zero p : measure p = 0%nat -> p = PDone.
Proof. destruct p as [st b|ph n k todo b|b|]; cbn; try lia; auto; destruct ph; lia. Qed.

Lemma measure_decr_step st i j p :
  nth_error (s_procs st) j = Some p ->
  exists p', nth_error (s_procs (sys_step st i)) j = Some p' /\
             (measure p' <= measure p - (if Nat.eqb i j then 1 else 0))%nat.
Proof.
  intros E. destruct (Nat.eqb_spec i j) as [->|Hij].
  - rewrite (sys_step_nth st j p E).
    destruct (proc_step (s_fs st) p) as [[s' p'] o] eqn:Es. cbn [fst snd].
    exists p'. split; [reflexivity|].
    destruct p as [sg b|ph m k todo b|b|].
    1-3: (assert (measure p' < measure _)%nat by (eapply measure_step; [|exact Es]; discriminate); lia).
    cbn in Es. inversion Es; subst. cbn. lia.
  - exists p. split; [|lia]. unfold sys_step.
    destruct (nth_error (s_procs st) i) as [q|] eqn:Ei; [|exact E].
    destruct (proc_step (s_fs st) q) as [[s' q'] o]. cbn [s_procs].
    now rewrite nth_error_upd_neq by exact Hij.
Qed.

Lemma measure_decr_run sched j : forall st p,
  nth_error (s_procs st) j = Some p ->
  exists p', nth_error (s_procs (sys_run st sched)) j = Some p' /\
             (measure p' <= measure p - count_occ Nat.eq_dec sched j)%nat.
Proof.
  induction sched as [|i sched IH]; intros st p E.
  - exists p. split; [exact E|cbn; lia].
  - cbn [sys_run fold_left]. fold (sys_run (sys_step st i) sched).
    destruct (measure_decr_step st i j p E) as (p1 & E1 & H1).
    destruct (IH _ p1 E1) as (p2 & E2 & H2). exists p2. split; [exact E2|].
    cbn [count_occ]. destruct (Nat.eq_dec i j) as [->|Hne].
    + rewrite Nat.eqb_refl in H1. lia.
    + apply Nat.eqb_neq in Hne. rewrite Hne in H1. lia.
Qed.

(* every process that is scheduled often enough finishes, with a complete binary, whatever
   the other processes do in between *)
Lemma all_succeed owner cfgs s0 sched j c :
  finals_ok s0 -> fresh_temps owner cfgs s0 -> stages_bin cfgs ->
  nth_error cfgs j = Some c ->
  (fuel_for (fst c) <= count_occ Nat.eq_dec sched j)%nat ->
  let st := sys_run {| s_fs := s0; s_procs := init_procs cfgs |} sched in
  nth_error (s_procs st) j = Some PDone /\ lookup (F (snd c)) (s_fs st) = Complete.
Proof.
  intros Hf Hfr Hb Hc Hcnt st.
  pose proof (nth_init_procs_some cfgs j c Hc) as E0.
  destruct (measure_decr_run sched j {| s_fs := s0; s_procs := init_procs cfgs |} _ E0) as (p & Ep & Hm).
  assert (p = PDone).
  { apply measure_zero. cbn [measure] in Hm. unfold fuel_for in Hcnt. lia. }
  subst p. split; [exact Ep|].
  apply (finished_has_binary owner cfgs s0 sched j c PDone); auto. exact I.
Qed.

(* once the binary is there, a new build only loads it: nothing is created, nothing compiled *)
Lemma run_alone_PDone fuel s : run_alone fuel s PDone = (s, PDone, []).
Proof. destruct fuel; reflexivity. Qed.

Lemma cache_reused s st bin :
  lookup (F bin) s = Complete -> emitted s st bin = [ORead (F bin)].
Proof.
  intros H. unfold emitted, fuel_for.
  replace (5 * length st + 3)%nat with (S (S (5 * length st + 1))) by lia.
  generalize (5 * length st + 1)%nat as n. intros n.
  cbn. unfold present. rewrite H. cbn. rewrite run_alone_PDone. reflexivity.
Qed.
