(* C08/C09 — proofs for staging groups and guards (GModel.v). *)
From Coq Require Import List NArith Bool Lia Arith.
From OV.C08 Require Import Model Statements Proofs GModel.
Import ListNotations.
Local Open Scope N_scope.

Definition gtemps (p : gstate) : list N :=
  match p with
  | GRun _ _ cur todo => map snd cur ++ prog_temps todo
  | GAt todo => prog_temps todo
  | GDone => []
  end.

(* state of the temp of the j-th file of the current group, by phase *)
Definition tstate (ph : gph) (j : nat) : fstate :=
  match ph with
  | GCheck => Absent
  | GCreate i => if Nat.ltb j i then Complete else Absent
  | GWrite i | GClose i => if Nat.ltb j i then Complete else if Nat.eqb j i then Partial else Absent
  | GRename i => if Nat.ltb j i then Absent else Complete
  end.

Definition ph_index_ok (ph : gph) (n : nat) : Prop :=
  match ph with
  | GCheck => True
  | GCreate i | GWrite i | GClose i | GRename i => (i < n)%nat
  end.

Definition tk (cur : list (N * N)) (j : nat) : N := snd (nth_file cur j).

Definition gpinv (s : fs) (p : gstate) : Prop :=
  NoDup (gtemps p) /\
  match p with
  | GRun ph _ cur todo =>
      cur <> [] /\ ph_index_ok ph (length cur) /\
      (forall j, (j < length cur)%nat -> lookup (T (tk cur j)) s = tstate ph j) /\
      (forall k, In k (prog_temps todo) -> lookup (T k) s = Absent)
  | GAt todo => forall k, In k (prog_temps todo) -> lookup (T k) s = Absent
  | GDone => True
  end.

Lemma tk_nth cur j : tk cur j = nth j (map snd cur) 0.
Proof. unfold tk, nth_file. now rewrite <- (map_nth snd cur (0, 0) j). Qed.

Lemma tk_in cur j : (j < length cur)%nat -> In (tk cur j) (map snd cur).
Proof. intros H. rewrite tk_nth. apply nth_In. now rewrite map_length. Qed.

Lemma tk_inj cur i j :
  NoDup (map snd cur) -> (i < length cur)%nat -> (j < length cur)%nat -> tk cur i = tk cur j -> i = j.
Proof.
  intros Hnd Hi Hj E. rewrite !tk_nth in E.
  apply (proj1 (NoDup_nth (map snd cur) 0) Hnd); rewrite ?map_length; assumption.
Qed.

Lemma NoDup_app_l {A} (l1 l2 : list A) : NoDup (l1 ++ l2) -> NoDup l1.
Proof. induction l1 as [|a l1 IH]; intros H; [constructor|]. inversion H; subst. constructor; [|auto]. intros Hin. apply H2. apply in_or_app. now left. Qed.

Lemma NoDup_app_r {A} (l1 l2 : list A) : NoDup (l1 ++ l2) -> NoDup l2.
Proof. induction l1 as [|a l1 IH]; intros H; [exact H|]. inversion H; subst. auto. Qed.

Lemma NoDup_app_disj {A} (l1 l2 : list A) x : NoDup (l1 ++ l2) -> In x l1 -> In x l2 -> False.
Proof.
  induction l1 as [|a l1 IH]; intros H H1 H2; [inversion H1|].
  inversion H; subst. destruct H1 as [->|H1].
  - apply H4. apply in_or_app. now right.
  - eauto.
Qed.

Lemma gpinv_at s todo :
  NoDup (prog_temps todo) -> (forall k, In k (prog_temps todo) -> lookup (T k) s = Absent) -> gpinv s (GAt todo).
Proof. intros H1 H2. split; assumption. Qed.

(* one step: everything we need *)
Lemma gstep_facts any_skip s p s' p' o :
  finals_ok s -> gpinv s p -> gstep any_skip s p = (s', p', o) ->
  finals_ok s' /\ gpinv s' p' /\ incl (gtemps p') (gtemps p) /\
  (forall k, ~ In k (gtemps p) -> lookup (T k) s' = lookup (T k) s) /\
  (forall n, lookup (F n) s = Complete -> lookup (F n) s' = Complete).
Proof.
  intros Hf [Hnd Hp] Hstep.
  destruct p as [ph skip cur todo|todo|].
  - (* GRun *)
    destruct Hp as (Hne & Hix & Hcur & Htodo).
    cbn [gtemps] in Hnd.
    pose proof (NoDup_app_l _ _ Hnd) as Hndc. pose proof (NoDup_app_r _ _ Hnd) as Hndt.
    assert (Hsep : forall j k, (j < length cur)%nat -> In k (prog_temps todo) -> tk cur j <> k).
    { intros j k Hj Hk E. subst k. eapply NoDup_app_disj; [exact Hnd| |exact Hk]. now apply tk_in. }
    destruct ph as [|i|i|i|i]; cbn [gstep] in Hstep.
    + (* GCheck *)
      destruct (skip && (if any_skip then any_present cur s else all_present cur s)); inversion Hstep; subst; clear Hstep.
      * split; [exact Hf|]. split; [now apply gpinv_at|]. split.
        -- cbn [gtemps]. apply incl_appr, incl_refl.
        -- split; auto.
      * split; [exact Hf|]. split.
        -- split; [exact Hnd|]. split; [exact Hne|]. split.
           ++ cbn. destruct cur; [congruence|cbn; lia].
           ++ split; [|exact Htodo]. intros j Hj. rewrite (Hcur j Hj). cbn [tstate]. reflexivity.
        -- split; [apply incl_refl|]. split; auto.
    + (* GCreate i *)
      inversion Hstep; subst; clear Hstep. cbn [apply_op]. fold (tk cur i). cbn in Hix.
      split; [intros m; rewrite lookup_set_neq by discriminate; apply Hf|]. split.
      * split; [exact Hnd|]. split; [exact Hne|]. split; [exact Hix|]. split.
        -- intros j Hj. destruct (Nat.eq_dec j i) as [->|Hji].
           ++ rewrite lookup_set_eq. cbn [tstate]. rewrite Nat.ltb_irrefl, Nat.eqb_refl. reflexivity.
           ++ rewrite lookup_set_neq.
              ** rewrite (Hcur j Hj). cbn [tstate].
                 destruct (Nat.ltb j i) eqn:E; [reflexivity|].
                 apply Nat.eqb_neq in Hji. now rewrite Hji.
              ** intros E. inversion E as [E']. apply Hji. now apply (tk_inj cur j i).
        -- intros k Hk. rewrite lookup_set_neq; [now apply Htodo|].
           intros E; inversion E as [E']. now apply (Hsep i k Hix Hk).
      * split; [apply incl_refl|]. split.
        -- intros k Hk. rewrite lookup_set_neq; [reflexivity|].
           intros E; inversion E as [E']. apply Hk. cbn [gtemps]. apply in_or_app. left. rewrite E'. now apply tk_in.
        -- intros m Hm. now rewrite lookup_set_neq by discriminate.
    + (* GWrite i *)
      inversion Hstep; subst; clear Hstep. cbn [apply_op]. fold (tk cur i). cbn in Hix.
      assert (Hi : lookup (T (tk cur i)) s = Partial).
      { rewrite (Hcur i Hix). cbn [tstate]. now rewrite Nat.ltb_irrefl, Nat.eqb_refl. }
      rewrite Hi.
      split; [intros m; rewrite lookup_set_neq by discriminate; apply Hf|]. split.
      * split; [exact Hnd|]. split; [exact Hne|]. split; [exact Hix|]. split.
        -- intros j Hj. destruct (Nat.eq_dec j i) as [->|Hji].
           ++ rewrite lookup_set_eq. cbn [tstate]. rewrite Nat.ltb_irrefl, Nat.eqb_refl. reflexivity.
           ++ rewrite lookup_set_neq; [now rewrite (Hcur j Hj)|].
              intros E. inversion E as [E']. apply Hji. now apply (tk_inj cur j i).
        -- intros k Hk. rewrite lookup_set_neq; [now apply Htodo|].
           intros E; inversion E as [E']. now apply (Hsep i k Hix Hk).
      * split; [apply incl_refl|]. split.
        -- intros k Hk. rewrite lookup_set_neq; [reflexivity|].
           intros E; inversion E as [E']. apply Hk. cbn [gtemps]. apply in_or_app. left. rewrite E'. now apply tk_in.
        -- intros m Hm. now rewrite lookup_set_neq by discriminate.
    + (* GClose i *)
      cbn in Hix.
      assert (Hi : lookup (T (tk cur i)) s = Partial).
      { rewrite (Hcur i Hix). cbn [tstate]. now rewrite Nat.ltb_irrefl, Nat.eqb_refl. }
      assert (Hs' : s' = set (T (tk cur i)) Complete s).
      { inversion Hstep; subst. cbn [apply_op]. fold (tk cur i). now rewrite Hi. }
      assert (Hcur' : forall j, (j < length cur)%nat ->
                lookup (T (tk cur j)) s' = if Nat.ltb j (S i) then Complete else Absent).
      { intros j Hj. rewrite Hs'. destruct (Nat.eq_dec j i) as [->|Hji].
        - rewrite lookup_set_eq. assert (Nat.ltb i (S i) = true) by (apply Nat.ltb_lt; lia). now rewrite H.
        - rewrite lookup_set_neq.
          + rewrite (Hcur j Hj). cbn [tstate]. destruct (Nat.ltb j i) eqn:E.
            * apply Nat.ltb_lt in E. assert (Nat.ltb j (S i) = true) by (apply Nat.ltb_lt; lia). now rewrite H.
            * apply Nat.ltb_ge in E. assert (Nat.eqb j i = false) by (apply Nat.eqb_neq; exact Hji).
              assert (Nat.ltb j (S i) = false) by (apply Nat.ltb_ge; lia). now rewrite H, H0.
          + intros E. inversion E as [E']. apply Hji. now apply (tk_inj cur j i). }
      assert (Htodo' : forall k, In k (prog_temps todo) -> lookup (T k) s' = Absent).
      { intros k Hk. rewrite Hs'. rewrite lookup_set_neq; [now apply Htodo|].
        intros E; inversion E as [E']. now apply (Hsep i k Hix Hk). }
      assert (Hfin : finals_ok s') by (rewrite Hs'; intros m; rewrite lookup_set_neq by discriminate; apply Hf).
      assert (Hframe : forall k, ~ In k (gtemps (GRun (GClose i) skip cur todo)) -> lookup (T k) s' = lookup (T k) s).
      { intros k Hk. rewrite Hs'. rewrite lookup_set_neq; [reflexivity|].
        intros E; inversion E as [E']. apply Hk. cbn [gtemps]. apply in_or_app. left. rewrite E'. now apply tk_in. }
      assert (Hmono : forall n, lookup (F n) s = Complete -> lookup (F n) s' = Complete)
        by (intros m Hm; rewrite Hs'; now rewrite lookup_set_neq by discriminate).
      assert (Hp'eq : p' = if Nat.ltb (S i) (length cur) then GRun (GCreate (S i)) skip cur todo else GRun (GRename 0) skip cur todo)
        by (inversion Hstep; reflexivity).
      clear Hstep. subst p'.
      destruct (Nat.ltb (S i) (length cur)) eqn:El.
      * apply Nat.ltb_lt in El.
        split; [exact Hfin|]. split.
        -- split; [exact Hnd|]. split; [exact Hne|]. split; [exact El|]. split; [|exact Htodo'].
           intros j Hj. rewrite (Hcur' j Hj). reflexivity.
        -- split; [apply incl_refl|]. split; assumption.
      * apply Nat.ltb_ge in El.
        split; [exact Hfin|]. split.
        -- split; [exact Hnd|]. split; [exact Hne|]. split; [cbn; lia|]. split; [|exact Htodo'].
           intros j Hj. rewrite (Hcur' j Hj). cbn [tstate].
           assert (Nat.ltb j (S i) = true) by (apply Nat.ltb_lt; lia). now rewrite H.
        -- split; [apply incl_refl|]. split; assumption.
    + (* GRename i *)
      cbn in Hix.
      assert (Hi : lookup (T (tk cur i)) s = Complete).
      { rewrite (Hcur i Hix). cbn [tstate]. now rewrite Nat.ltb_irrefl. }
      set (fn := fst (nth_file cur i)) in *.
      assert (Hs' : s' = set (T (tk cur i)) Absent (set (F fn) Complete s)).
      { inversion Hstep; subst. cbn [apply_op]. fold (tk cur i). now rewrite Hi. }
      assert (Hcur' : forall j, (j < length cur)%nat ->
                lookup (T (tk cur j)) s' = if Nat.ltb j (S i) then Absent else Complete).
      { intros j Hj. rewrite Hs'. destruct (Nat.eq_dec j i) as [->|Hji].
        - rewrite lookup_set_eq. assert (Nat.ltb i (S i) = true) by (apply Nat.ltb_lt; lia). now rewrite H.
        - rewrite lookup_set_neq.
          + rewrite lookup_set_neq by discriminate. rewrite (Hcur j Hj). cbn [tstate]. destruct (Nat.ltb j i) eqn:E.
            * apply Nat.ltb_lt in E. assert (Nat.ltb j (S i) = true) by (apply Nat.ltb_lt; lia). now rewrite H.
            * apply Nat.ltb_ge in E. assert (Nat.ltb j (S i) = false) by (apply Nat.ltb_ge; lia). now rewrite H.
          + intros E. inversion E as [E']. apply Hji. now apply (tk_inj cur j i). }
      assert (Htodo' : forall k, In k (prog_temps todo) -> lookup (T k) s' = Absent).
      { intros k Hk. rewrite Hs'. rewrite lookup_set_neq.
        - rewrite lookup_set_neq by discriminate. now apply Htodo.
        - intros E; inversion E as [E']. now apply (Hsep i k Hix Hk). }
      assert (Hfin : finals_ok s').
      { rewrite Hs'. intros m. rewrite lookup_set_neq by discriminate.
        destruct (N.eq_dec m fn) as [->|Hm]; [rewrite lookup_set_eq; discriminate|].
        rewrite lookup_set_neq by congruence. apply Hf. }
      assert (Hframe : forall k, ~ In k (gtemps (GRun (GRename i) skip cur todo)) -> lookup (T k) s' = lookup (T k) s).
      { intros k Hk. rewrite Hs'. rewrite lookup_set_neq.
        - now rewrite lookup_set_neq by discriminate.
        - intros E; inversion E as [E']. apply Hk. cbn [gtemps]. apply in_or_app. left. rewrite E'. now apply tk_in. }
      assert (Hmono : forall n, lookup (F n) s = Complete -> lookup (F n) s' = Complete).
      { intros m Hm. rewrite Hs'. rewrite lookup_set_neq by discriminate.
        destruct (N.eq_dec m fn) as [->|Hne']; [apply lookup_set_eq|]. now rewrite lookup_set_neq by congruence. }
      assert (Hp'eq : p' = if Nat.ltb (S i) (length cur) then GRun (GRename (S i)) skip cur todo else GAt todo)
        by (inversion Hstep; reflexivity).
      clear Hstep. subst p'.
      destruct (Nat.ltb (S i) (length cur)) eqn:El.
      * apply Nat.ltb_lt in El.
        split; [exact Hfin|]. split.
        -- split; [exact Hnd|]. split; [exact Hne|]. split; [exact El|]. split; [|exact Htodo'].
           intros j Hj. rewrite (Hcur' j Hj). reflexivity.
        -- split; [apply incl_refl|]. split; assumption.
      * split; [exact Hfin|]. split; [now apply gpinv_at|]. split.
        -- cbn [gtemps]. apply incl_appr, incl_refl.
        -- split; assumption.
  - (* GAt *)
    cbn [gtemps] in Hnd. destruct todo as [|[n|skip cur] todo]; cbn [gstep] in Hstep.
    + inversion Hstep; subst. split; [exact Hf|]. split; [split; [constructor|exact I]|].
      split; [apply incl_refl|]. split; auto.
    + destruct (present (F n) s); inversion Hstep; subst; clear Hstep.
      * split; [exact Hf|]. split; [split; [constructor|exact I]|]. split; [intros x []|]. split; auto.
      * split; [exact Hf|]. split; [now apply gpinv_at|]. split; [apply incl_refl|]. split; auto.
    + cbn [prog_temps flat_map] in Hnd, Hp. fold (prog_temps todo) in Hnd, Hp.
      destruct cur as [|f cur].
      * inversion Hstep; subst; clear Hstep.
        split; [exact Hf|]. split; [now apply gpinv_at|]. split; [apply incl_refl|]. split; auto.
      * inversion Hstep; subst; clear Hstep.
        split; [exact Hf|]. split.
        -- split; [exact Hnd|]. split; [discriminate|]. split; [exact I|]. split.
           ++ intros j Hj. cbn [tstate]. apply Hp. apply in_or_app. left. now apply tk_in.
           ++ intros k Hk. apply Hp. apply in_or_app. now right.
        -- split; [apply incl_refl|]. split; auto.
  - inversion Hstep; subst. split; [exact Hf|]. split; [split; [constructor|exact I]|].
    split; [apply incl_refl|]. split; auto.
Qed.

Lemma gpinv_frame s s' p :
  gpinv s p -> (forall k, In k (gtemps p) -> lookup (T k) s' = lookup (T k) s) -> gpinv s' p.
Proof.
  intros [Hnd Hp] Hfr. split; [exact Hnd|].
  destruct p as [ph skip cur todo|todo|]; auto.
  - destruct Hp as (Hne & Hix & Hcur & Htodo). repeat split; auto.
    + intros j Hj. rewrite Hfr; [now apply Hcur|]. cbn [gtemps]. apply in_or_app. left. now apply tk_in.
    + intros k Hk. rewrite Hfr; [now apply Htodo|]. cbn [gtemps]. apply in_or_app. now right.
  - intros k Hk. rewrite Hfr; [now apply Hp|]. exact Hk.
Qed.

Definition gsys_inv (owner : N -> nat) (st : gsys) : Prop :=
  finals_ok (gs_fs st) /\
  forall i p, nth_error (gs_procs st) i = Some p ->
    gpinv (gs_fs st) p /\ forall k, In k (gtemps p) -> owner k = i.

Lemma gsys_inv_step any_skip owner st i : gsys_inv owner st -> gsys_inv owner (gsys_step any_skip st i).
Proof.
  intros [Hf Hps]. unfold gsys_step.
  destruct (nth_error (gs_procs st) i) as [p|] eqn:Ei; [|split; assumption].
  destruct (gstep any_skip (gs_fs st) p) as [[s' p'] o] eqn:Es.
  destruct (Hps i p Ei) as [Hpi Hown].
  destruct (gstep_facts _ _ _ _ _ _ Hf Hpi Es) as (Hf' & Hp' & Hincl & Hframe & _).
  split; [exact Hf'|]. cbn [gs_fs gs_procs].
  intros j q Hj. destruct (Nat.eq_dec i j) as [<-|Hij].
  - rewrite (nth_error_upd_eq _ _ _ _ Ei) in Hj. inversion Hj; subst q.
    split; [exact Hp'|]. intros k Hk. apply Hown. now apply Hincl.
  - rewrite nth_error_upd_neq in Hj by exact Hij.
    destruct (Hps j q Hj) as [Hq Hownq]. split; [|exact Hownq].
    apply gpinv_frame with (s := gs_fs st); [exact Hq|].
    intros k Hk. apply Hframe. intros Hin. apply Hij.
    rewrite <- (Hown k Hin). now apply Hownq.
Qed.

Lemma gsys_inv_run any_skip owner sched : forall st,
  gsys_inv owner st -> gsys_inv owner (gsys_run any_skip st sched).
Proof.
  induction sched as [|i sched IH]; intros st H; [exact H|].
  cbn [gsys_run fold_left]. apply IH. now apply gsys_inv_step.
Qed.

Definition ginit (progs : list (list instr)) : list gstate := map GAt progs.

Definition gfresh (owner : N -> nat) (progs : list (list instr)) (s0 : fs) : Prop :=
  forall i pr, nth_error progs i = Some pr ->
    NoDup (prog_temps pr) /\ forall k, In k (prog_temps pr) -> owner k = i /\ lookup (T k) s0 = Absent.

Lemma nth_ginit : forall progs i p,
  nth_error (ginit progs) i = Some p -> exists pr, nth_error progs i = Some pr /\ p = GAt pr.
Proof.
  induction progs as [|c progs IH]; intros [|i] p H; cbn in H; try discriminate.
  - inversion H. exists c. split; reflexivity.
  - now apply IH.
Qed.

Lemma nth_ginit_some : forall progs i pr,
  nth_error progs i = Some pr -> nth_error (ginit progs) i = Some (GAt pr).
Proof.
  induction progs as [|c progs IH]; intros [|i] pr H; cbn in *; try discriminate.
  - now inversion H.
  - now apply IH.
Qed.

Lemma gsys_inv_init owner progs s0 :
  finals_ok s0 -> gfresh owner progs s0 -> gsys_inv owner {| gs_fs := s0; gs_procs := ginit progs |}.
Proof.
  intros Hf Hfr. split; [exact Hf|]. cbn [gs_fs gs_procs]. intros i p Hi.
  apply nth_ginit in Hi as (pr & Epr & ->). destruct (Hfr i pr Epr) as [Hnd Hk].
  split.
  - split; [exact Hnd|]. intros k Hin. apply (Hk k Hin).
  - intros k Hin. apply (Hk k Hin).
Qed.

Lemma g_no_partial_final owner any_skip progs s0 sched :
  finals_ok s0 -> gfresh owner progs s0 ->
  finals_ok (gs_fs (gsys_run any_skip {| gs_fs := s0; gs_procs := ginit progs |} sched)).
Proof. intros Hf Hfr. apply (gsys_inv_run any_skip owner sched). now apply gsys_inv_init. Qed.

(* ---------- completion: a process that is done has produced (or found) everything ---------- *)
Definition Good (prog : list instr) (s : fs) : Prop :=
  (exists n, In n (prog_guards prog) /\ lookup (F n) s = Complete) \/
  (forall n, In n (prog_finals prog) -> lookup (F n) s = Complete).

Definition gdone (prog : list instr) (s : fs) (p : gstate) : Prop :=
  match p with
  | GDone => Good prog s
  | GAt todo =>
      exists pre, prog = pre ++ todo /\ forall n, In n (prog_finals pre) -> lookup (F n) s = Complete
  | GRun ph skip cur todo =>
      exists pre, prog = pre ++ IGroup skip cur :: todo /\
        (forall n, In n (prog_finals pre) -> lookup (F n) s = Complete) /\
        match ph with
        | GRename i => forall j, (j < i)%nat -> lookup (F (fst (nth_file cur j))) s = Complete
        | _ => True
        end
  end.

Lemma prog_finals_app a b : prog_finals (a ++ b) = prog_finals a ++ prog_finals b.
Proof. unfold prog_finals. now rewrite flat_map_app. Qed.
Lemma prog_guards_app a b : prog_guards (a ++ b) = prog_guards a ++ prog_guards b.
Proof. unfold prog_guards. now rewrite flat_map_app. Qed.

Lemma all_present_complete s cur :
  finals_ok s -> all_present cur s = true -> forall n, In n (map fst cur) -> lookup (F n) s = Complete.
Proof.
  intros Hf H n Hn. unfold all_present in H. rewrite forallb_forall in H.
  apply in_map_iff in Hn as (f & <- & Hin). apply present_complete; [exact Hf|]. now apply H.
Qed.

Lemma in_cur_nth cur n : In n (map fst cur) -> exists j, (j < length cur)%nat /\ fst (nth_file cur j) = n.
Proof.
  intros H. apply (In_nth _ _ 0) in H as (j & Hj & E). rewrite map_length in Hj.
  exists j. split; [exact Hj|]. unfold nth_file. now rewrite <- E, <- (map_nth fst cur (0, 0) j).
Qed.

Lemma gdone_step prog s p s' p' o :
  finals_ok s -> gpinv s p -> gdone prog s p -> gstep false s p = (s', p', o) ->
  (forall n, lookup (F n) s = Complete -> lookup (F n) s' = Complete) ->
  gdone prog s' p'.
Proof.
  intros Hf [Hnd Hp] Hg Hstep Hmono.
  destruct p as [ph skip cur todo|todo|].
  - destruct Hg as (pre & Eprog & Hpre & Hph). destruct Hp as (Hne & Hix & Hcur & Htodo).
    assert (Hpre' : forall n, In n (prog_finals pre) -> lookup (F n) s' = Complete) by (intros; auto).
    destruct ph as [|i|i|i|i]; cbn [gstep] in Hstep.
    + destruct (skip && all_present cur s) eqn:Esk; inversion Hstep; subst; clear Hstep.
      * apply andb_prop in Esk as [_ Eall].
        exists (pre ++ [IGroup skip cur]). split; [now rewrite <- app_assoc|].
        intros n Hn. rewrite prog_finals_app in Hn. apply in_app_or in Hn as [Hn|Hn]; [auto|].
        cbn in Hn. rewrite app_nil_r in Hn. now apply (all_present_complete s' cur Hf).
      * exists pre. repeat split; auto.
    + inversion Hstep; subst. exists pre. repeat split; auto.
    + inversion Hstep; subst. exists pre. repeat split; auto.
    + assert (Hp'eq : p' = if Nat.ltb (S i) (length cur) then GRun (GCreate (S i)) skip cur todo else GRun (GRename 0) skip cur todo)
        by (inversion Hstep; reflexivity).
      clear Hstep. subst p'. destruct (Nat.ltb (S i) (length cur)).
      * exists pre. repeat split; auto.
      * exists pre. split; [exact Eprog|]. split; [exact Hpre'|]. intros j Hj. lia.
    + cbn in Hix.
      assert (Hi : lookup (T (tk cur i)) s = Complete).
      { rewrite (Hcur i Hix). cbn [tstate]. now rewrite Nat.ltb_irrefl. }
      assert (Hnew : lookup (F (fst (nth_file cur i))) s' = Complete).
      { inversion Hstep; subst. cbn [apply_op]. fold (tk cur i). rewrite Hi.
        rewrite lookup_set_neq by discriminate. apply lookup_set_eq. }
      assert (Hlt : forall j, (j < S i)%nat -> lookup (F (fst (nth_file cur j))) s' = Complete).
      { intros j Hj. destruct (Nat.eq_dec j i) as [->|Hji]; [exact Hnew|]. apply Hmono. apply Hph. lia. }
      assert (Hp'eq : p' = if Nat.ltb (S i) (length cur) then GRun (GRename (S i)) skip cur todo else GAt todo)
        by (inversion Hstep; reflexivity).
      clear Hstep. subst p'. destruct (Nat.ltb (S i) (length cur)) eqn:El.
      * exists pre. split; [exact Eprog|]. split; [exact Hpre'|]. exact Hlt.
      * apply Nat.ltb_ge in El.
        exists (pre ++ [IGroup skip cur]). split; [now rewrite <- app_assoc|].
        intros n Hn. rewrite prog_finals_app in Hn. apply in_app_or in Hn as [Hn|Hn]; [auto|].
        cbn in Hn. rewrite app_nil_r in Hn. apply in_cur_nth in Hn as (j & Hj & <-). apply Hlt. lia.
  - destruct Hg as (pre & Eprog & Hpre).
    assert (Hpre' : forall n, In n (prog_finals pre) -> lookup (F n) s' = Complete) by (intros; auto).
    destruct todo as [|[n|skip cur] todo]; cbn [gstep] in Hstep.
    + inversion Hstep; subst. right. intros n Hn. rewrite app_nil_r in Hn. auto.
    + destruct (present (F n) s) eqn:Epr; inversion Hstep; subst; clear Hstep.
      * left. exists n. split.
        -- rewrite prog_guards_app. apply in_or_app. right. cbn. now left.
        -- now apply present_complete.
      * exists (pre ++ [IGuard n]). split; [now rewrite <- app_assoc|].
        intros m Hm. rewrite prog_finals_app in Hm. apply in_app_or in Hm as [Hm|Hm]; [auto|inversion Hm].
    + destruct cur as [|f cur]; inversion Hstep; subst; clear Hstep.
      * exists (pre ++ [IGroup skip []]). split; [now rewrite <- app_assoc|].
        intros m Hm. rewrite prog_finals_app in Hm. apply in_app_or in Hm as [Hm|Hm]; [auto|inversion Hm].
      * exists pre. repeat split; auto.
  - inversion Hstep; subst. exact Hg.
Qed.

Lemma gdone_mono prog s s' p :
  (forall n, lookup (F n) s = Complete -> lookup (F n) s' = Complete) -> gdone prog s p -> gdone prog s' p.
Proof.
  intros Hm Hg. destruct p as [ph skip cur todo|todo|]; cbn in *.
  - destruct Hg as (pre & E & Hpre & Hph). exists pre. repeat split; auto. destruct ph; auto.
  - destruct Hg as (pre & E & Hpre). exists pre. split; auto.
  - destruct Hg as [(n & Hn & Hc)|Hall]; [left; eauto|right; auto].
Qed.

Definition gdone_inv (progs : list (list instr)) (st : gsys) : Prop :=
  forall i pr p, nth_error progs i = Some pr -> nth_error (gs_procs st) i = Some p -> gdone pr (gs_fs st) p.

Lemma gdone_inv_step owner progs st i :
  gsys_inv owner st -> gdone_inv progs st -> gdone_inv progs (gsys_step false st i).
Proof.
  intros [Hf Hps] Hg. unfold gsys_step.
  destruct (nth_error (gs_procs st) i) as [p|] eqn:Ei; [|exact Hg].
  destruct (gstep false (gs_fs st) p) as [[s' p'] o] eqn:Es.
  destruct (Hps i p Ei) as [Hpi Hown].
  destruct (gstep_facts _ _ _ _ _ _ Hf Hpi Es) as (Hf' & Hp' & Hincl & Hframe & Hmono).
  intros j pr q Hpr Hj. cbn [gs_fs gs_procs] in *.
  destruct (Nat.eq_dec i j) as [<-|Hij].
  - rewrite (nth_error_upd_eq _ _ _ _ Ei) in Hj. inversion Hj; subst q.
    apply (gdone_step pr (gs_fs st) p s' p' o Hf Hpi); auto. now apply (Hg i pr p).
  - rewrite nth_error_upd_neq in Hj by exact Hij.
    eapply gdone_mono; [exact Hmono|]. now apply (Hg j pr q).
Qed.

Lemma gdone_inv_run owner progs sched : forall st,
  gsys_inv owner st -> gdone_inv progs st -> gdone_inv progs (gsys_run false st sched).
Proof.
  induction sched as [|i sched IH]; intros st Hs Hg; [exact Hg|].
  cbn [gsys_run fold_left]. apply IH; [now apply gsys_inv_step|now apply (gdone_inv_step owner)].
Qed.

Lemma g_done_is_good owner progs s0 sched i pr :
  finals_ok s0 -> gfresh owner progs s0 ->
  let st := gsys_run false {| gs_fs := s0; gs_procs := ginit progs |} sched in
  nth_error progs i = Some pr -> nth_error (gs_procs st) i = Some GDone ->
  Good pr (gs_fs st).
Proof.
  intros Hf Hfr st Hpr Hp.
  assert (Hg : gdone_inv progs st).
  { apply (gdone_inv_run owner); [now apply gsys_inv_init|].
    intros j pr' q Hpr' Hq. cbn [gs_procs] in Hq. apply nth_ginit in Hq as (pr'' & E & ->).
    rewrite Hpr' in E. inversion E; subst pr''. exists []. split; [reflexivity|]. intros n []. }
  exact (Hg i pr GDone Hpr Hp).
Qed.

(* ---------- termination of a process that keeps being scheduled ---------- *)
Definition gmeasure (p : gstate) : nat :=
  match p with
  | GDone => 0
  | GAt todo => prog_size todo
  | GRun ph _ cur todo =>
      prog_size todo +
      match ph with
      | GCheck => 1 + 4 * length cur
      | GCreate i => 3 * (length cur - i) + length cur
      | GWrite i => 3 * (length cur - i) + length cur - 1
      | GClose i => 3 * (length cur - i) + length cur - 2
      | GRename i => length cur - i
      end
  end%nat.

Lemma prog_size_pos prog : (1 <= prog_size prog)%nat.
Proof. induction prog as [|[n|sk cur] r IH]; cbn [prog_size]; lia. Qed.

Lemma gmeasure_step any_skip s p s' p' o :
  gpinv s p -> p <> GDone -> gstep any_skip s p = (s', p', o) -> (gmeasure p' < gmeasure p)%nat.
Proof.
  intros [_ Hp] Hne Hstep. destruct p as [ph skip cur todo|todo|]; [| |congruence].
  - destruct Hp as (Hcne & Hix & _). pose proof (prog_size_pos todo) as Hpos.
    assert (Hlen : (1 <= length cur)%nat) by (destruct cur; [congruence|cbn; lia]).
    destruct ph as [|i|i|i|i]; cbn [gstep] in Hstep; cbn in Hix.
    + destruct (skip && _); inversion Hstep; subst; cbn [gmeasure]; lia.
    + inversion Hstep; subst; cbn [gmeasure]; lia.
    + inversion Hstep; subst; cbn [gmeasure]; lia.
    + inversion Hstep; subst p' o. destruct (Nat.ltb (S i) (length cur)) eqn:E; cbn [gmeasure].
      * apply Nat.ltb_lt in E. lia.
      * lia.
    + inversion Hstep; subst p' o. destruct (Nat.ltb (S i) (length cur)) eqn:E; cbn [gmeasure].
      * apply Nat.ltb_lt in E. lia.
      * lia.
  - destruct todo as [|[n|skip cur] todo]; cbn [gstep] in Hstep.
    + inversion Hstep; subst. cbn. lia.
    + pose proof (prog_size_pos todo). destruct (present (F n) s); inversion Hstep; subst; cbn [gmeasure prog_size]; lia.
    + destruct cur as [|f cur]; inversion Hstep; subst; cbn [gmeasure prog_size length]; lia.
Qed.

Lemma gsys_step_nth any_skip st j p :
  nth_error (gs_procs st) j = Some p ->
  nth_error (gs_procs (gsys_step any_skip st j)) j = Some (snd (fst (gstep any_skip (gs_fs st) p))).
Proof.
  intros E. unfold gsys_step. rewrite E.
  destruct (gstep any_skip (gs_fs st) p) as [[s' p'] o]. cbn [gs_procs fst snd].
  now apply nth_error_upd_eq with (y := p).
Qed.

Lemma gmeasure_decr_step owner st i j p :
  gsys_inv owner st -> nth_error (gs_procs st) j = Some p ->
  exists p', nth_error (gs_procs (gsys_step false st i)) j = Some p' /\
             (gmeasure p' <= gmeasure p - (if Nat.eqb i j then 1 else 0))%nat.
Proof.
  intros [Hf Hps] E. destruct (Nat.eqb_spec i j) as [->|Hij].
  - rewrite (gsys_step_nth false st j p E).
    destruct (gstep false (gs_fs st) p) as [[s' p'] o] eqn:Es. cbn [fst snd].
    exists p'. split; [reflexivity|].
    destruct (Hps j p E) as [Hpi _].
    destruct p as [ph skip cur todo|todo|].
    1-2: (assert (gmeasure p' < gmeasure _)%nat by (eapply gmeasure_step; [exact Hpi|discriminate|exact Es]); lia).
    cbn in Es. inversion Es; subst. cbn. lia.
  - exists p. split; [|lia]. unfold gsys_step.
    destruct (nth_error (gs_procs st) i) as [q|] eqn:Ei; [|exact E].
    destruct (gstep false (gs_fs st) q) as [[s' q'] o]. cbn [gs_procs].
    now rewrite nth_error_upd_neq by exact Hij.
Qed.

Lemma gmeasure_decr_run owner sched j : forall st p,
  gsys_inv owner st -> nth_error (gs_procs st) j = Some p ->
  exists p', nth_error (gs_procs (gsys_run false st sched)) j = Some p' /\
             (gmeasure p' <= gmeasure p - count_occ Nat.eq_dec sched j)%nat.
Proof.
  induction sched as [|i sched IH]; intros st p Hinv E.
  - exists p. split; [exact E|cbn; lia].
  - cbn [gsys_run fold_left]. fold (gsys_run false (gsys_step false st i) sched).
    destruct (gmeasure_decr_step owner st i j p Hinv E) as (p1 & E1 & H1).
    destruct (IH _ p1 (gsys_inv_step false owner st i Hinv) E1) as (p2 & E2 & H2). exists p2. split; [exact E2|].
    cbn [count_occ]. destruct (Nat.eq_dec i j) as [->|Hne].
    + rewrite Nat.eqb_refl in H1. lia.
    + apply Nat.eqb_neq in Hne. rewrite Hne in H1. lia.
Qed.

(* every process scheduled often enough finishes in a Good state, whatever the others do, including
   processes killed between two renames of one group *)
Lemma g_all_succeed owner progs s0 sched j pr :
  finals_ok s0 -> gfresh owner progs s0 -> nth_error progs j = Some pr ->
  (prog_size pr <= count_occ Nat.eq_dec sched j)%nat ->
  let st := gsys_run false {| gs_fs := s0; gs_procs := ginit progs |} sched in
  nth_error (gs_procs st) j = Some GDone /\ Good pr (gs_fs st) /\ finals_ok (gs_fs st).
Proof.
  intros Hf Hfr Hpr Hcnt st.
  pose proof (nth_ginit_some progs j pr Hpr) as E0.
  pose proof (gsys_inv_init owner progs s0 Hf Hfr) as Hinv0.
  destruct (gmeasure_decr_run owner sched j _ _ Hinv0 E0) as (p & Ep & Hm).
  cbn [gmeasure] in Hm.
  assert (Hinv : gsys_inv owner st) by (now apply gsys_inv_run).
  assert (Hz : gmeasure p = 0%nat) by lia.
  assert (p = GDone).
  { destruct p as [ph sk cur todo|todo|]; [| |reflexivity].
    - destruct Hinv as [_ Hps]. destruct (Hps j _ Ep) as [[_ (Hcne & Hix & _)] _].
      pose proof (prog_size_pos todo). assert (1 <= length cur)%nat by (destruct cur; [congruence|cbn; lia]).
      destruct ph; cbn in Hz, Hix; lia.
    - pose proof (prog_size_pos todo). cbn in Hz. lia. }
  subst p. split; [exact Ep|]. split.
  - now apply (g_done_is_good owner progs s0 sched j pr).
  - exact (proj1 Hinv).
Qed.
