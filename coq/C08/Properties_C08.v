(* C08 — a crash at any point of a kernel build never poisons the cache.
   Only statements here; proofs are in Proofs.v.  The obligations about the REAL traces
   (regenerated from strace on every run) are in coq/gen/C08_traces.v. *)
From Coq Require Import List NArith Bool Arith.
From OV.C08 Require Import Model Statements Proofs.
Import ListNotations.
Local Open Scope N_scope.

(* (1) Any trace that passes the decidable protocol check is safe at EVERY kill point: after any
   prefix of it, no completion-tested path holds a partially written file.  Unbounded in trace
   length and in the number of files. *)
Theorem crash_safe : forall t s0,
  finals_ok s0 -> protocol_ok_from s0 t = true ->
  forall n, finals_ok (run_ops s0 (firstn n t)).
Proof. exact crash_safe_trace. Qed.
Print Assumptions crash_safe.

(* (2) The build protocol (isFile test; temp create/write/close; rename), run by any number of
   processes with pairwise distinct temp names under ANY schedule — a process that is never
   scheduled again is a process killed at that point — never exposes a partial file under a
   completion-tested name. *)
Theorem no_partial_final_any_schedule : forall owner cfgs s0 sched,
  finals_ok s0 -> fresh_temps owner cfgs s0 ->
  finals_ok (s_fs (sys_run {| s_fs := s0; s_procs := init_procs cfgs |} sched)).
Proof. exact Proofs.no_partial_final_any_schedule. Qed.
Print Assumptions no_partial_final_any_schedule.

(* (3) Kill-then-rebuild: after ANY schedule prefix (builders killed anywhere, including between
   an isFile test and the use of its answer), a process j that is then run for fuel_for steps
   finishes, its binary is complete, and still no final is partial. *)
Theorem kill_then_rebuild : forall owner cfgs s0 sched j c,
  finals_ok s0 -> fresh_temps owner cfgs s0 -> stages_bin cfgs ->
  nth_error cfgs j = Some c ->
  let st := sys_run {| s_fs := s0; s_procs := init_procs cfgs |}
                    (sched ++ repeat j (fuel_for (fst c))) in
  nth_error (s_procs st) j = Some PDone /\
  lookup (F (snd c)) (s_fs st) = Complete /\
  finals_ok (s_fs st).
Proof. exact Proofs.kill_then_rebuild. Qed.
Print Assumptions kill_then_rebuild.

(* (4) A complete binary implies a complete build.json at every point of every schedule (so a
   kernel loaded from the cache always finds its argument metadata; used by C10). *)
Theorem binary_implies_metadata : forall owner json bin cfgs s0 sched,
  finals_ok s0 -> fresh_temps owner cfgs s0 -> json_before_bin json bin cfgs ->
  (lookup (F bin) s0 = Complete -> lookup (F json) s0 = Complete) ->
  let st := sys_run {| s_fs := s0; s_procs := init_procs cfgs |} sched in
  lookup (F bin) (s_fs st) = Complete -> lookup (F json) (s_fs st) = Complete.
Proof. exact Proofs.binary_implies_metadata. Qed.
Print Assumptions binary_implies_metadata.

(* (5) The pinned sys::compilerVendor wrote `output` in place: such a trace fails the protocol
   check and has a kill point that leaves a partial completion-tested file. *)
Definition vendor_in_place : list op :=
  [OCreate (T 0); OWrite (T 0); OClose (T 0); ORename (T 0) (F 10);   (* findCompilerVendor.cpp *)
   OCreate (F 12); OWrite (F 12); OClose (F 12)].                      (* io::write(output) under its final name *)

Theorem vendor_output_in_place_refuted :
  protocol_ok vendor_in_place = false /\
  exists n, lookup (F 12) (run_ops [] (firstn n vendor_in_place)) = Partial.
Proof. split; [reflexivity|]. exists 5%nat. reflexivity. Qed.
Print Assumptions vendor_output_in_place_refuted.

(* ---- non-vacuity: the kernel entry as the code stages it, two processes, a kill in the middle ---- *)
Definition kcfg (t0 : N) : cfg := ([(2, t0); (3, t0 + 1); (4, t0 + 2); (5, t0 + 3)], 5).
Definition two : list cfg := [kcfg 100; kcfg 200].
Definition own (k : N) : nat := if k <? 200 then 0%nat else 1%nat.

Example fresh_two : fresh_temps own two [].
Proof.
  intros i c H. destruct i as [|[|i]]; cbn in H; inversion H; subst; clear H.
  - split.
    + repeat constructor; cbn; intuition discriminate.
    + intros k Hk. cbn in Hk. intuition subst; split; reflexivity.
  - split.
    + repeat constructor; cbn; intuition discriminate.
    + intros k Hk. cbn in Hk. intuition subst; split; reflexivity.
  - destruct i; discriminate.
Qed.

Example stages_bin_two : stages_bin two.
Proof.
  intros i c H. destruct i as [|[|i]]; cbn in H;
    [inversion H; subst; cbn; intuition | inversion H; subst; cbn; intuition | destruct i; discriminate].
Qed.

Example json_before_bin_two : json_before_bin 4 5 two.
Proof.
  intros i c H. assert (Hc : c = kcfg 100 \/ c = kcfg 200).
  { destruct i as [|[|i]]; cbn in H; inversion H; auto. destruct i; discriminate. }
  split; [destruct Hc; subst; reflexivity|].
  intros pre suf k E.
  assert (exists t0, fst c = [(2, t0); (3, t0 + 1); (4, t0 + 2); (5, t0 + 3)]) as [t0 Et]
    by (destruct Hc; subst; eexists; reflexivity).
  rewrite Et in E.
  destruct pre as [|a [|b [|d [|e pre]]]]; cbn in E; inversion E; subst; cbn; auto;
    try (destruct pre; discriminate).
Qed.

(* process 0 is killed after creating the temp of the binary (18 steps), process 1 then builds:
   it finishes, the binary and build.json are complete, the killed process's temp is still Partial *)
Example killed_mid_build_then_rebuilt :
  let st := sys_run {| s_fs := []; s_procs := init_procs two |}
                    (repeat 0%nat 18 ++ repeat 1%nat (fuel_for (fst (kcfg 200)))) in
  nth_error (s_procs st) 1 = Some PDone /\
  lookup (F 5) (s_fs st) = Complete /\ lookup (F 4) (s_fs st) = Complete /\
  lookup (T 103) (s_fs st) = Partial.
Proof. vm_compute. repeat split. Qed.

Example emitted_fresh :
  emitted [] (fst (kcfg 0)) 5 =
  [OCreate (T 0); OWrite (T 0); OClose (T 0); ORename (T 0) (F 2);
   OCreate (T 1); OWrite (T 1); OClose (T 1); ORename (T 1) (F 3);
   OCreate (T 2); OWrite (T 2); OClose (T 2); ORename (T 2) (F 4);
   OCreate (T 3); OWrite (T 3); OClose (T 3); ORename (T 3) (F 5); ORead (F 5)].
Proof. vm_compute. reflexivity. Qed.

(* ---------------------------------------------------------------------------------------------
   Staging groups and guards (GModel.v): the compiler-vendor probe and the OpenMP flag probe stage
   several files in one io::stageFiles call; a builder killed between two renames of one group leaves
   some targets present and others absent. *)
From OV.C08 Require Import GModel GProofs.

(* (6) Any number of group-staging processes, any schedule, either skip rule: no completion-tested
   path is ever partial. *)
Theorem groups_no_partial_final_any_schedule : forall owner any_skip progs s0 sched,
  finals_ok s0 -> gfresh owner progs s0 ->
  finals_ok (gs_fs (gsys_run any_skip {| gs_fs := s0; gs_procs := ginit progs |} sched)).
Proof. exact GProofs.g_no_partial_final. Qed.
Print Assumptions groups_no_partial_final_any_schedule.

(* (7) With the code's rule (skip a group only if ALL its targets exist) every process that is
   scheduled prog_size times finishes, and then either a guard found its file complete or every file
   of every group of its program is complete — whatever the other processes did, including being
   killed between two renames of one group. *)
Theorem groups_all_succeed : forall owner progs s0 sched j pr,
  finals_ok s0 -> gfresh owner progs s0 -> nth_error progs j = Some pr ->
  (prog_size pr <= count_occ Nat.eq_dec sched j)%nat ->
  let st := gsys_run false {| gs_fs := s0; gs_procs := ginit progs |} sched in
  nth_error (gs_procs st) j = Some GDone /\ Good pr (gs_fs st) /\ finals_ok (gs_fs st).
Proof. exact GProofs.g_all_succeed. Qed.
Print Assumptions groups_all_succeed.

(* (8) The variant that skips a group when ANY target exists is refuted: process 0 runs the OpenMP
   probe and is killed between its two renames (binary published, output not); process 1 then finds
   `binary`, skips the group and finishes without `output`. *)
Definition omp0 : list instr := openmp_prog 20 5 12 100.
Definition omp1 : list instr := openmp_prog 20 5 12 200.
Theorem any_target_skip_refuted :
  exists sched,
    let st := gsys_run true {| gs_fs := []; gs_procs := ginit [omp0; omp1] |} sched in
    nth_error (gs_procs st) 1 = Some GDone /\ lookup (F 12) (gs_fs st) = Absent.
Proof. exists (repeat 0%nat 15 ++ repeat 1%nat 12). vm_compute. split; reflexivity. Qed.
Print Assumptions any_target_skip_refuted.

(* the same kill point with the code's rule: process 1 redoes the group and publishes both files *)
Example all_targets_skip_recovers :
  let st := gsys_run false {| gs_fs := []; gs_procs := ginit [omp0; omp1] |} (repeat 0%nat 15 ++ repeat 1%nat (prog_size omp1)) in
  nth_error (gs_procs st) 1 = Some GDone /\
  lookup (F 12) (gs_fs st) = Complete /\ lookup (F 5) (gs_fs st) = Complete.
Proof. vm_compute. repeat split. Qed.

Example vendor_probe_emits :
  gemitted [] (vendor_prog 10 5 11 12 0) =
  [OCreate (T 0); OWrite (T 0); OClose (T 0); ORename (T 0) (F 10);
   OCreate (T 1); OWrite (T 1); OClose (T 1); OCreate (T 2); OWrite (T 2); OClose (T 2);
   ORename (T 1) (F 5); ORename (T 2) (F 11);
   OCreate (T 3); OWrite (T 3); OClose (T 3); ORename (T 3) (F 12)].
Proof. vm_compute. reflexivity. Qed.
