(* C08/C09 — vocabulary for the theorem statements. *)
From Coq Require Import List NArith Bool.
From OV.C08 Require Import Model.
Import ListNotations.
Local Open Scope N_scope.

(* no completion-tested path is ever a partially written file *)
Definition finals_ok (s : fs) : Prop := forall n, lookup (F n) s <> Partial.

Definition is_complete (p : path) (s : fs) : Prop := lookup p s = Complete.

Definition names (l : list (N * N)) : list N := map fst l.
Definition temps (l : list (N * N)) : list N := map snd l.

(* a build configuration: the staged files in order (final name, temp id) and the binary's name *)
Definition cfg := (list (N * N) * N)%type.

Definition init_procs (cfgs : list cfg) : list pstate :=
  map (fun c => PStart (fst c) (snd c)) cfgs.

(* "distinct processes draw distinct temp names" (io::getStagedTempFilename = hash_t::random()),
   expressed through an owner function; and no temp name is reused inside one process *)
Definition fresh_temps (owner : N -> nat) (cfgs : list cfg) (s0 : fs) : Prop :=
  forall i c, nth_error cfgs i = Some c ->
    NoDup (temps (fst c)) /\
    forall k, In k (temps (fst c)) -> owner k = i /\ lookup (T k) s0 = Absent.

(* the binary is one of the staged files of every process *)
Definition stages_bin (cfgs : list cfg) : Prop :=
  forall i c, nth_error cfgs i = Some c -> In (snd c) (names (fst c)).

(* all processes build the same entry: same binary name, and build.json is staged before it *)
Definition json_before_bin (json bin : N) (cfgs : list cfg) : Prop :=
  forall i c, nth_error cfgs i = Some c ->
    snd c = bin /\
    forall pre suf k, fst c = pre ++ (bin, k) :: suf -> In json (names pre).

Definition finished (p : pstate) : Prop :=
  match p with PLoad _ | PDone => True | _ => False end.
