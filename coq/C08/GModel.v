(* C08/C09 — staging GROUPS (io::stageFiles with several files) and guards.
   Model.v's process stages one file at a time, which is what buildKernel does for the kernel
   entry.  The compiler-vendor probe (sys::compilerVendor: {binary, build.log} staged together,
   `output` staged with skipExisting = false behind an isFile(output) guard) and the OpenMP flag
   probe (openmp::compilerFlag: {binary, output} staged together) use multi-file groups:
       check (skipExisting && ALL targets exist -> nothing to do); create/write/close every temp;
       then one rename per file.
   A builder killed between two renames of one group leaves some targets present and others
   absent; the code is right because it redoes the group unless ALL are present.
   `any_skip = true` is the variant that skips when ANY target is present (refuted below).
   No proofs in this file. *)
From Coq Require Import List NArith Bool.
From OV.C08 Require Import Model.
Import ListNotations.
Local Open Scope N_scope.

Inductive instr :=
| IGuard (n : N)                                   (* if F n exists: skip everything that follows *)
| IGroup (skip : bool) (files : list (N * N)).     (* (final name, temp id) *)

Inductive gph :=
| GCheck
| GCreate (i : nat) | GWrite (i : nat) | GClose (i : nat)
| GRename (i : nat).

Inductive gstate :=
| GRun (ph : gph) (skip : bool) (cur : list (N * N)) (todo : list instr)
| GAt (todo : list instr)            (* about to start the next instruction *)
| GDone.

Definition nth_file (cur : list (N * N)) (i : nat) : N * N := nth i cur (0, 0).

Definition all_present (cur : list (N * N)) (s : fs) : bool :=
  forallb (fun f => present (F (fst f)) s) cur.
Definition any_present (cur : list (N * N)) (s : fs) : bool :=
  existsb (fun f => present (F (fst f)) s) cur.

Definition gstep (any_skip : bool) (s : fs) (p : gstate) : fs * gstate * option op :=
  match p with
  | GDone => (s, GDone, None)
  | GAt [] => (s, GDone, None)
  | GAt (IGuard n :: todo) =>
      if present (F n) s then (s, GDone, None) else (s, GAt todo, None)
  | GAt (IGroup skip cur :: todo) =>
      match cur with
      | [] => (s, GAt todo, None)
      | _ => (s, GRun GCheck skip cur todo, None)
      end
  | GRun GCheck skip cur todo =>
      let have := if any_skip then any_present cur s else all_present cur s in
      if skip && have then (s, GAt todo, None) else (s, GRun (GCreate 0) skip cur todo, None)
  | GRun (GCreate i) skip cur todo =>
      let o := OCreate (T (snd (nth_file cur i))) in (apply_op s o, GRun (GWrite i) skip cur todo, Some o)
  | GRun (GWrite i) skip cur todo =>
      let o := OWrite (T (snd (nth_file cur i))) in (apply_op s o, GRun (GClose i) skip cur todo, Some o)
  | GRun (GClose i) skip cur todo =>
      let o := OClose (T (snd (nth_file cur i))) in
      (apply_op s o,
       if Nat.ltb (S i) (length cur) then GRun (GCreate (S i)) skip cur todo else GRun (GRename 0) skip cur todo,
       Some o)
  | GRun (GRename i) skip cur todo =>
      let f := nth_file cur i in
      let o := ORename (T (snd f)) (F (fst f)) in
      (apply_op s o,
       if Nat.ltb (S i) (length cur) then GRun (GRename (S i)) skip cur todo else GAt todo,
       Some o)
  end.

Record gsys := { gs_fs : fs; gs_procs : list gstate }.

Definition gsys_step (any_skip : bool) (st : gsys) (i : nat) : gsys :=
  match nth_error (gs_procs st) i with
  | None => st
  | Some p =>
      let '(s', p', _) := gstep any_skip (gs_fs st) p in
      {| gs_fs := s'; gs_procs := upd (gs_procs st) i p' |}
  end.

Definition gsys_run (any_skip : bool) (st : gsys) (sched : list nat) : gsys :=
  fold_left (gsys_step any_skip) sched st.

Fixpoint grun_alone (any_skip : bool) (fuel : nat) (s : fs) (p : gstate) : fs * gstate * list op :=
  match fuel with
  | O => (s, p, [])
  | S f =>
      match p with
      | GDone => (s, p, [])
      | _ =>
          let '(s', p', o) := gstep any_skip s p in
          let '(s'', p'', os) := grun_alone any_skip f s' p' in
          (s'', p'', match o with Some x => x :: os | None => os end)
      end
  end.

Fixpoint prog_size (prog : list instr) : nat :=
  match prog with
  | [] => 1
  | IGuard _ :: r => 1 + prog_size r
  | IGroup _ cur :: r => 2 + 4 * length cur + prog_size r
  end.

Definition gemitted (s : fs) (prog : list instr) : list op :=
  snd (grun_alone false (prog_size prog + 1) s (GAt prog)).

(* the programs the code runs *)
Definition kernel_prog (raw src json bin : N) (k0 : N) : list instr :=
  [IGuard bin; IGroup true [(raw, k0)]; IGroup true [(src, k0 + 1)]; IGroup true [(json, k0 + 2)];
   IGroup true [(bin, k0 + 3)]].

(* sys::compilerVendor after the fix: source; guard on output; {binary, build.log}; output (always rewritten) *)
Definition vendor_prog (src bin log out : N) (k0 : N) : list instr :=
  [IGroup true [(src, k0)]; IGuard out; IGroup true [(bin, k0 + 1); (log, k0 + 2)]; IGroup false [(out, k0 + 3)]].

(* openmp::compilerFlag: source; {binary, output} *)
Definition openmp_prog (src bin out : N) (k0 : N) : list instr :=
  [IGroup true [(src, k0)]; IGroup true [(bin, k0 + 1); (out, k0 + 2)]].

Definition prog_finals (prog : list instr) : list N :=
  flat_map (fun i => match i with IGuard _ => [] | IGroup _ cur => map fst cur end) prog.
Definition prog_temps (prog : list instr) : list N :=
  flat_map (fun i => match i with IGuard _ => [] | IGroup _ cur => map snd cur end) prog.
Definition prog_guards (prog : list instr) : list N :=
  flat_map (fun i => match i with IGuard n => [n] | IGroup _ _ => [] end) prog.

(* Comparison of a real trace of one cache directory with the model process.  Within a group the code
   creates/writes/closes the temps in whatever order the compiler, the linker and the shell redirection
   happen to run (the probe's build.log is opened by the shell before ld creates the binary), so the tie
   compares (a) the sequence of renames, which is the publication order the proofs are about, and (b) for
   every temp its own create/close sequence; protocol_ok (checked on the same trace) adds that every
   rename source is complete at the time of the rename. *)
Definition is_rename (o : op) : bool := match o with ORename _ _ => true | _ => false end.
Definition temp_op (k : N) (o : op) : bool :=
  match o with
  | OCreate (T k') | OClose (T k') => k =? k'
  | _ => false
  end.
Definition renames (t : list op) : list op := filter is_rename t.
Definition temp_ops (k : N) (t : list op) : list op := filter (temp_op k) t.

Record real_grun := { rg_init : fs; rg_prog : list instr; rg_ops : list op }.
Definition grun_matches_model (r : real_grun) : bool :=
  let m := gemitted (rg_init r) (rg_prog r) in
  ops_eqb (renames (rg_ops r)) (renames m) &&
  forallb (fun k => ops_eqb (temp_ops k (rg_ops r)) (temp_ops k m)) (prog_temps (rg_prog r)).
