(* C08/C09 — file-system protocol of a kernel build (io::stageFiles / io::cacheFile /
   serial::device::buildKernel / sys::compilerVendor), as an executable model.

   Paths: F n = a final, completion-tested name inside a cache hash directory
          (binary, build.json, *.source.cpp, ...); T k = a staged temp name
          (<random hash>.<name>, io::getStagedTempFilename).
   A file is Partial from the truncating open until its (last) writer closes it.
   A build process is a small state machine; the io::isFile tests that
   stageFiles(skipExisting = true) and buildKernel perform are separate steps from the
   operations that follow them (so other processes can interleave between the test and
   the use).  No proofs in this file. *)
From Coq Require Import List NArith Bool.
Import ListNotations.
Local Open Scope N_scope.

Inductive path := F (n : N) | T (k : N).

Definition path_eqb (a b : path) : bool :=
  match a, b with
  | F x, F y => x =? y
  | T x, T y => x =? y
  | _, _ => false
  end.

Definition is_final (p : path) : bool := match p with F _ => true | T _ => false end.

Inductive fstate := Absent | Partial | Complete.

Definition fstate_eqb (a b : fstate) : bool :=
  match a, b with
  | Absent, Absent | Partial, Partial | Complete, Complete => true
  | _, _ => false
  end.

Inductive op :=
| OCreate (p : path)        (* open(p, O_WRONLY|O_CREAT|O_TRUNC) *)
| OWrite (p : path)         (* write to p *)
| OClose (p : path)         (* the writer of p closes it *)
| ORename (a b : path)      (* rename(a, b), atomic *)
| OUnlink (p : path)
| ORead (p : path)          (* open O_RDONLY / execve / dlopen of p *)
| OOther.                   (* mkdir, stat, fsync ...: no effect on file states *)

Definition fs := list (path * fstate).

Fixpoint lookup (p : path) (s : fs) : fstate :=
  match s with
  | [] => Absent
  | (q, st) :: s' => if path_eqb p q then st else lookup p s'
  end.

Definition set (p : path) (st : fstate) (s : fs) : fs := (p, st) :: s.

Definition apply_op (s : fs) (o : op) : fs :=
  match o with
  | OCreate p => set p Partial s
  | OWrite p => match lookup p s with Absent => s | _ => set p Partial s end
  | OClose p => match lookup p s with Partial => set p Complete s | _ => s end
  | ORename a b =>
      match lookup a s with
      | Absent => s                                  (* ENOENT: nothing happens *)
      | st => set a Absent (set b st s)
      end
  | OUnlink p => set p Absent s
  | ORead _ => s
  | OOther => s
  end.

Definition run_ops (s : fs) (t : list op) : fs := fold_left apply_op t s.

(* ---- the protocol check applied to a (real, normalised) trace ---- *)
Definition op_ok (s : fs) (o : op) : bool :=
  match o with
  | OCreate p => negb (is_final p) && fstate_eqb (lookup p s) Absent
  | OWrite p => negb (is_final p)
  | OClose _ => true
  | ORename a b => negb (is_final a) && fstate_eqb (lookup a s) Complete
  | OUnlink p => negb (is_final p)
  | ORead _ => true
  | OOther => true
  end.

Fixpoint protocol_ok_from (s : fs) (t : list op) : bool :=
  match t with
  | [] => true
  | o :: t' => op_ok s o && protocol_ok_from (apply_op s o) t'
  end.

Definition protocol_ok (t : list op) : bool := protocol_ok_from [] t.

(* ---- build processes ---- *)
(* A process stages an ordered list of files (final name, temp id), the last of which is the
   binary, exactly as buildKernel does: io::isFile(binary) first; then for every file
   stageFiles(skipExisting = true): isFile test, create temp, write, close(+sync), rename. *)
Inductive phase := PCheck | PCreate | PWrite | PClose | PRename.

Inductive pstate :=
| PStart (st : list (N * N)) (bin : N)
| PStage (ph : phase) (n k : N) (todo : list (N * N)) (bin : N)
| PLoad (bin : N)
| PDone.

Definition next_stage (todo : list (N * N)) (bin : N) : pstate :=
  match todo with
  | [] => PLoad bin
  | (n, k) :: todo' => PStage PCheck n k todo' bin
  end.

Definition present (p : path) (s : fs) : bool := negb (fstate_eqb (lookup p s) Absent).

(* one step of a process: new fs, new state, emitted operation (if any) *)
Definition proc_step (s : fs) (p : pstate) : fs * pstate * option op :=
  match p with
  | PStart st bin =>
      if present (F bin) s then (s, PLoad bin, None) else (s, next_stage st bin, None)
  | PStage PCheck n k todo bin =>
      if present (F n) s then (s, next_stage todo bin, None) else (s, PStage PCreate n k todo bin, None)
  | PStage PCreate n k todo bin =>
      let o := OCreate (T k) in (apply_op s o, PStage PWrite n k todo bin, Some o)
  | PStage PWrite n k todo bin =>
      let o := OWrite (T k) in (apply_op s o, PStage PClose n k todo bin, Some o)
  | PStage PClose n k todo bin =>
      let o := OClose (T k) in (apply_op s o, PStage PRename n k todo bin, Some o)
  | PStage PRename n k todo bin =>
      let o := ORename (T k) (F n) in (apply_op s o, next_stage todo bin, Some o)
  | PLoad bin => let o := ORead (F bin) in (s, PDone, Some o)
  | PDone => (s, PDone, None)
  end.

(* a system of processes over one file system; a schedule picks who steps next.  A process
   that is never picked again is a process killed at that point. *)
Record sys := { s_fs : fs; s_procs : list pstate }.

Fixpoint upd {A} (l : list A) (i : nat) (x : A) : list A :=
  match l, i with
  | [], _ => []
  | _ :: l', O => x :: l'
  | y :: l', S i' => y :: upd l' i' x
  end.

Definition sys_step (st : sys) (i : nat) : sys :=
  match nth_error (s_procs st) i with
  | None => st
  | Some p =>
      let '(s', p', _) := proc_step (s_fs st) p in
      {| s_fs := s'; s_procs := upd (s_procs st) i p' |}
  end.

Definition sys_run (st : sys) (sched : list nat) : sys := fold_left sys_step sched st.

(* run one process alone, collecting what it emits *)
Fixpoint run_alone (fuel : nat) (s : fs) (p : pstate) : fs * pstate * list op :=
  match fuel with
  | O => (s, p, [])
  | S f =>
      match p with
      | PDone => (s, p, [])
      | _ =>
          let '(s', p', o) := proc_step s p in
          let '(s'', p'', os) := run_alone f s' p' in
          (s'', p'', match o with Some x => x :: os | None => os end)
      end
  end.

(* 5 steps per stage + start + load *)
Definition fuel_for (st : list (N * N)) : nat := 5 * length st + 3.

Definition emitted (s : fs) (st : list (N * N)) (bin : N) : list op :=
  snd (run_alone (fuel_for st) s (PStart st bin)).

(* normalisation applied to real traces before they are compared with `emitted`:
   reads and no-effect operations are dropped, runs of writes to one file collapse *)
Fixpoint normalize (t : list op) : list op :=
  match t with
  | [] => []
  | OOther :: t' => normalize t'
  | ORead _ :: t' => normalize t'
  | OWrite p :: t' =>
      match normalize t' with
      | OWrite q :: r => if path_eqb p q then OWrite q :: r else OWrite p :: OWrite q :: r
      | r => OWrite p :: r
      end
  | o :: t' => o :: normalize t'
  end.

Definition finals_okb (names : list N) (s : fs) : bool :=
  forallb (fun n => negb (fstate_eqb (lookup (F n) s) Partial)) names.

Definition all_completeb (names : list N) (s : fs) : bool :=
  forallb (fun n => fstate_eqb (lookup (F n) s) Complete) names.

Definition op_eqb (a b : op) : bool :=
  match a, b with
  | OCreate p, OCreate q | OWrite p, OWrite q | OClose p, OClose q
  | OUnlink p, OUnlink q | ORead p, ORead q => path_eqb p q
  | ORename a1 b1, ORename a2 b2 => path_eqb a1 a2 && path_eqb b1 b2
  | OOther, OOther => true
  | _, _ => false
  end.

Fixpoint ops_eqb (a b : list op) : bool :=
  match a, b with
  | [], [] => true
  | x :: a', y :: b' => op_eqb x y && ops_eqb a' b'
  | _, _ => false
  end.

(* a real build restricted to one cache entry: initial state of that entry, its stage list
   (final name, temp id), its binary, and the observed operations *)
Record real_run := { r_init : fs; r_stages : list (N * N); r_bin : N; r_ops : list op }.

Definition run_matches_model (r : real_run) : bool :=
  ops_eqb (normalize (r_ops r)) (normalize (emitted (r_init r) (r_stages r) (r_bin r))).
