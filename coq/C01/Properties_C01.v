From OV.C01 Require Import Model Spec.
From Coq Require Import List ZArith.
Import ListNotations.
Definition vk (v : nat) : kind := if Nat.ltb v 2 then KDev else if Nat.ltb v 7 then KMem else KPool.
Example swap_witness_refuted :
  run pinned vk [ONewDev 0; OMalloc 2 0 64; OMalloc 3 0 64; OSwap 2 3; ODrop 3; ODrop 2] init = None.
Proof. vm_compute. reflexivity. Qed.
Print Assumptions swap_witness_refuted.
