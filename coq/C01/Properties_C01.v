(* C01 — handles release each backend object exactly once, for any handle history.
   Statements only; proofs are in Proofs.v (and the files it imports).  Vocabulary: Model.v
   (cells, step, run, ring_list, the code variants fixed/pinned), Statements.v (Wf, wrapper,
   kept_alive), Inv.v (home, is_obj_tag, is_h_tag). *)
From Coq Require Import List Arith Bool ZArith.
From OV.C01 Require Import Model Spec Inv Statements Proofs.
Import ListNotations.

(* The theorems hold for every assignment of static C++ types to handle variables. *)

(* the initial heap is well formed *)
Theorem wf_init : Wf init.
Proof. exact (wf_init_thm (fun _ => KDev)). Qed.
Print Assumptions wf_init.

(* from every reachable state every operation runs without undefined behaviour and leaves every
   ring equal to the set of live cells that point to its owner, no wrapper or child pointing to a
   destroyed object, and the destructor log duplicate free *)
Theorem wf_step : forall (vkind : nat -> kind) (s : st) (o : op),
  (exists ops, run fixed vkind ops init = Some s) ->
  exists r s', step fixed vkind o s = Some (r, s') /\ Wf s' /\ (exists ops, run fixed vkind ops init = Some s').
Proof. exact wf_step_thm. Qed.
Print Assumptions wf_step.

Theorem wf_run : forall (vkind : nat -> kind) (ops : list op),
  exists s, run fixed vkind ops init = Some s /\ Wf s.
Proof. exact wf_run_thm. Qed.
Print Assumptions wf_run.

(* no history ever dereferences a destroyed wrapper or object, deletes an object twice, erases a
   missing reservation or spins in a ring loop (every such step yields None in the model) *)
Theorem no_touch_after_destroy : forall (vkind : nat -> kind) (ops : list op),
  run fixed vkind ops init <> None.
Proof. exact no_touch_after_destroy_thm. Qed.
Print Assumptions no_touch_after_destroy.

(* a destructor runs at most once per object, and exactly once as soon as no live wrapper points to
   an object whose reference counting is in force *)
Theorem destroyed_exactly_once : forall (vkind : nat -> kind) (ops : list op) (s : st),
  run fixed vkind ops init = Some s ->
  (forall o, count_occ Nat.eq_dec (dlog s) o <= 1) /\
  (forall o k, tagof s o = TO k -> k <> KBuf -> ouse s o = true ->
     (forall h, wrapper s h -> hptr s h <> Some o) -> count_occ Nat.eq_dec (dlog s) o = 1).
Proof. exact destroyed_exactly_once_thm. Qed.
Print Assumptions destroyed_exactly_once.

(* free() through any variable destroys the object (once) and leaves no live wrapper pointing to it *)
Theorem free_uninitializes_all : forall (vkind : nat -> kind) (ops : list op) (s : st) (v h o : nat),
  run fixed vkind ops init = Some s -> vars s v = Some h -> hptr s h = Some o ->
  exists s', step fixed vkind (OFree v) s = Some (Done, s') /\
    alive s' o = false /\ count_occ Nat.eq_dec (dlog s') o = 1 /\
    (forall h', wrapper s' h' -> hptr s' h' <> Some o).
Proof. exact free_uninitializes_all_thm. Qed.
Print Assumptions free_uninitializes_all.

(* once every variable has been dropped, an object is alive only if dontUseRefs() pinned it, or it is
   the current stream of a live (pinned) device, or - for buffers - a live memory or pool owns it *)
Theorem no_leak : forall (vkind : nat -> kind) (ops : list op) (s : st),
  run fixed vkind ops init = Some s -> (forall v, vars s v = None) ->
  forall o k, alive s o = true -> tagof s o = TO k -> kept_alive s o k.
Proof. exact no_leak_thm. Qed.
Print Assumptions no_leak.

(* Not proved (DESIGN.md lists it as a corollary): accounted_memory_zero,
     forall vkind ops s d, run fixed vkind ops init = Some s -> alive s d = true -> tagof s d = TO KDev ->
       obytes s d = sum of osize s b over the live non-pool buffers b with odev s b = Some d
   (hence 0 once no buffer of d is left).  Missing: an invariant clause relating obytes to the sizes of the live
   buffers.  bytesAllocated is part of the model, of the reference semantics and of the observation compared
   with the library after every operation of every history. *)

(* ---------------------------------------------------------------- the code before the fixes *)
(* static types of the variables used by the drivers: D0 D1 M0..M4 P0..P2 K0 K1 S0..S2 T0 T1 *)
Definition vk (v : nat) : kind :=
  if Nat.ltb v 2 then KDev else if Nat.ltb v 7 then KMem else if Nat.ltb v 10 then KPool
  else if Nat.ltb v 12 then KKer else if Nat.ltb v 15 then KStr else KTag.

Definition only_swap_unfixed  := {| v_swap := false; v_byref := true;  v_inner := true |}.
Definition only_free_unfixed  := {| v_swap := true;  v_byref := false; v_inner := false |}.
Definition byref_without_detach := {| v_swap := true;  v_byref := true;  v_inner := false |}.

(* memory::swap exchanged the pointers but not the ring membership: a = malloc; b = malloc;
   a.swap(b); delete b; delete a  touches the freed wrapper b *)
Theorem swap_leak_refuted :
  run only_swap_unfixed vk [ONewDev 0; OMalloc 2 0 64; OMalloc 3 0 64; OSwap 2 3; ODrop 3; ODrop 2] init = None.
Proof. vm_compute. reflexivity. Qed.
Print Assumptions swap_leak_refuted.

Theorem pool_swap_refuted :
  run only_swap_unfixed vk [ONewDev 0; OPool 7 0; OPool 8 0; OSwap 7 8; ODrop 8; ODrop 7] init = None.
Proof. vm_compute. reflexivity. Qed.

(* device.free() with a live pool: freeRing walked a copy of the ring and deleted the pool's buffer
   after the pool had deleted it *)
Theorem device_free_with_pool_refuted :
  run only_free_unfixed vk [ONewDev 0; OPool 7 0; OReserve 2 7; OFree 0] init = None.
Proof. vm_compute. reflexivity. Qed.
Print Assumptions device_free_with_pool_refuted.

(* taking the ring by reference alone is not enough: when the pool's buffer precedes the pool in
   the device ring the buffer is deleted twice *)
Theorem byref_without_detach_refuted :
  run byref_without_detach vk [ONewDev 0; OMalloc 2 0 16; OPool 7 0; OReserve 3 7; OFree 2; OFree 0] init = None.
Proof. vm_compute. reflexivity. Qed.
Print Assumptions byref_without_detach_refuted.

Theorem pinned_refuted :
  run pinned vk [ONewDev 0; OMalloc 2 0 64; OMalloc 3 0 64; OSwap 2 3; ODrop 3; ODrop 2] init = None /\
  run pinned vk [ONewDev 0; OPool 7 0; OReserve 2 7; OFree 0] init = None.
Proof. split; vm_compute; reflexivity. Qed.

(* ---------------------------------------------------------------- non-vacuity *)
Definition after (V : variant) (ops : list op) (f : st -> bool) : bool :=
  match run V vk ops init with Some s => f s | None => false end.

(* the same histories on the fixed code end with nothing alive *)
Example swap_fixed_clean :
  after fixed [ONewDev 0; OMalloc 2 0 64; OMalloc 3 0 64; OSwap 2 3; ODrop 3; ODrop 2; ODrop 0]
        (fun s => Nat.eqb (live_count s KMem) 0 && Nat.eqb (live_count s KBuf) 0 && Nat.eqb (live_count s KDev) 0
                  && Nat.eqb (length (dlog s)) 6) = true.
Proof. vm_compute. reflexivity. Qed.

Example device_free_fixed_clean :
  after fixed [ONewDev 0; OMalloc 2 0 16; OPool 7 0; OReserve 3 7; OFree 2; OFree 0]
        (fun s => Nat.eqb (live_count s KMem) 0 && Nat.eqb (live_count s KBuf) 0 && Nat.eqb (live_count s KPool) 0
                  && Nat.eqb (live_count s KDev) 0) = true.
Proof. vm_compute. reflexivity. Qed.

(* a reachable state with an object shared by three wrappers, to which free_uninitializes_all applies *)
Example shared_then_free :
  after fixed [ONewDev 0; OMalloc 2 0 64; OCopy 3 2; OCopy 4 2]
        (fun s => match vars s 2 with
                  | Some h => match hptr s h with
                              | Some o => Nat.eqb (length (ring_list s o SH)) 3
                              | None => false end
                  | None => false end) = true.
Proof. vm_compute. reflexivity. Qed.
