(* C01 — dontUseRefs(), swap(), `var = temporary`. *)
From Coq Require Import List Arith Bool ZArith Lia Permutation.
From OV.C01 Require Import Model Ring Heap Inv InvPrim InvPrim2 ExecBase Exec Exec2 Exec3 Exec4 Exec5 Exec6 Alloc Ops Ops2 Ops3.
Import ListNotations.

Section O.
Variable vkind : nat -> kind.
Notation inv := (inv vkind).

Lemma inv_ouse_false X W D T G s o l :
  inv X W D T G s -> alive s o = true ->
  inv X W D T G (set_dus (set_ouse s (upd (ouse s) o false)) l).
Proof.
  intros Hi Ha.
  assert (Hlt : o < nxt s) by (eapply inv_lt; eassumption).
  destruct Hi as [Aheap Amem1 Amem2 Aown Afresh Atag Adead Ainner Aitag Ainj Aiown Agin Apres Adev Abuf Acur Acurinj
                  Ahand Avars Avinj AT ATnd Alive Alognd Alog AD Acs Apb].
  constructor; simpl_st; try assumption.
  - destruct Aheap. constructor; simpl_st; assumption.
  - intros e He. destruct (Afresh e He) as (A1 & A2 & A3 & A4 & A5). repeat split; try tauto.
    rewrite upd_other by lia. exact A4.
  - intros x k Hax Htx Hw. specialize (Alive x k Hax Htx Hw). destruct k; try exact Alive;
      (intros Hu; apply Alive; unfold upd in Hu; destruct (Nat.eqb x o); [discriminate|exact Hu]).
Qed.

Lemma h_dontUseRefs_spec T G s h :
  inv [] [] [] T G s -> usable T s h ->
  exists s', h_dontUseRefs h s = Some (tt, s') /\ inv [] [] [] T G s' /\
    grow s s' /\ vars s' = vars s /\ nxt s' = nxt s /\ hptr s' = hptr s /\
    (dus s' = dus s \/ exists o, hptr s h = Some o /\ dus s' = o :: dus s).
Proof.
  intros Hi Hu. destruct (usable_facts vkind T G s h Hi Hu) as (Hah & [k Hth] & _).
  unfold h_dontUseRefs. erewrite bind_run by (apply rd_run; exact Hah).
  destruct (hptr s h) as [o|] eqn:Ep.
  - destruct (target_facts vkind T G s h o k Hi Hah Hth Ep) as (_ & Hao & _).
    erewrite bind_run by (apply wr_ouse_run; exact Hao).
    eexists. split; [reflexivity|]. split; [apply inv_ouse_false; assumption|].
    unfold modify. simpl_st. split; [unfold grow; simpl_st; repeat split; auto|].
    repeat split; try reflexivity. right. exists o. tauto.
  - exists s. split; [reflexivity|]. split; [exact Hi|]. split; [apply grow_refl|]. repeat split; auto.
Qed.

Lemma grow_tag s s' e : grow s s' -> e < nxt s -> tagof s' e = tagof s e.
Proof. intros (_ & H & _) He. now apply H. Qed.

Lemma usable_lt T G s h : inv [] [] [] T G s -> usable T s h -> h < nxt s.
Proof. intros Hi Hu. destruct (usable_facts vkind T G s h Hi Hu) as (Ha & _). eapply inv_lt; eassumption. Qed.

(* swap() through copy and assignments *)
Lemma h_swap_spec G s a b k :
  inv [] [] [] [] G s -> usable [] s a -> usable [] s b -> tagof s a = TH k -> tagof s b = TH k ->
  exists G' s', h_swap fixed a b s = Some (tt, s') /\ inv [] [] [] [] G' s' /\
    grow s s' /\ vars s' = vars s /\ dus s' = dus s.
Proof.
  intros Hi Hua Hub Hta Htb. unfold h_swap. cbn [v_swap fixed].
  destruct (usable_facts vkind [] G s a Hi Hua) as (Haa & _ & _).
  destruct (usable_facts vkind [] G s b Hi Hub) as (Hab & _ & _).
  pose proof (usable_lt [] G s a Hi Hua) as Hla. pose proof (usable_lt [] G s b Hi Hub) as Hlb.
  destruct Hua as [[va Hva]|[]]. destruct Hub as [[vb Hvb]|[]].
  destruct (h_copy_spec vkind [] G s b k Hi Hab Htb) as
      (G1 & s1 & R1 & Hi1 & Hp1 & Ht1 & Hg1 & Hv1 & Hd1 & Hn1 & Ho1 & Hl1 & Hf1).
  set (tmp := nxt s) in *.
  erewrite bind_run by exact R1.
  assert (Hub1 : usable [tmp] s1 b) by (left; exists vb; rewrite Hv1; exact Hvb).
  assert (Hua1 : usable [tmp] s1 a) by (left; exists va; rewrite Hv1; exact Hva).
  assert (Hta1 : tagof s1 a = TH k) by (rewrite (grow_tag _ _ _ Hg1 Hla); exact Hta).
  assert (Htb1 : tagof s1 b = TH k) by (rewrite (grow_tag _ _ _ Hg1 Hlb); exact Htb).
  destruct (usable_facts vkind [tmp] G1 s1 a Hi1 Hua1) as (Haa1 & _ & _).
  destruct (h_assign_spec vkind [tmp] G1 s1 b a k Hi1 Hub1 Htb1 Haa1 Hta1) as
      (G2 & s2 & R2 & Hi2 & Hp2 & Hg2 & Hv2 & Hd2 & Hn2 & Ho2 & Hf2).
  erewrite bind_run by exact R2.
  assert (Hua2 : usable [tmp] s2 a) by (left; exists va; rewrite Hv2, Hv1; exact Hva).
  assert (Hla1 : a < nxt s1) by (rewrite Hn1; lia).
  assert (Hta2 : tagof s2 a = TH k) by (rewrite (grow_tag _ _ _ Hg2 Hla1); exact Hta1).
  assert (Htmp2 : alive s2 tmp = true /\ tagof s2 tmp = TH k).
  { destruct (i_T _ _ _ _ _ _ _ Hi2 tmp ltac:(now left)) as [A1 _]. split; [exact A1|].
    rewrite (grow_tag _ _ _ Hg2); [exact Ht1|]. rewrite Hn1. unfold tmp. lia. }
  destruct Htmp2 as [Hat2 Htt2].
  destruct (h_assign_spec vkind [tmp] G2 s2 a tmp k Hi2 Hua2 Hta2 Hat2 Htt2) as
      (G3 & s3 & R3 & Hi3 & Hp3 & Hg3 & Hv3 & Hd3 & Hn3 & Ho3 & Hf3).
  erewrite bind_run by exact R3.
  destruct (h_dtor_temp vkind [] G3 s3 tmp Hi3) as (G4 & s4 & R4 & Hi4 & Hg4 & Hv4 & Hd4 & Hn4 & Ho4 & Hf4).
  exists G4, s4. split; [exact R4|]. split; [exact Hi4|].
  split; [eapply grow_trans; [exact Hg1|]; eapply grow_trans; [exact Hg2|]; eapply grow_trans; eassumption|].
  split; congruence.
Qed.

(* var = temporary *)
Lemma store_spec G s v t :
  inv [] [] [] [t] G s -> tagof s t = TH (vkind v) ->
  exists G' s', store fixed v t s = Some (tt, s') /\ inv [] [] [] [] G' s' /\
    grow s s' /\ dus s' = dus s /\
    (forall v', v' <> v -> vars s' v' = vars s v') /\ (exists h, vars s' v = Some h).
Proof.
  intros Hi Ht. unfold store. erewrite bind_run by apply get_run.
  destruct (vars s v) as [h|] eqn:Ev.
  - destruct (i_vars _ _ _ _ _ _ _ Hi v h Ev) as (V1 & V2 & V3).
    assert (Hat : alive s t = true) by (apply (i_T _ _ _ _ _ _ _ Hi t); now left).
    destruct (h_assign_spec vkind [t] G s h t (vkind v) Hi ltac:(left; now exists v) V1 Hat Ht) as
        (G1 & s1 & R1 & Hi1 & Hp1 & Hg1 & Hv1 & Hd1 & Hn1 & Ho1 & Hf1).
    erewrite bind_run by exact R1.
    destruct (h_dtor_temp vkind [] G1 s1 t Hi1) as (G2 & s2 & R2 & Hi2 & Hg2 & Hv2 & Hd2 & Hn2 & Ho2 & Hf2).
    exists G2, s2. split; [exact R2|]. split; [exact Hi2|].
    split; [eapply grow_trans; eassumption|]. split; [congruence|]. split.
    + intros v' _. congruence.
    + exists h. congruence.
  - eexists G, _. split; [reflexivity|]. split.
    + apply inv_bind_var; try assumption. intros [].
    + simpl_st. split; [unfold grow; simpl_st; repeat split; auto|]. split; [reflexivity|]. split.
      * intros v' Hne. now apply upd_other.
      * exists t. apply upd_same.
Qed.

End O.
