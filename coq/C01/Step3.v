(* C01 — the final sweep, and the step theorem. *)
From Coq Require Import List Arith Bool ZArith Lia Permutation.
From OV.C01 Require Import Model Ring Heap Inv InvPrim InvPrim2 ExecBase Exec Exec2 Exec3 Exec4 Exec5 Exec6 Alloc Ops Ops2 Ops3 Ops4 Create Create2 Pool Pool2 Device Step Step2.
Import ListNotations.

Section S.
Variable vkind : nat -> kind.
Notation inv := (inv vkind).
Notation WF := (WF vkind).
Notation ok_step := (ok_step vkind).

Lemma drop_all vs : forall s, WF s ->
  exists s', mapM_ (drop_var fixed) vs s = Some (tt, s') /\ WF s' /\ dus s' = dus s /\ grow s s'.
Proof.
  induction vs as [|v vs IH]; intros s Hw.
  - exists s. split; [reflexivity|]. split; [exact Hw|]. split; [reflexivity|apply grow_refl].
  - cbn [mapM_]. destruct Hw as [[G Hi] Hd].
    destruct (vars s v) as [h|] eqn:Ev.
    + destruct (drop_var_spec vkind G s v h Hi Ev) as (G1 & s1 & R1 & Hi1 & Hg1 & _ & Hd1 & _).
      erewrite bind_run by exact R1.
      assert (Hw1 : WF s1) by (split; [now exists G1|eapply dus_ok_grow; eassumption]).
      destruct (IH s1 Hw1) as (s' & R' & Hw' & Hd' & Hg').
      exists s'. split; [exact R'|]. split; [exact Hw'|]. split; [congruence|eapply grow_trans; eassumption].
    + assert (R1 : drop_var fixed v s = Some (tt, s)).
      { unfold drop_var. erewrite bind_run by apply get_run. rewrite Ev. reflexivity. }
      erewrite bind_run by exact R1. apply IH. split; [now exists G|exact Hd].
Qed.

Definition keptprop (s : st) (o : nat) : Prop := (exists k, tagof s o = TO k /\ k <> KBuf) /\ o < nxt s.

Lemma keptprop_grow s s' o : keptprop s o -> grow s s' -> keptprop s' o.
Proof.
  intros [(k & Hk1 & Hk2) Hlt] (G1 & G2 & _). split; [exists k; split; [rewrite G2 by exact Hlt; exact Hk1|exact Hk2]|lia].
Qed.

Lemma free_kept_spec s o : WF s -> keptprop s o ->
  exists s', free_kept fixed o s = Some (tt, s') /\ WF s' /\ grow s s' /\ dus s' = dus s.
Proof.
  intros [[G Hi] Hd] [(k & Hk1 & Hk2) Hlt]. unfold free_kept.
  erewrite bind_run by apply get_run.
  destruct (alive s o) eqn:Ea; cbn [negb].
  2:{ exists s. split; [reflexivity|]. split; [split; [now exists G|exact Hd]|]. split; [apply grow_refl|reflexivity]. }
  erewrite bind_run by apply get_run. unfold kind_of at 1. rewrite Hk1.
  destruct (h_new_spec vkind [] G s k (Some o) Hi) as (G1 & s1 & R1 & Hi1 & Hp1 & Ht1 & Hg1 & Hv1 & Hd1 & _).
  { intros x E. injection E as <-. tauto. }
  erewrite bind_run by exact R1.
  destruct (h_free_spec vkind [nxt s] G1 s1 (nxt s) k Hi1 ltac:(right; now left) Ht1) as
      (G2 & s2 & R2 & Hi2 & Hg2 & Hv2 & Hd2 & _).
  erewrite bind_run by exact R2.
  destruct (h_dtor_temp vkind [] G2 s2 (nxt s) Hi2) as (G3 & s3 & R3 & Hi3 & Hg3 & Hv3 & Hd3 & _).
  exists s3. split; [exact R3|].
  assert (Hg : grow s s3) by (eapply grow_trans; [exact Hg1|eapply grow_trans; eassumption]).
  split; [split; [now exists G3|eapply dus_ok_grow; [exact Hd|exact Hg|congruence]]|]. split; [exact Hg|congruence].
Qed.

Lemma free_all L : forall s, WF s -> (forall o, In o L -> keptprop s o) ->
  exists s', mapM_ (free_kept fixed) L s = Some (tt, s') /\ WF s'.
Proof.
  induction L as [|o L IH]; intros s Hw HL.
  - exists s. split; [reflexivity|exact Hw].
  - cbn [mapM_]. destruct (free_kept_spec s o Hw (HL o (or_introl eq_refl))) as (s1 & R1 & Hw1 & Hg1 & _).
    erewrite bind_run by exact R1. apply IH; [exact Hw1|].
    intros x Hx. eapply keptprop_grow; [apply HL; now right|exact Hg1].
Qed.

Lemma step_end s vs : WF s -> ok_step (OEnd vs) s.
Proof.
  intros Hw. unfold ok_step, step.
  destruct (drop_all vs s Hw) as (s1 & R1 & Hw1 & Hd1 & Hg1).
  erewrite bind_run by exact R1. erewrite bind_run by apply get_run.
  destruct (free_all (rev (dus s1)) s1 Hw1) as (s2 & R2 & Hw2).
  { intros o Ho. apply in_rev in Ho. destruct Hw1 as [_ Hdk]. exact (Hdk o Ho). }
  erewrite bind_run by exact R2.
  exists Done, s2. split; [reflexivity|exact Hw2].
Qed.

(* ---------------------------------------------------------------- every operation *)
Theorem step_ok o s : WF s -> exists r s', step fixed vkind o s = Some (r, s') /\ WF s'.
Proof.
  intros Hw. destruct o.
  - apply step_newdev; exact Hw.
  - apply step_malloc; exact Hw.
  - apply step_pool; exact Hw.
  - apply step_reserve; exact Hw.
  - apply step_slice; exact Hw.
  - apply step_leaf; exact Hw.
  - apply step_getstream; exact Hw.
  - apply step_copy; exact Hw.
  - apply step_assign; exact Hw.
  - apply step_swap; exact Hw.
  - apply step_free; exact Hw.
  - apply step_drop; exact Hw.
  - apply step_dontUseRefs; exact Hw.
  - apply step_end; exact Hw.
Qed.

End S.
