(* C01 — destructor of temporaries and variables, free(), dontUseRefs(), swap(), store. *)
From Coq Require Import List Arith Bool ZArith Lia Permutation.
From OV.C01 Require Import Model Ring Heap Inv InvPrim InvPrim2 ExecBase Exec Exec2 Exec3 Exec4 Exec5 Exec6 Alloc Ops Ops2.
Import ListNotations.

Section O.
Variable vkind : nat -> kind.
Notation inv := (inv vkind).

Lemma remove_head_nodup (l : list nat) t : ~ In t l -> remove Nat.eq_dec t (t :: l) = l.
Proof. intros H. cbn. destruct (Nat.eq_dec t t); [|congruence]. now apply notin_remove. Qed.

(* destructor of a temporary *)
Lemma h_dtor_temp T G s t :
  inv [] [] [] (t :: T) G s ->
  exists G' s', h_dtor fixed t s = Some (tt, s') /\ inv [] [] [] T G' s' /\
    grow s s' /\ vars s' = vars s /\ dus s' = dus s /\ nxt s' = nxt s /\ ouse s' = ouse s /\
    (forall x, hptr s' x = hptr s x \/ hptr s' x = None).
Proof.
  intros Hi.
  assert (HtT : ~ In t T) by (pose proof (i_T_nd _ _ _ _ _ _ _ Hi) as H; apply NoDup_cons_iff in H; tauto).
  destruct (h_dtor_core vkind (t :: T) G s t Hi ltac:(right; now left)) as
      (G' & s' & Hrun & Hi' & Hd & Hg & Hv & Hdu & Hn & Hou & Hfr).
  rewrite (remove_head_nodup T t HtT) in Hi'.
  exists G', s'. split; [exact Hrun|]. split.
  - eapply inv_unX_dead_handle; [exact Hi'|exact Hd|].
    intros v Hc. rewrite Hv in Hc. destruct (i_vars _ _ _ _ _ _ _ Hi v t Hc) as (_ & H & _). apply H. now left.
  - exact (conj Hg (conj Hv (conj Hdu (conj Hn (conj Hou Hfr))))).
Qed.

(* delete of the wrapper held by a variable *)
Lemma drop_var_spec G s v h :
  inv [] [] [] [] G s -> vars s v = Some h ->
  exists G' s', drop_var fixed v s = Some (tt, s') /\ inv [] [] [] [] G' s' /\
    grow s s' /\ vars s' = upd (vars s) v None /\ dus s' = dus s /\ nxt s' = nxt s /\ ouse s' = ouse s /\
    (forall x, hptr s' x = hptr s x \/ hptr s' x = None).
Proof.
  intros Hi Hv. unfold drop_var. erewrite bind_run by apply get_run. rewrite Hv.
  destruct (h_dtor_core vkind [] G s h Hi ltac:(left; now exists v)) as
      (G' & s1 & Hrun & Hi1 & Hd & Hg & Hvv & Hdu & Hn & Hou & Hfr).
  erewrite bind_run by exact Hrun. cbn [remove] in Hi1.
  exists G', (set_vars s1 (upd (vars s1) v None)). split; [reflexivity|]. split.
  - eapply inv_clear_var; [exact Hi1|intros []|exact Hd|]. rewrite Hvv. exact Hv.
  - simpl_st. rewrite Hvv.
    assert (Hg2 : grow s (set_vars s1 (upd (vars s1) v None))).
    { eapply grow_trans; [exact Hg|]. unfold grow. simpl_st. repeat split; auto. }
    exact (conj Hg2 (conj eq_refl (conj Hdu (conj Hn (conj Hou Hfr))))).
Qed.

(* a wrapper's pointer is reset while it points nowhere / after its object died *)
Lemma inv_reset_hptr T G s h :
  inv [] [] [] T G s -> alive s h = true -> is_h_tag (tagof s h) -> hptr s h = None ->
  inv [] [] [] T G (set_hptr s (upd (hptr s) h None)).
Proof.
  intros Hi Ha [k Hk] Hp.
  assert (Hfree : free_of G h).
  { intros o sl Hin. destruct (i_mem1 _ _ _ _ _ _ _ Hi _ _ _ Hin) as [Hm _]. unfold home in Hm. rewrite Hk, Hp in Hm. discriminate. }
  eapply inv_drop_X; [apply inv_set_hptr; [apply inv_weaken_X; eassumption|now left|now exists k|]|intros []| |].
  - intros d st _ _ _ _ E. discriminate.
  - intros _. unfold home. simpl_st. rewrite Hk, upd_same. split; [reflexivity|discriminate].
  - intros v _. simpl_st. exact Ha.
Qed.

(* free() *)
Lemma h_free_spec T G s h k :
  inv [] [] [] T G s -> usable T s h -> tagof s h = TH k ->
  exists G' s', h_free fixed h s = Some (tt, s') /\ inv [] [] [] T G' s' /\
    grow s s' /\ vars s' = vars s /\ dus s' = dus s /\ nxt s' = nxt s /\ ouse s' = ouse s /\
    (forall x, hptr s' x = hptr s x \/ hptr s' x = None) /\
    hptr s' h = None /\
    (forall o, hptr s h = Some o ->
       alive s' o = false /\ In o (dlog s') /\
       forall h', alive s' h' = true -> is_h_tag (tagof s' h') -> hptr s' h' <> Some o).
Proof.
  intros Hi Hu Hth.
  destruct (usable_facts vkind T G s h Hi Hu) as (Hah & _ & Hnc).
  unfold h_free. erewrite bind_run by (apply rd_run; exact Hah).
  erewrite bind_run by apply get_run. unfold kind_of at 1. rewrite Hth.
  destruct (hptr s h) as [o|] eqn:Ep.
  2:{ (* nothing to free *)
      set (s' := set_hptr s (upd (hptr s) h None)).
      assert (Hi' : inv [] [] [] T G s') by (apply inv_reset_hptr; try assumption; now exists k).
      assert (Hrun' : (ret tt;;; wr_hptr h None) s = Some (tt, s')).
      { erewrite bind_run by reflexivity. apply wr_hptr_run. exact Hah. }
      assert (R1 : grow s s /\ vars s = vars s /\ dus s = dus s /\ nxt s = nxt s /\ ouse s = ouse s /\
                   (forall x, hptr s x = hptr s x \/ hptr s x = None) /\ hptr s h = None /\
                   (forall o, None = Some o -> alive s o = false /\ In o (dlog s) /\
                      forall h', alive s h' = true -> is_h_tag (tagof s h') -> hptr s h' <> Some o)).
      { split; [apply grow_refl|]. repeat split; auto; discriminate. }
      assert (R2 : grow s s' /\ vars s' = vars s /\ dus s' = dus s /\ nxt s' = nxt s /\ ouse s' = ouse s /\
                   (forall x, hptr s' x = hptr s x \/ hptr s' x = None) /\ hptr s' h = None /\
                   (forall o, None = Some o -> alive s' o = false /\ In o (dlog s') /\
                      forall h', alive s' h' = true -> is_h_tag (tagof s' h') -> hptr s' h' <> Some o)).
      { unfold s'. simpl_st. split; [apply grow_set_hptr|]. repeat split; try reflexivity; try discriminate.
        - intros x. unfold upd. destruct (Nat.eqb x h); auto.
        - apply upd_same. }
      destruct k.
      - exists G, s. split; [reflexivity|]. split; [exact Hi|exact R1].
      - exists G, s'. split; [exact Hrun'|]. split; [exact Hi'|exact R2].
      - exists G, s. split; [reflexivity|]. split; [exact Hi|exact R1].
      - exists G, s. split; [reflexivity|]. split; [exact Hi|exact R1].
      - exists G, s'. split; [exact Hrun'|]. split; [exact Hi'|exact R2].
      - exists G, s'. split; [exact Hrun'|]. split; [exact Hi'|exact R2].
      - exists G, s'. split; [exact Hrun'|]. split; [exact Hi'|exact R2]. }
  destruct (target_facts vkind T G s h o k Hi Hah Hth Ep) as (Hin & Hao & Hto & Hkb & Hcur & Hib).
  destruct (delete_top vkind (fuel_of s) [] T G s o k) as (G1 & s1 & Hex1 & Hi1 & Hd1 & Hsh1 & Hk1 & Hhk1).
  - apply inv_weaken_W. exact Hi.
  - exact Hao.
  - exact Hto.
  - exact Hkb.
  - intros x [].
  - intros E. destruct (Hcur E) as (C1 & C2 & C3 & _ & C5 & C6). repeat split; try assumption. intros [].
  - exact Hib.
  - pose proof (fuel_ok s). lia.
  - assert (Hi1' : inv [] [] [] T G1 s1) by (eapply inv_unW_dead; eassumption).
    pose proof Hsh1 as (E1 & Etag & Eal & Ehp & Evars & Eodev & Egin & Ecur & Euse & Edus & Emoff & Eps & Eoin & Eob).
    assert (Hh1 : alive s1 h = true).
    { destruct (alive s1 h) eqn:E; [reflexivity|]. exfalso.
      destruct (Hhk1 h ltac:(now exists k) Hah E) as [-> E2].
      exact (Hnc o Hao Hto (eq_sym E2)). }
    assert (Hp1 : hptr s1 h = None).
    { destruct (hptr s1 h) as [o1|] eqn:Ep1; [exfalso|reflexivity].
      destruct (Ehp h) as [E|E]; [|congruence]. rewrite Ep in E. rewrite E in Ep1. injection Ep1 as <-.
      assert (Hm : In h (G1 o SH)).
      { apply (i_mem2 _ _ _ _ _ _ _ Hi1'); [exact Hh1|intros []|]. unfold home. rewrite Etag, Hth, E. reflexivity. }
      destruct (i_own _ _ _ _ _ _ _ Hi1' _ _ _ Hm) as [Hc _]. congruence. }
    assert (Hdead : forall s2 G2, inv [] [] [] T G2 s2 -> alive s2 o = false -> tagof s2 o = TO k ->
              alive s2 o = false /\ In o (dlog s2) /\
              forall h', alive s2 h' = true -> is_h_tag (tagof s2 h') -> hptr s2 h' <> Some o).
    { intros s2 G2 Hi2 Hd2 Ht2. split; [exact Hd2|]. split.
      - apply (i_log _ _ _ _ _ _ _ Hi2). split; [now exists k|now left].
      - intros h' Ha' [k' Hk'] Hc.
        assert (Hm : In h' (G2 o SH)).
        { apply (i_mem2 _ _ _ _ _ _ _ Hi2); [exact Ha'|intros []|]. unfold home. now rewrite Hk', Hc. }
        destruct (i_own _ _ _ _ _ _ _ Hi2 _ _ _ Hm) as [Hc2 _]. congruence. }
    assert (Hto1 : tagof s1 o = TO k) by (rewrite Etag; exact Hto).
    set (s2 := set_hptr s1 (upd (hptr s1) h None)).
    assert (Hi2 : inv [] [] [] T G1 s2).
    { apply inv_reset_hptr; try assumption. rewrite Etag. now exists k. }
    assert (Hrun_null : ((match k with KDev => exec fixed (fuel_of s) (TFreeDev o) | _ => exec fixed (fuel_of s) (TDelete o) end);;;
                         wr_hptr h None) s = Some (tt, s2)).
    { erewrite bind_run by exact Hex1. apply wr_hptr_run. exact Hh1. }
    assert (Hfin2 : grow s s2 /\ vars s2 = vars s /\ dus s2 = dus s /\ nxt s2 = nxt s /\ ouse s2 = ouse s /\
                    (forall x, hptr s2 x = hptr s x \/ hptr s2 x = None) /\ hptr s2 h = None /\
                    (forall o0, Some o = Some o0 -> alive s2 o0 = false /\ In o0 (dlog s2) /\
                      forall h', alive s2 h' = true -> is_h_tag (tagof s2 h') -> hptr s2 h' <> Some o0)).
    { unfold s2. simpl_st. split; [eapply grow_trans; [apply shrink_grow; exact Hsh1|apply grow_set_hptr]|].
      repeat split; try assumption.
      - intros x. unfold upd. destruct (Nat.eqb x h); [now right|apply Ehp].
      - apply upd_same.
      - injection H as <-. exact Hd1.
      - injection H as <-. apply (i_log _ _ _ _ _ _ _ Hi1'). split; [now exists k|now left].
      - injection H as <-. intros h' Ha' Ht' Hc.
        destruct (Hdead s2 G1 Hi2 Hd1 Hto1) as (_ & _ & Hn). apply (Hn h'); assumption. }
    assert (Hfin1 : grow s s1 /\ vars s1 = vars s /\ dus s1 = dus s /\ nxt s1 = nxt s /\ ouse s1 = ouse s /\
                    (forall x, hptr s1 x = hptr s x \/ hptr s1 x = None) /\ hptr s1 h = None /\
                    (forall o0, Some o = Some o0 -> alive s1 o0 = false /\ In o0 (dlog s1) /\
                      forall h', alive s1 h' = true -> is_h_tag (tagof s1 h') -> hptr s1 h' <> Some o0)).
    { split; [apply shrink_grow; exact Hsh1|]. repeat split; try assumption.
      - injection H as <-. exact Hd1.
      - injection H as <-. apply (Hdead s1 G1 Hi1' Hd1 Hto1).
      - injection H as <-. apply (Hdead s1 G1 Hi1' Hd1 Hto1). }
    unfold run_task.
    destruct k; try congruence.
    + exists G1, s2. split; [exact Hrun_null|]. split; [exact Hi2|exact Hfin2].
    + exists G1, s1. split; [exact Hex1|]. split; [exact Hi1'|exact Hfin1].
    + exists G1, s2. split; [exact Hrun_null|]. split; [exact Hi2|exact Hfin2].
    + exists G1, s2. split; [exact Hrun_null|]. split; [exact Hi2|exact Hfin2].
    + exists G1, s2. split; [exact Hrun_null|]. split; [exact Hi2|exact Hfin2].
    + exists G1, s2. split; [exact Hrun_null|]. split; [exact Hi2|exact Hfin2].
Qed.

End O.
