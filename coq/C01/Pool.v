(* C01 — memory pools: the pool's own buffer, resize, slices, reserve. *)
From Coq Require Import List Arith Bool ZArith Lia Permutation.
From OV.C01 Require Import Model Ring Heap Inv InvPrim InvPrim2 ExecBase Exec Exec2 Exec3 Exec4 Exec5 Exec6 Alloc Ops Ops2 Ops3 Ops4 Create Create2.
Import ListNotations.

Lemma ring_remove_app_last l x : ~ In x l -> ring_remove x (l ++ [x]) = l.
Proof.
  destruct l as [|h t]; cbn [app ring_remove]; intros H.
  - now rewrite Nat.eqb_refl.
  - destruct (Nat.eqb_spec h x) as [->|Hne]; [exfalso; apply H; now left|].
    f_equal. rewrite (remove_nat_split x t []); [apply app_nil_r|]. intros Hc. apply H. now right.
Qed.

Section P.
Variable vkind : nat -> kind.
Notation inv := (inv vkind).

Lemma inv_set_ginner X W D T G s b :
  inv X W D T G s -> In b X -> In b W -> tagof s b = TO KBuf -> G b SMem = [] ->
  inv X W D T G (set_ginner s (upd (ginner s) b true)).
Proof.
  intros Hi Hx Hw Ht Hnil.
  assert (Hhome : forall e, e <> b -> home (set_ginner s (upd (ginner s) b true)) e = home s e).
  { intros e He. unfold home. simpl_st. rewrite upd_other by exact He. reflexivity. }
  assert (Hlt : b < nxt s).
  { destruct (Nat.lt_ge_cases b (nxt s)) as [H|H]; [exact H|].
    destruct (i_fresh _ _ _ _ _ _ _ Hi b H) as (_ & Hf & _). congruence. }
  destruct Hi as [Aheap Amem1 Amem2 Aown Afresh Atag Adead Ainner Aitag Ainj Aiown Agin Apres Adev Abuf Acur Acurinj
                  Ahand Avars Avinj AT ATnd Alive Alognd Alog AD Acs Apb].
  constructor; simpl_st; try assumption.
  - destruct Aheap. constructor; simpl_st; assumption.
  - intros e o sl Hin. destruct (Amem1 e o sl Hin) as [H1 H2]. split; [|exact H2].
    rewrite Hhome; [exact H1|]. intros ->. contradiction.
  - intros e o sl Ha He Hh. apply Amem2; try assumption. rewrite <- Hhome; [exact Hh|]. intros ->. contradiction.
  - intros e He. destruct (Afresh e He) as (A1 & A2 & A3 & A4 & A5 & A6 & A7 & A8 & A9 & A10). repeat split; try assumption.
    rewrite upd_other by lia. exact A10.
  - intros p x Ha Hpw Hx'. destruct (Ainner p x Ha Hpw Hx') as (I1 & I2 & I3 & I4 & I5). repeat split; try assumption.
    unfold upd. destruct (Nat.eqb x b); [reflexivity|exact I4].
  - intros x Ha Htx Hg Hxw. apply Aiown; try assumption.
    destruct (Nat.eq_dec x b) as [E|E]; [subst x; contradiction|]. rewrite upd_other in Hg by exact E. exact Hg.
  - intros x Hg. destruct (Nat.eq_dec x b) as [E|E]; [subst x; tauto|]. rewrite upd_other in Hg by exact E. now apply Agin.
  - intros x k Ha Htx Hxw. specialize (Alive x k Ha Htx Hxw). destruct k; try exact Alive.
    intros Hg. apply Alive. unfold upd in Hg. destruct (Nat.eqb x b); [discriminate|exact Hg].
Qed.

(* makeBuffer(); modeDevice->removeMemoryRef(buffer); buffer->malloc(); bytesAllocated += ... *)
Lemma make_buffer_spec W T G s p d slots :
  inv [] W [] T G s -> alive s p = true -> odev s p = Some d -> alive s d = true -> tagof s d = TO KDev ->
  exists s', pool_make_buffer fixed p slots s = Some (nxt s, s') /\ inv [] (nxt s :: W) [] T G s' /\
    alive s' (nxt s) = true /\ tagof s' (nxt s) = TO KBuf /\ ginner s' (nxt s) = true /\
    odev s' (nxt s) = Some d /\ frame_new s s'.
Proof.
  intros Hi Hp Hod Had Htd. unfold pool_make_buffer. cbn [v_inner fixed].
  erewrite bind_run by (apply rd_run; exact Hp). rewrite Hod.
  set (nb := nxt s).
  destruct (new_buffer_spec vkind W T G s KBuf d 0%Z Hi (or_introl eq_refl) Had Htd) as
      (s1 & R1 & Hi1 & Ha1 & Ht1 & Hg1 & Hfr1 & Hod1).
  fold nb in R1, Hi1, Ha1, Ht1, Hg1, Hod1.
  erewrite bind_run by exact R1.
  destruct Hfr1 as (F1 & F2 & F3 & F4 & F5 & F6 & F7 & F8 & F9 & F10 & F11).
  assert (Hdn : d <> nb) by (intros ->; destruct (i_fresh _ _ _ _ _ _ _ Hi (nxt s) (le_n _)) as (F & _); unfold nb in Had; congruence).
  assert (Had1 : alive s1 d = true) by (destruct (F11 d Hdn) as (E & _); rewrite E; exact Had).
  assert (Htd1 : tagof s1 d = TO KDev) by (destruct (F11 d Hdn) as (_ & E & _); rewrite E; exact Htd).
  set (G1 := upd2 G d SBuf (G d SBuf ++ [nb])) in *.
  assert (HnbG : ~ In nb (G d SBuf)).
  { intros Hc. pose proof (hk_alive _ _ (i_heap _ _ _ _ _ _ _ Hi) _ _ _ Hc) as Hc2.
    destruct (i_fresh _ _ _ _ _ _ _ Hi (nxt s) (le_n _)) as (F & _). unfold nb in Hc2. congruence. }
  assert (Hin1 : In nb (G1 d SBuf)) by (unfold G1; rewrite upd2_same; apply in_or_app; right; now left).
  destruct (ring_removeRef_in s1 G1 d SBuf nb (i_heap _ _ _ _ _ _ _ Hi1) Had1 Hin1) as (s2 & R2 & Hsame2 & Hk2).
  assert (R2' : (need d;;; ring_removeRef d SBuf nb) s1 = Some (tt, s2)).
  { erewrite bind_run by (apply need_run; exact Had1). exact R2. }
  erewrite bind_run by exact R2'.
  assert (HG2 : forall o sl, upd2 G1 d SBuf (ring_remove nb (G1 d SBuf)) o sl = G o sl).
  { intros o sl. unfold G1. rewrite upd2_same, upd2_upd2. rewrite (ring_remove_app_last _ _ HnbG).
    destruct (upd2_cases G d SBuf (G d SBuf) o sl) as [(-> & -> & E)|(_ & E)]; rewrite E; reflexivity. }
  assert (Hi2 : inv [nb] (nb :: W) [] T G s2).
  { eapply inv_ext_G; [intros o sl; symmetry; apply HG2|].
    eapply inv_unlink; try eassumption; [apply incl_refl|].
    intros Hw k Hk. rewrite Htd1 in Hk. injection Hk as <-.
    rewrite upd2_other by (right; discriminate).
    apply (i_live _ _ _ _ _ _ _ Hi1 d KDev Had1 Htd1 Hw). }
  pose proof Hsame2 as (S1 & S2 & S3 & S4 & S5 & S6 & S7 & S8 & S9 & S10 & S11 & S12 & S13 & S14 & S15 & S16 & S17 & S18).
  unfold modify at 1. cbn [bind].
  set (s3 := set_ginner s2 (upd (ginner s2) nb true)).
  assert (Hnil : G nb SMem = []).
  { apply (i_dead _ _ _ _ _ _ _ Hi). apply (i_fresh _ _ _ _ _ _ _ Hi (nxt s) (le_n _)). }
  assert (Hi3 : inv [] (nb :: W) [] T G s3).
  { eapply inv_drop_X; [apply inv_set_ginner; [exact Hi2|now left|now left| |exact Hnil]|intros []| |].
    - rewrite S2. exact Ht1.
    - intros _. unfold home, s3. simpl_st. rewrite S2, Ht1, upd_same. split; [reflexivity|discriminate].
    - intros v _. unfold s3. simpl_st. rewrite S3. exact Ha1. }
  assert (Hnb3 : alive s3 nb = true) by (unfold s3; simpl_st; rewrite S3; exact Ha1).
  erewrite bind_run by (apply wr_osize_run; exact Hnb3).
  set (s4 := set_osize s3 (upd (osize s3) nb (unit_bytes * Z.of_nat slots)%Z)).
  assert (Hd4 : alive s4 d = true) by (unfold s4, s3; simpl_st; rewrite S3; exact Had1).
  erewrite bind_run by (apply rd_run; exact Hd4).
  erewrite bind_run by (apply wr_obytes_run; exact Hd4).
  eexists. split; [reflexivity|]. split.
  { apply inv_set_obytes. apply inv_set_osize. exact Hi3. }
  unfold s4, s3. simpl_st.
  split; [rewrite S3; exact Ha1|]. split; [rewrite S2; exact Ht1|]. split; [apply upd_same|].
  split; [rewrite S6; exact Hod1|].
  unfold frame_new. simpl_st.
  split.
  { destruct F1 as (G1' & G2' & G3' & G4' & G5' & G6'). unfold grow. simpl_st.
    rewrite S1, S2, S3, S6, S9. split; [exact G1'|]. split; [exact G2'|]. split; [exact G3'|]. split; [exact G4'|].
    split; [|exact G6']. intros e He. rewrite upd_other by (unfold nb; lia). rewrite S15. now apply G5'. }
  rewrite S16, S18, S1, S4, S8, S17, S5, S12, S13, F2, F3, F4, F5, F6, F7, F8, F9, F10.
  do 9 (split; [reflexivity|]).
  intros x Hx. rewrite S3, S2, S15, S7, S6. rewrite upd_other by exact Hx. now apply F11.
Qed.

Notation exec := (exec fixed).

(* delete of a pool's own buffer: no slices, no wrappers, not in the device ring *)
Lemma delete_inner_spec f X W D T G s ob :
  inv X W D T G s -> alive s ob = true -> tagof s ob = TO KBuf -> ginner s ob = true ->
  ~ In ob D -> In ob W ->
  (forall p, alive s p = true -> ~ In p W -> oinner s p <> Some ob) ->
  3 <= f ->
  exists s', exec f (TDelete ob) s = Some (tt, s') /\ inv X W D T G s' /\
    (forall x, alive s' x = if Nat.eqb x ob then false else alive s x) /\
    hptr s' = hptr s /\ tagof s' = tagof s /\ odev s' = odev s /\ ginner s' = ginner s /\ oinner s' = oinner s /\
    pres s' = pres s /\ pslots s' = pslots s /\ vars s' = vars s /\ dus s' = dus s /\ nxt s' = nxt s /\
    ouse s' = ouse s /\ ocur s' = ocur s /\ obuf s' = obuf s.
Proof.
  intros Hi Hb Ht Hg Hd Hw Hinn Hf.
  destruct f as [|f]; [lia|]. cbn [exec].
  destruct (delete_prologue vkind X W D T G s ob KBuf Hi Hb Ht Hd) as (R1 & R2 & R3 & Hi1 & Hlog).
  set (s1 := set_dlog s (ob :: dlog s)) in *.
  erewrite bind_run by exact R1. erewrite bind_run by apply get_run. rewrite R2. cbv beta iota.
  erewrite bind_run by exact R3.
  assert (Hnil : G ob SMem = []) by (apply (i_ginner _ _ _ _ _ _ _ Hi ob Hg)).
  assert (Hb1 : alive s1 ob = true) by exact Hb.
  assert (Hch : exec f (TChildren ob) s1 = Some (tt, s1)).
  { destruct f as [|f']; [lia|]. cbn [exec].
    erewrite bind_run by (eapply rd_head_run; [apply Hi1|exact Hb1]). rewrite Hnil. reflexivity. }
  destruct (i_dev _ _ _ _ _ _ _ Hi1 ob KBuf Hb1 Ht ltac:(discriminate) ltac:(discriminate)) as (d & Hd1 & Hd2 & Hd3).
  set (s2 := set_obytes s1 (upd (obytes s1) d (obytes s1 d - osize s1 ob)%Z)).
  assert (Hi2 : inv X W (ob :: D) T G s2) by (apply inv_set_obytes; exact Hi1).
  assert (Hfree : free_of G ob).
  { intros o' sl' Hin. destruct (i_mem1 _ _ _ _ _ _ _ Hi _ _ _ Hin) as [Hh _].
    unfold home in Hh. rewrite Ht, Hg in Hh. discriminate. }
  destruct (ring_removeRef_out s2 G d SBuf ob (i_heap _ _ _ _ _ _ _ Hi2) Hd2 Hb1 Hfree) as (s3 & R3' & Hsame3 & Hk3).
  assert (Hi3 : inv X W (ob :: D) T G s3) by (eapply inv_same_obj; eassumption).
  pose proof Hsame3 as (S1 & S2 & S3 & S4 & S5 & S6 & S7 & S8 & S9 & S10 & S11 & S12 & S13 & S14 & S15 & S16 & S17 & S18).
  assert (Hb3 : alive s3 ob = true) by (rewrite S3; exact Hb1).
  assert (Hbody : (ret tt;;; exec f (TChildren ob);;; d0 <- rd odev ob;;
            match d0 with
            | Some d1 => sz <- rd osize ob;; bt <- rd obytes d1;; wr_obytes d1 (bt - sz)%Z;;; ring_removeRef d1 SBuf ob
            | None => ret tt end) s1 = Some (tt, s3)).
  { erewrite bind_run by reflexivity. erewrite bind_run by exact Hch.
    erewrite bind_run by (apply rd_run; exact Hb1). rewrite Hd1.
    erewrite bind_run by (apply rd_run; exact Hb1). erewrite bind_run by (apply rd_run; exact Hd2).
    erewrite bind_run by (apply wr_obytes_run; exact Hd2). exact R3'. }
  erewrite bind_run by exact Hbody.
  rewrite (kill_run ob s3 Hb3).
  exists (set_alive s3 (upd (alive s3) ob false)). split; [reflexivity|]. split.
  - eapply kill_obj; try exact Hi3.
    + now left.
    + exact Hb3.
    + exists KBuf. rewrite S2. exact Ht.
    + exact Hd.
    + exact Hfree.
    + intros sl. destruct sl; try (eapply buf_rings; [exact Hi| |discriminate]; exact Ht). exact Hnil.
    + eapply logged_in_D; [exact Hi3|now left].
    + intros p Hap Hpw E. apply (Hinn p); [rewrite S3 in Hap; exact Hap|exact Hpw|rewrite S8 in E; exact E].
    + intros x k' Hax Hxb Htx Hk1' Hk2' E.
      destruct (i_dev _ _ _ _ _ _ _ Hi3 x k' Hax Htx Hk1' Hk2') as (d' & Hd1' & _ & Hd3').
      rewrite E in Hd1'. injection Hd1' as <-. rewrite S2 in Hd3'. unfold s2, s1 in Hd3'. simpl_st. congruence.
    + intros E. rewrite S2 in E. unfold s2, s1 in E. simpl_st. congruence.
    + intros b0 E. pose proof (i_inner_tag _ _ _ _ _ _ _ Hi3 ob b0 E) as Hc. rewrite S2 in Hc. unfold s2, s1 in Hc. simpl_st. congruence.
  - simpl_st. rewrite S2, S3, S4, S5, S6, S7, S8, S9, S12, S13, S15, S16, S18, S1. unfold s2, s1. simpl_st.
    split; [intros x; unfold upd; reflexivity|]. repeat split.
Qed.

(* buffer = newBuffer; size = ... of a pool that is under maintenance *)
Lemma inv_pool_attach X W D T G s p nb slots :
  inv X W D T G s -> In p W -> alive s p = true -> tagof s p = TO KPool ->
  (forall q, alive s q = true -> oinner s q <> Some nb) ->
  (forall b, oinner s p = Some b -> alive s b = false) ->
  inv X W D T G (set_pslots (set_oinner s (upd (oinner s) p (Some nb))) (upd (pslots s) p slots)).
Proof.
  intros Hi Hw Hp Ht Hnb Hold.
  assert (Hlt : p < nxt s) by (eapply inv_lt; eassumption).
  destruct Hi as [Aheap Amem1 Amem2 Aown Afresh Atag Adead Ainner Aitag Ainj Aiown Agin Apres Adev Abuf Acur Acurinj
                  Ahand Avars Avinj AT ATnd Alive Alognd Alog AD Acs Apb].
  assert (Hoi : forall q, q <> p -> upd (oinner s) p (Some nb) q = oinner s q) by (intros; now apply upd_other).
  constructor; simpl_st; try assumption.
  - destruct Aheap. constructor; simpl_st; assumption.
  - intros e He. destruct (Afresh e He) as (A1 & A2 & A3 & A4 & A5 & A6 & A7 & A8 & A9 & A10). repeat split; try assumption.
    + rewrite upd_other by lia. exact A7.
    + rewrite upd_other by lia. exact A9.
  - intros q b Ha Hqw Hb. assert (q <> p) by (intros ->; contradiction). rewrite Hoi in Hb by assumption. now apply Ainner.
  - intros q b Hb. destruct (Nat.eq_dec q p) as [->|Hne]; [exact Ht|]. rewrite Hoi in Hb by exact Hne. now apply (Aitag q b).
  - intros q q' b Ha Ha' Hb Hb'.
    destruct (Nat.eq_dec q p) as [E|E]; destruct (Nat.eq_dec q' p) as [E'|E']; try congruence.
    + subst q. rewrite upd_same in Hb. injection Hb as <-. rewrite Hoi in Hb' by exact E'. exfalso. exact (Hnb q' Ha' Hb').
    + subst q'. rewrite upd_same in Hb'. injection Hb' as <-. rewrite Hoi in Hb by exact E. exfalso. exact (Hnb q Ha Hb).
    + rewrite Hoi in Hb by exact E. rewrite Hoi in Hb' by exact E'. eapply Ainj; eassumption.
  - intros b Ha Htb Hg Hbw. destruct (Aiown b Ha Htb Hg Hbw) as (q & Hq1 & Hq2).
    exists q. split; [exact Hq1|]. destruct (Nat.eq_dec q p) as [->|Hne].
    + rewrite (Hold b Hq2) in Ha. discriminate.
    + rewrite Hoi by exact Hne. exact Hq2.
  - intros q Ha Htq Hqw. assert (q <> p) by (intros ->; contradiction).
    rewrite Hoi by assumption. rewrite upd_other by assumption. now apply Apb.
Qed.

Lemma resize_finish T G s p nb slots v :
  inv [] [nb; p] [] T G s -> alive s p = true -> tagof s p = TO KPool -> nb <> p ->
  alive s nb = true -> tagof s nb = TO KBuf -> ginner s nb = true -> odev s nb = odev s p ->
  oinner s nb = None ->
  (forall q, alive s q = true -> oinner s q <> Some nb) ->
  (forall b, oinner s p = Some b -> alive s b = false) ->
  (ouse s p = true -> G p SH <> []) ->
  (forall m, In m (G p SMem) -> In m (pres s p)) ->
  exists s', (wr_oinner p (Some nb);;; wr_pslots p slots;;; wr_osize p v) s = Some (tt, s') /\
    inv [] [] [] T G s' /\ oinner s' p = Some nb /\ pslots s' p = slots /\
    same_obj (set_osize (set_pslots (set_oinner s (upd (oinner s) p (Some nb))) (upd (pslots s) p slots))
                        (upd (osize s) p v)) s'.
Proof.
  intros Hi Hp Ht Hne Hanb Htnb Hgnb Hodnb Hoinb Hfresh Hold Hlive Hpres.
  erewrite bind_run by (apply wr_oinner_run; exact Hp).
  erewrite bind_run by (apply wr_pslots_run; simpl_st; exact Hp).
  rewrite wr_osize_run by (simpl_st; exact Hp). simpl_st.
  eexists. split; [reflexivity|]. split; [|split; [apply upd_same|split; [apply upd_same|apply same_obj_refl]]].
  set (s1 := set_pslots (set_oinner s (upd (oinner s) p (Some nb))) (upd (pslots s) p slots)).
  change (inv [] [] [] T G (set_osize s1 (upd (osize s1) p v))).
  apply inv_set_osize.
  assert (Hi1 : inv [] [nb; p] [] T G s1).
  { apply inv_pool_attach; try assumption. right. now left. }
  (* the new buffer is owned *)
  assert (Hi2 : inv [] [p] [] T G s1).
  { apply (inv_unW vkind [] [p] [] T G s1 nb); [exact Hi1|intros [E|[]]; congruence| | | | | |].
    - intros _ k Hk. unfold s1 in Hk. simpl_st. rewrite Htnb in Hk. injection Hk as <-.
      intros Hg. unfold s1 in Hg. simpl_st. congruence.
    - intros b _ Hb. unfold s1 in Hb. simpl_st. rewrite upd_other in Hb by exact Hne. congruence.
    - intros _ _ _. exists p. unfold s1. simpl_st. split; [exact Hp|apply upd_same].
    - intros _ Hc. unfold s1 in Hc. simpl_st. congruence.
    - intros _ Hc. unfold s1 in Hc. simpl_st. congruence.
    - intros _ Hc. unfold s1 in Hc. simpl_st. congruence. }
  apply (inv_unW vkind [] [] [] T G s1 p); [exact Hi2|intros []| | | | | |].
  - intros _ k Hk. unfold s1 in Hk. simpl_st. rewrite Ht in Hk. injection Hk as <-. unfold s1. simpl_st. exact Hlive.
  - intros b _ Hb. unfold s1 in Hb |- *. simpl_st. rewrite upd_same in Hb. injection Hb as <-. tauto.
  - intros _ Hc. unfold s1 in Hc. simpl_st. congruence.
  - intros _ _ m Hm. unfold s1. simpl_st. now apply Hpres.
  - intros _ Hc. unfold s1 in Hc. simpl_st. congruence.
  - intros _ _ _. unfold s1. simpl_st. rewrite upd_same. discriminate.
Qed.

Definition frame_pool (s s' : st) : Prop :=
  grow s s' /\ vars s' = vars s /\ dus s' = dus s /\ hptr s' = hptr s /\ ouse s' = ouse s /\
  pres s' = pres s /\ nxt s <= nxt s'.

(* modeMemoryPool_t::resize as reached from reserve *)
Lemma resize_spec T G s p slots :
  inv [] [] [] T G s -> alive s p = true -> tagof s p = TO KPool -> slots <> 0 ->
  exists s', pool_resize fixed p slots s = Some (tt, s') /\ inv [] [] [] T G s' /\
    alive s' p = true /\ tagof s' p = TO KPool /\ oinner s' p <> None /\ pslots s' p = slots /\ frame_pool s s'.
Proof.
  intros Hi Hp Ht Hs0. unfold pool_resize.
  erewrite bind_run by (apply rd_run; exact Hp).
  destruct (Nat.eqb_spec (pslots s p) slots) as [Eq|Hneq].
  { exists s. split; [reflexivity|]. split; [exact Hi|]. split; [exact Hp|]. split; [exact Ht|]. split.
    - apply (i_pool_buf _ _ _ _ _ _ _ Hi p Hp Ht ltac:(intros [])). right. congruence.
    - split; [exact Eq|]. unfold frame_pool. repeat split; auto using grow_refl. }
  erewrite bind_run by (apply rd_run; exact Hp).
  erewrite bind_run by (apply rd_run; exact Hp).
  destruct (i_dev _ _ _ _ _ _ _ Hi p KPool Hp Ht ltac:(discriminate) ltac:(discriminate)) as (d & Hod & Had & Htd).
  assert (Hlive : ouse s p = true -> G p SH <> []) by (apply (i_live _ _ _ _ _ _ _ Hi p KPool Hp Ht ltac:(intros []))).
  assert (Hpres : forall m, In m (G p SMem) -> In m (pres s p)).
  { intros m. apply (i_pres _ _ _ _ _ _ _ Hi p m Hp Ht ltac:(intros [])). }
  (* the old buffer, if any *)
  assert (Hold : forall ob, oinner s p = Some ob ->
             alive s ob = true /\ tagof s ob = TO KBuf /\ ginner s ob = true /\ ob <> p /\
             forall q, alive s q = true -> q <> p -> oinner s q <> Some ob).
  { intros ob E. destruct (i_inner _ _ _ _ _ _ _ Hi p ob Hp ltac:(intros []) E) as (_ & A1 & A2 & A3 & _).
    repeat split; try assumption.
    - intros ->. congruence.
    - intros q Hq Hqp Eq. apply Hqp. eapply (i_inner_inj _ _ _ _ _ _ _ Hi); eassumption. }
  assert (Hfuel : 3 <= fuel_of s) by (unfold fuel_of; lia).
  destruct (pres s p) as [|m0 res] eqn:Eres.
  - (* no reservations: delete the old buffer first *)
    assert (Hstep1 : exists s1, (match oinner s p with Some ob => run_task fixed (TDelete ob) | None => ret tt end) s = Some (tt, s1) /\
               inv [] [p] [] T G s1 /\
               (forall x, alive s1 x = true -> alive s x = true) /\ alive s1 p = true /\ alive s1 d = true /\
               (forall b, oinner s p = Some b -> alive s1 b = false) /\
               hptr s1 = hptr s /\ tagof s1 = tagof s /\ odev s1 = odev s /\ ginner s1 = ginner s /\ oinner s1 = oinner s /\
               pres s1 = pres s /\ pslots s1 = pslots s /\ vars s1 = vars s /\ dus s1 = dus s /\ nxt s1 = nxt s /\
               ouse s1 = ouse s /\ ocur s1 = ocur s /\ obuf s1 = obuf s).
    { destruct (oinner s p) as [ob|] eqn:Eo.
      - destruct (Hold ob eq_refl) as (A1 & A2 & A3 & A4 & A5).
        destruct (delete_inner_spec (fuel_of s) [] [ob; p] [] T G s ob) as (s1 & R1 & Hi1 & Hal1 & Hrest); try assumption.
        + apply inv_incl_W with (W := []); [exact Hi|intros x []].
        + intros [].
        + now left.
        + intros q Hq Hqw. apply A5; [exact Hq|]. intros ->. apply Hqw. right. now left.
        + exists s1. split; [exact R1|]. split; [eapply inv_unW_dead; [exact Hi1|]; rewrite Hal1, Nat.eqb_refl; reflexivity|].
          split; [intros x Hx; rewrite Hal1 in Hx; destruct (Nat.eqb x ob); [discriminate|exact Hx]|].
          split; [rewrite Hal1; destruct (Nat.eqb_spec p ob); [congruence|exact Hp]|].
          split; [rewrite Hal1; destruct (Nat.eqb_spec d ob) as [->|_]; [congruence|exact Had]|].
          split; [intros b Eb; injection Eb as <-; rewrite Hal1, Nat.eqb_refl; reflexivity|exact Hrest].
      - exists s. split; [reflexivity|]. split; [apply inv_incl_W with (W := []); [exact Hi|intros x []]|].
        repeat split; auto. intros b Eb. discriminate. }
    destruct Hstep1 as (s1 & R1 & Hi1 & Hmono1 & Hp1 & Hd1 & Hdead1 & E1).
    destruct E1 as (Ehp & Etag & Eodev & Egin & Eoin & Epres & Eps & Evars & Edus & Enxt & Euse & Ecur & Eobuf).
    erewrite bind_run by exact R1.
    destruct (make_buffer_spec [p] T G s1 p d slots Hi1 Hp1 ltac:(rewrite Eodev; exact Hod) Hd1 ltac:(rewrite Etag; exact Htd)) as
        (s2 & R2 & Hi2 & Hanb & Htnb & Hgnb & Hodnb & Hfr2).
    erewrite bind_run by exact R2.
    destruct Hfr2 as (F1 & F2 & F3 & F4 & F5 & F6 & F7 & F8 & F9 & F10 & F11).
    assert (Hnbp : (nxt s1) <> p) by (intros E; pose proof (inv_lt vkind _ _ _ _ _ _ _ Hi1 Hp1) as Hlt1; rewrite <- E in Hlt1; lia).
    destruct (F11 p (not_eq_sym Hnbp)) as (P1 & P2 & P3 & P4 & P5).
    destruct (resize_finish T G s2 p (nxt s1) slots (unit_bytes * Z.of_nat slots)%Z) as (s3 & R3 & Hi3 & Ho3 & Hs3 & Hsame3); try assumption.
    + rewrite P1. exact Hp1.
    + rewrite P2, Etag. exact Ht.
    + rewrite Hodnb, P5, Eodev. now symmetry.
    + rewrite F6. apply (i_fresh _ _ _ _ _ _ _ Hi1 (nxt s1) (le_n _)).
    + intros q Hq Eq. rewrite F6 in Eq.
      destruct (Nat.eq_dec q (nxt s1)) as [->|Hqn].
      * destruct (i_fresh _ _ _ _ _ _ _ Hi1 (nxt s1) (le_n _)) as (_ & _ & _ & _ & _ & _ & F & _). congruence.
      * destruct (F11 q Hqn) as (Q1 & _). rewrite Q1 in Hq.
        destruct (Nat.eq_dec q p) as [->|Hqp].
        -- rewrite Eoin in Eq. destruct (Hold (nxt s1) Eq) as (A1 & _).
           destruct (i_fresh _ _ _ _ _ _ _ Hi (nxt s) (le_n _)) as (F & _). rewrite Enxt in A1. congruence.
        -- destruct (i_inner _ _ _ _ _ _ _ Hi1 q (nxt s1) Hq ltac:(intros [E|[]]; congruence) Eq) as (_ & A1 & _).
           destruct (i_fresh _ _ _ _ _ _ _ Hi1 (nxt s1) (le_n _)) as (F & _). congruence.
    + intros b Eb. rewrite F6, Eoin in Eb.
      assert (Hbn : b <> (nxt s1)).
      { intros ->. destruct (Hold (nxt s1) Eb) as (A1 & _).
        destruct (i_fresh _ _ _ _ _ _ _ Hi (nxt s) (le_n _)) as (F & _). rewrite Enxt in A1. congruence. }
      destruct (F11 b Hbn) as (B1 & _). rewrite B1. now apply Hdead1.
    + rewrite F8, Euse. exact Hlive.
    + intros m Hm. rewrite F9, Epres, Eres in *. rewrite <- Eres. rewrite Eres. exact (Hpres m Hm).
    + pose proof Hsame3 as (S1 & S2 & S3 & S4 & S5 & S6 & S7 & S8 & S9 & S10 & S11 & S12 & S13 & S14 & S15 & S16 & S17 & S18).
      simpl_st.
      exists s3. split; [exact R3|]. split; [exact Hi3|].
      split; [rewrite S3, P1; exact Hp1|]. split; [rewrite S2, P2, Etag; exact Ht|].
      split; [rewrite Ho3; discriminate|]. split; [exact Hs3|].
      unfold frame_pool. simpl_st.
      split; [|split; [congruence|split; [congruence|split; [congruence|split; [congruence|split; [congruence|
               rewrite S1; simpl_st; rewrite F4, Enxt; lia]]]]]].
      destruct F1 as (G1' & G2' & G3' & G4' & G5' & G6'). unfold grow. rewrite S1, S2, S3, S6, S15, S9. simpl_st.
      rewrite F4, Enxt. split; [lia|].
      split; [intros e He; rewrite G2' by (rewrite Enxt; exact He); now rewrite Etag|].
      split; [intros e He Hae; apply Hmono1; apply G3'; [rewrite Enxt; exact He|exact Hae]|].
      split; [intros e He; rewrite G4' by (rewrite Enxt; exact He); now rewrite Eodev|].
      split; [intros e He; rewrite G5' by (rewrite Enxt; exact He); now rewrite Egin|].
      intros e He; rewrite G6' by (rewrite Enxt; exact He); now rewrite Ecur.
  - (* live reservations: new buffer first, then delete the old one *)
    assert (Hiw : inv [] [p] [] T G s) by (apply inv_incl_W with (W := []); [exact Hi|intros x []]).
    destruct (make_buffer_spec [p] T G s p d slots Hiw Hp Hod Had Htd) as
        (s1 & R1 & Hi1 & Hanb & Htnb & Hgnb & Hodnb & Hfr1).
    erewrite bind_run by exact R1.
    destruct Hfr1 as (F1 & F2 & F3 & F4 & F5 & F6 & F7 & F8 & F9 & F10 & F11).
    assert (Hnbp : nxt s <> p) by (intros E; pose proof (inv_lt vkind _ _ _ _ _ _ _ Hi Hp) as Hlt1; rewrite <- E in Hlt1; lia).
    destruct (F11 p (not_eq_sym Hnbp)) as (P1 & P2 & P3 & P4 & P5).
    destruct (oinner s p) as [ob|] eqn:Eo.
    2:{ exfalso. apply (i_pool_buf _ _ _ _ _ _ _ Hi p Hp Ht ltac:(intros [])); [|exact Eo]. left. rewrite Eres. discriminate. }
    destruct (Hold ob eq_refl) as (A1 & A2 & A3 & A4 & A5).
    assert (Hobn : ob <> nxt s).
    { intros E. destruct (i_fresh _ _ _ _ _ _ _ Hi (nxt s) (le_n _)) as (F & _). rewrite E in A1. congruence. }
    destruct (F11 ob Hobn) as (B1 & B2 & B3 & B4 & B5).
    destruct (delete_inner_spec (fuel_of s1) [] [ob; nxt s; p] [] T G s1 ob) as (s2 & R2 & Hi2 & Hal2 & Hrest).
    + apply inv_incl_W with (W := [nxt s; p]); [exact Hi1|]. intros x Hx. now right.
    + rewrite B1. exact A1.
    + rewrite B2. exact A2.
    + rewrite B3. exact A3.
    + intros [].
    + now left.
    + intros q Hq Hqw. rewrite F6.
      assert (Hqn : q <> nxt s) by (intros ->; apply Hqw; right; now left).
      destruct (F11 q Hqn) as (Q1 & _). rewrite Q1 in Hq. apply A5; [exact Hq|]. intros ->. apply Hqw. right. right. now left.
    + unfold fuel_of. lia.
    + destruct Hrest as (Ehp & Etag & Eodev & Egin & Eoin & Epres & Eps & Evars & Edus & Enxt & Euse & Ecur & Eobuf).
      assert (R2' : (match Some ob with Some ob0 => run_task fixed (TDelete ob0) | None => fail end) s1 = Some (tt, s2)) by exact R2.
      erewrite bind_run by exact R2'.
      assert (Hi2' : inv [] [nxt s; p] [] T G s2).
      { eapply inv_unW_dead; [exact Hi2|]. rewrite Hal2, Nat.eqb_refl. reflexivity. }
      assert (Hp2 : alive s2 p = true).
      { rewrite Hal2. destruct (Nat.eqb_spec p ob) as [E|_]; [congruence|]. rewrite P1. exact Hp. }
      destruct (resize_finish T G s2 p (nxt s) slots (unit_bytes * Z.of_nat slots)%Z) as (s3 & R3 & Hi3 & Ho3 & Hs3 & Hsame3); try assumption.
      * rewrite Etag, P2. exact Ht.
      * rewrite Hal2. destruct (Nat.eqb_spec (nxt s) ob) as [E|_]; [congruence|exact Hanb].
      * rewrite Etag. exact Htnb.
      * rewrite Egin. exact Hgnb.
      * rewrite Eodev, Hodnb, P5. now symmetry.
      * rewrite Eoin, F6. apply (i_fresh _ _ _ _ _ _ _ Hi (nxt s) (le_n _)).
      * intros q Hq Eq. rewrite Eoin, F6 in Eq.
        assert (Hq1 : alive s1 q = true) by (rewrite Hal2 in Hq; destruct (Nat.eqb q ob); [discriminate|exact Hq]).
        destruct (Nat.eq_dec q (nxt s)) as [->|Hqn].
        -- destruct (i_fresh _ _ _ _ _ _ _ Hi (nxt s) (le_n _)) as (_ & _ & _ & _ & _ & _ & F & _). congruence.
        -- destruct (F11 q Hqn) as (Q1 & _). rewrite Q1 in Hq1.
           destruct (Nat.eq_dec q p) as [->|Hqp]; [congruence|].
           destruct (i_inner _ _ _ _ _ _ _ Hi q (nxt s) Hq1 ltac:(intros []) Eq) as (_ & C1 & _).
           destruct (i_fresh _ _ _ _ _ _ _ Hi (nxt s) (le_n _)) as (F & _). congruence.
      * intros b Eb. rewrite Eoin, F6, Eo in Eb. injection Eb as <-. rewrite Hal2, Nat.eqb_refl. reflexivity.
      * rewrite Euse, F8. exact Hlive.
      * intros m Hm. rewrite Epres, F9, Eres. exact (Hpres m Hm).
      * pose proof Hsame3 as (S1 & S2 & S3 & S4 & S5 & S6 & S7 & S8 & S9 & S10 & S11 & S12 & S13 & S14 & S15 & S16 & S17 & S18).
        simpl_st.
        exists s3. split; [exact R3|]. split; [exact Hi3|].
        split; [rewrite S3; exact Hp2|]. split; [rewrite S2, Etag, P2; exact Ht|].
        split; [rewrite Ho3; discriminate|]. split; [exact Hs3|].
        unfold frame_pool. simpl_st.
        split; [|split; [congruence|split; [congruence|split; [congruence|split; [congruence|split; [congruence|
                 rewrite S1; simpl_st; rewrite Enxt, F4; lia]]]]]].
        destruct F1 as (G1' & G2' & G3' & G4' & G5' & G6'). unfold grow. rewrite S1, S2, S3, S6, S15, S9. simpl_st.
        rewrite Enxt, F4. split; [lia|].
        split; [intros e He; rewrite Etag; now apply G2'|].
        split; [intros e He Hae; apply G3'; [exact He|]; rewrite Hal2 in Hae; destruct (Nat.eqb e ob); [discriminate|exact Hae]|].
        split; [intros e He; rewrite Eodev; now apply G4'|].
        split; [intros e He; rewrite Egin; now apply G5'|].
        intros e He; rewrite Ecur; now apply G6'.
Qed.

End P.
