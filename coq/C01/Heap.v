(* C01 — the ring heap: every ring head points at a well linked cycle; how ring_t::addRef and
   ring_t::removeRef of Model.v act on it. *)
From Coq Require Import List Arith Bool ZArith Lia Permutation.
From OV.C01 Require Import Model Ring.
Import ListNotations.

Definition GH := nat -> slot -> list nat.

Definition free_of (G : GH) (e : nat) : Prop := forall o sl, ~ In e (G o sl).

Record heap_ok (s : st) (G : GH) : Prop := {
  hk_head : forall o sl, ohead s o sl = hd_error (G o sl);
  hk_cyc  : forall o sl, cyc (lft s) (rgt s) (G o sl);
  hk_nd   : forall o sl, NoDup (G o sl);
  hk_alive: forall o sl e, In e (G o sl) -> alive s e = true;
  hk_disj : forall o sl o' sl' e, In e (G o sl) -> In e (G o' sl') -> o = o' /\ sl = sl';
  hk_self : forall e, free_of G e -> lft s e = e /\ rgt s e = e }.

(* everything except the ring pointers is the same *)
Definition same_obj (s s' : st) : Prop :=
  nxt s' = nxt s /\ tagof s' = tagof s /\ alive s' = alive s /\ hptr s' = hptr s /\
  ouse s' = ouse s /\ odev s' = odev s /\ obuf s' = obuf s /\ oinner s' = oinner s /\
  ocur s' = ocur s /\ osize s' = osize s /\ obytes s' = obytes s /\ pres s' = pres s /\
  pslots s' = pslots s /\ moff s' = moff s /\ ginner s' = ginner s /\ vars s' = vars s /\
  dlog s' = dlog s /\ dus s' = dus s.

Lemma same_obj_refl s : same_obj s s.
Proof. repeat split. Qed.
Lemma same_obj_trans a b c : same_obj a b -> same_obj b c -> same_obj a c.
Proof. unfold same_obj. intuition congruence. Qed.

Lemma slot_eqb_spec a b : reflect (a = b) (slot_eqb a b).
Proof. destruct a, b; cbn; constructor; congruence. Qed.

Lemma upd2_same {A} (f : nat -> slot -> A) k sl v : upd2 f k sl v k sl = v.
Proof. unfold upd2. rewrite Nat.eqb_refl. destruct (slot_eqb_spec sl sl); [reflexivity|congruence]. Qed.
Lemma upd2_other {A} (f : nat -> slot -> A) k sl v x s : (x <> k \/ s <> sl) -> upd2 f k sl v x s = f x s.
Proof.
  unfold upd2. intros H. destruct (Nat.eqb_spec x k); cbn; [|reflexivity].
  destruct (slot_eqb_spec s sl); [|reflexivity]. destruct H; congruence.
Qed.
Lemma upd2_cases {A} (f : nat -> slot -> A) k sl v x s :
  (x = k /\ s = sl /\ upd2 f k sl v x s = v) \/ ((x <> k \/ s <> sl) /\ upd2 f k sl v x s = f x s).
Proof.
  destruct (Nat.eq_dec x k) as [->|Hn].
  - destruct (slot_eqb_spec s sl) as [->|Hs].
    + left. rewrite upd2_same. tauto.
    + right. split; [tauto|]. apply upd2_other. tauto.
  - right. split; [tauto|]. apply upd2_other. tauto.
Qed.


Ltac simpl_st :=
  cbn [nxt tagof alive lft rgt hptr ohead ouse odev obuf oinner ocur osize obytes pres pslots moff
       ginner vars dlog dus
       set_nxt set_tagof set_alive set_lft set_rgt set_hptr set_ohead set_ouse set_odev set_obuf
       set_oinner set_ocur set_osize set_obytes set_pres set_pslots set_moff set_ginner set_vars
       set_dlog set_dus] in *.

(* ---------------------------------------------------------------- ringEntry_t::removeRef *)
Definition unlinkL (s : st) (e : nat) : nat -> nat :=
  if Nat.eqb (lft s e) e then upd (lft s) e e
  else upd (upd (lft s) (rgt s e) (lft s e)) e e.
Definition unlinkR (s : st) (e : nat) : nat -> nat :=
  if Nat.eqb (lft s e) e then upd (rgt s) e e
  else upd (upd (rgt s) (lft s e) (rgt s e)) e e.

Lemma entry_unlink_run s e :
  alive s e = true ->
  (lft s e <> e -> alive s (lft s e) = true /\ alive s (rgt s e) = true) ->
  entry_unlink e s = Some (tt, set_rgt (set_lft s (unlinkL s e)) (unlinkR s e)).
Proof.
  intros Ha Hn. unfold entry_unlink, unlinkL, unlinkR, rd, wr_lft, wr_rgt, bind, need, get, modify, ret.
  rewrite Ha. destruct (Nat.eqb_spec (lft s e) e) as [E|E].
  - cbn. rewrite Ha. cbn. rewrite Ha. reflexivity.
  - destruct (Hn E) as [Hl Hr]. rewrite Ha. rewrite Hl. cbn. rewrite Hr. cbn. rewrite Ha. cbn. rewrite Ha. reflexivity.
Qed.

Lemma unlinkL_self s e : unlinkL s e e = e.
Proof. unfold unlinkL. destruct (Nat.eqb (lft s e) e); apply upd_same. Qed.
Lemma unlinkR_self s e : unlinkR s e e = e.
Proof. unfold unlinkR. destruct (Nat.eqb (lft s e) e); apply upd_same. Qed.

Lemma unlink_out s G e :
  heap_ok s G -> free_of G e -> forall x, unlinkL s e x = lft s x /\ unlinkR s e x = rgt s x.
Proof.
  intros Hk Hf x. destruct (hk_self _ _ Hk e Hf) as [HL HR].
  unfold unlinkL, unlinkR. rewrite HL, Nat.eqb_refl. unfold upd.
  destruct (Nat.eqb_spec x e) as [->|_]; [rewrite HL, HR|]; tauto.
Qed.

Lemma unlink_in s G o sl l1 e l2 :
  heap_ok s G -> G o sl = l1 ++ e :: l2 ->
  cyc (unlinkL s e) (unlinkR s e) (l1 ++ l2) /\
  (forall x, ~ In x (G o sl) -> unlinkL s e x = lft s x /\ unlinkR s e x = rgt s x) /\
  (lft s e <> e -> In (lft s e) (G o sl) /\ In (rgt s e) (G o sl)).
Proof.
  intros Hk E.
  pose proof (hk_cyc _ _ Hk o sl) as Hc. pose proof (hk_nd _ _ Hk o sl) as Hnd. rewrite E in Hc, Hnd.
  destruct (cyc_neighbours _ _ _ _ _ Hc) as [HLin HRin].
  assert (Hein : In e (l1 ++ e :: l2)) by (apply in_or_app; right; now left).
  split; [|split].
  - destruct (l1 ++ l2) as [|y t] eqn:E2; [exact I|]. rewrite <- E2.
    destruct (unlink_any _ _ _ _ _ Hnd Hc ltac:(rewrite E2; discriminate)) as [Hne Hc'].
    unfold unlinkL, unlinkR. destruct (Nat.eqb_spec (lft s e) e); [contradiction|]. exact Hc'.
  - intros x Hx. rewrite E in Hx. unfold unlinkL, unlinkR.
    assert (x <> e) by (intros ->; contradiction).
    destruct (Nat.eqb_spec (lft s e) e).
    + rewrite !upd_other by assumption. tauto.
    + rewrite !upd_other; try assumption; try tauto; intros ->; contradiction.
  - intros _. rewrite E. tauto.
Qed.

(* ---------------------------------------------------------------- ring_t::removeRef *)
Definition ring_remove (e : nat) (l : list nat) : list nat :=
  match l with
  | [] => []
  | h :: t => if Nat.eqb h e then match t with [] => [] | _ => last t h :: removelast t end
              else h :: remove_nat e t
  end.

Lemma ring_remove_In e l x : NoDup l -> (In x (ring_remove e l) <-> In x l /\ x <> e).
Proof.
  destruct l as [|h t]; cbn [ring_remove]; [cbn; tauto|]. intros Hnd.
  apply NoDup_cons_iff in Hnd as [Hh Hnd].
  destruct (Nat.eqb_spec h e) as [->|Hne].
  - destruct t as [|b t']; [cbn; intuition congruence|].
    assert (Hp : forall y, In y (last (b :: t') e :: removelast (b :: t')) <-> In y (b :: t')).
    { intros y. rewrite (app_removelast_last e (l := b :: t')) at 3 by discriminate.
      rewrite in_app_iff. cbn. tauto. }
    rewrite Hp. split; [intros H; split; [now right|intros ->; contradiction]|].
    intros [[E|H] Hx]; [congruence|exact H].
  - split.
    + intros [->|H]; [split; [now left|assumption]|].
      split; [right; eapply remove_nat_In; exact H|].
      intros ->. exact (proj2 (remove_nat_NoDup e t Hnd) H).
    + intros [[->|H] Hx]; [now left|]. right. now apply remove_nat_In_ne.
Qed.

Lemma ring_remove_NoDup e l : NoDup l -> NoDup (ring_remove e l).
Proof.
  destruct l as [|h t]; cbn [ring_remove]; [constructor|]. intros Hnd.
  apply NoDup_cons_iff in Hnd as [Hh Hnd].
  destruct (Nat.eqb_spec h e) as [->|Hne].
  - destruct t as [|b t']; [constructor|].
    eapply Permutation_NoDup; [|exact Hnd].
    rewrite (app_removelast_last e (l := b :: t')) at 1 by discriminate.
    apply Permutation_sym. apply Permutation_cons_append.
  - constructor; [|apply remove_nat_NoDup; exact Hnd].
    intros H. apply Hh. eapply remove_nat_In. exact H.
Qed.

Lemma ring_removeRef_in s G o sl e :
  heap_ok s G -> alive s o = true -> In e (G o sl) ->
  exists s', ring_removeRef o sl e s = Some (tt, s') /\ same_obj s s' /\
             heap_ok s' (upd2 G o sl (ring_remove e (G o sl))).
Proof.
  intros Hk Ho Hin.
  destruct (G o sl) as [|h t] eqn:EG; [destruct Hin|].
  pose proof (hk_head _ _ Hk o sl) as Hhd. rewrite EG in Hhd. cbn in Hhd.
  pose proof (hk_cyc _ _ Hk o sl) as Hc. rewrite EG in Hc.
  pose proof (hk_nd _ _ Hk o sl) as Hnd. rewrite EG in Hnd.
  assert (Hah : alive s h = true) by (apply (hk_alive _ _ Hk o sl); rewrite EG; now left).
  assert (Hae : alive s e = true) by (apply (hk_alive _ _ Hk o sl); rewrite EG; exact Hin).
  destruct (in_split _ _ Hin) as (l1 & l2 & Esplit).
  assert (EG' : G o sl = l1 ++ e :: l2) by congruence.
  destruct (unlink_in s G o sl l1 e l2 Hk EG') as (Hcyc' & Hframe & Hnb).
  assert (Hrun : entry_unlink e s = Some (tt, set_rgt (set_lft s (unlinkL s e)) (unlinkR s e))).
  { apply entry_unlink_run; [exact Hae|]. intros Hne. destruct (Hnb Hne) as [H1 H2].
    split; eapply (hk_alive _ _ Hk o sl); eassumption. }
  set (tail := lft s h).
  assert (Htail : tail = last (h :: t) h) by (eapply cyc_head_left; exact Hc).
  set (hd' := if Nat.eqb h e then (if Nat.eqb tail e then None else Some tail) else Some h).
  exists (set_ohead (set_rgt (set_lft s (unlinkL s e)) (unlinkR s e)) (upd2 (ohead s) o sl hd')).
  split; [|split].
  - unfold ring_removeRef, rd_head, ring_removeRef_core, wr_head, rd, bind, need, get, modify, ret.
    rewrite Ho, Hhd, Hah. fold tail. rewrite Hrun. cbn. unfold hd'.
    destruct (Nat.eqb h e); cbn; rewrite Ho; reflexivity.
  - repeat split.
  - (* heap_ok *)
    assert (Hmem : forall x, In x (ring_remove e (h :: t)) <-> In x (h :: t) /\ x <> e)
      by (intros x; apply ring_remove_In; exact Hnd).
    assert (Hother : forall o' sl' x, (o' <> o \/ sl' <> sl) -> In x (G o' sl') -> ~ In x (G o sl)).
    { intros o' sl' x Hd Hx Hx2. destruct (hk_disj _ _ Hk _ _ _ _ _ Hx Hx2). tauto. }
    constructor; simpl_st.
    + intros o' sl'. destruct (upd2_cases G o sl (ring_remove e (h :: t)) o' sl') as [(-> & -> & ->)|(Hd & ->)].
      * rewrite upd2_same. unfold hd'. cbn [ring_remove].
        destruct (Nat.eqb_spec h e) as [->|Hne].
        -- destruct t as [|b t'].
           ++ cbn in Htail. rewrite Htail, Nat.eqb_refl. reflexivity.
           ++ rewrite last_cons_cons in Htail.
              destruct (Nat.eqb_spec tail e) as [E|_].
              ** exfalso. apply NoDup_cons_iff in Hnd as [Hn _]. apply Hn. rewrite <- E, Htail.
                 rewrite (last_nonempty_default (b :: t') e b) by discriminate. apply last_cons_In.
              ** cbn. rewrite Htail. reflexivity.
        -- reflexivity.
      * rewrite upd2_other by exact Hd. apply (hk_head _ _ Hk).
    + intros o' sl'. destruct (upd2_cases G o sl (ring_remove e (h :: t)) o' sl') as [(-> & -> & ->)|(Hd & ->)].
      * cbn [ring_remove]. destruct (Nat.eqb_spec h e) as [->|Hne].
        -- (* e was the head: l1 = [] *)
           assert (l1 = [] /\ l2 = t) as [-> ->].
           { destruct l1 as [|a l1]; [cbn in Esplit; split; congruence|].
             exfalso. cbn in Esplit. injection Esplit as <- Et.
             apply NoDup_cons_iff in Hnd as [Hn _]. apply Hn. rewrite Et. apply in_or_app. right. now left. }
           cbn [app] in Hcyc'. destruct t as [|b t']; [exact I|].
           rewrite (app_removelast_last e (l := b :: t')) in Hcyc' by discriminate.
           apply cyc_rot in Hcyc'. exact Hcyc'.
        -- destruct l1 as [|a l1]; [cbn in Esplit; congruence|].
           cbn in Esplit. injection Esplit as <- Et. rewrite Et.
           rewrite remove_nat_split; [exact Hcyc'|].
           intros Hx. apply NoDup_cons_iff in Hnd as [_ Hnd]. rewrite Et in Hnd.
           apply NoDup_remove_2 in Hnd. apply Hnd. apply in_or_app. now left.
      * eapply cyc_ext; [|apply (hk_cyc _ _ Hk)].
        intros x Hx. apply Hframe. rewrite EG. rewrite <- EG. eapply Hother; eassumption.
    + intros o' sl'. destruct (upd2_cases G o sl (ring_remove e (h :: t)) o' sl') as [(-> & -> & ->)|(Hd & ->)].
      * apply ring_remove_NoDup. exact Hnd.
      * apply (hk_nd _ _ Hk).
    + intros o' sl' x. destruct (upd2_cases G o sl (ring_remove e (h :: t)) o' sl') as [(-> & -> & ->)|(Hd & ->)].
      * intros Hx. apply Hmem in Hx. apply (hk_alive _ _ Hk o sl). rewrite EG. tauto.
      * apply (hk_alive _ _ Hk).
    + intros o1 sl1 o2 sl2 x.
      destruct (upd2_cases G o sl (ring_remove e (h :: t)) o1 sl1) as [(-> & -> & ->)|(Hd1 & ->)];
      destruct (upd2_cases G o sl (ring_remove e (h :: t)) o2 sl2) as [(-> & -> & ->)|(Hd2 & ->)];
      intros H1 H2; try tauto.
      * apply Hmem in H1. apply (hk_disj _ _ Hk o sl o2 sl2 x); [rewrite EG; tauto|exact H2].
      * apply Hmem in H2. apply (hk_disj _ _ Hk o1 sl1 o sl x); [exact H1|rewrite EG; tauto].
      * apply (hk_disj _ _ Hk _ _ _ _ x); assumption.
    + intros x Hf.
      destruct (Nat.eq_dec x e) as [->|Hxe]; [split; [apply unlinkL_self|apply unlinkR_self]|].
      assert (Hxl : ~ In x (G o sl)).
      { rewrite EG. intros Hx. apply (Hf o sl). rewrite upd2_same. apply Hmem. tauto. }
      destruct (Hframe x Hxl) as [-> ->]. apply (hk_self _ _ Hk).
      intros o' sl' Hx. destruct (Nat.eq_dec o' o) as [->|Hno].
      * destruct (slot_eqb_spec sl' sl) as [->|Hns]; [contradiction|].
        apply (Hf o sl'). rewrite upd2_other by tauto. exact Hx.
      * apply (Hf o' sl'). rewrite upd2_other by tauto. exact Hx.
Qed.

Lemma ring_removeRef_out s G o sl e :
  heap_ok s G -> alive s o = true -> alive s e = true -> free_of G e ->
  exists s', ring_removeRef o sl e s = Some (tt, s') /\ same_obj s s' /\ heap_ok s' G.
Proof.
  intros Hk Ho Hae Hf.
  pose proof (hk_head _ _ Hk o sl) as Hhd.
  destruct (hk_self _ _ Hk e Hf) as [HLe HRe].
  assert (Hrun : entry_unlink e s = Some (tt, set_rgt (set_lft s (unlinkL s e)) (unlinkR s e))).
  { apply entry_unlink_run; [exact Hae|]. congruence. }
  assert (Hpt : forall x, unlinkL s e x = lft s x /\ unlinkR s e x = rgt s x) by (apply (unlink_out s G); assumption).
  destruct (G o sl) as [|h t] eqn:EG; cbn in Hhd.
  - exists (set_ohead s (upd2 (ohead s) o sl None)). split; [|split].
    + unfold ring_removeRef, rd_head, ring_removeRef_core, wr_head, rd, bind, need, get, modify, ret.
      rewrite Ho, Hhd. cbn. rewrite Ho. reflexivity.
    + repeat split.
    + constructor; simpl_st; try apply Hk.
      intros o' sl'. destruct (upd2_cases (ohead s) o sl None o' sl') as [(-> & -> & ->)|(Hd & ->)].
      * now rewrite EG.
      * apply (hk_head _ _ Hk).
  - assert (Hah : alive s h = true) by (apply (hk_alive _ _ Hk o sl); rewrite EG; now left).
    assert (Hhe : h <> e) by (intros ->; apply (Hf o sl); rewrite EG; now left).
    exists (set_ohead (set_rgt (set_lft s (unlinkL s e)) (unlinkR s e)) (upd2 (ohead s) o sl (Some h))).
    split; [|split].
    + unfold ring_removeRef, rd_head, ring_removeRef_core, wr_head, rd, bind, need, get, modify, ret.
      rewrite Ho, Hhd, Hah. rewrite Hrun. cbn.
      destruct (Nat.eqb_spec h e); [contradiction|]. cbn. rewrite Ho. reflexivity.
    + repeat split.
    + constructor; simpl_st.
      * intros o' sl'. destruct (upd2_cases (ohead s) o sl (Some h) o' sl') as [(-> & -> & ->)|(Hd & ->)].
        -- now rewrite EG.
        -- apply (hk_head _ _ Hk).
      * intros o' sl'. eapply cyc_ext; [|apply (hk_cyc _ _ Hk)]. intros x _. apply Hpt.
      * apply Hk.
      * apply Hk.
      * apply Hk.
      * intros x Hx. destruct (Hpt x) as [-> ->]. apply (hk_self _ _ Hk). exact Hx.
Qed.

(* ---------------------------------------------------------------- ring_t::addRef *)
Lemma ring_addRef_out s G o sl e :
  heap_ok s G -> alive s o = true -> alive s e = true -> free_of G e ->
  exists s', ring_addRef o sl e s = Some (tt, s') /\ same_obj s s' /\
             heap_ok s' (upd2 G o sl (G o sl ++ [e])).
Proof.
  intros Hk Ho Hae Hf.
  pose proof (hk_head _ _ Hk o sl) as Hhd.
  destruct (hk_self _ _ Hk e Hf) as [HLe HRe].
  assert (Hrun : entry_unlink e s = Some (tt, set_rgt (set_lft s (unlinkL s e)) (unlinkR s e))).
  { apply entry_unlink_run; [exact Hae|]. congruence. }
  assert (Hpt : forall x, unlinkL s e x = lft s x /\ unlinkR s e x = rgt s x) by (apply (unlink_out s G); assumption).
  assert (Hother : forall o' sl' x, In x (G o' sl') -> x <> e).
  { intros o' sl' x Hx ->. exact (Hf _ _ Hx). }
  destruct (G o sl) as [|h t] eqn:EG; cbn in Hhd.
  - exists (set_ohead (set_rgt (set_lft s (unlinkL s e)) (unlinkR s e)) (upd2 (ohead s) o sl (Some e))).
    split; [|split].
    + unfold ring_addRef, rd_head, wr_head, rd, bind, need, get, modify, ret.
      rewrite Ho, Hhd. rewrite Hrun. cbn. rewrite Ho. reflexivity.
    + repeat split.
    + constructor; simpl_st.
      * intros o' sl'. destruct (upd2_cases G o sl ([] ++ [e]) o' sl') as [(-> & -> & ->)|(Hd & ->)].
        -- now rewrite upd2_same.
        -- rewrite upd2_other by exact Hd. apply (hk_head _ _ Hk).
      * intros o' sl'. destruct (upd2_cases G o sl ([] ++ [e]) o' sl') as [(-> & -> & ->)|(Hd & ->)].
        -- cbn [app]. apply cyc_single. split; [apply unlinkR_self|apply unlinkL_self].
        -- eapply cyc_ext; [|apply (hk_cyc _ _ Hk)]. intros x _. apply Hpt.
      * intros o' sl'. destruct (upd2_cases G o sl ([] ++ [e]) o' sl') as [(-> & -> & ->)|(Hd & ->)].
        -- cbn. repeat constructor. tauto.
        -- apply Hk.
      * intros o' sl' x. destruct (upd2_cases G o sl ([] ++ [e]) o' sl') as [(-> & -> & ->)|(Hd & ->)].
        -- cbn. intros [<-|[]]. exact Hae.
        -- apply Hk.
      * intros o1 sl1 o2 sl2 x.
        destruct (upd2_cases G o sl ([] ++ [e]) o1 sl1) as [(-> & -> & ->)|(Hd1 & ->)];
        destruct (upd2_cases G o sl ([] ++ [e]) o2 sl2) as [(-> & -> & ->)|(Hd2 & ->)];
        cbn; intros H1 H2; try tauto.
        -- destruct H1 as [<-|[]]. exfalso. exact (Hf _ _ H2).
        -- destruct H2 as [<-|[]]. exfalso. exact (Hf _ _ H1).
        -- apply (hk_disj _ _ Hk _ _ _ _ x); assumption.
      * intros x Hx. destruct (Hpt x) as [-> ->]. apply (hk_self _ _ Hk).
        intros o' sl' Hin. apply (Hx o' sl').
        destruct (upd2_cases G o sl ([] ++ [e]) o' sl') as [(-> & -> & ->)|(Hd & ->)]; [|exact Hin].
        rewrite EG in Hin. destruct Hin.
  - assert (Hah : alive s h = true) by (apply (hk_alive _ _ Hk o sl); rewrite EG; now left).
    assert (Hhe : h <> e) by (intros ->; apply (Hf o sl); rewrite EG; now left).
    pose proof (hk_cyc _ _ Hk o sl) as Hc. rewrite EG in Hc.
    pose proof (hk_nd _ _ Hk o sl) as Hnd. rewrite EG in Hnd.
    set (z := lft s h).
    assert (Hz : z = last (h :: t) h) by (eapply cyc_head_left; exact Hc).
    assert (Hzin : In z (G o sl)) by (rewrite EG, Hz; apply last_cons_In).
    assert (Haz : alive s z = true) by (eapply (hk_alive _ _ Hk); exact Hzin).
    assert (Hze : z <> e) by (eapply Hother; exact Hzin).
    set (L' := upd (upd (lft s) e z) h e).
    set (R' := upd (upd (rgt s) z e) e h).
    assert (HL1 : forall x, upd (upd (unlinkL s e) e z) h e x = L' x).
    { intros x. unfold L', upd. destruct (Nat.eqb x h); [reflexivity|]. destruct (Nat.eqb x e); [reflexivity|]. apply Hpt. }
    assert (HR1 : forall x, upd (upd (unlinkR s e) z e) e h x = R' x).
    { intros x. unfold R', upd. destruct (Nat.eqb x e); [reflexivity|]. destruct (Nat.eqb x z); [reflexivity|]. apply Hpt. }
    exists (set_rgt (set_lft s (upd (upd (unlinkL s e) e z) h e)) (upd (upd (unlinkR s e) z e) e h)).
    split; [|split].
    + unfold ring_addRef, rd_head, wr_lft, wr_rgt, rd, bind, need, get, modify, ret.
      rewrite Ho, Hhd. destruct (Nat.eqb_spec h e); [contradiction|].
      rewrite Hrun. cbn. rewrite Hah. cbn.
      destruct (Hpt h) as [-> _]. fold z. rewrite Hae. cbn. rewrite Haz. cbn. rewrite Hah. cbn. rewrite Hae. reflexivity.
    + repeat split.
    + assert (Hlink : cyc L' R' (h :: t ++ [e])).
      { apply link_tail; [exact Hnd| |exact Hc]. rewrite <- EG. apply Hf. }
      constructor; simpl_st.
      * intros o' sl'. destruct (upd2_cases G o sl ((h :: t) ++ [e]) o' sl') as [(-> & -> & ->)|(Hd & ->)].
        -- exact Hhd.
        -- apply (hk_head _ _ Hk).
      * intros o' sl'. destruct (upd2_cases G o sl ((h :: t) ++ [e]) o' sl') as [(-> & -> & ->)|(Hd & ->)].
        -- eapply cyc_ext; [|exact Hlink]. intros x _. split; [apply HL1|apply HR1].
        -- eapply cyc_ext; [|apply (hk_cyc _ _ Hk)]. intros x Hx.
           assert (Hxo : ~ In x (G o sl)).
           { intros Hx2. destruct (hk_disj _ _ Hk _ _ _ _ _ Hx Hx2). tauto. }
           assert (x <> e) by (eapply Hother; exact Hx).
           assert (x <> h) by (intros ->; apply Hxo; rewrite EG; now left).
           assert (x <> z) by (intros ->; contradiction).
           rewrite HL1, HR1. unfold L', R'. rewrite !upd_other by assumption. tauto.
      * intros o' sl'. destruct (upd2_cases G o sl ((h :: t) ++ [e]) o' sl') as [(-> & -> & ->)|(Hd & ->)].
        -- eapply Permutation_NoDup; [apply Permutation_cons_append|]. constructor; [|exact Hnd].
           rewrite <- EG. apply Hf.
        -- apply Hk.
      * intros o' sl' x. destruct (upd2_cases G o sl ((h :: t) ++ [e]) o' sl') as [(-> & -> & ->)|(Hd & ->)].
        -- intros Hx. apply in_app_or in Hx. destruct Hx as [Hx|[<-|[]]]; [|exact Hae].
           apply (hk_alive _ _ Hk o sl). now rewrite EG.
        -- apply Hk.
      * intros o1 sl1 o2 sl2 x.
        destruct (upd2_cases G o sl ((h :: t) ++ [e]) o1 sl1) as [(-> & -> & ->)|(Hd1 & ->)];
        destruct (upd2_cases G o sl ((h :: t) ++ [e]) o2 sl2) as [(-> & -> & ->)|(Hd2 & ->)];
        intros H1 H2; try tauto.
        -- apply in_app_or in H1. destruct H1 as [H1|[<-|[]]]; [|exfalso; exact (Hf _ _ H2)].
           apply (hk_disj _ _ Hk o sl o2 sl2 x); [now rewrite EG|exact H2].
        -- apply in_app_or in H2. destruct H2 as [H2|[<-|[]]]; [|exfalso; exact (Hf _ _ H1)].
           apply (hk_disj _ _ Hk o1 sl1 o sl x); [exact H1|now rewrite EG].
        -- apply (hk_disj _ _ Hk _ _ _ _ x); assumption.
      * intros x Hx.
        assert (Hxf : free_of G x).
        { intros o' sl' Hin. apply (Hx o' sl').
          destruct (upd2_cases G o sl ((h :: t) ++ [e]) o' sl') as [(-> & -> & ->)|(Hd & ->)]; [|exact Hin].
          apply in_or_app. left. now rewrite <- EG. }
        assert (x <> e). { intros ->. apply (Hx o sl). rewrite upd2_same. apply in_or_app. right. now left. }
        assert (x <> h). { intros ->. apply (Hxf o sl). rewrite EG. now left. }
        assert (x <> z). { intros ->. exact (Hxf _ _ Hzin). }
        rewrite HL1, HR1. unfold L', R'. rewrite !upd_other by assumption. apply (hk_self _ _ Hk). exact Hxf.
Qed.

(* reading a head / needsFree *)
Lemma rd_head_run s G o sl : heap_ok s G -> alive s o = true -> rd_head o sl s = Some (hd_error (G o sl), s).
Proof.
  intros Hk Ho. unfold rd_head, bind, need, get. rewrite Ho. now rewrite (hk_head _ _ Hk).
Qed.

Lemma needsFree_run s G o :
  heap_ok s G -> alive s o = true ->
  needsFree o s = Some (ouse s o && match G o SH with [] => true | _ => false end, s).
Proof.
  intros Hk Ho. unfold needsFree, rd, bind, need, get, ret. rewrite Ho.
  rewrite (rd_head_run s G o SH Hk Ho). destruct (G o SH); reflexivity.
Qed.
