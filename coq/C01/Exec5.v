(* C01 — device free: freeRing loops, ~modeDevice_t, device::free, wrapper::removeXRef. *)
From Coq Require Import List Arith Bool ZArith Lia Permutation.
From OV.C01 Require Import Model Ring Heap Inv InvPrim InvPrim2 ExecBase Exec Exec2 Exec3 Exec4.
Import ListNotations.

Section E.
Variable vkind : nat -> kind.
Notation inv := (inv vkind).
Notation exec := (exec fixed).

Definition objkill (s s' : st) : Prop :=
  forall x, alive s x = true -> alive s' x = false -> is_obj_tag (tagof s x) /\ tagof s x <> TO KDev.

(* delete of an object that sits in one of the device's rings and was just taken out of it *)
Lemma delete_child f X W T G s p k :
  inv X W [] T G s -> alive s p = true -> tagof s p = TO k -> k <> KDev -> k <> KMem ->
  In p X -> In p W ->
  (k = KBuf -> ginner s p = false) ->
  (k = KPool -> forall ib, oinner s p = Some ib -> alive s ib = true /\ tagof s ib = TO KBuf /\ ginner s ib = true) ->
  measure s + 5 <= f ->
  exists G' s', exec f (TDelete p) s = Some (tt, s') /\ inv X W [] T G' s' /\ alive s' p = false /\
                shrink s s' /\ objkill s s'.
Proof.
  intros Hi Hp Ht Hk1 Hk2 Hx Hw Hgb Hib Hf.
  destruct k; try congruence.
  - (* KBuf *)
    destruct (delete_buf vkind f X W [] T G s p) as (G' & s' & Hex & Hi' & Hd' & Hsh & Hk); try assumption.
    + intros [].
    + intros x [].
    + intros q Haq Hqw E. destruct (i_inner _ _ _ _ _ _ _ Hi q p Haq Hqw E) as (_ & _ & _ & Hg & _).
      rewrite (Hgb eq_refl) in Hg. discriminate.
    + lia.
    + exists G', s'. split; [exact Hex|]. split; [exact Hi'|]. split; [exact Hd'|]. split; [exact Hsh|].
      intros x H H0. split.
      * destruct (Hk x H H0) as [->|Hin]; [exists KBuf; exact Ht|].
        destruct (i_own _ _ _ _ _ _ _ Hi _ _ _ Hin) as [_ Hfit]. apply fits_SMem in Hfit as [Hc _]. exists KMem. exact Hc.
      * destruct (Hk x H H0) as [->|Hin]; [congruence|].
        destruct (i_own _ _ _ _ _ _ _ Hi _ _ _ Hin) as [_ Hfit]. apply fits_SMem in Hfit as [Hc _]. congruence.
  - (* KPool *)
    destruct (delete_pool vkind f X W [] T G s p) as (G' & s' & Hex & Hi' & Hd' & Hsh & Hk); try assumption.
    + intros [].
    + intros x [].
    + now apply Hib.
    + exists G', s'. split; [exact Hex|]. split; [exact Hi'|]. split; [exact Hd'|]. split; [exact Hsh|].
      intros x H H0. split.
      * destruct (Hk x H H0) as [->|[E|Hin]]; [exists KPool; exact Ht| |].
        -- destruct (Hib eq_refl x E) as (_ & Hc & _). exists KBuf. exact Hc.
        -- destruct (i_own _ _ _ _ _ _ _ Hi _ _ _ Hin) as [_ Hfit]. apply fits_SMem in Hfit as [Hc _]. exists KMem. exact Hc.
      * destruct (Hk x H H0) as [->|[E|Hin]]; [congruence| |].
        -- destruct (Hib eq_refl x E) as (_ & Hc & _). congruence.
        -- destruct (i_own _ _ _ _ _ _ _ Hi _ _ _ Hin) as [_ Hfit]. apply fits_SMem in Hfit as [Hc _]. congruence.
  - destruct (delete_leaf vkind f X W [] T G s p KKer) as (G' & s' & Hex & Hi' & Hd' & Hsh & Hk); try assumption;
      [unfold leaf_kind; tauto|intros []|lia|].
    exists G', s'. split; [exact Hex|]. split; [exact Hi'|]. split; [exact Hd'|]. split; [exact Hsh|].
      intros x H H0. split.
    + destruct (Nat.eq_dec x p) as [->|Hne]; [exists KKer; exact Ht|]. rewrite Hk in H0 by exact Hne. congruence.
    + destruct (Nat.eq_dec x p) as [->|Hne]; [congruence|]. rewrite Hk in H0 by exact Hne. congruence.
  - destruct (delete_leaf vkind f X W [] T G s p KStr) as (G' & s' & Hex & Hi' & Hd' & Hsh & Hk); try assumption;
      [unfold leaf_kind; tauto|intros []|lia|].
    exists G', s'. split; [exact Hex|]. split; [exact Hi'|]. split; [exact Hd'|]. split; [exact Hsh|].
      intros x H H0. split.
    + destruct (Nat.eq_dec x p) as [->|Hne]; [exists KStr; exact Ht|]. rewrite Hk in H0 by exact Hne. congruence.
    + destruct (Nat.eq_dec x p) as [->|Hne]; [congruence|]. rewrite Hk in H0 by exact Hne. congruence.
  - destruct (delete_leaf vkind f X W [] T G s p KTag) as (G' & s' & Hex & Hi' & Hd' & Hsh & Hk); try assumption;
      [unfold leaf_kind; tauto|intros []|lia|].
    exists G', s'. split; [exact Hex|]. split; [exact Hi'|]. split; [exact Hd'|]. split; [exact Hsh|].
      intros x H H0. split.
    + destruct (Nat.eq_dec x p) as [->|Hne]; [exists KTag; exact Ht|]. rewrite Hk in H0 by exact Hne. congruence.
    + destruct (Nat.eq_dec x p) as [->|Hne]; [congruence|]. rewrite Hk in H0 by exact Hne. congruence.
Qed.

Lemma fits_dev te tw sl : sl <> SH -> sl <> SMem -> fits te tw sl = true ->
  tw = TO KDev /\ exists k, te = TO k /\ k <> KDev /\ k <> KMem /\ dev_slot k = sl.
Proof.
  intros H1 H2. unfold fits. destruct sl; try congruence; destruct te as [|k|k]; try discriminate;
    destruct k; try discriminate; destruct tw as [|k'|k']; try discriminate; destruct k'; try discriminate;
    intros _; (split; [reflexivity|]); eexists; repeat split; try reflexivity; discriminate.
Qed.

Lemma objkill_trans a b c : shrink a b -> objkill a b -> objkill b c -> objkill a c.
Proof.
  intros Hsh H1 H2 x Ha Hc. destruct (alive b x) eqn:Eb.
  - destruct Hsh as (_ & Et & _). rewrite <- Et. now apply H2.
  - now apply H1.
Qed.

Lemma objkill_refl_like s s' : (forall x, alive s' x = alive s x) -> objkill s s'.
Proof. intros H x Ha Hd. rewrite H in Hd. congruence. Qed.

(* freeRing(ring&) *)
Lemma freering_spec : forall n f X T G s d sl,
  measure s <= n -> n + 6 <= f -> inv X [d] [] T G s -> alive s d = true -> tagof s d = TO KDev ->
  sl <> SH -> sl <> SMem ->
  exists G' s', exec f (TFreeRingRef d sl) s = Some (tt, s') /\ inv X [d] [] T G' s' /\ G' d sl = [] /\
                alive s' d = true /\ shrink s s' /\ objkill s s'.
Proof.
  induction n as [n IH] using lt_wf_ind. intros f X T G s d sl Hm Hf Hi Hd Htd Hs1 Hs2.
  destruct f as [|f]; [lia|]. cbn [exec].
  erewrite bind_run by (eapply rd_head_run; [apply Hi|exact Hd]).
  destruct (G d sl) as [|p t] eqn:EG; cbn [hd_error].
  - exists G, s. split; [reflexivity|]. split; [exact Hi|]. split; [exact EG|]. split; [exact Hd|].
    split; [apply shrink_refl|]. apply objkill_refl_like. reflexivity.
  - assert (Hin : In p (G d sl)) by (rewrite EG; now left).
    destruct (member_facts _ _ _ _ _ _ _ _ _ _ Hi Hin) as (Hap & _ & Hhome & Hnx & Hfit).
    destruct (fits_dev _ _ _ Hs1 Hs2 Hfit) as (_ & k & Htp & Hk1 & Hk2 & Hslot).
    assert (Hpd : p <> d) by (intros ->; congruence).
    destruct (detach_dev vkind X [d] [] T G s p d sl Hi Hap Hd Htd Hs1 Hpd (or_introl Hin))
      as (s1 & G1 & Hrun1 & Hsame1 & Hi1 & HG1).
    erewrite bind_run by exact Hrun1.
    pose proof Hsame1 as (S1 & S2 & S3 & S4 & S5 & S6 & S7 & S8 & S9 & S10 & S11 & S12 & S13 & S14 & S15 & S16 & S17 & S18).
    assert (Hms1 : measure s1 = measure s) by (apply measure_same; assumption).
    destruct (delete_child f (p :: X) [p; d] T G1 s1 p k) as (G2 & s2 & Hex2 & Hi2 & Hd2 & Hsh2 & Hk2').
    + apply inv_weaken_W. exact Hi1.
    + rewrite S3. exact Hap.
    + rewrite S2. exact Htp.
    + exact Hk1.
    + exact Hk2.
    + now left.
    + now left.
    + intros ->. rewrite S15. unfold home in Hhome. rewrite Htp in Hhome. destruct (ginner s p); [discriminate|reflexivity].
    + intros -> ib E. rewrite S8 in E.
      assert (Hpw : ~ In p [d]) by (intros [E'|[]]; congruence).
      destruct (i_inner _ _ _ _ _ _ _ Hi p ib Hap Hpw E) as (_ & A1 & A2 & A3 & _).
      rewrite S3, S2, S15. tauto.
    + lia.
    + erewrite bind_run by exact Hex2.
      assert (Htp2 : tagof s2 p = TO k) by (destruct Hsh2 as (_ & E & _); rewrite E, S2; exact Htp).
      assert (Hi2' : inv X [d] [] T G2 s2).
      { eapply inv_unX_dead; [eapply inv_unW_dead; [exact Hi2|exact Hd2]|exact Hd2|]. exists k. exact Htp2. }
      assert (Hsh02 : shrink s s2) by (eapply shrink_trans; [apply same_obj_shrink; exact Hsame1|exact Hsh2]).
      assert (Hk02 : objkill s s2).
      { intros x Ha Hdd. rewrite <- S2. apply Hk2'; [rewrite S3; exact Ha|exact Hdd]. }
      assert (Hd2' : alive s2 d = true).
      { destruct (alive s2 d) eqn:E; [reflexivity|]. destruct (Hk02 d Hd E) as [_ Hc]. congruence. }
      assert (Hlt : measure s2 < measure s).
      { eapply shrink_measure_lt with (x := p); [exact Hsh02|eapply inv_lt; eassumption|].
        unfold mcell. rewrite Hd2, Hap. lia. }
      destruct (IH (measure s2) ltac:(lia) f X T G2 s2 d sl) as (G' & s' & Hex' & Hi' & Hnil & Hd' & Hsh' & Hk');
        try assumption; try lia.
      { destruct Hsh02 as (_ & E & _). rewrite E. exact Htd. }
      exists G', s'. split; [exact Hex'|]. split; [exact Hi'|]. split; [exact Hnil|]. split; [exact Hd'|].
      split; [eapply shrink_trans; eassumption|]. eapply objkill_trans; eassumption.
Qed.

Lemma handle_rings X W D T G s h : inv X W D T G s -> is_h_tag (tagof s h) -> forall sl, G h sl = [].
Proof.
  intros Hi [k Hk] sl. apply nil_if_no_member. intros e Hin.
  destruct (i_own _ _ _ _ _ _ _ Hi _ _ _ Hin) as [_ Hf]. rewrite Hk in Hf.
  unfold fits in Hf. destruct sl, (tagof s e) as [|a|a]; try discriminate; destruct a; discriminate.
Qed.

Lemma dev_not_member X W D T G s d : inv X W D T G s -> tagof s d = TO KDev -> free_of G d.
Proof.
  intros Hi Ht o sl Hin. destruct (i_mem1 _ _ _ _ _ _ _ Hi _ _ _ Hin) as [Hh _].
  unfold home in Hh. rewrite Ht in Hh. discriminate.
Qed.

(* ~modeDevice_t (after freeResources) *)
Lemma delete_dev f X T G s d :
  inv X [d] [] T G s -> alive s d = true -> tagof s d = TO KDev ->
  (forall x, In x X -> is_h_tag (tagof s x)) ->
  (forall sl, sl <> SH -> G d sl = []) ->
  alive s (ocur s d) = true -> tagof s (ocur s d) = TH KStr -> ~ In (ocur s d) T -> ~ In (ocur s d) X ->
  (forall v, vars s v <> Some (ocur s d)) ->
  (forall st, hptr s (ocur s d) = Some st -> odev s st = Some d) ->
  measure s + 3 <= f ->
  exists G' s', exec f (TDelete d) s = Some (tt, s') /\ inv X [d] [] T G' s' /\ alive s' d = false /\
                shrink s s' /\
                (forall x, alive s x = true -> alive s' x = false -> x = d \/ x = ocur s d).
Proof.
  intros Hi Hd Ht HX Hrings Hac Htc HcT HcX Hcv Hcs Hf.
  set (c := ocur s d) in *.
  destruct f as [|f]; [lia|]. cbn [exec].
  destruct (delete_prologue vkind X [d] [] T G s d KDev Hi Hd Ht ltac:(intros [])) as (R1 & R2 & R3 & Hi1 & Hlog).
  set (s1 := set_dlog s (d :: dlog s)) in *.
  erewrite bind_run by exact R1. erewrite bind_run by apply get_run. rewrite R2. cbv beta iota.
  erewrite bind_run by exact R3.
  assert (Hm1 : measure s1 = measure s) by apply measure_dlog.
  destruct (null_spec vkind (length (G d SH)) f X [d] [d] T G s1 d eq_refl) as
      (s2 & Hex2 & Hi2 & Hsh2 & Hal2 & Hob2 & Hoi2 & Hdl2 & Hpr2); try assumption.
  { pose proof (ring_len_measure vkind _ _ _ _ _ _ d SH Hi1) as H. lia. }
  { now left. }
  set (G2 := upd2 G d SH []) in *.
  pose proof Hsh2 as (E1 & Etag & Eal & Ehp & Evars & Eodev & Egin & Ecur & Euse & Edus & Emoff & Eps & Eoin & Eob).
  assert (Hd2 : alive s2 d = true) by (rewrite Hal2; exact Hd).
  assert (Hc2 : alive s2 c = true) by (rewrite Hal2; exact Hac).
  assert (Hcur2 : ocur s2 d = c) by (rewrite Ecur; reflexivity).
  assert (Htc2 : tagof s2 c = TH KStr) by (rewrite Etag; exact Htc).
  assert (Hd_c : d <> c) by (intros E; rewrite <- E in Htc; congruence).
  (* the current stream is gone *)
  assert (Hhc : hptr s2 c = None).
  { destruct (hptr s2 c) as [st|] eqn:Ehc; [exfalso|reflexivity].
    assert (Hsc : hptr s c = Some st).
    { destruct (Ehp c) as [E|E]; [rewrite E in Ehc; exact Ehc|congruence]. }
    assert (Hin : In c (G2 st SH)).
    { apply (i_mem2 _ _ _ _ _ _ _ Hi2); try assumption. unfold home. now rewrite Htc2, Ehc. }
    destruct (member_facts _ _ _ _ _ _ _ _ _ _ Hi2 Hin) as (_ & Hast & _ & _ & Hfit).
    destruct (fits_SH _ _ Hfit) as (k & Hk1 & Hk2 & _). rewrite Htc2 in Hk1. injection Hk1 as <-.
    assert (Hin2 : In st (G2 d SStr)).
    { apply (i_mem2 _ _ _ _ _ _ _ Hi2); try assumption.
      - intros Hx. destruct (HX st Hx) as [k' Hk']. rewrite Etag in Hk2. unfold s1 in Hk2. simpl_st. congruence.
      - unfold home. rewrite Hk2, Eodev. unfold s1. simpl_st. rewrite (Hcs st Hsc). reflexivity. }
    unfold G2 in Hin2. rewrite upd2_other in Hin2 by (right; discriminate).
    rewrite Hrings in Hin2 by discriminate. destruct Hin2. }
  set (s3 := set_alive s2 (upd (alive s2) c false)).
  assert (Hrel : exec f (TRelease c) s2 = Some (tt, s2)).
  { destruct f as [|f']; [lia|]. cbn [exec]. erewrite bind_run by (apply rd_run; exact Hc2). rewrite Hhc. reflexivity. }
  (* kill the embedded wrapper *)
  assert (Hi3 : inv X [d] [d] T G2 s3).
  { assert (Hct : ~ In c T) by exact HcT.
    assert (HcD : ~ In c [d]) by (intros [E|[]]; congruence).
    cut (inv X [d] (remove Nat.eq_dec c [d]) (remove Nat.eq_dec c T) G2 s3).
    { rewrite (notin_remove Nat.eq_dec [d] c HcD), (notin_remove Nat.eq_dec T c Hct). auto. }
    apply inv_kill; try assumption.
    - intros o sl Hin. destruct (i_mem1 _ _ _ _ _ _ _ Hi2 _ _ _ Hin) as [Hh _].
      unfold home in Hh. rewrite Htc2, Hhc in Hh. discriminate.
    - apply (handle_rings _ _ _ _ _ _ _ Hi2). exists KStr. exact Htc2.
    - intros [k Hk]. congruence.
    - intros v Hv. exfalso. apply (Hcv v). rewrite Evars in Hv. exact Hv.
    - intros p Hap Hpw E. destruct (i_inner _ _ _ _ _ _ _ Hi2 p c Hap Hpw E) as (_ & _ & Hc & _). congruence.
    - intros d' Had' Htd' Hdw' E. apply Hdw'. left.
      symmetry. apply (i_cur_inj _ _ _ _ _ _ _ Hi2 d' d Had' Hd2 Htd'); [rewrite Etag; exact Ht|congruence].
    - intros o k Hao Hoc Hto Hk1 Hk2 E.
      destruct (i_dev _ _ _ _ _ _ _ Hi2 o k Hao Hto Hk1 Hk2) as (d' & Hd1' & _ & Hd3').
      rewrite E in Hd1'. injection Hd1' as <-. congruence.
    - intros E. congruence.
    - intros b E. pose proof (i_inner_tag _ _ _ _ _ _ _ Hi2 c b E). congruence. }
  assert (Hd3 : alive s3 d = true) by (unfold s3; simpl_st; rewrite upd_other by exact Hd_c; exact Hd2).
  assert (Hbody : (exec f (TNull d);;; c0 <- rd ocur d;; exec f (TRelease c0);;; kill c0) s1 = Some (tt, s3)).
  { erewrite bind_run by exact Hex2. erewrite bind_run by (apply rd_run; exact Hd2). rewrite Hcur2.
    erewrite bind_run by exact Hrel. apply kill_run. exact Hc2. }
  erewrite bind_run by exact Hbody.
  rewrite (kill_run d s3 Hd3).
  assert (Ht3 : tagof s3 d = TO KDev) by (unfold s3; simpl_st; rewrite Etag; exact Ht).
  exists G2, (set_alive s3 (upd (alive s3) d false)). split; [reflexivity|]. split; [|split; [|split]].
  - eapply kill_obj; try exact Hi3.
    + now left.
    + exact Hd3.
    + exists KDev. exact Ht3.
    + intros [].
    + eapply dev_not_member; eassumption.
    + intros sl. destruct sl; try (unfold G2; rewrite upd2_other by (right; discriminate); apply Hrings; discriminate).
      apply upd2_same.
    + eapply logged_in_D; [exact Hi3|now left].
    + intros p Hap Hpw E. destruct (i_inner _ _ _ _ _ _ _ Hi3 p d Hap Hpw E) as (_ & _ & Hc & _). congruence.
    + intros o k Hao Hod Hto Hk1 Hk2 E.
      (* a live child of d would still be in one of d's rings *)
      assert (Hao2 : alive s2 o = true).
      { unfold s3 in Hao. simpl_st. unfold upd in Hao. destruct (Nat.eqb o c); [discriminate|exact Hao]. }
      assert (Hto2 : tagof s2 o = TO k) by exact Hto.
      assert (Hodev2 : odev s2 o = Some d) by exact E.
      assert (Hox : ~ In o X).
      { intros Hx. destruct (HX o Hx) as [k' Hk']. rewrite Etag in Hto2. unfold s1 in Hto2. simpl_st. congruence. }
      assert (Hchild : forall o', alive s2 o' = true -> ~ In o' X -> forall sl, sl <> SH -> home s2 o' = Some (d, sl) -> False).
      { intros o' Ha' Hx' sl Hsl Hh. pose proof (i_mem2 _ _ _ _ _ _ _ Hi2 o' d sl Ha' Hx' Hh) as Hin.
        unfold G2 in Hin. rewrite upd2_other in Hin by (right; intros Es; apply Hsl; now symmetry).
        rewrite Hrings in Hin by exact Hsl. destruct Hin. }
      destruct (ginner s2 o) eqn:Eg.
      * destruct (i_ginner _ _ _ _ _ _ _ Hi2 o Eg) as [Htb _].
        assert (How : ~ In o [d]) by (intros [E'|[]]; congruence).
        destruct (i_inner_own _ _ _ _ _ _ _ Hi2 o Hao2 Htb Eg How) as (p & Hap & Hop).
        assert (Hpd : p <> d).
        { intros ->. pose proof (i_inner_tag _ _ _ _ _ _ _ Hi2 d o Hop). rewrite Etag in H. unfold s1 in H. simpl_st. congruence. }
        assert (Hpw : ~ In p [d]) by (intros [E'|[]]; congruence).
        destruct (i_inner _ _ _ _ _ _ _ Hi2 p o Hap Hpw Hop) as (Htp & _ & _ & _ & Hodp).
        apply (Hchild p Hap) with (sl := SBuf); [|discriminate|].
        -- intros Hx. destruct (HX p Hx) as [k' Hk']. rewrite Etag in Htp. unfold s1 in Htp. simpl_st. congruence.
        -- unfold home. rewrite Htp, <- Hodp, Hodev2. reflexivity.
      * apply (Hchild o Hao2 Hox (dev_slot k)).
        -- destruct k; try congruence; discriminate.
        -- unfold home. rewrite Hto2, Hodev2, Eg. destruct k; try congruence; reflexivity.
    + intros _. unfold s3. simpl_st. rewrite Hcur2. apply upd_same.
    + intros b E. pose proof (i_inner_tag _ _ _ _ _ _ _ Hi3 d b E). congruence.
  - simpl_st. apply upd_same.
  - eapply shrink_trans; [apply (shrink_dlog s (d :: dlog s))|].
    eapply shrink_trans; [exact Hsh2|].
    eapply shrink_trans; [apply shrink_kill|apply shrink_kill].
  - intros x Hx1 Hx2. simpl_st. destruct (Nat.eq_dec x d) as [->|Hne]; [now left|]. right.
    rewrite upd_other in Hx2 by exact Hne. unfold s3 in Hx2. simpl_st.
    destruct (Nat.eq_dec x c) as [->|Hne2]; [reflexivity|].
    rewrite upd_other in Hx2 by exact Hne2. rewrite Hal2 in Hx2. unfold s1 in Hx2. simpl_st. congruence.
Qed.

(* modeDevice->freeResources(); delete modeDevice *)
Lemma freedev_spec f X T G s d :
  inv X [d] [] T G s -> alive s d = true -> tagof s d = TO KDev ->
  (forall x, In x X -> is_h_tag (tagof s x)) ->
  alive s (ocur s d) = true -> tagof s (ocur s d) = TH KStr -> ~ In (ocur s d) T -> ~ In (ocur s d) X ->
  (forall v, vars s v <> Some (ocur s d)) ->
  (forall st, hptr s (ocur s d) = Some st -> odev s st = Some d) ->
  measure s + 7 <= f ->
  exists G' s', exec f (TFreeDev d) s = Some (tt, s') /\ inv X [d] [] T G' s' /\ alive s' d = false /\
                shrink s s' /\
                (forall x, alive s x = true -> alive s' x = false ->
                   x = d \/ x = ocur s d \/ (is_obj_tag (tagof s x) /\ tagof s x <> TO KDev)).
Proof.
  intros Hi Hd Ht HX Hac Htc HcT HcX Hcv Hcs Hf.
  destruct f as [|f]; [lia|]. cbn [exec]. cbn [v_byref fixed].
  erewrite bind_run by (apply need_run; exact Hd).
  destruct (freering_spec (measure s) f X T G s d SKer) as (G1 & s1 & Hex1 & Hi1 & Hn1 & Hd1 & Hsh1 & Hk1);
    try assumption; try lia; try discriminate.
  assert (Ht1 : tagof s1 d = TO KDev) by (destruct Hsh1 as (_ & E & _); rewrite E; exact Ht).
  pose proof (shrink_measure _ _ Hsh1) as Hm1.
  destruct (freering_spec (measure s1) f X T G1 s1 d SBuf) as (G2 & s2 & Hex2 & Hi2 & Hn2 & Hd2 & Hsh2 & Hk2);
    try assumption; try lia; try discriminate.
  assert (Ht2 : tagof s2 d = TO KDev) by (destruct Hsh2 as (_ & E & _); rewrite E; exact Ht1).
  pose proof (shrink_measure _ _ Hsh2) as Hm2.
  destruct (freering_spec (measure s2) f X T G2 s2 d SStr) as (G3 & s3 & Hex3 & Hi3 & Hn3 & Hd3 & Hsh3 & Hk3);
    try assumption; try lia; try discriminate.
  assert (Ht3 : tagof s3 d = TO KDev) by (destruct Hsh3 as (_ & E & _); rewrite E; exact Ht2).
  pose proof (shrink_measure _ _ Hsh3) as Hm3.
  destruct (freering_spec (measure s3) f X T G3 s3 d STag) as (G4 & s4 & Hex4 & Hi4 & Hn4 & Hd4 & Hsh4 & Hk4);
    try assumption; try lia; try discriminate.
  pose proof (shrink_measure _ _ Hsh4) as Hm4.
  pose proof (shrink_trans _ _ _ Hsh1 Hsh2) as Hsh02.
  pose proof (shrink_trans _ _ _ Hsh02 Hsh3) as Hsh03.
  pose proof (shrink_trans _ _ _ Hsh03 Hsh4) as Hsh04.
  pose proof (objkill_trans _ _ _ Hsh1 Hk1 Hk2) as Hk02.
  pose proof (objkill_trans _ _ _ Hsh02 Hk02 Hk3) as Hk03.
  pose proof (objkill_trans _ _ _ Hsh03 Hk03 Hk4) as Hk04.
  pose proof Hsh04 as (E1 & Etag & Eal & Ehp & Evars & Eodev & Egin & Ecur & Euse & Edus & Emoff & Eps & Eoin & Eob).
  assert (Hc4 : alive s4 (ocur s d) = true).
  { destruct (alive s4 (ocur s d)) eqn:E; [reflexivity|]. destruct (Hk04 _ Hac E) as [[k Hk] _]. congruence. }
  destruct (delete_dev f X T G4 s4 d) as (G5 & s5 & Hex5 & Hi5 & Hd5 & Hsh5 & Hk5); try assumption.
  - rewrite Etag. exact Ht.
  - intros x Hx. rewrite Etag. now apply HX.
  - intros sl Hsl. destruct sl; try congruence.
    + apply nil_if_no_member. intros e Hin.
      pose proof (ring_slot_kind _ _ _ _ _ _ _ _ _ _ _ Hi4 Hin ltac:(rewrite Etag; exact Ht)) as H. destruct H; discriminate.
    + eapply ring_nil_preserved; [exact Hi2|exact Hi4|exact (shrink_trans _ _ _ Hsh3 Hsh4)|apply incl_refl|exact Hn2].
    + eapply ring_nil_preserved; [exact Hi1|exact Hi4| |apply incl_refl|exact Hn1].
      exact (shrink_trans _ _ _ Hsh2 (shrink_trans _ _ _ Hsh3 Hsh4)).
    + eapply ring_nil_preserved; [exact Hi3|exact Hi4|exact Hsh4|apply incl_refl|exact Hn3].
  - rewrite Ecur. exact Hc4.
  - rewrite Ecur, Etag. exact Htc.
  - rewrite Ecur. exact HcT.
  - rewrite Ecur. exact HcX.
  - rewrite Ecur, Evars. exact Hcv.
  - rewrite Ecur, Eodev. intros st Hst. apply Hcs. destruct (Ehp (ocur s d)) as [E|E]; congruence.
  - lia.
  - exists G5, s5. split.
    { assert (Hloops : (exec f (TFreeRingRef d SKer);;; exec f (TFreeRingRef d SBuf);;;
                        exec f (TFreeRingRef d SStr);;; exec f (TFreeRingRef d STag)) s = Some (tt, s4)).
      { erewrite bind_run by exact Hex1. erewrite bind_run by exact Hex2.
        erewrite bind_run by exact Hex3. exact Hex4. }
      erewrite bind_run by exact Hloops. exact Hex5. }
    split; [exact Hi5|]. split; [exact Hd5|]. split; [eapply shrink_trans; eassumption|].
    intros x Hx1 Hx2. destruct (alive s4 x) eqn:E4.
    + destruct (Hk5 x E4 Hx2) as [->|E]; [now left|]. right. left. rewrite Ecur in E. exact E.
    + right. right. now apply Hk04.
Qed.

End E.
